#!/bin/bash
# usage: try_seed.sh <seed id> <worktree> <property> [checks to run...]
# Confirms a seeded change in its scratch worktree (demo passes on HEAD, fails with the
# patch; pinned tests unchanged), runs the given checks on /repo with the patch applied,
# reverts /repo, and stores patch/demo/meta under /verif/seeded/<id>/.
set -u
id=$1; wt=$2; prop=$3; shift 3
cd $wt || exit 2
git diff -- wordseg > /tmp/seed-$id.diff
[ -s /tmp/seed-$id.diff ] || cp patch.diff /tmp/seed-$id.diff
demo=$(ls demo_*.py | head -1)
git checkout -q -- wordseg
echo "--- demo on original:"; PYTHONPATH=$wt PYTHONWARNINGS=ignore /venv/bin/python $demo > /tmp/seed-$id.demo0 2>&1; d0=$?; tail -2 /tmp/seed-$id.demo0
git apply /tmp/seed-$id.diff || { echo "patch does not apply in worktree"; exit 2; }
echo "--- demo with patch:"; PYTHONPATH=$wt PYTHONWARNINGS=ignore /venv/bin/python $demo > /tmp/seed-$id.demo1 2>&1; d1=$?; tail -2 /tmp/seed-$id.demo1
echo "demo exit: original=$d0 patched=$d1"
echo "--- pinned tests with patch:"
/venv/bin/python -m pytest -q -p no:cacheprovider --timeout=900 --continue-on-collection-errors -x -q 2>/dev/null | tail -1
/venv/bin/python -m pytest -q -p no:cacheprovider --timeout=900 --continue-on-collection-errors 2>/dev/null | tail -1 > /tmp/seed-$id.tests
cat /tmp/seed-$id.tests
cd /verif
git -C /repo apply /tmp/seed-$id.diff || { echo "patch does not apply to /repo"; exit 2; }
for c in "$@"; do
  echo "=== check $c with the change applied"
  ./check $c --tier quick 2>&1 | grep -E "VIOLATION|KNOWN-FINDING|^C[0-9]+ quick|^  " | cut -c1-260 | head -8
done
git -C /repo checkout -- .
git -C /repo status --short | head -3
git -C /verif checkout -- evidence/ 2>/dev/null
mkdir -p /verif/seeded/$id
cp /tmp/seed-$id.diff /verif/seeded/$id/patch.diff
cp $wt/$demo /verif/seeded/$id/
[ -f $wt/meta.json ] && cp $wt/meta.json /verif/seeded/$id/meta.agent.json
echo "stored in /verif/seeded/$id"
