#!/usr/bin/env python3
"""Rewrite the table of DESIGN.md section 10 from seeded/*/meta.json (between the two markers)."""
import glob, json, os
ROOT = os.path.dirname(os.path.dirname(os.path.abspath(__file__)))
BEGIN, END = '<!-- seeded-table:begin -->', '<!-- seeded-table:end -->'


def cell(s, n):
    s = s if isinstance(s, str) else json.dumps(s, ensure_ascii=False)
    s = s.replace('|', '\\|').replace('\n', ' ')
    return s if len(s) <= n else s[:n - 1] + '…'


rows = []
for d in sorted(glob.glob(os.path.join(ROOT, 'seeded', '*', ''))):
    m = json.load(open(os.path.join(d, 'meta.json')))
    name = os.path.basename(d.rstrip('/'))
    ck = '; '.join('**%s**: %s' % (k, v) for k, v in m['checks'].items())
    rows.append('| `%s` | %s | %s | %s |' % (name, cell(m['summary'], 260), cell(m['needs'], 260), cell(ck, 2000)))
tbl = BEGIN + '\n| seeded change | what it does | what it needs | checks |\n|---|---|---|---|\n' + '\n'.join(rows) + '\n' + END
p = os.path.join(ROOT, 'DESIGN.md')
s = open(p, encoding='utf8').read()
i, j = s.index(BEGIN), s.index(END) + len(END)
open(p, 'w', encoding='utf8').write(s[:i] + tbl + s[j:])
print('%d seeded changes' % len(rows))
