#!/bin/bash
# usage: tools/reseed_all.sh [seed-id-prefix]
# Regression of the machinery: applies every stored seeded change to /repo in turn, runs the quick check of
# its property, reverts, and prints one line per change: CAUGHT (a VIOLATION with a failing input), CAUGHT-NFI
# (only VIOLATION ... no-failing-input-found), MISSED, or NOAPPLY (the patch no longer applies to HEAD, e.g.
# because the code it touched was repaired since). /repo must be clean and no other check may be running.
set -u
cd /verif
[ -z "$(git -C /repo status --short)" ] || { echo "/repo is not clean"; exit 2; }
for d in seeded/${1:-}*/; do
  id=$(basename $d)
  prop=$(python3 -c "import json,os; d='$d'; f=d+'/meta.json' if os.path.exists(d+'/meta.json') else d+'/meta.agent.json'; m=json.load(open(f)); print(m.get('regress_with', m['property']))")
  retired=$(python3 -c "import json,os; d='$d'; f=d+'/meta.json' if os.path.exists(d+'/meta.json') else d+'/meta.agent.json'; m=json.load(open(f)); print(m.get('retired', ''))")
  if [ -n "$retired" ]; then echo "RETIRED   $id: $retired"; continue; fi
  pf=/verif/$d/patch.diff
  if ! git -C /repo apply --check $pf 2>/dev/null; then
    # the code it touched was repaired since: the same change ported to HEAD, when there is one
    pf=/verif/$d/patch.rebased.diff
    if [ ! -f $pf ] || ! git -C /repo apply --check $pf 2>/dev/null; then echo "NOAPPLY   $id"; continue; fi
  fi
  git -C /repo apply $pf
  full=$(./check $prop --tier quick 2>&1)
  out=$(echo "$full" | grep -E "^VIOLATION")
  git -C /repo checkout -- .
  if ! echo "$full" | grep -qE "^$prop quick:"; then
    # the check did not run to its summary line: not a verdict on the change
    mkdir -p out/reseed-errors; echo "$full" > out/reseed-errors/$id.log
    echo "ERROR     $id ($prop): the check did not complete, see out/reseed-errors/$id.log"
  elif [ -z "$out" ]; then echo "MISSED    $id ($prop)";
  elif echo "$out" | grep -qv "no-failing-input-found"; then echo "CAUGHT    $id ($prop)";
  else echo "CAUGHT-NFI $id ($prop)"; fi
done
git -C /verif checkout -- evidence/ coq/gen 2>/dev/null
git -C /repo status --short
