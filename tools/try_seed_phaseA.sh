#!/bin/bash
# usage: try_seed_phaseA.sh <seed id> <worktree>    (safe to run in parallel: touches only the worktree and /tmp/seed-<id>.*)
# Confirms the demonstration (0 on HEAD, 1 with the patch) and runs the pinned suite in the worktree with the patch applied.
set -u
id=$1; wt=$2
cd $wt || exit 2
git diff -- wordseg > /tmp/seed-$id.diff
[ -s /tmp/seed-$id.diff ] || cp patch.diff /tmp/seed-$id.diff
demo=$(ls demo_*.py | head -1)
git checkout -q -- wordseg
PYTHONPATH=$wt PYTHONWARNINGS=ignore timeout 600 /venv/bin/python $demo > /tmp/seed-$id.demo0 2>&1; d0=$?
git apply /tmp/seed-$id.diff || { echo "$id: patch does not apply in worktree"; exit 2; }
PYTHONPATH=$wt PYTHONWARNINGS=ignore timeout 600 /venv/bin/python $demo > /tmp/seed-$id.demo1 2>&1; d1=$?
env -u WORDSEG_VERIF_BINDIR -u PYTHONPATH /venv/bin/python -m pytest -q -p no:cacheprovider --timeout=900 --continue-on-collection-errors 2>/dev/null | tail -1 > /tmp/seed-$id.tests
echo "$id demo original=$d0 patched=$d1 tests: $(cat /tmp/seed-$id.tests)"
