#!/bin/bash
# usage: try_seed_phaseB.sh <seed id> <worktree> <property> [checks...]   (sequential: applies the patch to /repo, runs the checks, reverts)
set -u
id=$1; wt=$2; prop=$3; shift 3
cd /verif
[ -z "$(git -C /repo status --short)" ] || { echo "/repo not clean"; exit 2; }
git -C /repo apply /tmp/seed-$id.diff || { echo "patch does not apply to /repo"; exit 2; }
for c in "$@"; do
  echo "=== $id: check $c with the change applied"
  ./check $c --tier quick 2>&1 | grep -E "VIOLATION|KNOWN-FINDING|^C[0-9]+ quick|^  " | cut -c1-260 | head -6
done
git -C /repo checkout -- .
git -C /verif checkout -- evidence/ coq/gen 2>/dev/null
mkdir -p /verif/seeded/$id
cp /tmp/seed-$id.diff /verif/seeded/$id/patch.diff
cp $wt/demo_*.py /verif/seeded/$id/
[ -f $wt/meta.json ] && cp $wt/meta.json /verif/seeded/$id/meta.agent.json
echo "stored in /verif/seeded/$id"
