(* Model of wordseg/folding.py (boundaries, fold, unfold).
   Lines are opaque (type A): the code never inspects them. Indices are nat:
   the harness only passes non-negative indices (negative Python indices are
   outside the property's quantifier). *)
From WS Require Import Base.Py.

Section Folding.
Context {A : Type}.

(* _permute: [l[-1]] + l[0:-1] ; on the empty list l[-1] raises, never reached *)
Definition permute {B} (l : list B) : list B :=
  match rev l with [] => [] | x :: r => x :: rev r end.

Fixpoint iter_permute {B} (i : nat) (l : list B) : list B :=
  match i with O => l | S i' => permute (iter_permute i' l) end.

(* boundaries(text, nfolds): only len(text) matters *)
Definition boundaries (n : nat) (k : Z) : result (list nat) :=
  if (k <? 1)%Z then Raise ValueError
  else if (Z.of_nat n <? k)%Z then Raise ValueError
  else Ok (map (fun i => i * (n / Z.to_nat k)) (seq 0 (Z.to_nat k))).

(* text[a:b] for 0 <= a, 0 <= b *)
Definition slice (l : list A) (a b : nat) : list A := firstn (b - a) (skipn a l).

(* blocks = [text[b[i]:b[i+1]] for i in range(len(b)-1)] + [text[b[-1]:]] ; b non-empty *)
Fixpoint blocks (text : list A) (b : list nat) : list (list A) :=
  match b with
  | [] => []
  | [x] => [skipn x text]
  | x :: ((y :: _) as r) => slice text x y :: blocks text r
  end.

Definition fold_one (bl : list (list A)) (idx : list nat) : list A * nat :=
  let parts := map (fun j => nth j bl []) idx in
  (concat parts, length (concat (removelast parts))).

Definition fold_with (text : list A) (b : list nat) : result (list (list A) * list nat) :=
  match b with
  | [] => Raise IndexError              (* b[-1] *)
  | [_] => Raise IndexError             (* _cumsum(...)[-2] on a 1-list *)
  | _ =>
    let k := length b in
    let bl := blocks text b in
    let fs := map (fun i => fold_one bl (iter_permute i (seq 0 k))) (seq 0 k) in
    if forallb (fun f => Nat.eqb (length (fst f)) (length text)) fs
    then Ok (map fst fs, map snd fs)
    else Raise AssertionError
  end.

Definition fold (text : list A) (nfolds : Z) (fb : option (list nat))
  : result (list (list A) * list nat) :=
  (* fix 3836b17: the number of folds is checked first, in every case (ValueError) *)
  do dflt <- boundaries (length text) nfolds;
  if (nfolds =? 1)%Z then Ok ([text], [0])
  else match fb with
       | Some b => fold_with text b
       | None => fold_with text dflt
       end.

(* unfold(folds, index): index at least as long as folds (else IndexError) *)
Fixpoint last_blocks (folds : list (list A)) (index : list nat) : result (list (list A)) :=
  match folds, index with
  | [], _ => Ok []
  | f :: fs, i :: is_ => do r <- last_blocks fs is_; Ok (skipn i f :: r)
  | _ :: _, [] => Raise IndexError
  end.

Definition unfold (folds : list (list A)) (index : list nat) : result (list A) :=
  do lb <- last_blocks folds index; Ok (concat (rev lb)).

End Folding.

(* wire wrappers (lines are integers) *)
Definition j_folds (r : list (list Z) * list nat) : J :=
  JL [j_list (j_list JI) (fst r); j_list j_nat (snd r)].

Definition run_boundaries (j : J) : J :=
  match j with
  | JL [n; k] =>
    match d_nat n, d_Z k with
    | Some n, Some k => j_result (j_list j_nat) (boundaries n k)
    | _, _ => j_bad end
  | _ => j_bad end.

Definition run_fold (j : J) : J :=
  match j with
  | JL [t; k; fb] =>
    match d_list d_Z t, d_Z k, d_option (d_list d_nat) fb with
    | Some t, Some k, Some fb => j_result j_folds (fold t k fb)
    | _, _, _ => j_bad end
  | _ => j_bad end.

Definition run_unfold (j : J) : J :=
  match j with
  | JL [fs; ix] =>
    match d_list (d_list d_Z) fs, d_list d_nat ix with
    | Some fs, Some ix => j_result (j_list JI) (unfold fs ix)
    | _, _ => j_bad end
  | _ => j_bad end.

(* fold then unfold, the composite the clients use *)
Definition run_fold_unfold (j : J) : J :=
  match j with
  | JL [t; k; fb] =>
    match d_list d_Z t, d_Z k, d_option (d_list d_nat) fb with
    | Some t, Some k, Some fb =>
      j_result (j_list JI) (do fi <- fold t k fb; unfold (fst fi) (snd fi))
    | _, _, _ => j_bad end
  | _ => j_bad end.
