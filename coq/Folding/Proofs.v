From WS Require Import Base.Py Base.ListX Folding.Model.
From Coq Require Import Sorting.Sorted Permutation.

Section Proofs.
Context {A : Type}.
Implicit Types (text : list A) (b : list nat).

(* ---------- generic list facts ---------- *)

Lemma permute_snoc {B} (l : list B) x : permute (l ++ [x]) = x :: l.
Proof. unfold permute. rewrite rev_app_distr. simpl. now rewrite rev_involutive. Qed.

Lemma map_nth_seq {B} (l : list B) d a n :
  a + n <= length l -> map (fun j => nth j l d) (seq a n) = firstn n (skipn a l).
Proof.
  revert a l; induction n as [|n IH]; intros a l H; [reflexivity|].
  simpl seq. simpl map. rewrite IH by lia.
  assert (Ha : a < length l) by lia.
  clear IH H. revert l Ha. induction a as [|a IHa]; intros l Ha.
  - destruct l; simpl in *; [lia|reflexivity].
  - destruct l as [|y l]; simpl in Ha; [lia|].
    change (nth (S a) (y :: l) d) with (nth a l d).
    change (skipn (S a) (y :: l)) with (skipn a l).
    change (skipn (S (S a)) (y :: l)) with (skipn (S a) l).
    apply IHa. lia.
Qed.

Lemma nth_map_seq {B} (f : nat -> B) a k i d :
  i < k -> nth i (map f (seq a k)) d = f (a + i).
Proof.
  revert a i; induction k as [|k IH]; intros a i H; [lia|].
  destruct i as [|i]; simpl.
  - now rewrite Nat.add_0_r.
  - rewrite IH by lia. f_equal. lia.
Qed.

Lemma skipn_concat_removelast {B} (parts : list (list B)) :
  parts <> [] ->
  skipn (length (concat (removelast parts))) (concat parts) = last parts [].
Proof.
  intros H. rewrite (app_removelast_last [] H) at 2.
  rewrite concat_app. simpl. rewrite app_nil_r.
  rewrite skipn_app, skipn_all, Nat.sub_diag. reflexivity.
Qed.

Lemma Forall2_skipn {B C} (R : B -> C -> Prop) n l l' :
  Forall2 R l l' -> Forall2 R (skipn n l) (skipn n l').
Proof.
  intros H; revert n; induction H; intros [|n]; simpl; auto.
Qed.

Lemma Forall2_concat {B C} (R : B -> C -> Prop) ll ll' :
  Forall2 (Forall2 R) ll ll' -> Forall2 R (concat ll) (concat ll').
Proof. induction 1; simpl; auto using Forall2_app. Qed.

Lemma Forall2_rev {B C} (R : B -> C -> Prop) l l' :
  Forall2 R l l' -> Forall2 R (rev l) (rev l').
Proof. induction 1; simpl; auto using Forall2_app. Qed.

(* ---------- boundaries ---------- *)

Definition default_bounds (n k : nat) : list nat :=
  map (fun i => i * (n / k)) (seq 0 k).

Lemma boundaries_ok n k :
  (1 <= k)%Z -> (k <= Z.of_nat n)%Z ->
  boundaries n k = Ok (default_bounds n (Z.to_nat k)).
Proof.
  intros H1 H2. unfold boundaries.
  destruct (Z.ltb_spec k 1); [lia|].
  destruct (Z.ltb_spec (Z.of_nat n) k); [lia|]. reflexivity.
Qed.

Lemma boundaries_err n k :
  (k < 1)%Z \/ (Z.of_nat n < k)%Z -> boundaries n k = Raise ValueError.
Proof.
  intros H. unfold boundaries.
  destruct (Z.ltb_spec k 1); [reflexivity|].
  destruct (Z.ltb_spec (Z.of_nat n) k); [reflexivity|lia].
Qed.

Lemma default_bounds_length n k : length (default_bounds n k) = k.
Proof. unfold default_bounds. now rewrite map_length, seq_length. Qed.

Lemma default_bounds_nth n k i :
  i < k -> nth i (default_bounds n k) 0 = i * (n / k).
Proof.
  intros H. unfold default_bounds. now rewrite nth_map_seq.
Qed.

Lemma default_bounds_lt n k i :
  1 <= k -> k <= n -> i < k -> nth i (default_bounds n k) 0 < n.
Proof.
  intros H1 H2 Hi. rewrite default_bounds_nth by lia.
  assert (Hq : k * (n / k) <= n) by (apply Nat.mul_div_le; lia).
  assert (1 <= n / k) by (apply Nat.div_le_lower_bound; lia).
  nia.
Qed.

Lemma seq_map_strict (q : nat) a k :
  1 <= q -> StronglySorted lt (map (fun i => i * q) (seq a k)).
Proof.
  intros Hq. revert a; induction k as [|k IH]; intros a; simpl; constructor.
  - apply IH.
  - apply Forall_forall. intros x Hx. apply in_map_iff in Hx.
    destruct Hx as [j [<- Hj]]. apply in_seq in Hj. nia.
Qed.

Lemma default_bounds_sorted n k :
  1 <= k -> k <= n -> StronglySorted lt (default_bounds n k).
Proof.
  intros H1 H2. apply seq_map_strict. apply Nat.div_le_lower_bound; lia.
Qed.

Lemma default_bounds_hd n k : 1 <= k -> hd 0 (default_bounds n k) = 0.
Proof. intros H. destruct k; [lia|]. reflexivity. Qed.

(* ---------- blocks ---------- *)

(* weakly increasing start indices beginning anywhere *)
Fixpoint incr (b : list nat) : Prop :=
  match b with
  | [] => True
  | x :: r => match r with [] => True | y :: _ => x <= y end /\ incr r
  end.

Lemma StronglySorted_lt_incr b : StronglySorted lt b -> incr b.
Proof.
  induction 1 as [|x r Hs IH Hf]; simpl; [exact I|].
  split; [|exact IH]. destruct r as [|y r']; [exact I|].
  inversion Hf; subst. lia.
Qed.

Lemma blocks_length text b : length (blocks text b) = length b.
Proof.
  induction b as [|x r IH]; [reflexivity|].
  destruct r as [|y r']; [reflexivity|]. simpl in *. now rewrite IH.
Qed.

Lemma slice_skipn text x y : x <= y -> slice text x y ++ skipn y text = skipn x text.
Proof.
  intros H. unfold slice.
  replace (skipn y text) with (skipn (y - x) (skipn x text)).
  - apply firstn_skipn.
  - rewrite skipn_skipn. f_equal. lia.
Qed.

Lemma concat_blocks text x r :
  incr (x :: r) -> concat (blocks text (x :: r)) = skipn x text.
Proof.
  revert x; induction r as [|y r IH]; intros x H.
  - simpl. now rewrite app_nil_r.
  - destruct H as [Hxy Hr].
    change (blocks text (x :: y :: r)) with (slice text x y :: blocks text (y :: r)).
    cbn [concat]. rewrite IH by exact Hr. now apply slice_skipn.
Qed.

(* concatenation of the first m blocks = text up to the m-th start index *)
Lemma concat_firstn_blocks text b m :
  incr b -> hd 0 b = 0 -> m < length b ->
  concat (firstn m (blocks text b)) = firstn (nth m b 0) text.
Proof.
  intros Hi Hh Hm.
  assert (G : forall b x m, incr (x :: b) -> m < length (x :: b) ->
            concat (firstn m (blocks text (x :: b)))
            = slice text x (nth m (x :: b) 0)).
  { clear. induction b as [|y r IH]; intros x m Hi Hm.
    - simpl in Hm. assert (m = 0) by lia. subst. simpl. unfold slice.
      now rewrite Nat.sub_diag.
    - destruct m as [|m].
      + simpl. unfold slice. now rewrite Nat.sub_diag.
      + destruct Hi as [Hxy Hr].
        change (blocks text (x :: y :: r)) with (slice text x y :: blocks text (y :: r)).
        cbn [firstn concat]. rewrite IH by (simpl in *; auto; lia).
        change (nth (S m) (x :: y :: r) 0) with (nth m (y :: r) 0).
        assert (Hle : y <= nth m (y :: r) 0).
        { clear - Hr Hm. simpl in Hm. assert (Hm' : m < length (y :: r)) by (simpl; lia).
          clear Hm. revert y m Hr Hm'. induction r as [|z r IHr]; intros y m Hr Hm.
          - simpl in Hm. assert (m = 0) by lia. subst. simpl. lia.
          - destruct m as [|m]; [simpl; lia|]. destruct Hr as [Hyz Hr].
            change (nth (S m) (y :: z :: r) 0) with (nth m (z :: r) 0).
            specialize (IHr z m Hr). simpl in Hm. simpl length in IHr.
            assert (z <= nth m (z :: r) 0) by (apply IHr; lia). lia. }
        unfold slice.
        set (t := nth m (y :: r) 0) in *.
        (* firstn (y-x) (skipn x text) ++ firstn (t-y) (skipn y text) = firstn (t-x) (skipn x text) *)
        replace (t - x) with ((y - x) + (t - y)) by lia.
        rewrite firstn_add. f_equal. rewrite skipn_skipn. f_equal. f_equal. lia. }
  destruct b as [|x r]; [simpl in Hm; lia|].
  simpl in Hh. subst x. rewrite G by assumption. unfold slice.
  simpl skipn. now rewrite Nat.sub_0_r.
Qed.

Lemma concat_skipn_blocks text b m :
  incr b -> hd 0 b = 0 -> m < length b ->
  concat (skipn m (blocks text b)) = skipn (nth m b 0) text.
Proof.
  intros Hi Hh Hm.
  assert (Hall : concat (blocks text b) = text).
  { destruct b as [|x r]; [simpl in Hm; lia|]. simpl in Hh; subst.
    now rewrite concat_blocks. }
  pose proof (concat_firstn_blocks text b m Hi Hh Hm) as Hf.
  rewrite <- (firstn_skipn m (blocks text b)) in Hall.
  rewrite concat_app, Hf in Hall.
  pose proof (firstn_skipn (nth m b 0) text) as Hs. rewrite <- Hs in Hall at 3.
  apply app_inv_head in Hall. exact Hall.
Qed.

(* ---------- the rotation of block indices ---------- *)

Lemma iter_permute_seq k i :
  i <= k -> iter_permute i (seq 0 k) = seq (k - i) i ++ seq 0 (k - i).
Proof.
  induction i as [|i IH]; intros H.
  - simpl. now rewrite Nat.sub_0_r.
  - simpl iter_permute. rewrite IH by lia.
    replace (k - i) with (S (k - S i)) by lia.
    rewrite seq_S. rewrite app_assoc, permute_snoc. simpl. reflexivity.
Qed.

Definition valid_bounds (b : list nat) : Prop :=
  2 <= length b /\ hd 0 b = 0 /\ incr b.

(* start index (in text) of the rotation used for fold i; b[k] reads as "end" *)
Definition cut text b (i : nat) : nat :=
  if Nat.eqb i 0 then 0 else nth (length b - i) b 0.

Lemma parts_rotation text b i :
  i < length b ->
  map (fun j => nth j (blocks text b) []) (iter_permute i (seq 0 (length b)))
  = skipn (length b - i) (blocks text b) ++ firstn (length b - i) (blocks text b).
Proof.
  intros Hi. set (k := length b). set (bl := blocks text b).
  assert (Hl : length bl = k) by apply blocks_length.
  rewrite iter_permute_seq by lia. rewrite map_app.
  rewrite !map_nth_seq by lia. simpl skipn.
  f_equal. apply firstn_all2. rewrite skipn_length. lia.
Qed.

Lemma fold_one_rotation text b i :
  valid_bounds b -> i < length b ->
  fst (fold_one (blocks text b) (iter_permute i (seq 0 (length b))))
  = skipn (cut text b i) text ++ firstn (cut text b i) text.
Proof.
  intros (Hlen & Hh & Hinc) Hi. unfold fold_one. cbn [fst].
  rewrite parts_rotation by exact Hi. rewrite concat_app. unfold cut.
  destruct (Nat.eqb_spec i 0) as [->|Hne].
  - rewrite Nat.sub_0_r. rewrite skipn_all2 by (rewrite blocks_length; lia).
    rewrite firstn_all2 by (rewrite blocks_length; lia).
    destruct b as [|x r]; [simpl in Hlen; lia|]. simpl in Hh; subst.
    rewrite concat_blocks by exact Hinc. cbn [concat app skipn firstn].
    now rewrite app_nil_r.
  - rewrite concat_skipn_blocks, concat_firstn_blocks by (auto; lia). reflexivity.
Qed.

Lemma fold_one_last_block text b i :
  valid_bounds b -> i < length b ->
  let f := fold_one (blocks text b) (iter_permute i (seq 0 (length b))) in
  skipn (snd f) (fst f) = nth (length b - 1 - i) (blocks text b) [].
Proof.
  intros (Hlen & Hh & Hinc) Hi. cbn zeta. unfold fold_one. cbn [fst snd].
  set (k := length b). set (bl := blocks text b).
  assert (Hl : length bl = k) by apply blocks_length.
  rewrite skipn_concat_removelast.
  2:{ intros Hnil. apply (f_equal (@length _)) in Hnil.
      rewrite map_length, iter_permute_seq, app_length, !seq_length in Hnil by lia.
      simpl in Hnil. lia. }
  rewrite iter_permute_seq by lia. rewrite map_app.
  replace (k - i) with (S (k - 1 - i)) at 2 by lia.
  rewrite seq_S, map_app, app_assoc. simpl. now rewrite last_last.
Qed.

(* ---------- fold ---------- *)

Definition fold_spec text b : list (list A) * list nat :=
  let k := length b in let bl := blocks text b in
  let fs := map (fun i => fold_one bl (iter_permute i (seq 0 k))) (seq 0 k) in
  (map fst fs, map snd fs).

Lemma fold_with_ok text b :
  valid_bounds b -> fold_with text b = Ok (fold_spec text b).
Proof.
  intros Hv. pose proof Hv as (Hlen & Hh & Hinc). unfold fold_with.
  destruct b as [|x [|y r]]; [simpl in Hlen; lia | simpl in Hlen; lia|].
  set (b := x :: y :: r) in *.
  match goal with |- (if forallb ?p ?l then _ else _) = _ =>
    assert (Hall : forallb p l = true) end.
  { apply forallb_forall. intros f Hf. apply in_map_iff in Hf.
    destruct Hf as [i [<- Hi]]. apply in_seq in Hi.
    rewrite fold_one_rotation by (auto; lia).
    rewrite app_length, Nat.add_comm, <- app_length, firstn_skipn.
    apply Nat.eqb_refl. }
  rewrite Hall. reflexivity.
Qed.

Theorem fold_count text b : valid_bounds b ->
  length (fst (fold_spec text b)) = length b /\ length (snd (fold_spec text b)) = length b.
Proof. intros _. unfold fold_spec. cbn [fst snd]. now rewrite !map_length, seq_length. Qed.

Theorem fold_rotation text b i :
  valid_bounds b -> i < length b ->
  nth i (fst (fold_spec text b)) [] = skipn (cut text b i) text ++ firstn (cut text b i) text.
Proof.
  intros Hv Hi. unfold fold_spec. cbn [fst]. rewrite map_map.
  rewrite nth_map_seq by exact Hi. simpl. now apply fold_one_rotation.
Qed.

Theorem fold_permutation text b i :
  valid_bounds b -> i < length b -> Permutation text (nth i (fst (fold_spec text b)) []).
Proof.
  intros Hv Hi. rewrite fold_rotation by assumption.
  rewrite <- (firstn_skipn (cut text b i) text) at 1. apply Permutation_app_comm.
Qed.

(* the final blocks of the folds, in fold order, are the blocks in reverse *)
Theorem fold_last_blocks text b :
  valid_bounds b ->
  last_blocks (fst (fold_spec text b)) (snd (fold_spec text b)) = Ok (rev (blocks text b)).
Proof.
  intros Hv. unfold fold_spec. cbn [fst snd].
  set (k := length b). set (bl := blocks text b).
  set (F := fun i => fold_one bl (iter_permute i (seq 0 k))).
  assert (G : forall a m, a + m <= k ->
     last_blocks (map fst (map F (seq a m))) (map snd (map F (seq a m)))
     = Ok (map (fun i => nth (k - 1 - i) bl []) (seq a m))).
  { intros a m; revert a; induction m as [|m IH]; intros a H; [reflexivity|].
    simpl. rewrite IH by lia. simpl. f_equal. f_equal.
    apply (fold_one_last_block text b a Hv). unfold k in H. lia. }
  rewrite G by lia. f_equal.
  assert (Hl : length bl = k) by apply blocks_length.
  apply nth_ext with (d := []) (d' := []).
  - now rewrite map_length, seq_length, rev_length.
  - intros n Hn. rewrite map_length, seq_length in Hn.
    rewrite nth_map_seq by exact Hn. simpl.
    rewrite rev_nth by lia. f_equal. lia.
Qed.

Theorem unfold_fold text b :
  valid_bounds b ->
  unfold (fst (fold_spec text b)) (snd (fold_spec text b)) = Ok text.
Proof.
  intros Hv. unfold unfold. rewrite fold_last_blocks by exact Hv. simpl.
  rewrite rev_involutive. destruct Hv as (Hlen & Hh & Hinc).
  destruct b as [|x r]; [simpl in Hlen; lia|]. simpl in Hh; subst.
  now rewrite concat_blocks.
Qed.

End Proofs.

(* ---------- unfolding transformed folds ---------- *)

Section Transformed.
Context {A B : Type} (R : A -> B -> Prop).

Lemma last_blocks_Forall2 (fs : list (list A)) (fs' : list (list B)) ix lb :
  Forall2 (Forall2 R) fs fs' -> last_blocks fs ix = Ok lb ->
  exists lb', last_blocks fs' ix = Ok lb' /\ Forall2 (Forall2 R) lb lb'.
Proof.
  intros H; revert ix lb; induction H as [|f f' fs fs' Hf Hfs IH]; intros ix lb Hlb.
  - simpl in Hlb. inversion Hlb; subst. exists []. split; [reflexivity|constructor].
  - destruct ix as [|i ix]; [discriminate|]. simpl in Hlb.
    destruct (last_blocks fs ix) as [r|e] eqn:E; [|discriminate].
    simpl in Hlb. inversion Hlb; subst.
    destruct (IH ix r E) as [r' [Hr' HR]].
    exists (skipn i f' :: r'). split.
    + simpl. now rewrite Hr'.
    + constructor; [now apply Forall2_skipn|exact HR].
Qed.

(* Any per-fold transformation that relates each fold line-by-line to its
   output (same number of lines, line j related to line j) unfolds to an
   output related line-by-line to the original text. *)
Theorem unfold_transformed (text : list A) b (folds' : list (list B)) :
  valid_bounds b ->
  Forall2 (Forall2 R) (fst (fold_spec text b)) folds' ->
  exists out, unfold folds' (snd (fold_spec text b)) = Ok out /\ Forall2 R text out.
Proof.
  intros Hv HF.
  pose proof (fold_last_blocks text b Hv) as Hlb.
  destruct (last_blocks_Forall2 _ _ _ _ HF Hlb) as [lb' [Hlb' HR]].
  exists (concat (rev lb')). split.
  - unfold unfold. now rewrite Hlb'.
  - pose proof (unfold_fold text b Hv) as Hu. unfold unfold in Hu.
    rewrite Hlb in Hu. simpl in Hu.
    assert (Ht : concat (rev (rev (blocks text b))) = text) by congruence. clear Hu.
    assert (G : Forall2 R (concat (rev (rev (blocks text b)))) (concat (rev lb')))
      by (apply Forall2_concat, Forall2_rev, HR).
    rewrite Ht in G. exact G.
Qed.

End Transformed.

Theorem unfold_map {A B} (f : A -> B) (text : list A) b :
  valid_bounds b ->
  unfold (map (map f) (fst (fold_spec text b))) (snd (fold_spec text b)) = Ok (map f text).
Proof.
  intros Hv.
  destruct (unfold_transformed (fun x y => y = f x) text b
              (map (map f) (fst (fold_spec text b))) Hv) as [out [Ho HR]].
  - clear. induction (fst (fold_spec text b)) as [|l ls IH]; simpl; constructor; auto.
    clear. induction l; simpl; constructor; auto.
  - rewrite Ho. f_equal. clear - HR. induction HR; simpl; congruence.
Qed.

(* k = 1 shortcut: the fold count is checked first (fix 3836b17), so the text must be non-empty *)
Lemma fold_one_fold {A} (text : list A) fb : text <> [] -> fold text 1 fb = Ok ([text], [0]).
Proof.
  intros H. unfold fold. rewrite boundaries_ok; [reflexivity | lia |].
  destruct text; [contradiction | simpl length; lia].
Qed.

Lemma unfold_single {A} (text : list A) : unfold [text] [0] = Ok text.
Proof. unfold unfold. simpl. now rewrite app_nil_r. Qed.

Lemma default_bounds_valid n k : 2 <= k -> k <= n -> valid_bounds (default_bounds n k).
Proof.
  intros H1 H2. split; [|split].
  - rewrite default_bounds_length. lia.
  - apply default_bounds_hd. lia.
  - apply StronglySorted_lt_incr, default_bounds_sorted; lia.
Qed.

(* fold with default boundaries, every legal k *)
Theorem fold_default_ok {A} (text : list A) k :
  (2 <= k)%Z -> (k <= Z.of_nat (length text))%Z ->
  fold text k None = Ok (fold_spec text (default_bounds (length text) (Z.to_nat k))).
Proof.
  intros H1 H2. unfold fold. destruct (Z.eqb_spec k 1); [lia|].
  rewrite boundaries_ok by lia. simpl.
  apply fold_with_ok, default_bounds_valid; lia.
Qed.

(* fold with caller-given boundaries: the fold count is checked first, then the
   caller's boundaries are used whatever the default ones are *)
Theorem fold_custom_ok {A} (text : list A) k b :
  (2 <= k)%Z -> (k <= Z.of_nat (length text))%Z -> valid_bounds b ->
  fold text k (Some b) = Ok (fold_spec text b).
Proof.
  intros H1 H2 Hv. unfold fold. rewrite boundaries_ok by lia. cbn [bind].
  destruct (Z.eqb_spec k 1); [lia|]. now apply fold_with_ok.
Qed.

(* an invalid fold count is refused in every case: k = 1 and caller-given boundaries included *)
Theorem fold_errors {A} (text : list A) k fb :
  (k < 1)%Z \/ (Z.of_nat (length text) < k)%Z ->
  fold text k fb = Raise ValueError.
Proof.
  intros H. unfold fold. now rewrite boundaries_err.
Qed.

Theorem fold_empty_raises {A} k fb : fold (@nil A) k fb = Raise ValueError.
Proof.
  apply fold_errors. simpl length. lia.
Qed.
