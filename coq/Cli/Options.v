(* Option-table compatibility predicates (property C17a); the tables themselves
   are generated from the sources on every run (gen/Options.v). *)
From WS Require Import Base.Py.

Fixpoint lookup_flag (t : list (N * bool)) (f : N) : option bool :=
  match t with
  | [] => None
  | (g, v) :: r => if (f =? g)%N then Some v else lookup_flag r f
  end.

(* a flag passed by the wrapper must be declared by getopt with the same arity and have a case label *)
Definition ag_row_ok (getopt : list (N * bool)) (cases : list N) (row : N * bool) : bool :=
  match lookup_flag getopt (fst row) with
  | Some v => Bool.eqb v (snd row) && existsb (fun c => (c =? fst row)%N) cases
  | None => false
  end.

Definition ag_table_ok (rows getopt : list (N * bool)) (cases : list N) : bool :=
  forallb (ag_row_ok getopt cases) rows.

Fixpoint name_eqb (a b : list N) : bool :=
  match a, b with
  | [], [] => true
  | x :: a', y :: b' => (x =? y)%N && name_eqb a' b'
  | _, _ => false
  end.

Fixpoint lookup_name (t : list (list N * N)) (n : list N) : option N :=
  match t with
  | [] => None
  | (m, k) :: r => if name_eqb n m then Some k else lookup_name r n
  end.

(* python kind: 0 bool (passed as 1), 1 int, 2 float, 3 str; C++ kind: 0 none, 1 uint, 2 float, 3 str, 4 bool *)
Definition kinds_compatible (py cpp : N) : bool :=
  match py, cpp with
  | 0, 1 | 0, 4 => true
  | 1, 1 | 1, 2 => true
  | 2, 2 => true
  | 3, 3 => true
  | _, _ => false
  end%N.

Definition dp_row_ok (cpp : list (list N * N)) (row : list N * N) : bool :=
  match lookup_name cpp (fst row) with
  | Some k => kinds_compatible (snd row) k
  | None => false
  end.

Definition dp_table_ok (rows cpp : list (list N * N)) : bool := forallb (dp_row_ok cpp) rows.

(* what the table check means *)
Lemma ag_table_ok_spec rows getopt cases :
  ag_table_ok rows getopt cases = true ->
  forall f v, In (f, v) rows -> lookup_flag getopt f = Some v /\ In f cases.
Proof.
  unfold ag_table_ok. rewrite forallb_forall. intros H f v Hin.
  specialize (H (f, v) Hin). unfold ag_row_ok in H. cbn [fst snd] in H.
  destruct (lookup_flag getopt f) as [w|]; [|discriminate].
  apply andb_true_iff in H. destruct H as [H1 H2].
  apply Bool.eqb_prop in H1. subst w. split; [reflexivity|].
  apply existsb_exists in H2. destruct H2 as [c [Hc E]]. apply N.eqb_eq in E. now subst c.
Qed.

Lemma dp_table_ok_spec rows cpp :
  dp_table_ok rows cpp = true ->
  forall n k, In (n, k) rows -> exists k', lookup_name cpp n = Some k' /\ kinds_compatible k k' = true.
Proof.
  unfold dp_table_ok. rewrite forallb_forall. intros H n k Hin.
  specialize (H (n, k) Hin). unfold dp_row_ok in H. cbn [fst snd] in H.
  destruct (lookup_name cpp n) as [k'|]; [|discriminate]. eauto.
Qed.

(* ---------- which option values the command lines leave out ---------- *)
(* The commands walk over the argparse namespace and skip some values with a Python condition
   (regenerated as a [cond] in gen/Options.v). Values and Python's == / is between them: *)
From Coq Require Import QArith.
Inductive pyval := PNone | PBool (b : bool) | PNum (q : Q) | PStr (s : list N).

Definition num_of (v : pyval) : option Q :=
  match v with PBool b => Some (if b then 1 else 0)%Q | PNum q => Some q | _ => None end.

(* ==  (bool is a subclass of int: False == 0, True == 1) *)
Definition py_eq (a b : pyval) : bool :=
  match a, b with
  | PNone, PNone => true
  | PStr s, PStr t => name_eqb s t
  | _, _ => match num_of a, num_of b with Some x, Some y => Qeq_bool x y | _, _ => false end
  end.

(* is, for the singletons None, True, False *)
Definition py_is (a b : pyval) : bool :=
  match a, b with
  | PNone, PNone => true
  | PBool x, PBool y => Bool.eqb x y
  | _, _ => false
  end.

Inductive cond :=
| CIn (l : list pyval) | CEq (c : pyval) | CNe (c : pyval) | CIs (c : pyval) | CIsNot (c : pyval)
| CAnd (a b : cond) | COr (a b : cond) | CNot (a : cond).

Fixpoint eval_cond (c : cond) (v : pyval) : bool :=
  match c with
  | CIn l => existsb (py_eq v) l
  | CEq c => py_eq v c
  | CNe c => negb (py_eq v c)
  | CIs c => py_is v c
  | CIsNot c => negb (py_is v c)
  | CAnd a b => eval_cond a v && eval_cond b v
  | COr a b => eval_cond a v || eval_cond b v
  | CNot a => negb (eval_cond a v)
  end.

(* decides goals "eval_cond <generated condition> v = true <-> v = ..." by cases on the value *)
Ltac skip_cases v :=
  destruct v as [| [|] | ?q | ?s]; cbn -[Qeq_bool];
  repeat match goal with |- context [Qeq_bool ?a ?b] => destruct (Qeq_bool a b) end;
  cbn; intros ?H; try discriminate; auto.

(* the defect repaired by ad98cf9: "v in (None, False)" also skips the number 0 *)
Example in_none_false_skips_zero : eval_cond (CIn [PNone; PBool false]) (PNum 0) = true.
Proof. reflexivity. Qed.

(* ---------- how a command writes its result ---------- *)
(* A command computes the lines with its function (which may raise) and writes them.  With a single
   write of the whole text, evaluated before anything is written, an error leaves the stream empty. *)
Inductive wmode := WriteAll | WriteEach.
Definition mode_of (row : list N * nat * bool) : wmode :=
  let '(_, n, looped) := row in if Nat.eqb n 1 && negb looped then WriteAll else WriteEach.

(* what is on the result stream when the function yields its lines one by one and fails after k of them *)
Definition written (m : wmode) (yielded : list (list N)) (fails : bool) : list (list N) :=
  match m with
  | WriteAll => if fails then [] else yielded
  | WriteEach => yielded
  end.

Lemma write_all_no_partial_result : forall yielded, written WriteAll yielded true = [].
Proof. reflexivity. Qed.
Lemma write_each_partial_result : forall l, l <> [] -> written WriteEach l true <> [].
Proof. intros l H. exact H. Qed.
