(* Option-table compatibility predicates (property C17a); the tables themselves
   are generated from the sources on every run (gen/Options.v). *)
From WS Require Import Base.Py.

Fixpoint lookup_flag (t : list (N * bool)) (f : N) : option bool :=
  match t with
  | [] => None
  | (g, v) :: r => if (f =? g)%N then Some v else lookup_flag r f
  end.

(* a flag passed by the wrapper must be declared by getopt with the same arity and have a case label *)
Definition ag_row_ok (getopt : list (N * bool)) (cases : list N) (row : N * bool) : bool :=
  match lookup_flag getopt (fst row) with
  | Some v => Bool.eqb v (snd row) && existsb (fun c => (c =? fst row)%N) cases
  | None => false
  end.

Definition ag_table_ok (rows getopt : list (N * bool)) (cases : list N) : bool :=
  forallb (ag_row_ok getopt cases) rows.

Fixpoint name_eqb (a b : list N) : bool :=
  match a, b with
  | [], [] => true
  | x :: a', y :: b' => (x =? y)%N && name_eqb a' b'
  | _, _ => false
  end.

Fixpoint lookup_name (t : list (list N * N)) (n : list N) : option N :=
  match t with
  | [] => None
  | (m, k) :: r => if name_eqb n m then Some k else lookup_name r n
  end.

(* python kind: 0 bool (passed as 1), 1 int, 2 float, 3 str; C++ kind: 0 none, 1 uint, 2 float, 3 str, 4 bool *)
Definition kinds_compatible (py cpp : N) : bool :=
  match py, cpp with
  | 0, 1 | 0, 4 => true
  | 1, 1 | 1, 2 => true
  | 2, 2 => true
  | 3, 3 => true
  | _, _ => false
  end%N.

Definition dp_row_ok (cpp : list (list N * N)) (row : list N * N) : bool :=
  match lookup_name cpp (fst row) with
  | Some k => kinds_compatible (snd row) k
  | None => false
  end.

Definition dp_table_ok (rows cpp : list (list N * N)) : bool := forallb (dp_row_ok cpp) rows.

(* what the table check means *)
Lemma ag_table_ok_spec rows getopt cases :
  ag_table_ok rows getopt cases = true ->
  forall f v, In (f, v) rows -> lookup_flag getopt f = Some v /\ In f cases.
Proof.
  unfold ag_table_ok. rewrite forallb_forall. intros H f v Hin.
  specialize (H (f, v) Hin). unfold ag_row_ok in H. cbn [fst snd] in H.
  destruct (lookup_flag getopt f) as [w|]; [|discriminate].
  apply andb_true_iff in H. destruct H as [H1 H2].
  apply Bool.eqb_prop in H1. subst w. split; [reflexivity|].
  apply existsb_exists in H2. destruct H2 as [c [Hc E]]. apply N.eqb_eq in E. now subst c.
Qed.

Lemma dp_table_ok_spec rows cpp :
  dp_table_ok rows cpp = true ->
  forall n k, In (n, k) rows -> exists k', lookup_name cpp n = Some k' /\ kinds_compatible k k' = true.
Proof.
  unfold dp_table_ok. rewrite forallb_forall. intros H n k Hin.
  specialize (H (n, k) Hin). unfold dp_row_ok in H. cbn [fst snd] in H.
  destruct (lookup_name cpp n) as [k'|]; [|discriminate]. eauto.
Qed.
