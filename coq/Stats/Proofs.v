(* C13: the reported numbers of tokens, types and hapaxes, the unigram
   distributions and the moving-window type/token ratio equal the values
   computed directly from the tokens; consequently
   hapaxes <= types <= tokens and the unigram probabilities sum to 1. *)
From WS Require Import Base.Py Base.Str Base.Counter Base.CounterProofs Separator.Model Stats.Model.
From Coq Require Import QArith Lia Permutation Lqa.
Local Open Scope nat_scope.

(* ================================================================== *)
(* 1. The insertion-ordered counter [count_list str_eqb l]             *)
(* ================================================================== *)

Definition step (c : counter str) (k : str) : counter str := cadd str_eqb c k 1%Z.

Definition csum (c : counter str) : Z :=
  fold_right (fun (kv : str * Z) (acc : Z) => (snd kv + acc)%Z) 0%Z c.

Lemma cmem_In : forall (c : counter str) (k : str),
  cmem str_eqb c k = true <-> In k (map fst c).
Proof.
  induction c as [|[k0 v] r IH]; intros k; simpl.
  - split; [discriminate|tauto].
  - rewrite orb_true_iff, IH, str_eqb_eq. split; intros [H|H]; auto.
Qed.

Lemma keys_cadd : forall (c : counter str) (k : str) (d : Z),
  map fst (cadd str_eqb c k d) =
  if cmem str_eqb c k then map fst c else map fst c ++ [k].
Proof.
  induction c as [|[k0 v] r IH]; intros k d; simpl; [reflexivity|].
  destruct (str_eqb k k0) eqn:E; simpl; [reflexivity|].
  rewrite IH. destruct (cmem str_eqb r k); reflexivity.
Qed.

Lemma NoDup_cadd : forall (c : counter str) (k : str) (d : Z),
  NoDup (map fst c) -> NoDup (map fst (cadd str_eqb c k d)).
Proof.
  intros c k d H. rewrite keys_cadd. destruct (cmem str_eqb c k) eqn:E; [exact H|].
  eapply Permutation_NoDup; [apply Permutation_cons_append|].
  constructor; [|exact H]. rewrite <- cmem_In. congruence.
Qed.

Lemma NoDup_fold : forall (l : list str) (c : counter str),
  NoDup (map fst c) ->
  NoDup (map fst (fold_left (fun (c : counter str) (k : str) => cadd str_eqb c k 1%Z) l c)).
Proof.
  induction l as [|x r IH]; intros c H; simpl; [exact H|].
  apply IH. apply NoDup_cadd. exact H.
Qed.

Lemma occ_pos_In : forall (k : str) (l : list str),
  (0 < occ str_eqb k l)%Z <-> In k l.
Proof.
  intros k l. induction l as [|x r IH]; simpl.
  - split; [lia|tauto].
  - pose proof (occ_nonneg str_eqb k r) as Hn.
    destruct (str_eqb_spec k x) as [->|Hne].
    + split; [auto|lia].
    + rewrite Z.add_0_l, IH. split; [auto|]. intros [H|H]; [congruence|exact H].
Qed.

Lemma occ_le_length : forall (k : str) (l : list str),
  (occ str_eqb k l <= Z.of_nat (length l))%Z.
Proof.
  intros k l. induction l as [|x r IH]; cbn [occ length]; [lia|].
  destruct (str_eqb k x); lia.
Qed.

Lemma In_keys_fold : forall (l : list str) (c : counter str) (k : str),
  In k (map fst (fold_left (fun (c : counter str) (k : str) => cadd str_eqb c k 1%Z) l c)) <->
  In k (map fst c) \/ In k l.
Proof.
  intros l c k. rewrite <- !cmem_In, (cmem_fold str_eqb str_eqb_spec), orb_true_iff.
  rewrite <- occ_pos_In, Z.ltb_lt. tauto.
Qed.

Lemma cget_In : forall (c : counter str) (k : str) (v : Z),
  NoDup (map fst c) -> In (k, v) c -> cget str_eqb c k = v.
Proof.
  induction c as [|[k0 v0] r IH]; intros k v Hnd Hin; simpl in *; [tauto|].
  inversion Hnd as [|? ? Hnot Hnd']; subst.
  destruct Hin as [H|H].
  - inversion H; subst. now rewrite str_eqb_refl.
  - destruct (str_eqb_spec k k0) as [->|Hne].
    + exfalso. apply Hnot. change k0 with (fst (k0, v)). apply in_map. exact H.
    + apply IH; assumption.
Qed.

Lemma csum_cadd : forall (c : counter str) (k : str) (d : Z),
  csum (cadd str_eqb c k d) = (csum c + d)%Z.
Proof.
  induction c as [|[k0 v] r IH]; intros k d; cbn [cadd csum fold_right snd]; [lia|].
  destruct (str_eqb k k0); cbn [csum fold_right snd].
  - fold (csum r). lia.
  - fold (csum (cadd str_eqb r k d)). fold (csum r). rewrite IH. lia.
Qed.

Lemma csum_fold : forall (l : list str) (c : counter str),
  csum (fold_left (fun (c : counter str) (k : str) => cadd str_eqb c k 1%Z) l c) =
  (csum c + Z.of_nat (length l))%Z.
Proof.
  induction l as [|x r IH]; intros c; cbn [fold_left length]; [lia|].
  rewrite IH, csum_cadd. lia.
Qed.

Theorem count_list_keys_NoDup : forall (l : list str),
  NoDup (map fst (count_list str_eqb l)).
Proof. intros l. unfold count_list. apply NoDup_fold. constructor. Qed.

Theorem count_list_key_iff : forall (l : list str) (k : str),
  In k (map fst (count_list str_eqb l)) <-> In k l.
Proof.
  intros l k. unfold count_list. rewrite In_keys_fold. simpl. tauto.
Qed.

Theorem count_list_value : forall (l : list str) (k : str) (v : Z),
  In (k, v) (count_list str_eqb l) -> v = occ str_eqb k l /\ (1 <= v)%Z.
Proof.
  intros l k v Hin.
  assert (Hv : v = occ str_eqb k l).
  { rewrite <- (cget_count_list str_eqb str_eqb_spec). symmetry.
    apply cget_In; [apply count_list_keys_NoDup|exact Hin]. }
  split; [exact Hv|]. subst v.
  assert (Hk : In k l).
  { apply count_list_key_iff. change k with (fst (k, occ str_eqb k l)).
    apply in_map. exact Hin. }
  apply occ_pos_In in Hk. lia.
Qed.

Theorem count_list_total : forall (l : list str),
  fold_right (fun (kv : str * Z) (acc : Z) => (snd kv + acc)%Z) 0%Z (count_list str_eqb l)
  = Z.of_nat (length l).
Proof.
  intros l. change (csum (count_list str_eqb l) = Z.of_nat (length l)).
  unfold count_list. rewrite csum_fold. reflexivity.
Qed.

(* ================================================================== *)
(* 2. [distinct] and [level_stats]                                     *)
(* ================================================================== *)

(* the list of the distinct elements, last occurrences kept *)
Fixpoint dd (l : list str) : list str :=
  match l with
  | [] => []
  | x :: r => if existsb (str_eqb x) r then dd r else x :: dd r
  end.

Lemma existsb_str_In : forall (x : str) (r : list str),
  existsb (str_eqb x) r = true <-> In x r.
Proof.
  intros x r. rewrite existsb_exists. split.
  - intros [y [Hy E]]. apply str_eqb_eq in E. subst. exact Hy.
  - intros H. exists x. split; [exact H|apply str_eqb_refl].
Qed.

Lemma dd_length : forall (l : list str), length (dd l) = distinct l.
Proof.
  induction l as [|x r IH]; simpl; [reflexivity|].
  destruct (existsb (str_eqb x) r); simpl; congruence.
Qed.

Lemma dd_In : forall (l : list str) (x : str), In x (dd l) <-> In x l.
Proof.
  induction l as [|y r IH]; intros x; simpl; [tauto|].
  destruct (existsb (str_eqb y) r) eqn:E; simpl; rewrite IH.
  - apply existsb_str_In in E. split; [auto|]. intros [H|H]; [subst; exact E|exact H].
  - tauto.
Qed.

Lemma dd_NoDup : forall (l : list str), NoDup (dd l).
Proof.
  induction l as [|y r IH]; simpl; [constructor|].
  destruct (existsb (str_eqb y) r) eqn:E; [exact IH|].
  constructor; [|exact IH]. rewrite dd_In, <- existsb_str_In. congruence.
Qed.

(* [distinct l] is the size of any duplicate-free enumeration of [l] *)
Theorem distinct_NoDup : forall (l ks : list str),
  NoDup ks -> (forall x : str, In x ks <-> In x l) -> length ks = distinct l.
Proof.
  intros l ks Hnd Hiff. rewrite <- dd_length. apply Permutation_length.
  apply NoDup_Permutation; [exact Hnd|apply dd_NoDup|].
  intros x. rewrite dd_In. apply Hiff.
Qed.

Theorem distinct_count_list : forall (l : list str),
  length (count_list str_eqb l) = distinct l.
Proof.
  intros l. rewrite <- (map_length fst). apply distinct_NoDup.
  - apply count_list_keys_NoDup.
  - intros x. apply count_list_key_iff.
Qed.

Theorem distinct_le_length : forall (l : list str), distinct l <= length l.
Proof.
  induction l as [|x r IH]; simpl; [lia|].
  destruct (existsb (str_eqb x) r); lia.
Qed.

Theorem distinct_pos : forall (l : list str), l <> [] -> 1 <= distinct l.
Proof.
  induction l as [|x r IH]; intros Hne; [congruence|]. simpl.
  destruct (existsb (str_eqb x) r) eqn:E; [|lia].
  apply IH. intros ->. discriminate.
Qed.

Theorem level_tokens_spec : forall (toks : list (list str)),
  ls_tokens (level_stats toks) = length (concat toks).
Proof. reflexivity. Qed.

Theorem level_types_spec : forall (toks : list (list str)),
  ls_types (level_stats toks) = distinct (concat toks).
Proof. intros toks. unfold level_stats; cbn [ls_types]. apply distinct_count_list. Qed.

Lemma filter_map_length : forall (A B : Type) (g : A -> B) (f : B -> bool) (l : list A),
  length (filter f (map g l)) = length (filter (fun a : A => f (g a)) l).
Proof.
  intros A B g f l. induction l as [|a r IH]; simpl; [reflexivity|].
  destruct (f (g a)); simpl; congruence.
Qed.

Lemma filter_length_le' : forall (A : Type) (f : A -> bool) (l : list A),
  length (filter f l) <= length l.
Proof.
  intros A f l. induction l as [|a r IH]; simpl; [lia|]. destruct (f a); simpl; lia.
Qed.

Theorem level_hapaxes_spec : forall (toks : list (list str)),
  ls_hapaxes (level_stats toks) =
  length (filter (fun k : str => (occ str_eqb k (concat toks) =? 1)%Z)
                 (map fst (count_list str_eqb (concat toks)))).
Proof.
  intros toks. unfold level_stats; cbn [ls_hapaxes].
  rewrite filter_map_length. f_equal. apply filter_ext_in.
  intros [k v] Hin. cbn [fst snd].
  apply count_list_value in Hin. destruct Hin as [-> _]. reflexivity.
Qed.

Theorem hapax_le_types_le_tokens : forall (toks : list (list str)),
  let s := level_stats toks in
  ls_hapaxes s <= ls_types s /\ ls_types s <= ls_tokens s.
Proof.
  intros toks s. subst s. split.
  - unfold level_stats; cbn [ls_hapaxes ls_types]. apply filter_length_le'.
  - rewrite level_types_spec, level_tokens_spec. apply distinct_le_length.
Qed.

(* ---------- unigram ---------- *)

Lemma ulookup_map : forall (c : counter str) (w : str) (t : Q),
  ulookup (map (fun kv : str * Z => (fst kv, (inject_Z (snd kv) / t)%Q)) c) w =
  if cmem str_eqb c w then (inject_Z (cget str_eqb c w) / t)%Q else 0%Q.
Proof.
  induction c as [|[k v] r IH]; intros w t; cbn [map ulookup cmem cget fst snd]; [reflexivity|].
  destruct (str_eqb w k); cbn [orb]; [reflexivity|apply IH].
Qed.

Theorem unigram_spec : forall (toks : list (list str)) (w : str),
  In w (concat toks) ->
  (ulookup (ls_unigram (level_stats toks)) w ==
   inject_Z (occ str_eqb w (concat toks)) / zq (length (concat toks)))%Q.
Proof.
  intros toks w Hin. unfold level_stats; cbn [ls_unigram].
  rewrite ulookup_map, (cmem_count_list str_eqb str_eqb_spec), (cget_count_list str_eqb str_eqb_spec).
  apply occ_pos_In in Hin. apply Z.ltb_lt in Hin. rewrite Hin. reflexivity.
Qed.

(* words that do not occur have probability 0 *)
Theorem unigram_absent : forall (toks : list (list str)) (w : str),
  ~ In w (concat toks) -> ulookup (ls_unigram (level_stats toks)) w = 0%Q.
Proof.
  intros toks w Hin. unfold level_stats; cbn [ls_unigram].
  rewrite ulookup_map, (cmem_count_list str_eqb str_eqb_spec).
  destruct (Z.ltb_spec 0 (occ str_eqb w (concat toks))) as [H|H]; [|reflexivity].
  apply occ_pos_In in H. contradiction.
Qed.

Lemma qsum_div : forall (c : counter str) (t : Q),
  (fold_right Qplus 0 (map snd (map (fun kv : str * Z => (fst kv, inject_Z (snd kv) / t)) c))
   == inject_Z (csum c) / t)%Q.
Proof.
  induction c as [|[k v] r IH]; intros t; cbn [map fold_right snd fst csum].
  - change (inject_Z 0) with 0%Q. unfold Qdiv. ring.
  - fold (csum r). rewrite IH, inject_Z_plus. unfold Qdiv. ring.
Qed.

Lemma zq_pos : forall (n : nat), 0 < n -> (0 < zq n)%Q.
Proof.
  intros n H. unfold zq. change 0%Q with (inject_Z 0). rewrite <- Zlt_Qlt. lia.
Qed.

Theorem unigram_sums_to_one : forall (toks : list (list str)),
  concat toks <> [] ->
  (fold_right Qplus 0 (map snd (ls_unigram (level_stats toks))) == 1)%Q.
Proof.
  intros toks Hne. unfold level_stats; cbn [ls_unigram].
  rewrite qsum_div. unfold csum. rewrite count_list_total. fold (zq (length (concat toks))).
  assert (Hpos : (0 < zq (length (concat toks)))%Q).
  { apply zq_pos. destruct (concat toks); [congruence|simpl; lia]. }
  unfold Qdiv. apply Qmult_inv_r. intros H. rewrite H in Hpos. discriminate.
Qed.

Theorem unigram_positive : forall (toks : list (list str)),
  concat toks <> [] ->
  Forall (fun kq : str * Q => (0 < snd kq)%Q /\ (snd kq <= 1)%Q) (ls_unigram (level_stats toks)).
Proof.
  intros toks Hne. unfold level_stats; cbn [ls_unigram].
  apply Forall_forall. intros [k q] Hin. apply in_map_iff in Hin.
  destruct Hin as [[k' v] [Heq Hin]]. cbn [fst snd] in Heq. inversion Heq; subst. clear Heq.
  cbn [snd]. apply count_list_value in Hin. destruct Hin as [Hv H1].
  pose proof (occ_le_length k (concat toks)) as Hle. rewrite <- Hv in Hle.
  assert (Hpos : (0 < zq (length (concat toks)))%Q).
  { apply zq_pos. destruct (concat toks); [congruence|simpl; lia]. }
  split.
  - apply Qlt_shift_div_l; [exact Hpos|]. rewrite Qmult_0_l.
    change 0%Q with (inject_Z 0). rewrite <- Zlt_Qlt. lia.
  - apply Qle_shift_div_r; [exact Hpos|]. rewrite Qmult_1_l.
    unfold zq. rewrite <- Zle_Qle. exact Hle.
Qed.

(* ================================================================== *)
(* 3. MATTR                                                            *)
(* ================================================================== *)

Theorem mattr_undefined : forall (tokens : list str) (size : nat),
  length tokens <= size -> mattr tokens size = Raise ZeroDivisionError.
Proof.
  intros tokens size H. unfold mattr.
  replace (length tokens - size) with 0 by lia. reflexivity.
Qed.

Theorem mattr_spec : forall (tokens : list str) (size : nat),
  size < length tokens ->
  mattr tokens size =
  Ok (fold_right Qplus 0
        (map (fun x : nat => zq (distinct (firstn size (skipn x tokens))) / zq size)
             (seq 0 (length tokens - size)))
      / zq (length tokens - size))%Q.
Proof.
  intros tokens size H. unfold mattr.
  destruct (length tokens - size) as [|n] eqn:E; [lia|reflexivity].
Qed.

Theorem mattr_defined_iff : forall (tokens : list str) (size : nat),
  (exists q : Q, mattr tokens size = Ok q) <-> size < length tokens.
Proof.
  intros tokens size. split.
  - intros [q Hq]. destruct (Nat.lt_ge_cases size (length tokens)) as [H|H]; [exact H|].
    rewrite mattr_undefined in Hq by exact H. discriminate.
  - intros H. eexists. apply mattr_spec. exact H.
Qed.

(* the only exception of mattr *)
Lemma mattr_raises : forall (tokens : list str) (size : nat) (e : exn),
  mattr tokens size = Raise e -> e = ZeroDivisionError.
Proof.
  intros tokens size e H. destruct (Nat.lt_ge_cases size (length tokens)) as [Hlt|Hge].
  - rewrite mattr_spec in H by exact Hlt. discriminate.
  - rewrite mattr_undefined in H by exact Hge. congruence.
Qed.

Lemma ratio_bounds : forall (d n : nat), 0 < n -> d <= n ->
  (0 <= zq d / zq n)%Q /\ (zq d / zq n <= 1)%Q.
Proof.
  intros d n Hn Hd. pose proof (zq_pos n Hn) as Hpos. split.
  - apply Qle_shift_div_l; [exact Hpos|]. rewrite Qmult_0_l.
    unfold zq. change 0%Q with (inject_Z 0). rewrite <- Zle_Qle. lia.
  - apply Qle_shift_div_r; [exact Hpos|]. rewrite Qmult_1_l.
    unfold zq. rewrite <- Zle_Qle. lia.
Qed.

Lemma zq_S : forall (n : nat), (zq (S n) == 1 + zq n)%Q.
Proof.
  intros n. unfold zq. rewrite Nat2Z.inj_succ, <- Z.add_1_l, inject_Z_plus. reflexivity.
Qed.

Lemma sum_unit_bounds : forall (l : list Q),
  Forall (fun r : Q => (0 <= r)%Q /\ (r <= 1)%Q) l ->
  (0 <= fold_right Qplus 0 l)%Q /\ (fold_right Qplus 0 l <= zq (length l))%Q.
Proof.
  intros l H. induction H as [|x l [Hx0 Hx1] _ [IH0 IH1]]; cbn [fold_right length].
  - split; apply Qle_refl.
  - rewrite zq_S. split; lra.
Qed.

Theorem mattr_unit_interval : forall (tokens : list str) (size : nat) (q : Q),
  0 < size -> size < length tokens -> mattr tokens size = Ok q ->
  (0 <= q)%Q /\ (q <= 1)%Q.
Proof.
  intros tokens size q Hs Hlt Hm. rewrite mattr_spec in Hm by exact Hlt.
  inversion Hm as [Hq]. clear Hm Hq.
  set (n := length tokens - size).
  set (ratios := map (fun x : nat => (zq (distinct (firstn size (skipn x tokens))) / zq size)%Q) (seq 0 n)).
  assert (Hlen : length ratios = n) by (unfold ratios; now rewrite map_length, seq_length).
  assert (Hall : Forall (fun r : Q => (0 <= r)%Q /\ (r <= 1)%Q) ratios).
  { apply Forall_forall. intros r Hr. unfold ratios in Hr. apply in_map_iff in Hr.
    destruct Hr as [x [<- _]]. apply ratio_bounds; [exact Hs|].
    etransitivity; [apply distinct_le_length|apply firstn_le_length]. }
  apply sum_unit_bounds in Hall. rewrite Hlen in Hall. destruct Hall as [H0 H1].
  assert (Hpos : (0 < zq n)%Q) by (apply zq_pos; unfold n; lia).
  split.
  - apply Qle_shift_div_l; [exact Hpos|]. rewrite Qmult_0_l. exact H0.
  - apply Qle_shift_div_r; [exact Hpos|]. rewrite Qmult_1_l. exact H1.
Qed.

(* ================================================================== *)
(* 4. describe_all                                                     *)
(* ================================================================== *)

Lemma tokenize_raises : forall (sep : separator) (u : str) (l : level) (k : bool) (e : exn),
  tokenize sep u l k = Raise e -> e = ValueError.
Proof.
  intros sep u l k e. unfold tokenize, check_level.
  destruct (get_level sep l); cbn [bind]; intros H; [discriminate|congruence].
Qed.

Lemma mapM_raises : forall (A B : Type) (f : A -> result B) (P : exn -> Prop) (l : list A) (e : exn),
  (forall (x : A) (e' : exn), f x = Raise e' -> P e') ->
  mapM f l = Raise e -> P e.
Proof.
  intros A B f P l e Hf. induction l as [|x r IH]; cbn [mapM]; [discriminate|].
  destruct (f x) as [y|e'] eqn:E; cbn [bind].
  - destruct (mapM f r) as [ys|e''] eqn:E2; cbn [bind]; [discriminate|].
    intros H. inversion H; subst. apply IH. reflexivity.
  - intros H. inversion H; subst. eapply Hf. exact E.
Qed.

Lemma tokenize_all_raises : forall (sep : separator) (corpus : list str) (l : level) (e : exn),
  tokenize_all sep corpus l = Raise e -> e = ValueError.
Proof.
  intros sep corpus l e. unfold tokenize_all.
  destruct (mapM (fun u : str => tokenize sep u l false) corpus) as [toks|e'] eqn:E; cbn [bind].
  - destruct (Nat.eqb (length (concat toks)) 0); congruence.
  - intros H. inversion H; subst.
    eapply (mapM_raises _ _ _ (fun e : exn => e = ValueError)); [|exact E].
    intros x e' Hx. eapply tokenize_raises. exact Hx.
Qed.

Theorem describe_all_no_word_sep : forall (raw : list str) (sep : separator),
  s_word sep = None -> describe_all raw sep = Raise ValueError.
Proof. intros raw sep H. unfold describe_all. rewrite H. reflexivity. Qed.

Theorem describe_all_empty : forall (raw : list str) (sep : separator),
  s_word sep <> None -> filter nonempty (map strip raw) = [] ->
  describe_all raw sep = Raise ValueError.
Proof.
  intros raw sep Hw He. unfold describe_all. destruct (s_word sep); [|congruence].
  cbv zeta. rewrite He. reflexivity.
Qed.

(* inversion of a successful run *)
Lemma describe_all_inv : forall (raw : list str) (sep : separator) (s : stats),
  describe_all raw sep = Ok s ->
  exists (words : list (list str)) (sylls phones : option (list (list str))) (m : Q),
    s_word sep <> None /\
    filter nonempty (map strip raw) <> [] /\
    tokenize_all sep (filter nonempty (map strip raw)) Word = Ok words /\
    (sylls = None <-> s_syll sep = None) /\
    (phones = None <-> s_phone sep = None) /\
    mattr (concat words) 10 = Ok m /\
    s = {| st_nutts := length (filter nonempty (map strip raw));
           st_single := length (filter (fun u : list str => Nat.eqb (length u) 1) words);
           st_mattr := m;
           st_entropy := match phones with
                         | Some ph => Some (map (ulookup (ls_unigram (level_stats words))) (concat words),
                                            length (concat ph))
                         | None => None end;
           st_words := level_stats words;
           st_sylls := option_map level_stats sylls;
           st_phones := option_map level_stats phones |}.
Proof.
  intros raw sep s. unfold describe_all.
  destruct (s_word sep) as [w|] eqn:Ew; [|discriminate]. cbv zeta.
  remember (filter nonempty (map strip raw)) as corpus eqn:Ec.
  destruct corpus as [|u us]; [discriminate|].
  destruct (tokenize_all sep (u :: us) Word) as [words|e] eqn:Ewd; cbn [bind]; [|discriminate].
  destruct (s_syll sep) as [sy|] eqn:Esy.
  - destruct (tokenize_all sep (u :: us) Syll) as [ts|e] eqn:Ets; cbn [bind]; [|discriminate].
    destruct (s_phone sep) as [ph|] eqn:Eph.
    + destruct (tokenize_all sep (u :: us) Phone) as [tp|e] eqn:Etp; cbn [bind]; [|discriminate].
      destruct (mattr (concat words) 10) as [m|e] eqn:Em; cbn [bind]; [|discriminate].
      intros H. inversion H; subst s. exists words, (Some ts), (Some tp), m.
      repeat split; try congruence; try discriminate.
    + cbn [bind].
      destruct (mattr (concat words) 10) as [m|e] eqn:Em; cbn [bind]; [|discriminate].
      intros H. inversion H; subst s. exists words, (Some ts), None, m.
      repeat split; try congruence; try discriminate.
  - cbn [bind]. destruct (s_phone sep) as [ph|] eqn:Eph.
    + destruct (tokenize_all sep (u :: us) Phone) as [tp|e] eqn:Etp; cbn [bind]; [|discriminate].
      destruct (mattr (concat words) 10) as [m|e] eqn:Em; cbn [bind]; [|discriminate].
      intros H. inversion H; subst s. exists words, None, (Some tp), m.
      repeat split; try congruence; try discriminate.
    + cbn [bind].
      destruct (mattr (concat words) 10) as [m|e] eqn:Em; cbn [bind]; [|discriminate].
      intros H. inversion H; subst s. exists words, None, None, m.
      repeat split; try congruence; try discriminate.
Qed.

Theorem describe_all_nutts : forall (raw : list str) (sep : separator) (s : stats),
  describe_all raw sep = Ok s -> st_nutts s = length (filter nonempty (map strip raw)).
Proof.
  intros raw sep s H. apply describe_all_inv in H.
  destruct H as (words & sylls & phones & m & _ & _ & _ & _ & _ & _ & ->). reflexivity.
Qed.

Theorem describe_all_errors : forall (raw : list str) (sep : separator) (e : exn),
  describe_all raw sep = Raise e -> e = ValueError \/ e = ZeroDivisionError.
Proof.
  intros raw sep e. unfold describe_all.
  destruct (s_word sep) as [w|]; [|intros H; left; congruence]. cbv zeta.
  destruct (filter nonempty (map strip raw)) as [|u us]; [intros H; left; congruence|].
  destruct (tokenize_all sep (u :: us) Word) as [words|e1] eqn:Ewd; cbn [bind];
    [|intros H; inversion H; subst; left; eapply tokenize_all_raises; exact Ewd].
  destruct (s_syll sep) as [sy|].
  - destruct (tokenize_all sep (u :: us) Syll) as [ts|e2] eqn:Ets; cbn [bind];
      [|intros H; inversion H; subst; left; eapply tokenize_all_raises; exact Ets].
    destruct (s_phone sep) as [ph|].
    + destruct (tokenize_all sep (u :: us) Phone) as [tp|e3] eqn:Etp; cbn [bind];
        [|intros H; inversion H; subst; left; eapply tokenize_all_raises; exact Etp].
      destruct (mattr (concat words) 10) as [m|e4] eqn:Em; cbn [bind]; [discriminate|].
      intros H; inversion H; subst. right. eapply mattr_raises. exact Em.
    + cbn [bind].
      destruct (mattr (concat words) 10) as [m|e4] eqn:Em; cbn [bind]; [discriminate|].
      intros H; inversion H; subst. right. eapply mattr_raises. exact Em.
  - cbn [bind]. destruct (s_phone sep) as [ph|].
    + destruct (tokenize_all sep (u :: us) Phone) as [tp|e3] eqn:Etp; cbn [bind];
        [|intros H; inversion H; subst; left; eapply tokenize_all_raises; exact Etp].
      destruct (mattr (concat words) 10) as [m|e4] eqn:Em; cbn [bind]; [discriminate|].
      intros H; inversion H; subst. right. eapply mattr_raises. exact Em.
    + cbn [bind].
      destruct (mattr (concat words) 10) as [m|e4] eqn:Em; cbn [bind]; [discriminate|].
      intros H; inversion H; subst. right. eapply mattr_raises. exact Em.
Qed.

Theorem describe_all_levels : forall (raw : list str) (sep : separator) (s : stats),
  describe_all raw sep = Ok s ->
  (st_sylls s = None <-> s_syll sep = None) /\
  (st_phones s = None <-> s_phone sep = None) /\
  (st_entropy s = None <-> s_phone sep = None).
Proof.
  intros raw sep s H. apply describe_all_inv in H.
  destruct H as (words & sylls & phones & m & _ & _ & _ & Hs & Hp & _ & ->).
  cbn [st_sylls st_phones st_entropy]. rewrite <- Hs, <- Hp.
  destruct sylls, phones; cbn [option_map]; repeat split; intros; congruence.
Qed.
