(* Model of wordseg/statistics.py: CorpusStatistics.__init__, describe_all,
   unigram, _mattr; the entropy is returned as its rational ingredients (word
   probabilities of every word token, number of phones). *)
From WS Require Import Base.Py Base.Str Base.Counter Separator.Model.
From Coq Require Import QArith.
Local Open Scope nat_scope.

Record lstats := { ls_tokens : nat; ls_types : nat; ls_hapaxes : nat; ls_unigram : list (str * Q) }.

Record stats := {
  st_nutts : nat;
  st_single : nat;
  st_mattr : Q;
  st_entropy : option (list Q * nat);      (* probabilities of the word tokens, N phones *)
  st_words : lstats;
  st_sylls : option lstats;
  st_phones : option lstats }.

Definition zq (n : nat) : Q := inject_Z (Z.of_nat n).

Definition level_stats (toks : list (list str)) : lstats :=
  let flat := concat toks in
  let cnt := count_list str_eqb flat in
  let total := length flat in
  {| ls_tokens := total;
     ls_types := length cnt;
     ls_hapaxes := length (filter (fun kv => (snd kv =? 1)%Z) cnt);
     ls_unigram := map (fun kv => (fst kv, (inject_Z (snd kv) / zq total)%Q)) cnt |}.

Fixpoint distinct (l : list str) : nat :=
  match l with
  | [] => 0
  | x :: r => if existsb (str_eqb x) r then distinct r else S (distinct r)
  end.

(* mean over x in range(len - size) of len(set(tokens[x:x+size])) / size *)
Definition mattr (tokens : list str) (size : nat) : result Q :=
  let n := length tokens - size in
  match n with
  | O => Raise ZeroDivisionError
  | _ =>
    let ratios := map (fun x => (zq (distinct (firstn size (skipn x tokens))) / zq size)%Q) (seq 0 n) in
    Ok (fold_right Qplus 0%Q ratios / zq n)%Q
  end.

Fixpoint ulookup (u : list (str * Q)) (w : str) : Q :=
  match u with
  | [] => 0%Q
  | (k, v) :: r => if str_eqb w k then v else ulookup r w
  end.

Definition tokenize_all (sep : separator) (corpus : list str) (l : level) : result (list (list str)) :=
  do toks <- mapM (fun u => tokenize sep u l false) corpus;
  if Nat.eqb (length (concat toks)) 0 then Raise ValueError else Ok toks.

Definition describe_all (raw : list str) (sep : separator) : result stats :=
  match s_word sep with
  | None => Raise ValueError
  | Some _ =>
    let corpus := filter nonempty (map strip raw) in
    match corpus with
    | [] => Raise ValueError
    | _ =>
      do words <- tokenize_all sep corpus Word;
      do sylls <- match s_syll sep with
                  | Some _ => do t <- tokenize_all sep corpus Syll; Ok (Some t)
                  | None => Ok None end;
      do phones <- match s_phone sep with
                   | Some _ => do t <- tokenize_all sep corpus Phone; Ok (Some t)
                   | None => Ok None end;
      let ws := level_stats words in
      do m <- mattr (concat words) 10;
      Ok {| st_nutts := length corpus;
            st_single := length (filter (fun u => Nat.eqb (length u) 1) words);
            st_mattr := m;
            st_entropy := match phones with
                          | Some ph => Some (map (ulookup (ls_unigram ws)) (concat words), length (concat ph))
                          | None => None end;
            st_words := ws;
            st_sylls := option_map level_stats sylls;
            st_phones := option_map level_stats phones |}
    end
  end.

(* ---------- wire ---------- *)
Definition j_Q (q : Q) : J := JL [JI (Qnum (Qred q)); JI (Zpos (Qden (Qred q)))].
Definition j_lstats (l : lstats) : J :=
  JL [j_nat (ls_tokens l); j_nat (ls_types l); j_nat (ls_hapaxes l); j_list (j_pair j_str j_Q) (ls_unigram l)].
Definition j_stats (s : stats) : J :=
  JL [j_nat (st_nutts s); j_nat (st_single s); j_Q (st_mattr s);
      j_option (fun e => JL [j_list j_Q (fst e); j_nat (snd e)]) (st_entropy s);
      j_lstats (st_words s); j_option j_lstats (st_sylls s); j_option j_lstats (st_phones s)].

Definition run_stats (j : J) : J :=
  match j with
  | JL [text; sepj] =>
    match d_list d_str text, d_sep sepj with
    | Some text, Some sep => j_result j_stats (describe_all text sep)
    | _, _ => j_bad end
  | _ => j_bad end.
