(* C13 composed with C08: the statistics reported by describe_all on a corpus that is the
   compact rendering of a list of token trees (utterance = words = syllables = phones)
   are the statistics of the trees' own tokens.  Stats/Proofs.v states what describe_all
   computes relative to the tokenizer's output; Separator/Checkers.v (c08_round_trip3)
   states that the tokenizer recovers the tokens of a rendered tree; here the two are
   composed, so that the property is about the token hierarchy itself.

   One hypothesis has to be added to those of c08_round_trip3: describe_all strips every
   line before tokenizing it, and a rendering ends with the word separator, so the word
   separator must not end with whitespace ([ends_ok_b xw = true]); without it the
   statement is false ([describe_all_trees_refuted]). *)
From WS Require Import Base.Py Base.Str Base.Counter Separator.Model Separator.Render.
From WS Require Import Separator.StrLemmas Separator.StripLemmas Separator.ProofsTree
  Separator.ProofsTreeStrip Separator.ProofsTwo Separator.ProofsWsPhone Separator.Checkers.
From WS Require Import Prepare.ViewsLemmas Stats.Model Stats.Proofs.
From Coq Require Import QArith Lia.
Local Open Scope nat_scope.

(* ================================================================== *)
(* 1. One rendered tree                                                *)
(* ================================================================== *)

(* the hypothesis on every tree of the corpus *)
Definition tree_hyp (xp xs xw : str) (t : utree) : Prop :=
  t <> [] /\ c08_hyp_b xp xs xw t = true.

Lemma c08_hyp_parts (xp xs xw : str) (t : utree) :
  c08_hyp_b xp xs xw t = true ->
  xp <> [] /\ xs <> [] /\ xw <> [] /\ ends_ok xs /\ tree_ok xp xs xw t.
Proof.
  intros H. unfold c08_hyp_b in H. rewrite !andb_true_iff in H.
  destruct H as [[[[[[[Hp Hs] Hw] Hes] _] Ht] _] _].
  apply nonempty_true in Hp, Hs, Hw. apply ends_ok_b_sound in Hes.
  apply tree_ok_b_sound in Ht. repeat split; assumption.
Qed.

(* the tokens of a rendered tree, level by level, as the views of the tree *)
Lemma tokenize_tree (xp xs xw : str) (t : utree) :
  c08_hyp_b xp xs xw t = true ->
  tokenize (sep3 xp xs xw) (render (sep3 xp xs xw) t) Word false = Ok (words_of t) /\
  tokenize (sep3 xp xs xw) (render (sep3 xp xs xw) t) Syll false = Ok (sylls_of t) /\
  tokenize (sep3 xp xs xw) (render (sep3 xp xs xw) t) Phone false = Ok (phones_of t).
Proof.
  intros H. destruct (c08_round_trip3 xp xs xw t H) as (Hw & Hs & Hp & _).
  split; [exact Hw|]. split; [exact Hs|exact Hp].
Qed.

(* a rendering is not blank and has no outer whitespace: [strip] leaves it alone *)
Lemma render_clean (xp xs xw : str) (t : utree) :
  ends_ok_b xw = true -> t <> [] -> c08_hyp_b xp xs xw t = true ->
  render (sep3 xp xs xw) t <> [] /\ clean_ends (render (sep3 xp xs xw) t).
Proof.
  intros Hew Hne H. apply ends_ok_b_sound in Hew.
  destruct (c08_hyp_parts _ _ _ _ H) as (Hxp & Hxs & Hxw & Hes & Hok).
  rewrite render3_eq. split.
  - apply terminated_nonnil; [|exact Hxw]. destruct t; [congruence|discriminate].
  - apply clean_ends_iff. split.
    + destruct Hok as [|w t Hw _]; [congruence|]. cbn [map]. rewrite terminated_cons.
      destruct (word_body_ok xp xs xw Hxp Hxs Hes w Hw) as [Hn Hc].
      apply starts_ok_app; [exact Hn|]. apply clean_ends_iff in Hc. apply Hc.
    + unfold terminated. apply ends_ok_concat.
      * destruct t; [congruence|discriminate].
      * apply Forall_map. apply Forall_map. apply Forall_forall. intros w _. split.
        -- destruct (word_body xp xs w); cbn [app]; [exact Hxw|discriminate].
        -- apply ends_ok_app; [exact Hxw|exact Hew].
Qed.

Lemma strip_ws_only_app (pre s : str) : ws_only pre -> strip (pre ++ s) = strip s.
Proof. intros H. unfold strip. now rewrite lstrip_ws_only_app. Qed.

(* a line: optional leading whitespace, the rendering, trailing whitespace (e.g. "\n") *)
Lemma strip_render_line (xp xs xw : str) (t : utree) (pre tail : str) :
  ends_ok_b xw = true -> tree_hyp xp xs xw t -> ws_only pre -> ws_only tail ->
  strip (pre ++ render (sep3 xp xs xw) t ++ tail) = render (sep3 xp xs xw) t /\
  nonempty (render (sep3 xp xs xw) t) = true.
Proof.
  intros Hew [Hne H] Hpre Htail. destruct (render_clean xp xs xw t Hew Hne H) as [Hn Hc].
  split.
  - rewrite strip_ws_only_app by exact Hpre. now apply strip_trailing_ws.
  - now apply nonempty_true.
Qed.

Lemma strip_blank (b : str) : ws_only b -> strip b = [].
Proof. intros H. apply Prepare.Proofs.strip_nil_iff. now apply ws_only_forallb. Qed.

(* ---- sizes of the three views of one tree ---- *)

Lemma length_le_concat {A} (l : list (list A)) :
  Forall (fun x : list A => x <> []) l -> length l <= length (concat l).
Proof.
  induction 1 as [|x l Hx _ IH]; [apply Nat.le_refl|].
  cbn [concat length]. rewrite app_length. destruct x as [|a x]; [congruence|].
  cbn [length]. lia.
Qed.

Lemma length_concat_map_map {A B} (f : A -> B) (l : list (list A)) :
  length (concat (map (map f) l)) = length (concat l).
Proof.
  induction l as [|x l IH]; [reflexivity|].
  cbn [map concat]. now rewrite !app_length, map_length, IH.
Qed.

Lemma words_of_length (t : utree) : length (words_of t) = length t.
Proof. unfold words_of. apply map_length. Qed.

Lemma sylls_of_length (t : utree) : length (sylls_of t) = length (concat t).
Proof. unfold sylls_of. apply length_concat_map_map. Qed.

Lemma phones_of_concat (t : utree) : phones_of t = concat (concat t).
Proof. unfold phones_of. symmetry. apply concat_concat. Qed.

Lemma tree_ok_shape (xp xs xw : str) (t : utree) : tree_ok xp xs xw t ->
  Forall (fun w : list (list str) => w <> []) t /\
  Forall (fun syl : list str => syl <> []) (concat t).
Proof.
  intros H. split.
  - eapply Forall_impl; [|exact H]. now intros w (Hn & _).
  - apply Forall_concat. eapply Forall_impl; [|exact H]. intros w (_ & Hs & _).
    eapply Forall_impl; [|exact Hs]. now intros syl (Hn & _).
Qed.

Lemma tree_sizes (xp xs xw : str) (t : utree) : tree_hyp xp xs xw t ->
  1 <= length (words_of t) /\
  length (words_of t) <= length (sylls_of t) /\
  length (sylls_of t) <= length (phones_of t).
Proof.
  intros [Hne H]. destruct (c08_hyp_parts _ _ _ _ H) as (_ & _ & _ & _ & Hok).
  destruct (tree_ok_shape _ _ _ _ Hok) as [Hw Hs].
  rewrite words_of_length, sylls_of_length, phones_of_concat. repeat split.
  - destruct t; [congruence|cbn [length]; lia].
  - now apply length_le_concat.
  - now apply length_le_concat.
Qed.

(* ================================================================== *)
(* 2. The corpus                                                       *)
(* ================================================================== *)

Lemma corpus_strip_fixed (xp xs xw : str) (ts : list utree) :
  ends_ok_b xw = true -> Forall (tree_hyp xp xs xw) ts ->
  filter nonempty (map strip (map (render (sep3 xp xs xw)) ts))
  = map (render (sep3 xp xs xw)) ts.
Proof.
  intros Hew Hts. induction Hts as [|t l Ht _ IH]; [reflexivity|].
  destruct (strip_render_line xp xs xw t [] [] Hew Ht) as [E N]; try constructor.
  cbn [app] in E. rewrite app_nil_r in E.
  cbn [map filter]. rewrite E, N. f_equal. exact IH.
Qed.

Lemma sizes_sum (xp xs xw : str) (ts : list utree) :
  Forall (tree_hyp xp xs xw) ts ->
  length ts <= length (concat (map words_of ts)) /\
  length (concat (map words_of ts)) <= length (concat (map sylls_of ts)) /\
  length (concat (map sylls_of ts)) <= length (concat (map phones_of ts)).
Proof.
  intros Hts. induction Hts as [|t l Ht _ IH]; [cbn; lia|].
  cbn [map concat length]. rewrite !app_length.
  pose proof (tree_sizes xp xs xw t Ht) as Hsz. lia.
Qed.

Lemma mapM_tokenize_trees (xp xs xw : str) (ts : list utree) (l : level)
                          (f : utree -> list str) :
  Forall (tree_hyp xp xs xw) ts ->
  (forall t : utree, c08_hyp_b xp xs xw t = true ->
     tokenize (sep3 xp xs xw) (render (sep3 xp xs xw) t) l false = Ok (f t)) ->
  mapM (fun u : str => tokenize (sep3 xp xs xw) u l false)
       (map (render (sep3 xp xs xw)) ts) = Ok (map f ts).
Proof.
  intros Hts Hf. induction Hts as [|t r [_ Ht] _ IH]; [reflexivity|].
  cbn [map mapM]. rewrite (Hf t Ht). cbn [bind]. rewrite IH. reflexivity.
Qed.

Section Corpus.
  Variables xp xs xw : str.
  Let sep := sep3 xp xs xw.
  Variable ts : list utree.
  Hypothesis Hts : Forall (tree_hyp xp xs xw) ts.

  Hypothesis Hne : ts <> [].

  Lemma tokenize_all_trees (l : level) (f : utree -> list str) :
    (forall t : utree, c08_hyp_b xp xs xw t = true ->
                       tokenize sep (render sep t) l false = Ok (f t)) ->
    1 <= length (concat (map f ts)) ->
    tokenize_all sep (map (render sep) ts) l = Ok (map f ts).
  Proof.
    intros Hf Hpos. unfold tokenize_all. unfold sep. rewrite (mapM_tokenize_trees xp xs xw ts l f Hts Hf). cbn [bind].
    destruct (Nat.eqb_spec (length (concat (map f ts))) 0) as [E|_]; [lia|reflexivity].
  Qed.

  Lemma ts_pos : 1 <= length ts.
  Proof. destruct ts; [congruence|cbn [length]; lia]. Qed.

  Lemma tokenize_all_words :
    tokenize_all sep (map (render sep) ts) Word = Ok (map words_of ts).
  Proof.
    apply tokenize_all_trees; [intros t Ht; apply (tokenize_tree xp xs xw t Ht)|].
    pose proof (sizes_sum xp xs xw ts Hts). pose proof ts_pos. lia.
  Qed.

  Lemma tokenize_all_sylls :
    tokenize_all sep (map (render sep) ts) Syll = Ok (map sylls_of ts).
  Proof.
    apply tokenize_all_trees; [intros t Ht; apply (tokenize_tree xp xs xw t Ht)|].
    pose proof (sizes_sum xp xs xw ts Hts). pose proof ts_pos. lia.
  Qed.

  Lemma tokenize_all_phones :
    tokenize_all sep (map (render sep) ts) Phone = Ok (map phones_of ts).
  Proof.
    apply tokenize_all_trees; [intros t Ht; apply (tokenize_tree xp xs xw t Ht)|].
    pose proof (sizes_sum xp xs xw ts Hts). pose proof ts_pos. lia.
  Qed.

  (* the record describe_all builds from the trees' own tokens *)
  Definition tree_stats (m : Q) : stats :=
    {| st_nutts := length ts;
       st_single := length (filter (fun t : utree => Nat.eqb (length t) 1) ts);
       st_mattr := m;
       st_entropy := Some (map (ulookup (ls_unigram (level_stats (map words_of ts))))
                               (concat (map words_of ts)),
                           length (concat (map phones_of ts)));
       st_words := level_stats (map words_of ts);
       st_sylls := Some (level_stats (map sylls_of ts));
       st_phones := Some (level_stats (map phones_of ts)) |}.

  Lemma single_words :
    length (filter (fun u : list str => Nat.eqb (length u) 1) (map words_of ts)) =
    length (filter (fun t : utree => Nat.eqb (length t) 1) ts).
  Proof.
    rewrite filter_map_length. f_equal. apply filter_ext. intros t.
    now rewrite words_of_length.
  Qed.

  (* describe_all depends on the text only through its stripped non-blank lines *)
  Lemma describe_all_corpus (raw : list str) :
    filter nonempty (map strip raw) = map (render sep) ts ->
    describe_all raw sep =
    do m <- mattr (concat (map words_of ts)) 10; Ok (tree_stats m).
  Proof.
    intros Hc. unfold describe_all. cbn [sep sep3 s_word s_syll s_phone]. cbv zeta.
    rewrite Hc. fold sep.
    destruct (map (render sep) ts) as [|u us] eqn:Eu.
    { destruct ts; [congruence|discriminate]. }
    rewrite <- Eu.
    rewrite tokenize_all_words, tokenize_all_sylls, tokenize_all_phones. cbn [bind].
    destruct (mattr (concat (map words_of ts)) 10) as [m|e]; cbn [bind]; [|reflexivity].
    unfold tree_stats. cbn [option_map]. rewrite map_length, single_words. reflexivity.
  Qed.

  Theorem describe_all_corpus_trees (raw : list str) (s : stats) :
    filter nonempty (map strip raw) = map (render sep) ts ->
    describe_all raw sep = Ok s ->
    st_nutts s = length ts /\
    st_single s = length (filter (fun t : utree => Nat.eqb (length t) 1) ts) /\
    st_words s = level_stats (map words_of ts) /\
    st_sylls s = Some (level_stats (map sylls_of ts)) /\
    st_phones s = Some (level_stats (map phones_of ts)) /\
    mattr (concat (map words_of ts)) 10 = Ok (st_mattr s) /\
    st_entropy s = Some (map (ulookup (ls_unigram (level_stats (map words_of ts))))
                             (concat (map words_of ts)),
                         length (concat (map phones_of ts))).
  Proof.
    intros Hc Hd. rewrite (describe_all_corpus raw Hc) in Hd.
    destruct (mattr (concat (map words_of ts)) 10) as [m|e]; cbn [bind] in Hd; [|discriminate].
    injection Hd as <-. cbn [tree_stats st_nutts st_single st_words st_sylls st_phones
                             st_mattr st_entropy].
    repeat split; reflexivity.
  Qed.

  Theorem describe_all_corpus_ok (raw : list str) :
    filter nonempty (map strip raw) = map (render sep) ts ->
    10 < length (concat (map words_of ts)) ->
    exists s : stats, describe_all raw sep = Ok s.
  Proof.
    intros Hc Hlen. rewrite (describe_all_corpus raw Hc).
    rewrite mattr_spec by exact Hlen. cbn [bind]. eexists. reflexivity.
  Qed.

  (* with ten word tokens or fewer the only outcome is the ZeroDivisionError of mattr *)
  Theorem describe_all_corpus_short (raw : list str) :
    filter nonempty (map strip raw) = map (render sep) ts ->
    length (concat (map words_of ts)) <= 10 ->
    describe_all raw sep = Raise ZeroDivisionError.
  Proof.
    intros Hc Hlen. rewrite (describe_all_corpus raw Hc).
    rewrite mattr_undefined by exact Hlen. reflexivity.
  Qed.
End Corpus.

(* ================================================================== *)
(* 3. The theorems: one rendering per line                             *)
(* ================================================================== *)

Theorem describe_all_trees : forall (xp xs xw : str) (ts : list utree) (s : stats),
  ends_ok_b xw = true ->
  ts <> [] -> Forall (fun t : utree => t <> [] /\ c08_hyp_b xp xs xw t = true) ts ->
  describe_all (map (render (sep3 xp xs xw)) ts) (sep3 xp xs xw) = Ok s ->
  st_nutts s = length ts /\
  st_single s = length (filter (fun t : utree => Nat.eqb (length t) 1) ts) /\
  st_words s = level_stats (map words_of ts) /\
  st_sylls s = Some (level_stats (map sylls_of ts)) /\
  st_phones s = Some (level_stats (map phones_of ts)) /\
  mattr (concat (map words_of ts)) 10 = Ok (st_mattr s) /\
  st_entropy s = Some (map (ulookup (ls_unigram (level_stats (map words_of ts))))
                           (concat (map words_of ts)),
                       length (concat (map phones_of ts))).
Proof.
  intros xp xs xw ts s Hew Hne Hts Hd.
  eapply (describe_all_corpus_trees xp xs xw ts Hts Hne); [|exact Hd].
  now apply corpus_strip_fixed.
Qed.

(* the "consequently" clause: going down a level never decreases the number of tokens *)
Theorem tokens_do_not_increase : forall (xp xs xw : str) (ts : list utree) (s : stats),
  ends_ok_b xw = true ->
  ts <> [] -> Forall (fun t : utree => t <> [] /\ c08_hyp_b xp xs xw t = true) ts ->
  describe_all (map (render (sep3 xp xs xw)) ts) (sep3 xp xs xw) = Ok s ->
  exists sy ph : lstats, st_sylls s = Some sy /\ st_phones s = Some ph /\
    ls_tokens (st_words s) <= ls_tokens sy /\ ls_tokens sy <= ls_tokens ph.
Proof.
  intros xp xs xw ts s Hew Hne Hts Hd.
  destruct (describe_all_trees xp xs xw ts s Hew Hne Hts Hd)
    as (_ & _ & Hw & Hsy & Hph & _ & _).
  exists (level_stats (map sylls_of ts)), (level_stats (map phones_of ts)).
  split; [exact Hsy|]. split; [exact Hph|].
  rewrite Hw, !level_tokens_spec. exact (proj2 (sizes_sum xp xs xw ts Hts)).
Qed.

Theorem describe_all_trees_ok : forall (xp xs xw : str) (ts : list utree),
  ends_ok_b xw = true ->
  ts <> [] -> Forall (fun t : utree => t <> [] /\ c08_hyp_b xp xs xw t = true) ts ->
  10 < length (concat (map words_of ts)) ->
  exists s : stats, describe_all (map (render (sep3 xp xs xw)) ts) (sep3 xp xs xw) = Ok s.
Proof.
  intros xp xs xw ts Hew Hne Hts Hlen.
  eapply (describe_all_corpus_ok xp xs xw ts Hts Hne); [|exact Hlen].
  now apply corpus_strip_fixed.
Qed.

(* every utterance has at least one word *)
Theorem utterances_le_words : forall (xp xs xw : str) (ts : list utree) (s : stats),
  ends_ok_b xw = true ->
  ts <> [] -> Forall (fun t : utree => t <> [] /\ c08_hyp_b xp xs xw t = true) ts ->
  describe_all (map (render (sep3 xp xs xw)) ts) (sep3 xp xs xw) = Ok s ->
  1 <= st_nutts s /\ st_nutts s <= ls_tokens (st_words s).
Proof.
  intros xp xs xw ts s Hew Hne Hts Hd.
  destruct (describe_all_trees xp xs xw ts s Hew Hne Hts Hd) as (Hn & _ & Hw & _).
  rewrite Hn, Hw, level_tokens_spec. split; [|exact (proj1 (sizes_sum xp xs xw ts Hts))].
  destruct ts; [congruence|cbn [length]; lia].
Qed.

(* ================================================================== *)
(* 4. Lines with outer whitespace, blank lines anywhere                *)
(* ================================================================== *)

(* [text_of sep ts raw]: the text [raw] consists of the renderings of [ts], in order, each
   possibly surrounded by whitespace (a final "\n"), with whitespace-only lines anywhere *)
Inductive text_of (sep : separator) : list utree -> list str -> Prop :=
| text_nil : text_of sep [] []
| text_blank (b : str) (ts : list utree) (raw : list str) :
    ws_only b -> text_of sep ts raw -> text_of sep ts (b :: raw)
| text_line (pre tail : str) (t : utree) (ts : list utree) (raw : list str) :
    ws_only pre -> ws_only tail -> text_of sep ts raw ->
    text_of sep (t :: ts) ((pre ++ render sep t ++ tail) :: raw).

Lemma text_of_corpus (xp xs xw : str) (ts : list utree) (raw : list str) :
  ends_ok_b xw = true -> Forall (tree_hyp xp xs xw) ts ->
  text_of (sep3 xp xs xw) ts raw ->
  filter nonempty (map strip raw) = map (render (sep3 xp xs xw)) ts.
Proof.
  intros Hew Hts Htx. induction Htx as [|b ts raw Hb _ IH|pre tail t ts raw Hpre Htail _ IH].
  - reflexivity.
  - cbn [map filter]. rewrite (strip_blank b Hb). cbn [nonempty]. now apply IH.
  - inversion Hts as [|? ? Ht Hts']; subst.
    destruct (strip_render_line xp xs xw t pre tail Hew Ht Hpre Htail) as [E N].
    cbn [map filter]. rewrite E, N. f_equal. now apply IH.
Qed.

(* every line followed by a newline character *)
Lemma text_of_newlines (sep : separator) (ts : list utree) :
  text_of sep ts (map (fun t : utree => render sep t ++ [10%N]) ts).
Proof.
  induction ts as [|t ts IH]; [constructor|]. cbn [map].
  apply (text_line sep [] [10%N] t ts); [constructor| |exact IH].
  constructor; [reflexivity|constructor].
Qed.

Theorem describe_all_trees_text : forall (xp xs xw : str) (ts : list utree) (raw : list str)
                                         (s : stats),
  ends_ok_b xw = true ->
  ts <> [] -> Forall (fun t : utree => t <> [] /\ c08_hyp_b xp xs xw t = true) ts ->
  text_of (sep3 xp xs xw) ts raw ->
  describe_all raw (sep3 xp xs xw) = Ok s ->
  st_nutts s = length ts /\
  st_single s = length (filter (fun t : utree => Nat.eqb (length t) 1) ts) /\
  st_words s = level_stats (map words_of ts) /\
  st_sylls s = Some (level_stats (map sylls_of ts)) /\
  st_phones s = Some (level_stats (map phones_of ts)) /\
  mattr (concat (map words_of ts)) 10 = Ok (st_mattr s) /\
  st_entropy s = Some (map (ulookup (ls_unigram (level_stats (map words_of ts))))
                           (concat (map words_of ts)),
                       length (concat (map phones_of ts))).
Proof.
  intros xp xs xw ts raw s Hew Hne Hts Htx Hd.
  apply (describe_all_corpus_trees xp xs xw ts Hts Hne raw s); [|exact Hd].
  now apply text_of_corpus.
Qed.

Theorem tokens_do_not_increase_text : forall (xp xs xw : str) (ts : list utree)
                                             (raw : list str) (s : stats),
  ends_ok_b xw = true ->
  ts <> [] -> Forall (fun t : utree => t <> [] /\ c08_hyp_b xp xs xw t = true) ts ->
  text_of (sep3 xp xs xw) ts raw ->
  describe_all raw (sep3 xp xs xw) = Ok s ->
  exists sy ph : lstats, st_sylls s = Some sy /\ st_phones s = Some ph /\
    ls_tokens (st_words s) <= ls_tokens sy /\ ls_tokens sy <= ls_tokens ph.
Proof.
  intros xp xs xw ts raw s Hew Hne Hts Htx Hd.
  destruct (describe_all_trees_text xp xs xw ts raw s Hew Hne Hts Htx Hd)
    as (_ & _ & Hw & Hsy & Hph & _ & _).
  exists (level_stats (map sylls_of ts)), (level_stats (map phones_of ts)).
  split; [exact Hsy|]. split; [exact Hph|].
  rewrite Hw, !level_tokens_spec. exact (proj2 (sizes_sum xp xs xw ts Hts)).
Qed.

Theorem describe_all_trees_text_ok : forall (xp xs xw : str) (ts : list utree) (raw : list str),
  ends_ok_b xw = true ->
  ts <> [] -> Forall (fun t : utree => t <> [] /\ c08_hyp_b xp xs xw t = true) ts ->
  text_of (sep3 xp xs xw) ts raw ->
  10 < length (concat (map words_of ts)) ->
  exists s : stats, describe_all raw (sep3 xp xs xw) = Ok s.
Proof.
  intros xp xs xw ts raw Hew Hne Hts Htx Hlen.
  apply (describe_all_corpus_ok xp xs xw ts Hts Hne raw); [|exact Hlen].
  now apply text_of_corpus.
Qed.

(* the file as read by the command line: one rendering per line, each ending with "\n" *)
Corollary describe_all_trees_newlines : forall (xp xs xw : str) (ts : list utree) (s : stats),
  ends_ok_b xw = true ->
  ts <> [] -> Forall (fun t : utree => t <> [] /\ c08_hyp_b xp xs xw t = true) ts ->
  describe_all (map (fun t : utree => render (sep3 xp xs xw) t ++ [10%N]) ts) (sep3 xp xs xw)
    = Ok s ->
  st_nutts s = length ts /\
  st_single s = length (filter (fun t : utree => Nat.eqb (length t) 1) ts) /\
  st_words s = level_stats (map words_of ts) /\
  st_sylls s = Some (level_stats (map sylls_of ts)) /\
  st_phones s = Some (level_stats (map phones_of ts)) /\
  mattr (concat (map words_of ts)) 10 = Ok (st_mattr s) /\
  st_entropy s = Some (map (ulookup (ls_unigram (level_stats (map words_of ts))))
                           (concat (map words_of ts)),
                       length (concat (map phones_of ts))).
Proof.
  intros xp xs xw ts s Hew Hne Hts Hd.
  apply (describe_all_trees_text xp xs xw ts _ s Hew Hne Hts (text_of_newlines _ ts) Hd).
Qed.

(* ================================================================== *)
(* 5. The hypotheses hold for the default configuration; the added one *)
(*    cannot be dropped                                                *)
(* ================================================================== *)

Definition d_xp : str := [sp].
Definition d_xs : str := [59; 101; 115; 121; 108; 108]%N.      (* ;esyll *)
Definition d_xw : str := [59; 101; 119; 111; 114; 100]%N.      (* ;eword *)
(* hh e ;esyll l ow ;esyll ;eword s y d ;esyll ;eword *)
Definition d_t1 : utree :=
  [ [ [[104; 104]%N; [101]%N]; [[108]%N; [111; 119]%N] ]; [ [[115]%N; [121]%N; [100]%N] ] ].
Definition d_t2 : utree := [ [ [[111; 119]%N] ] ].

Example default_config_hyps :
  ends_ok_b d_xw = true /\
  Forall (fun t : utree => t <> [] /\ c08_hyp_b d_xp d_xs d_xw t = true) [d_t1; d_t2].
Proof.
  split; [reflexivity|].
  repeat constructor; try discriminate; vm_compute; reflexivity.
Qed.

(* the model evaluated on a text with blank lines and newlines agrees with the theorem *)
Example default_config_run :
  let sep := sep3 d_xp d_xs d_xw in
  let ts := [d_t1; d_t2; d_t1; d_t1; d_t2; d_t1; d_t1] in
  let raw := [ [10%N] ] ++ map (fun t : utree => render sep t ++ [10%N]) ts ++ [ [sp; 10%N]; [] ] in
  exists s : stats,
    describe_all raw sep = Ok s /\ st_nutts s = 7 /\ st_single s = 2 /\
    st_words s = level_stats (map words_of ts) /\
    st_sylls s = Some (level_stats (map sylls_of ts)) /\
    st_phones s = Some (level_stats (map phones_of ts)).
Proof. vm_compute. eexists. repeat split; reflexivity. Qed.

(* Without [ends_ok_b xw = true] the statement is false: phone separator " ", syllable
   separator "S", word separator "W " (it ends with a space), every utterance the single
   phone "a".  A line is "a SW " and is stripped to "a SW", where "W " no longer occurs: the
   tokenizer then reports the phones "a" and "W". *)
Theorem describe_all_trees_refuted :
  ~ (forall (xp xs xw : str) (ts : list utree) (s : stats),
      ts <> [] -> Forall (fun t : utree => t <> [] /\ c08_hyp_b xp xs xw t = true) ts ->
      describe_all (map (render (sep3 xp xs xw)) ts) (sep3 xp xs xw) = Ok s ->
      st_phones s = Some (level_stats (map phones_of ts))).
Proof.
  intros H.
  set (t := [ [ [[97%N]] ] ] : utree).
  set (ts := repeat t 11).
  destruct (describe_all (map (render (sep3 [sp] [83%N] [87%N; sp])) ts)
                         (sep3 [sp] [83%N] [87%N; sp])) as [s|e] eqn:E;
    [|vm_compute in E; discriminate].
  specialize (H [sp] [83%N] [87%N; sp] ts s).
  assert (Hp : st_phones s = Some (level_stats (map phones_of ts))).
  { apply H; [discriminate| |exact E].
    repeat constructor; try discriminate; vm_compute; reflexivity. }
  vm_compute in E. injection E as <-. vm_compute in Hp. discriminate.
Qed.

Print Assumptions describe_all_trees.
Print Assumptions tokens_do_not_increase.
Print Assumptions describe_all_trees_ok.
Print Assumptions utterances_le_words.
Print Assumptions describe_all_trees_text.
Print Assumptions tokens_do_not_increase_text.
Print Assumptions describe_all_trees_text_ok.
Print Assumptions describe_all_trees_newlines.
Print Assumptions describe_all_corpus_short.
Print Assumptions default_config_hyps.
Print Assumptions default_config_run.
Print Assumptions describe_all_trees_refuted.
