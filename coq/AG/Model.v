(* Model of the Python side of wordseg/algos/ag.py: ParseCounter, yield_parses,
   postprocess, the nparses / ignore_first_parses arithmetic of segment(),
   _setup_seed, build_colloc0_grammar; and of two pieces of main.cc: the number
   of evaluation points and xtree_parse_words. The sampler itself is an oracle:
   segment is a function of the raw output lines of every run. *)
From WS Require Import Base.Py Base.Str Base.Counter.

(* ---------- ParseCounter ---------- *)

Record pcounter := { pc_nutts : nat; pc_counters : list (counter str); pc_nparses : Z }.

Definition pc_init (nutts : nat) : pcounter :=
  {| pc_nutts := nutts; pc_counters := repeat [] nutts; pc_nparses := 0 |}.

Fixpoint bump_all (cs : list (counter str)) (parse : list str) : list (counter str) :=
  match cs, parse with
  | c :: cr, u :: pr => cadd str_eqb c u 1 :: bump_all cr pr
  | _, _ => cs
  end.

Definition pc_update (pc : pcounter) (parse : list str) : result pcounter :=
  if negb (Nat.eqb (length parse) (pc_nutts pc)) then Raise RuntimeError
  else Ok {| pc_nutts := pc_nutts pc;
             pc_counters := bump_all (pc_counters pc) parse;
             pc_nparses := (pc_nparses pc + 1)%Z |}.

(* min(c.items(), key=lambda x: (-x[1], x[0]))[0]: most frequent, ties to the
   smallest string (code point order); ValueError on an empty counter *)
Fixpoint str_ltb (a b : str) : bool :=
  match a, b with
  | [], [] => false
  | [], _ :: _ => true
  | _ :: _, [] => false
  | x :: a', y :: b' => if (x <? y)%N then true else if (y <? x)%N then false else str_ltb a' b'
  end.

Definition better (a b : str * Z) : bool :=
  (snd b <? snd a)%Z || ((snd a =? snd b)%Z && str_ltb (fst a) (fst b)).

Fixpoint best_of (c : counter str) (best : str * Z) : str * Z :=
  match c with
  | [] => best
  | kv :: r => best_of r (if better kv best then kv else best)
  end.

Definition most_common1 (c : counter str) : result str :=
  match c with
  | [] => Raise ValueError
  | kv :: r => Ok (fst (best_of r kv))
  end.

Definition pc_most_common (pc : pcounter) : result (list str) :=
  if (pc_nparses pc =? 0)%Z then Raise RuntimeError
  else mapM most_common1 (pc_counters pc).

(* ---------- yield_parses ---------- *)

(* tree is kept reversed; returns the yielded trees in order *)
Fixpoint yield_go (lines : list str) (tree : list str) (ntrees ignore : Z) : list (list str) :=
  match lines with
  | [] =>
    match tree with
    | [] => []
    | _ => if (ignore <=? ntrees)%Z then [rev tree] else []
    end
  | l :: r =>
    match strip l with
    | [] =>
      match tree with
      | [] => yield_go r [] ntrees ignore
      | _ =>
        let n := (ntrees + 1)%Z in
        if (ignore <? n)%Z then rev tree :: yield_go r [] n ignore
        else yield_go r [] n ignore
      end
    | s => yield_go r (s :: tree) ntrees ignore
    end
  end.

Definition yield_parses (lines : list str) (ignore : Z) : list (list str) :=
  yield_go lines [] 0 ignore.

(* postprocess: incomplete parses are skipped *)
Definition postprocess (pc : pcounter) (lines : list str) (ignore : Z) : pcounter :=
  fold_left (fun pc parse =>
               if Nat.eqb (length parse) (pc_nutts pc)
               then match pc_update pc parse with Ok pc' => pc' | Raise _ => pc end
               else pc)
            (yield_parses lines ignore) pc.

(* ---------- option extraction: _get_int_option(args, option) ----------
   The argument string is split by shlex.split (Python library, not modelled: the model
   starts from the token list and the harness hands it shlex.split(args)); the tokens are
   examined one by one. *)

Definition is_digit (c : char) : bool := (48 <=? c)%N && (c <=? 57)%N.

(* re.fullmatch('[0-9]+', s) *)
Definition all_digits (s : str) : bool :=
  match s with [] => false | _ => forallb is_digit s end.

Definition num_of (ds : str) : Z := fold_left (fun acc c => (acc * 10 + Z.of_N (c - 48))%Z) ds 0%Z.

(* arg == option *)
Definition is_flag (flag : char) (tok : str) : bool := str_eqb tok [45%N; flag].

(* re.fullmatch(option + '[0-9]+', arg): the attached form '-n10' *)
Definition attached (flag : char) (tok : str) : option str :=
  match tok with
  | 45%N :: f :: ds => if (f =? flag)%N && all_digits ds then Some ds else None
  | _ => None
  end.

(* the loop of _get_int_option: [acc] is `value` so far; every token is examined, the one
   following the option included; after the option as last token the value is '' *)
Fixpoint opt_value (flag : char) (toks : list str) (acc : option str) : option str :=
  match toks with
  | [] => acc
  | t :: r =>
    if is_flag flag t then opt_value flag r (Some (match r with v :: _ => v | [] => [] end))
    else match attached flag t with
         | Some ds => opt_value flag r (Some ds)
         | None => opt_value flag r acc
         end
  end.

(* None: the option is absent; ValueError: its value is not made of digits *)
Definition int_option (flag : char) (toks : list str) : result (option Z) :=
  match opt_value flag toks None with
  | None => Ok None
  | Some v => if all_digits v then Ok (Some (num_of v)) else Raise ValueError
  end.

Definition ch_n : char := 110%N.
Definition ch_x : char := 120%N.
Definition ch_r : char := 114%N.

(* nparses as computed by segment() *)
(* len(range(0, niterations, interval)) + 1, defaults 2000 and 1 *)
Definition wrapper_nparses (toks : list str) : result Z :=
  do on <- int_option ch_n toks;
  do ox <- int_option ch_x toks;
  let n := match on with Some n => n | None => 2000%Z end in
  let x := match ox with Some x => x | None => 1%Z end in
  if (x =? 0)%Z then Raise ValueError          (* range() arg 3 must not be zero *)
  else Ok ((n + x - 1) / x + 1)%Z.

Definition effective_ignore (toks : list str) (ignore : Z) : result Z :=
  do np <- wrapper_nparses toks;
  let ig := if (ignore <? 0)%Z then Z.max 0 (np + ignore) else ignore in
  if (np <=? ig)%Z then Raise RuntimeError else Ok ig.

(* how many parses the binary really emits: one per iteration with
   iteration % x == 0, iteration in 0..n-1, plus the final one *)
Definition emitted (n x : nat) : nat :=
  length (filter (fun it => Nat.eqb (it mod x) 0) (seq 0 n)) + 1.

(* ---------- _setup_seed ---------- *)

Fixpoint digits_fuel (fuel : nat) (z : Z) (acc : str) : str :=
  match fuel with
  | O => acc
  | S f => let d := Z.to_N (z mod 10) in
           let acc' := (48 + d)%N :: acc in
           if (z / 10 =? 0)%Z then acc' else digits_fuel f (z / 10) acc'
  end.
Definition str_of_Z (z : Z) : str := digits_fuel (S (Z.to_nat (Z.log2 (Z.max 1 z)))) z [].

(* the arguments of one run: every "-r <value>" pair and every "-r<digits>" token becomes
   "-r" <new>; the other tokens are kept (the code quotes them back with shlex.quote and
   joins them with spaces: shlex.split of that string gives these tokens back).
   "-r" as last token is not reachable: _get_int_option has raised ValueError before
   (int_option_flag_last in ModelProofs.v). *)
Fixpoint reseed (toks : list str) (new : str) : list str :=
  match toks with
  | [] => []
  | t :: r =>
    if is_flag ch_r t then
      [45%N; ch_r] :: new :: match r with [] => [] | _ :: r' => reseed r' new end
    else match attached ch_r t with
         | Some _ => [45%N; ch_r] :: new :: reseed r new
         | None => t :: reseed r new
         end
  end.

(* without -r the seeds come from random.randint, one draw per run: an explicit list;
   the code appends ' -r N' to the argument string *)
Definition setup_seed (toks : list str) (nruns : nat) (rnd : list Z) : result (list (list str)) :=
  do os <- int_option ch_r toks;
  match os with
  | Some seed => Ok (map (fun run => reseed toks (str_of_Z (seed + Z.of_nat run))) (seq 0 nruns))
  | None => Ok (map (fun z => toks ++ [[45%N; ch_r]; str_of_Z z]) (firstn nruns rnd))
  end.

(* the tokens that are not part of a seed option *)
Fixpoint unseeded (toks : list str) : list str :=
  match toks with
  | [] => []
  | t :: r =>
    if is_flag ch_r t then match r with [] => [] | _ :: r' => unseeded r' end
    else match attached ch_r t with
         | Some _ => unseeded r
         | None => t :: unseeded r
         end
  end.

(* ---------- segment as a function of the runs' outputs ---------- *)

(* runs: the raw output lines of each run, in the order in which the runs'
   postprocessing is applied to the shared counter *)
Definition segment_from_outputs (nutts : nat) (toks : list str) (ignore : Z) (runs : list (list str))
  : result (list str) :=
  do ig <- effective_ignore toks ignore;
  let pc := fold_left (fun pc lines => postprocess pc lines ig) runs (pc_init nutts) in
  pc_most_common pc.

(* ---------- build_colloc0_grammar: the terminal rules ---------- *)

Fixpoint insert_s (x : str) (l : list str) : list str :=
  match l with
  | [] => [x]
  | y :: r => if str_eqb x y then l else if str_ltb x y then x :: l else y :: insert_s x r
  end.
Definition sorted_set (l : list str) : list str := fold_right insert_s [] l.

Definition grammar_phones (train test : list str) : list str :=
  sorted_set (flat_map split_ws train ++ flat_map split_ws test).

(* ---------- xtree_parse_words ---------- *)

Inductive xtree := XNode (cat : str) (children : list xtree).

Fixpoint xtree_words (wordcat : str) (t : xtree) : str :=
  match t with
  | XNode cat [] => cat
  | XNode _ children =>
    (fix go (l : list xtree) : str :=
       match l with
       | [] => []
       | (XNode c _ as ch) :: r =>
         (if str_eqb wordcat c then [sp] else []) ++ xtree_words wordcat ch ++ go r
       end) children
  end.

Fixpoint xyield (t : xtree) : list str :=
  match t with
  | XNode cat [] => [cat]
  | XNode _ children => (fix go (l : list xtree) : list str :=
                           match l with [] => [] | ch :: r => xyield ch ++ go r end) children
  end.

(* ---------- wire ---------- *)

Definition run_yield_parses (j : J) : J :=
  match j with
  | JL [lines; ig] =>
    match d_list d_str lines, d_Z ig with
    | Some lines, Some ig => j_list (j_list j_str) (yield_parses lines ig)
    | _, _ => j_bad end
  | _ => j_bad end.

Definition run_segment_outputs (j : J) : J :=
  match j with
  | JL [nutts; args; ig; runs] =>
    match d_nat nutts, d_list d_str args, d_Z ig, d_list (d_list d_str) runs with
    | Some nutts, Some args, Some ig, Some runs =>
      j_result (j_list j_str) (segment_from_outputs nutts args ig runs)
    | _, _, _, _ => j_bad end
  | _ => j_bad end.

Definition run_nparses (j : J) : J :=
  match j with
  | JL [args; ig] =>
    match d_list d_str args, d_Z ig with
    | Some args, Some ig => JL [j_result JI (wrapper_nparses args); j_result JI (effective_ignore args ig)]
    | _, _ => j_bad end
  | _ => j_bad end.

Definition run_setup_seed (j : J) : J :=
  match j with
  | JL [args; nruns; rnd] =>
    match d_list d_str args, d_nat nruns, d_list d_Z rnd with
    | Some args, Some nruns, Some rnd => j_result (j_list (j_list j_str)) (setup_seed args nruns rnd)
    | _, _, _ => j_bad end
  | _ => j_bad end.

Definition run_emitted (j : J) : J :=
  match j with
  | JL [n; x] => match d_nat n, d_nat x with Some n, Some x => j_nat (emitted n x) | _, _ => j_bad end
  | _ => j_bad end.

Definition run_grammar_phones (j : J) : J :=
  match j with
  | JL [tr; te] =>
    match d_list d_str tr, d_list d_str te with
    | Some tr, Some te => j_list j_str (grammar_phones tr te)
    | _, _ => j_bad end
  | _ => j_bad end.
