(* Model of the Python side of wordseg/algos/ag.py: ParseCounter, yield_parses,
   postprocess, the nparses / ignore_first_parses arithmetic of segment(),
   _setup_seed, build_colloc0_grammar; and of two pieces of main.cc: the number
   of evaluation points and xtree_parse_words. The sampler itself is an oracle:
   segment is a function of the raw output lines of every run. *)
From WS Require Import Base.Py Base.Str Base.Counter.

(* ---------- ParseCounter ---------- *)

Record pcounter := { pc_nutts : nat; pc_counters : list (counter str); pc_nparses : Z }.

Definition pc_init (nutts : nat) : pcounter :=
  {| pc_nutts := nutts; pc_counters := repeat [] nutts; pc_nparses := 0 |}.

Fixpoint bump_all (cs : list (counter str)) (parse : list str) : list (counter str) :=
  match cs, parse with
  | c :: cr, u :: pr => cadd str_eqb c u 1 :: bump_all cr pr
  | _, _ => cs
  end.

Definition pc_update (pc : pcounter) (parse : list str) : result pcounter :=
  if negb (Nat.eqb (length parse) (pc_nutts pc)) then Raise RuntimeError
  else Ok {| pc_nutts := pc_nutts pc;
             pc_counters := bump_all (pc_counters pc) parse;
             pc_nparses := (pc_nparses pc + 1)%Z |}.

(* min(c.items(), key=lambda x: (-x[1], x[0]))[0]: most frequent, ties to the
   smallest string (code point order); ValueError on an empty counter *)
Fixpoint str_ltb (a b : str) : bool :=
  match a, b with
  | [], [] => false
  | [], _ :: _ => true
  | _ :: _, [] => false
  | x :: a', y :: b' => if (x <? y)%N then true else if (y <? x)%N then false else str_ltb a' b'
  end.

Definition better (a b : str * Z) : bool :=
  (snd b <? snd a)%Z || ((snd a =? snd b)%Z && str_ltb (fst a) (fst b)).

Fixpoint best_of (c : counter str) (best : str * Z) : str * Z :=
  match c with
  | [] => best
  | kv :: r => best_of r (if better kv best then kv else best)
  end.

Definition most_common1 (c : counter str) : result str :=
  match c with
  | [] => Raise ValueError
  | kv :: r => Ok (fst (best_of r kv))
  end.

Definition pc_most_common (pc : pcounter) : result (list str) :=
  if (pc_nparses pc =? 0)%Z then Raise RuntimeError
  else mapM most_common1 (pc_counters pc).

(* ---------- yield_parses ---------- *)

(* tree is kept reversed; returns the yielded trees in order *)
Fixpoint yield_go (lines : list str) (tree : list str) (ntrees ignore : Z) : list (list str) :=
  match lines with
  | [] =>
    match tree with
    | [] => []
    | _ => if (ignore <=? ntrees)%Z then [rev tree] else []
    end
  | l :: r =>
    match strip l with
    | [] =>
      match tree with
      | [] => yield_go r [] ntrees ignore
      | _ =>
        let n := (ntrees + 1)%Z in
        if (ignore <? n)%Z then rev tree :: yield_go r [] n ignore
        else yield_go r [] n ignore
      end
    | s => yield_go r (s :: tree) ntrees ignore
    end
  end.

Definition yield_parses (lines : list str) (ignore : Z) : list (list str) :=
  yield_go lines [] 0 ignore.

(* postprocess: incomplete parses are skipped *)
Definition postprocess (pc : pcounter) (lines : list str) (ignore : Z) : pcounter :=
  fold_left (fun pc parse =>
               if Nat.eqb (length parse) (pc_nutts pc)
               then match pc_update pc parse with Ok pc' => pc' | Raise _ => pc end
               else pc)
            (yield_parses lines ignore) pc.

(* ---------- option extraction: re.sub(r'^.*\-X *([0-9]+).*$', r'\g<1>', args) ---------- *)

Definition is_digit (c : char) : bool := (48 <=? c)%N && (c <=? 57)%N.

Fixpoint take_digits (s : str) : str :=
  match s with c :: r => if is_digit c then c :: take_digits r else [] | [] => [] end.
Fixpoint skip_spaces (s : str) : str :=
  match s with c :: r => if (c =? sp)%N then skip_spaces r else s | [] => [] end.

Definition num_of (ds : str) : Z := fold_left (fun acc c => (acc * 10 + Z.of_N (c - 48))%Z) ds 0%Z.

(* does "-X *digits" match at the beginning of s? *)
Definition opt_at (flag : char) (s : str) : option str :=
  match s with
  | 45%N :: f :: r =>
    if (f =? flag)%N then
      match take_digits (skip_spaces r) with [] => None | ds => Some ds end
    else None
  | _ => None
  end.

(* the greedy ^.* makes the LAST matching position win; '.' does not cross a newline,
   argument strings have none *)
Fixpoint last_opt (flag : char) (s : str) : option str :=
  match s with
  | [] => None
  | _ :: r =>
    match last_opt flag r with
    | Some d => Some d
    | None => opt_at flag s
    end
  end.

Definition has_flag (flag : char) (args : str) : bool := infix_b [45%N; flag] args.

(* int(re.sub(...)) : ValueError when the pattern does not match (sub leaves the string unchanged) *)
Definition int_opt (flag : char) (args : str) : result Z :=
  match last_opt flag args with
  | Some ds => Ok (num_of ds)
  | None => Raise ValueError
  end.

Definition ch_n : char := 110%N.
Definition ch_x : char := 120%N.
Definition ch_r : char := 114%N.

(* nparses as computed by segment() *)
(* len(range(0, niterations, interval)) + 1, defaults 2000 and 1 *)
Definition wrapper_nparses (args : str) : result Z :=
  do n <- (if has_flag ch_n args then int_opt ch_n args else Ok 2000%Z);
  do x <- (if has_flag ch_x args then int_opt ch_x args else Ok 1%Z);
  if (x =? 0)%Z then Raise ValueError          (* range() arg 3 must not be zero *)
  else Ok ((n + x - 1) / x + 1)%Z.

Definition effective_ignore (args : str) (ignore : Z) : result Z :=
  do np <- wrapper_nparses args;
  let ig := if (ignore <? 0)%Z then Z.max 0 (np + ignore) else ignore in
  if (np <=? ig)%Z then Raise RuntimeError else Ok ig.

(* how many parses the binary really emits: one per iteration with
   iteration % x == 0, iteration in 0..n-1, plus the final one *)
Definition emitted (n x : nat) : nat :=
  length (filter (fun it => Nat.eqb (it mod x) 0) (seq 0 n)) + 1.

(* ---------- _setup_seed ---------- *)

Fixpoint digits_fuel (fuel : nat) (z : Z) (acc : str) : str :=
  match fuel with
  | O => acc
  | S f => let d := Z.to_N (z mod 10) in
           let acc' := (48 + d)%N :: acc in
           if (z / 10 =? 0)%Z then acc' else digits_fuel f (z / 10) acc'
  end.
Definition str_of_Z (z : Z) : str := digits_fuel (S (Z.to_nat (Z.log2 (Z.max 1 z)))) z [].

(* re.sub(r'\-r *([0-9]+)', '-r N', args): every occurrence, left to right *)
Fixpoint sub_seed (fuel : nat) (s : str) (new : str) : str :=
  match fuel with
  | O => s
  | S f =>
    match s with
    | [] => []
    | c :: r =>
      match opt_at ch_r s with
      | Some ds =>
        (* matched text: "-r", spaces, digits *)
        let rest := skipn (length ds) (skip_spaces (skipn 1 r)) in
        [45%N; ch_r; sp] ++ new ++ sub_seed f rest new
      | None => c :: sub_seed f r new
      end
    end
  end.

Definition setup_seed_given (args : str) (nruns : nat) : result (list str) :=
  do seed <- int_opt ch_r args;
  Ok (map (fun run => sub_seed (S (length args)) args (str_of_Z (seed + Z.of_nat run))) (seq 0 nruns)).

(* without -r, the seeds come from random.randint: an explicit list *)
Definition setup_seed (args : str) (nruns : nat) (rnd : list Z) : result (list str) :=
  if has_flag ch_r args then setup_seed_given args nruns
  else Ok (map (fun z => args ++ [sp; 45%N; ch_r; sp] ++ str_of_Z z) (firstn nruns rnd)).

(* ---------- segment as a function of the runs' outputs ---------- *)

(* runs: the raw output lines of each run, in the order in which the runs'
   postprocessing is applied to the shared counter *)
Definition segment_from_outputs (nutts : nat) (args : str) (ignore : Z) (runs : list (list str))
  : result (list str) :=
  do ig <- effective_ignore args ignore;
  let pc := fold_left (fun pc lines => postprocess pc lines ig) runs (pc_init nutts) in
  pc_most_common pc.

(* ---------- build_colloc0_grammar: the terminal rules ---------- *)

Fixpoint insert_s (x : str) (l : list str) : list str :=
  match l with
  | [] => [x]
  | y :: r => if str_eqb x y then l else if str_ltb x y then x :: l else y :: insert_s x r
  end.
Definition sorted_set (l : list str) : list str := fold_right insert_s [] l.

Definition grammar_phones (train test : list str) : list str :=
  sorted_set (flat_map split_ws train ++ flat_map split_ws test).

(* ---------- xtree_parse_words ---------- *)

Inductive xtree := XNode (cat : str) (children : list xtree).

Fixpoint xtree_words (wordcat : str) (t : xtree) : str :=
  match t with
  | XNode cat [] => cat
  | XNode _ children =>
    (fix go (l : list xtree) : str :=
       match l with
       | [] => []
       | (XNode c _ as ch) :: r =>
         (if str_eqb wordcat c then [sp] else []) ++ xtree_words wordcat ch ++ go r
       end) children
  end.

Fixpoint xyield (t : xtree) : list str :=
  match t with
  | XNode cat [] => [cat]
  | XNode _ children => (fix go (l : list xtree) : list str :=
                           match l with [] => [] | ch :: r => xyield ch ++ go r end) children
  end.

(* ---------- wire ---------- *)

Definition run_yield_parses (j : J) : J :=
  match j with
  | JL [lines; ig] =>
    match d_list d_str lines, d_Z ig with
    | Some lines, Some ig => j_list (j_list j_str) (yield_parses lines ig)
    | _, _ => j_bad end
  | _ => j_bad end.

Definition run_segment_outputs (j : J) : J :=
  match j with
  | JL [nutts; args; ig; runs] =>
    match d_nat nutts, d_str args, d_Z ig, d_list (d_list d_str) runs with
    | Some nutts, Some args, Some ig, Some runs =>
      j_result (j_list j_str) (segment_from_outputs nutts args ig runs)
    | _, _, _, _ => j_bad end
  | _ => j_bad end.

Definition run_nparses (j : J) : J :=
  match j with
  | JL [args; ig] =>
    match d_str args, d_Z ig with
    | Some args, Some ig => JL [j_result JI (wrapper_nparses args); j_result JI (effective_ignore args ig)]
    | _, _ => j_bad end
  | _ => j_bad end.

Definition run_setup_seed (j : J) : J :=
  match j with
  | JL [args; nruns; rnd] =>
    match d_str args, d_nat nruns, d_list d_Z rnd with
    | Some args, Some nruns, Some rnd => j_result (j_list j_str) (setup_seed args nruns rnd)
    | _, _, _ => j_bad end
  | _ => j_bad end.

Definition run_emitted (j : J) : J :=
  match j with
  | JL [n; x] => match d_nat n, d_nat x with Some n, Some x => j_nat (emitted n x) | _, _ => j_bad end
  | _ => j_bad end.

Definition run_grammar_phones (j : J) : J :=
  match j with
  | JL [tr; te] =>
    match d_list d_str tr, d_list d_str te with
    | Some tr, Some te => j_list j_str (grammar_phones tr te)
    | _, _ => j_bad end
  | _ => j_bad end.
