(* Proofs about the Python wrapper of wordseg/algos/ag.py (property C02): the
   wrapper returns, for every utterance, one of the parses the program emitted
   for it (hence the input with only spaces added when the program obeys its
   contract), raises RuntimeError when no complete parse was emitted, and about
   the model of the program's printer xtree_parse_words.  Stdlib only. *)
From WS Require Import Base.Py Base.Str Base.Seg Base.Counter Base.CounterProofs AG.Model.
Local Open Scope nat_scope.

(* ================================================================== *)
(** * Generic facts *)

Lemma mapM_Forall2 {A B : Type} (f : A -> result B) (l : list A) (r : list B) :
  mapM f l = Ok r <-> Forall2 (fun (x : A) (y : B) => f x = Ok y) l r.
Proof.
  revert r; induction l as [|x l IH]; intros r; cbn [mapM]; split; intros H.
  - inversion H; constructor.
  - inversion H; reflexivity.
  - destruct (f x) as [y|e] eqn:E; cbn [bind] in H; [|discriminate].
    destruct (mapM f l) as [ys|e] eqn:E2; cbn [bind] in H; [|discriminate].
    inversion H; subst. constructor; [exact E|]. apply IH. reflexivity.
  - inversion H as [|? y ? ys Hy Hys]; subst. rewrite Hy. cbn [bind].
    apply IH in Hys. rewrite Hys. reflexivity.
Qed.

Lemma mapM_raise {A B : Type} (f : A -> result B) (l : list A) (e : exn) :
  mapM f l = Raise e -> exists x : A, In x l /\ f x = Raise e.
Proof.
  induction l as [|x l IH]; cbn [mapM]; intros H; [discriminate|].
  destruct (f x) as [y|e'] eqn:E; cbn [bind] in H.
  - destruct (mapM f l) as [ys|e''] eqn:E2; cbn [bind] in H; [discriminate|].
    inversion H; subst. destruct (IH eq_refl) as [z [Hz Hf]].
    exists z. split; [now right|exact Hf].
  - inversion H; subst. exists x. split; [now left|exact E].
Qed.

Lemma Forall2_length_ {A B : Type} (R : A -> B -> Prop) (l : list A) (l' : list B) :
  Forall2 R l l' -> length l = length l'.
Proof. induction 1; cbn [length]; congruence. Qed.

Lemma Forall2_nth_error {A B : Type} (R : A -> B -> Prop) (l : list A) (l' : list B)
      (i : nat) (x : A) (y : B) :
  Forall2 R l l' -> nth_error l i = Some x -> nth_error l' i = Some y -> R x y.
Proof.
  intros H; revert i; induction H as [|a b l l' Hab _ IH]; intros [|i] Hx Hy;
    cbn [nth_error] in *; try discriminate.
  - inversion Hx; inversion Hy; subst. exact Hab.
  - now apply (IH i).
Qed.

Lemma Forall2_nth_error_r {A B : Type} (R : A -> B -> Prop) (l : list A) (l' : list B)
      (i : nat) (y : B) :
  Forall2 R l l' -> nth_error l' i = Some y -> exists x : A, nth_error l i = Some x /\ R x y.
Proof.
  intros H; revert i; induction H as [|a b l l' Hab _ IH]; intros [|i] Hy;
    cbn [nth_error] in *; try discriminate.
  - inversion Hy; subst. now exists a.
  - now apply (IH i).
Qed.

Lemma Forall2_of_nth_error {A B : Type} (R : A -> B -> Prop) (l : list A) (l' : list B) :
  length l = length l' ->
  (forall (i : nat) (x : A) (y : B), nth_error l i = Some x -> nth_error l' i = Some y -> R x y) ->
  Forall2 R l l'.
Proof.
  revert l'; induction l as [|a l IH]; intros [|b l'] Hlen H; cbn [length] in Hlen; try discriminate.
  - constructor.
  - constructor.
    + now apply (H 0).
    + apply IH; [congruence|]. intros i x y Hx Hy. now apply (H (S i)).
Qed.

(* ================================================================== *)
(** * ParseCounter *)

(* one line per utterance, each a segmentation of its utterance *)
Definition parse_ok (units : list (list str)) (parse : list str) : Prop :=
  Forall2 is_seg units parse.

Lemma cadd_keys (c : counter str) (k : str) (d : Z) (x : str) :
  In x (map fst (cadd str_eqb c k d)) -> In x (map fst c) \/ x = k.
Proof.
  induction c as [|[k0 v] r IH]; cbn [cadd map fst].
  - intros [E|[]]. now right.
  - destruct (str_eqb k k0); cbn [map fst]; intros [E|Hin].
    + left. now left.
    + left. now right.
    + left. now left.
    + destruct (IH Hin) as [H|H]; [left; now right|now right].
Qed.

Lemma cadd_nonnil (c : counter str) (k : str) (d : Z) : cadd str_eqb c k d <> [].
Proof. destruct c as [|[k0 v] r]; cbn [cadd]; [discriminate|]. destruct (str_eqb k k0); discriminate. Qed.

Lemma bump_all_length (cs : list (counter str)) (parse : list str) :
  length (bump_all cs parse) = length cs.
Proof.
  revert parse; induction cs as [|c cs IH]; intros [|u parse]; cbn [bump_all length]; auto.
Qed.

Lemma bump_all_nth (cs : list (counter str)) (parse : list str) (i : nat) (c' : counter str) :
  nth_error (bump_all cs parse) i = Some c' ->
  exists c : counter str, nth_error cs i = Some c /\
    (c' = c \/ exists u : str, nth_error parse i = Some u /\ c' = cadd str_eqb c u 1).
Proof.
  revert parse i; induction cs as [|c cs IH]; intros parse i H.
  - destruct parse; cbn [bump_all] in H; destruct i; discriminate.
  - destruct parse as [|u parse]; cbn [bump_all] in H.
    + exists c'. split; [exact H|now left].
    + destruct i as [|i]; cbn [nth_error] in *.
      * inversion H; subst. exists c. split; [reflexivity|]. right. now exists u.
      * now apply IH.
Qed.

Lemma bump_all_nonnil (cs : list (counter str)) (parse : list str) :
  length parse = length cs -> Forall (fun c : counter str => c <> []) (bump_all cs parse).
Proof.
  revert parse; induction cs as [|c cs IH]; intros [|u parse] H; cbn [length] in H; try discriminate.
  - constructor.
  - cbn [bump_all]. constructor; [apply cadd_nonnil|]. apply IH. congruence.
Qed.

(* one step of postprocess *)
Definition pstep (pc : pcounter) (parse : list str) : pcounter :=
  if Nat.eqb (length parse) (pc_nutts pc)
  then match pc_update pc parse with Ok pc' => pc' | Raise _ => pc end
  else pc.

Lemma postprocess_unfold (pc : pcounter) (lines : list str) (ig : Z) :
  postprocess pc lines ig = fold_left pstep (yield_parses lines ig) pc.
Proof. reflexivity. Qed.

Lemma pstep_eq (pc : pcounter) (parse : list str) :
  pstep pc parse =
  if Nat.eqb (length parse) (pc_nutts pc)
  then {| pc_nutts := pc_nutts pc;
          pc_counters := bump_all (pc_counters pc) parse;
          pc_nparses := (pc_nparses pc + 1)%Z |}
  else pc.
Proof.
  unfold pstep, pc_update. destruct (Nat.eqb (length parse) (pc_nutts pc)); reflexivity.
Qed.

Lemma pstep_nutts (pc : pcounter) (parse : list str) : pc_nutts (pstep pc parse) = pc_nutts pc.
Proof. rewrite pstep_eq. destruct (Nat.eqb (length parse) (pc_nutts pc)); reflexivity. Qed.

Lemma fold_pstep_nutts (parses : list (list str)) (pc : pcounter) :
  pc_nutts (fold_left pstep parses pc) = pc_nutts pc.
Proof.
  revert pc; induction parses as [|p ps IH]; intros pc; [reflexivity|].
  cbn [fold_left]. rewrite IH. apply pstep_nutts.
Qed.

Lemma postprocess_nutts (pc : pcounter) (lines : list str) (ig : Z) :
  pc_nutts (postprocess pc lines ig) = pc_nutts pc.
Proof. rewrite postprocess_unfold. apply fold_pstep_nutts. Qed.

Lemma fold_pstep_keys (parses : list (list str)) (pc : pcounter) (i : nat)
      (c' : counter str) (k : str) :
  nth_error (pc_counters (fold_left pstep parses pc)) i = Some c' -> In k (map fst c') ->
  (exists c : counter str, nth_error (pc_counters pc) i = Some c /\ In k (map fst c)) \/
  (exists tree : list str, In tree parses /\ length tree = pc_nutts pc /\ nth_error tree i = Some k).
Proof.
  revert pc; induction parses as [|p ps IH]; intros pc Hn Hk.
  - left. now exists c'.
  - cbn [fold_left] in Hn. destruct (IH (pstep pc p) Hn Hk) as [(c & Hc & Hkc)|(tree & Ht & Hl & Hi)].
    + rewrite pstep_eq in Hc. destruct (Nat.eqb_spec (length p) (pc_nutts pc)) as [El|Nl].
      * cbn [pc_counters] in Hc. apply bump_all_nth in Hc.
        destruct Hc as (c0 & Hc0 & [-> | (u & Hu & ->)]).
        -- left. now exists c0.
        -- apply cadd_keys in Hkc. destruct Hkc as [Hkc | ->].
           ++ left. now exists c0.
           ++ right. exists p. split; [now left|]. now split.
      * left. now exists c.
    + right. exists tree. rewrite pstep_nutts in Hl. split; [now right|]. now split.
Qed.

(* every key of counter i after postprocess is a key of counter i before, or the
   i-th line of a complete tree yielded from the run's output *)
Theorem postprocess_keys : forall (pc : pcounter) (lines : list str) (ig : Z) (i : nat)
    (c' : counter str) (k : str),
  nth_error (pc_counters (postprocess pc lines ig)) i = Some c' -> In k (map fst c') ->
  (exists c : counter str, nth_error (pc_counters pc) i = Some c /\ In k (map fst c)) \/
  (exists tree : list str, In tree (yield_parses lines ig) /\ length tree = pc_nutts pc /\
                           nth_error tree i = Some k).
Proof. intros pc lines ig i c' k. rewrite postprocess_unfold. apply fold_pstep_keys. Qed.

Definition run_all (nutts : nat) (ig : Z) (runs : list (list str)) (pc : pcounter) : pcounter :=
  fold_left (fun (pc : pcounter) (lines : list str) => postprocess pc lines ig) runs pc.

Lemma run_all_nutts (nutts : nat) (ig : Z) (runs : list (list str)) (pc : pcounter) :
  pc_nutts (run_all nutts ig runs pc) = pc_nutts pc.
Proof.
  revert pc; induction runs as [|l runs IH]; intros pc; [reflexivity|].
  unfold run_all in *. cbn [fold_left]. rewrite IH. apply postprocess_nutts.
Qed.

Lemma run_all_keys (nutts : nat) (ig : Z) (runs : list (list str)) (pc : pcounter) (i : nat)
      (c' : counter str) (k : str) :
  nth_error (pc_counters (run_all nutts ig runs pc)) i = Some c' -> In k (map fst c') ->
  (exists c : counter str, nth_error (pc_counters pc) i = Some c /\ In k (map fst c)) \/
  (exists (lines : list str) (tree : list str),
      In lines runs /\ In tree (yield_parses lines ig) /\ length tree = pc_nutts pc /\
      nth_error tree i = Some k).
Proof.
  revert pc; induction runs as [|l runs IH]; intros pc Hn Hk.
  - left. now exists c'.
  - unfold run_all in Hn. cbn [fold_left] in Hn. fold (run_all nutts ig runs (postprocess pc l ig)) in Hn.
    destruct (IH _ Hn Hk) as [(c & Hc & Hkc)|(lines & tree & Hl & Ht & Hlen & Hi)].
    + destruct (postprocess_keys pc l ig i c k Hc Hkc) as [Hold|(tree & Ht & Hlen & Hi)].
      * now left.
      * right. exists l, tree. split; [now left|]. now repeat split.
    + right. exists lines, tree. rewrite postprocess_nutts in Hlen. split; [now right|]. now repeat split.
Qed.

(* ---------- most_common ---------- *)

Lemma best_of_in (c : counter str) (best : str * Z) :
  best_of c best = best \/ In (best_of c best) c.
Proof.
  revert best; induction c as [|kv r IH]; intros best; cbn [best_of]; [now left|].
  destruct (IH (if better kv best then kv else best)) as [E|Hin].
  - rewrite E. destruct (better kv best); [right; now left|now left].
  - right. now right.
Qed.

Theorem most_common1_in : forall (c : counter str) (k : str),
  most_common1 c = Ok k -> In k (map fst c).
Proof.
  intros [|kv r] k; cbn [most_common1]; [discriminate|]. intros H. inversion H; subst.
  apply in_map. destruct (best_of_in r kv) as [E|Hin]; [rewrite E; now left|now right].
Qed.

Lemma most_common1_raise (c : counter str) (e : exn) :
  most_common1 c = Raise e -> c = [] /\ e = ValueError.
Proof. destruct c; cbn [most_common1]; [|discriminate]. intros H. now inversion H. Qed.

(* ---------- invariant: sizes, nparses ---------- *)

Definition pc_wf (pc : pcounter) : Prop :=
  length (pc_counters pc) = pc_nutts pc /\ (0 <= pc_nparses pc)%Z /\
  ((0 < pc_nparses pc)%Z -> Forall (fun c : counter str => c <> []) (pc_counters pc)).

Lemma pc_init_wf (nutts : nat) : pc_wf (pc_init nutts).
Proof.
  unfold pc_wf, pc_init. cbn [pc_counters pc_nutts pc_nparses].
  split; [apply repeat_length|]. split; lia.
Qed.

Lemma pstep_wf (pc : pcounter) (parse : list str) : pc_wf pc -> pc_wf (pstep pc parse).
Proof.
  intros (H1 & H2 & H3). rewrite pstep_eq.
  destruct (Nat.eqb_spec (length parse) (pc_nutts pc)) as [El|Nl]; [|now repeat split].
  unfold pc_wf. cbn [pc_counters pc_nutts pc_nparses]. split; [|split].
  - now rewrite bump_all_length.
  - lia.
  - intros _. apply bump_all_nonnil. congruence.
Qed.

Lemma fold_pstep_wf (parses : list (list str)) (pc : pcounter) :
  pc_wf pc -> pc_wf (fold_left pstep parses pc).
Proof.
  revert pc; induction parses as [|p ps IH]; intros pc H; [exact H|].
  cbn [fold_left]. apply IH. now apply pstep_wf.
Qed.

Lemma run_all_wf (nutts : nat) (ig : Z) (runs : list (list str)) (pc : pcounter) :
  pc_wf pc -> pc_wf (run_all nutts ig runs pc).
Proof.
  revert pc; induction runs as [|l runs IH]; intros pc H; [exact H|].
  unfold run_all in *. cbn [fold_left]. apply IH. rewrite postprocess_unfold. now apply fold_pstep_wf.
Qed.

Lemma fold_pstep_none (parses : list (list str)) (pc : pcounter) :
  (forall tree : list str, In tree parses -> length tree <> pc_nutts pc) ->
  fold_left pstep parses pc = pc.
Proof.
  induction parses as [|p ps IH]; intros H; [reflexivity|].
  cbn [fold_left]. assert (E : pstep pc p = pc).
  { rewrite pstep_eq. destruct (Nat.eqb_spec (length p) (pc_nutts pc)) as [El|Nl]; [|reflexivity].
    exfalso. apply (H p); [now left|exact El]. }
  rewrite E. apply IH. intros tree Ht. apply H. now right.
Qed.

Lemma run_all_none (nutts : nat) (ig : Z) (runs : list (list str)) (pc : pcounter) :
  (forall lines tree : list str, In lines runs -> In tree (yield_parses lines ig) ->
                                 length tree <> pc_nutts pc) ->
  run_all nutts ig runs pc = pc.
Proof.
  induction runs as [|l runs IH]; intros H; [reflexivity|].
  unfold run_all in *. cbn [fold_left].
  assert (E : postprocess pc l ig = pc).
  { rewrite postprocess_unfold. apply fold_pstep_none. intros tree Ht. apply (H l); [now left|exact Ht]. }
  rewrite E. apply IH. intros lines tree Hl. apply H. now right.
Qed.

(* ---------- argument parsing ---------- *)

Lemma int_option_raise (flag : char) (toks : list str) (e : exn) :
  int_option flag toks = Raise e -> e = ValueError.
Proof.
  unfold int_option. destruct (opt_value flag toks None) as [v|]; [|discriminate].
  destruct (all_digits v); [discriminate|]. intros H. now inversion H.
Qed.

Lemma wrapper_nparses_raise (toks : list str) (e : exn) : wrapper_nparses toks = Raise e -> e = ValueError.
Proof.
  unfold wrapper_nparses. intros H.
  destruct (int_option ch_n toks) as [on|e1] eqn:E1; cbn [bind] in H.
  - destruct (int_option ch_x toks) as [ox|e2] eqn:E2; cbn [bind] in H.
    + destruct (_ =? 0)%Z in H; [now inversion H|discriminate].
    + inversion H; subst. now apply int_option_raise in E2.
  - inversion H; subst. now apply int_option_raise in E1.
Qed.

Lemma effective_ignore_raise (toks : list str) (ignore : Z) (e : exn) :
  effective_ignore toks ignore = Raise e ->
  (e = ValueError /\ wrapper_nparses toks = Raise ValueError) \/
  (e = RuntimeError /\ exists np : Z, wrapper_nparses toks = Ok np).
Proof.
  unfold effective_ignore. intros H.
  destruct (wrapper_nparses toks) as [np|e'] eqn:E; cbn [bind] in H.
  - right. destruct (_ <=? _)%Z in H; [|discriminate]. inversion H. split; [reflexivity|now exists np].
  - left. inversion H; subst. apply wrapper_nparses_raise in E. now subst.
Qed.

(* ================================================================== *)
(** * segment(), as a function of the runs' outputs *)

Lemma segment_unfold (nutts : nat) (toks : list str) (ignore : Z) (runs : list (list str)) :
  segment_from_outputs nutts toks ignore runs =
  (do ig <- effective_ignore toks ignore; pc_most_common (run_all nutts ig runs (pc_init nutts))).
Proof. reflexivity. Qed.

Lemma pc_init_no_keys (nutts i : nat) (c : counter str) (k : str) :
  nth_error (pc_counters (pc_init nutts)) i = Some c -> In k (map fst c) -> False.
Proof.
  cbn [pc_init pc_counters]. intros H Hk. apply nth_error_In in H. apply repeat_spec in H.
  subst. destruct Hk.
Qed.

(* The wrapper returns one line per utterance, and line i is the i-th line of a
   complete parse that one of the runs emitted (after the ignored ones). *)
Theorem ag_wrapper_selects : forall (nutts : nat) (toks : list str) (ignore : Z)
    (runs : list (list str)) (out : list str),
  segment_from_outputs nutts toks ignore runs = Ok out ->
  exists ig : Z, effective_ignore toks ignore = Ok ig /\
  length out = nutts /\
  forall (i : nat) (k : str), nth_error out i = Some k ->
    exists (lines : list str) (tree : list str),
      In lines runs /\ In tree (yield_parses lines ig) /\ length tree = nutts /\
      nth_error tree i = Some k.
Proof.
  intros nutts toks ignore runs out H. rewrite segment_unfold in H.
  destruct (effective_ignore toks ignore) as [ig|e] eqn:Eig; cbn [bind] in H; [|discriminate].
  exists ig. split; [reflexivity|].
  set (pc := run_all nutts ig runs (pc_init nutts)) in *.
  unfold pc_most_common in H. destruct (pc_nparses pc =? 0)%Z; [discriminate|].
  apply mapM_Forall2 in H.
  destruct (run_all_wf nutts ig runs (pc_init nutts) (pc_init_wf nutts)) as (Hlen & _ & _).
  fold pc in Hlen. unfold pc in Hlen at 2. rewrite run_all_nutts in Hlen. cbn [pc_init pc_nutts] in Hlen.
  split; [rewrite <- (Forall2_length_ _ _ _ H); exact Hlen|].
  intros i k Hi.
  destruct (Forall2_nth_error_r _ _ _ i k H Hi) as (c & Hc & Hmc).
  apply most_common1_in in Hmc.
  destruct (run_all_keys nutts ig runs (pc_init nutts) i c k Hc Hmc) as [(c0 & Hc0 & Hk0)|Hex].
  - exfalso. exact (pc_init_no_keys nutts i c0 k Hc0 Hk0).
  - exact Hex.
Qed.

(* ... hence the input with only spaces added, when every complete parse the
   program emits is a segmentation of the input *)
Theorem ag_wrapper_preserves_units : forall (units : list (list str)) (toks : list str) (ignore : Z)
    (runs : list (list str)) (out : list str),
  (forall ig : Z, effective_ignore toks ignore = Ok ig ->
   forall lines tree : list str, In lines runs -> In tree (yield_parses lines ig) ->
     length tree = length units -> parse_ok units tree) ->
  segment_from_outputs (length units) toks ignore runs = Ok out -> aligned units out.
Proof.
  intros units toks ignore runs out Hc H.
  destruct (ag_wrapper_selects _ _ _ _ _ H) as (ig & Hig & Hlen & Hsel).
  apply Forall2_of_nth_error; [now symmetry|].
  intros i us k Hus Hk. destruct (Hsel i k Hk) as (lines & tree & Hl & Ht & Hlt & Hi).
  pose proof (Hc ig Hig lines tree Hl Ht Hlt) as Hp.
  exact (Forall2_nth_error _ _ _ i us k Hp Hus Hi).
Qed.

(* never a fabricated result: without a counted parse the wrapper raises *)
Theorem ag_no_count_raises : forall (nutts : nat) (toks : list str) (ignore ig : Z) (runs : list (list str)),
  effective_ignore toks ignore = Ok ig ->
  pc_nparses (run_all nutts ig runs (pc_init nutts)) = 0%Z ->
  segment_from_outputs nutts toks ignore runs = Raise RuntimeError.
Proof.
  intros nutts toks ignore ig runs Hig H0. rewrite segment_unfold, Hig. cbn [bind].
  unfold pc_most_common. now rewrite H0.
Qed.

Theorem ag_no_parse_raises : forall (nutts : nat) (toks : list str) (ignore ig : Z) (runs : list (list str)),
  effective_ignore toks ignore = Ok ig ->
  (forall lines tree : list str, In lines runs -> In tree (yield_parses lines ig) ->
                                 length tree <> nutts) ->
  segment_from_outputs nutts toks ignore runs = Raise RuntimeError.
Proof.
  intros nutts toks ignore ig runs Hig Hnone. apply (ag_no_count_raises nutts toks ignore ig runs Hig).
  rewrite run_all_none; [reflexivity|exact Hnone].
Qed.

(* the only exceptions: ValueError from the argument parsing, RuntimeError
   otherwise; the ValueError of min() on an empty counter is unreachable *)
Theorem ag_wrapper_errors : forall (nutts : nat) (toks : list str) (ignore : Z)
    (runs : list (list str)) (e : exn),
  segment_from_outputs nutts toks ignore runs = Raise e ->
  e = RuntimeError \/ (e = ValueError /\ wrapper_nparses toks = Raise ValueError).
Proof.
  intros nutts toks ignore runs e H. rewrite segment_unfold in H.
  destruct (effective_ignore toks ignore) as [ig|e'] eqn:Eig; cbn [bind] in H.
  - left. set (pc := run_all nutts ig runs (pc_init nutts)) in *.
    unfold pc_most_common in H. destruct (Z.eqb_spec (pc_nparses pc) 0) as [E0|N0]; [now inversion H|].
    exfalso. apply mapM_raise in H. destruct H as (c & Hc & Hr).
    apply most_common1_raise in Hr. destruct Hr as [-> _].
    destruct (run_all_wf nutts ig runs (pc_init nutts) (pc_init_wf nutts)) as (_ & Hpos & Hne).
    fold pc in Hpos, Hne. assert (Hall : Forall (fun c : counter str => c <> []) (pc_counters pc)) by (apply Hne; lia).
    rewrite Forall_forall in Hall. now apply (Hall [] Hc).
  - inversion H; subst. destruct (effective_ignore_raise _ _ _ Eig) as [[-> Hw]|[-> _]]; auto.
Qed.

(* ================================================================== *)
(** * xtree_parse_words (the program's printer) *)

(* induction principle for the nested type *)
Section XtreeInd.
Variable P : xtree -> Prop.
Hypothesis Hnode : forall (cat : str) (children : list xtree),
  Forall P children -> P (XNode cat children).

Fixpoint xtree_ind' (t : xtree) : P t :=
  match t with
  | XNode cat children =>
    Hnode cat children
      ((fix go (l : list xtree) : Forall P l :=
          match l with
          | [] => Forall_nil P
          | ch :: r => Forall_cons ch (xtree_ind' ch) (go r)
          end) children)
  end.
End XtreeInd.

Definition xcat (t : xtree) : str := match t with XNode c _ => c end.

(* number of spaces emitted in front of a child *)
Definition flagn (wc : str) (t : xtree) : nat := if str_eqb wc (xcat t) then 1 else 0.

Fixpoint xwords_list (wc : str) (l : list xtree) : str :=
  match l with
  | [] => []
  | ch :: r => repeat sp (flagn wc ch) ++ xtree_words wc ch ++ xwords_list wc r
  end.

Lemma xtree_words_leaf (wc c : str) : xtree_words wc (XNode c []) = c.
Proof. reflexivity. Qed.

Lemma xtree_words_node (wc c : str) (ch : xtree) (r : list xtree) :
  xtree_words wc (XNode c (ch :: r)) = xwords_list wc (ch :: r).
Proof.
  assert (G : forall l : list xtree,
    (fix go (l : list xtree) : str :=
       match l with
       | [] => []
       | (XNode c0 _ as ch0) :: r0 =>
         (if str_eqb wc c0 then [sp] else []) ++ xtree_words wc ch0 ++ go r0
       end) l = xwords_list wc l).
  { induction l as [|[c0 cs] l IH]; [reflexivity|]. cbn [xwords_list]. rewrite <- IH.
    unfold flagn. cbn [xcat]. destruct (str_eqb wc c0); reflexivity. }
  exact (G (ch :: r)).
Qed.

Lemma xyield_leaf (c : str) : xyield (XNode c []) = [c].
Proof. reflexivity. Qed.

Lemma xyield_node (c : str) (ch : xtree) (r : list xtree) :
  xyield (XNode c (ch :: r)) = flat_map xyield (ch :: r).
Proof.
  assert (G : forall l : list xtree,
    (fix go (l : list xtree) : list str :=
       match l with [] => [] | ch0 :: r0 => xyield ch0 ++ go r0 end) l = flat_map xyield l).
  { induction l as [|c0 l IH]; [reflexivity|]. cbn [flat_map]. now rewrite <- IH. }
  exact (G (ch :: r)).
Qed.

Lemma xyield_nonnil (t : xtree) : xyield t <> [].
Proof.
  induction t as [c children IH] using xtree_ind'. destruct children as [|ch r].
  - rewrite xyield_leaf. discriminate.
  - rewrite xyield_node. cbn [flat_map]. inversion IH as [|? ? Hch _]; subst.
    destruct (xyield ch); [congruence|discriminate].
Qed.

(* ---------- despace (xtree_words t) = the terminals glued ---------- *)

Definition nosp (w : str) : Prop := Forall (fun c : char => c <> sp) w.

Lemma despace_app (a b : str) : despace (a ++ b) = despace a ++ despace b.
Proof. apply filter_app. Qed.

Lemma despace_nosp (w : str) : nosp w -> despace w = w.
Proof.
  induction 1 as [|c w Hc _ IH]; [reflexivity|]. unfold despace. cbn [filter].
  destruct (N.eqb_spec c sp) as [E|_]; [contradiction|]. cbn [negb]. f_equal. exact IH.
Qed.

Lemma despace_repeat_sp (n : nat) : despace (repeat sp n) = [].
Proof. induction n as [|n IH]; [reflexivity|]. cbn [repeat]. exact IH. Qed.

Lemma xwords_list_yield (wc : str) (l : list xtree) :
  Forall (fun t : xtree => Forall nosp (xyield t) ->
                           despace (xtree_words wc t) = concat (xyield t)) l ->
  Forall nosp (flat_map xyield l) ->
  despace (xwords_list wc l) = concat (flat_map xyield l).
Proof.
  induction 1 as [|ch r Hch _ IH]; intros Hn; [reflexivity|].
  cbn [xwords_list flat_map] in *. apply Forall_app in Hn. destruct Hn as [Hn1 Hn2].
  rewrite !despace_app, despace_repeat_sp, concat_app, (Hch Hn1), (IH Hn2). reflexivity.
Qed.

(* removing the spaces from the printed line gives back the terminals, in order *)
Theorem xtree_words_yield : forall (cat : str) (t : xtree),
  Forall nosp (xyield t) -> despace (xtree_words cat t) = concat (xyield t).
Proof.
  intros wc t. induction t as [c children IH] using xtree_ind'. intros Hn.
  destruct children as [|ch r].
  - rewrite xtree_words_leaf, xyield_leaf in *. inversion Hn; subst.
    cbn [concat]. rewrite app_nil_r. now apply despace_nosp.
  - rewrite xtree_words_node. rewrite xyield_node in *. now apply xwords_list_yield.
Qed.

(* ---------- spaces only in front of terminals ---------- *)

(* the terminals ws, each preceded by the given number of spaces *)
Definition spaced_words (ws : list str) (ns : list nat) : str :=
  concat (map (fun tn : str * nat => repeat sp (snd tn) ++ fst tn) (combine ws ns)).

Lemma combine_app_ {A B : Type} (a1 a2 : list A) (b1 b2 : list B) :
  length a1 = length b1 -> combine (a1 ++ a2) (b1 ++ b2) = combine a1 b1 ++ combine a2 b2.
Proof.
  revert b1; induction a1 as [|x a1 IH]; intros [|y b1] H; cbn [length] in H; try discriminate.
  - reflexivity.
  - cbn [app combine]. rewrite IH by congruence. reflexivity.
Qed.

Lemma spaced_words_app (ws1 ws2 : list str) (ns1 ns2 : list nat) :
  length ws1 = length ns1 ->
  spaced_words (ws1 ++ ws2) (ns1 ++ ns2) = spaced_words ws1 ns1 ++ spaced_words ws2 ns2.
Proof.
  intros H. unfold spaced_words. now rewrite combine_app_, map_app, concat_app.
Qed.

Lemma spaced_words_bump (k n : nat) (w : str) (ws : list str) (ns : list nat) :
  repeat sp k ++ spaced_words (w :: ws) (n :: ns) = spaced_words (w :: ws) (k + n :: ns).
Proof.
  unfold spaced_words. cbn [combine map concat fst snd]. rewrite repeat_app, <- !app_assoc. reflexivity.
Qed.

(* spaces emitted at the very beginning of xtree_words: the chain of first children *)
Fixpoint lead (wc : str) (t : xtree) : nat :=
  match t with
  | XNode _ [] => 0
  | XNode _ (ch :: _) => flagn wc ch + lead wc ch
  end.

(* no terminal receives two spaces: below every node, a child of the word
   category does not itself start with a word-category chain *)
Fixpoint single_sp (wc : str) (t : xtree) : Prop :=
  match t with
  | XNode _ children =>
    (fix go (l : list xtree) : Prop :=
       match l with
       | [] => True
       | ch :: r => (flagn wc ch + lead wc ch <= 1 /\ single_sp wc ch) /\ go r
       end) children
  end.

Definition single_list (wc : str) (l : list xtree) : Prop :=
  Forall (fun ch : xtree => flagn wc ch + lead wc ch <= 1 /\ single_sp wc ch) l.

Lemma single_sp_node (wc c : str) (l : list xtree) :
  single_sp wc (XNode c l) <-> single_list wc l.
Proof.
  cbn [single_sp]. unfold single_list. induction l as [|ch r IH].
  - split; [constructor|exact (fun _ => I)].
  - split.
    + intros [H1 H2]. constructor; [exact H1|now apply IH].
    + intros H. inversion H; subst. split; [assumption|now apply IH].
Qed.

Definition spaced_spec (wc : str) (t : xtree) (ns : list nat) : Prop :=
  length ns = length (xyield t) /\
  xtree_words wc t = spaced_words (xyield t) ns /\
  hd 0 ns = lead wc t /\
  (single_sp wc t -> Forall (fun n : nat => n <= 1) ns).

Lemma xwords_list_spaced (wc : str) (l : list xtree) :
  Forall (fun t : xtree => exists ns : list nat, spaced_spec wc t ns) l ->
  exists ns : list nat,
    length ns = length (flat_map xyield l) /\
    xwords_list wc l = spaced_words (flat_map xyield l) ns /\
    hd 0 ns = match l with [] => 0 | ch :: _ => flagn wc ch + lead wc ch end /\
    (single_list wc l -> Forall (fun n : nat => n <= 1) ns).
Proof.
  induction 1 as [|ch r (ns1 & Hl1 & Hw1 & Hh1 & Hs1) _ (ns2 & Hl2 & Hw2 & _ & Hs2)].
  - exists []. repeat split; constructor.
  - pose proof (xyield_nonnil ch) as Hne.
    destruct (xyield ch) as [|w ws] eqn:Ey; [congruence|].
    destruct ns1 as [|n ns1]; [discriminate|]. cbn [hd] in Hh1.
    exists ((flagn wc ch + n :: ns1) ++ ns2). cbn [xwords_list flat_map]. rewrite Ey.
    split; [|split; [|split]].
    + rewrite !app_length, <- Hl2. cbn [length] in *. lia.
    + rewrite spaced_words_app by (cbn [length] in *; lia).
      rewrite <- spaced_words_bump, Hw1, Hw2, <- app_assoc. reflexivity.
    + cbn [app hd]. now rewrite Hh1.
    + intros Hs. inversion Hs as [|? ? [Hle Hsch] Hsr]; subst.
      apply Forall_app. split; [|now apply Hs2].
      specialize (Hs1 Hsch). inversion Hs1; subst. constructor; [lia|assumption].
Qed.

Lemma xtree_words_spaced_spec (wc : str) (t : xtree) : exists ns : list nat, spaced_spec wc t ns.
Proof.
  induction t as [c children IH] using xtree_ind'. destruct children as [|ch r].
  - exists [0]. unfold spaced_spec. rewrite xtree_words_leaf, xyield_leaf.
    split; [reflexivity|]. split; [|split; [reflexivity|]].
    + unfold spaced_words. cbn. now rewrite app_nil_r.
    + intros _. constructor; [lia|constructor].
  - destruct (xwords_list_spaced wc (ch :: r) IH) as (ns & H1 & H2 & H3 & H4).
    exists ns. unfold spaced_spec. rewrite xtree_words_node, xyield_node.
    split; [exact H1|]. split; [exact H2|]. split; [exact H3|].
    intros Hs. apply H4. now apply single_sp_node in Hs.
Qed.

(* In general a terminal can be preceded by several spaces (one per nested
   word-category node that starts at it): the strongest unconditional form. *)
Theorem xtree_words_spaced_partial : forall (cat : str) (t : xtree),
  exists ns : list nat,
    length ns = length (xyield t) /\
    xtree_words cat t =
    concat (map (fun tn : str * nat => repeat sp (snd tn) ++ fst tn) (combine (xyield t) ns)).
Proof.
  intros wc t. destruct (xtree_words_spaced_spec wc t) as (ns & H1 & H2 & _).
  exists ns. split; [exact H1|exact H2].
Qed.

(* the statement with boolean flags is false as soon as word nodes nest at a
   left edge: two spaces are printed in front of the same terminal *)
Definition xt_nested : xtree := XNode [83%N] [XNode [87%N] [XNode [87%N] [XNode [97%N] []]]].

Lemma xtree_words_nested : xtree_words [87%N] xt_nested = [sp; sp; 97%N].
Proof. vm_compute. reflexivity. Qed.

Theorem xtree_words_spaced_counterexample :
  ~ exists flags : list bool,
      length flags = length (xyield xt_nested) /\
      xtree_words [87%N] xt_nested =
      concat (map (fun tf : str * bool => (if snd tf then [sp] else []) ++ fst tf)
                  (combine (xyield xt_nested) flags)).
Proof.
  intros (flags & Hl & H). rewrite xtree_words_nested in H.
  destruct flags as [|[|] [|b flags]]; cbn in Hl; try discriminate; cbn in H; discriminate.
Qed.

Lemma spaced_words_flags (ws : list str) (ns : list nat) :
  Forall (fun n : nat => n <= 1) ns ->
  spaced_words ws ns =
  concat (map (fun tf : str * bool => (if snd tf then [sp] else []) ++ fst tf)
              (combine ws (map (Nat.eqb 1) ns))).
Proof.
  intros H; revert ws; induction H as [|n ns Hn _ IH]; intros ws.
  - destruct ws; reflexivity.
  - destruct ws as [|w ws]; [reflexivity|].
    unfold spaced_words in *. cbn [map combine concat fst snd]. rewrite IH.
    destruct n as [|[|n]]; [reflexivity|reflexivity|lia].
Qed.

(* with non-nested word nodes: at most one space, only in front of a terminal *)
Theorem xtree_words_spaced : forall (cat : str) (t : xtree),
  single_sp cat t ->
  exists flags : list bool,
    length flags = length (xyield t) /\
    xtree_words cat t =
    concat (map (fun tf : str * bool => (if snd tf then [sp] else []) ++ fst tf)
                (combine (xyield t) flags)).
Proof.
  intros wc t Hs. destruct (xtree_words_spaced_spec wc t) as (ns & H1 & H2 & _ & H4).
  exists (map (Nat.eqb 1) ns). split; [now rewrite map_length|].
  rewrite H2. apply spaced_words_flags. now apply H4.
Qed.

(* ---------- the printed line, stripped, is a segmentation of the terminals ---------- *)

Definition osp (b : bool) : str := if b then [sp] else [].

Definition flagged (ws : list str) (fs : list bool) : str :=
  concat (map (fun tf : str * bool => (if snd tf then [sp] else []) ++ fst tf) (combine ws fs)).

Lemma flagged_cons (w : str) (ws : list str) (f : bool) (fs : list bool) :
  flagged (w :: ws) (f :: fs) = osp f ++ w ++ flagged ws fs.
Proof. unfold flagged. cbn [combine map concat fst snd]. now rewrite <- app_assoc. Qed.

Lemma join_cons2 (sep x y : str) (r : list str) :
  join sep (x :: y :: r) = x ++ sep ++ join sep (y :: r).
Proof. reflexivity. Qed.

Lemma join_cons_app (sep a x : str) (r : list str) :
  join sep ((a ++ x) :: r) = a ++ join sep (x :: r).
Proof. destruct r as [|y r]; [reflexivity|]. rewrite !join_cons2. now rewrite <- app_assoc. Qed.

Lemma flagged_groups (ws : list str) : forall (w : str) (fs : list bool),
  length fs = length ws ->
  exists (g : list str) (gs : list (list str)),
    concat ((w :: g) :: gs) = w :: ws /\ Forall (fun g0 : list str => g0 <> []) gs /\
    w ++ flagged ws fs = join [sp] (map (@concat char) ((w :: g) :: gs)).
Proof.
  induction ws as [|w2 ws IH]; intros w fs Hl.
  - exists [], []. destruct fs; [|discriminate]. split; [reflexivity|]. split; [constructor|].
    cbn [map concat join]. reflexivity.
  - destruct fs as [|f2 fs]; [discriminate|]. cbn [length] in Hl.
    destruct (IH w2 fs ltac:(congruence)) as (g & gs & Hc & Hne & Hj).
    rewrite flagged_cons. destruct f2; cbn [osp].
    + exists [], ((w2 :: g) :: gs). split; [|split].
      * cbn [concat app] in *. now rewrite Hc.
      * constructor; [discriminate|exact Hne].
      * rewrite Hj. cbn [map]. rewrite join_cons2. cbn [concat]. now rewrite app_nil_r.
    + exists (w2 :: g), gs. split; [|split].
      * cbn [concat app] in *. congruence.
      * exact Hne.
      * cbn [app]. rewrite Hj. cbn [map]. change (concat (w :: w2 :: g)) with (w ++ concat (w2 :: g)).
        now rewrite join_cons_app.
Qed.

Lemma unit_ok_hd (u : str) : unit_ok u -> exists (c : char) (u' : str), u = c :: u' /\ is_space c = false.
Proof.
  intros [Hn Hf]. destruct u as [|c u']; [congruence|].
  exists c, u'. split; [reflexivity|]. now inversion Hf.
Qed.

Lemma unit_ok_last (u : str) : unit_ok u -> exists (u' : str) (c : char), u = u' ++ [c] /\ is_space c = false.
Proof.
  intros [Hn Hf]. destruct (exists_last Hn) as [u' [c E]]. exists u', c. split; [exact E|].
  subst u. apply Forall_app in Hf. destruct Hf as [_ Hf]. now inversion Hf.
Qed.

Lemma flagged_last (ws : list str) : forall (w : str) (fs : list bool),
  Forall unit_ok (w :: ws) ->
  exists (s : str) (c : char), w ++ flagged ws fs = s ++ [c] /\ is_space c = false.
Proof.
  induction ws as [|w2 ws IH]; intros w fs H; inversion H as [|? ? Hw Hws]; subst.
  - destruct (unit_ok_last w Hw) as (u' & c & -> & Hc). exists u', c.
    unfold flagged. cbn [combine map concat]. now rewrite app_nil_r.
  - destruct fs as [|f2 fs].
    + destruct (unit_ok_last w Hw) as (u' & c & -> & Hc). exists u', c.
      unfold flagged. cbn [combine map concat]. now rewrite app_nil_r.
    + destruct (IH w2 fs Hws) as (s & c & E & Hc). rewrite flagged_cons, E.
      exists (w ++ osp f2 ++ s), c. split; [now rewrite <- !app_assoc|exact Hc].
Qed.

Lemma strip_flagged (w : str) (ws : list str) (f : bool) (fs : list bool) :
  Forall unit_ok (w :: ws) -> strip (flagged (w :: ws) (f :: fs)) = w ++ flagged ws fs.
Proof.
  intros H. rewrite flagged_cons. destruct (flagged_last ws w fs H) as (s & c & E & Hc). rewrite E.
  inversion H as [|? ? Hw _]; subst. destruct (unit_ok_hd w Hw) as (c0 & u' & -> & Hc0).
  assert (Hl : lstrip (osp f ++ s ++ [c]) = s ++ [c]).
  { rewrite <- E. destruct f; cbn [osp app lstrip]; [change (is_space sp) with true; cbn iota|];
      rewrite Hc0; reflexivity. }
  unfold strip. rewrite Hl. unfold rstrip. rewrite rev_app_distr. cbn [rev app lstrip].
  rewrite Hc. cbn [rev]. now rewrite rev_involutive.
Qed.

(* when the terminals are the input units (non-empty, whitespace-free) and the
   word nodes do not nest, the line that yield_parses keeps is a segmentation *)
Theorem xtree_words_is_seg : forall (cat : str) (t : xtree),
  single_sp cat t -> Forall unit_ok (xyield t) ->
  is_seg (xyield t) (strip (xtree_words cat t)).
Proof.
  intros wc t Hs Hu. destruct (xtree_words_spaced wc t Hs) as (flags & Hl & Hw).
  pose proof (xyield_nonnil t) as Hne. destruct (xyield t) as [|w ws]; [congruence|].
  destruct flags as [|f fs]; [discriminate|]. cbn [length] in Hl.
  fold (flagged (w :: ws) (f :: fs)) in Hw. rewrite Hw, strip_flagged by exact Hu.
  destruct (flagged_groups ws w fs ltac:(congruence)) as (g & gs & Hc & Hgs & Hj).
  exists ((w :: g) :: gs). split; [exact Hc|]. split; [|exact Hj].
  constructor; [discriminate|exact Hgs].
Qed.

Print Assumptions ag_wrapper_preserves_units.
Print Assumptions xtree_words_is_seg.
Print Assumptions ag_wrapper_errors.
Print Assumptions ag_no_parse_raises.
Print Assumptions xtree_words_yield.
Print Assumptions xtree_words_spaced.
Print Assumptions xtree_words_spaced_counterexample.
