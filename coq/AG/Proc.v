(* Process / fault model for the ag and dpseg wrappers (property C16).
   What a run of the external program wrote and how it ended is a value; the
   semantics of bash pipelines, Popen.returncode, joblib and the temp-file
   clean-up constructs are modelled here and tied to the real wrappers by the
   fault enumeration of harness/c16.py. The configuration records are generated
   from the Python sources on every run (gen/ProcCfg.v). *)
From WS Require Import Base.Py.

Inductive how := HOk | HExit (n : Z) | HSignal (s : Z).

(* exit status of one pipeline stage as bash sees it *)
Definition stage_status (h : how) : Z :=
  match h with HOk => 0 | HExit n => n mod 256 | HSignal s => 128 + s end.

Definition failing (h : how) : Prop := stage_status h <> 0%Z.
Definition failing_b (h : how) : bool := negb (stage_status h =? 0)%Z.

(* status of a pipeline: the last stage, or with pipefail the rightmost non-zero one *)
Fixpoint rightmost_nonzero (sts : list Z) : Z :=
  match sts with
  | [] => 0
  | s :: r => let t := rightmost_nonzero r in if (t =? 0)%Z then s else t
  end.
Definition pipeline_status (pipefail : bool) (sts : list Z) : Z :=
  if pipefail then rightmost_nonzero sts else last sts 0%Z.

Definition truthy (z : Z) : bool := negb (z =? 0)%Z.

Record ag_cfg := {
  ag_before : nat;          (* stages before the program in the script (cat) *)
  ag_after : nat;           (* stages after it (gzip) *)
  ag_pipefail : bool;       (* the script sets -o pipefail *)
  ag_checks : bool;         (* `if process.returncode: raise RuntimeError` *)
  ag_finally : bool;        (* the run's temp directory is removed in a finally block *)
  ag_grammar_ctx : bool;    (* the grammar temp file lives in a with-block *)
  ag_joined : bool }.       (* the error of a failing run is raised by segment() once ALL the runs are done (fix 49fc37e) *)

(* does a run raise RuntimeError? the other stages (cat, gzip) succeed *)
Definition ag_run_raises (c : ag_cfg) (h : how) : bool :=
  ag_checks c &&
  truthy (pipeline_status (ag_pipefail c)
            (repeat 0%Z (ag_before c) ++ [stage_status h] ++ repeat 0%Z (ag_after c))).

Inductive outcome := Raised (e : exn) | Returned.

(* joblib contract: an exception raised by any task is raised by the call *)
Definition ag_segment_outcome (c : ag_cfg) (hs : list how) : outcome :=
  if existsb (ag_run_raises c) hs then Raised RuntimeError else Returned.

(* ghost file system: temp entries alive after the call (sequential execution:
   runs after the first raising one are not started) *)
Inductive tmp := TDir (run : nat) | TGrammar.

Fixpoint started (c : ag_cfg) (hs : list how) (i : nat) : list nat :=
  match hs with
  | [] => []
  | h :: r => i :: (if ag_run_raises c h then [] else started c r (S i))
  end.

Definition ag_left_behind (c : ag_cfg) (hs : list how) : list tmp :=
  (if ag_finally c then [] else map TDir (started c hs 0)) ++
  (if ag_grammar_ctx c then [] else [TGrammar]).

(* ---------- dpseg: no shell, Popen.returncode is n or -s ---------- *)

Record dp_cfg := {
  dp_checks : bool;         (* `if process.returncode: raise RuntimeError` *)
  dp_tmp_ctx : bool;        (* the output file lives in a with-block *)
  dp_threads : bool;        (* joblib.Parallel(..., backend="threading"): a failing fold does not kill the others *)
  dp_joined : bool }.       (* the error of a failing fold is raised by segment() once ALL the folds are done (fix 49fc37e) *)

Definition popen_returncode (h : how) : Z :=
  match h with HOk => 0 | HExit n => n mod 256 | HSignal s => - s end.

Definition dp_run_raises (c : dp_cfg) (h : how) : bool := dp_checks c && truthy (popen_returncode h).

Definition dp_segment_outcome (c : dp_cfg) (hs : list how) : outcome :=
  if existsb (dp_run_raises c) hs then Raised RuntimeError else Returned.

Definition dp_left_behind (c : dp_cfg) (hs : list how) : list nat :=
  if dp_tmp_ctx c then [] else started {| ag_before := 0; ag_after := 0; ag_pipefail := true;
                                          ag_checks := dp_checks c; ag_finally := true; ag_grammar_ctx := true; ag_joined := true |} hs 0.

(* Folds run njobs at a time. With joblib's process backend the first failing fold makes joblib kill
   its worker processes: a fold that is running at that moment never leaves its with-block, so its
   output file stays. Which folds are running is up to the scheduler: the model returns every fold that
   MAY be left (all the other ones); with threads, or one job, the with-blocks always complete. *)
Definition dp_may_leave (c : dp_cfg) (njobs : nat) (hs : list how) : list nat :=
  if negb (dp_tmp_ctx c) then seq 0 (length hs)
  else if (dp_threads c && dp_joined c) || (njobs <=? 1) then []
  else if existsb (dp_run_raises c) hs
       then filter (fun i => negb (dp_run_raises c (nth i hs HOk))) (seq 0 (length hs))
       else [].

(* The same question for ag, at the moment segment() raises: joblib re-raises the exception of a job AT ONCE, while
   the sibling runs are still working in their directories (and a command exits on that error: their finally
   blocks never run). Unless the error is kept until every run is done, every run that does not fail itself may
   have its directory there. *)
Definition ag_may_leave (c : ag_cfg) (njobs : nat) (hs : list how) : list nat :=
  if negb (ag_finally c) then seq 0 (length hs)
  else if ag_joined c || (njobs <=? 1) then []
  else if existsb (ag_run_raises c) hs
       then filter (fun i => negb (ag_run_raises c (nth i hs HOk))) (seq 0 (length hs))
       else [].

(* ---------- theorems ---------- *)

Lemma rightmost_nonzero_app_zero l n : rightmost_nonzero (l ++ repeat 0%Z n) = rightmost_nonzero l.
Proof.
  induction l as [|x l IH]; simpl.
  - induction n as [|n IHn]; simpl; [reflexivity|]. now rewrite IHn.
  - now rewrite IH.
Qed.

Lemma rightmost_nonzero_zero_app n l : rightmost_nonzero (repeat 0%Z n ++ l) = rightmost_nonzero l.
Proof.
  induction n as [|n IH]; simpl; [reflexivity|]. rewrite IH.
  destruct (rightmost_nonzero l =? 0)%Z eqn:E; [|reflexivity].
  apply Z.eqb_eq in E. now rewrite E.
Qed.

Lemma pipefail_status c h : ag_pipefail c = true ->
  pipeline_status (ag_pipefail c) (repeat 0%Z (ag_before c) ++ [stage_status h] ++ repeat 0%Z (ag_after c))
  = stage_status h.
Proof.
  intros H. rewrite H. unfold pipeline_status.
  rewrite rightmost_nonzero_zero_app, rightmost_nonzero_app_zero. simpl.
  reflexivity.
Qed.

Lemma ag_run_raises_iff c h : ag_pipefail c = true -> ag_checks c = true ->
  ag_run_raises c h = failing_b h.
Proof.
  intros Hp Hc. unfold ag_run_raises. rewrite Hc, pipefail_status by exact Hp. reflexivity.
Qed.

Lemma failing_b_spec h : failing_b h = true <-> failing h.
Proof.
  unfold failing_b, failing. destruct (Z.eqb_spec (stage_status h) 0); simpl; split; intros; congruence.
Qed.

(* every number of runs, every position of the failing run, every exit mode *)
Theorem ag_failure_raises : forall c hs, ag_pipefail c = true -> ag_checks c = true ->
  Exists failing hs -> ag_segment_outcome c hs = Raised RuntimeError.
Proof.
  intros c hs Hp Hc He. unfold ag_segment_outcome.
  assert (E : existsb (ag_run_raises c) hs = true).
  { apply existsb_exists. apply Exists_exists in He. destruct He as [h [Hin Hf]].
    exists h. split; [exact Hin|]. rewrite ag_run_raises_iff by assumption. now apply failing_b_spec. }
  now rewrite E.
Qed.

Theorem ag_success_returns : forall c hs, ag_pipefail c = true -> ag_checks c = true ->
  Forall (fun h => ~ failing h) hs -> ag_segment_outcome c hs = Returned.
Proof.
  intros c hs Hp Hc Hf. unfold ag_segment_outcome.
  assert (E : existsb (ag_run_raises c) hs = false).
  { induction Hf as [|h r Hh Hr IH]; simpl; [reflexivity|].
    rewrite ag_run_raises_iff by assumption. rewrite IH.
    destruct (failing_b h) eqn:F; [|reflexivity]. apply failing_b_spec in F. contradiction. }
  now rewrite E.
Qed.

Theorem ag_no_temp_left : forall c hs, ag_finally c = true -> ag_grammar_ctx c = true ->
  ag_left_behind c hs = [].
Proof. intros c hs H1 H2. unfold ag_left_behind. now rewrite H1, H2. Qed.

Lemma repeat_snoc {A} (x : A) n : repeat x (S n) = repeat x n ++ [x].
Proof. induction n as [|n IH]; [reflexivity|]. simpl. simpl in IH. now rewrite <- IH. Qed.

Lemma last_app_repeat_zero (l : list Z) n : last (l ++ repeat 0%Z (S n)) 0%Z = 0%Z.
Proof. rewrite repeat_snoc, app_assoc. apply last_last. Qed.

(* without pipefail a failing program is masked by the status of gzip *)
Theorem ag_masked_without_pipefail : forall c h, ag_pipefail c = false -> 1 <= ag_after c ->
  ag_run_raises c h = false.
Proof.
  intros c h Hp Ha. unfold ag_run_raises, pipeline_status. rewrite Hp.
  destruct (ag_after c) as [|n]; [lia|].
  rewrite app_assoc, last_app_repeat_zero. simpl. now rewrite andb_false_r.
Qed.

Lemma popen_failing h : failing h -> popen_returncode h <> 0%Z \/ exists s, h = HSignal s.
Proof. destruct h; unfold failing; simpl; intros H; [congruence|left; exact H|right; eauto]. Qed.

(* a signal number is positive: stated as hypothesis on the behaviours *)
Definition well_formed (h : how) : Prop := match h with HSignal s => (0 < s)%Z | _ => True end.

Theorem dp_failure_raises : forall c hs, dp_checks c = true -> Forall well_formed hs ->
  Exists failing hs -> dp_segment_outcome c hs = Raised RuntimeError.
Proof.
  intros c hs Hc Hw He. unfold dp_segment_outcome.
  assert (E : existsb (dp_run_raises c) hs = true).
  { apply existsb_exists. apply Exists_exists in He. destruct He as [h [Hin Hf]].
    exists h. split; [exact Hin|]. unfold dp_run_raises, truthy. rewrite Hc. simpl.
    rewrite Forall_forall in Hw. specialize (Hw h Hin).
    destruct h as [|n|s]; unfold failing in Hf; simpl in *.
    - congruence.
    - destruct (Z.eqb_spec (n mod 256) 0); [contradiction|reflexivity].
    - destruct (Z.eqb_spec (- s) 0); [lia|reflexivity]. }
  now rewrite E.
Qed.

Theorem dp_success_returns : forall c hs, Forall (fun h => h = HOk) hs -> dp_segment_outcome c hs = Returned.
Proof.
  intros c hs Hf. unfold dp_segment_outcome.
  assert (E : existsb (dp_run_raises c) hs = false).
  { induction Hf as [|h r Hh Hr IH]; simpl; [reflexivity|]. subst. rewrite IH.
    unfold dp_run_raises. simpl. now rewrite andb_false_r. }
  now rewrite E.
Qed.

Theorem dp_no_temp_left : forall c hs, dp_tmp_ctx c = true -> dp_left_behind c hs = [].
Proof. intros c hs H. unfold dp_left_behind. now rewrite H. Qed.

(* parallel folds: with the threading backend (since fix 0bab8df) nothing can be left, whatever the
   number of jobs, the fates of the folds and the schedule *)
Theorem dp_parallel_no_temp_left : forall c njobs hs, dp_tmp_ctx c = true -> dp_threads c = true -> dp_joined c = true ->
  dp_may_leave c njobs hs = [].
Proof. intros c njobs hs H1 H2 H3. unfold dp_may_leave. now rewrite H1, H2, H3. Qed.

Theorem ag_parallel_no_temp_left : forall c njobs hs, ag_finally c = true -> ag_joined c = true ->
  ag_may_leave c njobs hs = [].
Proof. intros c njobs hs H1 H2. unfold ag_may_leave. now rewrite H1, H2. Qed.

(* the defect repaired by 49fc37e: threads, two jobs, the first run (fold) fails at once, the error is raised at once:
   the directory (file) of the second one, still working, is there *)
Example ag_unjoined_may_leave :
  ag_may_leave {| ag_before := 1; ag_after := 1; ag_pipefail := true; ag_checks := true; ag_finally := true;
                  ag_grammar_ctx := true; ag_joined := false |} 2 [HExit 1; HOk] = [1]%nat.
Proof. reflexivity. Qed.
Example dp_unjoined_may_leave :
  dp_may_leave {| dp_checks := true; dp_tmp_ctx := true; dp_threads := true; dp_joined := false |} 2 [HSignal 9; HOk; HOk] = [1; 2]%nat.
Proof. reflexivity. Qed.

Theorem dp_single_job_no_temp_left : forall c hs, dp_tmp_ctx c = true -> dp_may_leave c 1 hs = [].
Proof. intros c hs H. unfold dp_may_leave. rewrite H. cbn. now rewrite orb_true_r. Qed.

(* the defect repaired by 0bab8df: process backend, two jobs, the first fold fails, the second may stay *)
Example dp_processes_may_leave :
  dp_may_leave {| dp_checks := true; dp_tmp_ctx := true; dp_threads := false; dp_joined := true |} 2 [HExit 1; HOk; HOk] = [1; 2]%nat.
Proof. reflexivity. Qed.

(* ---------- wire: the model's prediction for a scenario ---------- *)
Definition d_how (j : J) : option how :=
  match j with
  | JL [JI 0] => Some HOk
  | JL [JI 1; JI n] => Some (HExit n)
  | JL [JI 2; JI s] => Some (HSignal s)
  | _ => None end%Z.

Definition j_outcome (o : outcome) : J :=
  match o with Returned => JL [JI 0] | Raised e => JL [JI 1; JI (exn_code e)] end.
