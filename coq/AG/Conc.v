(* A small shared-memory machine for ParseCounter.update (property C15).
   Every `x += 1` on shared state is two separately schedulable steps
   (read, then write of the value read plus one): Python guarantees no
   atomicity for them. A `with lock:` block is Acquire ... Release. *)
From WS Require Import Base.Py.

Definition cell := nat.        (* 0 = self.nparses; >= 1 = one (utterance index, parse string) counter entry *)

Inductive instr := ILocal | IRead (x : cell) | IWrite (x : cell) | IAcquire | IRelease.

Record thread := { code : list instr; reg : option Z }.

Record mstate := { store : list (cell * Z); lock : option nat; threads : list thread }.

Fixpoint sget (s : list (cell * Z)) (x : cell) : Z :=
  match s with
  | [] => 0%Z
  | (y, v) :: r => if Nat.eqb x y then v else sget r x
  end.

Fixpoint sset (s : list (cell * Z)) (x : cell) (v : Z) : list (cell * Z) :=
  match s with
  | [] => [(x, v)]
  | (y, w) :: r => if Nat.eqb x y then (y, v) :: r else (y, w) :: sset r x v
  end.

Fixpoint set_nth {A} (l : list A) (i : nat) (a : A) : list A :=
  match l, i with
  | [], _ => []
  | _ :: r, O => a :: r
  | x :: r, S j => x :: set_nth r j a
  end.

(* one step of thread [tid]; None when the thread is finished or blocked *)
Definition step (st : mstate) (tid : nat) : option mstate :=
  match nth_error (threads st) tid with
  | None => None
  | Some th =>
    match code th with
    | [] => None
    | i :: rest =>
      match i with
      | ILocal =>
        Some {| store := store st; lock := lock st;
                threads := set_nth (threads st) tid {| code := rest; reg := reg th |} |}
      | IRead x =>
        Some {| store := store st; lock := lock st;
                threads := set_nth (threads st) tid {| code := rest; reg := Some (sget (store st) x) |} |}
      | IWrite x =>
        match reg th with
        | Some v =>
          Some {| store := sset (store st) x (v + 1)%Z; lock := lock st;
                  threads := set_nth (threads st) tid {| code := rest; reg := None |} |}
        | None => None
        end
      | IAcquire =>
        match lock st with
        | None => Some {| store := store st; lock := Some tid;
                          threads := set_nth (threads st) tid {| code := rest; reg := reg th |} |}
        | Some _ => None
        end
      | IRelease =>
        Some {| store := store st; lock := None;
                threads := set_nth (threads st) tid {| code := rest; reg := reg th |} |}
      end
    end
  end.

(* every list of thread ids is a schedule: picks of finished/blocked threads are skipped *)
Fixpoint run (sched : list nat) (st : mstate) : mstate :=
  match sched with
  | [] => st
  | t :: r => match step st t with Some st' => run r st' | None => run r st end
  end.

Definition init_state (progs : list (list instr)) : mstate :=
  {| store := []; lock := None; threads := map (fun p => {| code := p; reg := None |}) progs |}.

Definition all_done (st : mstate) : Prop := Forall (fun th => code th = []) (threads st).
Definition all_done_b (st : mstate) : bool := forallb (fun th => match code th with [] => true | _ => false end) (threads st).

(* ---------- the two shapes of update(parse) ---------- *)

(* cells touched by one update: nparses (0) then one counter entry per utterance *)
Definition incr_pairs (cells : list cell) : list instr := flat_map (fun c => [IRead c; IWrite c]) cells.

Definition update_locked (cells : list cell) : list instr :=
  [ILocal; IAcquire] ++ incr_pairs (0 :: cells) ++ [IRelease].

Definition update_unlocked (cells : list cell) : list instr :=
  [ILocal] ++ incr_pairs (0 :: cells).

(* a run thread performs its updates one after the other *)
Definition thread_prog (upd : list cell -> list instr) (parses : list (list cell)) : list instr :=
  concat (map upd parses).

Fixpoint count_cell (x : cell) (l : list cell) : Z :=
  match l with
  | [] => 0%Z
  | y :: r => ((if Nat.eqb x y then 1 else 0) + count_cell x r)%Z
  end.

(* what "every parse counted exactly once" means: each cell holds the number of
   updates that touch it, over all threads *)
Definition expected (tps : list (list (list cell))) (x : cell) : Z :=
  count_cell x (concat (map (fun p => 0 :: p) (concat tps))).
