(* Proofs about the model of the Python wrapper around ag (AG/Model.v). *)
From WS Require Import Base.Py Base.Str Base.Counter Base.CounterProofs AG.Model.
From Coq Require Import Arith Lia Permutation.

(* ====================================================================== *)
(* c. most_common1: a most frequent entry, ties to the smallest string,
      independent of insertion order                                       *)
(* ====================================================================== *)

Lemma str_ltb_irrefl : forall a : str, str_ltb a a = false.
Proof.
  induction a as [|x a IH]; [reflexivity|]. cbn [str_ltb].
  rewrite N.ltb_irrefl. exact IH.
Qed.

Lemma str_ltb_trans : forall a b c : str,
  str_ltb a b = true -> str_ltb b c = true -> str_ltb a c = true.
Proof.
  induction a as [|x a IH]; intros [|y b] [|z c] Hab Hbc; cbn [str_ltb] in *;
    try discriminate; try reflexivity.
  destruct (N.ltb_spec x y) as [Hxy|Hxy].
  - destruct (N.ltb_spec y z) as [Hyz|Hyz].
    + destruct (N.ltb_spec x z); [reflexivity|lia].
    + destruct (N.ltb_spec z y); [discriminate|].
      destruct (N.ltb_spec x z); [reflexivity|lia].
  - destruct (N.ltb_spec y x); [discriminate|].
    destruct (N.ltb_spec y z) as [Hyz|Hyz].
    + destruct (N.ltb_spec x z); [reflexivity|lia].
    + destruct (N.ltb_spec z y); [discriminate|].
      destruct (N.ltb_spec x z); [lia|].
      destruct (N.ltb_spec z x); [lia|].
      eapply IH; eauto.
Qed.

Lemma str_ltb_total : forall a b : str,
  str_ltb a b = true \/ a = b \/ str_ltb b a = true.
Proof.
  induction a as [|x a IH]; intros [|y b]; cbn [str_ltb]; auto.
  destruct (N.ltb_spec x y) as [Hxy|Hxy]; [auto|].
  destruct (N.ltb_spec y x) as [Hyx|Hyx]; [auto|].
  assert (x = y) by lia; subst y.
  destruct (IH b) as [H|[H|H]]; auto. subst; auto.
Qed.

Lemma str_ltb_asym : forall a b : str, str_ltb a b = true -> str_ltb b a = false.
Proof.
  intros a b H. destruct (str_ltb b a) eqn:E; [|reflexivity].
  pose proof (str_ltb_trans _ _ _ H E) as H1. rewrite str_ltb_irrefl in H1. discriminate.
Qed.

(* [better] is a strict total order on entries *)
Lemma better_iff : forall a b : str * Z,
  better a b = true <->
  (snd b < snd a)%Z \/ (snd a = snd b /\ str_ltb (fst a) (fst b) = true).
Proof.
  intros a b. unfold better. rewrite orb_true_iff, andb_true_iff, Z.ltb_lt, Z.eqb_eq. tauto.
Qed.

Lemma better_irrefl : forall a : str * Z, better a a = false.
Proof.
  intros a. destruct (better a a) eqn:E; [|reflexivity].
  apply better_iff in E. destruct E as [E|[_ E]]; [lia|].
  rewrite str_ltb_irrefl in E. discriminate.
Qed.

Lemma better_trans : forall a b c : str * Z,
  better a b = true -> better b c = true -> better a c = true.
Proof.
  intros a b c Hab Hbc. apply better_iff in Hab, Hbc. apply better_iff.
  destruct Hab as [Hab|[Hab1 Hab2]], Hbc as [Hbc|[Hbc1 Hbc2]]; try (left; lia).
  right. split; [lia|]. eapply str_ltb_trans; eauto.
Qed.

Lemma better_total : forall a b : str * Z,
  a <> b -> better a b = true \/ better b a = true.
Proof.
  intros [ka va] [kb vb] Hne. rewrite !better_iff. cbn [fst snd].
  destruct (Z.lt_trichotomy va vb) as [H|[H|H]]; [right; left; lia| |left; left; lia].
  subst vb. destruct (str_ltb_total ka kb) as [H|[H|H]]; [left; right; auto| |right; right; auto].
  subst; congruence.
Qed.

Lemma better_asym : forall a b : str * Z, better a b = true -> better b a = false.
Proof.
  intros a b H. destruct (better b a) eqn:E; [|reflexivity].
  pose proof (better_trans _ _ _ H E) as H1. rewrite better_irrefl in H1. discriminate.
Qed.

Lemma entry_eq_dec : forall a b : str * Z, {a = b} + {a <> b}.
Proof.
  intros [ka va] [kb vb]. destruct (str_eqb_spec ka kb) as [->|Hk].
  - destruct (Z.eq_dec va vb) as [->|Hv]; [left; reflexivity|right; congruence].
  - right; congruence.
Qed.

(* r is the minimum of l for [better] *)
Definition is_best (r : str * Z) (l : list (str * Z)) : Prop :=
  In r l /\ forall e : str * Z, In e l -> e = r \/ better r e = true.

Lemma is_best_unique : forall (r1 r2 : str * Z) (l1 l2 : list (str * Z)),
  (forall e : str * Z, In e l1 <-> In e l2) ->
  is_best r1 l1 -> is_best r2 l2 -> r1 = r2.
Proof.
  intros r1 r2 l1 l2 Heq [Hin1 Hmin1] [Hin2 Hmin2].
  destruct (Hmin1 r2 (proj2 (Heq r2) Hin2)) as [H|H]; [auto|].
  destruct (Hmin2 r1 (proj1 (Heq r1) Hin1)) as [H'|H']; [auto|].
  rewrite (better_asym _ _ H) in H'. discriminate.
Qed.

Lemma best_of_spec : forall (c : counter str) (best : str * Z),
  is_best (best_of c best) (best :: c).
Proof.
  induction c as [|kv r IH]; intros best; cbn [best_of].
  - split; [left; reflexivity|]. intros e [<-|[]]. left; reflexivity.
  - destruct (IH (if better kv best then kv else best)) as [Hin Hmin].
    set (res := best_of r (if better kv best then kv else best)) in *.
    destruct (better kv best) eqn:Hb.
    + split.
      * destruct Hin as [<-|Hin]; [right; left; reflexivity|right; right; exact Hin].
      * intros e [<-|[<-|He]].
        -- destruct (Hmin kv (or_introl eq_refl)) as [<-|H]; [right; exact Hb|].
           right. eapply better_trans; eauto.
        -- apply Hmin. left; reflexivity.
        -- apply Hmin. right; exact He.
    + split.
      * destruct Hin as [<-|Hin]; [left; reflexivity|right; right; exact Hin].
      * intros e [<-|[<-|He]].
        -- apply Hmin. left; reflexivity.
        -- destruct (entry_eq_dec kv best) as [->|Hne]; [apply Hmin; left; reflexivity|].
           destruct (better_total kv best Hne) as [H|H]; [congruence|].
           destruct (Hmin best (or_introl eq_refl)) as [Hr|Hr].
           ++ right. rewrite <- Hr. exact H.
           ++ right. eapply better_trans; eauto.
        -- apply Hmin. right; exact He.
Qed.

(* the chosen entry, as an entry *)
Lemma most_common1_entry : forall (c : counter str) (k : str),
  most_common1 c = Ok k ->
  exists v : Z, is_best (k, v) c.
Proof.
  intros [|kv r] k H; cbn [most_common1] in H; [discriminate|].
  injection H as <-. pose proof (best_of_spec r kv) as Hb.
  destruct (best_of r kv) as [k v]. exists v. exact Hb.
Qed.

Lemma cget_in_nodup : forall (c : counter str) (k : str) (v : Z),
  NoDup (map fst c) -> In (k, v) c -> cget str_eqb c k = v.
Proof.
  induction c as [|[k0 v0] r IH]; intros k v Hnd Hin; [destruct Hin|].
  cbn [map fst] in Hnd. inversion Hnd as [|? ? Hnotin Hnd']; subst.
  cbn [cget]. destruct Hin as [Heq|Hin].
  - injection Heq as -> ->. now rewrite str_eqb_refl.
  - destruct (str_eqb_spec k k0) as [->|Hne].
    + exfalso. apply Hnotin. apply (in_map fst) in Hin. exact Hin.
    + eapply IH; eauto.
Qed.

Lemma most_common1_empty : most_common1 [] = Raise ValueError.
Proof. reflexivity. Qed.

Lemma most_common1_nonempty : forall c : counter str,
  c <> [] -> exists k : str, most_common1 c = Ok k.
Proof. intros [|kv r] H; [congruence|]. eexists; reflexivity. Qed.

(* the chosen key is present, and no entry has a larger count *)
Theorem most_common1_max : forall (c : counter str) (k : str),
  NoDup (map fst c) ->
  most_common1 c = Ok k ->
  In k (map fst c) /\
  forall (k' : str) (v' : Z), In (k', v') c -> (v' <= cget str_eqb c k)%Z.
Proof.
  intros c k Hnd H. destruct (most_common1_entry c k H) as (v & Hin & Hmin).
  split; [apply (in_map fst) in Hin; exact Hin|].
  intros k' v' Hin'. rewrite (cget_in_nodup c k v Hnd Hin).
  destruct (Hmin (k', v') Hin') as [Heq|Hb].
  - injection Heq as _ ->. lia.
  - apply better_iff in Hb. cbn [fst snd] in Hb. lia.
Qed.

(* ties go to the smallest string *)
Theorem most_common1_tie : forall (c : counter str) (k : str),
  NoDup (map fst c) ->
  most_common1 c = Ok k ->
  forall k' : str, In (k', cget str_eqb c k) c -> k' = k \/ str_ltb k k' = true.
Proof.
  intros c k Hnd H k' Hin'. destruct (most_common1_entry c k H) as (v & Hin & Hmin).
  rewrite (cget_in_nodup c k v Hnd Hin) in Hin'.
  destruct (Hmin (k', v) Hin') as [Heq|Hb].
  - injection Heq as ->. left; reflexivity.
  - apply better_iff in Hb. cbn [fst snd] in Hb. destruct Hb as [Hb|[_ Hb]]; [lia|right; exact Hb].
Qed.

(* insertion order does not matter (no hypothesis on the keys is needed) *)
Theorem most_common1_perm_strong : forall c1 c2 : counter str,
  Permutation c1 c2 -> most_common1 c1 = most_common1 c2.
Proof.
  intros c1 c2 Hp.
  destruct c1 as [|kv1 r1].
  - apply Permutation_nil in Hp. subst. reflexivity.
  - destruct c2 as [|kv2 r2].
    + apply Permutation_sym, Permutation_nil in Hp. discriminate.
    + cbn [most_common1]. f_equal. f_equal.
      eapply is_best_unique; [|apply best_of_spec|apply best_of_spec].
      intros e. split; intros He.
      * eapply Permutation_in; eauto.
      * eapply Permutation_in; [apply Permutation_sym|]; eauto.
Qed.

Theorem most_common1_perm : forall c1 c2 : counter str,
  NoDup (map fst c1) -> Permutation c1 c2 -> most_common1 c1 = most_common1 c2.
Proof. intros c1 c2 _ Hp. apply most_common1_perm_strong. exact Hp. Qed.

(* ====================================================================== *)
(* d. the wrapper's parse count equals the program's                       *)
(* ====================================================================== *)

Definition hits (n x : nat) : nat :=
  length (filter (fun it : nat => Nat.eqb (it mod x) 0) (seq 0 n)).

Lemma hits_S : forall n x : nat,
  hits (S n) x = hits n x + (if Nat.eqb (n mod x) 0 then 1 else 0).
Proof.
  intros n x. unfold hits. rewrite seq_S, filter_app, app_length. cbn [plus filter].
  destruct (Nat.eqb (n mod x) 0); reflexivity.
Qed.

Lemma ceil_S : forall n x : nat, 0 < x ->
  (S n + x - 1) / x = (n + x - 1) / x + (if Nat.eqb (n mod x) 0 then 1 else 0).
Proof.
  intros n x Hx.
  pose proof (Nat.div_mod n x ltac:(lia)) as Hdm.
  pose proof (Nat.mod_upper_bound n x ltac:(lia)) as Hlt.
  set (q := n / x) in *. set (r := n mod x) in *.
  destruct (Nat.eqb_spec r 0) as [Hr|Hr].
  - rewrite <- (Nat.div_unique (S n + x - 1) x (q + 1) 0); [|lia|nia].
    rewrite <- (Nat.div_unique (n + x - 1) x q (x - 1)); [lia|lia|nia].
  - rewrite <- (Nat.div_unique (S n + x - 1) x (q + 1) r); [|lia|nia].
    rewrite <- (Nat.div_unique (n + x - 1) x (q + 1) (r - 1)); [lia|lia|nia].
Qed.

Lemma hits_formula : forall n x : nat, 0 < x -> hits n x = (n + x - 1) / x.
Proof.
  intros n x Hx. induction n as [|n IH].
  - cbn [hits seq filter length plus]. unfold hits. cbn [seq filter length].
    symmetry. apply Nat.div_small. lia.
  - rewrite hits_S, ceil_S, IH by exact Hx. reflexivity.
Qed.

Theorem emitted_formula : forall n x : nat, 0 < x -> emitted n x = (n + x - 1) / x + 1.
Proof. intros n x Hx. unfold emitted. fold (hits n x). now rewrite hits_formula. Qed.

Lemma emitted_Z : forall n x : nat, 0 < x ->
  Z.of_nat (emitted n x) = ((Z.of_nat n + Z.of_nat x - 1) / Z.of_nat x + 1)%Z.
Proof.
  intros n x Hx. rewrite emitted_formula by exact Hx.
  rewrite Nat2Z.inj_add, Nat2Z.inj_div, Nat2Z.inj_sub, Nat2Z.inj_add by lia. reflexivity.
Qed.

(* the general form: whatever the way n and x were obtained (option or default) *)
Lemma wrapper_nparses_emitted : forall (toks : list str) (on ox : option Z) (n x : nat),
  int_option ch_n toks = Ok on -> int_option ch_x toks = Ok ox ->
  match on with Some z => z | None => 2000%Z end = Z.of_nat n ->
  match ox with Some z => z | None => 1%Z end = Z.of_nat x ->
  0 < x ->
  wrapper_nparses toks = Ok (Z.of_nat (emitted n x)).
Proof.
  intros toks on ox n x Hn Hxv En Ex Hx. unfold wrapper_nparses. rewrite Hn, Hxv. cbn [bind].
  rewrite En, Ex.
  destruct (Z.eqb_spec (Z.of_nat x) 0) as [H0|_]; [lia|].
  now rewrite emitted_Z.
Qed.

Theorem nparses_eq_emitted : forall (toks : list str) (n x : nat),
  int_option ch_n toks = Ok (Some (Z.of_nat n)) -> int_option ch_x toks = Ok (Some (Z.of_nat x)) -> 0 < x ->
  wrapper_nparses toks = Ok (Z.of_nat (emitted n x)).
Proof.
  intros toks n x Hn Hxv Hx.
  now apply (wrapper_nparses_emitted toks (Some (Z.of_nat n)) (Some (Z.of_nat x))).
Qed.

Theorem nparses_eq_emitted_default_n : forall (toks : list str) (x : nat),
  int_option ch_n toks = Ok None -> int_option ch_x toks = Ok (Some (Z.of_nat x)) -> 0 < x ->
  wrapper_nparses toks = Ok (Z.of_nat (emitted 2000 x)).
Proof.
  intros toks x Hn Hxv Hx.
  now apply (wrapper_nparses_emitted toks None (Some (Z.of_nat x))).
Qed.

Theorem nparses_eq_emitted_default_x : forall (toks : list str) (n : nat),
  int_option ch_n toks = Ok (Some (Z.of_nat n)) -> int_option ch_x toks = Ok None ->
  wrapper_nparses toks = Ok (Z.of_nat (emitted n 1)).
Proof.
  intros toks n Hn Hxv.
  apply (wrapper_nparses_emitted toks (Some (Z.of_nat n)) None); try assumption; try reflexivity. lia.
Qed.

Theorem nparses_eq_emitted_default_nx : forall toks : list str,
  int_option ch_n toks = Ok None -> int_option ch_x toks = Ok None ->
  wrapper_nparses toks = Ok (Z.of_nat (emitted 2000 1)).
Proof.
  intros toks Hn Hxv.
  apply (wrapper_nparses_emitted toks None None); try assumption; try reflexivity. lia.
Qed.

Lemma emitted_interval_1 : forall n : nat, emitted n 1 = n + 1.
Proof.
  intros n. rewrite emitted_formula by lia.
  replace (n + 1 - 1) with n by lia. now rewrite Nat.div_1_r.
Qed.

(* -x 0: Python's range() raises ValueError *)
Lemma wrapper_nparses_x0 : forall toks : list str,
  int_option ch_x toks = Ok (Some 0%Z) -> (exists on : option Z, int_option ch_n toks = Ok on) ->
  wrapper_nparses toks = Raise ValueError.
Proof.
  intros toks Hx [on Hn]. unfold wrapper_nparses. rewrite Hn, Hx. reflexivity.
Qed.

(* option values are non-negative, hence nparses >= 1 *)
Lemma num_of_nonneg_acc : forall (ds : str) (acc : Z),
  (0 <= acc)%Z -> (0 <= fold_left (fun (a : Z) (c : char) => a * 10 + Z.of_N (c - 48))%Z ds acc)%Z.
Proof.
  induction ds as [|c r IH]; intros acc Hacc; cbn [fold_left]; [exact Hacc|].
  apply IH. lia.
Qed.

Lemma num_of_nonneg : forall ds : str, (0 <= num_of ds)%Z.
Proof. intros ds. unfold num_of. apply num_of_nonneg_acc. lia. Qed.

Lemma int_option_nonneg : forall (flag : char) (toks : list str) (z : Z),
  int_option flag toks = Ok (Some z) -> (0 <= z)%Z.
Proof.
  intros flag toks z H. unfold int_option in H.
  destruct (opt_value flag toks None) as [v|]; [|discriminate].
  destruct (all_digits v); [|discriminate]. injection H as <-. apply num_of_nonneg.
Qed.

Theorem int_option_raise : forall (flag : char) (toks : list str) (e : exn),
  int_option flag toks = Raise e -> e = ValueError.
Proof.
  intros flag toks e H. unfold int_option in H.
  destruct (opt_value flag toks None) as [v|]; [|discriminate].
  destruct (all_digits v); [discriminate|]. now injection H as <-.
Qed.

Lemma wrapper_nparses_pos : forall (toks : list str) (np : Z),
  wrapper_nparses toks = Ok np -> (1 <= np)%Z.
Proof.
  intros toks np H. unfold wrapper_nparses in H.
  destruct (int_option ch_n toks) as [on|] eqn:Hn; [|discriminate].
  destruct (int_option ch_x toks) as [ox|] eqn:Hx; [|discriminate].
  cbn [bind] in H.
  set (n := match on with Some n => n | None => 2000%Z end) in *.
  set (x := match ox with Some x => x | None => 1%Z end) in *.
  assert (Hn0 : (0 <= n)%Z).
  { subst n. destruct on as [z|]; [eapply int_option_nonneg; eauto|lia]. }
  assert (Hx0 : (0 <= x)%Z).
  { subst x. destruct ox as [z|]; [eapply int_option_nonneg; eauto|lia]. }
  destruct (Z.eqb_spec x 0) as [|Hne]; [discriminate|]. injection H as <-.
  assert (0 <= (n + x - 1) / x)%Z by (apply Z.div_pos; lia). lia.
Qed.

Theorem effective_ignore_spec : forall (toks : list str) (np ignore : Z),
  wrapper_nparses toks = Ok np ->
  ((0 <= ignore)%Z ->
   effective_ignore toks ignore = if (np <=? ignore)%Z then Raise RuntimeError else Ok ignore) /\
  ((ignore < 0)%Z -> effective_ignore toks ignore = Ok (Z.max 0 (np + ignore))).
Proof.
  intros toks np ignore H. pose proof (wrapper_nparses_pos toks np H) as Hpos.
  unfold effective_ignore. rewrite H. cbn [bind]. split; intros Hi.
  - destruct (Z.ltb_spec ignore 0); [lia|reflexivity].
  - destruct (Z.ltb_spec ignore 0); [|lia].
    destruct (Z.leb_spec np (Z.max 0 (np + ignore))); [lia|reflexivity].
Qed.

(* asking for the last k parses (ignore = -k, k > 0) keeps min k np of them *)
Corollary effective_ignore_last : forall (toks : list str) (np k : Z),
  wrapper_nparses toks = Ok np -> (0 < k)%Z ->
  exists ig : Z, effective_ignore toks (- k) = Ok ig /\ (np - ig = Z.min k np)%Z.
Proof.
  intros toks np k H Hk. destruct (effective_ignore_spec toks np (- k) H) as [_ Hneg].
  exists (Z.max 0 (np + - k)). split; [apply Hneg; lia|lia].
Qed.

Lemma effective_ignore_error : forall (toks : list str) (ignore : Z) (e : exn),
  wrapper_nparses toks = Raise e -> effective_ignore toks ignore = Raise e.
Proof. intros toks ignore e H. unfold effective_ignore. now rewrite H. Qed.

(* --- the token loop of _get_int_option --- *)

Lemma is_flag_iff : forall (flag : char) (t : str), is_flag flag t = true <-> t = [45%N; flag].
Proof. intros flag t. unfold is_flag. apply str_eqb_eq. Qed.

Lemma is_flag_self : forall flag : char, is_flag flag [45%N; flag] = true.
Proof. intros flag. apply is_flag_iff. reflexivity. Qed.

(* the repaired defect: an argument that is neither the option nor its attached form, and
   does not follow the option, plays no part *)
Theorem opt_value_skip : forall (flag : char) (a : list str) (t : str) (b : list str) (acc : option str),
  is_flag flag t = false -> attached flag t = None -> is_flag flag (last a []) = false ->
  opt_value flag (a ++ t :: b) acc = opt_value flag (a ++ b) acc.
Proof.
  intros flag a t b acc Hf Ha. revert acc.
  induction a as [|x a IH]; intros acc Hl.
  - cbn [app opt_value]. now rewrite Hf, Ha.
  - assert (Hl' : a <> [] -> is_flag flag (last a []) = false).
    { intros Hne. destruct a as [|y a']; [congruence|exact Hl]. }
    cbn [app opt_value]. destruct (is_flag flag x) eqn:Hx.
    + destruct a as [|y a'].
      * cbn [last] in Hl. congruence.
      * cbn [app]. apply IH. apply Hl'. discriminate.
    + destruct a as [|y a'].
      * cbn [app opt_value]. rewrite Hf, Ha. destruct (attached flag x); reflexivity.
      * destruct (attached flag x); apply IH; apply Hl'; discriminate.
Qed.

Corollary int_option_skip : forall (flag : char) (a : list str) (t : str) (b : list str),
  is_flag flag t = false -> attached flag t = None -> is_flag flag (last a []) = false ->
  int_option flag (a ++ t :: b) = int_option flag (a ++ b).
Proof.
  intros flag a t b Hf Ha Hl. unfold int_option. now rewrite opt_value_skip.
Qed.

Lemma opt_value_flag_last : forall (flag : char) (a : list str) (acc : option str),
  opt_value flag (a ++ [[45%N; flag]]) acc = Some [].
Proof.
  intros flag a. induction a as [|x a IH]; intros acc.
  - cbn [app opt_value]. now rewrite is_flag_self.
  - cbn [app opt_value]. destruct (is_flag flag x); [apply IH|].
    destruct (attached flag x); apply IH.
Qed.

(* the option as last argument has no value: ValueError (so the "-r is last" branch of
   reseed is never reached) *)
Theorem int_option_flag_last : forall (flag : char) (a : list str),
  int_option flag (a ++ [[45%N; flag]]) = Raise ValueError.
Proof. intros flag a. unfold int_option. now rewrite opt_value_flag_last. Qed.

(* ====================================================================== *)
(* a. yield_parses drops exactly the first [ignore] trees                  *)
(* ====================================================================== *)

(* the trees of an output: maximal blocks of non-blank lines (stripped),
   including an unterminated last block; [tree] is the current block, reversed *)
Fixpoint trees_of (lines : list str) (tree : list str) : list (list str) :=
  match lines with
  | [] => match tree with [] => [] | _ => [rev tree] end
  | l :: r =>
    match strip l with
    | [] => match tree with [] => trees_of r [] | _ => rev tree :: trees_of r [] end
    | s => trees_of r (s :: tree)
    end
  end.

(* every tree is closed by a blank line *)
Definition well_terminated (lines : list str) : Prop := strip (last lines []) = [].

Lemma yield_go_skipn : forall (lines tree : list str) (nt k : Z),
  yield_go lines tree nt k = skipn (Z.to_nat (k - nt)) (trees_of lines tree).
Proof.
  induction lines as [|l r IH]; intros tree nt k; cbn [yield_go trees_of].
  - destruct tree as [|t tree]; [now rewrite skipn_nil|].
    destruct (Z.leb_spec k nt) as [H|H].
    + replace (Z.to_nat (k - nt)) with 0 by lia. reflexivity.
    + replace (Z.to_nat (k - nt)) with (S (Z.to_nat (k - nt - 1))) by lia.
      cbn [skipn]. now rewrite skipn_nil.
  - destruct (strip l) as [|c s].
    + destruct tree as [|t tree]; [apply IH|].
      destruct (Z.ltb_spec k (nt + 1)) as [H|H].
      * rewrite IH. replace (Z.to_nat (k - (nt + 1))) with 0 by lia.
        replace (Z.to_nat (k - nt)) with 0 by lia. reflexivity.
      * rewrite IH. replace (Z.to_nat (k - nt)) with (S (Z.to_nat (k - (nt + 1)))) by lia.
        reflexivity.
    + apply IH.
Qed.

(* no hypothesis is needed: an unterminated last tree counts as a tree *)
Theorem yield_parses_skipn_gen : forall (lines : list str) (k : Z),
  yield_parses lines k = skipn (Z.to_nat k) (trees_of lines []).
Proof.
  intros lines k. unfold yield_parses. rewrite yield_go_skipn. now rewrite Z.sub_0_r.
Qed.

Theorem yield_parses_skipn : forall (lines : list str) (k : Z),
  (0 <= k)%Z -> well_terminated lines ->
  yield_parses lines k = skipn (Z.to_nat k) (trees_of lines []).
Proof. intros lines k _ _. apply yield_parses_skipn_gen. Qed.

Theorem yield_parses_zero : forall lines : list str, yield_parses lines 0 = trees_of lines [].
Proof. intros lines. now rewrite yield_parses_skipn_gen. Qed.

Theorem yield_parses_neg : forall (lines : list str) (k : Z),
  (k <= 0)%Z -> yield_parses lines k = yield_parses lines 0.
Proof.
  intros lines k Hk. rewrite !yield_parses_skipn_gen.
  replace (Z.to_nat k) with 0 by lia. reflexivity.
Qed.

Corollary yield_parses_length : forall (lines : list str) (k : Z),
  length (yield_parses lines k) = length (trees_of lines []) - Z.to_nat k.
Proof. intros lines k. rewrite yield_parses_skipn_gen. apply skipn_length. Qed.

(* with effective_ignore: the wrapper keeps exactly np - ig of the first np trees,
   and for "the last k" (ignore = -k) that is min k np, when the output really
   has np trees *)
Corollary yield_parses_last_k : forall (toks : list str) (lines : list str) (np k : Z),
  wrapper_nparses toks = Ok np -> (0 < k)%Z ->
  Z.of_nat (length (trees_of lines [])) = np ->
  exists ig : Z, effective_ignore toks (- k) = Ok ig /\
                 Z.of_nat (length (yield_parses lines ig)) = Z.min k np.
Proof.
  intros toks lines np k H Hk Hlen.
  destruct (effective_ignore_last toks np k H Hk) as (ig & Hig & Hmin).
  exists ig. split; [exact Hig|]. rewrite yield_parses_length.
  pose proof (wrapper_nparses_pos toks np H).
  destruct (effective_ignore_spec toks np (- k) H) as [_ Hneg].
  rewrite Hneg in Hig by lia. injection Hig as <-. lia.
Qed.

(* --- the unterminated last tree --- *)

Lemma trees_of_app_terminated : forall (pre post tree : list str),
  pre <> [] -> well_terminated pre ->
  trees_of (pre ++ post) tree = trees_of pre tree ++ trees_of post [].
Proof.
  unfold well_terminated.
  induction pre as [|l r IH]; intros post tree Hne Hwt; [congruence|].
  destruct r as [|l' r'].
  - cbn [last] in Hwt. cbn [app trees_of]. rewrite Hwt.
    destruct tree; reflexivity.
  - assert (Hwt' : strip (last (l' :: r') []) = []) by exact Hwt.
    assert (Hne' : l' :: r' <> []) by discriminate.
    change ((l :: l' :: r') ++ post) with (l :: ((l' :: r') ++ post)).
    cbn [trees_of]. destruct (strip l) as [|c s].
    + destruct tree as [|t tree].
      * apply IH; assumption.
      * rewrite (IH post [] Hne' Hwt'). reflexivity.
    + apply IH; assumption.
Qed.

Lemma trees_of_block : forall (blk tree : list str),
  Forall (fun l : str => strip l <> []) blk ->
  blk ++ tree <> [] ->
  trees_of blk tree = [rev tree ++ map strip blk].
Proof.
  induction blk as [|l r IH]; intros tree Hall Hne.
  - cbn [trees_of map]. rewrite app_nil_r. destruct tree; [exfalso; apply Hne; reflexivity|reflexivity].
  - inversion Hall as [|? ? Hl Hr]; subst. cbn [trees_of map].
    destruct (strip l) as [|c s] eqn:Hs; [congruence|].
    rewrite IH; [|exact Hr|destruct r; discriminate].
    cbn [rev]. rewrite <- app_assoc. reflexivity.
Qed.

(* lines = closed trees followed by a non-empty block without a closing blank line *)
Theorem trees_of_unterminated : forall (pre blk : list str),
  well_terminated pre -> blk <> [] ->
  Forall (fun l : str => strip l <> []) blk ->
  trees_of (pre ++ blk) [] = trees_of pre [] ++ [map strip blk].
Proof.
  intros pre blk Hwt Hne Hall.
  assert (Hb : trees_of blk [] = [map strip blk]).
  { rewrite trees_of_block; [reflexivity|exact Hall|]. rewrite app_nil_r. exact Hne. }
  destruct pre as [|l r].
  - cbn [app trees_of]. exact Hb.
  - rewrite trees_of_app_terminated; [|discriminate|exact Hwt]. now rewrite Hb.
Qed.

(* the unterminated last tree is yielded iff the number of closed trees is >= k *)
Theorem yield_parses_unterminated : forall (pre blk : list str) (k : Z),
  well_terminated pre -> blk <> [] ->
  Forall (fun l : str => strip l <> []) blk ->
  yield_parses (pre ++ blk) k =
  yield_parses pre k ++
  (if (k <=? Z.of_nat (length (trees_of pre [])))%Z then [map strip blk] else []).
Proof.
  intros pre blk k Hwt Hne Hall.
  rewrite !yield_parses_skipn_gen, trees_of_unterminated by assumption.
  rewrite skipn_app.
  destruct (Z.leb_spec k (Z.of_nat (length (trees_of pre [])))) as [H|H].
  - replace (Z.to_nat k - length (trees_of pre [])) with 0 by lia. reflexivity.
  - replace (Z.to_nat k - length (trees_of pre [])) with
      (S (Z.to_nat k - length (trees_of pre []) - 1)) by lia.
    cbn [skipn]. now rewrite skipn_nil.
Qed.

(* ====================================================================== *)
(* b. counting is order-independent                                        *)
(* ====================================================================== *)

Fixpoint pc_update_all (pc : pcounter) (parses : list (list str)) : result pcounter :=
  match parses with
  | [] => Ok pc
  | p :: r => do pc' <- pc_update pc p; pc_update_all pc' r
  end.

(* what can be observed of a ParseCounter: the count of word string w for utterance i *)
Definition view (pc : pcounter) (i : nat) (w : str) : Z :=
  cget str_eqb (nth i (pc_counters pc) []) w.

Definition pc_wf (pc : pcounter) : Prop := length (pc_counters pc) = pc_nutts pc.

Lemma occ_perm : forall (w : str) (l1 l2 : list str),
  Permutation l1 l2 -> occ str_eqb w l1 = occ str_eqb w l2.
Proof.
  intros w l1 l2 H. induction H; cbn [occ]; lia.
Qed.

Lemma bump_all_length : forall (cs : list (counter str)) (parse : list str),
  length (bump_all cs parse) = length cs.
Proof.
  induction cs as [|c cr IH]; intros [|u pr]; cbn [bump_all length]; try reflexivity.
  now rewrite IH.
Qed.

Lemma bump_all_view : forall (cs : list (counter str)) (parse : list str) (i : nat) (w : str),
  length cs = length parse -> i < length cs ->
  cget str_eqb (nth i (bump_all cs parse) []) w =
  (cget str_eqb (nth i cs []) w + (if str_eqb w (nth i parse []) then 1 else 0))%Z.
Proof.
  induction cs as [|c cr IH]; intros [|u pr] i w Hlen Hi; cbn [length] in *; try lia.
  cbn [bump_all]. destruct i as [|i]; cbn [nth].
  - apply (cget_cadd str_eqb str_eqb_spec).
  - apply IH; lia.
Qed.

Lemma bump_all_view_out : forall (cs : list (counter str)) (parse : list str) (i : nat),
  length cs <= i -> nth i (bump_all cs parse) [] = [].
Proof.
  intros cs parse i H. apply nth_overflow. now rewrite bump_all_length.
Qed.

Lemma pc_update_wrong_length : forall (pc : pcounter) (parse : list str),
  length parse <> pc_nutts pc -> pc_update pc parse = Raise RuntimeError.
Proof.
  intros pc parse H. unfold pc_update.
  destruct (Nat.eqb_spec (length parse) (pc_nutts pc)); [contradiction|reflexivity].
Qed.

Lemma pc_update_ok : forall (pc : pcounter) (parse : list str),
  pc_wf pc -> length parse = pc_nutts pc ->
  exists pc' : pcounter,
    pc_update pc parse = Ok pc' /\ pc_wf pc' /\ pc_nutts pc' = pc_nutts pc /\
    pc_nparses pc' = (pc_nparses pc + 1)%Z /\
    forall (i : nat) (w : str),
      view pc' i w = (view pc i w + occ str_eqb w (if (i <? pc_nutts pc)%nat then [nth i parse []] else []))%Z.
Proof.
  intros pc parse Hwf Hlen. unfold pc_update. rewrite Hlen, Nat.eqb_refl. cbn [negb].
  eexists. split; [reflexivity|]. unfold pc_wf, view in *. cbn [pc_counters pc_nutts pc_nparses].
  split; [|split; [|split]]; try reflexivity.
  - now rewrite bump_all_length.
  - intros i w. destruct (Nat.ltb_spec i (pc_nutts pc)) as [Hi|Hi].
    + rewrite bump_all_view by lia. cbn [occ]. lia.
    + rewrite bump_all_view_out by lia. rewrite nth_overflow by lia. cbn [occ cget]. lia.
Qed.

Theorem pc_update_all_counts : forall (parses : list (list str)) (pc : pcounter),
  pc_wf pc ->
  Forall (fun p : list str => length p = pc_nutts pc) parses ->
  exists pc' : pcounter,
    pc_update_all pc parses = Ok pc' /\ pc_wf pc' /\ pc_nutts pc' = pc_nutts pc /\
    pc_nparses pc' = (pc_nparses pc + Z.of_nat (length parses))%Z /\
    forall (i : nat) (w : str),
      view pc' i w =
      (view pc i w +
       if (i <? pc_nutts pc)%nat then occ str_eqb w (map (fun p : list str => nth i p []) parses) else 0)%Z.
Proof.
  induction parses as [|p r IH]; intros pc Hwf Hall.
  - exists pc. cbn [pc_update_all length map occ].
    split; [reflexivity|]. split; [exact Hwf|]. split; [reflexivity|]. split; [lia|].
    intros i w. destruct (i <? pc_nutts pc); lia.
  - inversion Hall as [|? ? Hp Hr]; subst.
    destruct (pc_update_ok pc p Hwf Hp) as (pc1 & H1 & Hwf1 & Hn1 & Hnp1 & Hv1).
    rewrite <- Hn1 in Hr.
    destruct (IH pc1 Hwf1 Hr) as (pc2 & H2 & Hwf2 & Hn2 & Hnp2 & Hv2).
    exists pc2. cbn [pc_update_all]. rewrite H1. cbn [bind].
    split; [|split; [|split; [|split]]].
    + exact H2.
    + exact Hwf2.
    + congruence.
    + rewrite Hnp2, Hnp1. cbn [length]. lia.
    + intros i w. rewrite Hv2, Hv1, Hn1. cbn [map occ].
      destruct (i <? pc_nutts pc); cbn [occ]; lia.
Qed.

Lemma pc_init_wf : forall nutts : nat, pc_wf (pc_init nutts).
Proof. intros n. unfold pc_wf, pc_init. cbn [pc_counters pc_nutts]. apply repeat_length. Qed.

Lemma pc_init_view : forall (nutts i : nat) (w : str), view (pc_init nutts) i w = 0%Z.
Proof.
  intros n i w. unfold view, pc_init. cbn [pc_counters].
  assert (H : nth i (repeat (@nil (str * Z)) n) [] = []).
  { revert i. induction n as [|n IH]; intros [|i]; cbn [repeat nth]; auto. }
  unfold counter. rewrite H. reflexivity.
Qed.

(* after processing a list of parses, each counter holds the number of
   occurrences, and nparses the number of parses *)
Theorem pc_counts : forall (nutts : nat) (parses : list (list str)),
  Forall (fun p : list str => length p = nutts) parses ->
  exists pc : pcounter,
    pc_update_all (pc_init nutts) parses = Ok pc /\
    pc_nparses pc = Z.of_nat (length parses) /\
    forall (i : nat) (w : str), i < nutts ->
      view pc i w = occ str_eqb w (map (fun p : list str => nth i p []) parses).
Proof.
  intros n parses Hall.
  destruct (pc_update_all_counts parses (pc_init n) (pc_init_wf n) Hall)
    as (pc & H & _ & _ & Hnp & Hv).
  exists pc. split; [exact H|]. split; [exact Hnp|].
  intros i w Hi. rewrite Hv, pc_init_view. cbn [pc_init pc_nutts].
  destruct (Nat.ltb_spec i n); [reflexivity|lia].
Qed.

Theorem count_perm_invariant : forall (nutts : nat) (ps1 ps2 : list (list str)) (pc1 pc2 : pcounter),
  Permutation ps1 ps2 ->
  Forall (fun p : list str => length p = nutts) ps1 ->
  pc_update_all (pc_init nutts) ps1 = Ok pc1 ->
  pc_update_all (pc_init nutts) ps2 = Ok pc2 ->
  pc_nparses pc1 = pc_nparses pc2 /\
  forall (i : nat) (w : str), view pc1 i w = view pc2 i w.
Proof.
  intros n ps1 ps2 pc1 pc2 Hp Hall1 H1 H2.
  assert (Hall2 : Forall (fun p : list str => length p = n) ps2)
    by (eapply Permutation_Forall; eauto).
  destruct (pc_update_all_counts ps1 (pc_init n) (pc_init_wf n) Hall1)
    as (pc1' & H1' & _ & _ & Hnp1 & Hv1).
  destruct (pc_update_all_counts ps2 (pc_init n) (pc_init_wf n) Hall2)
    as (pc2' & H2' & _ & _ & Hnp2 & Hv2).
  rewrite H1 in H1'. injection H1' as <-. rewrite H2 in H2'. injection H2' as <-.
  split.
  - rewrite Hnp1, Hnp2. now rewrite (Permutation_length Hp).
  - intros i w. rewrite Hv1, Hv2. destruct (i <? pc_nutts (pc_init n)); [|reflexivity].
    f_equal. apply occ_perm. apply Permutation_map. exact Hp.
Qed.

(* a parse of the wrong length makes update raise, whatever came before *)
Lemma pc_update_all_nutts : forall (parses : list (list str)) (pc pc' : pcounter),
  pc_update_all pc parses = Ok pc' -> pc_nutts pc' = pc_nutts pc.
Proof.
  induction parses as [|p r IH]; intros pc pc' H; cbn [pc_update_all] in H.
  - injection H as <-. reflexivity.
  - destruct (pc_update pc p) as [pc1|] eqn:H1; [|discriminate]. cbn [bind] in H.
    rewrite (IH pc1 pc' H). unfold pc_update in H1.
    destruct (negb (length p =? pc_nutts pc)); [discriminate|]. injection H1 as <-. reflexivity.
Qed.

(* postprocess = update with the complete parses only *)
Theorem postprocess_update_all : forall (pc : pcounter) (lines : list str) (ig : Z),
  pc_update_all pc (filter (fun p : list str => Nat.eqb (length p) (pc_nutts pc)) (yield_parses lines ig))
  = Ok (postprocess pc lines ig).
Proof.
  intros pc lines ig. unfold postprocess. generalize (yield_parses lines ig) as ps.
  intros ps. revert pc. induction ps as [|p r IH]; intros pc; [reflexivity|].
  cbn [filter fold_left]. destruct (Nat.eqb_spec (length p) (pc_nutts pc)) as [Hl|Hl].
  - assert (H1 : exists pc1 : pcounter, pc_update pc p = Ok pc1 /\ pc_nutts pc1 = pc_nutts pc).
    { unfold pc_update. rewrite Hl, Nat.eqb_refl. eexists; split; reflexivity. }
    destruct H1 as (pc1 & H1 & Hn1). cbn [pc_update_all]. rewrite H1. cbn [bind].
    rewrite <- Hn1. apply IH.
  - apply IH.
Qed.

(* ====================================================================== *)
(* e. seeds                                                                *)
(* ====================================================================== *)

(* --- decimal rendering --- *)

Lemma num_of_snoc : forall (ds : str) (c : char),
  num_of (ds ++ [c]) = (num_of ds * 10 + Z.of_N (c - 48))%Z.
Proof. intros ds c. unfold num_of. now rewrite fold_left_app. Qed.

Lemma digit_char : forall z : Z,
  let c := (48 + Z.to_N (z mod 10))%N in
  is_digit c = true /\ Z.of_N (c - 48) = (z mod 10)%Z.
Proof.
  intros z c. pose proof (Z.mod_pos_bound z 10 ltac:(lia)) as Hb.
  subst c. set (m := (z mod 10)%Z) in *. split.
  - unfold is_digit. apply andb_true_iff. split; apply N.leb_le; lia.
  - rewrite N.add_comm, N.add_sub. apply Z2N.id. lia.
Qed.

Lemma digits_fuel_spec : forall (f : nat) (z : Z) (acc : str),
  (0 <= z < 2 ^ Z.of_nat f)%Z -> f <> 0 ->
  exists ds : str,
    digits_fuel f z acc = ds ++ acc /\ ds <> [] /\ forallb is_digit ds = true /\ num_of ds = z.
Proof.
  induction f as [|f IH]; intros z acc Hz Hf; [congruence|].
  cbn [digits_fuel]. destruct (digit_char z) as [Hd Hv].
  set (c := (48 + Z.to_N (z mod 10))%N) in *.
  destruct (Z.eqb_spec (z / 10) 0) as [H0|H0].
  - exists [c]. split; [reflexivity|]. split; [discriminate|]. split.
    + cbn [forallb]. now rewrite Hd.
    + unfold num_of. cbn [fold_left]. rewrite Hv.
      pose proof (Z.div_mod z 10 ltac:(lia)). lia.
  - rewrite Nat2Z.inj_succ, Z.pow_succ_r in Hz by lia.
    assert (Hq : (0 <= z / 10 < 2 ^ Z.of_nat f)%Z).
    { split; [apply Z.div_pos; lia|]. apply Z.div_lt_upper_bound; lia. }
    assert (Hf' : f <> 0).
    { intros ->. cbn in Hq. lia. }
    destruct (IH (z / 10)%Z (c :: acc) Hq Hf') as (ds & Hds & Hne & Hall & Hnum).
    exists (ds ++ [c]). rewrite <- app_assoc. split; [exact Hds|]. split.
    + destruct ds; discriminate.
    + split.
      * rewrite forallb_app, Hall. cbn [forallb]. now rewrite Hd.
      * rewrite num_of_snoc, Hnum, Hv. pose proof (Z.div_mod z 10 ltac:(lia)). lia.
Qed.

Theorem str_of_Z_spec : forall z : Z, (0 <= z)%Z ->
  str_of_Z z <> [] /\ forallb is_digit (str_of_Z z) = true /\ num_of (str_of_Z z) = z.
Proof.
  intros z Hz. unfold str_of_Z.
  pose proof (Z.log2_nonneg (Z.max 1 z)) as Hl.
  pose proof (Z.log2_spec (Z.max 1 z) ltac:(lia)) as Hs.
  destruct (digits_fuel_spec (S (Z.to_nat (Z.log2 (Z.max 1 z)))) z []) as (ds & Hds & Hne & Hall & Hnum).
  - rewrite Nat2Z.inj_succ, Z2Nat.id by lia. lia.
  - discriminate.
  - rewrite app_nil_r in Hds. rewrite Hds. auto.
Qed.

Lemma digit_not_sp : forall c : char, is_digit c = true -> c <> sp.
Proof.
  intros c H ->. discriminate.
Qed.

Lemma digit_not_dash : forall c : char, is_digit c = true -> c <> 45%N.
Proof.
  intros c H ->. discriminate.
Qed.

Lemma all_digits_iff : forall s : str, all_digits s = true <-> s <> [] /\ forallb is_digit s = true.
Proof.
  intros [|c s]; cbn [all_digits].
  - split; [discriminate|]. intros [H _]. congruence.
  - split; [intros H; split; [discriminate|exact H]|intros [_ H]; exact H].
Qed.

Lemma str_of_Z_all_digits : forall z : Z, (0 <= z)%Z -> all_digits (str_of_Z z) = true.
Proof.
  intros z Hz. destruct (str_of_Z_spec z Hz) as (Hne & Hall & _).
  apply all_digits_iff. now split.
Qed.

(* a string of digits is neither the option nor its attached form *)
Lemma all_digits_not_flag : forall (flag : char) (s : str), all_digits s = true -> is_flag flag s = false.
Proof.
  intros flag s H. destruct (is_flag flag s) eqn:E; [|reflexivity].
  apply is_flag_iff in E. subst s. discriminate.
Qed.

Lemma all_digits_not_attached : forall (flag : char) (s : str), all_digits s = true -> attached flag s = None.
Proof.
  intros flag [|c s] H; [reflexivity|]. cbn [all_digits forallb] in H.
  apply andb_true_iff in H. destruct H as [Hc _]. apply digit_not_dash in Hc.
  unfold attached. destruct c as [|p]; [reflexivity|].
  do 6 (try (destruct p as [p|p|]; try reflexivity)). congruence.
Qed.

(* --- reading the options of a token list --- *)

Lemma opt_value_some : forall (flag : char) (toks : list str) (v : str),
  opt_value flag toks (Some v) <> None.
Proof.
  intros flag toks. induction toks as [|t r IH]; intros v; cbn [opt_value]; [discriminate|].
  destruct (is_flag flag t); [apply IH|]. destruct (attached flag t); apply IH.
Qed.

(* no option at all: every token is kept by [unseeded], and the tokens in front do not matter *)
Lemma opt_value_none_inv : forall (flag : char) (t : str) (r : list str),
  opt_value flag (t :: r) None = None ->
  is_flag flag t = false /\ attached flag t = None /\ opt_value flag r None = None.
Proof.
  intros flag t r H. cbn [opt_value] in H.
  destruct (is_flag flag t); [exfalso; exact (opt_value_some _ _ _ H)|].
  destruct (attached flag t); [exfalso; exact (opt_value_some _ _ _ H)|]. auto.
Qed.

Lemma opt_value_none_app : forall (flag : char) (a b : list str) (acc : option str),
  opt_value flag a None = None -> opt_value flag (a ++ b) acc = opt_value flag b acc.
Proof.
  intros flag a b acc. induction a as [|t r IH]; intros H; [reflexivity|].
  destruct (opt_value_none_inv flag t r H) as (Hf & Ha & Hr).
  cbn [app opt_value]. rewrite Hf, Ha. apply IH. exact Hr.
Qed.

Lemma unseeded_none_app : forall a b : list str,
  opt_value ch_r a None = None -> unseeded (a ++ b) = a ++ unseeded b.
Proof.
  intros a b. induction a as [|t r IH]; intros H; [reflexivity|].
  destruct (opt_value_none_inv ch_r t r H) as (Hf & Ha & Hr).
  cbn [app unseeded]. rewrite Hf, Ha. f_equal. apply IH. exact Hr.
Qed.

Lemma int_option_none_inv : forall (flag : char) (toks : list str),
  int_option flag toks = Ok None -> opt_value flag toks None = None.
Proof.
  intros flag toks H. unfold int_option in H.
  destruct (opt_value flag toks None) as [v|]; [|reflexivity].
  destruct (all_digits v); discriminate.
Qed.

Lemma int_option_some_inv : forall (flag : char) (toks : list str) (z : Z),
  int_option flag toks = Ok (Some z) -> opt_value flag toks None <> None.
Proof.
  intros flag toks z H E. unfold int_option in H. rewrite E in H. discriminate.
Qed.

(* --- the substitution --- *)

Lemma reseed_unseeded_len : forall (n : nat) (toks : list str) (new : str),
  length toks <= n -> unseeded (reseed toks new) = unseeded toks.
Proof.
  induction n as [|n IH]; intros toks new Hlen.
  - destruct toks; [reflexivity|cbn [length] in Hlen; lia].
  - destruct toks as [|t r]; [reflexivity|]. cbn [length] in Hlen.
    cbn [reseed unseeded]. destruct (is_flag ch_r t) eqn:Hf.
    + cbn [unseeded]. rewrite is_flag_self.
      destruct r as [|v r']; [reflexivity|]. apply IH. cbn [length] in Hlen. lia.
    + destruct (attached ch_r t) eqn:Ha.
      * cbn [unseeded]. rewrite is_flag_self. apply IH. lia.
      * cbn [unseeded]. rewrite Hf, Ha. f_equal. apply IH. lia.
Qed.

Theorem reseed_unseeded : forall (toks : list str) (new : str), unseeded (reseed toks new) = unseeded toks.
Proof. intros toks new. apply (reseed_unseeded_len (length toks)). lia. Qed.

Lemma reseed_value_kept_len : forall (n : nat) (toks : list str) (new : str),
  all_digits new = true -> length toks <= n ->
  opt_value ch_r (reseed toks new) (Some new) = Some new.
Proof.
  intros n toks new Hnew. pose proof (all_digits_not_flag ch_r new Hnew) as Hnf.
  pose proof (all_digits_not_attached ch_r new Hnew) as Hna.
  revert toks. induction n as [|n IH]; intros toks Hlen.
  - destruct toks; [reflexivity|cbn [length] in Hlen; lia].
  - destruct toks as [|t r]; [reflexivity|]. cbn [length] in Hlen.
    cbn [reseed]. destruct (is_flag ch_r t) eqn:Hf.
    + cbn [opt_value]. rewrite is_flag_self, Hnf, Hna.
      destruct r as [|v r']; [reflexivity|]. apply IH. cbn [length] in Hlen. lia.
    + destruct (attached ch_r t) eqn:Ha.
      * cbn [opt_value]. rewrite is_flag_self, Hnf, Hna. apply IH. lia.
      * cbn [opt_value]. rewrite Hf, Ha. apply IH. lia.
Qed.

Lemma reseed_value : forall (toks : list str) (new : str),
  all_digits new = true -> opt_value ch_r toks None <> None ->
  opt_value ch_r (reseed toks new) None = Some new.
Proof.
  intros toks new Hnew. pose proof (all_digits_not_flag ch_r new Hnew) as Hnf.
  pose proof (all_digits_not_attached ch_r new Hnew) as Hna.
  induction toks as [|t r IH]; intros H; [cbn [opt_value] in H; congruence|].
  cbn [opt_value] in H. cbn [reseed]. destruct (is_flag ch_r t) eqn:Hf.
  - cbn [opt_value]. rewrite is_flag_self, Hnf, Hna.
    destruct r as [|v r']; [reflexivity|].
    apply (reseed_value_kept_len (length r')); [exact Hnew|lia].
  - destruct (attached ch_r t) eqn:Ha.
    + cbn [opt_value]. rewrite is_flag_self, Hnf, Hna.
      apply (reseed_value_kept_len (length r)); [exact Hnew|lia].
    + cbn [opt_value]. rewrite Hf, Ha. apply IH. exact H.
Qed.

Theorem reseed_reads_back : forall (toks : list str) (new : str),
  all_digits new = true -> opt_value ch_r toks None <> None ->
  int_option ch_r (reseed toks new) = Ok (Some (num_of new)).
Proof.
  intros toks new Hnew H. unfold int_option. rewrite reseed_value by assumption. now rewrite Hnew.
Qed.

(* --- _setup_seed --- *)

Theorem setup_seed_given_spec : forall (toks : list str) (nruns : nat) (rnd : list Z) (seed : Z),
  int_option ch_r toks = Ok (Some seed) ->
  setup_seed toks nruns rnd = Ok (map (fun i : nat => reseed toks (str_of_Z (seed + Z.of_nat i))) (seq 0 nruns)).
Proof. intros toks nruns rnd seed H. unfold setup_seed. rewrite H. reflexivity. Qed.

(* run i is started with seed s + i, nothing else changes, and the argument lists are pairwise distinct *)
Theorem setup_seed_given_seeds : forall (toks : list str) (nruns : nat) (rnd : list Z) (seed : Z) (l : list (list str)),
  int_option ch_r toks = Ok (Some seed) -> setup_seed toks nruns rnd = Ok l ->
  length l = nruns /\
  (forall i : nat, i < nruns ->
     int_option ch_r (nth i l []) = Ok (Some (seed + Z.of_nat i)%Z) /\ unseeded (nth i l []) = unseeded toks) /\
  NoDup l.
Proof.
  intros toks nruns rnd seed l Hs H.
  rewrite (setup_seed_given_spec toks nruns rnd seed Hs) in H. injection H as <-.
  pose proof (int_option_nonneg _ _ _ Hs) as Hpos.
  pose proof (int_option_some_inv _ _ _ Hs) as Hsome.
  set (g := fun i : nat => reseed toks (str_of_Z (seed + Z.of_nat i))).
  assert (Hg : forall i : nat, int_option ch_r (g i) = Ok (Some (seed + Z.of_nat i)%Z)).
  { intros i. unfold g. rewrite reseed_reads_back; [|apply str_of_Z_all_digits; lia|exact Hsome].
    destruct (str_of_Z_spec (seed + Z.of_nat i) ltac:(lia)) as (_ & _ & ->). reflexivity. }
  split; [now rewrite map_length, seq_length|]. split.
  - intros i Hi.
    rewrite (nth_indep _ [] (g 0)) by (rewrite map_length, seq_length; exact Hi).
    rewrite (map_nth g), seq_nth by exact Hi. cbn [plus]. split; [apply Hg|].
    unfold g. apply reseed_unseeded.
  - apply FinFun.Injective_map_NoDup; [|apply seq_NoDup].
    intros i j Hij. change (g i = g j) in Hij.
    pose proof (Hg i) as Hi. rewrite Hij, Hg in Hi. injection Hi. lia.
Qed.

Lemma nth_firstn_lt : forall (A : Type) (d : A) (l : list A) (n i : nat),
  i < n -> nth i (firstn n l) d = nth i l d.
Proof.
  intros A d l. induction l as [|x l IH]; intros n i Hi.
  - now rewrite firstn_nil.
  - destruct n as [|n]; [lia|]. cbn [firstn]. destruct i as [|i]; [reflexivity|].
    cbn [nth]. apply IH. lia.
Qed.

(* no -r given: one drawn seed per run, appended; it is read back *)
Theorem setup_seed_absent : forall (toks : list str) (nruns : nat) (rnd : list Z),
  int_option ch_r toks = Ok None -> Forall (fun z : Z => (0 <= z)%Z) rnd ->
  exists l : list (list str), setup_seed toks nruns rnd = Ok l /\ length l = Nat.min nruns (length rnd) /\
    forall i : nat, i < length l ->
      nth i l [] = toks ++ [[45%N; ch_r]; str_of_Z (nth i rnd 0%Z)] /\
      int_option ch_r (nth i l []) = Ok (Some (nth i rnd 0%Z)) /\ unseeded (nth i l []) = toks.
Proof.
  intros toks nruns rnd Hs Hrnd.
  pose proof (int_option_none_inv _ _ Hs) as Hnone.
  set (g := fun z : Z => toks ++ [[45%N; ch_r]; str_of_Z z]).
  exists (map g (firstn nruns rnd)). split; [unfold setup_seed; rewrite Hs; reflexivity|].
  split; [now rewrite map_length, firstn_length|].
  intros i Hi. rewrite map_length, firstn_length in Hi.
  assert (Hnth : nth i (map g (firstn nruns rnd)) [] = g (nth i rnd 0%Z)).
  { rewrite (nth_indep _ [] (g 0%Z)) by (rewrite map_length, firstn_length; exact Hi).
    rewrite (map_nth g). f_equal. apply nth_firstn_lt. lia. }
  rewrite Hnth.
  assert (Hz : (0 <= nth i rnd 0)%Z).
  { rewrite Forall_forall in Hrnd. apply Hrnd. apply nth_In. lia. }
  set (z := nth i rnd 0%Z) in *.
  pose proof (str_of_Z_all_digits z Hz) as Hd.
  destruct (str_of_Z_spec z Hz) as (_ & _ & Hnum).
  split; [reflexivity|]. split.
  - unfold g, int_option. rewrite opt_value_none_app by exact Hnone.
    cbn [opt_value]. rewrite is_flag_self.
    rewrite (all_digits_not_flag ch_r _ Hd), (all_digits_not_attached ch_r _ Hd).
    now rewrite Hd, Hnum.
  - unfold g. rewrite unseeded_none_app by exact Hnone.
    cbn [unseeded]. rewrite is_flag_self. apply app_nil_r.
Qed.

Theorem setup_seed_errors : forall (toks : list str) (nruns : nat) (rnd : list Z) (e : exn),
  setup_seed toks nruns rnd = Raise e -> e = ValueError /\ int_option ch_r toks = Raise ValueError.
Proof.
  intros toks nruns rnd e H. unfold setup_seed in H.
  destruct (int_option ch_r toks) as [[s|]|e'] eqn:E; cbn [bind] in H; try discriminate.
  injection H as <-. pose proof (int_option_raise _ _ _ E) as ->. auto.
Qed.

(* --- non-vacuity / the formerly failing inputs --- *)

(* -d 100 -G /tmp/c17-r1m5/g.out : "-r1" inside a file name *)
Example path_with_r_is_not_the_option :
  int_option ch_r [[45;100]; [49;48;48]; [45;71]; [47;116;109;112;47;99;49;55;45;114;49;109;53;47;103;46;111;117;116]]%N = Ok None.
Proof. vm_compute. reflexivity. Qed.

(* the same path after a genuine "-r 7": the seed is 7, not 1 *)
Example path_with_r_after_seed :
  int_option ch_r [[45;114]; [55]; [45;71]; [47;116;109;112;47;99;49;55;45;114;49;109;53;47;103;46;111;117;116]]%N = Ok (Some 7%Z).
Proof. vm_compute. reflexivity. Qed.

(* -n 10 -r 5 -x 2, three runs: seeds 5, 6, 7 *)
Example seeds_example :
  setup_seed [[45;110]; [49;48]; [45;114]; [53]; [45;120]; [50]]%N 3 [] =
  Ok [ [[45;110]; [49;48]; [45;114]; [53]; [45;120]; [50]];
       [[45;110]; [49;48]; [45;114]; [54]; [45;120]; [50]];
       [[45;110]; [49;48]; [45;114]; [55]; [45;120]; [50]] ]%N.
Proof. vm_compute. reflexivity. Qed.

(* the attached form -r9 is normalised to "-r" "9", "-r" "10" *)
Example seeds_example_attached :
  setup_seed [[45;114;57]; [45;120]; [50]]%N 2 [] =
  Ok [ [[45;114]; [57]; [45;120]; [50]];
       [[45;114]; [49;48]; [45;120]; [50]] ]%N.
Proof. vm_compute. reflexivity. Qed.

(* no -r: the drawn seeds are appended *)
Example seeds_example_absent :
  setup_seed [[45;110]; [49;48]]%N 2 [42; 7]%Z =
  Ok [ [[45;110]; [49;48]; [45;114]; [52;50]];
       [[45;110]; [49;48]; [45;114]; [55]] ]%N.
Proof. vm_compute. reflexivity. Qed.

(* "-r" as last argument, "-r" followed by a non-number *)
Example seed_flag_last : setup_seed [[45;110]; [49;48]; [45;114]]%N 2 [1; 2]%Z = Raise ValueError.
Proof. vm_compute. reflexivity. Qed.
Example seed_not_a_number : setup_seed [[45;114]; [97]]%N 2 [1; 2]%Z = Raise ValueError.
Proof. vm_compute. reflexivity. Qed.

(* ====================================================================== *)
(* f. the segmentation does not depend on the order in which the runs are
      postprocessed (they share one ParseCounter)                          *)
(* ====================================================================== *)

(* counters built by update: distinct keys, positive counts *)
Definition counter_good (c : counter str) : Prop :=
  NoDup (map fst c) /\ Forall (fun kv : str * Z => (0 < snd kv)%Z) c.

Lemma cadd_keys : forall (c : counter str) (k k' : str) (d : Z),
  In k' (map fst (cadd str_eqb c k d)) -> In k' (map fst c) \/ k' = k.
Proof.
  induction c as [|[k0 v] r IH]; intros k k' d H; cbn [cadd map fst] in *.
  - destruct H as [<-|[]]. right; reflexivity.
  - destruct (str_eqb k k0); cbn [map fst In] in *.
    + left. exact H.
    + destruct H as [H|H]; [left; left; exact H|].
      destruct (IH k k' d H) as [H'|H']; [left; right; exact H'|right; exact H'].
Qed.

Lemma cadd_good : forall (c : counter str) (k : str),
  counter_good c -> counter_good (cadd str_eqb c k 1).
Proof.
  unfold counter_good. induction c as [|[k0 v] r IH]; intros k [Hnd Hpos]; cbn [cadd].
  - split; [cbn; constructor; [intros []|constructor]|]. constructor; [cbn; lia|constructor].
  - cbn [map fst] in Hnd. inversion Hnd as [|? ? Hnotin Hnd']; subst.
    inversion Hpos as [|? ? Hv Hpos']; subst. cbn [snd] in Hv.
    destruct (str_eqb_spec k k0) as [->|Hne].
    + split; [cbn [map fst]; constructor; assumption|]. constructor; [cbn [snd]; lia|exact Hpos'].
    + destruct (IH k (conj Hnd' Hpos')) as [Hnd2 Hpos2]. split.
      * cbn [map fst]. constructor; [|exact Hnd2]. intros Hin.
        destruct (cadd_keys r k k0 1 Hin) as [H|H]; [contradiction|congruence].
      * constructor; [exact Hv|exact Hpos2].
Qed.

Lemma bump_all_good : forall (cs : list (counter str)) (parse : list str),
  Forall counter_good cs -> Forall counter_good (bump_all cs parse).
Proof.
  induction cs as [|c cr IH]; intros [|u pr] H; cbn [bump_all]; try exact H.
  inversion H; subst. constructor; [apply cadd_good; assumption|apply IH; assumption].
Qed.

Lemma pc_update_all_good : forall (parses : list (list str)) (pc pc' : pcounter),
  pc_update_all pc parses = Ok pc' ->
  Forall counter_good (pc_counters pc) -> Forall counter_good (pc_counters pc').
Proof.
  induction parses as [|p r IH]; intros pc pc' H Hg; cbn [pc_update_all] in H.
  - injection H as <-. exact Hg.
  - destruct (pc_update pc p) as [pc1|] eqn:H1; [|discriminate]. cbn [bind] in H.
    apply (IH pc1 pc' H). unfold pc_update in H1.
    destruct (negb (length p =? pc_nutts pc)); [discriminate|]. injection H1 as <-.
    cbn [pc_counters]. apply bump_all_good. exact Hg.
Qed.

Lemma pc_init_good : forall nutts : nat, Forall counter_good (pc_counters (pc_init nutts)).
Proof.
  intros n. cbn [pc_init pc_counters]. apply Forall_forall. intros c Hc.
  apply repeat_spec in Hc. subst c. split; constructor.
Qed.

Lemma cget_nonzero_in : forall (c : counter str) (k : str),
  cget str_eqb c k <> 0%Z -> In (k, cget str_eqb c k) c.
Proof.
  induction c as [|[k0 v] r IH]; intros k H; cbn [cget] in *; [congruence|].
  destruct (str_eqb_spec k k0) as [Heq|Hne]; [left; congruence|right; apply IH; exact H].
Qed.

(* for such counters, the choice only depends on the counts *)
Lemma most_common1_view : forall c1 c2 : counter str,
  counter_good c1 -> counter_good c2 ->
  (forall k : str, cget str_eqb c1 k = cget str_eqb c2 k) ->
  most_common1 c1 = most_common1 c2.
Proof.
  assert (Hsub : forall c1 c2 : counter str,
             counter_good c1 ->
             (forall k : str, cget str_eqb c1 k = cget str_eqb c2 k) ->
             forall e : str * Z, In e c1 -> In e c2).
  { intros c1 c2 [Hnd Hpos] Hv [k v] Hin.
    pose proof (cget_in_nodup c1 k v Hnd Hin) as Hc.
    rewrite Forall_forall in Hpos. pose proof (Hpos _ Hin) as Hp. cbn [snd] in Hp.
    rewrite <- Hc, Hv. apply cget_nonzero_in. rewrite <- Hv, Hc. lia. }
  intros c1 c2 Hg1 Hg2 Hv.
  assert (Heq : forall e : str * Z, In e c1 <-> In e c2).
  { intros e. split; [apply Hsub; assumption|apply Hsub; [assumption|intros k; symmetry; apply Hv]]. }
  destruct c1 as [|kv1 r1], c2 as [|kv2 r2].
  - reflexivity.
  - exfalso. apply (proj2 (Heq kv2)). left; reflexivity.
  - exfalso. apply (proj1 (Heq kv1)). left; reflexivity.
  - cbn [most_common1]. f_equal. f_equal.
    eapply is_best_unique; [exact Heq|apply best_of_spec|apply best_of_spec].
Qed.

Lemma pc_update_all_app : forall (a b : list (list str)) (pc : pcounter),
  pc_update_all pc (a ++ b) = (do pc' <- pc_update_all pc a; pc_update_all pc' b).
Proof.
  induction a as [|p r IH]; intros b pc; [reflexivity|].
  cbn [app pc_update_all]. destruct (pc_update pc p) as [pc1|]; [|reflexivity].
  cbn [bind]. apply IH.
Qed.

Definition complete_parses (nutts : nat) (ig : Z) (lines : list str) : list (list str) :=
  filter (fun p : list str => Nat.eqb (length p) nutts) (yield_parses lines ig).

Lemma postprocess_nutts : forall (pc : pcounter) (lines : list str) (ig : Z),
  pc_nutts (postprocess pc lines ig) = pc_nutts pc.
Proof.
  intros pc lines ig. eapply pc_update_all_nutts. apply postprocess_update_all.
Qed.

(* all the runs together: one update per complete parse, in run order *)
Lemma fold_postprocess : forall (runs : list (list str)) (ig : Z) (pc : pcounter),
  pc_update_all pc (flat_map (complete_parses (pc_nutts pc) ig) runs) =
  Ok (fold_left (fun (pc : pcounter) (lines : list str) => postprocess pc lines ig) runs pc).
Proof.
  induction runs as [|lines r IH]; intros ig pc; [reflexivity|].
  cbn [flat_map fold_left]. rewrite pc_update_all_app. unfold complete_parses at 1.
  rewrite postprocess_update_all. cbn [bind].
  rewrite <- (postprocess_nutts pc lines ig). apply IH.
Qed.

Lemma mapM_ext2 : forall cs1 cs2 : list (counter str),
  Forall2 (fun c1 c2 : counter str => most_common1 c1 = most_common1 c2) cs1 cs2 ->
  mapM most_common1 cs1 = mapM most_common1 cs2.
Proof.
  intros cs1 cs2 H. induction H as [|c1 c2 r1 r2 Hc _ IH]; [reflexivity|].
  cbn [mapM]. now rewrite Hc, IH.
Qed.

Lemma Forall2_nth_intro : forall (A : Type) (R : A -> A -> Prop) (d : A) (l1 l2 : list A),
  length l1 = length l2 ->
  (forall i : nat, i < length l1 -> R (nth i l1 d) (nth i l2 d)) ->
  Forall2 R l1 l2.
Proof.
  intros A R d. induction l1 as [|x r IH]; intros [|y s] Hlen H; cbn [length] in *; try discriminate.
  - constructor.
  - constructor.
    + apply (H 0). lia.
    + apply IH; [lia|]. intros i Hi. apply (H (S i)). lia.
Qed.

Theorem segment_run_order_invariant :
  forall (nutts : nat) (toks : list str) (ignore : Z) (runs1 runs2 : list (list str)),
  Permutation runs1 runs2 ->
  segment_from_outputs nutts toks ignore runs1 = segment_from_outputs nutts toks ignore runs2.
Proof.
  intros n toks ignore runs1 runs2 Hp. unfold segment_from_outputs.
  destruct (effective_ignore toks ignore) as [ig|e]; [|reflexivity]. cbn [bind].
  set (pc1 := fold_left (fun (pc : pcounter) (lines : list str) => postprocess pc lines ig) runs1 (pc_init n)).
  set (pc2 := fold_left (fun (pc : pcounter) (lines : list str) => postprocess pc lines ig) runs2 (pc_init n)).
  pose proof (fold_postprocess runs1 ig (pc_init n)) as H1. fold pc1 in H1.
  pose proof (fold_postprocess runs2 ig (pc_init n)) as H2. fold pc2 in H2.
  cbn [pc_init pc_nutts] in H1, H2. fold (pc_init n) in H1, H2.
  set (ps1 := flat_map (complete_parses n ig) runs1) in *.
  set (ps2 := flat_map (complete_parses n ig) runs2) in *.
  assert (Hps : Permutation ps1 ps2) by (apply Permutation_flat_map; exact Hp).
  assert (Hall1 : Forall (fun p : list str => length p = n) ps1).
  { apply Forall_forall. intros p Hin. apply in_flat_map in Hin. destruct Hin as (lines & _ & Hin).
    unfold complete_parses in Hin. apply filter_In in Hin. destruct Hin as [_ Hl].
    now apply Nat.eqb_eq in Hl. }
  destruct (count_perm_invariant n ps1 ps2 pc1 pc2 Hps Hall1 H1 H2) as [Hnp Hview].
  assert (Hall2 : Forall (fun p : list str => length p = n) ps2)
    by (eapply Permutation_Forall; eauto).
  destruct (pc_update_all_counts ps1 (pc_init n) (pc_init_wf n) Hall1) as (q1 & Hq1 & Hwf1 & Hn1 & _).
  destruct (pc_update_all_counts ps2 (pc_init n) (pc_init_wf n) Hall2) as (q2 & Hq2 & Hwf2 & Hn2 & _).
  rewrite H1 in Hq1. injection Hq1 as <-. rewrite H2 in Hq2. injection Hq2 as <-.
  pose proof (pc_update_all_good ps1 _ _ H1 (pc_init_good n)) as Hg1.
  pose proof (pc_update_all_good ps2 _ _ H2 (pc_init_good n)) as Hg2.
  unfold pc_most_common. rewrite Hnp. destruct (pc_nparses pc2 =? 0)%Z; [reflexivity|].
  apply mapM_ext2. unfold pc_wf in Hwf1, Hwf2.
  apply (Forall2_nth_intro (counter str) _ (@nil (str * Z))); [rewrite Hwf1, Hwf2, Hn1, Hn2; reflexivity|].
  intros i Hi. rewrite Forall_forall in Hg1, Hg2. apply most_common1_view.
  - apply Hg1. apply nth_In. exact Hi.
  - apply Hg2. apply nth_In. rewrite Hwf2, Hn2, <- Hn1, <- Hwf1. exact Hi.
  - intros k. apply (Hview i k).
Qed.
