(* Proofs about the shared-memory machine of AG/Conc.v (property C15):
   with the lock, no update is lost or doubled, whatever the schedule;
   without it, a two-thread schedule loses an update. *)
From WS Require Import Base.Py AG.Conc.
From Coq Require Import Arith Lia.

(* ---------- store ---------- *)

Lemma sget_sset_eq : forall (s : list (cell * Z)) (x : cell) (v : Z), sget (sset s x v) x = v.
Proof.
  intros s x v. induction s as [|[y w] r IH]; simpl.
  - now rewrite Nat.eqb_refl.
  - destruct (Nat.eqb_spec x y) as [->|Hne]; simpl.
    + now rewrite Nat.eqb_refl.
    + destruct (Nat.eqb_spec x y); [contradiction|exact IH].
Qed.

Lemma sget_sset_neq : forall (s : list (cell * Z)) (x y : cell) (v : Z),
  x <> y -> sget (sset s x v) y = sget s y.
Proof.
  intros s x y v Hxy. induction s as [|[z w] r IH]; simpl.
  - destruct (Nat.eqb_spec y x); [congruence|reflexivity].
  - destruct (Nat.eqb_spec x z) as [->|Hne]; simpl.
    + destruct (Nat.eqb_spec y z); [congruence|reflexivity].
    + destruct (Nat.eqb_spec y z); [reflexivity|exact IH].
Qed.

(* ---------- set_nth ---------- *)

Lemma nth_error_set_nth_eq : forall (A : Type) (l : list A) (i : nat) (a b : A),
  nth_error l i = Some a -> nth_error (set_nth l i b) i = Some b.
Proof.
  intros A l. induction l as [|x r IH]; intros [|i] a b H; simpl in *; try discriminate.
  - reflexivity.
  - eapply IH; eauto.
Qed.

Lemma nth_error_set_nth_neq : forall (A : Type) (l : list A) (i j : nat) (b : A),
  i <> j -> nth_error (set_nth l i b) j = nth_error l j.
Proof.
  intros A l. induction l as [|x r IH]; intros [|i] [|j] b H; simpl; try reflexivity.
  - congruence.
  - apply IH. congruence.
Qed.

Lemma length_set_nth : forall (A : Type) (l : list A) (i : nat) (b : A),
  length (set_nth l i b) = length l.
Proof.
  intros A l. induction l as [|x r IH]; intros [|i] b; simpl; try reflexivity.
  now rewrite IH.
Qed.

(* ---------- counting ---------- *)

Lemma count_cell_app : forall (x : cell) (l1 l2 : list cell),
  count_cell x (l1 ++ l2) = (count_cell x l1 + count_cell x l2)%Z.
Proof.
  intros x l1 l2. induction l1 as [|y r IH]; simpl; [reflexivity|]. rewrite IH. lia.
Qed.

(* ghost: the cells still to be written by a piece of code *)
Fixpoint writes (l : list instr) : list cell :=
  match l with
  | [] => []
  | IWrite c :: r => c :: writes r
  | _ :: r => writes r
  end.

Lemma writes_app : forall (l1 l2 : list instr), writes (l1 ++ l2) = writes l1 ++ writes l2.
Proof.
  intros l1 l2. induction l1 as [|i r IH]; simpl; [reflexivity|].
  destruct i; simpl; rewrite IH; reflexivity.
Qed.

Lemma incr_pairs_cons : forall (c : cell) (cs : list cell),
  incr_pairs (c :: cs) = IRead c :: IWrite c :: incr_pairs cs.
Proof. reflexivity. Qed.

Lemma writes_incr_pairs : forall (cs : list cell), writes (incr_pairs cs) = cs.
Proof.
  intros cs. induction cs as [|c r IH]; [reflexivity|].
  rewrite incr_pairs_cons. cbn [writes]. now rewrite IH.
Qed.

Lemma incr_pairs_nil : incr_pairs [] = [].
Proof. reflexivity. Qed.

Local Opaque incr_pairs.

(* remaining writes of a thread, and of all threads *)
Definition cw (x : cell) (th : thread) : Z := count_cell x (writes (code th)).

Fixpoint pend (x : cell) (ths : list thread) : Z :=
  match ths with
  | [] => 0%Z
  | th :: r => (cw x th + pend x r)%Z
  end.

Lemma pend_set_nth : forall (x : cell) (ths : list thread) (i : nat) (th th' : thread),
  nth_error ths i = Some th ->
  pend x (set_nth ths i th') = (pend x ths - cw x th + cw x th')%Z.
Proof.
  intros x ths. induction ths as [|t0 r IH]; intros [|i] th th' H; simpl in *; try discriminate.
  - injection H as ->. lia.
  - rewrite (IH i th th' H). lia.
Qed.

Lemma pend_done : forall (x : cell) (ths : list thread),
  Forall (fun th : thread => code th = []) ths -> pend x ths = 0%Z.
Proof.
  intros x ths H. induction H as [|th r Hth _ IH]; simpl; [reflexivity|].
  unfold cw. rewrite Hth, IH. reflexivity.
Qed.

(* ---------- shapes of the remaining code ---------- *)

Definition tail_of (rest : list (list cell)) : list instr := thread_prog update_locked rest.
Local Arguments tail_of : simpl never.

Lemma tail_of_cons : forall (p : list cell) (rest : list (list cell)),
  tail_of (p :: rest) = ILocal :: IAcquire :: incr_pairs (0 :: p) ++ IRelease :: tail_of rest.
Proof.
  intros p rest. unfold tail_of, thread_prog. cbn [map concat]. unfold update_locked.
  rewrite <- !app_assoc. reflexivity.
Qed.

Lemma writes_tail_of : forall (x : cell) (rest : list (list cell)),
  count_cell x (writes (tail_of rest)) = count_cell x (concat (map (fun p : list cell => 0 :: p) rest)).
Proof.
  intros x rest. induction rest as [|p r IH].
  - reflexivity.
  - rewrite tail_of_cons. cbn [writes map concat].
    rewrite writes_app, writes_incr_pairs. cbn [writes].
    rewrite !count_cell_app, IH. reflexivity.
Qed.

(* not holding the lock: at an update boundary, or just before IAcquire *)
Definition idle (th : thread) : Prop :=
  exists rest : list (list cell),
    code th = tail_of rest \/
    exists cs : list cell, code th = IAcquire :: incr_pairs cs ++ IRelease :: tail_of rest.

(* holding the lock: between two pairs, or with one pending write whose
   register holds the current value of the cell *)
Definition crit (s : list (cell * Z)) (th : thread) : Prop :=
  exists (cs : list cell) (rest : list (list cell)),
    code th = incr_pairs cs ++ IRelease :: tail_of rest \/
    exists c : cell, code th = IWrite c :: incr_pairs cs ++ IRelease :: tail_of rest /\
                     reg th = Some (sget s c).

Record inv (E : cell -> Z) (st : mstate) : Prop := {
  inv_sum : forall x : cell, (sget (store st) x + pend x (threads st) = E x)%Z;
  inv_own : forall (t : nat) (th : thread),
      nth_error (threads st) t = Some th -> lock st = Some t -> crit (store st) th;
  inv_idle : forall (t : nat) (th : thread),
      nth_error (threads st) t = Some th -> lock st <> Some t -> idle th
}.

Lemma lock_dec : forall (o : option nat) (t : nat), {o = Some t} + {o <> Some t}.
Proof.
  intros [u|] t.
  - destruct (Nat.eq_dec u t) as [->|Hne]; [left; reflexivity|right; congruence].
  - right; discriminate.
Qed.

Lemma inv_step : forall (E : cell -> Z) (st st' : mstate) (tid : nat),
  inv E st -> step st tid = Some st' -> inv E st'.
Proof.
  intros E st st' tid [Hsum Hown Hidle] Hstep.
  unfold step in Hstep.
  destruct (nth_error (threads st) tid) as [th|] eqn:Hth; [|discriminate].
  destruct (lock_dec (lock st) tid) as [Hl|Hl].
  - (* the owner moves *)
    destruct (Hown tid th Hth Hl) as (cs & rest & [Hc | (c & Hc & Hr)]).
    + destruct cs as [|c cs].
      * (* IRelease *)
        rewrite incr_pairs_nil in Hc. cbn [app] in Hc. rewrite Hc in Hstep.
        injection Hstep as <-. constructor; cbn [store lock threads].
        -- intros x. rewrite (pend_set_nth x _ _ _ _ Hth). unfold cw at 1 2. rewrite Hc.
           cbn [code writes]. specialize (Hsum x). lia.
        -- intros t th0 _ Hcontra. discriminate.
        -- intros t th0 Hn _. destruct (Nat.eq_dec tid t) as [<-|Hne].
           ++ rewrite (nth_error_set_nth_eq _ _ _ _ _ Hth) in Hn. injection Hn as <-.
              exists rest. left. reflexivity.
           ++ rewrite nth_error_set_nth_neq in Hn by exact Hne.
              apply (Hidle t th0 Hn). rewrite Hl. congruence.
      * (* IRead c *)
        rewrite incr_pairs_cons in Hc. cbn [app] in Hc. rewrite Hc in Hstep.
        injection Hstep as <-. constructor; cbn [store lock threads].
        -- intros x. rewrite (pend_set_nth x _ _ _ _ Hth). unfold cw at 1 2. rewrite Hc.
           cbn [code writes]. specialize (Hsum x). lia.
        -- intros t th0 Hn Hlt. rewrite Hl in Hlt. injection Hlt as <-.
           rewrite (nth_error_set_nth_eq _ _ _ _ _ Hth) in Hn. injection Hn as <-.
           exists cs, rest. right. exists c. split; reflexivity.
        -- intros t th0 Hn Hlt. destruct (Nat.eq_dec tid t) as [<-|Hne]; [contradiction|].
           rewrite nth_error_set_nth_neq in Hn by exact Hne.
           apply (Hidle t th0 Hn Hlt).
    + (* IWrite c, register up to date *)
      rewrite Hc, Hr in Hstep. injection Hstep as <-. constructor; cbn [store lock threads].
      * intros x. rewrite (pend_set_nth x _ _ _ _ Hth). unfold cw at 1 2. rewrite Hc.
        cbn [code writes count_cell]. specialize (Hsum x).
        destruct (Nat.eqb_spec x c) as [->|Hne].
        -- rewrite sget_sset_eq. lia.
        -- rewrite sget_sset_neq by congruence. lia.
      * intros t th0 Hn Hlt. rewrite Hl in Hlt. injection Hlt as <-.
        rewrite (nth_error_set_nth_eq _ _ _ _ _ Hth) in Hn. injection Hn as <-.
        exists cs, rest. left. reflexivity.
      * intros t th0 Hn Hlt. destruct (Nat.eq_dec tid t) as [<-|Hne]; [contradiction|].
        rewrite nth_error_set_nth_neq in Hn by exact Hne.
        apply (Hidle t th0 Hn Hlt).
  - (* a thread outside its critical section moves *)
    destruct (Hidle tid th Hth Hl) as (rest & [Hc | (cs & Hc)]).
    + destruct rest as [|p rest].
      * cbn in Hc. rewrite Hc in Hstep. discriminate.
      * (* ILocal *)
        rewrite tail_of_cons in Hc. rewrite Hc in Hstep.
        injection Hstep as <-. constructor; cbn [store lock threads].
        -- intros x. rewrite (pend_set_nth x _ _ _ _ Hth). unfold cw at 1 2. rewrite Hc.
           cbn [code writes]. specialize (Hsum x). lia.
        -- intros t th0 Hn Hlt. destruct (Nat.eq_dec tid t) as [<-|Hne]; [contradiction|].
           rewrite nth_error_set_nth_neq in Hn by exact Hne.
           apply (Hown t th0 Hn Hlt).
        -- intros t th0 Hn Hlt. destruct (Nat.eq_dec tid t) as [<-|Hne].
           ++ rewrite (nth_error_set_nth_eq _ _ _ _ _ Hth) in Hn. injection Hn as <-.
              exists rest. right. exists (0 :: p). reflexivity.
           ++ rewrite nth_error_set_nth_neq in Hn by exact Hne.
              apply (Hidle t th0 Hn Hlt).
    + (* IAcquire *)
      rewrite Hc in Hstep. destruct (lock st) as [u|] eqn:Hlk; [discriminate|].
      injection Hstep as <-. constructor; cbn [store lock threads].
      * intros x. rewrite (pend_set_nth x _ _ _ _ Hth). unfold cw at 1 2. rewrite Hc.
        cbn [code writes]. specialize (Hsum x). lia.
      * intros t th0 Hn Hlt. injection Hlt as <-.
        rewrite (nth_error_set_nth_eq _ _ _ _ _ Hth) in Hn. injection Hn as <-.
        exists cs, rest. left. reflexivity.
      * intros t th0 Hn Hlt. destruct (Nat.eq_dec tid t) as [<-|Hne]; [congruence|].
        rewrite nth_error_set_nth_neq in Hn by exact Hne.
        apply (Hidle t th0 Hn). discriminate.
Qed.

Lemma inv_run : forall (E : cell -> Z) (sched : list nat) (st : mstate),
  inv E st -> inv E (run sched st).
Proof.
  intros E sched. induction sched as [|t r IH]; intros st Hinv; cbn [run]; [exact Hinv|].
  destruct (step st t) as [st'|] eqn:Hs.
  - apply IH. eapply inv_step; eauto.
  - apply IH. exact Hinv.
Qed.

Lemma pend_init : forall (x : cell) (tps : list (list (list cell))),
  pend x (map (fun p : list instr => {| code := p; reg := None |})
              (map (thread_prog update_locked) tps)) = expected tps x.
Proof.
  intros x tps. unfold expected. induction tps as [|ps r IH]; [reflexivity|].
  cbn [map pend concat]. rewrite IH. unfold cw. cbn [code].
  rewrite map_app, concat_app, count_cell_app.
  fold (tail_of ps). rewrite writes_tail_of. reflexivity.
Qed.

Lemma inv_init : forall (tps : list (list (list cell))),
  inv (expected tps) (init_state (map (thread_prog update_locked) tps)).
Proof.
  intros tps. constructor; unfold init_state; cbn [store lock threads].
  - intros x. rewrite pend_init. reflexivity.
  - intros t th _ Hl. discriminate.
  - intros t th Hn _. rewrite map_map in Hn.
    destruct (nth_error tps t) as [ps|] eqn:Hp.
    + rewrite (map_nth_error _ _ _ Hp) in Hn. injection Hn as <-.
      exists ps. left. reflexivity.
    + apply nth_error_None in Hp.
      assert (Hnone : nth_error (map (fun x : list (list cell) =>
                 {| code := thread_prog update_locked x; reg := None |}) tps) t = None).
      { apply nth_error_None. now rewrite map_length. }
      congruence.
Qed.

(* Whatever the interleaving, once every thread has finished, every cell holds
   exactly the number of increments aimed at it. *)
Theorem locked_counts_exact : forall (tps : list (list (list cell))) (sched : list nat),
  let st := run sched (init_state (map (thread_prog update_locked) tps)) in
  all_done st -> forall x : cell, sget (store st) x = expected tps x.
Proof.
  intros tps sched st Hdone x.
  pose proof (inv_run (expected tps) sched _ (inv_init tps)) as Hinv.
  fold st in Hinv. pose proof (inv_sum _ _ Hinv x) as Hs.
  rewrite (pend_done x _ Hdone) in Hs. lia.
Qed.

(* ---------- non-vacuity: finished runs exist ---------- *)

(* the schedule that runs thread 0 to completion, then thread 1, ... *)
Fixpoint seq_sched (t : nat) (progs : list (list instr)) : list nat :=
  match progs with
  | [] => []
  | p :: r => repeat t (length p) ++ seq_sched (S t) r
  end.

Example locked_run_example :
  let tps := [[[1; 2]; [2]]; [[2; 3]; [1]]] in
  let progs := map (thread_prog update_locked) tps in
  let st1 := run (seq_sched 0 progs) (init_state progs) in
  let st2 := run (concat (repeat [0; 1; 1; 0; 1; 1; 1; 0] 12)) (init_state progs) in
  all_done_b st1 = true /\ all_done_b st2 = true /\
  map (sget (store st1)) [0; 1; 2; 3; 4] = map (expected tps) [0; 1; 2; 3; 4] /\
  map (sget (store st2)) [0; 1; 2; 3; 4] = map (expected tps) [0; 1; 2; 3; 4] /\
  map (expected tps) [0; 1; 2; 3; 4] = [4; 2; 3; 1; 0]%Z.
Proof. vm_compute. repeat split. Qed.

(* ---------- without the lock an update is lost ---------- *)

(* two threads, one update each touching cell 1: nparses (cell 0) should be 2;
   both threads read it before either writes *)
Example unlocked_loses_update :
  exists sched : list nat,
    let st := run sched (init_state [thread_prog update_unlocked [[1]];
                                     thread_prog update_unlocked [[1]]]) in
    all_done_b st = true /\ sget (store st) 0 = 1%Z.
Proof. exists [0; 0; 1; 1; 0; 1; 0; 0; 1; 1]. vm_compute. split; reflexivity. Qed.

Example unlocked_expected_two : expected [[[1]]; [[1]]] 0 = 2%Z.
Proof. reflexivity. Qed.

(* ---------- no deadlock: every reachable state can be run to completion ---------- *)

Lemma run_app : forall (s1 s2 : list nat) (st : mstate), run (s1 ++ s2) st = run s2 (run s1 st).
Proof.
  induction s1 as [|t r IH]; intros s2 st; [reflexivity|].
  cbn [app run]. destruct (step st t); apply IH.
Qed.

Fixpoint total_len (ths : list thread) : nat :=
  match ths with
  | [] => 0
  | th :: r => length (code th) + total_len r
  end.

Lemma total_len_set_nth : forall (ths : list thread) (i : nat) (th th' : thread),
  nth_error ths i = Some th ->
  total_len (set_nth ths i th') + length (code th) = total_len ths + length (code th').
Proof.
  induction ths as [|t0 r IH]; intros [|i] th th' H; cbn [nth_error] in H; try discriminate.
  - injection H as ->. cbn [set_nth total_len]. lia.
  - cbn [set_nth total_len]. pose proof (IH i th th' H). lia.
Qed.

Lemma step_shape : forall (st st' : mstate) (tid : nat),
  step st tid = Some st' ->
  exists (th : thread) (i : instr) (rest : list instr) (r' : option Z),
    nth_error (threads st) tid = Some th /\ code th = i :: rest /\
    threads st' = set_nth (threads st) tid {| code := rest; reg := r' |} /\
    (lock st' = lock st \/ lock st' = Some tid \/ lock st' = None).
Proof.
  intros st st' tid H. unfold step in H.
  destruct (nth_error (threads st) tid) as [th|] eqn:Hth; [|discriminate].
  destruct (code th) as [|i rest] eqn:Hc; [discriminate|].
  exists th, i, rest.
  destruct i.
  - injection H as <-. eexists. cbn [threads lock]. split; [reflexivity|split; [exact Hc|split; [reflexivity|auto]]].
  - injection H as <-. eexists. cbn [threads lock]. split; [reflexivity|split; [exact Hc|split; [reflexivity|auto]]].
  - destruct (reg th); [|discriminate]. injection H as <-. eexists. cbn [threads lock]. split; [reflexivity|split; [exact Hc|split; [reflexivity|auto]]].
  - destruct (lock st); [discriminate|]. injection H as <-. eexists. cbn [threads lock]. split; [reflexivity|split; [exact Hc|split; [reflexivity|auto]]].
  - injection H as <-. eexists. cbn [threads lock]. split; [reflexivity|split; [exact Hc|split; [reflexivity|auto]]].
Qed.

Lemma step_total_len : forall (st st' : mstate) (tid : nat),
  step st tid = Some st' -> S (total_len (threads st')) = total_len (threads st).
Proof.
  intros st st' tid H. destruct (step_shape st st' tid H) as (th & i & rest & r' & Hth & Hc & Hths & _).
  rewrite Hths. pose proof (total_len_set_nth _ _ _ {| code := rest; reg := r' |} Hth) as Hl.
  rewrite Hc in Hl. cbn [code length] in Hl. lia.
Qed.

(* the lock owner is a thread *)
Definition owner_valid (st : mstate) : Prop :=
  forall t : nat, lock st = Some t -> t < length (threads st).

Lemma owner_valid_step : forall (st st' : mstate) (tid : nat),
  owner_valid st -> step st tid = Some st' -> owner_valid st'.
Proof.
  intros st st' tid Hov H. destruct (step_shape st st' tid H) as (th & i & rest & r' & Hth & _ & Hths & Hl).
  intros t Ht. rewrite Hths, length_set_nth.
  destruct Hl as [Hl|[Hl|Hl]].
  - apply Hov. congruence.
  - rewrite Hl in Ht. injection Ht as <-. apply nth_error_Some. congruence.
  - congruence.
Qed.

Lemma tail_of_nil : tail_of [] = [].
Proof. reflexivity. Qed.

Lemma done_or_not : forall ths : list thread,
  Forall (fun th : thread => code th = []) ths \/
  exists (t : nat) (th : thread), nth_error ths t = Some th /\ code th <> [].
Proof.
  induction ths as [|th r IH]; [left; constructor|].
  destruct (code th) as [|i c] eqn:Hc.
  - destruct IH as [IH|(t & th' & Hn & Hne)].
    + left. constructor; assumption.
    + right. exists (S t), th'. split; assumption.
  - right. exists 0, th. split; [reflexivity|congruence].
Qed.

(* in a reachable state that is not finished, some thread can move *)
Lemma inv_enabled : forall (E : cell -> Z) (st : mstate),
  inv E st -> owner_valid st -> ~ all_done st ->
  exists (tid : nat) (st' : mstate), step st tid = Some st'.
Proof.
  intros E st [_ Hown Hidle] Hov Hnd.
  destruct (lock st) as [u|] eqn:Hlk.
  - (* the owner can move *)
    pose proof (Hov u Hlk) as Hu. apply nth_error_Some in Hu.
    destruct (nth_error (threads st) u) as [th|] eqn:Hth; [|congruence].
    exists u. unfold step. rewrite Hth.
    destruct (Hown u th Hth eq_refl) as (cs & rest & [Hc | (c & Hc & Hr)]).
    + destruct cs as [|c cs].
      * rewrite incr_pairs_nil in Hc. cbn [app] in Hc. rewrite Hc. eexists; reflexivity.
      * rewrite incr_pairs_cons in Hc. cbn [app] in Hc. rewrite Hc. eexists; reflexivity.
    + rewrite Hc, Hr. eexists; reflexivity.
  - destruct (done_or_not (threads st)) as [Hd|(t & th & Hth & Hne)]; [contradiction|].
    exists t. unfold step. rewrite Hth.
    destruct (Hidle t th Hth ltac:(discriminate)) as (rest & [Hc | (cs & Hc)]).
    + destruct rest as [|p rest].
      * rewrite tail_of_nil in Hc. contradiction.
      * rewrite tail_of_cons in Hc. rewrite Hc. eexists; reflexivity.
    + rewrite Hc, Hlk. eexists; reflexivity.
Qed.

Lemma inv_completes : forall (E : cell -> Z) (n : nat) (st : mstate),
  total_len (threads st) = n -> inv E st -> owner_valid st ->
  exists sched : list nat, all_done (run sched st).
Proof.
  intros E n. induction n as [|n IH]; intros st Hn Hinv Hov.
  - exists []. cbn [run]. unfold all_done.
    destruct (done_or_not (threads st)) as [Hd|(t & th & Hth & Hne)]; [exact Hd|].
    exfalso. revert t Hth Hn. generalize (threads st). intros ths.
    induction ths as [|t0 r IHr]; intros [|t] Hth Hn; cbn [nth_error total_len] in *; try discriminate.
    + injection Hth as ->. destruct (code th); [congruence|cbn [length] in Hn; lia].
    + eapply IHr; eauto. lia.
  - assert (Hnd : ~ all_done st).
    { intros Hd. unfold all_done in Hd. revert Hn. generalize (threads st) Hd. intros ths Hd'.
      induction Hd' as [|th r Hth _ IHd]; cbn [total_len]; [discriminate|].
      rewrite Hth. cbn [length plus]. exact IHd. }
    destruct (inv_enabled E st Hinv Hov Hnd) as (tid & st' & Hs).
    destruct (IH st') as [sched Hsched].
    + pose proof (step_total_len st st' tid Hs). lia.
    + eapply inv_step; eauto.
    + eapply owner_valid_step; eauto.
    + exists (tid :: sched). cbn [run]. rewrite Hs. exact Hsched.
Qed.

Lemma owner_valid_run : forall (sched : list nat) (st : mstate),
  owner_valid st -> owner_valid (run sched st).
Proof.
  induction sched as [|t r IH]; intros st Hov; cbn [run]; [exact Hov|].
  destruct (step st t) as [st'|] eqn:Hs; apply IH; [eapply owner_valid_step; eauto|exact Hov].
Qed.

(* every partial run of the locked program can be extended to a finished run:
   the theorem [locked_counts_exact] is never vacuous, and there is no deadlock *)
Theorem locked_run_progress : forall (tps : list (list (list cell))) (sched0 : list nat),
  exists sched1 : list nat,
    all_done (run (sched0 ++ sched1) (init_state (map (thread_prog update_locked) tps))).
Proof.
  intros tps sched0.
  set (st0 := init_state (map (thread_prog update_locked) tps)).
  assert (Hov0 : owner_valid st0) by (intros t Ht; discriminate).
  destruct (inv_completes (expected tps) _ (run sched0 st0) eq_refl
              (inv_run _ sched0 st0 (inv_init tps)) (owner_valid_run sched0 st0 Hov0))
    as [sched1 H1].
  exists sched1. rewrite run_app. exact H1.
Qed.

Corollary locked_finished_run_exists : forall tps : list (list (list cell)),
  exists sched : list nat,
    let st := run sched (init_state (map (thread_prog update_locked) tps)) in
    all_done st /\ forall x : cell, sget (store st) x = expected tps x.
Proof.
  intros tps. destruct (locked_run_progress tps []) as [sched H]. cbn [app] in H.
  exists sched. split; [exact H|]. apply locked_counts_exact. exact H.
Qed.
