(* Proofs about the shared-memory machine of AG/Conc.v (property C15):
   with the lock, no update is lost or doubled, whatever the schedule;
   without it, a two-thread schedule loses an update. *)
From WS Require Import Base.Py AG.Conc.
From Coq Require Import Arith Lia.

(* ---------- store ---------- *)

Lemma sget_sset_eq : forall (s : list (cell * Z)) (x : cell) (v : Z), sget (sset s x v) x = v.
Proof.
  intros s x v. induction s as [|[y w] r IH]; simpl.
  - now rewrite Nat.eqb_refl.
  - destruct (Nat.eqb_spec x y) as [->|Hne]; simpl.
    + now rewrite Nat.eqb_refl.
    + destruct (Nat.eqb_spec x y); [contradiction|exact IH].
Qed.

Lemma sget_sset_neq : forall (s : list (cell * Z)) (x y : cell) (v : Z),
  x <> y -> sget (sset s x v) y = sget s y.
Proof.
  intros s x y v Hxy. induction s as [|[z w] r IH]; simpl.
  - destruct (Nat.eqb_spec y x); [congruence|reflexivity].
  - destruct (Nat.eqb_spec x z) as [->|Hne]; simpl.
    + destruct (Nat.eqb_spec y z); [congruence|reflexivity].
    + destruct (Nat.eqb_spec y z); [reflexivity|exact IH].
Qed.

(* ---------- set_nth ---------- *)

Lemma nth_error_set_nth_eq : forall (A : Type) (l : list A) (i : nat) (a b : A),
  nth_error l i = Some a -> nth_error (set_nth l i b) i = Some b.
Proof.
  intros A l. induction l as [|x r IH]; intros [|i] a b H; simpl in *; try discriminate.
  - reflexivity.
  - eapply IH; eauto.
Qed.

Lemma nth_error_set_nth_neq : forall (A : Type) (l : list A) (i j : nat) (b : A),
  i <> j -> nth_error (set_nth l i b) j = nth_error l j.
Proof.
  intros A l. induction l as [|x r IH]; intros [|i] [|j] b H; simpl; try reflexivity.
  - congruence.
  - apply IH. congruence.
Qed.

Lemma length_set_nth : forall (A : Type) (l : list A) (i : nat) (b : A),
  length (set_nth l i b) = length l.
Proof.
  intros A l. induction l as [|x r IH]; intros [|i] b; simpl; try reflexivity.
  now rewrite IH.
Qed.

(* ---------- counting ---------- *)

Lemma count_cell_app : forall (x : cell) (l1 l2 : list cell),
  count_cell x (l1 ++ l2) = (count_cell x l1 + count_cell x l2)%Z.
Proof.
  intros x l1 l2. induction l1 as [|y r IH]; simpl; [reflexivity|]. rewrite IH. lia.
Qed.

(* ghost: the cells still to be written by a piece of code *)
Fixpoint writes (l : list instr) : list cell :=
  match l with
  | [] => []
  | IWrite c :: r => c :: writes r
  | _ :: r => writes r
  end.

Lemma writes_app : forall (l1 l2 : list instr), writes (l1 ++ l2) = writes l1 ++ writes l2.
Proof.
  intros l1 l2. induction l1 as [|i r IH]; simpl; [reflexivity|].
  destruct i; simpl; rewrite IH; reflexivity.
Qed.

Lemma incr_pairs_cons : forall (c : cell) (cs : list cell),
  incr_pairs (c :: cs) = IRead c :: IWrite c :: incr_pairs cs.
Proof. reflexivity. Qed.

Lemma writes_incr_pairs : forall (cs : list cell), writes (incr_pairs cs) = cs.
Proof.
  intros cs. induction cs as [|c r IH]; [reflexivity|].
  rewrite incr_pairs_cons. cbn [writes]. now rewrite IH.
Qed.

Lemma incr_pairs_nil : incr_pairs [] = [].
Proof. reflexivity. Qed.

Local Opaque incr_pairs.

(* remaining writes of a thread, and of all threads *)
Definition cw (x : cell) (th : thread) : Z := count_cell x (writes (code th)).

Fixpoint pend (x : cell) (ths : list thread) : Z :=
  match ths with
  | [] => 0%Z
  | th :: r => (cw x th + pend x r)%Z
  end.

Lemma pend_set_nth : forall (x : cell) (ths : list thread) (i : nat) (th th' : thread),
  nth_error ths i = Some th ->
  pend x (set_nth ths i th') = (pend x ths - cw x th + cw x th')%Z.
Proof.
  intros x ths. induction ths as [|t0 r IH]; intros [|i] th th' H; simpl in *; try discriminate.
  - injection H as ->. lia.
  - rewrite (IH i th th' H). lia.
Qed.

Lemma pend_done : forall (x : cell) (ths : list thread),
  Forall (fun th : thread => code th = []) ths -> pend x ths = 0%Z.
Proof.
  intros x ths H. induction H as [|th r Hth _ IH]; simpl; [reflexivity|].
  unfold cw. rewrite Hth, IH. reflexivity.
Qed.

(* ---------- shapes of the remaining code ---------- *)

Definition tail_of (rest : list (list cell)) : list instr := thread_prog update_locked rest.
Local Arguments tail_of : simpl never.

Lemma tail_of_cons : forall (p : list cell) (rest : list (list cell)),
  tail_of (p :: rest) = ILocal :: IAcquire :: incr_pairs (0 :: p) ++ IRelease :: tail_of rest.
Proof.
  intros p rest. unfold tail_of, thread_prog. cbn [map concat]. unfold update_locked.
  rewrite <- !app_assoc. reflexivity.
Qed.

Lemma writes_tail_of : forall (x : cell) (rest : list (list cell)),
  count_cell x (writes (tail_of rest)) = count_cell x (concat (map (fun p : list cell => 0 :: p) rest)).
Proof.
  intros x rest. induction rest as [|p r IH].
  - reflexivity.
  - rewrite tail_of_cons. cbn [writes map concat].
    rewrite writes_app, writes_incr_pairs. cbn [writes].
    rewrite !count_cell_app, IH. reflexivity.
Qed.

(* not holding the lock: at an update boundary, or just before IAcquire *)
Definition idle (th : thread) : Prop :=
  exists rest : list (list cell),
    code th = tail_of rest \/
    exists cs : list cell, code th = IAcquire :: incr_pairs cs ++ IRelease :: tail_of rest.

(* holding the lock: between two pairs, or with one pending write whose
   register holds the current value of the cell *)
Definition crit (s : list (cell * Z)) (th : thread) : Prop :=
  exists (cs : list cell) (rest : list (list cell)),
    code th = incr_pairs cs ++ IRelease :: tail_of rest \/
    exists c : cell, code th = IWrite c :: incr_pairs cs ++ IRelease :: tail_of rest /\
                     reg th = Some (sget s c).

Record inv (E : cell -> Z) (st : mstate) : Prop := {
  inv_sum : forall x : cell, (sget (store st) x + pend x (threads st) = E x)%Z;
  inv_own : forall (t : nat) (th : thread),
      nth_error (threads st) t = Some th -> lock st = Some t -> crit (store st) th;
  inv_idle : forall (t : nat) (th : thread),
      nth_error (threads st) t = Some th -> lock st <> Some t -> idle th
}.

Lemma lock_dec : forall (o : option nat) (t : nat), {o = Some t} + {o <> Some t}.
Proof.
  intros [u|] t.
  - destruct (Nat.eq_dec u t) as [->|Hne]; [left; reflexivity|right; congruence].
  - right; discriminate.
Qed.

Lemma inv_step : forall (E : cell -> Z) (st st' : mstate) (tid : nat),
  inv E st -> step st tid = Some st' -> inv E st'.
Proof.
  intros E st st' tid [Hsum Hown Hidle] Hstep.
  unfold step in Hstep.
  destruct (nth_error (threads st) tid) as [th|] eqn:Hth; [|discriminate].
  destruct (lock_dec (lock st) tid) as [Hl|Hl].
  - (* the owner moves *)
    destruct (Hown tid th Hth Hl) as (cs & rest & [Hc | (c & Hc & Hr)]).
    + destruct cs as [|c cs].
      * (* IRelease *)
        rewrite incr_pairs_nil in Hc. cbn [app] in Hc. rewrite Hc in Hstep.
        injection Hstep as <-. constructor; cbn [store lock threads].
        -- intros x. rewrite (pend_set_nth x _ _ _ _ Hth). unfold cw at 1 2. rewrite Hc.
           cbn [code writes]. specialize (Hsum x). lia.
        -- intros t th0 _ Hcontra. discriminate.
        -- intros t th0 Hn _. destruct (Nat.eq_dec tid t) as [<-|Hne].
           ++ rewrite (nth_error_set_nth_eq _ _ _ _ _ Hth) in Hn. injection Hn as <-.
              exists rest. left. reflexivity.
           ++ rewrite nth_error_set_nth_neq in Hn by exact Hne.
              apply (Hidle t th0 Hn). rewrite Hl. congruence.
      * (* IRead c *)
        rewrite incr_pairs_cons in Hc. cbn [app] in Hc. rewrite Hc in Hstep.
        injection Hstep as <-. constructor; cbn [store lock threads].
        -- intros x. rewrite (pend_set_nth x _ _ _ _ Hth). unfold cw at 1 2. rewrite Hc.
           cbn [code writes]. specialize (Hsum x). lia.
        -- intros t th0 Hn Hlt. rewrite Hl in Hlt. injection Hlt as <-.
           rewrite (nth_error_set_nth_eq _ _ _ _ _ Hth) in Hn. injection Hn as <-.
           exists cs, rest. right. exists c. split; reflexivity.
        -- intros t th0 Hn Hlt. destruct (Nat.eq_dec tid t) as [<-|Hne]; [contradiction|].
           rewrite nth_error_set_nth_neq in Hn by exact Hne.
           apply (Hidle t th0 Hn Hlt).
    + (* IWrite c, register up to date *)
      rewrite Hc, Hr in Hstep. injection Hstep as <-. constructor; cbn [store lock threads].
      * intros x. rewrite (pend_set_nth x _ _ _ _ Hth). unfold cw at 1 2. rewrite Hc.
        cbn [code writes count_cell]. specialize (Hsum x).
        destruct (Nat.eqb_spec x c) as [->|Hne].
        -- rewrite sget_sset_eq. lia.
        -- rewrite sget_sset_neq by congruence. lia.
      * intros t th0 Hn Hlt. rewrite Hl in Hlt. injection Hlt as <-.
        rewrite (nth_error_set_nth_eq _ _ _ _ _ Hth) in Hn. injection Hn as <-.
        exists cs, rest. left. reflexivity.
      * intros t th0 Hn Hlt. destruct (Nat.eq_dec tid t) as [<-|Hne]; [contradiction|].
        rewrite nth_error_set_nth_neq in Hn by exact Hne.
        apply (Hidle t th0 Hn Hlt).
  - (* a thread outside its critical section moves *)
    destruct (Hidle tid th Hth Hl) as (rest & [Hc | (cs & Hc)]).
    + destruct rest as [|p rest].
      * cbn in Hc. rewrite Hc in Hstep. discriminate.
      * (* ILocal *)
        rewrite tail_of_cons in Hc. rewrite Hc in Hstep.
        injection Hstep as <-. constructor; cbn [store lock threads].
        -- intros x. rewrite (pend_set_nth x _ _ _ _ Hth). unfold cw at 1 2. rewrite Hc.
           cbn [code writes]. specialize (Hsum x). lia.
        -- intros t th0 Hn Hlt. destruct (Nat.eq_dec tid t) as [<-|Hne]; [contradiction|].
           rewrite nth_error_set_nth_neq in Hn by exact Hne.
           apply (Hown t th0 Hn Hlt).
        -- intros t th0 Hn Hlt. destruct (Nat.eq_dec tid t) as [<-|Hne].
           ++ rewrite (nth_error_set_nth_eq _ _ _ _ _ Hth) in Hn. injection Hn as <-.
              exists rest. right. exists (0 :: p). reflexivity.
           ++ rewrite nth_error_set_nth_neq in Hn by exact Hne.
              apply (Hidle t th0 Hn Hlt).
    + (* IAcquire *)
      rewrite Hc in Hstep. destruct (lock st) as [u|] eqn:Hlk; [discriminate|].
      injection Hstep as <-. constructor; cbn [store lock threads].
      * intros x. rewrite (pend_set_nth x _ _ _ _ Hth). unfold cw at 1 2. rewrite Hc.
        cbn [code writes]. specialize (Hsum x). lia.
      * intros t th0 Hn Hlt. injection Hlt as <-.
        rewrite (nth_error_set_nth_eq _ _ _ _ _ Hth) in Hn. injection Hn as <-.
        exists cs, rest. left. reflexivity.
      * intros t th0 Hn Hlt. destruct (Nat.eq_dec tid t) as [<-|Hne]; [congruence|].
        rewrite nth_error_set_nth_neq in Hn by exact Hne.
        apply (Hidle t th0 Hn). discriminate.
Qed.

Lemma inv_run : forall (E : cell -> Z) (sched : list nat) (st : mstate),
  inv E st -> inv E (run sched st).
Proof.
  intros E sched. induction sched as [|t r IH]; intros st Hinv; cbn [run]; [exact Hinv|].
  destruct (step st t) as [st'|] eqn:Hs.
  - apply IH. eapply inv_step; eauto.
  - apply IH. exact Hinv.
Qed.

Lemma pend_init : forall (x : cell) (tps : list (list (list cell))),
  pend x (map (fun p : list instr => {| code := p; reg := None |})
              (map (thread_prog update_locked) tps)) = expected tps x.
Proof.
  intros x tps. unfold expected. induction tps as [|ps r IH]; [reflexivity|].
  cbn [map pend concat]. rewrite IH. unfold cw. cbn [code].
  rewrite map_app, concat_app, count_cell_app.
  fold (tail_of ps). rewrite writes_tail_of. reflexivity.
Qed.

Lemma inv_init : forall (tps : list (list (list cell))),
  inv (expected tps) (init_state (map (thread_prog update_locked) tps)).
Proof.
  intros tps. constructor; unfold init_state; cbn [store lock threads].
  - intros x. rewrite pend_init. reflexivity.
  - intros t th _ Hl. discriminate.
  - intros t th Hn _. rewrite map_map in Hn.
    destruct (nth_error tps t) as [ps|] eqn:Hp.
    + rewrite (map_nth_error _ _ _ Hp) in Hn. injection Hn as <-.
      exists ps. left. reflexivity.
    + apply nth_error_None in Hp.
      assert (Hnone : nth_error (map (fun x : list (list cell) =>
                 {| code := thread_prog update_locked x; reg := None |}) tps) t = None).
      { apply nth_error_None. now rewrite map_length. }
      congruence.
Qed.

(* Whatever the interleaving, once every thread has finished, every cell holds
   exactly the number of increments aimed at it. *)
Theorem locked_counts_exact : forall (tps : list (list (list cell))) (sched : list nat),
  let st := run sched (init_state (map (thread_prog update_locked) tps)) in
  all_done st -> forall x : cell, sget (store st) x = expected tps x.
Proof.
  intros tps sched st Hdone x.
  pose proof (inv_run (expected tps) sched _ (inv_init tps)) as Hinv.
  fold st in Hinv. pose proof (inv_sum _ _ Hinv x) as Hs.
  rewrite (pend_done x _ Hdone) in Hs. lia.
Qed.

(* ---------- non-vacuity: finished runs exist ---------- *)

(* the schedule that runs thread 0 to completion, then thread 1, ... *)
Fixpoint seq_sched (t : nat) (progs : list (list instr)) : list nat :=
  match progs with
  | [] => []
  | p :: r => repeat t (length p) ++ seq_sched (S t) r
  end.

Example locked_run_example :
  let tps := [[[1; 2]; [2]]; [[2; 3]; [1]]] in
  let progs := map (thread_prog update_locked) tps in
  let st1 := run (seq_sched 0 progs) (init_state progs) in
  let st2 := run (concat (repeat [0; 1; 1; 0; 1; 1; 1; 0] 12)) (init_state progs) in
  all_done_b st1 = true /\ all_done_b st2 = true /\
  map (sget (store st1)) [0; 1; 2; 3; 4] = map (expected tps) [0; 1; 2; 3; 4] /\
  map (sget (store st2)) [0; 1; 2; 3; 4] = map (expected tps) [0; 1; 2; 3; 4] /\
  map (expected tps) [0; 1; 2; 3; 4] = [4; 2; 3; 1; 0]%Z.
Proof. vm_compute. repeat split. Qed.

(* ---------- without the lock an update is lost ---------- *)

(* two threads, one update each touching cell 1: nparses (cell 0) should be 2;
   both threads read it before either writes *)
Example unlocked_loses_update :
  exists sched : list nat,
    let st := run sched (init_state [thread_prog update_unlocked [[1]];
                                     thread_prog update_unlocked [[1]]]) in
    all_done_b st = true /\ sget (store st) 0 = 1%Z.
Proof. exists [0; 0; 1; 1; 0; 1; 0; 0; 1; 1]. vm_compute. split; reflexivity. Qed.

Example unlocked_expected_two : expected [[[1]]; [[1]]] 0 = 2%Z.
Proof. reflexivity. Qed.
