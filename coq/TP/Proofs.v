From WS Require Import Base.Py Base.ListX Base.Str Base.Counter Base.CounterProofs TP.Model.
From Coq Require Import QArith.
Local Open Scope nat_scope.

(* ---------- positional specification of a segmentation ---------- *)

(* split U, cutting between index p and p+1 exactly when [cut p] *)
Fixpoint split_from (cut : nat -> bool) (p : nat) (l : list str) (cw : list str)
  : list (list str) :=
  match l with
  | [] => [rev cw]
  | x :: l' =>
    match l' with
    | [] => [rev (x :: cw)]
    | _ :: _ => if cut p then rev (x :: cw) :: split_from cut (S p) l' []
                else split_from cut (S p) l' (x :: cw)
    end
  end.
Definition split_by (cut : nat -> bool) (U : list str) : list (list str) :=
  split_from cut 0 U [].

Definition unit_at (U : list str) (p : nat) : str := nth p U [].

(* the relative rule at the pair (U[p], U[p+1]) *)
Definition dip (tp : str -> str -> Q) (U : list str) (p : nat) : bool :=
  qlt_b (tp (unit_at U p) (unit_at U (p + 1))) (tp (unit_at U (p - 1)) (unit_at U p)) &&
  qlt_b (tp (unit_at U p) (unit_at U (p + 1))) (tp (unit_at U (p + 1)) (unit_at U (p + 2))).

Definition cut_rel (tp : str -> str -> Q) (U : list str) (p : nat) : bool :=
  (1 <=? p) && (p + 2 <? length U) &&
  (dip tp U p || is_ub (unit_at U p) || is_ub (unit_at U (p + 1))).

Definition cut_abs (below : str -> str -> bool) (U : list str) (p : nat) : bool :=
  below (unit_at U p) (unit_at U (p + 1)) || is_ub (unit_at U p) || is_ub (unit_at U (p + 1)).

Lemma unit_at_app pre l k : unit_at (pre ++ l) (length pre + k) = nth k l [].
Proof. unfold unit_at. apply app_nth2_plus. Qed.

(* ---------- relative scan = positional rule ---------- *)

Lemma rel_loop_spec tp : forall rest pre prelast last unit cw' acc,
  rel_loop tp prelast last unit rest (last :: cw') acc
  = rev acc ++ split_from (cut_rel tp (pre ++ prelast :: last :: unit :: rest))
                          (S (length pre)) (last :: unit :: rest) cw'.
Proof.
  induction rest as [|nxt rest IH]; intros pre prelast last unit cw' acc.
  - cbn [rel_loop split_from].
    assert (Hc : cut_rel tp (pre ++ [prelast; last; unit]) (S (length pre)) = false).
    { unfold cut_rel. rewrite app_length. cbn [length].
      destruct (Nat.ltb_spec (S (length pre) + 2) (length pre + 3)); [lia|].
      now rewrite andb_false_r. }
    rewrite Hc. cbn [rev split_from]. reflexivity.
  - cbn [rel_loop split_from].
    set (U := pre ++ prelast :: last :: unit :: nxt :: rest).
    assert (H0 : unit_at U (S (length pre) - 1) = prelast).
    { replace (S (length pre) - 1) with (length pre + 0) by lia. unfold U. now rewrite unit_at_app. }
    assert (H1 : unit_at U (S (length pre)) = last).
    { replace (S (length pre)) with (length pre + 1) by lia. unfold U. now rewrite unit_at_app. }
    assert (H2 : unit_at U (S (length pre) + 1) = unit).
    { replace (S (length pre) + 1) with (length pre + 2) by lia. unfold U. now rewrite unit_at_app. }
    assert (H3 : unit_at U (S (length pre) + 2) = nxt).
    { replace (S (length pre) + 2) with (length pre + 3) by lia. unfold U. now rewrite unit_at_app. }
    assert (Hc : cut_rel tp U (S (length pre))
                 = (qlt_b (tp last unit) (tp prelast last) && qlt_b (tp last unit) (tp unit nxt)
                    || is_ub last || is_ub unit)).
    { unfold cut_rel, dip. rewrite H0, H1, H2, H3.
      replace (1 <=? S (length pre)) with true by (symmetry; apply Nat.leb_le; lia).
      replace (S (length pre) + 2 <? length U) with true.
      - reflexivity.
      - symmetry. apply Nat.ltb_lt. unfold U. rewrite app_length. cbn [length]. lia. }
    rewrite Hc.
    assert (HU : U = (pre ++ [prelast]) ++ last :: unit :: nxt :: rest).
    { unfold U. now rewrite <- app_assoc. }
    assert (HL : S (S (length pre)) = S (length (pre ++ [prelast]))).
    { rewrite app_length. cbn [length]. lia. }
    destruct (qlt_b (tp last unit) (tp prelast last) && qlt_b (tp last unit) (tp unit nxt)
              || is_ub last || is_ub unit).
    + rewrite (IH (pre ++ [prelast]) last unit nxt [] (rev (last :: cw') :: acc)).
      rewrite <- HU, <- HL. cbn [rev]. rewrite <- app_assoc. reflexivity.
    + rewrite (IH (pre ++ [prelast]) last unit nxt (last :: cw') acc).
      rewrite <- HU, <- HL. reflexivity.
Qed.

Theorem threshold_relative_spec tp U :
  threshold_relative tp U = Ok (split_by (cut_rel tp U) U).
Proof.
  destruct U as [|u0 [|u1 [|u2 rest]]]; try reflexivity.
  unfold threshold_relative. f_equal.
  rewrite (rel_loop_spec tp rest [] u0 u1 u2 [u0] []).
  cbn [rev app length]. unfold split_by. cbn [split_from].
  assert (Hc : cut_rel tp (u0 :: u1 :: u2 :: rest) 0 = false) by reflexivity.
  rewrite Hc. reflexivity.
Qed.

(* ---------- absolute scan = positional rule ---------- *)

Lemma abs_loop_spec below : forall rest pre last cw' acc,
  abs_loop below last rest (last :: cw') acc
  = rev acc ++ split_from (cut_abs below (pre ++ last :: rest)) (length pre) (last :: rest) cw'.
Proof.
  induction rest as [|unit rest IH]; intros pre last cw' acc.
  - cbn [abs_loop split_from rev]. reflexivity.
  - cbn [abs_loop split_from].
    set (U := pre ++ last :: unit :: rest).
    assert (H1 : unit_at U (length pre) = last).
    { replace (length pre) with (length pre + 0) by lia. unfold U. now rewrite unit_at_app. }
    assert (H2 : unit_at U (length pre + 1) = unit).
    { unfold U. now rewrite unit_at_app. }
    assert (Hc : cut_abs below U (length pre) = (below last unit || is_ub last || is_ub unit)).
    { unfold cut_abs. now rewrite H1, H2. }
    rewrite Hc.
    assert (HU : U = (pre ++ [last]) ++ unit :: rest).
    { unfold U. now rewrite <- app_assoc. }
    assert (HL : S (length pre) = length (pre ++ [last])).
    { rewrite app_length. cbn [length]. lia. }
    destruct (below last unit || is_ub last || is_ub unit).
    + rewrite (IH (pre ++ [last]) unit [] (rev (last :: cw') :: acc)).
      rewrite <- HU, <- HL. cbn [rev]. rewrite <- app_assoc. reflexivity.
    + rewrite (IH (pre ++ [last]) unit (last :: cw') acc).
      rewrite <- HU, <- HL. reflexivity.
Qed.

Theorem threshold_absolute_spec below U :
  threshold_absolute below U = Ok (split_by (cut_abs below U) U).
Proof.
  destruct U as [|u0 rest]; [reflexivity|].
  unfold threshold_absolute. f_equal.
  rewrite (abs_loop_spec below rest [] u0 [] []). reflexivity.
Qed.

(* ---------- what split_by means ---------- *)

Lemma split_from_cons2 cut p x y l cw :
  split_from cut p (x :: y :: l) cw
  = if cut p then rev (x :: cw) :: split_from cut (S p) (y :: l) []
    else split_from cut (S p) (y :: l) (x :: cw).
Proof. reflexivity. Qed.

(* nothing lost, duplicated or reordered, whatever the rule *)
Lemma split_from_concat cut : forall l p cw,
  concat (split_from cut p l cw) = rev cw ++ l.
Proof.
  induction l as [|x l IH]; intros p cw.
  - simpl. now rewrite !app_nil_r.
  - destruct l as [|y l'].
    + simpl. rewrite ?app_nil_r, <- ?app_assoc. reflexivity.
    + rewrite split_from_cons2. destruct (cut p).
      * cbn [concat]. rewrite IH. cbn [rev app]. rewrite <- ?app_assoc. reflexivity.
      * rewrite IH. cbn [rev]. rewrite <- ?app_assoc. reflexivity.
Qed.

Theorem split_by_concat cut U : concat (split_by cut U) = U.
Proof. unfold split_by. now rewrite split_from_concat. Qed.

(* no empty word *)
Lemma split_from_nonempty cut : forall l p cw,
  (l <> [] \/ cw <> []) -> Forall (fun w => w <> []) (split_from cut p l cw).
Proof.
  induction l as [|x l IH]; intros p cw H.
  - simpl. constructor; [|constructor]. destruct H as [H|H]; [congruence|].
    intros E. apply H. apply (f_equal (@rev _)) in E. now rewrite rev_involutive in E.
  - destruct l as [|y l'].
    + simpl. constructor; [|constructor]. intros E. apply app_eq_nil in E. destruct E; discriminate.
    + rewrite split_from_cons2. destruct (cut p).
      * constructor.
        -- cbn [rev]. intros E. apply app_eq_nil in E. destruct E; discriminate.
        -- apply IH. left; discriminate.
      * apply IH. left; discriminate.
Qed.

Lemma split_from_ne cut : forall l p cw, exists a b, split_from cut p l cw = a :: b.
Proof.
  induction l as [|x l IH]; intros p cw.
  - simpl. eexists; eexists; reflexivity.
  - destruct l as [|y l'].
    + simpl. eexists; eexists; reflexivity.
    + rewrite split_from_cons2. destruct (cut p).
      * eexists; eexists; reflexivity.
      * apply IH.
Qed.

(* word boundaries (cumulative lengths of all words but the last) are exactly
   the positions p+1 with [cut p], p+1 < length U *)
Fixpoint bounds_from (start : nat) (ws : list (list str)) : list nat :=
  match ws with
  | [] => []
  | [w] => []
  | w :: r => (start + length w) :: bounds_from (start + length w) r
  end.

Lemma split_from_bounds cut : forall l p cw,
  length cw <= p ->
  bounds_from (p - length cw) (split_from cut p l cw)
  = map S (filter cut (seq p (length l - 1))).
Proof.
  induction l as [|x l IH]; intros p cw Hp.
  - reflexivity.
  - destruct l as [|y l'].
    + reflexivity.
    + rewrite split_from_cons2. cbn [length]. replace (S (S (length l')) - 1) with (S (length l')) by lia.
      cbn [seq filter]. destruct (cut p).
      * specialize (IH (S p) [] ltac:(simpl; lia)).
        cbn [length] in IH. rewrite Nat.sub_0_r in IH.
        replace (S (length l') - 1) with (length l') in IH by lia.
        destruct (split_from_ne cut (y :: l') (S p) []) as [a [b Hab]]. rewrite Hab in *.
        cbn [bounds_from]. rewrite rev_length. cbn [length map].
        replace (p - length cw + S (length cw)) with (S p) by lia.
        f_equal. exact IH.
      * specialize (IH (S p) (x :: cw) ltac:(simpl; lia)).
        cbn [length] in IH. replace (S p - S (length cw)) with (p - length cw) in IH by lia.
        replace (S (length l') - 1) with (length l') in IH by lia. exact IH.
Qed.

Theorem split_by_bounds cut U :
  bounds_from 0 (split_by cut U) = map S (filter cut (seq 0 (length U - 1))).
Proof. unfold split_by. now rewrite <- (split_from_bounds cut U 0 []). Qed.

(* ---------- the dependency table equals the counts ---------- *)

Lemma pair_eqb_spec a b : reflect (a = b) (pair_eqb a b).
Proof.
  destruct a as [a1 a2], b as [b1 b2]. unfold pair_eqb. simpl.
  destruct (str_eqb_spec a1 b1); destruct (str_eqb_spec a2 b2); simpl; constructor; congruence.
Qed.

Definition freq1 (T : list str) (a : str) : Z := occ str_eqb a T.
Definition freq2 (T : list str) (a b : str) : Z := occ pair_eqb (a, b) (zip_adj T).

Definition dep_value (d : dep) (T : list str) (a b : str) : Q :=
  if (0 <? freq2 T a b)%Z then
    match d with
    | Ftp => (zq (freq2 T a b) / zq (freq1 T a))%Q
    | Btp => (zq (freq2 T a b) / zq (freq1 T b))%Q
    | Mi => (zq (freq2 T a b) / (zq (freq1 T a) * zq (freq1 T b)))%Q
    end
  else unseen d.

Lemma tp_get_map d (g : (str * str) * Z -> Q) (c : counter (str * str)) a b :
  tp_get d (map (fun kv => (fst kv, g kv)) c) a b
  = if cmem pair_eqb c (a, b)
    then g (a, b, cget pair_eqb c (a, b)) else unseen d.
Proof.
  induction c as [|[k v] r IH]; [reflexivity|].
  cbn [map tp_get cmem cget fst]. destruct (pair_eqb_spec (a, b) k) as [<-|Hne]; simpl.
  - reflexivity.
  - exact IH.
Qed.

Theorem tp_counts_spec d T a b :
  tp_get d (train d T) a b = dep_value d T a b.
Proof.
  unfold train, dep_value, freq1, freq2.
  set (uni := count_list str_eqb T). set (big := count_list pair_eqb (zip_adj T)).
  transitivity (tp_get d (map (fun kv => (fst kv,
      match d with
      | Ftp => (zq (snd kv) / zq (cget str_eqb uni (fst (fst kv))))%Q
      | Btp => (zq (snd kv) / zq (cget str_eqb uni (snd (fst kv))))%Q
      | Mi => (zq (snd kv) / (zq (cget str_eqb uni (fst (fst kv))) * zq (cget str_eqb uni (snd (fst kv)))))%Q
      end)) big) a b).
  { f_equal. apply map_ext. intros [[x y] f]. reflexivity. }
  rewrite (tp_get_map d (fun kv => match d with
      | Ftp => (zq (snd kv) / zq (cget str_eqb uni (fst (fst kv))))%Q
      | Btp => (zq (snd kv) / zq (cget str_eqb uni (snd (fst kv))))%Q
      | Mi => (zq (snd kv) / (zq (cget str_eqb uni (fst (fst kv))) * zq (cget str_eqb uni (snd (fst kv)))))%Q
      end)).
  unfold big, uni.
  rewrite (cmem_count_list pair_eqb pair_eqb_spec), (cget_count_list pair_eqb pair_eqb_spec).
  cbn [fst snd]. rewrite !(cget_count_list str_eqb str_eqb_spec). reflexivity.
Qed.

(* ---------- segment = the two rules over counted dependencies ---------- *)

Definition stream_tp (d : dep) (T : list str) : str -> str -> Q := dep_value d T.

Lemma rel_loop_ext tp tp' : (forall a b, tp a b = tp' a b) ->
  forall rest p l u cw acc, rel_loop tp p l u rest cw acc = rel_loop tp' p l u rest cw acc.
Proof.
  intros H. induction rest as [|n rest IH]; intros; cbn [rel_loop]; [reflexivity|].
  rewrite !H. destruct (_ || _ || _); apply IH.
Qed.

Lemma abs_loop_ext f f' : (forall a b, f a b = f' a b) ->
  forall rest l cw acc, abs_loop f l rest cw acc = abs_loop f' l rest cw acc.
Proof.
  intros H. induction rest as [|n rest IH]; intros; cbn [abs_loop]; [reflexivity|].
  rewrite !H. destruct (_ || _ || _); apply IH.
Qed.

Definition train_units_of (text : list str) (train_text : option (list str)) : list str :=
  match train_text with None => units_of text | Some trn => units_of trn end.

(* mean over the bigram types of the training stream *)
Definition type_values (d : dep) (T : list str) : list Q := map snd (train d T).

Theorem cwords_relative_spec text train_text d :
  let U := units_of text in let T := train_units_of text train_text in
  cwords_of text train_text Relative d = Ok (split_by (cut_rel (dep_value d T) U) U).
Proof.
  intros U T. unfold cwords_of.
  change (match train_text with None => units_of text | Some trn => units_of trn end) with T.
  fold U.
  rewrite <- (threshold_relative_spec (dep_value d T) U).
  unfold threshold_relative. destruct U as [|u0 [|u1 [|u2 rest]]]; try reflexivity.
  f_equal. apply rel_loop_ext. intros a b. apply tp_counts_spec.
Qed.

Theorem cwords_absolute_spec text train_text d :
  let U := units_of text in let T := train_units_of text train_text in
  cwords_of text train_text Absolute d
  = Ok (split_by (cut_abs (fun a b => le_mean d (type_values d T) (dep_value d T a b)) U) U).
Proof.
  intros U T. unfold cwords_of.
  change (match train_text with None => units_of text | Some trn => units_of trn end) with T.
  fold U.
  rewrite <- (threshold_absolute_spec _ U).
  unfold threshold_absolute. destruct U as [|u0 rest]; try reflexivity.
  f_equal. apply abs_loop_ext. intros a b. unfold type_values. now rewrite tp_counts_spec.
Qed.

Theorem segment_eq_render text train_text t d :
  text <> [] ->
  segment text train_text t d = do cw <- cwords_of text train_text t d; Ok (render cw).
Proof. intros H. unfold segment, cwords_of. destruct text; [congruence|]. destruct t; reflexivity. Qed.

Theorem segment_empty train_text t d : segment [] train_text t d = Ok [].
Proof. reflexivity. Qed.

(* le_mean is the comparison with the arithmetic mean (ftp, btp) *)
Lemma le_mean_arith d vals v : d <> Mi -> vals <> [] ->
  le_mean d vals v = true <-> (v <= qsum vals / zq (Z.of_nat (length vals)))%Q.
Proof.
  intros Hd Hv. unfold le_mean. destruct vals as [|x r]; [congruence|].
  set (n := zq (Z.of_nat (length (x :: r)))).
  assert (Hn : (0 < n)%Q).
  { unfold Qlt, n, zq, inject_Z. cbn [Qnum Qden length]. lia. }
  assert (Hn0 : ~ (n == 0)%Q).
  { intros E. rewrite E in Hn. discriminate. }
  assert (G : (v * n <= qsum (x :: r))%Q <-> (v <= qsum (x :: r) / n)%Q).
  { split; intros H.
    - apply Qle_shift_div_l; assumption.
    - apply (Qmult_le_r _ _ n Hn) in H.
      rewrite (Qmult_comm (qsum (x :: r) / n) n), Qmult_div_r in H by exact Hn0. exact H. }
  destruct d; try congruence; rewrite Qle_bool_iff; exact G.
Qed.
