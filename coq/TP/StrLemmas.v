(* Generic lemmas about the Python string primitives of Base/Str.v, used by
   TP/Conservation.v.  Stdlib only. *)
From WS Require Import Base.Py Base.Str Base.Seg.
Local Open Scope nat_scope.

(* an optional single space *)
Definition osp (b : bool) : str := if b then [sp] else [].

(* ---------- characters ---------- *)

Lemma is_space_sp : is_space sp = true.
Proof. reflexivity. Qed.

Lemma nonspace_neq_sp (c : char) : is_space c = false -> (c =? sp)%N = false.
Proof.
  intros H. destruct (N.eqb_spec c sp) as [E|E]; [|reflexivity].
  subst c. rewrite is_space_sp in H. discriminate.
Qed.

Lemma unit_ok_nonnil (u : str) : unit_ok u -> u <> [].
Proof. intros [H _]. exact H. Qed.

Lemma unit_ok_hd (u : str) : unit_ok u -> exists (c : char) (u' : str), u = c :: u' /\ is_space c = false.
Proof.
  intros [Hn Hf]. destruct u as [|c u']; [congruence|].
  exists c, u'. split; [reflexivity|]. now inversion Hf.
Qed.

Lemma unit_ok_last (u : str) : unit_ok u -> exists (u' : str) (c : char), u = u' ++ [c] /\ is_space c = false.
Proof.
  intros [Hn Hf]. destruct (exists_last Hn) as [u' [c E]]. exists u', c. split; [exact E|].
  subst u. apply Forall_app in Hf. destruct Hf as [_ Hf]. now inversion Hf.
Qed.

(* ---------- lstrip / rstrip / strip ---------- *)

(* the string is empty or starts with a non-whitespace character *)
Definition hd_ok (s : str) : Prop :=
  match s with [] => True | c :: _ => is_space c = false end.

Lemma lstrip_hd_ok (s : str) : hd_ok s -> lstrip s = s.
Proof. destruct s as [|c s]; [reflexivity|]. cbn [hd_ok lstrip]. intros ->. reflexivity. Qed.

Lemma lstrip_app (x y : str) : lstrip x <> [] -> lstrip (x ++ y) = lstrip x ++ y.
Proof.
  induction x as [|c x IH]; cbn [lstrip app]; intros H; [congruence|].
  destruct (is_space c); [now apply IH|reflexivity].
Qed.

Lemma lstrip_nonnil (x : str) (c : char) : In c x -> is_space c = false -> lstrip x <> [].
Proof.
  induction x as [|a x IH]; intros Hin Hc; [destruct Hin|].
  cbn [lstrip]. destruct (is_space a) eqn:Ea; [|discriminate].
  destruct Hin as [E|Hin]; [subst a; congruence|]. now apply IH.
Qed.

Lemma rstrip_nil : rstrip [] = [].
Proof. reflexivity. Qed.

Lemma rstrip_app (a b : str) : rstrip b <> [] -> rstrip (a ++ b) = a ++ rstrip b.
Proof.
  unfold rstrip. intros H. rewrite rev_app_distr, lstrip_app, rev_app_distr, rev_involutive.
  - reflexivity.
  - intros E. apply H. rewrite E. reflexivity.
Qed.

Lemma rstrip_snoc_space (a : str) (c : char) : is_space c = true -> rstrip (a ++ [c]) = rstrip a.
Proof.
  intros H. unfold rstrip. rewrite rev_app_distr. cbn [rev app lstrip]. rewrite H. reflexivity.
Qed.

Lemma rstrip_snoc_ok (a : str) (c : char) : is_space c = false -> rstrip (a ++ [c]) = a ++ [c].
Proof.
  intros H. unfold rstrip. rewrite rev_app_distr. cbn [rev app lstrip]. rewrite H.
  cbn [rev]. rewrite rev_involutive. reflexivity.
Qed.

Lemma rstrip_unit (u : str) : unit_ok u -> rstrip u = u.
Proof.
  intros H. destruct (unit_ok_last u H) as [u' [c [-> Hc]]]. now apply rstrip_snoc_ok.
Qed.

Lemma rstrip_unit_osp (u : str) (b : bool) : unit_ok u -> rstrip (u ++ osp b) = u.
Proof.
  intros H. destruct b; cbn [osp].
  - rewrite rstrip_snoc_space by apply is_space_sp. now apply rstrip_unit.
  - rewrite app_nil_r. now apply rstrip_unit.
Qed.

Lemma rstrip_nonnil (s : str) (c : char) : In c s -> is_space c = false -> rstrip s <> [].
Proof.
  intros Hin Hc. unfold rstrip. intros E.
  apply (f_equal (@rev char)) in E. rewrite rev_involutive in E. cbn [rev] in E.
  revert E. apply (lstrip_nonnil (rev s) c); [|exact Hc]. now apply in_rev in Hin.
Qed.

Lemma strip_osp (b : bool) (s : str) : hd_ok s -> strip (osp b ++ s) = rstrip s.
Proof.
  intros H. unfold strip. destruct b; cbn [osp app lstrip].
  - rewrite is_space_sp. now rewrite lstrip_hd_ok.
  - now rewrite lstrip_hd_ok.
Qed.

(* a string without leading/trailing whitespace is its own strip *)
Lemma strip_unit (u : str) : unit_ok u -> strip u = u.
Proof.
  intros H. unfold strip. rewrite lstrip_hd_ok.
  - now apply rstrip_unit.
  - destruct (unit_ok_hd u H) as [c [u' [-> Hc]]]. exact Hc.
Qed.

(* ---------- split_ws ---------- *)

Lemma split_ws_go_app (a b : str) (c : char) : is_space c = true ->
  forall acc : str, split_ws_go (a ++ c :: b) acc = split_ws_go a acc ++ split_ws b.
Proof.
  intros Hc. induction a as [|x a IH]; intros acc.
  - cbn [app split_ws_go]. rewrite Hc. destruct acc; reflexivity.
  - cbn [app split_ws_go]. destruct (is_space x).
    + destruct acc; rewrite IH; reflexivity.
    + apply IH.
Qed.

Lemma split_ws_app (a b : str) (c : char) : is_space c = true ->
  split_ws (a ++ c :: b) = split_ws a ++ split_ws b.
Proof. intros H. unfold split_ws at 1 2. now apply split_ws_go_app. Qed.

Lemma split_ws_go_ok (s : str) : forall acc : str,
  Forall (fun c => is_space c = false) acc -> Forall unit_ok (split_ws_go s acc).
Proof.
  assert (R : forall acc : str, acc <> [] -> Forall (fun c => is_space c = false) acc -> unit_ok (rev acc)).
  { intros acc Hn Hf. split.
    - intros E. apply Hn. apply (f_equal (@rev char)) in E. now rewrite rev_involutive in E.
    - now apply Forall_rev. }
  induction s as [|c s IH]; intros acc Hacc.
  - cbn [split_ws_go]. destruct acc as [|a acc]; [constructor|].
    constructor; [|constructor]. apply R; [discriminate|exact Hacc].
  - cbn [split_ws_go]. destruct (is_space c) eqn:Ec.
    + destruct acc as [|a acc].
      * apply IH. constructor.
      * constructor; [apply R; [discriminate|exact Hacc]|]. apply IH. constructor.
    + apply IH. constructor; assumption.
Qed.

(* split_ws tokens are non-empty and whitespace-free *)
Lemma split_ws_ok (s : str) : Forall unit_ok (split_ws s).
Proof. apply split_ws_go_ok. constructor. Qed.

(* a whitespace-free run is scanned into the accumulator *)
Lemma split_ws_go_unit (u : str) : Forall (fun c => is_space c = false) u ->
  forall (rest acc : str), split_ws_go (u ++ rest) acc = split_ws_go rest (rev u ++ acc).
Proof.
  induction u as [|c u IH]; intros Hf rest acc; [reflexivity|].
  inversion Hf as [|? ? Hc Hu]; subst. cbn [app split_ws_go rev]. rewrite Hc.
  rewrite IH by exact Hu. now rewrite <- app_assoc.
Qed.

(* split_ws (join [sp] ws) = ws for non-empty whitespace-free tokens *)
Lemma split_ws_join (ws : list str) : Forall unit_ok ws -> split_ws (join [sp] ws) = ws.
Proof.
  induction ws as [|w ws IH]; intros H; [reflexivity|].
  inversion H as [|? ? Hw Hws]; subst. specialize (IH Hws).
  assert (W : split_ws w = [w]).
  { unfold split_ws. rewrite <- (app_nil_r w) at 1. rewrite split_ws_go_unit by apply Hw.
    cbn [split_ws_go]. rewrite app_nil_r.
    destruct (rev w) eqn:E.
    - exfalso. apply (unit_ok_nonnil w Hw). apply (f_equal (@rev char)) in E.
      now rewrite rev_involutive in E.
    - rewrite <- E, rev_involutive. reflexivity. }
  destruct ws as [|w2 ws']; [exact W|].
  change (join [sp] (w :: w2 :: ws')) with (w ++ sp :: join [sp] (w2 :: ws')).
  rewrite split_ws_app by apply is_space_sp. rewrite W, IH. reflexivity.
Qed.

(* ---------- prefix_b / infix_b ---------- *)

Lemma prefix_b_app_short (p s t : str) : length p <= length s -> prefix_b p (s ++ t) = prefix_b p s.
Proof.
  revert s. induction p as [|x p IH]; intros s H; [reflexivity|].
  destruct s as [|y s]; cbn [length] in H; [lia|].
  cbn [app prefix_b]. rewrite IH by lia. reflexivity.
Qed.

Lemma prefix_b_self_app (p t : str) : prefix_b p (p ++ t) = true.
Proof.
  induction p as [|x p IH]; [reflexivity|].
  cbn [app prefix_b]. rewrite N.eqb_refl, IH. reflexivity.
Qed.

Lemma infix_b_cons (p : str) (c : char) (s : str) :
  infix_b p (c :: s) = prefix_b p (c :: s) || infix_b p s.
Proof. reflexivity. Qed.

(* two-character separators *)
Lemma infix_b2_cons_neq (x y c : char) (s : str) : (x =? c)%N = false ->
  infix_b [x; y] (c :: s) = infix_b [x; y] s.
Proof. intros H. rewrite infix_b_cons. cbn [prefix_b]. rewrite H. reflexivity. Qed.

Lemma infix_b2_snoc_neq (x y c : char) (s : str) : (y =? c)%N = false ->
  infix_b [x; y] (s ++ [c]) = infix_b [x; y] s.
Proof.
  intros H. induction s as [|a s IH].
  - cbn. destruct (x =? c)%N; reflexivity.
  - cbn [app]. rewrite !infix_b_cons, IH. f_equal.
    cbn [prefix_b]. f_equal. destruct s as [|b s]; cbn [app prefix_b].
    + rewrite H. reflexivity.
    + reflexivity.
Qed.

Lemma infix_b2_despace (x y : char) (s : str) :
  (x =? sp)%N = false -> (y =? sp)%N = false ->
  infix_b [x; y] (despace s) = false -> infix_b [x; y] s = false.
Proof.
  intros Hx Hy. induction s as [|c s IH]; intros H; [reflexivity|].
  unfold despace in H. cbn [filter] in H. fold (despace s) in H.
  destruct (c =? sp)%N eqn:Ec; cbn [negb] in H.
  - apply N.eqb_eq in Ec. subst c. rewrite infix_b2_cons_neq by exact Hx. now apply IH.
  - rewrite infix_b_cons in H. apply orb_false_elim in H. destruct H as [Hp Hi].
    rewrite infix_b_cons, (IH Hi), orb_false_r.
    cbn [prefix_b] in Hp |- *. destruct (x =? c)%N; [|reflexivity]. cbn [andb] in Hp |- *.
    destruct s as [|b s]; [reflexivity|].
    unfold despace in Hp. cbn [filter] in Hp. fold (despace s) in Hp.
    cbn [prefix_b]. destruct (b =? sp)%N eqn:Eb; cbn [negb] in Hp.
    + apply N.eqb_eq in Eb. subst b. rewrite Hy. reflexivity.
    + cbn [prefix_b] in Hp. exact Hp.
Qed.

(* ---------- split_on ---------- *)

Lemma split_go_skip (sep x rest acc : str) :
  split_go sep (x ++ rest) (length x) acc = split_go sep rest 0 acc.
Proof. induction x as [|c x IH]; [reflexivity|]. cbn [app length split_go]. exact IH. Qed.

(* no occurrence: one piece *)
Lemma split_go_nomatch (sep : str) : forall (s acc : str),
  infix_b sep s = false -> split_go sep s 0 acc = [rev acc ++ s].
Proof.
  induction s as [|c s IH]; intros acc H.
  - cbn [split_go]. now rewrite app_nil_r.
  - rewrite infix_b_cons in H. apply orb_false_elim in H. destruct H as [Hp Hi].
    cbn [split_go]. rewrite Hp. rewrite IH by exact Hi. cbn [rev]. now rewrite <- app_assoc.
Qed.

Lemma split_on_nomatch (sep s : str) : infix_b sep s = false -> split_on sep s = [s].
Proof. intros H. unfold split_on. now rewrite split_go_nomatch. Qed.

(* the first occurrence of sep in a ++ sep ++ rest is at offset |a| *)
Lemma split_go_first (c0 : char) (sep' : str) :
  let sep := c0 :: sep' in
  forall (a acc rest : str),
  infix_b sep (a ++ removelast sep) = false ->
  split_go sep (a ++ sep ++ rest) 0 acc = (rev acc ++ a) :: split_on sep rest.
Proof.
  intros sep. induction a as [|x a IH]; intros acc rest H.
  - cbn [app]. rewrite app_nil_r. unfold sep at 2. cbn [app split_go].
    change (c0 :: sep' ++ rest) with (sep ++ rest). rewrite prefix_b_self_app.
    replace (length sep - 1) with (length sep') by (unfold sep; cbn [length]; lia).
    rewrite split_go_skip. reflexivity.
  - cbn [app] in H. rewrite infix_b_cons in H. apply orb_false_elim in H. destruct H as [Hp Hi].
    cbn [app split_go].
    assert (Hp' : prefix_b sep (x :: a ++ sep ++ rest) = false).
    { rewrite <- Hp.
      assert (Hs : sep = removelast sep ++ [last sep c0]) by (apply app_removelast_last; discriminate).
      rewrite Hs at 2.
      replace (x :: a ++ (removelast sep ++ [last sep c0]) ++ rest)
        with ((x :: a ++ removelast sep) ++ [last sep c0] ++ rest)
        by (cbn [app]; rewrite <- !app_assoc; reflexivity).
      apply prefix_b_app_short.
      cbn [length]. rewrite app_length.
      assert (length sep = length (removelast sep) + 1).
      { rewrite Hs at 1. rewrite app_length. reflexivity. }
      lia. }
    rewrite Hp'. rewrite IH by exact Hi. cbn [rev]. now rewrite <- app_assoc.
Qed.

Lemma split_on_first (c0 : char) (sep' a rest : str) :
  infix_b (c0 :: sep') (a ++ removelast (c0 :: sep')) = false ->
  split_on (c0 :: sep') (a ++ (c0 :: sep') ++ rest) = a :: split_on (c0 :: sep') rest.
Proof. intros H. unfold split_on at 1. now rewrite (split_go_first c0 sep' a [] rest H). Qed.

(* ---------- join ---------- *)

Lemma join_cons2 (sep x y : str) (r : list str) :
  join sep (x :: y :: r) = x ++ sep ++ join sep (y :: r).
Proof. reflexivity. Qed.

Lemma join_cons_app (sep a x : str) (r : list str) :
  join sep ((a ++ x) :: r) = a ++ join sep (x :: r).
Proof. destruct r as [|y r]; [reflexivity|]. rewrite !join_cons2. now rewrite <- app_assoc. Qed.

(* ---------- despace / collapse_spaces ---------- *)

Lemma despace_app (a b : str) : despace (a ++ b) = despace a ++ despace b.
Proof. apply filter_app. Qed.

Lemma despace_nosp (u : str) : Forall (fun c => is_space c = false) u -> despace u = u.
Proof.
  induction u as [|c u IH]; intros H; [reflexivity|].
  inversion H as [|? ? Hc Hu]; subst. unfold despace. cbn [filter].
  rewrite (nonspace_neq_sp c Hc). cbn [negb]. f_equal. now apply IH.
Qed.

Lemma despace_osp (b : bool) : despace (osp b) = [].
Proof. destruct b; reflexivity. Qed.

Lemma collapse_nosp_app (u t : str) : Forall (fun c => is_space c = false) u ->
  collapse_spaces (u ++ t) = u ++ collapse_spaces t.
Proof.
  induction u as [|c u IH]; intros H; [reflexivity|].
  inversion H as [|? ? Hc Hu]; subst. cbn [app collapse_spaces].
  rewrite (nonspace_neq_sp c Hc). f_equal. now apply IH.
Qed.

Lemma collapse_sp_cons (s : str) : hd_ok s -> collapse_spaces (sp :: s) = sp :: collapse_spaces s.
Proof.
  destruct s as [|c s]; intros H; [reflexivity|].
  cbn [hd_ok] in H. apply nonspace_neq_sp in H.
  change (collapse_spaces (sp :: c :: s))
    with (if (c =? sp)%N then collapse_spaces (c :: s) else sp :: collapse_spaces (c :: s)).
  rewrite H. reflexivity.
Qed.
