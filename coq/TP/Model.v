(* Model of wordseg/algos/tp.py: segment(), _train, _threshold_relative,
   _threshold_absolute, _segment.  Dependency values are exact rationals; for
   'mi' the stored value is the argument of log2 (log2 is strictly monotone,
   unseen pairs have value 0 = log2 1). *)
From WS Require Import Base.Py Base.Str Base.Counter.
From Coq Require Import QArith Qabs Qminmax.

(* The utterance boundary marker.  Since the repair of the in-band marker ('UB' was an ordinary string,
   which a text can contain) it is an object equal to no unit; units come from str.split(), so they are
   non-empty: the empty string stands for that object. *)
Definition UB : str := [].

Inductive dep := Ftp | Btp | Mi.

(* _units: the units of every line, a marker between two lines *)
Fixpoint units_of (text : list str) : list str :=
  match text with
  | [] => []
  | [l] => split_ws l
  | l :: r => split_ws l ++ UB :: units_of r
  end.

Definition pair_eqb (a b : str * str) : bool :=
  str_eqb (fst a) (fst b) && str_eqb (snd a) (snd b).

Fixpoint zip_adj (l : list str) : list (str * str) :=
  match l with
  | x :: ((y :: _) as r) => (x, y) :: zip_adj r
  | _ => []
  end.

Definition zq (z : Z) : Q := inject_Z z.

(* the table of dependency values for the bigram types of the training stream *)
Definition train (d : dep) (tu : list str) : list ((str * str) * Q) :=
  let uni := count_list str_eqb tu in
  let big := count_list pair_eqb (zip_adj tu) in
  map (fun kv =>
         let '((a, b), f) := kv in
         ((a, b),
          match d with
          | Ftp => zq f / zq (cget str_eqb uni a)
          | Btp => zq f / zq (cget str_eqb uni b)
          | Mi => zq f / (zq (cget str_eqb uni a) * zq (cget str_eqb uni b))
          end)) big.

Definition unseen (d : dep) : Q := match d with Mi => 1 | _ => 0 end.

Fixpoint tp_get (d : dep) (t : list ((str * str) * Q)) (a b : str) : Q :=
  match t with
  | [] => unseen d
  | (k, v) :: r => if pair_eqb (a, b) k then v else tp_get d r a b
  end.

Definition is_ub (u : str) : bool := str_eqb u UB.

(* near-tie detection: relative difference below 1e-9 but not equal *)
Definition eps_den : Z := 1000000000.
Definition qabs_diff (x y : Q) : Q := Qabs (x - y).
Definition near (x y : Q) : bool :=
  negb (Qeq_bool x y) &&
  negb (Qle_bool (Qmax (Qabs x) (Qabs y)) (qabs_diff x y * zq eps_den)).

Definition qlt_b (x y : Q) : bool := negb (Qle_bool y x).

(* _threshold_relative: returns cwords in order; [acc] is the list of finished
   words (reversed), [cw] the current word (reversed). *)
Fixpoint rel_loop (tp : str -> str -> Q) (prelast last unit : str) (rest : list str)
         (cw : list str) (acc : list (list str)) : list (list str) :=
  match rest with
  | [] => rev (rev (unit :: cw) :: acc)
  | nxt :: rest' =>
    let c1 := qlt_b (tp last unit) (tp prelast last) in
    let c2 := qlt_b (tp last unit) (tp unit nxt) in
    if (c1 && c2) || is_ub last || is_ub unit
    then rel_loop tp last unit nxt rest' [unit] (rev cw :: acc)
    else rel_loop tp last unit nxt rest' (unit :: cw) acc
  end.

Definition threshold_relative (tp : str -> str -> Q) (units : list str) : result (list (list str)) :=
  match units with
  | u0 :: u1 :: u2 :: rest => Ok (rel_loop tp u0 u1 u2 rest [u1; u0] [])
  | _ => Ok [units]                 (* fewer than three units: a single word *)
  end.

Fixpoint abs_loop (below : str -> str -> bool) (last : str) (rest : list str)
         (cw : list str) (acc : list (list str)) : list (list str) :=
  match rest with
  | [] => rev (rev cw :: acc)
  | unit :: rest' =>
    if below last unit || is_ub last || is_ub unit
    then abs_loop below unit rest' [unit] (rev cw :: acc)
    else abs_loop below unit rest' (unit :: cw) acc
  end.

Definition threshold_absolute (below : str -> str -> bool) (units : list str) : result (list (list str)) :=
  match units with
  | u0 :: rest => Ok (abs_loop below u0 rest [u0] [])
  | [] => Ok [[]]
  end.

(* v <= mean(values), exactly.  ftp/btp: v * n <= sum.  mi: v^n <= product
   (v and the values are arguments of log2).  No types: mean is 0. *)
Definition qsum (l : list Q) : Q := fold_right Qplus 0 l.
Definition qprod (l : list Q) : Q := fold_right Qmult 1 l.
Fixpoint qpow (x : Q) (n : nat) : Q := match n with O => 1 | S k => x * qpow x k end.

Definition le_mean (d : dep) (vals : list Q) (v : Q) : bool :=
  match vals with
  | [] => Qle_bool v (unseen d)
  | _ =>
    match d with
    | Mi => Qle_bool (qpow v (length vals)) (qprod vals)
    | _ => Qle_bool (v * zq (Z.of_nat (length vals))) (qsum vals)
    end
  end.

(* the float mean is a rounded sum: decisions closer than 1e-9 are not judged *)
Definition near_mean (d : dep) (vals : list Q) (v : Q) : bool :=
  match vals with
  | [] => false
  | _ =>
    match d with
    | Mi => let a := qpow v (length vals) in let b := qprod vals in
            Qeq_bool a b ||
            negb (Qle_bool (Qmax (Qabs a) (Qabs b)) (qabs_diff a b * zq eps_den / zq (Z.of_nat (length vals))))
    | _ => let a := v in let b := qsum vals / zq (Z.of_nat (length vals)) in
           Qeq_bool a b ||
           negb (Qle_bool (Qmax (Qabs a) (Qabs b)) (qabs_diff a b * zq eps_den))
    end
  end.

(* _segment: the words of each utterance; the marker ends the current utterance *)
Definition nonempty_w (w : str) : bool := match w with [] => false | _ => true end.
Definition close_word (word : str) (words : list str) : list str :=
  if nonempty_w word then words ++ [word] else words.

Fixpoint seg_cword (cw : list str) (word : str) (words utts : list str) : str * list str * list str :=
  match cw with
  | [] => (word, words, utts)
  | u :: r =>
    if is_ub u then seg_cword r [] [] (utts ++ [join [sp] (close_word word words)])
    else seg_cword r (word ++ u) words utts
  end.

Fixpoint seg_cwords (cws : list (list str)) (words utts : list str) : list str :=
  match cws with
  | [] => utts ++ [join [sp] words]
  | cw :: r =>
    let '(word, words', utts') := seg_cword cw [] words utts in
    seg_cwords r (close_word word words') utts'
  end.

Definition render (cwords : list (list str)) : list str := seg_cwords cwords [] [].

Inductive thr := Relative | Absolute.

Definition segment (text : list str) (train_text : option (list str)) (t : thr) (d : dep)
  : result (list str) :=
  match text with
  | [] => Ok []
  | _ =>
  let test_units := units_of text in
  let train_units := match train_text with None => test_units | Some trn => units_of trn end in
  let table := train d train_units in
  do cwords <- match t with
               | Relative => threshold_relative (tp_get d table) test_units
               | Absolute => threshold_absolute
                               (fun a b => le_mean d (map snd table) (tp_get d table a b)) test_units
               end;
  Ok (render cwords)
  end.

(* does any decision taken on this input lie within rounding distance? *)
Fixpoint any_adj3 (f : str -> str -> str -> str -> bool) (l : list str) : bool :=
  match l with
  | a :: ((b :: c :: d :: _) as r) => f a b c d || any_adj3 f r
  | _ => false
  end.
Fixpoint any_adj (f : str -> str -> bool) (l : list str) : bool :=
  match l with
  | a :: ((b :: _) as r) => f a b || any_adj f r
  | _ => false
  end.

Definition near_tie (text : list str) (train_text : option (list str)) (t : thr) (d : dep) : bool :=
  let test_units := units_of text in
  let train_units := match train_text with None => test_units | Some trn => units_of trn end in
  let table := train d train_units in
  let tp := tp_get d table in
  match t with
  | Relative => any_adj3 (fun a b c e => near (tp a b) (tp b c) || near (tp b c) (tp c e)) test_units
  | Absolute => any_adj (fun a b => near_mean d (map snd table) (tp a b)) test_units
  end.

(* wire *)
Definition d_dep (j : J) : option dep :=
  match j with JI 0 => Some Ftp | JI 1 => Some Btp | JI 2 => Some Mi | _ => None end%Z.
Definition d_thr (j : J) : option thr :=
  match j with JI 0 => Some Relative | JI 1 => Some Absolute | _ => None end%Z.

Definition run_segment (j : J) : J :=
  match j with
  | JL [text; tr; t; d] =>
    match d_list d_str text, d_option (d_list d_str) tr, d_thr t, d_dep d with
    | Some text, Some tr, Some t, Some d =>
      JL [j_result (j_list j_str) (segment text tr t d); j_bool (near_tie text tr t d)]
    | _, _, _, _ => j_bad end
  | _ => j_bad end.

(* the intermediate cwords, for the positional oracle *)
Definition cwords_of (text : list str) (train_text : option (list str)) (t : thr) (d : dep)
  : result (list (list str)) :=
  let test_units := units_of text in
  let train_units := match train_text with None => test_units | Some trn => units_of trn end in
  let table := train d train_units in
  match t with
  | Relative => threshold_relative (tp_get d table) test_units
  | Absolute => threshold_absolute
                  (fun a b => le_mean d (map snd table) (tp_get d table a b)) test_units
  end.
