(* C01 for TP: the output of segment is, utterance by utterance, the input
   units with single spaces inserted only at unit boundaries. *)
From WS Require Import Base.Py Base.Str Base.Seg TP.Model TP.Proofs TP.StrLemmas.
Local Open Scope nat_scope.

Definition utt_units (l : str) : list str := split_ws (strip l).

Definition ub_free (text : list str) : Prop :=
  Forall (fun l => infix_b UB (concat (utt_units l)) = false) text.

(* ---------- the unit stream: utterances joined by the pseudo-unit UB ---------- *)

Fixpoint ujoin (us : list (list str)) : list str :=
  match us with
  | [] => []
  | [u] => u
  | u :: r => u ++ UB :: ujoin r
  end.

Lemma ujoin_cons2 (u u2 : list str) (r : list (list str)) :
  ujoin (u :: u2 :: r) = u ++ UB :: ujoin (u2 :: r).
Proof. reflexivity. Qed.

Lemma split_ws_UB_sp (x : str) : split_ws (UB ++ sp :: x) = UB :: split_ws x.
Proof. rewrite split_ws_app by apply is_space_sp. reflexivity. Qed.

Theorem units_of_ujoin (text : list str) : units_of text = ujoin (map utt_units text).
Proof.
  unfold units_of. induction text as [|l r IH]; [reflexivity|].
  destruct r as [|l2 r']; [reflexivity|].
  cbn [map]. rewrite join_cons2, ujoin_cons2.
  change (sUBs ++ join sUBs (strip l2 :: map strip r'))
    with (sp :: UB ++ sp :: join sUBs (map strip (l2 :: r'))).
  rewrite split_ws_app by apply is_space_sp. rewrite split_ws_UB_sp.
  rewrite IH. reflexivity.
Qed.

(* ---------- strings obtained from a unit list by inserting optional single
   spaces after units ---------- *)

Inductive spaced : list str -> str -> Prop :=
| spaced_nil : spaced [] []
| spaced_cons (u : str) (us : list str) (s : str) (b : bool) :
    spaced us s -> spaced (u :: us) (u ++ osp b ++ s).

Lemma spaced_app (a c : list str) (s1 s2 : str) :
  spaced a s1 -> spaced c s2 -> spaced (a ++ c) (s1 ++ s2).
Proof.
  intros H1 H2. induction H1 as [|u us s b H IH]; [exact H2|].
  cbn [app]. replace ((u ++ osp b ++ s) ++ s2) with (u ++ osp b ++ (s ++ s2))
    by (now rewrite <- !app_assoc).
  now constructor.
Qed.

Lemma spaced_app_inv (a c : list str) : forall s : str,
  spaced (a ++ c) s -> exists s1 s2 : str, s = s1 ++ s2 /\ spaced a s1 /\ spaced c s2.
Proof.
  induction a as [|u a IH]; intros s H.
  - exists [], s. repeat split; [constructor|exact H].
  - cbn [app] in H. inversion H as [|u' us' s0 b H0]; subst.
    destruct (IH s0 H0) as [s1 [s2 [E [Ha Hc]]]]. subst s0.
    exists (u ++ osp b ++ s1), s2. repeat split.
    + now rewrite <- !app_assoc.
    + now constructor.
    + exact Hc.
Qed.

Lemma spaced_flat (g : list str) : spaced g (concat g).
Proof.
  induction g as [|u g IH]; [constructor|].
  cbn [concat]. apply (spaced_cons u g (concat g) false IH).
Qed.

Lemma spaced_flat_sp (g : list str) : g <> [] -> spaced g (concat g ++ [sp]).
Proof.
  induction g as [|u g IH]; intros H; [congruence|].
  destruct g as [|u2 g'].
  - cbn [concat]. rewrite app_nil_r. apply (spaced_cons u [] [] true). constructor.
  - cbn [concat] in *. rewrite <- app_assoc.
    apply (spaced_cons u (u2 :: g') _ false). apply IH. discriminate.
Qed.

(* the segmented text before splitting is such a string over the whole stream *)
Lemma spaced_groups (G : list (list str)) : Forall (fun g => g <> []) G ->
  spaced (concat G) (join [sp] (map (@concat char) G)).
Proof.
  induction G as [|g G IH]; intros H; [constructor|].
  inversion H as [|? ? Hg HG]; subst. specialize (IH HG).
  destruct G as [|g2 G'].
  - cbn [concat map join]. rewrite app_nil_r. apply spaced_flat.
  - cbn [map]. rewrite join_cons2. rewrite app_assoc.
    change (concat (g :: g2 :: G')) with (g ++ concat (g2 :: G')).
    apply spaced_app; [now apply spaced_flat_sp|exact IH].
Qed.

Lemma spaced_hd_ok (us : list str) (s : str) : Forall unit_ok us -> spaced us s -> hd_ok s.
Proof.
  intros Hok H. destruct H as [|u us s b H]; [exact I|].
  inversion Hok as [|? ? Hu _]; subst.
  destruct (unit_ok_hd u Hu) as [c [u' [-> Hc]]]. exact Hc.
Qed.

Lemma spaced_nonspace (u : str) (us : list str) (s : str) :
  unit_ok u -> spaced (u :: us) s -> exists c : char, In c s /\ is_space c = false.
Proof.
  intros Hu H. inversion H; subst.
  destruct (unit_ok_hd u Hu) as [c [u' [-> Hc]]]. exists c. split; [now left|exact Hc].
Qed.

Lemma unit_ok_nosp (u : str) : unit_ok u -> Forall (fun c => is_space c = false) u.
Proof. intros [_ H]. exact H. Qed.

Lemma spaced_despace (us : list str) (s : str) :
  Forall unit_ok us -> spaced us s -> despace s = concat us.
Proof.
  intros Hok H. induction H as [|u us s b H IH]; [reflexivity|].
  inversion Hok as [|? ? Hu Hus]; subst.
  rewrite !despace_app, despace_osp, (despace_nosp u (unit_ok_nosp u Hu)), (IH Hus). reflexivity.
Qed.

Lemma spaced_collapse (us : list str) (s : str) :
  Forall unit_ok us -> spaced us s -> collapse_spaces s = s.
Proof.
  intros Hok H. induction H as [|u us s b H IH]; [reflexivity|].
  inversion Hok as [|? ? Hu Hus]; subst. specialize (IH Hus).
  rewrite collapse_nosp_app by (now apply unit_ok_nosp). f_equal.
  destruct b; cbn [osp app]; [|exact IH].
  rewrite collapse_sp_cons by (now apply (spaced_hd_ok us)). now rewrite IH.
Qed.

(* stripping gives a segmentation of the units in the sense of Base/Seg.v *)
Lemma spaced_rstrip_seg (us : list str) (s : str) :
  Forall unit_ok us -> spaced us s -> is_seg us (rstrip s).
Proof.
  intros Hok H. induction H as [|u us s b H IH].
  - exists []. repeat split. constructor.
  - inversion Hok as [|? ? Hu Hus]; subst. specialize (IH Hus).
    destruct us as [|u2 us'].
    + inversion H; subst. rewrite app_nil_r, rstrip_unit_osp by exact Hu.
      exists [[u]]. repeat split.
      * constructor; [discriminate|constructor].
      * cbn [map join concat]. now rewrite app_nil_r.
    + assert (Hne : rstrip s <> []).
      { inversion Hus as [|? ? Hu2 _]; subst.
        destruct (spaced_nonspace u2 us' s Hu2 H) as [c [Hin Hc]]. now apply (rstrip_nonnil s c). }
      rewrite app_assoc, rstrip_app by exact Hne. rewrite <- app_assoc.
      destruct IH as [groups [Hcat [Hnn Hout]]].
      destruct groups as [|g gs]; [discriminate|]. rewrite Hout.
      inversion Hnn as [|? ? Hg Hgs]; subst.
      destruct b; cbn [osp app].
      * exists ([u] :: g :: gs). repeat split.
        -- cbn [concat app] in *. now rewrite Hcat.
        -- constructor; [discriminate|exact Hnn].
        -- cbn [map]. rewrite join_cons2. cbn [concat app]. now rewrite app_nil_r.
      * exists ((u :: g) :: gs). repeat split.
        -- cbn [concat app] in *. now rewrite Hcat.
        -- constructor; [discriminate|exact Hgs].
        -- cbn [map]. change (concat (u :: g)) with (u ++ concat g). now rewrite join_cons_app.
Qed.

Lemma spaced_strip_seg (us : list str) (s : str) (b : bool) :
  Forall unit_ok us -> spaced us s -> is_seg us (strip (osp b ++ s)).
Proof.
  intros Hok H. rewrite strip_osp by (now apply (spaced_hd_ok us)). now apply spaced_rstrip_seg.
Qed.

(* ---------- no occurrence of "UB" inside one rendered utterance ---------- *)

Lemma UB_unit_ok : unit_ok UB.
Proof. split; [discriminate|]. repeat constructor. Qed.

Lemma spaced_no_UB (us : list str) (s : str) (b : bool) :
  Forall unit_ok us -> infix_b UB (concat us) = false -> spaced us s ->
  infix_b UB (osp b ++ s) = false /\ infix_b UB ((osp b ++ s) ++ removelast UB) = false.
Proof.
  intros Hok Hfree H.
  assert (Hs : infix_b UB s = false).
  { apply infix_b2_despace; [reflexivity|reflexivity|].
    now rewrite (spaced_despace us s Hok H). }
  assert (Hb : infix_b UB (osp b ++ s) = false).
  { destruct b; cbn [osp app]; [|exact Hs].
    unfold UB. rewrite infix_b2_cons_neq by reflexivity. exact Hs. }
  split; [exact Hb|].
  change (removelast UB) with [85%N]. unfold UB in *.
  rewrite infix_b2_snoc_neq by reflexivity. exact Hb.
Qed.

(* ---------- splitting the rendered stream on "UB" ---------- *)

Theorem split_spaced_aligned : forall us : list (list str),
  us <> [] ->
  Forall (Forall unit_ok) us ->
  Forall (fun u => infix_b UB (concat u) = false) us ->
  forall (s : str) (b : bool),
  spaced (ujoin us) s ->
  aligned us (map strip (split_on UB (osp b ++ s))).
Proof.
  unfold aligned.
  induction us as [|u r IH]; intros Hne Hok Hfree s b H; [congruence|].
  inversion Hok as [|? ? Hu Hr]; subst. inversion Hfree as [|? ? Fu Fr]; subst.
  destruct r as [|u2 r'].
  - cbn [ujoin] in H.
    destruct (spaced_no_UB u s b Hu Fu H) as [Hn _].
    rewrite split_on_nomatch by exact Hn. cbn [map].
    constructor; [|constructor]. now apply spaced_strip_seg.
  - rewrite ujoin_cons2 in H.
    destruct (spaced_app_inv u (UB :: ujoin (u2 :: r')) s H) as [s1 [s' [E [H1 H']]]]. subst s.
    inversion H' as [|? ? s2 b2 H2]; subst.
    destruct (spaced_no_UB u s1 b Hu Fu H1) as [_ Hn].
    replace (osp b ++ s1 ++ UB ++ osp b2 ++ s2) with ((osp b ++ s1) ++ UB ++ (osp b2 ++ s2))
      by (now rewrite <- !app_assoc).
    unfold UB at 1 2. rewrite split_on_first by exact Hn. fold UB. cbn [map].
    constructor.
    + now apply spaced_strip_seg.
    + apply IH; [discriminate|exact Hr|exact Fr|exact H2].
Qed.

(* ---------- render over any grouping of the stream ---------- *)

Theorem render_aligned (us : list (list str)) (G : list (list str)) :
  us <> [] ->
  Forall (Forall unit_ok) us ->
  Forall (fun u => infix_b UB (concat u) = false) us ->
  concat G = ujoin us ->
  Forall (fun g => g <> []) G ->
  aligned us (render G).
Proof.
  intros Hne Hok Hfree Hcat Hnn. unfold render.
  assert (Hsp : spaced (ujoin us) (join [sp] (map (@concat char) G))).
  { rewrite <- Hcat. now apply spaced_groups. }
  assert (HU : Forall unit_ok (ujoin us)).
  { clear - Hok. induction us as [|u r IH]; [constructor|].
    inversion Hok as [|? ? Hu Hr]; subst. destruct r as [|u2 r']; [exact Hu|].
    rewrite ujoin_cons2. apply Forall_app. split; [exact Hu|].
    constructor; [apply UB_unit_ok|now apply IH]. }
  rewrite (spaced_collapse _ _ HU Hsp).
  apply (split_spaced_aligned us Hne Hok Hfree _ false Hsp).
Qed.

(* despace-level conservation of the whole text *)
Theorem render_despace (G : list (list str)) :
  Forall (fun g => g <> []) G -> Forall unit_ok (concat G) ->
  despace (collapse_spaces (join [sp] (map (@concat char) G))) = concat (concat G).
Proof.
  intros Hnn Hok. pose proof (spaced_groups G Hnn) as Hsp.
  rewrite (spaced_collapse _ _ Hok Hsp). now apply spaced_despace.
Qed.

(* ---------- the scans produce groupings of the stream ---------- *)

Lemma cwords_split_by (text : list str) (train_text : option (list str)) (t : thr) (d : dep)
      (cw : list (list str)) :
  cwords_of text train_text t d = Ok cw ->
  exists cut : nat -> bool, cw = split_by cut (units_of text).
Proof.
  unfold cwords_of. destruct t; intros H.
  - rewrite threshold_relative_spec in H. inversion H. eexists. reflexivity.
  - rewrite threshold_absolute_spec in H. inversion H. eexists. reflexivity.
Qed.

(* a non-empty stream is grouped into non-empty words; the empty stream gives
   the single empty word *)
Lemma cwords_grouping (text : list str) (train_text : option (list str)) (t : thr) (d : dep)
      (cw : list (list str)) :
  cwords_of text train_text t d = Ok cw ->
  concat cw = units_of text /\
  (units_of text <> [] -> Forall (fun g => g <> []) cw) /\
  (units_of text = [] -> cw = [[]]).
Proof.
  intros H. destruct (cwords_split_by _ _ _ _ _ H) as [cut ->]. repeat split.
  - apply split_by_concat.
  - intros HU. unfold split_by. apply split_from_nonempty. now left.
  - intros ->. reflexivity.
Qed.

Lemma render_empty_stream : render [[]] = [[]].
Proof. reflexivity. Qed.

(* ---------- C01 ---------- *)

Theorem tp_segment_aligned : forall (text : list str) (train_text : option (list str)) t d out,
  ub_free text ->
  segment text train_text t d = Ok out ->
  aligned (map utt_units text) out.
Proof.
  intros text train_text t d out Hfree H.
  destruct text as [|l r].
  { rewrite segment_empty in H. inversion H; subst. constructor. }
  rewrite segment_eq_render in H by discriminate.
  destruct (cwords_of (l :: r) train_text t d) as [cw|e] eqn:Ecw; [|discriminate].
  cbn [bind] in H. inversion H; subst out. clear H.
  destruct (cwords_grouping _ _ _ _ _ Ecw) as [Hcat [Hnn Hnil]].
  rewrite units_of_ujoin in Hcat, Hnn, Hnil.
  destruct (ujoin (map utt_units (l :: r))) as [|x U] eqn:EU.
  - (* every utterance is blank: there is exactly one, and the output is [''] *)
    rewrite (Hnil eq_refl), render_empty_stream.
    destruct r as [|l2 r'].
    + cbn [map ujoin] in EU |- *. rewrite EU.
      constructor; [|constructor]. exists []. repeat split. constructor.
    + cbn [map] in EU. rewrite ujoin_cons2 in EU. apply app_eq_nil in EU.
      destruct EU as [_ EU]. discriminate.
  - rewrite <- EU in Hcat. apply render_aligned.
    + discriminate.
    + apply Forall_forall. intros u Hin. apply in_map_iff in Hin. destruct Hin as [l0 [<- _]].
      apply split_ws_ok.
    + apply Forall_forall. intros u Hin. apply in_map_iff in Hin. destruct Hin as [l0 [<- Hl]].
      unfold ub_free in Hfree. rewrite Forall_forall in Hfree. now apply Hfree.
    + exact Hcat.
    + apply Hnn. discriminate.
Qed.

(* despace-level conservation for segment, without the ub_free hypothesis:
   nothing but spaces is added or removed before the split on "UB" *)
Theorem tp_segtext_despace : forall (text : list str) (train_text : option (list str)) t d cw,
  cwords_of text train_text t d = Ok cw ->
  despace (collapse_spaces (join [sp] (map (@concat char) cw))) = concat (units_of text).
Proof.
  intros text train_text t d cw H.
  destruct (cwords_grouping _ _ _ _ _ H) as [Hcat [Hnn Hnil]].
  destruct (units_of text) as [|x U] eqn:EU.
  - rewrite (Hnil eq_refl). reflexivity.
  - rewrite <- Hcat. apply render_despace; [apply Hnn; discriminate|].
    rewrite Hcat, <- EU. unfold units_of. apply split_ws_ok.
Qed.

(* ---------- the hypotheses are needed ---------- *)

(* 'a U B', relative mode: the three units form one word "aUB", which the split
   on the substring "UB" turns into two utterances 'a' and ''. *)
Example tp_ub_refuted :
  segment [S_ [97;32;85;32;66]%Z] None Relative Ftp = Ok [S_ [97]%Z; []].
Proof. vm_compute. reflexivity. Qed.

(* the same input in absolute mode happens to survive: both transitions are at
   the mean, so every boundary is cut and "U B" is never glued *)
Example tp_ub_absolute_value :
  segment [S_ [97;32;85;32;66]%Z] None Absolute Ftp = Ok [S_ [97;32;85;32;66]%Z].
Proof. vm_compute. reflexivity. Qed.

(* absolute mode, 'a U B a c' : U B is glued (tp above the mean) -> ['a', 'a c'] *)
Example tp_ub_refuted_absolute :
  segment [S_ [97;32;85;32;66;32;97;32;99]%Z] None Absolute Ftp
  = Ok [S_ [97]%Z; S_ [97;32;99]%Z].
Proof. vm_compute. reflexivity. Qed.

(* absolute mode, a unit that is the marker itself, 'a UB' -> ['a', ''] *)
Example tp_ub_unit_refuted :
  segment [S_ [97;32;85;66]%Z] None Absolute Ftp = Ok [S_ [97]%Z; []].
Proof. vm_compute. reflexivity. Qed.

Lemma not_aligned_1_2 (u : list str) (a b : str) : ~ aligned [u] [a; b].
Proof. unfold aligned. intros H. inversion H as [|? ? ? ? _ H']; subst. inversion H'. Qed.

(* so the conclusion of tp_segment_aligned fails for these inputs ... *)
Example tp_ub_refuted_not_aligned : forall out,
  segment [S_ [97;32;85;32;66]%Z] None Relative Ftp = Ok out ->
  ~ aligned (map utt_units [S_ [97;32;85;32;66]%Z]) out.
Proof.
  intros out H. rewrite tp_ub_refuted in H. inversion H; subst. apply not_aligned_1_2.
Qed.

(* ... and they are exactly the ones excluded by ub_free *)
Example tp_ub_refuted_not_free : ~ ub_free [S_ [97;32;85;32;66]%Z].
Proof. intros H. inversion H as [|? ? H1 _]; subst. vm_compute in H1. discriminate. Qed.

(* fewer than three units in relative mode: a single word (no IndexError any more) *)
Example tp_short_ok :
  segment [S_ [97;32;98]%Z] None Relative Ftp = Ok [S_ [97;98]%Z].
Proof. vm_compute. reflexivity. Qed.

Example tp_short_ok_aligned : aligned (map utt_units [S_ [97;32;98]%Z]) [S_ [97;98]%Z].
Proof.
  apply (tp_segment_aligned [S_ [97;32;98]%Z] None Relative Ftp); [|exact tp_short_ok].
  constructor; [vm_compute; reflexivity|constructor].
Qed.

(* the empty text and the one-blank-line text *)
Example tp_empty_ok : segment [] None Relative Ftp = Ok [].
Proof. reflexivity. Qed.

Example tp_blank_ok : segment [S_ [32]%Z] None Absolute Ftp = Ok [[]].
Proof. vm_compute. reflexivity. Qed.
