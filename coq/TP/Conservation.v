(* C01 for TP: the output of segment is, utterance by utterance, the input
   units with single spaces inserted only at unit boundaries.

   The utterance boundary marker is out of band (TP/Model.v: UB is the empty
   string, which no unit equals), so the property holds for EVERY text: the
   former hypothesis ub_free ("no utterance contains the characters UB") is gone. *)
From WS Require Import Base.Py Base.Str Base.Seg TP.Model TP.Proofs TP.StrLemmas.
Local Open Scope nat_scope.

Definition utt_units (l : str) : list str := split_ws (strip l).

(* ---------- the unit stream: utterances joined by the marker ---------- *)

Fixpoint ujoin (us : list (list str)) : list str :=
  match us with
  | [] => []
  | [u] => u
  | u :: r => u ++ UB :: ujoin r
  end.

Lemma ujoin_cons2 (u u2 : list str) (r : list (list str)) :
  ujoin (u :: u2 :: r) = u ++ UB :: ujoin (u2 :: r).
Proof. reflexivity. Qed.

(* what follows the current utterance in the stream *)
Definition utail (rest : list (list str)) : list str := concat (map (cons UB) rest).

Lemma ujoin_cons (u : list str) (r : list (list str)) : ujoin (u :: r) = u ++ utail r.
Proof.
  revert u. induction r as [|u2 r IH]; intros u.
  - cbn [ujoin utail map concat]. now rewrite app_nil_r.
  - rewrite ujoin_cons2, IH. reflexivity.
Qed.

(* str.split() ignores leading and trailing whitespace *)
Lemma tp_split_ws_lstrip (s : str) : split_ws (lstrip s) = split_ws s.
Proof.
  induction s as [|c s IH]; [reflexivity|].
  cbn [lstrip]. destruct (is_space c) eqn:Ec; [|reflexivity].
  rewrite IH. unfold split_ws. cbn [split_ws_go]. rewrite Ec. reflexivity.
Qed.

Lemma tp_split_ws_rev_lstrip (t : str) : split_ws (rev (lstrip t)) = split_ws (rev t).
Proof.
  induction t as [|c t IH]; [reflexivity|].
  cbn [lstrip]. destruct (is_space c) eqn:Ec; [|reflexivity].
  rewrite IH. cbn [rev]. rewrite split_ws_app by exact Ec.
  change (split_ws []) with (@nil str). now rewrite app_nil_r.
Qed.

Lemma tp_split_ws_strip (s : str) : split_ws (strip s) = split_ws s.
Proof.
  unfold strip, rstrip. rewrite tp_split_ws_rev_lstrip, rev_involutive. apply tp_split_ws_lstrip.
Qed.

Theorem units_of_ujoin (text : list str) : units_of text = ujoin (map utt_units text).
Proof.
  induction text as [|l r IH]; [reflexivity|].
  destruct r as [|l2 r'].
  - cbn [units_of map ujoin]. unfold utt_units. now rewrite tp_split_ws_strip.
  - change (units_of (l :: l2 :: r')) with (split_ws l ++ UB :: units_of (l2 :: r')).
    cbn [map]. rewrite ujoin_cons2. cbn [map] in IH. rewrite IH.
    change (utt_units l) with (split_ws (strip l)). now rewrite (tp_split_ws_strip l).
Qed.

(* ---------- no unit is the marker ---------- *)

Lemma is_ub_UB : is_ub UB = true.
Proof. reflexivity. Qed.

Lemma is_ub_nonnil (u : str) : u <> [] -> is_ub u = false.
Proof. destruct u as [|c u]; [congruence|reflexivity]. Qed.

Lemma utt_units_ok (l : str) : Forall unit_ok (utt_units l).
Proof. apply split_ws_ok. Qed.

Lemma utt_units_nonnil (l : str) : Forall (fun u : str => u <> []) (utt_units l).
Proof.
  eapply Forall_impl; [|apply utt_units_ok]. intros u Hu. now apply unit_ok_nonnil.
Qed.

Lemma utt_units_not_ub : forall l u, In u (utt_units l) -> is_ub u = false.
Proof.
  intros l u Hin. apply is_ub_nonnil.
  pose proof (utt_units_nonnil l) as H. rewrite Forall_forall in H. now apply H.
Qed.

(* ---------- render: the words of the current utterance are groups of its units ---------- *)

(* the finished words of the current utterance, as groups, after closing the word made of the units wg *)
Definition addg (wg : list str) (gs : list (list str)) : list (list str) :=
  match wg with [] => gs | _ => gs ++ [wg] end.

Lemma concat_addg (wg : list str) (gs : list (list str)) : concat (addg wg gs) = concat gs ++ wg.
Proof.
  destruct wg as [|x wg]; cbn [addg]; [now rewrite app_nil_r|].
  rewrite concat_app. cbn [concat]. now rewrite app_nil_r.
Qed.

Lemma addg_nonempty (wg : list str) (gs : list (list str)) :
  Forall (fun g : list str => g <> []) gs -> Forall (fun g : list str => g <> []) (addg wg gs).
Proof.
  intros H. destruct wg as [|x wg]; cbn [addg]; [exact H|].
  apply Forall_app. split; [exact H|]. constructor; [discriminate|constructor].
Qed.

(* an empty word is produced exactly by an empty group of units *)
Lemma close_word_groups (wg : list str) (gs : list (list str)) :
  Forall (fun u : str => u <> []) wg ->
  close_word (concat wg) (map (@concat char) gs) = map (@concat char) (addg wg gs).
Proof.
  intros H. destruct wg as [|x wg]; [reflexivity|].
  inversion H as [|? ? Hx _]; subst. destruct x as [|c x]; [congruence|].
  cbn [addg]. rewrite map_app. reflexivity.
Qed.

Lemma is_seg_groups (gs : list (list str)) :
  Forall (fun g : list str => g <> []) gs -> is_seg (concat gs) (join [sp] (map (@concat char) gs)).
Proof. intros H. exists gs. repeat split. exact H. Qed.

(* what is done with the result of one cword *)
Definition after_cword (G : list (list str)) (st : str * list str * list str) : list str :=
  let '(word, words, utts) := st in seg_cwords G (close_word word words) utts.

Lemma seg_cwords_cons (cw : list str) (G : list (list str)) (words utts : list str) :
  seg_cwords (cw :: G) words utts = after_cword G (seg_cword cw [] words utts).
Proof. reflexivity. Qed.

Lemma utail_nil_inv (cur : list str) (rest : list (list str)) :
  [] = cur ++ utail rest -> cur = [] /\ rest = [].
Proof.
  intros H. symmetry in H. apply app_eq_nil in H. destruct H as [Hc Hr].
  split; [exact Hc|]. destruct rest as [|u r]; [reflexivity|discriminate].
Qed.

(* The scan of one cword [cw], followed by the cwords [G].  State:
   [done]/[utts] the finished utterances and their outputs, [gs] the finished
   words of the current utterance, [wg] the units of the current word, [cur] the
   units of the current utterance still in the stream, [rest] the utterances
   after it.  [HG] is the statement for the following cwords. *)
Lemma seg_cword_aligned (G : list (list str))
  (HG : forall (done : list (list str)) (utts : list str) (gs : list (list str))
               (cur : list str) (rest : list (list str)),
      Forall2 is_seg done utts ->
      Forall (fun g : list str => g <> []) gs ->
      Forall (fun u : str => u <> []) cur ->
      Forall (Forall (fun u : str => u <> [])) rest ->
      concat G = cur ++ utail rest ->
      Forall2 is_seg (done ++ (concat gs ++ cur) :: rest) (seg_cwords G (map (@concat char) gs) utts)) :
  forall (cw : list str) (done : list (list str)) (utts : list str) (gs : list (list str))
         (wg cur : list str) (rest : list (list str)),
    Forall2 is_seg done utts ->
    Forall (fun g : list str => g <> []) gs ->
    Forall (fun u : str => u <> []) wg ->
    Forall (fun u : str => u <> []) cur ->
    Forall (Forall (fun u : str => u <> [])) rest ->
    cw ++ concat G = cur ++ utail rest ->
    Forall2 is_seg (done ++ (concat gs ++ wg ++ cur) :: rest)
            (after_cword G (seg_cword cw (concat wg) (map (@concat char) gs) utts)).
Proof.
  induction cw as [|u cw IH]; intros done utts gs wg cur rest Hdone Hgs Hwg Hcur Hrest Hst.
  - cbn [seg_cword after_cword]. rewrite close_word_groups by exact Hwg.
    rewrite app_assoc, <- concat_addg.
    apply HG; [exact Hdone|now apply addg_nonempty|exact Hcur|exact Hrest|exact Hst].
  - cbn [seg_cword]. destruct cur as [|x cur'].
    + (* the current utterance is exhausted: u is the marker *)
      destruct rest as [|u1 rest'].
      { cbn [app utail map concat] in Hst. discriminate. }
      cbn [utail map concat app] in Hst. fold (utail rest') in Hst.
      injection Hst as Hu Hst. subst u. rewrite is_ub_UB.
      inversion Hrest as [|? ? Hu1 Hrest']; subst.
      rewrite close_word_groups by exact Hwg.
      rewrite app_nil_r, <- concat_addg.
      replace (done ++ concat (addg wg gs) :: u1 :: rest')
        with ((done ++ [concat (addg wg gs)]) ++ (concat (@nil (list str)) ++ [] ++ u1) :: rest')
        by (cbn [concat app]; rewrite <- app_assoc; reflexivity).
      apply (IH (done ++ [concat (addg wg gs)]) _ [] [] u1 rest').
      * apply Forall2_app; [exact Hdone|]. constructor; [|constructor].
        apply is_seg_groups. now apply addg_nonempty.
      * constructor.
      * constructor.
      * exact Hu1.
      * exact Hrest'.
      * exact Hst.
    + (* the next unit of the current utterance joins the current word *)
      cbn [app] in Hst. injection Hst as Hu Hst. subst x.
      inversion Hcur as [|? ? Hu Hcur']; subst.
      rewrite (is_ub_nonnil u Hu).
      replace (concat wg ++ u) with (concat (wg ++ [u]))
        by (rewrite concat_app; cbn [concat]; now rewrite app_nil_r).
      replace (concat gs ++ wg ++ u :: cur') with (concat gs ++ (wg ++ [u]) ++ cur')
        by (rewrite <- (app_assoc wg); reflexivity).
      apply IH; [exact Hdone|exact Hgs| |exact Hcur'|exact Hrest|exact Hst].
      apply Forall_app. split; [exact Hwg|]. constructor; [exact Hu|constructor].
Qed.

Lemma seg_cwords_aligned : forall (G : list (list str))
    (done : list (list str)) (utts : list str) (gs : list (list str))
    (cur : list str) (rest : list (list str)),
  Forall2 is_seg done utts ->
  Forall (fun g : list str => g <> []) gs ->
  Forall (fun u : str => u <> []) cur ->
  Forall (Forall (fun u : str => u <> [])) rest ->
  concat G = cur ++ utail rest ->
  Forall2 is_seg (done ++ (concat gs ++ cur) :: rest) (seg_cwords G (map (@concat char) gs) utts).
Proof.
  induction G as [|cw G IH]; intros done utts gs cur rest Hdone Hgs Hcur Hrest Hst.
  - cbn [concat] in Hst. destruct (utail_nil_inv cur rest Hst) as [-> ->].
    cbn [seg_cwords]. rewrite app_nil_r.
    apply Forall2_app; [exact Hdone|]. constructor; [|constructor]. now apply is_seg_groups.
  - rewrite seg_cwords_cons.
    change (@nil char) with (concat (@nil str)).
    change (concat gs ++ cur) with (concat gs ++ [] ++ cur).
    apply (seg_cword_aligned G IH); try assumption. constructor.
Qed.

(* ---------- render over any grouping of the stream (empty groups allowed) ---------- *)

Theorem render_aligned (us : list (list str)) (G : list (list str)) :
  us <> [] ->
  Forall (Forall (fun u : str => u <> [])) us ->
  concat G = ujoin us ->
  aligned us (render G).
Proof.
  intros Hne Hok Hcat. destruct us as [|u r]; [congruence|].
  inversion Hok as [|? ? Hu Hr]; subst.
  rewrite ujoin_cons in Hcat. unfold aligned, render.
  apply (seg_cwords_aligned G [] [] [] u r); try assumption; constructor.
Qed.

(* ---------- the scans produce groupings of the stream ---------- *)

Lemma cwords_split_by (text : list str) (train_text : option (list str)) (t : thr) (d : dep)
      (cw : list (list str)) :
  cwords_of text train_text t d = Ok cw ->
  exists cut : nat -> bool, cw = split_by cut (units_of text).
Proof.
  unfold cwords_of. destruct t; intros H.
  - rewrite threshold_relative_spec in H. inversion H. eexists. reflexivity.
  - rewrite threshold_absolute_spec in H. inversion H. eexists. reflexivity.
Qed.

(* a non-empty stream is grouped into non-empty words; the empty stream gives
   the single empty word *)
Lemma cwords_grouping (text : list str) (train_text : option (list str)) (t : thr) (d : dep)
      (cw : list (list str)) :
  cwords_of text train_text t d = Ok cw ->
  concat cw = units_of text /\
  (units_of text <> [] -> Forall (fun g => g <> []) cw) /\
  (units_of text = [] -> cw = [[]]).
Proof.
  intros H. destruct (cwords_split_by _ _ _ _ _ H) as [cut ->]. repeat split.
  - apply split_by_concat.
  - intros HU. unfold split_by. apply split_from_nonempty. now left.
  - intros ->. reflexivity.
Qed.

Lemma render_empty_stream : render [[]] = [[]].
Proof. reflexivity. Qed.

(* ---------- C01 ---------- *)

Theorem tp_segment_aligned : forall (text : list str) (train_text : option (list str)) t d out,
  segment text train_text t d = Ok out ->
  aligned (map utt_units text) out.
Proof.
  intros text train_text t d out H.
  destruct text as [|l r].
  { rewrite segment_empty in H. inversion H; subst. constructor. }
  rewrite segment_eq_render in H by discriminate.
  destruct (cwords_of (l :: r) train_text t d) as [cw|e] eqn:Ecw; [|discriminate].
  cbn [bind] in H. inversion H; subst out. clear H.
  destruct (cwords_grouping _ _ _ _ _ Ecw) as [Hcat _].
  rewrite units_of_ujoin in Hcat.
  apply render_aligned; [discriminate| |exact Hcat].
  apply Forall_forall. intros u Hin. apply in_map_iff in Hin. destruct Hin as [l0 [<- _]].
  apply utt_units_nonnil.
Qed.

Lemma Forall2_same_length {A B} (R : A -> B -> Prop) (l : list A) (m : list B) :
  Forall2 R l m -> length l = length m.
Proof. intros H. induction H as [|x y l m _ _ IH]; [reflexivity|]. cbn [length]. now rewrite IH. Qed.

(* one output utterance per input line *)
Theorem tp_segment_length : forall (text : list str) (train_text : option (list str)) t d out,
  segment text train_text t d = Ok out -> length out = length text.
Proof.
  intros text train_text t d out H. apply tp_segment_aligned in H.
  apply Forall2_same_length in H. rewrite map_length in H. now symmetry.
Qed.

(* ---------- despace-level conservation: nothing but spaces is added or removed ---------- *)

Lemma unit_ok_nosp (u : str) : unit_ok u -> Forall (fun c => is_space c = false) u.
Proof. intros [_ H]. exact H. Qed.

Lemma despace_concat_ok (g : list str) : Forall unit_ok g -> despace (concat g) = concat g.
Proof.
  induction g as [|u g IH]; intros H; [reflexivity|].
  inversion H as [|? ? Hu Hg]; subst. cbn [concat].
  rewrite despace_app, (despace_nosp u (unit_ok_nosp u Hu)), (IH Hg). reflexivity.
Qed.

Lemma despace_join_sp (l : list str) : despace (join [sp] l) = concat (map despace l).
Proof.
  induction l as [|x l IH]; [reflexivity|].
  destruct l as [|y l'].
  - cbn [join map concat]. now rewrite app_nil_r.
  - rewrite join_cons2, !despace_app, IH. reflexivity.
Qed.

Lemma is_seg_despace (units : list str) (out : str) :
  Forall unit_ok units -> is_seg units out -> despace out = concat units.
Proof.
  intros Hok [groups [Hcat [_ ->]]]. subst units.
  rewrite despace_join_sp. apply Forall_concat in Hok.
  induction groups as [|g gs IH]; [reflexivity|].
  inversion Hok as [|? ? Hg Hgs]; subst. cbn [map concat].
  rewrite (despace_concat_ok g Hg), (IH Hgs), concat_app. reflexivity.
Qed.

Lemma aligned_despace (text : list str) (out : list str) :
  aligned (map utt_units text) out ->
  map despace out = map (fun l => concat (utt_units l)) text.
Proof.
  unfold aligned. revert out. induction text as [|l r IH]; intros out H.
  - inversion H; subst. reflexivity.
  - cbn [map] in H. inversion H as [|? o ? outs Hseg Hr]; subst. cbn [map].
    rewrite (is_seg_despace _ _ (utt_units_ok l) Hseg), (IH outs Hr). reflexivity.
Qed.

Theorem tp_segment_despace : forall (text : list str) (train_text : option (list str)) t d out,
  segment text train_text t d = Ok out ->
  map despace out = map (fun l => concat (utt_units l)) text.
Proof.
  intros text train_text t d out H. apply aligned_despace.
  now apply (tp_segment_aligned text train_text t d).
Qed.

(* ---------- the repaired behaviour on texts that contain the characters "UB" ---------- *)

(* 'a U B', relative mode: the three units form a single word 'aUB', in ONE utterance
   (the in-band marker used to split it into 'a' and '') *)
Example tp_ub_units_ok :
  segment [S_ [97;32;85;32;66]%Z] None Relative Ftp = Ok [S_ [97;85;66]%Z].
Proof. vm_compute. reflexivity. Qed.

Example tp_ub_units_ok_aligned :
  aligned (map utt_units [S_ [97;32;85;32;66]%Z]) [S_ [97;85;66]%Z].
Proof. exact (tp_segment_aligned _ None Relative Ftp _ tp_ub_units_ok). Qed.

(* the same input in absolute mode *)
Example tp_ub_absolute_value :
  segment [S_ [97;32;85;32;66]%Z] None Absolute Ftp = Ok [S_ [97;32;85;32;66]%Z].
Proof. vm_compute. reflexivity. Qed.

(* absolute mode, 'a U B a c' -> 'a UBa c': one utterance (it used to be split into 'a' and 'a c') *)
Example tp_ub_glued_absolute_ok :
  segment [S_ [97;32;85;32;66;32;97;32;99]%Z] None Absolute Ftp
  = Ok [S_ [97;32;85;66;97;32;99]%Z].
Proof. vm_compute. reflexivity. Qed.

(* absolute mode, a unit that is the former marker itself, 'a UB': one utterance *)
Example tp_ub_unit_value :
  segment [S_ [97;32;85;66]%Z] None Absolute Ftp = Ok [S_ [97;32;85;66]%Z].
Proof. vm_compute. reflexivity. Qed.

Example tp_ub_unit_ok :
  exists out, segment [S_ [97;32;85;66]%Z] None Absolute Ftp = Ok out /\ length out = 1.
Proof. eexists. split; [exact tp_ub_unit_value|reflexivity]. Qed.

(* two utterances, the second one blank: the marker still separates them *)
Example tp_two_utts_ok :
  segment [S_ [97;32;98]%Z; S_ [32]%Z] None Absolute Ftp = Ok [S_ [97;32;98]%Z; []].
Proof. vm_compute. reflexivity. Qed.

(* three utterances, the middle one blank: 'a b c', ' ', 'a b' -> 'ab c', '', 'ab' *)
Example tp_three_utts_ok :
  segment [S_ [97;32;98;32;99]%Z; S_ [32]%Z; S_ [97;32;98]%Z] None Relative Ftp
  = Ok [S_ [97;98;32;99]%Z; []; S_ [97;98]%Z].
Proof. vm_compute. reflexivity. Qed.

(* fewer than three units in relative mode: a single word (no IndexError any more) *)
Example tp_short_ok :
  segment [S_ [97;32;98]%Z] None Relative Ftp = Ok [S_ [97;98]%Z].
Proof. vm_compute. reflexivity. Qed.

Example tp_short_ok_aligned : aligned (map utt_units [S_ [97;32;98]%Z]) [S_ [97;98]%Z].
Proof. exact (tp_segment_aligned [S_ [97;32;98]%Z] None Relative Ftp _ tp_short_ok). Qed.

(* the empty text and the one-blank-line text *)
Example tp_empty_ok : segment [] None Relative Ftp = Ok [].
Proof. reflexivity. Qed.

Example tp_blank_ok : segment [S_ [32]%Z] None Absolute Ftp = Ok [[]].
Proof. vm_compute. reflexivity. Qed.
