(* Proofs about the Python side of wordseg/algos/dpseg.py (property C03):
   the unit -> code point recoding is injective and never yields whitespace,
   _dpseg_bugfix only moves fold starts forward onto lines that do not have
   exactly one symbol, every fold starts with such a line, and the pipeline
   returns the input with only spaces added when the program obeys its
   contract.  Stdlib only. *)
From WS Require Import Base.Py Base.Str Base.Seg Base.ListX Folding.Model Folding.Proofs Dpseg.Model.
From Coq Require Import Sorting.Sorted.
Local Open Scope nat_scope.

(* ================================================================== *)
(** * Generic facts: mapM, Forall2, nth_error *)

Lemma mapM_Forall2 {A B : Type} (f : A -> result B) (l : list A) (r : list B) :
  mapM f l = Ok r <-> Forall2 (fun (x : A) (y : B) => f x = Ok y) l r.
Proof.
  revert r; induction l as [|x l IH]; intros r; cbn [mapM]; split; intros H.
  - inversion H; constructor.
  - inversion H; reflexivity.
  - destruct (f x) as [y|e] eqn:E; cbn [bind] in H; [|discriminate].
    destruct (mapM f l) as [ys|e] eqn:E2; cbn [bind] in H; [|discriminate].
    inversion H; subst. constructor; [exact E|]. apply IH. reflexivity.
  - inversion H as [|? y ? ys Hy Hys]; subst. rewrite Hy. cbn [bind].
    apply IH in Hys. rewrite Hys. reflexivity.
Qed.

Lemma mapM_raise {A B : Type} (f : A -> result B) (l : list A) (e : exn) :
  mapM f l = Raise e -> exists x : A, In x l /\ f x = Raise e.
Proof.
  induction l as [|x l IH]; cbn [mapM]; intros H; [discriminate|].
  destruct (f x) as [y|e'] eqn:E; cbn [bind] in H.
  - destruct (mapM f l) as [ys|e''] eqn:E2; cbn [bind] in H; [discriminate|].
    inversion H; subst. destruct (IH eq_refl) as [z [Hz Hf]].
    exists z. split; [now right|exact Hf].
  - inversion H; subst. exists x. split; [now left|exact E].
Qed.

Lemma mapM_total {A B : Type} (f : A -> result B) (l : list A) :
  Forall (fun x : A => exists y : B, f x = Ok y) l -> exists r : list B, mapM f l = Ok r.
Proof.
  induction 1 as [|x l [y Hy] _ [r Hr]]; [exists []; reflexivity|].
  exists (y :: r). cbn [mapM]. rewrite Hy. cbn [bind]. rewrite Hr. reflexivity.
Qed.

Lemma mapM_app {A B : Type} (f : A -> result B) (l1 l2 : list A) (r1 r2 : list B) :
  mapM f l1 = Ok r1 -> mapM f l2 = Ok r2 -> mapM f (l1 ++ l2) = Ok (r1 ++ r2).
Proof.
  intros H1 H2. apply mapM_Forall2. apply mapM_Forall2 in H1. apply mapM_Forall2 in H2.
  now apply Forall2_app.
Qed.

Lemma mapM_app_inv {A B : Type} (f : A -> result B) (l1 l2 : list A) (r : list B) :
  mapM f (l1 ++ l2) = Ok r ->
  exists r1 r2 : list B, r = r1 ++ r2 /\ mapM f l1 = Ok r1 /\ mapM f l2 = Ok r2.
Proof.
  intros H. apply mapM_Forall2 in H. apply Forall2_app_inv_l in H.
  destruct H as (r1 & r2 & H1 & H2 & ->). exists r1, r2.
  split; [reflexivity|]. split; now apply mapM_Forall2.
Qed.

Lemma Forall2_length_ {A B : Type} (R : A -> B -> Prop) (l : list A) (l' : list B) :
  Forall2 R l l' -> length l = length l'.
Proof. induction 1; cbn [length]; congruence. Qed.

Lemma nth_error_skipn_ {A : Type} (n k : nat) (l : list A) :
  nth_error (skipn n l) k = nth_error l (n + k).
Proof.
  revert l; induction n as [|n IH]; intros l; [reflexivity|].
  destruct l as [|x l]; cbn [skipn plus nth_error].
  - now destruct k.
  - apply IH.
Qed.

Lemma nth_error_skipn_cons {A : Type} (n : nat) (l : list A) (x : A) :
  nth_error l n = Some x -> skipn n l = x :: skipn (S n) l.
Proof.
  revert l; induction n as [|n IH]; intros [|y l] H; cbn [nth_error] in H; try discriminate.
  - inversion H; reflexivity.
  - cbn [skipn]. rewrite (IH l H). reflexivity.
Qed.

(* ================================================================== *)
(** * 1. UnicodeGenerator: the recoding is injective and whitespace-free *)

(* bounded universal quantification over N, computable by vm_compute *)
Definition forallN (f : N -> bool) (n : N) : bool :=
  N.peano_rect (fun _ : N => bool) true (fun (k : N) (acc : bool) => f k && acc) n.

Lemma forallN_spec (f : N -> bool) (n : N) :
  forallN f n = true -> forall k : N, (k < n)%N -> f k = true.
Proof.
  induction n as [|n IH] using N.peano_ind; intros H k Hk.
  - lia.
  - unfold forallN in H. rewrite N.peano_rect_succ in H. fold (forallN f n) in H.
    apply andb_prop in H. destruct H as [H1 H2].
    destruct (N.eq_dec k n) as [->|Hne]; [exact H1|]. apply IH; [exact H2|lia].
Qed.

(* U+3000 is the largest whitespace code point *)
Lemma is_space_le (c : char) : is_space c = true -> (c <= 12288)%N.
Proof.
  unfold is_space. intros H.
  repeat (apply orb_prop in H; destruct H as [H|H]);
    try (apply andb_prop in H; destruct H as [H1 H2]; apply N.leb_le in H1, H2; lia);
    try (apply N.eqb_eq in H; lia).
Qed.

Lemma is_surrogate_range (c : char) : is_surrogate c = true -> (55296 <= c <= 57343)%N.
Proof.
  unfold is_surrogate. intros H. apply andb_prop in H. destruct H as [H1 H2].
  apply N.leb_le in H1, H2. lia.
Qed.

Definition nc_ok (idx : N) : bool :=
  let p := next_char idx in
  negb (skipped (fst p)) && (idx <=? fst p)%N && (snd p =? fst p + 1)%N.

Lemma nc_ok_small : forallN nc_ok 12289 = true.
Proof. vm_compute. reflexivity. Qed.

Lemma next_char_fuel_S (f : nat) (idx : N) :
  next_char_fuel (S f) idx
  = if is_space idx then next_char_fuel f (idx + 1)%N else (idx, (idx + 1)%N).
Proof. reflexivity. Qed.

Lemma next_char_nonspace (idx : N) :
  is_space idx = false -> is_surrogate idx = false -> next_char idx = (idx, (idx + 1)%N).
Proof. intros H Hs. unfold next_char. rewrite Hs, next_char_fuel_S, H. reflexivity. Qed.

Lemma next_char_surrogate (idx : N) : is_surrogate idx = true -> next_char idx = (57344, 57345)%N.
Proof. intros Hs. unfold next_char. rewrite Hs. vm_compute. reflexivity. Qed.

Lemma nc_ok_all (idx : N) : nc_ok idx = true.
Proof.
  destruct (N.lt_ge_cases idx 12289) as [Hlt|Hge].
  - exact (forallN_spec nc_ok 12289 nc_ok_small idx Hlt).
  - assert (Hs : is_space idx = false).
    { destruct (is_space idx) eqn:E; [|reflexivity]. apply is_space_le in E. lia. }
    destruct (is_surrogate idx) eqn:Hg.
    + apply is_surrogate_range in Hg. unfold nc_ok. rewrite (next_char_surrogate idx).
      * cbn [fst snd]. replace (skipped 57344) with false by (vm_compute; reflexivity).
        cbn [negb andb]. apply andb_true_intro. split; [apply N.leb_le; lia|reflexivity].
      * unfold is_surrogate. apply andb_true_intro. split; apply N.leb_le; lia.
    + unfold nc_ok. rewrite (next_char_nonspace idx Hs Hg). cbn [fst snd].
      unfold skipped. rewrite Hs, Hg. cbn [orb negb andb].
      rewrite N.leb_refl, N.eqb_refl. reflexivity.
Qed.

Theorem next_char_not_skipped : forall idx : N, skipped (fst (next_char idx)) = false.
Proof.
  intros idx. pose proof (nc_ok_all idx) as H. unfold nc_ok in H. cbn zeta in H.
  apply andb_prop in H. destruct H as [H _]. apply andb_prop in H. destruct H as [H _].
  now apply negb_true_iff in H.
Qed.

Theorem next_char_no_space : forall idx : N, is_space (fst (next_char idx)) = false.
Proof.
  intros idx. pose proof (next_char_not_skipped idx) as H. unfold skipped in H.
  apply orb_false_iff in H. exact (proj1 H).
Qed.

(* the code points handed to the program can be utf8 encoded (none is a surrogate) *)
Theorem next_char_no_surrogate : forall idx : N, is_surrogate (fst (next_char idx)) = false.
Proof.
  intros idx. pose proof (next_char_not_skipped idx) as H. unfold skipped in H.
  apply orb_false_iff in H. exact (proj2 H).
Qed.

(* the closed form is the loop of UnicodeGenerator.__call__ *)
Definition loop_eq_b (idx : N) : bool :=
  let a := next_char_loop idx in let b := next_char idx in (fst a =? fst b)%N && (snd a =? snd b)%N.
Lemma loop_eq_small : forallN loop_eq_b 57344 = true.
Proof. vm_compute. reflexivity. Qed.
Lemma next_char_loop_fuel_S (f : nat) (idx : N) :
  next_char_loop_fuel (S f) idx
  = if skipped idx then next_char_loop_fuel f (idx + 1)%N else (idx, (idx + 1)%N).
Proof. reflexivity. Qed.
Theorem next_char_loop_eq : forall idx : N, next_char_loop idx = next_char idx.
Proof.
  intros idx. destruct (N.lt_ge_cases idx 57344) as [Hlt|Hge].
  - pose proof (forallN_spec loop_eq_b 57344 loop_eq_small idx Hlt) as H. unfold loop_eq_b in H. cbn zeta in H.
    apply andb_prop in H. destruct H as [H1 H2]. apply N.eqb_eq in H1, H2.
    destruct (next_char_loop idx), (next_char idx). cbn [fst snd] in *. now subst.
  - assert (Hs : is_space idx = false).
    { destruct (is_space idx) eqn:E; [|reflexivity]. apply is_space_le in E. lia. }
    assert (Hg : is_surrogate idx = false).
    { destruct (is_surrogate idx) eqn:E; [|reflexivity]. apply is_surrogate_range in E. lia. }
    rewrite (next_char_nonspace idx Hs Hg). unfold next_char_loop. change 2064 with (S 2063).
    rewrite next_char_loop_fuel_S. unfold skipped at 1. rewrite Hs, Hg. reflexivity.
Qed.

Theorem next_char_ge : forall idx : N,
  (idx <= fst (next_char idx))%N /\ snd (next_char idx) = (fst (next_char idx) + 1)%N.
Proof.
  intros idx. pose proof (nc_ok_all idx) as H. unfold nc_ok in H. cbn zeta in H.
  apply andb_prop in H. destruct H as [H H3]. apply andb_prop in H. destruct H as [_ H2].
  split; [now apply N.leb_le|now apply N.eqb_eq].
Qed.

Lemma build_mapping_cons (u : str) (r : list str) (idx : N) :
  build_mapping (u :: r) idx
  = (u, fst (next_char idx)) :: build_mapping r (fst (next_char idx) + 1)%N.
Proof.
  cbn [build_mapping]. destruct (next_char_ge idx) as [_ H].
  destruct (next_char idx) as [c idx']. cbn [fst snd] in *. now subst.
Qed.

(* the code points are handed out in strictly increasing order, from idx on *)
Theorem build_mapping_increasing : forall (order : list str) (idx : N),
  StronglySorted N.lt (map snd (build_mapping order idx)) /\
  Forall (fun c : N => (idx <= c)%N) (map snd (build_mapping order idx)).
Proof.
  induction order as [|u r IH]; intros idx.
  - cbn [build_mapping map]. split; constructor.
  - rewrite build_mapping_cons. cbn [map snd].
    destruct (next_char_ge idx) as [Hge _]. set (c := fst (next_char idx)) in *.
    destruct (IH (c + 1)%N) as [Hs Hf]. split.
    + constructor; [exact Hs|]. eapply Forall_impl; [|exact Hf]. cbn beta. intros a Ha. lia.
    + constructor; [exact Hge|]. eapply Forall_impl; [|exact Hf]. cbn beta. intros a Ha. lia.
Qed.

Lemma StronglySorted_lt_NoDup (l : list N) : StronglySorted N.lt l -> NoDup l.
Proof.
  induction 1 as [|x l Hs IH Hf]; constructor; [|exact IH].
  intros Hin. rewrite Forall_forall in Hf. specialize (Hf x Hin). lia.
Qed.

Theorem unicode_mapping_injective : forall order : list str,
  NoDup (map snd (unicode_mapping order)).
Proof.
  intros order. apply StronglySorted_lt_NoDup. apply build_mapping_increasing.
Qed.

Lemma build_mapping_no_space (order : list str) (idx : N) :
  Forall (fun kc : str * N => is_space (snd kc) = false) (build_mapping order idx).
Proof.
  revert idx; induction order as [|u r IH]; intros idx; [constructor|].
  rewrite build_mapping_cons. constructor; [apply next_char_no_space|apply IH].
Qed.

Theorem unicode_mapping_no_space : forall order : list str,
  Forall (fun kc : str * N => is_space (snd kc) = false) (unicode_mapping order).
Proof. intros order. apply build_mapping_no_space. Qed.

Lemma build_mapping_no_surrogate (order : list str) (idx : N) :
  Forall (fun kc : str * N => is_surrogate (snd kc) = false) (build_mapping order idx).
Proof.
  revert idx. induction order as [|u r IH]; intros idx; [constructor|].
  rewrite build_mapping_cons. constructor; [apply next_char_no_surrogate|apply IH].
Qed.

(* every unit is recoded to a code point that utf8 can encode: the text always reaches the program *)
Theorem unicode_mapping_no_surrogate : forall order : list str,
  Forall (fun kc : str * N => is_surrogate (snd kc) = false) (unicode_mapping order).
Proof. intros order. apply build_mapping_no_surrogate. Qed.

(* the 52296th unit onwards: the code points jump over U+D800..U+DFFF *)
Example next_char_jumps_surrogates : next_char 55296 = (57344, 57345)%N /\ next_char 55295 = (55295, 55296)%N.
Proof. vm_compute. split; reflexivity. Qed.

Lemma build_mapping_keys (order : list str) (idx : N) :
  map fst (build_mapping order idx) = order.
Proof.
  revert idx; induction order as [|u r IH]; intros idx; [reflexivity|].
  rewrite build_mapping_cons. cbn [map fst]. now rewrite IH.
Qed.

Theorem unicode_mapping_keys : forall order : list str,
  map fst (unicode_mapping order) = order.
Proof. intros order. apply build_mapping_keys. Qed.

(* every code point is at least U+0BB9 = 3001 *)
Theorem unicode_mapping_ge : forall order : list str,
  Forall (fun kc : str * N => (3001 <= snd kc)%N) (unicode_mapping order).
Proof.
  intros order. destruct (build_mapping_increasing order 3001%N) as [_ H].
  rewrite Forall_map in H. exact H.
Qed.

(* ================================================================== *)
(** * 2. Encoding / decoding round trip *)

(* what the proofs need from the mapping: injective, whitespace-free codes *)
Definition good_map (m : list (str * N)) : Prop :=
  NoDup (map snd m) /\ Forall (fun kc : str * N => is_space (snd kc) = false) m.

Lemma unicode_mapping_good (order : list str) : good_map (unicode_mapping order).
Proof. split; [apply unicode_mapping_injective|apply unicode_mapping_no_space]. Qed.

Lemma nonspace_neq_sp (c : char) : is_space c = false -> (c =? sp)%N = false.
Proof.
  intros H. destruct (N.eqb_spec c sp) as [E|E]; [|reflexivity].
  subst c. discriminate H.
Qed.

Lemma lookup_in (m : list (str * N)) (u : str) (c : N) : lookup m u = Ok c -> In (u, c) m.
Proof.
  induction m as [|[k c'] r IH]; cbn [lookup]; [discriminate|].
  destruct (str_eqb_spec u k) as [->|Hne]; intros H.
  - inversion H; subst. now left.
  - right. now apply IH.
Qed.

Lemma lookup_total (m : list (str * N)) (u : str) :
  In u (map fst m) -> exists c : N, lookup m u = Ok c.
Proof.
  induction m as [|[k c'] r IH]; cbn [map fst lookup]; intros H; [destruct H|].
  destruct (str_eqb_spec u k) as [->|Hne]; [now exists c'|].
  destruct H as [E|H]; [congruence|]. now apply IH.
Qed.

Lemma lookup_raise (m : list (str * N)) (u : str) (e : exn) :
  lookup m u = Raise e -> e = KeyError /\ ~ In u (map fst m).
Proof.
  induction m as [|[k c'] r IH]; cbn [map fst lookup]; intros H.
  - inversion H. split; [reflexivity|]. intros [].
  - destruct (str_eqb_spec u k) as [->|Hne]; [discriminate|].
    destruct (IH H) as [He Hn]. split; [exact He|]. intros [E|Hin]; [congruence|auto].
Qed.

Lemma rlookup_in (m : list (str * N)) (u : str) (c : N) :
  NoDup (map snd m) -> In (u, c) m -> rlookup m c = Ok u.
Proof.
  induction m as [|[k c'] r IH]; intros Hnd Hin; [destruct Hin|].
  cbn [rlookup]. cbn [map snd] in Hnd. inversion Hnd as [|? ? Hni Hnd']; subst.
  destruct Hin as [E|Hin].
  - inversion E; subst. rewrite N.eqb_refl. reflexivity.
  - destruct (N.eqb_spec c c') as [->|Hne]; [|now apply IH].
    exfalso. apply Hni. apply in_map_iff. exists (u, c'). split; [reflexivity|exact Hin].
Qed.

Lemma rlookup_raise (m : list (str * N)) (c : N) (e : exn) : rlookup m c = Raise e -> e = KeyError.
Proof.
  induction m as [|[k c'] r IH]; cbn [rlookup]; intros H; [now inversion H|].
  destruct (c =? c')%N; [discriminate|now apply IH].
Qed.

(* the inverted dictionary sends a unit's code point back to the unit *)
Theorem lookup_rlookup : forall (m : list (str * N)) (u : str) (c : N),
  NoDup (map snd m) -> lookup m u = Ok c -> rlookup (rev m) c = Ok u.
Proof.
  intros m u c Hnd H. apply rlookup_in.
  - rewrite map_rev. now apply NoDup_rev.
  - apply in_rev. rewrite rev_involutive. now apply lookup_in.
Qed.

Theorem decode_char_sp : forall m : list (str * N), decode_char m sp = Ok [sp].
Proof. intros m. unfold decode_char. rewrite N.eqb_refl. reflexivity. Qed.

Lemma decode_char_code (m : list (str * N)) (u : str) (c : N) :
  good_map m -> lookup m u = Ok c -> decode_char m c = Ok u.
Proof.
  intros [Hnd Hsp] H. unfold decode_char.
  assert (Hc : is_space c = false).
  { rewrite Forall_forall in Hsp. exact (Hsp (u, c) (lookup_in m u c H)). }
  rewrite (nonspace_neq_sp c Hc). now apply lookup_rlookup.
Qed.

Lemma decode_char_raise (m : list (str * N)) (c : N) (e : exn) :
  decode_char m c = Raise e -> e = KeyError.
Proof.
  unfold decode_char. destruct (c =? sp)%N; [discriminate|]. apply rlookup_raise.
Qed.

Lemma decode_chars (m : list (str * N)) (us : list str) (e : str) :
  good_map m -> Forall2 (fun (u : str) (c : N) => lookup m u = Ok c) us e ->
  mapM (decode_char m) e = Ok us.
Proof.
  intros Hm H. apply mapM_Forall2. induction H as [|u c us e Hu _ IH]; constructor.
  - now apply decode_char_code.
  - exact IH.
Qed.

Lemma decode_units (m : list (str * N)) (us : list str) (e : str) :
  good_map m -> Forall2 (fun (u : str) (c : N) => lookup m u = Ok c) us e ->
  decode_utt m e = Ok (concat us).
Proof. intros Hm H. unfold decode_utt. now rewrite (decode_chars m us e Hm H). Qed.

(* without the program: decoding an encoded utterance glues its units *)
Theorem encode_decode : forall (m : list (str * N)) (utt e : str),
  good_map m -> encode_utt m utt = Ok e -> decode_utt m e = Ok (concat (split_ws utt)).
Proof.
  intros m utt e Hm H. apply decode_units; [exact Hm|]. now apply mapM_Forall2.
Qed.

Lemma decode_utt_nil (m : list (str * N)) : decode_utt m [] = Ok [].
Proof. reflexivity. Qed.

Lemma decode_utt_sp (m : list (str * N)) : decode_utt m [sp] = Ok [sp].
Proof. unfold decode_utt. cbn [mapM]. rewrite decode_char_sp. reflexivity. Qed.

Lemma decode_utt_app (m : list (str * N)) (a b x y : str) :
  decode_utt m a = Ok x -> decode_utt m b = Ok y -> decode_utt m (a ++ b) = Ok (x ++ y).
Proof.
  unfold decode_utt. intros Ha Hb.
  destruct (mapM (decode_char m) a) as [la|ea] eqn:Ea; cbn [bind] in Ha; [|discriminate].
  destruct (mapM (decode_char m) b) as [lb|eb] eqn:Eb; cbn [bind] in Hb; [|discriminate].
  assert (Q : mapM (decode_char m) (a ++ b) = Ok (la ++ lb)) by (now apply mapM_app).
  rewrite Q. cbn [bind]. rewrite concat_app. congruence.
Qed.

Lemma decode_utt_raise (m : list (str * N)) (s : str) (e : exn) :
  decode_utt m s = Raise e -> e = KeyError.
Proof.
  unfold decode_utt. intros H.
  destruct (mapM (decode_char m) s) as [l|e'] eqn:E; cbn [bind] in H; [discriminate|].
  inversion H; subst. apply mapM_raise in E. destruct E as [c [_ Hc]].
  now apply decode_char_raise in Hc.
Qed.

Lemma Forall2_concat_inv {A B : Type} (R : A -> B -> Prop) (l : list A) (gs : list (list B)) :
  Forall2 R l (concat gs) ->
  exists gl : list (list A), concat gl = l /\ Forall2 (Forall2 R) gl gs.
Proof.
  revert l; induction gs as [|g gs IH]; intros l H; cbn [concat] in H.
  - inversion H; subst. exists []. split; [reflexivity|constructor].
  - apply Forall2_app_inv_r in H. destruct H as (l1 & l2 & H1 & H2 & ->).
    destruct (IH l2 H2) as (gl & <- & HF). exists (l1 :: gl). split; [reflexivity|].
    now constructor.
Qed.

Lemma join_cons2 (sep x y : str) (r : list str) :
  join sep (x :: y :: r) = x ++ sep ++ join sep (y :: r).
Proof. reflexivity. Qed.

(* decoding a spaced grouping of the code points yields the same grouping of the units *)
Lemma decode_groups (m : list (str * N)) (gu : list (list str)) (ge : list str) :
  good_map m ->
  Forall2 (Forall2 (fun (u : str) (c : N) => lookup m u = Ok c)) gu ge ->
  decode_utt m (join [sp] ge) = Ok (join [sp] (map (@concat char) gu)).
Proof.
  intros Hm H. induction H as [|g gc gu ge Hg Hr IH]; [reflexivity|].
  destruct Hr as [|g2 gc2 gu' ge' Hg2 Hr'].
  - cbn [map join]. now apply decode_units.
  - cbn [map] in *. rewrite !join_cons2.
    apply decode_utt_app; [now apply decode_units|].
    apply decode_utt_app; [apply decode_utt_sp|exact IH].
Qed.

Theorem decode_of_grouping : forall (m : list (str * N)) (units : list str) (e : str) (ge : list str),
  good_map m -> mapM (lookup m) units = Ok e ->
  concat ge = e -> Forall (fun g : str => g <> []) ge ->
  exists gu : list (list str),
    concat gu = units /\ Forall (fun g : list str => g <> []) gu /\
    Forall2 (fun (g : list str) (gc : str) => mapM (lookup m) g = Ok gc) gu ge /\
    decode_utt m (join [sp] ge) = Ok (join [sp] (map (@concat char) gu)).
Proof.
  intros m units e ge Hm He Hc Hne. apply mapM_Forall2 in He. rewrite <- Hc in He.
  destruct (Forall2_concat_inv _ _ _ He) as (gu & Hgu & HF).
  exists gu. split; [exact Hgu|]. split; [|split].
  - clear - HF Hne. induction HF as [|g gc gu ge Hg _ IH]; [constructor|].
    inversion Hne; subst. constructor; [|now apply IH].
    intros ->. inversion Hg; subst. match goal with H : [] <> [] |- _ => exact (H eq_refl) end.
  - clear - HF. induction HF; constructor; [now apply mapM_Forall2|assumption].
  - now apply decode_groups.
Qed.

(* ... hence a segmentation of the units, in the sense shared by C01-C03 *)
Corollary decode_of_grouping_seg : forall (m : list (str * N)) (units : list str) (e : str) (ge : list str),
  good_map m -> mapM (lookup m) units = Ok e ->
  concat ge = e -> Forall (fun g : str => g <> []) ge ->
  exists out : str, decode_utt m (join [sp] ge) = Ok out /\ is_seg units out.
Proof.
  intros m units e ge Hm He Hc Hne.
  destruct (decode_of_grouping m units e ge Hm He Hc Hne) as (gu & H1 & H2 & _ & H4).
  exists (join [sp] (map (@concat char) gu)). split; [exact H4|].
  exists gu. repeat split; assumption.
Qed.

(* ================================================================== *)
(** * 3. _dpseg_bugfix *)

(* index i designates a line that does not have exactly one symbol *)
Definition line_not1 (text : list str) (i : nat) : Prop :=
  exists l : str, nth_error text i = Some l /\ length l <> 1.

Definition repair (text : list str) (bl : nat * nat) : result nat :=
  let '(bi, l) := bl in
  if Nat.eqb l 1 then
    match first_long (skipn bi text) 0 with
    | Some k => Ok (bi + k)
    | None => Raise ValueError
    end
  else Ok bi.

Lemma bugfix_unfold (text : list str) (b : list nat) :
  bugfix text b =
  (do lens <- mapM (len_at text) b;
   if negb (existsb (Nat.eqb 1) lens) then Ok b
   else match lens with
        | 1 :: _ => Raise ValueError
        | _ => do b' <- mapM (repair text) (combine b lens);
               if strictly_sorted b' then Ok b' else Raise ValueError
        end).
Proof. reflexivity. Qed.

Lemma first_long_spec (lines : list str) (i k : nat) :
  first_long lines i = Some k ->
  i <= k /\ exists l : str, nth_error lines (k - i) = Some l /\ 2 <= length l.
Proof.
  revert i; induction lines as [|l r IH]; intros i; cbn [first_long]; [discriminate|].
  destruct (Nat.leb_spec 2 (length l)) as [Hl|Hl]; intros H.
  - inversion H; subst. split; [lia|]. rewrite Nat.sub_diag. exists l. now split.
  - destruct (IH (S i) H) as [Hle [l' [Hn Hl']]]. split; [lia|].
    exists l'. split; [|exact Hl']. replace (k - i) with (S (k - S i)) by lia. exact Hn.
Qed.

Lemma len_at_ok (text : list str) (i n : nat) :
  len_at text i = Ok n <-> exists l : str, nth_error text i = Some l /\ length l = n.
Proof.
  unfold len_at. destruct (nth_error text i) as [l|]; split.
  - intros H. inversion H. now exists l.
  - intros [l' [E <-]]. now inversion E.
  - discriminate.
  - intros [l' [E _]]. discriminate.
Qed.

Lemma len_at_raise (text : list str) (i : nat) (e : exn) :
  len_at text i = Raise e -> e = IndexError /\ length text <= i.
Proof.
  unfold len_at. destruct (nth_error text i) as [l|] eqn:E; [discriminate|].
  intros H. inversion H. split; [reflexivity|]. now apply nth_error_None.
Qed.

Lemma repair_spec (text : list str) (bi l y : nat) :
  len_at text bi = Ok l -> repair text (bi, l) = Ok y ->
  bi <= y /\ line_not1 text y /\ (l <> 1 -> y = bi).
Proof.
  intros Hl H. unfold repair in H. destruct (Nat.eqb_spec l 1) as [->|Hne].
  - destruct (first_long (skipn bi text) 0) as [k|] eqn:E; [|discriminate].
    inversion H; subst. destruct (first_long_spec _ _ _ E) as [_ [l' [Hn Hl']]].
    rewrite Nat.sub_0_r, nth_error_skipn_ in Hn.
    split; [lia|]. split; [|congruence]. exists l'. split; [exact Hn|lia].
  - inversion H; subst. split; [lia|]. split; [|reflexivity].
    apply len_at_ok in Hl. destruct Hl as [l' [Hn Hl']]. exists l'. split; [exact Hn|lia].
Qed.

Lemma repair_raise (text : list str) (bl : nat * nat) (e : exn) :
  repair text bl = Raise e -> e = ValueError.
Proof.
  destruct bl as [bi l]. unfold repair. destruct (Nat.eqb l 1); [|discriminate].
  destruct (first_long (skipn bi text) 0); [discriminate|]. intros H. now inversion H.
Qed.

Lemma repair_all (text : list str) (b lens b' : list nat) :
  Forall2 (fun bi l : nat => len_at text bi = Ok l) b lens ->
  Forall2 (fun (bl : nat * nat) (y : nat) => repair text bl = Ok y) (combine b lens) b' ->
  Forall2 (fun bi y : nat => bi <= y /\ line_not1 text y) b b'.
Proof.
  intros H; revert b'; induction H as [|bi l b lens Hl _ IH]; intros b' H'; cbn [combine] in H'.
  - inversion H'; constructor.
  - inversion H' as [|? y ? ys Hy Hys]; subst. constructor; [|now apply IH].
    destruct (repair_spec text bi l y Hl Hy) as (H1 & H2 & _). now split.
Qed.

Lemma no_one_lines (text : list str) (b lens : list nat) :
  Forall2 (fun bi l : nat => len_at text bi = Ok l) b lens ->
  (existsb (Nat.eqb 1) lens = false <-> Forall (line_not1 text) b).
Proof.
  induction 1 as [|bi l b lens Hl _ IH]; cbn [existsb]; [split; [constructor|reflexivity]|].
  apply len_at_ok in Hl. destruct Hl as [l' [Hn Hl']]. split.
  - intros H. apply orb_false_elim in H. destruct H as [H1 H2].
    constructor; [|now apply IH]. exists l'. split; [exact Hn|].
    apply Nat.eqb_neq in H1. lia.
  - intros H. inversion H as [|? ? [l2 [Hn2 Hl2]] Hr]; subst. apply IH in Hr. rewrite Hr.
    rewrite orb_false_r. apply Nat.eqb_neq. assert (l2 = l') by congruence. subst. lia.
Qed.

Lemma strictly_sorted_cons (x y : nat) (r : list nat) :
  strictly_sorted (x :: y :: r) = (x <? y) && strictly_sorted (y :: r).
Proof. reflexivity. Qed.

Lemma Forall2_le_refl (l : list nat) : Forall2 le l l.
Proof. induction l; constructor; auto. Qed.

Theorem bugfix_ok : forall (text : list str) (b b' : list nat),
  bugfix text b = Ok b' ->
  exists lens : list nat,
    mapM (len_at text) b = Ok lens /\
    length b' = length b /\
    (existsb (Nat.eqb 1) lens = true -> strictly_sorted b' = true) /\
    (existsb (Nat.eqb 1) lens = false -> b' = b) /\
    Forall (line_not1 text) b' /\
    Forall2 le b b' /\
    hd 0 b' = hd 0 b.
Proof.
  intros text b b' H. rewrite bugfix_unfold in H.
  destruct (mapM (len_at text) b) as [lens|e] eqn:El; cbn [bind] in H; [|discriminate].
  exists lens. split; [reflexivity|].
  pose proof (proj1 (mapM_Forall2 _ _ _) El) as HF.
  destruct (existsb (Nat.eqb 1) lens) eqn:Ex; cbn [negb] in H.
  - assert (G : exists bb : list nat,
               mapM (repair text) (combine b lens) = Ok bb /\
               (strictly_sorted bb = true) /\ b' = bb /\ hd 0 bb = hd 0 b).
    { destruct lens as [|[|[|n]] r]; cbn [existsb] in Ex; try discriminate.
      - destruct (mapM (repair text) (combine b (0 :: r))) as [bb|e] eqn:Er; cbn [bind] in H; [|discriminate].
        destruct (strictly_sorted bb) eqn:Es; [|discriminate]. inversion H; subst.
        exists b'. split; [reflexivity|]. split; [exact Es|]. split; [reflexivity|].
        pose proof (proj1 (mapM_Forall2 _ _ _) Er) as Er'. inversion HF as [|bi ? b0 ? Hl Hr]; subst.
        cbn [combine] in Er'. inversion Er' as [|? y ? ys Hy Hys]; subst.
        destruct (repair_spec text bi 0 y Hl Hy) as (_ & _ & Hsame). cbn [hd]. apply Hsame. lia.
      - destruct (mapM (repair text) (combine b (S (S n) :: r))) as [bb|e] eqn:Er; cbn [bind] in H; [|discriminate].
        destruct (strictly_sorted bb) eqn:Es; [|discriminate]. inversion H; subst.
        exists b'. split; [reflexivity|]. split; [exact Es|]. split; [reflexivity|].
        pose proof (proj1 (mapM_Forall2 _ _ _) Er) as Er'. inversion HF as [|bi ? b0 ? Hl Hr]; subst.
        cbn [combine] in Er'. inversion Er' as [|? y ? ys Hy Hys]; subst.
        destruct (repair_spec text bi (S (S n)) y Hl Hy) as (_ & _ & Hsame). cbn [hd]. apply Hsame. lia. }
    destruct G as (bb & Er & Es & -> & Hhd).
    apply mapM_Forall2 in Er. pose proof (repair_all text b lens bb HF Er) as HR.
    split; [symmetry; exact (Forall2_length_ _ _ _ HR)|].
    split; [intros _; exact Es|]. split; [discriminate|].
    split; [|split; [|exact Hhd]].
    + clear - HR. induction HR as [|? ? ? ? [_ ?]]; constructor; assumption.
    + clear - HR. induction HR as [|? ? ? ? [? _]]; constructor; assumption.
  - inversion H; subst. split; [reflexivity|]. split; [discriminate|].
    split; [reflexivity|]. split; [now apply (no_one_lines text b' lens HF)|].
    split; [apply Forall2_le_refl|reflexivity].
Qed.

Corollary bugfix_changed_sorted : forall (text : list str) (b b' : list nat),
  bugfix text b = Ok b' -> b' <> b -> strictly_sorted b' = true.
Proof.
  intros text b b' H Hne. destruct (bugfix_ok text b b' H) as (lens & _ & _ & H1 & H2 & _).
  destruct (existsb (Nat.eqb 1) lens); [now apply H1|]. exfalso. now apply Hne, H2.
Qed.

Theorem bugfix_only_value_error : forall (text : list str) (b : list nat) (e : exn),
  bugfix text b = Raise e ->
  (e = ValueError \/ e = IndexError) /\
  (Forall (fun i : nat => i < length text) b -> e = ValueError).
Proof.
  intros text b e H. rewrite bugfix_unfold in H.
  destruct (mapM (len_at text) b) as [lens|e'] eqn:El; cbn [bind] in H.
  - assert (e = ValueError); [|now split; [left|]].
    destruct (negb (existsb (Nat.eqb 1) lens)); [discriminate|].
    assert (G : (do b' <- mapM (repair text) (combine b lens);
                 if strictly_sorted b' then Ok b' else Raise ValueError) = Raise e -> e = ValueError).
    { clear H. intros H.
      destruct (mapM (repair text) (combine b lens)) as [bb|e''] eqn:Er; cbn [bind] in H.
      - destruct (strictly_sorted bb); [discriminate|]. now inversion H.
      - inversion H; subst. apply mapM_raise in Er. destruct Er as [bl [_ Hbl]].
        now apply repair_raise in Hbl. }
    destruct lens as [|[|[|n]] r]; try (now apply G). now inversion H.
  - inversion H; subst. apply mapM_raise in El. destruct El as [i [Hin Hi]].
    apply len_at_raise in Hi. destruct Hi as [-> Hlen]. split; [now right|].
    intros Hall. rewrite Forall_forall in Hall. specialize (Hall i Hin). lia.
Qed.

Theorem bugfix_identity : forall (text : list str) (b : list nat),
  Forall (line_not1 text) b -> bugfix text b = Ok b.
Proof.
  intros text b H. rewrite bugfix_unfold.
  destruct (mapM_total (len_at text) b) as [lens El].
  { eapply Forall_impl; [|exact H]. cbn beta. intros i [l [Hn _]].
    exists (length l). apply len_at_ok. now exists l. }
  rewrite El. cbn [bind]. pose proof (proj1 (mapM_Forall2 _ _ _) El) as HF.
  rewrite (proj2 (no_one_lines text b lens HF) H). reflexivity.
Qed.

(* ================================================================== *)
(** * 4. What is handed to the program *)

Lemma strictly_sorted_incr (l : list nat) : strictly_sorted l = true -> incr l.
Proof.
  induction l as [|x r IH]; [intros _; exact I|].
  destruct r as [|y r'].
  - intros _. split; exact I.
  - rewrite strictly_sorted_cons. intros H. apply andb_prop in H. destruct H as [H1 H2].
    apply Nat.ltb_lt in H1.
    change (incr (x :: y :: r')) with (x <= y /\ incr (y :: r')).
    split; [lia|]. now apply IH.
Qed.

Lemma default_bounds_in_range (n k : nat) :
  1 <= k -> k <= n -> Forall (fun i : nat => i < n) (default_bounds n k).
Proof.
  intros H1 H2. apply Forall_forall. intros x Hx.
  destruct (In_nth _ _ 0 Hx) as [i [Hi <-]]. rewrite default_bounds_length in Hi.
  now apply default_bounds_lt.
Qed.

(* the repaired default boundaries are still legal fold boundaries *)
Lemma bugfix_valid (text : list str) (n k : nat) (b : list nat) :
  2 <= k -> k <= n -> bugfix text (default_bounds n k) = Ok b -> valid_bounds b.
Proof.
  intros Hk Hn H. destruct (bugfix_ok _ _ _ H) as (lens & _ & Hlen & Hs & Hid & _ & _ & Hhd).
  destruct (existsb (Nat.eqb 1) lens) eqn:E.
  - split; [|split].
    + rewrite Hlen, default_bounds_length. lia.
    + rewrite Hhd. apply default_bounds_hd. lia.
    + apply strictly_sorted_incr. now apply Hs.
  - rewrite (Hid eq_refl). now apply default_bounds_valid.
Qed.

Lemma folds_of_inv (text order : list str) (nfolds : Z)
      (folds : list (list str)) (index : list nat) (m : list (str * N)) :
  folds_of text order nfolds = Ok (folds, index, m) ->
  m = unicode_mapping order /\
  exists (utext : list str) (b : list nat),
    mapM (encode_utt m) text = Ok utext /\
    (1 <= nfolds)%Z /\ (nfolds <= Z.of_nat (length utext))%Z /\
    bugfix utext (default_bounds (length utext) (Z.to_nat nfolds)) = Ok b /\
    ((nfolds = 1%Z /\ folds = [utext] /\ index = [0]) \/
     ((2 <= nfolds)%Z /\ valid_bounds b /\
      folds = fst (fold_spec utext b) /\ index = snd (fold_spec utext b))).
Proof.
  unfold folds_of. intros H.
  destruct (mapM (encode_utt (unicode_mapping order)) text) as [utext|e] eqn:Eu;
    cbn [bind] in H; [|discriminate].
  destruct (Z_lt_le_dec nfolds 1) as [Hlt|Hge];
    [rewrite boundaries_err in H by lia; discriminate|].
  destruct (Z_lt_le_dec (Z.of_nat (length utext)) nfolds) as [Hlt|Hle];
    [rewrite boundaries_err in H by lia; discriminate|].
  rewrite boundaries_ok in H by lia. cbn [bind] in H.
  set (b0 := default_bounds (length utext) (Z.to_nat nfolds)) in *.
  destruct (bugfix utext b0) as [b|e] eqn:Eb; cbn [bind] in H; [|discriminate].
  destruct (Z.eq_dec nfolds 1) as [E1|Hne].
  - subst nfolds. rewrite fold_one_fold in H by (intros ->; cbn [length] in Hle; lia).
    cbn [bind fst snd] in H. inversion H; subst.
    split; [reflexivity|]. exists utext, b. repeat split; try assumption. left. now repeat split.
  - assert (Hv : valid_bounds b) by (apply (bugfix_valid utext (length utext) (Z.to_nat nfolds)); [lia|lia|exact Eb]).
    rewrite (fold_custom_ok utext nfolds b) in H by (lia || exact Hv). cbn [bind] in H. inversion H; subst.
    split; [reflexivity|]. exists utext, b. repeat split; try assumption. right.
    repeat split; try lia; apply Hv.
Qed.

(* Every fold handed to dpseg is non-empty and its first line does not have
   exactly one symbol.  This holds for every nfolds for which folds_of returns,
   including nfolds = 1: then boundaries = [0], and bugfix raises ValueError
   when text[0] has exactly one symbol. *)
Theorem folds_start_long : forall (text order : list str) (nfolds : Z)
    (folds : list (list str)) (index : list nat) (m : list (str * N)),
  folds_of text order nfolds = Ok (folds, index, m) ->
  Forall (fun f : list str => exists (l : str) (r : list str), f = l :: r /\ length l <> 1) folds.
Proof.
  intros text order nfolds folds index m H.
  destruct (folds_of_inv _ _ _ _ _ _ H) as (_ & utext & b & _ & H1 & H2 & Hb & Hcase).
  destruct (bugfix_ok _ _ _ Hb) as (lens & _ & Hlen & _ & _ & Hall & _ & Hhd).
  assert (Hstart : forall c : nat, In c b ->
            exists (l : str) (r : list str), skipn c utext ++ firstn c utext = l :: r /\ length l <> 1).
  { intros c Hc. rewrite Forall_forall in Hall. destruct (Hall c Hc) as [l [Hn Hl]].
    rewrite (nth_error_skipn_cons c utext l Hn). cbn [app]. eauto. }
  destruct Hcase as [(-> & -> & ->)|(Hk & Hv & -> & ->)].
  - constructor; [|constructor].
    assert (Hin : In 0 b).
    { rewrite default_bounds_length in Hlen. rewrite default_bounds_hd in Hhd by lia.
      destruct b as [|x b]; [discriminate|]. cbn [hd] in Hhd. subst. now left. }
    destruct (Hstart 0 Hin) as (l & r & E & Hl). cbn [skipn firstn] in E.
    rewrite app_nil_r in E. eauto.
  - apply Forall_forall. intros f Hf. destruct (In_nth _ _ [] Hf) as [i [Hi <-]].
    destruct (fold_count utext b Hv) as [Hc _]. rewrite Hc in Hi.
    rewrite (fold_rotation utext b i Hv Hi). apply Hstart.
    destruct Hv as (Hl2 & Hh & _). unfold cut. destruct (Nat.eqb_spec i 0) as [->|Hi0].
    + destruct b as [|x b]; [cbn [length] in Hl2; lia|]. cbn [hd] in Hh. subst. now left.
    + apply nth_In. lia.
Qed.

(* with no blank line in the input, "not exactly one symbol" is "at least two" *)
Lemma encode_utt_length (m : list (str * N)) (u e : str) :
  encode_utt m u = Ok e -> length e = length (split_ws u).
Proof. intros H. apply mapM_Forall2 in H. symmetry. exact (Forall2_length_ _ _ _ H). Qed.

(* ================================================================== *)
(** * 5. Conservation through the pipeline, under the program's contract *)

(* s is the line l with single U+0020 inserted between some of its symbols *)
Definition seg_line (l s : str) : Prop :=
  exists groups : list str,
    concat groups = l /\ Forall (fun g : str => g <> []) groups /\ s = join [sp] groups.

(* what one dpseg run prints for a fold, read back with .split('\n'): one
   segmented line per input line, then the empty string after the last newline *)
Definition contract (fold out : list str) : Prop :=
  exists segs : list str, out = segs ++ [[]] /\ Forall2 seg_line fold segs.

Definition nonempty_b (s : str) : bool := match s with [] => false | _ => true end.

Definition pad (s : list str) : list str := s ++ [[]].

Lemma contract_pad (folds outputs : list (list str)) :
  Forall2 contract folds outputs ->
  exists segss : list (list str), outputs = map pad segss /\ Forall2 (Forall2 seg_line) folds segss.
Proof.
  induction 1 as [|f o folds outputs (segs & -> & Hs) _ (segss & -> & IH)].
  - exists []. split; [reflexivity|constructor].
  - exists (segs :: segss). split; [reflexivity|now constructor].
Qed.

(* x' is x followed by empty strings only *)
Definition pad_rel (x x' : list str) : Prop :=
  exists zs : list str, x' = x ++ zs /\ Forall (fun z : str => z = []) zs.

Lemma Forall_skipn_nil (n : nat) (zs : list str) :
  Forall (fun z : str => z = []) zs -> Forall (fun z : str => z = []) (skipn n zs).
Proof.
  revert zs; induction n as [|n IH]; intros zs H; [exact H|].
  destruct zs as [|z zs]; [constructor|]. cbn [skipn]. apply IH. now inversion H.
Qed.

Lemma last_blocks_padded (segss : list (list str)) (index : list nat) (lb : list (list str)) :
  last_blocks segss index = Ok lb ->
  exists lb' : list (list str),
    last_blocks (map pad segss) index = Ok lb' /\ Forall2 pad_rel lb lb'.
Proof.
  revert index lb; induction segss as [|s segss IH]; intros index lb H.
  - cbn [last_blocks] in H. inversion H; subst. exists []. split; [reflexivity|constructor].
  - destruct index as [|i index]; [discriminate|]. cbn [last_blocks] in H.
    destruct (last_blocks segss index) as [r|e] eqn:E; cbn [bind] in H; [|discriminate].
    inversion H; subst. destruct (IH index r E) as (r' & Hr' & HR).
    exists (skipn i (pad s) :: r'). split.
    + cbn [map last_blocks]. rewrite Hr'. reflexivity.
    + constructor; [|exact HR]. unfold pad. rewrite skipn_app.
      exists (skipn (i - length s) [[]]). split; [reflexivity|].
      apply Forall_skipn_nil. constructor; [reflexivity|constructor].
Qed.

Lemma last_blocks_raise {A : Type} (fs : list (list A)) (index : list nat) (e : exn) :
  last_blocks fs index = Raise e -> e = IndexError.
Proof.
  revert index; induction fs as [|f fs IH]; intros index H; [discriminate|].
  destruct index as [|i index]; cbn [last_blocks] in H; [now inversion H|].
  destruct (last_blocks fs index) as [r|e'] eqn:E; cbn [bind] in H; [discriminate|].
  inversion H; subst. now apply (IH index).
Qed.

Lemma filter_nil_strings (zs : list str) :
  Forall (fun z : str => z = []) zs -> filter nonempty_b zs = [].
Proof.
  induction 1 as [|z zs -> _ IH]; [reflexivity|]. cbn [filter nonempty_b]. exact IH.
Qed.

(* decoding the padded lines and dropping empty results = decoding the lines *)
Lemma pad_forward (d : str -> result str) (L L' : list (list str)) (dec0 : list str) :
  d [] = Ok [] -> Forall2 pad_rel L L' -> mapM d (concat L) = Ok dec0 ->
  exists dec' : list str,
    mapM d (concat L') = Ok dec' /\ filter nonempty_b dec' = filter nonempty_b dec0.
Proof.
  intros Hd H; revert dec0; induction H as [|x x' L L' (zs & -> & Hz) _ IH]; intros dec0 Hm.
  - cbn [concat mapM] in *. inversion Hm; subst. now exists [].
  - cbn [concat] in Hm. apply mapM_app_inv in Hm. destruct Hm as (r1 & r2 & -> & Hr1 & Hr2).
    destruct (IH r2 Hr2) as (d2 & Hd2 & Hf2).
    assert (Hzs : exists rz : list str, mapM d zs = Ok rz /\ Forall (fun z : str => z = []) rz).
    { clear - Hd Hz. induction Hz as [|z zs -> _ (rz & Hrz & Hall)].
      - exists []. split; [reflexivity|constructor].
      - exists ([] :: rz). split; [|now constructor]. cbn [mapM]. rewrite Hd. cbn [bind].
        rewrite Hrz. reflexivity. }
    destruct Hzs as (rz & Hrz & Hall).
    exists ((r1 ++ rz) ++ d2). split.
    + cbn [concat]. apply mapM_app; [now apply mapM_app|exact Hd2].
    + rewrite !filter_app, (filter_nil_strings rz Hall), app_nil_r. now rewrite Hf2.
Qed.

Lemma is_seg_nonnil (units : list str) (out : str) :
  is_seg units out -> units <> [] -> Forall (fun u : str => u <> []) units -> out <> [].
Proof.
  intros (groups & Hc & Hne & ->) Hu Hall.
  destruct groups as [|g groups]; [cbn [concat] in Hc; congruence|].
  inversion Hne as [|? ? Hg _]; subst. destruct g as [|u g]; [congruence|].
  cbn [concat app] in Hall. inversion Hall as [|? ? Hu0 _]; subst.
  destruct u as [|c u]; [congruence|].
  cbn [map concat app]. destruct (map (@concat char) groups); cbn [join app]; discriminate.
Qed.

Lemma split_ws_go_nonnil (s acc : str) : Forall (fun u : str => u <> []) (split_ws_go s acc).
Proof.
  revert acc; induction s as [|c s IH]; intros acc; cbn [split_ws_go].
  - destruct acc as [|a acc]; [constructor|]. constructor; [|constructor].
    intros E. apply (f_equal (@rev char)) in E. rewrite rev_involutive in E. discriminate.
  - destruct (is_space c).
    + destruct acc as [|a acc]; [apply IH|]. constructor; [|apply IH].
      intros E. apply (f_equal (@rev char)) in E. rewrite rev_involutive in E. discriminate.
    + apply IH.
Qed.

Lemma split_ws_nonnil (s : str) : Forall (fun u : str => u <> []) (split_ws s).
Proof. apply split_ws_go_nonnil. Qed.

(* line by line: a contract-abiding output line decodes to a segmentation *)
Lemma decode_lines (m : list (str * N)) (text utext o : list str) :
  good_map m ->
  Forall2 (fun u e : str => encode_utt m u = Ok e) text utext ->
  Forall2 seg_line utext o ->
  exists dec0 : list str,
    mapM (decode_utt m) o = Ok dec0 /\ aligned (map split_ws text) dec0.
Proof.
  intros Hm H; revert o; induction H as [|u e text utext Hu _ IH]; intros o Ho.
  - inversion Ho; subst. exists []. split; [reflexivity|constructor].
  - inversion Ho as [|? s ? o' Hs Ho']; subst.
    destruct (IH o' Ho') as (dec & Hdec & Hal).
    destruct Hs as (groups & Hc & Hne & ->).
    destruct (decode_of_grouping_seg m (split_ws u) e groups Hm Hu Hc Hne) as (out & Hout & Hseg).
    exists (out :: dec). split.
    + cbn [mapM]. rewrite Hout. cbn [bind]. rewrite Hdec. reflexivity.
    + cbn [map]. constructor; assumption.
Qed.

Lemma aligned_filter (text : list str) (dec : list str) :
  Forall (fun u : str => split_ws u <> []) text ->
  aligned (map split_ws text) dec -> filter nonempty_b dec = dec.
Proof.
  intros Hnb H. remember (map split_ws text) as units eqn:E. revert text E Hnb.
  induction H as [|us d units dec Hseg _ IH]; intros text E Hnb; [reflexivity|].
  destruct text as [|u text]; [discriminate|]. cbn [map] in E. inversion E; subst.
  inversion Hnb as [|? ? Hu Hnb']; subst. cbn [filter].
  assert (Hd : d <> []) by (apply (is_seg_nonnil (split_ws u) d Hseg Hu), split_ws_nonnil).
  destruct d as [|c d]; [congruence|]. cbn [nonempty_b]. f_equal. now apply (IH text).
Qed.

(* the common end of the pipeline *)
Lemma pipeline_end (m : list (str * N)) (text utext : list str)
      (segss : list (list str)) (index : list nat) (o : list str) :
  good_map m ->
  Forall2 (fun u e : str => encode_utt m u = Ok e) text utext ->
  unfold segss index = Ok o -> Forall2 seg_line utext o ->
  exists dec0 : list str,
    (do un <- unfold (map pad segss) index;
     do dec <- mapM (decode_utt m) un;
     Ok (filter nonempty_b dec)) = Ok (filter nonempty_b dec0) /\
    aligned (map split_ws text) dec0.
Proof.
  intros Hm Henc Hun Ho.
  destruct (decode_lines m text utext o Hm Henc Ho) as (dec0 & Hdec0 & Hal).
  exists dec0. split; [|exact Hal].
  unfold unfold in *.
  destruct (last_blocks segss index) as [lb|e] eqn:Elb; cbn [bind] in Hun; [|discriminate].
  inversion Hun; subst o.
  destruct (last_blocks_padded segss index lb Elb) as (lb' & Hlb' & HR).
  rewrite Hlb'. cbn [bind].
  destruct (pad_forward (decode_utt m) (rev lb) (rev lb') dec0 (decode_utt_nil m)
              (Forall2_rev _ _ _ HR) Hdec0) as (dec' & Hdec' & Hf).
  rewrite Hdec'. cbn [bind]. now rewrite Hf.
Qed.

Lemma Forall2_singleton {A B : Type} (R : A -> B -> Prop) (x : A) (l : list B) :
  Forall2 R [x] l -> exists y : B, l = [y] /\ R x y.
Proof.
  intros H. inversion H as [|? y ? l' Hy Hl]; subst. inversion Hl; subst. now exists y.
Qed.

(* Under the contract the wrapper never raises after the folds were built, and
   returns, line for line, the input with spaces added at unit boundaries.
   [dec0] are the decoded lines before the final filter. *)
Theorem dpseg_pipeline_ok : forall (text order : list str) (nfolds : Z)
    (outputs folds : list (list str)) (index : list nat) (m : list (str * N)),
  folds_of text order nfolds = Ok (folds, index, m) ->
  Forall2 contract folds outputs ->
  exists dec0 : list str,
    segment_from_outputs text order nfolds outputs = Ok (filter nonempty_b dec0) /\
    aligned (map split_ws text) dec0.
Proof.
  intros text order nfolds outputs folds index m Hf Hc.
  unfold segment_from_outputs. rewrite Hf. cbn [bind].
  destruct (folds_of_inv _ _ _ _ _ _ Hf) as (Em & utext & b & Hu & H1 & H2 & Hb & Hcase).
  assert (Hm : good_map m) by (subst m; apply unicode_mapping_good).
  apply mapM_Forall2 in Hu.
  destruct (contract_pad folds outputs Hc) as (segss & -> & HF).
  change (fun s : str => match s with [] => false | _ :: _ => true end) with nonempty_b.
  destruct Hcase as [(-> & -> & ->)|(Hk & Hv & -> & ->)].
  - destruct (Forall2_singleton _ _ _ HF) as (segs & -> & Hs).
    apply (pipeline_end m text utext [segs] [0] segs Hm Hu); [apply unfold_single|exact Hs].
  - destruct (unfold_transformed seg_line utext b segss Hv HF) as (o & Ho & HR).
    now apply (pipeline_end m text utext segss _ o Hm Hu).
Qed.

Theorem dpseg_pipeline_aligned : forall (text order : list str) (nfolds : Z)
    (outputs : list (list str)) (out : list str)
    (folds : list (list str)) (index : list nat) (m : list (str * N)),
  Forall (fun u : str => split_ws u <> []) text ->
  folds_of text order nfolds = Ok (folds, index, m) ->
  Forall2 contract folds outputs ->
  segment_from_outputs text order nfolds outputs = Ok out ->
  aligned (map split_ws text) out.
Proof.
  intros text order nfolds outputs out folds index m Hnb Hf Hc Hs.
  destruct (dpseg_pipeline_ok text order nfolds outputs folds index m Hf Hc) as (dec0 & Hs' & Hal).
  rewrite Hs' in Hs. inversion Hs; subst.
  now rewrite (aligned_filter text dec0 Hnb Hal).
Qed.

(* ---------- errors ---------- *)

(* Building the folds raises only ValueError (bad nfolds, or a one-symbol line
   that cannot be repaired) or KeyError (a unit that is not in the mapping);
   IndexError / AssertionError of folding.fold are unreachable. *)
Theorem folds_of_errors : forall (text order : list str) (nfolds : Z) (e : exn),
  folds_of text order nfolds = Raise e ->
  e = ValueError \/
  (e = KeyError /\ exists u w : str, In u text /\ In w (split_ws u) /\ ~ In w order).
Proof.
  intros text order nfolds e. unfold folds_of. intros H.
  destruct (mapM (encode_utt (unicode_mapping order)) text) as [utext|e'] eqn:Eu; cbn [bind] in H.
  - left.
    destruct (Z_lt_le_dec nfolds 1) as [Hlt|Hge];
      [rewrite boundaries_err in H by lia; now inversion H|].
    destruct (Z_lt_le_dec (Z.of_nat (length utext)) nfolds) as [Hlt|Hle];
      [rewrite boundaries_err in H by lia; now inversion H|].
    rewrite boundaries_ok in H by lia. cbn [bind] in H.
    set (b0 := default_bounds (length utext) (Z.to_nat nfolds)) in *.
    destruct (bugfix utext b0) as [b|e'] eqn:Eb; cbn [bind] in H.
    + exfalso. destruct (Z.eq_dec nfolds 1) as [E1|Hne].
      * subst nfolds. rewrite fold_one_fold in H by (intros ->; cbn [length] in Hle; lia). discriminate.
      * assert (Hv : valid_bounds b)
          by (apply (bugfix_valid utext (length utext) (Z.to_nat nfolds)); [lia|lia|exact Eb]).
        rewrite (fold_custom_ok utext nfolds b) in H by (lia || exact Hv). discriminate.
    + inversion H; subst. apply (bugfix_only_value_error utext b0 e Eb).
      apply default_bounds_in_range; lia.
  - inversion H; subst. right. apply mapM_raise in Eu. destruct Eu as (u & Hu & Hr).
    unfold encode_utt in Hr. apply mapM_raise in Hr. destruct Hr as (w & Hw & Hr).
    apply lookup_raise in Hr. destruct Hr as [-> Hn]. rewrite unicode_mapping_keys in Hn.
    split; [reflexivity|]. now exists u, w.
Qed.

Corollary folds_of_errors_in_order : forall (text order : list str) (nfolds : Z) (e : exn),
  Forall (fun u : str => Forall (fun w : str => In w order) (split_ws u)) text ->
  folds_of text order nfolds = Raise e -> e = ValueError.
Proof.
  intros text order nfolds e Hall H.
  destruct (folds_of_errors _ _ _ _ H) as [E|(_ & u & w & Hu & Hw & Hn)]; [exact E|].
  exfalso. apply Hn. rewrite Forall_forall in Hall. specialize (Hall u Hu).
  rewrite Forall_forall in Hall. now apply Hall.
Qed.

(* whatever the program printed *)
Theorem dpseg_pipeline_errors : forall (text order : list str) (nfolds : Z)
    (outputs : list (list str)) (e : exn),
  segment_from_outputs text order nfolds outputs = Raise e ->
  e = ValueError \/ e = KeyError \/ e = IndexError.
Proof.
  intros text order nfolds outputs e. unfold segment_from_outputs. intros H.
  destruct (folds_of text order nfolds) as [[[folds index] m]|e'] eqn:Ef; cbn [bind] in H.
  - unfold unfold in H.
    destruct (last_blocks outputs index) as [lb|e'] eqn:El; cbn [bind] in H.
    + destruct (mapM (decode_utt m) (concat (rev lb))) as [dec|e'] eqn:Ed; cbn [bind] in H;
        [discriminate|].
      inversion H; subst. apply mapM_raise in Ed. destruct Ed as (s & _ & Hs).
      apply decode_utt_raise in Hs. auto.
    + inversion H; subst. apply last_blocks_raise in El. auto.
  - inversion H; subst. destruct (folds_of_errors _ _ _ _ Ef) as [->|[-> _]]; auto.
Qed.

(* under the contract, with every unit in the mapping: only ValueError, raised
   before the program is run (boundaries / _dpseg_bugfix) *)
Theorem dpseg_pipeline_errors_contract : forall (text order : list str) (nfolds : Z)
    (outputs : list (list str)) (e : exn),
  Forall (fun u : str => Forall (fun w : str => In w order) (split_ws u)) text ->
  (forall (folds : list (list str)) (index : list nat) (m : list (str * N)),
     folds_of text order nfolds = Ok (folds, index, m) -> Forall2 contract folds outputs) ->
  segment_from_outputs text order nfolds outputs = Raise e ->
  e = ValueError /\ folds_of text order nfolds = Raise ValueError.
Proof.
  intros text order nfolds outputs e Hall Hc H.
  destruct (folds_of text order nfolds) as [[[folds index] m]|e'] eqn:Ef.
  - destruct (dpseg_pipeline_ok text order nfolds outputs folds index m Ef (Hc _ _ _ eq_refl))
      as (dec0 & Hs & _). rewrite Hs in H. discriminate.
  - assert (e' = ValueError) by (now apply (folds_of_errors_in_order text order nfolds)).
    subst e'. unfold segment_from_outputs in H. rewrite Ef in H. cbn [bind] in H.
    inversion H. now split.
Qed.

(* the exact statement requested for C03, with its (redundant) hypotheses *)
Corollary dpseg_pipeline_aligned_C03 : forall (text order : list str) (nfolds : Z)
    (outputs : list (list str)) (out : list str)
    (folds : list (list str)) (index : list nat) (m : list (str * N)),
  NoDup order ->
  Forall (fun u : str => Forall (fun w : str => In w order) (split_ws u)) text ->
  Forall (fun u : str => split_ws u <> []) text ->
  folds_of text order nfolds = Ok (folds, index, m) ->
  Forall2 contract folds outputs ->
  segment_from_outputs text order nfolds outputs = Ok out ->
  aligned (map split_ws text) out.
Proof.
  intros text order nfolds outputs out folds index m _ _.
  apply dpseg_pipeline_aligned.
Qed.

(* the first line of every fold has at least two symbols when no line is blank *)
Corollary folds_start_two : forall (text order : list str) (nfolds : Z)
    (folds : list (list str)) (index : list nat) (m : list (str * N)),
  Forall (fun u : str => split_ws u <> []) text ->
  folds_of text order nfolds = Ok (folds, index, m) ->
  Forall (fun f : list str => exists (l : str) (r : list str), f = l :: r /\ 2 <= length l) folds.
Proof.
  intros text order nfolds folds index m Hnb H.
  pose proof (folds_start_long _ _ _ _ _ _ H) as Hl.
  destruct (folds_of_inv _ _ _ _ _ _ H) as (_ & utext & b & Hu & _ & _ & _ & Hcase).
  apply mapM_Forall2 in Hu.
  assert (Hpos : Forall (fun e : str => e <> []) utext).
  { clear - Hu Hnb. induction Hu as [|u e text utext He _ IH]; [constructor|].
    inversion Hnb; subst. constructor; [|now apply IH].
    intros ->. apply encode_utt_length in He. cbn [length] in He.
    destruct (split_ws u); [congruence|discriminate]. }
  assert (Hin : forall f : list str, In f folds -> forall l : str, In l f -> In l utext).
  { destruct Hcase as [(-> & -> & ->)|(Hk & Hv & -> & ->)].
    - intros f [<-|[]] l Hl0. exact Hl0.
    - intros f Hf l Hl0. destruct (In_nth _ _ [] Hf) as [i [Hi <-]].
      destruct (fold_count utext b Hv) as [Hc _]. rewrite Hc in Hi.
      rewrite (fold_rotation utext b i Hv Hi) in Hl0. apply in_app_or in Hl0.
      rewrite <- (firstn_skipn (cut utext b i) utext). apply in_or_app. tauto. }
  apply Forall_forall. intros f Hf. rewrite Forall_forall in Hl.
  destruct (Hl f Hf) as (l & r & -> & Hlen). exists l, r. split; [reflexivity|].
  assert (Hl0 : In l utext) by (apply (Hin _ Hf); now left).
  rewrite Forall_forall in Hpos. specialize (Hpos l Hl0).
  destruct l as [|c [|c2 l]]; cbn [length] in *; [congruence|lia|lia].
Qed.

(* ---------- complement to part 1: only whitespace is skipped ---------- *)

Definition nc_first (idx : N) : bool :=
  let c := fst (next_char idx) in forallN (fun j : N => is_space (idx + j)%N) (c - idx)%N.

Lemma nc_first_small : forallN nc_first 12289 = true.
Proof. vm_compute. reflexivity. Qed.

(* next_char returns the first code point from idx on that is neither whitespace nor a surrogate *)
Theorem next_char_first : forall idx j : N,
  (idx <= j)%N -> (j < fst (next_char idx))%N -> skipped j = true.
Proof.
  intros idx j H1 H2. destruct (N.lt_ge_cases idx 12289) as [Hlt|Hge].
  - pose proof (forallN_spec nc_first 12289 nc_first_small idx Hlt) as H.
    unfold nc_first in H. cbn zeta in H.
    pose proof (forallN_spec _ _ H (j - idx)%N) as H'. cbn beta in H'.
    replace (idx + (j - idx))%N with j in H' by lia. unfold skipped. rewrite H'; [reflexivity|lia].
  - assert (Hs : is_space idx = false).
    { destruct (is_space idx) eqn:E; [|reflexivity]. apply is_space_le in E. lia. }
    destruct (is_surrogate idx) eqn:Hg.
    + pose proof (is_surrogate_range idx Hg) as Hr.
      rewrite (next_char_surrogate idx Hg) in H2. cbn [fst] in H2.
      unfold skipped. replace (is_surrogate j) with true; [apply orb_true_r|].
      symmetry. unfold is_surrogate. apply andb_true_intro. split; apply N.leb_le; lia.
    + rewrite (next_char_nonspace idx Hs Hg) in H2. cbn [fst] in H2. lia.
Qed.

Print Assumptions dpseg_pipeline_aligned.
Print Assumptions next_char_first.
Print Assumptions dpseg_pipeline_errors_contract.
Print Assumptions folds_start_two.
Print Assumptions bugfix_ok.
Print Assumptions unicode_mapping_injective.
