(* Model of the Python side of wordseg/algos/dpseg.py: UnicodeGenerator, the
   unit -> code point recoding, _dpseg_bugfix, folding, unfolding and decoding.
   The dpseg program is an oracle: segment is a function of the lines each fold
   run wrote to its output file. *)
From WS Require Import Base.Py Base.Str Folding.Model.

(* UnicodeGenerator.__call__: skip whitespace code points and (fix: surrogates cannot be utf8 encoded) U+D800..U+DFFF *)
Definition is_surrogate (c : N) : bool := (55296 <=? c)%N && (c <=? 57343)%N.
Definition skipped (c : N) : bool := is_space c || is_surrogate c.
(* the loop as written: while the code point is skipped, take the next one *)
Fixpoint next_char_loop_fuel (fuel : nat) (idx : N) : N * N :=
  match fuel with
  | O => (idx, (idx + 1)%N)
  | S f => if skipped idx then next_char_loop_fuel f (idx + 1)%N else (idx, (idx + 1)%N)
  end.
(* the longest run of skipped code points is the 2048 surrogates (at most 11 consecutive whitespace code points
   exist, U+2000..U+200A); beyond U+10FFFF Python's chr() raises ValueError (more than a million distinct units:
   outside the model, and an outcome the property allows) *)
Definition next_char_loop (idx : N) : N * N := next_char_loop_fuel 2064 idx.

(* the same function in closed form (Dpseg.Proofs.next_char_loop_eq): a surrogate index jumps to U+E000, a run of
   whitespace is walked through; this is the definition the rest of the model and the proofs use *)
Fixpoint next_char_fuel (fuel : nat) (idx : N) : N * N :=
  match fuel with
  | O => (idx, (idx + 1)%N)
  | S f => if is_space idx then next_char_fuel f (idx + 1)%N else (idx, (idx + 1)%N)
  end.
Definition next_char (idx : N) : N * N :=
  next_char_fuel 16 (if is_surrogate idx then 57344%N else idx).

(* {unit: unicode_gen() for unit in units}: [order] enumerates the set of units *)
Fixpoint build_mapping (order : list str) (idx : N) : list (str * N) :=
  match order with
  | [] => []
  | u :: r => let '(c, idx') := next_char idx in (u, c) :: build_mapping r idx'
  end.
Definition unicode_mapping (order : list str) : list (str * N) := build_mapping order 3001%N.

Fixpoint lookup (m : list (str * N)) (u : str) : result N :=
  match m with
  | [] => Raise KeyError
  | (k, c) :: r => if str_eqb u k then Ok c else lookup r u
  end.

Definition encode_utt (m : list (str * N)) (utt : str) : result str :=
  mapM (lookup m) (split_ws utt).

Fixpoint rlookup (m : list (str * N)) (c : N) : result str :=
  match m with
  | [] => Raise KeyError
  | (k, c') :: r => if (c =? c')%N then Ok k else rlookup r c
  end.

(* unit_mapping = {v: k}; unit_mapping[' '] = ' '.  When two units had the same
   code point the later one wins in the dict: never happens (injectivity). *)
Definition decode_char (m : list (str * N)) (c : N) : result str :=
  if (c =? sp)%N then Ok [sp] else rlookup (rev m) c.

Definition decode_utt (m : list (str * N)) (utt : str) : result str :=
  do l <- mapM (decode_char m) utt; Ok (concat l).

(* ---------- _dpseg_bugfix ---------- *)

Fixpoint first_long (lines : list str) (i : nat) : option nat :=
  match lines with
  | [] => None
  | l :: r => if 2 <=? length l then Some i else first_long r (S i)
  end.

Definition len_at (text : list str) (i : nat) : result nat :=
  match nth_error text i with Some l => Ok (length l) | None => Raise IndexError end.

Fixpoint strictly_sorted (l : list nat) : bool :=
  match l with
  | x :: ((y :: _) as r) => (x <? y) && strictly_sorted r
  | _ => true
  end.

Definition bugfix (text : list str) (b : list nat) : result (list nat) :=
  do lens <- mapM (len_at text) b;
  if negb (existsb (Nat.eqb 1) lens) then Ok b
  else match lens with
       | 1 :: _ => Raise ValueError
       | _ =>
         do b' <- mapM (fun bl =>
                          let '(bi, l) := bl in
                          if Nat.eqb l 1 then
                            match first_long (skipn bi text) 0 with
                            | Some k => Ok (bi + k)
                            | None => Raise ValueError
                            end
                          else Ok bi) (combine b lens);
         (* boundaries == sorted(set(boundaries)) *)
         if strictly_sorted b' then Ok b' else Raise ValueError
       end.

(* ---------- segment, as a function of the folds' outputs ---------- *)

(* what is sent to the program: the folds of the recoded text *)
Definition folds_of (text : list str) (order : list str) (nfolds : Z)
  : result (list (list str) * list nat * list (str * N)) :=
  let m := unicode_mapping order in
  do utext <- mapM (encode_utt m) text;
  do b0 <- boundaries (length utext) nfolds;
  do b <- bugfix utext b0;
  do fi <- fold utext nfolds (Some b);
  Ok (fst fi, snd fi, m).

(* outputs: for each fold, tmp_output.read().split('\n') *)
Definition segment_from_outputs (text : list str) (order : list str) (nfolds : Z) (outputs : list (list str))
  : result (list str) :=
  do fim <- folds_of text order nfolds;
  let '(folds, index, m) := fim in
  do un <- unfold outputs index;
  do dec <- mapM (decode_utt m) un;
  Ok (filter (fun s => match s with [] => false | _ => true end) dec).

(* ---------- wire ---------- *)
Definition run_next_chars (j : J) : J :=
  match j with
  | JL [start; n] =>
    match d_N start, d_nat n with
    | Some s, Some n =>
      j_list j_N ((fix go (k : nat) (idx : N) : list N :=
                     match k with O => [] | S k' => let '(c, i') := next_char idx in c :: go k' i' end) n s)
    | _, _ => j_bad end
  | _ => j_bad end.

Definition run_bugfix (j : J) : J :=
  match j with
  | JL [text; b] =>
    match d_list d_str text, d_list d_nat b with
    | Some text, Some b => j_result (j_list j_nat) (bugfix text b)
    | _, _ => j_bad end
  | _ => j_bad end.

Definition run_folds (j : J) : J :=
  match j with
  | JL [text; order; k] =>
    match d_list d_str text, d_list d_str order, d_Z k with
    | Some text, Some order, Some k =>
      j_result (fun r => JL [j_list (j_list j_str) (fst (fst r)); j_list j_nat (snd (fst r))]) (folds_of text order k)
    | _, _, _ => j_bad end
  | _ => j_bad end.

Definition run_segment_outputs (j : J) : J :=
  match j with
  | JL [text; order; k; outs] =>
    match d_list d_str text, d_list d_str order, d_Z k, d_list (d_list d_str) outs with
    | Some text, Some order, Some k, Some outs => j_result (j_list j_str) (segment_from_outputs text order k outs)
    | _, _, _, _ => j_bad end
  | _ => j_bad end.
