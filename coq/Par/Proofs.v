(* Property C19: the result of joblib.Parallel(n_jobs=k)(delayed(f)(x) for x in xs)
   does not depend on the schedule (hence not on the number of workers).
   joblib's contract: each task is executed exactly once, in some order;
   the result of task i is stored at index i. *)
From WS Require Import Base.Py Folding.Model Folding.Proofs.
From Coq Require Import Permutation Lia.

Fixpoint set_nth {B : Type} (l : list B) (i : nat) (b : B) : list B :=
  match l, i with
  | [], _ => []
  | _ :: r, O => b :: r
  | x :: r, S j => x :: set_nth r j b
  end.

(* tasks are executed in the order [order] (a schedule);
   slot i receives the result of task i *)
Fixpoint run_tasks {A B : Type} (f : A -> B) (xs : list A) (order : list nat)
  (slots : list (option B)) : list (option B) :=
  match order with
  | [] => slots
  | i :: r =>
    run_tasks f xs r
      (match nth_error xs i with
       | Some x => set_nth slots i (Some (f x))
       | None => slots
       end)
  end.

Definition parallel {A B : Type} (f : A -> B) (xs : list A) (order : list nat)
  : list (option B) :=
  run_tasks f xs order (repeat None (length xs)).

(* ---------- set_nth ---------- *)

Lemma set_nth_length : forall (B : Type) (l : list B) (i : nat) (b : B),
  length (set_nth l i b) = length l.
Proof.
  intros B l; induction l as [|x r IH]; intros i b; [reflexivity|].
  destruct i as [|j]; simpl; [reflexivity|]. now rewrite IH.
Qed.

Lemma set_nth_same : forall (B : Type) (l : list B) (i : nat) (b : B),
  i < length l -> nth_error (set_nth l i b) i = Some b.
Proof.
  intros B l; induction l as [|x r IH]; intros i b Hi; simpl in Hi; [lia|].
  destruct i as [|j]; simpl; [reflexivity|]. apply IH; lia.
Qed.

Lemma set_nth_other : forall (B : Type) (l : list B) (i j : nat) (b : B),
  i <> j -> nth_error (set_nth l i b) j = nth_error l j.
Proof.
  intros B l; induction l as [|x r IH]; intros i j b Hij; [reflexivity|].
  destruct i as [|i]; destruct j as [|j]; simpl; try reflexivity; try lia.
  apply IH; lia.
Qed.

Lemma nth_error_ext_eq : forall (B : Type) (l1 l2 : list B),
  (forall j : nat, nth_error l1 j = nth_error l2 j) -> l1 = l2.
Proof.
  intros B l1; induction l1 as [|x r IH]; intros l2 H.
  - destruct l2 as [|y s]; [reflexivity|]. specialize (H 0); discriminate.
  - destruct l2 as [|y s]; [specialize (H 0); discriminate|].
    pose proof (H 0) as H0; simpl in H0. inversion H0; subst.
    f_equal. apply IH. intros j. exact (H (S j)).
Qed.

(* ---------- run_tasks invariants ---------- *)

Lemma run_tasks_length : forall (A B : Type) (f : A -> B) (xs : list A)
  (order : list nat) (slots : list (option B)),
  length (run_tasks f xs order slots) = length slots.
Proof.
  intros A B f xs order; induction order as [|i r IH]; intros slots; [reflexivity|].
  simpl. rewrite IH. destruct (nth_error xs i); [apply set_nth_length|reflexivity].
Qed.

(* a slot that is scheduled (or already holds its final value) ends up
   holding the result of its own task *)
Lemma run_tasks_done : forall (A B : Type) (f : A -> B) (xs : list A)
  (order : list nat) (slots : list (option B)) (j : nat) (x : A),
  length slots = length xs ->
  nth_error xs j = Some x ->
  In j order \/ nth_error slots j = Some (Some (f x)) ->
  nth_error (run_tasks f xs order slots) j = Some (Some (f x)).
Proof.
  intros A B f xs order; induction order as [|i r IH]; intros slots j x Hlen Hx H.
  - simpl. destruct H as [[]|H]; exact H.
  - simpl. apply IH; [|exact Hx|].
    + destruct (nth_error xs i); [now rewrite set_nth_length|exact Hlen].
    + destruct (Nat.eq_dec i j) as [->|Hij].
      * right. rewrite Hx. apply set_nth_same. rewrite Hlen.
        apply nth_error_Some. congruence.
      * destruct H as [[Hi|Hr]|Hs]; [contradiction|now left|right].
        destruct (nth_error xs i); [|exact Hs].
        now rewrite set_nth_other.
Qed.

(* ---------- C19 ---------- *)

Theorem jobs_schedule_irrelevant : forall (A B : Type) (f : A -> B) (xs : list A)
  (order : list nat),
  Permutation order (seq 0 (length xs)) ->
  parallel f xs order = map (fun x : A => Some (f x)) xs.
Proof.
  intros A B f xs order HP. apply nth_error_ext_eq. intros j. unfold parallel.
  destruct (nth_error xs j) as [x|] eqn:Hx.
  - rewrite (map_nth_error (fun x : A => Some (f x)) j xs Hx).
    apply run_tasks_done; [apply repeat_length|exact Hx|left].
    apply (Permutation_in j (Permutation_sym HP)). apply in_seq.
    assert (j < length xs) by (apply nth_error_Some; congruence). lia.
  - apply nth_error_None in Hx.
    transitivity (@None (option B)); [|symmetry]; apply nth_error_None.
    + now rewrite run_tasks_length, repeat_length.
    + now rewrite map_length.
Qed.

Theorem parallel_two_schedules : forall (A B : Type) (f : A -> B) (xs : list A)
  (o1 o2 : list nat),
  Permutation o1 (seq 0 (length xs)) -> Permutation o2 (seq 0 (length xs)) ->
  parallel f xs o1 = parallel f xs o2.
Proof.
  intros A B f xs o1 o2 H1 H2.
  now rewrite (jobs_schedule_irrelevant A B f xs o1 H1),
              (jobs_schedule_irrelevant A B f xs o2 H2).
Qed.

Lemma collect_map_Some : forall (B C : Type) (g : B -> C) (l : list B),
  flat_map (fun r : option C => match r with Some y => [y] | None => [] end)
           (map (fun x : B => Some (g x)) l) = map g l.
Proof.
  intros B C g l; induction l as [|x r IH]; simpl; [reflexivity|]. now rewrite IH.
Qed.

(* fold -> run the per-fold job g under any schedule -> unfold *)
Theorem fold_parallel_unfold_schedule_irrelevant :
  forall (A B : Type) (g : list A -> list B) (text : list A) (k : Z)
         (fi : list (list A) * list nat) (o1 o2 : list nat),
  fold text k None = Ok fi ->
  Permutation o1 (seq 0 (length (fst fi))) ->
  Permutation o2 (seq 0 (length (fst fi))) ->
  let res (o : list nat) :=
    flat_map (fun r : option (list B) => match r with Some l => [l] | None => [] end)
             (parallel g (fst fi) o) in
  unfold (res o1) (snd fi) = unfold (res o2) (snd fi) /\ res o1 = map g (fst fi).
Proof.
  intros A B g text k fi o1 o2 _ H1 H2 res.
  assert (E : forall o : list nat,
             Permutation o (seq 0 (length (fst fi))) -> res o = map g (fst fi)).
  { intros o Ho. unfold res. rewrite (jobs_schedule_irrelevant _ _ g (fst fi) o Ho).
    apply collect_map_Some. }
  split; [now rewrite (E o1 H1), (E o2 H2)|exact (E o1 H1)].
Qed.

(* Instance: a per-line job (map h on each fold), legal k: the pipeline
   returns map h text whatever the schedule. *)
Theorem fold_parallel_unfold_map : forall (A B : Type) (h : A -> B) (text : list A)
  (k : Z) (o : list nat),
  (2 <= k)%Z -> (k <= Z.of_nat (length text))%Z ->
  let fi := fold_spec text (default_bounds (length text) (Z.to_nat k)) in
  Permutation o (seq 0 (length (fst fi))) ->
  fold text k None = Ok fi /\
  unfold (flat_map (fun r : option (list B) => match r with Some l => [l] | None => [] end)
                   (parallel (map h) (fst fi) o)) (snd fi) = Ok (map h text).
Proof.
  intros A B h text k o Hk1 Hk2 fi Ho. split.
  - apply fold_default_ok; assumption.
  - rewrite (jobs_schedule_irrelevant _ _ (map h) (fst fi) o Ho), collect_map_Some.
    apply unfold_map, default_bounds_valid; lia.
Qed.

Print Assumptions jobs_schedule_irrelevant.
Print Assumptions parallel_two_schedules.
Print Assumptions fold_parallel_unfold_schedule_irrelevant.
Print Assumptions fold_parallel_unfold_map.
