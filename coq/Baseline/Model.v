(* Model of wordseg/algos/baseline.py. The global random stream is an explicit
   argument: one draw per token, in text order. *)
From WS Require Import Base.Py Base.Str Separator.Model.
From Coq Require Import QArith.
Local Open Scope nat_scope.

Definition qlt_b (x y : Q) : bool := negb (Qle_bool y x).

(* one utterance: tokens of utt.strip().split(' '), each followed by a space
   when its draw is below p.  Returns the output and the unused draws; None
   when the stream is too short (never happens: the harness supplies enough). *)
Fixpoint seg_tokens (toks : list str) (p : Q) (draws : list Q) : option (str * list Q) :=
  match toks with
  | [] => Some ([], draws)
  | t :: r =>
    match draws with
    | [] => None
    | d :: ds =>
      match seg_tokens r p ds with
      | Some (s, rest) => Some (t ++ (if qlt_b d p then [sp] else []) ++ s, rest)
      | None => None
      end
    end
  end.

Fixpoint seg_text (text : list str) (p : Q) (draws : list Q) : option (list str * list Q) :=
  match text with
  | [] => Some ([], draws)
  | u :: r =>
    match seg_tokens (split_on [sp] (strip u)) p draws with
    | Some (o, rest) =>
      match seg_text r p rest with
      | Some (os, rest') => Some (o :: os, rest')
      | None => None
      end
    | None => None
    end
  end.

(* p_is_float: the Python value is a float (an int raises ValueError) *)
Definition segment (text : list str) (p_is_float : bool) (p : Q) (draws : list Q)
  : result (option (list str * list Q)) :=
  if negb p_is_float then Raise ValueError
  else if qlt_b p 0 || qlt_b 1 p then Raise ValueError
  else Ok (seg_text text p draws).

Definition sumlen {A} (l : list (list A)) : nat := fold_right (fun x acc => length x + acc) 0 l.

Definition oracle_probability (oracle_text : list str) (sep : separator) (lv : level) : result Q :=
  do ph <- mapM (fun u => tokenize sep u lv true) oracle_text;
  do ws <- mapM (fun u => tokenize sep u Word true) oracle_text;
  let nphones := sumlen ph in let nwords := sumlen ws in
  if Nat.eqb nphones 0 then Raise ZeroDivisionError
  else Ok (inject_Z (Z.of_nat nwords) / inject_Z (Z.of_nat nphones))%Q.

Definition segment_oracle (text oracle_text : list str) (sep : separator) (lv : level) (draws : list Q)
  : result (option (list str * list Q)) :=
  do p <- oracle_probability oracle_text sep lv;
  segment text true p draws.

(* ---------- wire ---------- *)
Definition d_Q (j : J) : option Q :=
  match j with JL [JI n; JI (Zpos d)] => Some (n # d)%Q | _ => None end.
Definition j_Q (q : Q) : J := JL [JI (Qnum (Qred q)); JI (Zpos (Qden (Qred q)))].

Definition j_out (o : option (list str * list Q)) : J :=
  match o with
  | None => JL []
  | Some (os, rest) => JL [j_list j_str os; j_nat (length rest)]
  end.

Definition run_baseline (j : J) : J :=
  match j with
  | JL [text; isf; p; draws] =>
    match d_list d_str text, d_bool isf, d_Q p, d_list d_Q draws with
    | Some text, Some isf, Some p, Some draws => j_result j_out (segment text isf p draws)
    | _, _, _, _ => j_bad end
  | _ => j_bad end.

Definition run_baseline_oracle (j : J) : J :=
  match j with
  | JL [text; otext; sepj; lv; draws] =>
    match d_list d_str text, d_list d_str otext, d_sep sepj, d_level lv, d_list d_Q draws with
    | Some text, Some otext, Some sep, Some lv, Some draws =>
      JL [j_result j_Q (oracle_probability otext sep lv); j_result j_out (segment_oracle text otext sep lv draws)]
    | _, _, _, _, _ => j_bad end
  | _ => j_bad end.
