(* Theorems about the random-baseline model (Baseline/Model.v). *)
From WS Require Import Base.Py Base.Str Base.Seg Separator.Model Baseline.Model.
From Coq Require Import QArith Lia.
Local Open Scope nat_scope.

(* ---------- comparison on Q ---------- *)

Lemma qlt_b_true : forall (d p : Q), qlt_b d p = true <-> (d < p)%Q.
Proof.
  intros d p. unfold qlt_b. rewrite negb_true_iff. split.
  - intro H. apply Qnot_le_lt. intro Hle. apply Qle_bool_iff in Hle. congruence.
  - intro H. destruct (Qle_bool p d) eqn:E; auto.
    apply Qle_bool_iff in E. exfalso. exact (Qlt_not_le _ _ H E).
Qed.

Lemma qlt_b_false : forall (d p : Q), qlt_b d p = false <-> (p <= d)%Q.
Proof.
  intros d p. unfold qlt_b. rewrite negb_false_iff. apply Qle_bool_iff.
Qed.

(* ---------- list helpers ---------- *)

Lemma combine_firstn_r : forall (A B : Type) (l : list A) (l' : list B),
  combine l l' = combine l (firstn (length l) l').
Proof.
  intros A B l. induction l as [|x l IH]; intros [|y l']; simpl; auto.
  f_equal. apply IH.
Qed.

Lemma skipn_add : forall (A : Type) (k n : nat) (l : list A),
  skipn n (skipn k l) = skipn (k + n) l.
Proof.
  intros A k. induction k as [|k IH]; intros n l; simpl; auto.
  destruct l as [|x l]; simpl.
  - apply skipn_nil.
  - apply IH.
Qed.

Lemma firstn_add_split : forall (A : Type) (k n : nat) (d1 d2 : list A),
  firstn (k + n) d1 = firstn (k + n) d2 ->
  firstn k d1 = firstn k d2 /\ firstn n (skipn k d1) = firstn n (skipn k d2).
Proof.
  intros A k. induction k as [|k IH]; intros n d1 d2 H; simpl in *.
  - split; auto.
  - destruct d1 as [|x d1], d2 as [|y d2]; simpl in *; try discriminate.
    + split; reflexivity.
    + injection H as Hx Hr. subst y. destruct (IH n d1 d2 Hr) as [H1 H2].
      split; [f_equal; exact H1 | exact H2].
Qed.

(* ---------- 1. one draw per token, in order ---------- *)

Definition mark (p : Q) (t : str) (d : Q) : str := t ++ (if qlt_b d p then [sp] else []).

Theorem seg_tokens_spec : forall (toks : list str) (p : Q) (draws : list Q),
  length toks <= length draws ->
  seg_tokens toks p draws =
  Some (concat (map (fun td : str * Q => mark p (fst td) (snd td)) (combine toks draws)),
        skipn (length toks) draws).
Proof.
  intros toks p. induction toks as [|t r IH]; intros draws H.
  - reflexivity.
  - destruct draws as [|d ds]; simpl in H; [lia|].
    simpl. rewrite IH by lia. unfold mark at 2. simpl.
    rewrite <- app_assoc. reflexivity.
Qed.

Theorem seg_tokens_short : forall (toks : list str) (p : Q) (draws : list Q),
  length draws < length toks -> seg_tokens toks p draws = None.
Proof.
  intros toks p. induction toks as [|t r IH]; intros draws H; simpl in H.
  - lia.
  - destruct draws as [|d ds]; simpl in *; auto.
    rewrite IH by lia. reflexivity.
Qed.

Lemma seg_tokens_inv : forall (toks : list str) (p : Q) (draws : list Q) (out : str) (rest : list Q),
  seg_tokens toks p draws = Some (out, rest) ->
  length toks <= length draws /\
  rest = skipn (length toks) draws /\
  out = concat (map (fun td : str * Q => mark p (fst td) (snd td)) (combine toks draws)).
Proof.
  intros toks p draws out rest H.
  destruct (le_lt_dec (length toks) (length draws)) as [Hle|Hlt].
  - rewrite seg_tokens_spec in H by exact Hle. injection H as H1 H2. subst. auto.
  - rewrite seg_tokens_short in H by exact Hlt. discriminate.
Qed.

(* ---------- 2. text level ---------- *)

Definition ntokens (text : list str) : nat :=
  length (flat_map (fun u : str => split_on [sp] (strip u)) text).

Lemma ntokens_cons : forall (u : str) (r : list str),
  ntokens (u :: r) = length (split_on [sp] (strip u)) + ntokens r.
Proof.
  intros u r. unfold ntokens. simpl flat_map. rewrite app_length. reflexivity.
Qed.

Lemma seg_text_cons : forall (u : str) (r : list str) (p : Q) (draws : list Q),
  seg_text (u :: r) p draws =
  match seg_tokens (split_on [sp] (strip u)) p draws with
  | Some (o, rest) =>
    match seg_text r p rest with
    | Some (os, rest') => Some (o :: os, rest')
    | None => None
    end
  | None => None
  end.
Proof. reflexivity. Qed.

Theorem seg_text_draw_count : forall (text : list str) (p : Q) (draws : list Q)
    (outs : list str) (rest : list Q),
  seg_text text p draws = Some (outs, rest) ->
  length outs = length text /\ rest = skipn (ntokens text) draws /\ ntokens text <= length draws.
Proof.
  intros text p. induction text as [|u r IH]; intros draws outs rest H.
  - simpl in H. injection H as H1 H2. subst. unfold ntokens. simpl. repeat split; lia.
  - rewrite seg_text_cons in H. rewrite ntokens_cons.
    remember (split_on [sp] (strip u)) as toks.
    destruct (seg_tokens toks p draws) as [[o r1]|] eqn:E1; [|discriminate].
    destruct (seg_text r p r1) as [[os r2]|] eqn:E2; [|discriminate].
    injection H as H1 H2. subst outs rest.
    apply seg_tokens_inv in E1. destruct E1 as [Hle [Hr1 _]].
    apply IH in E2. destruct E2 as [Hlen [Hr2 Hn]].
    subst r1. rewrite skipn_length in Hn.
    repeat split.
    + simpl. lia.
    + rewrite Hr2. apply skipn_add.
    + lia.
Qed.

Theorem seg_text_app : forall (a b : list str) (p : Q) (draws : list Q),
  seg_text (a ++ b) p draws =
  match seg_text a p draws with
  | Some (oa, r) =>
    match seg_text b p r with
    | Some (ob, r') => Some (oa ++ ob, r')
    | None => None
    end
  | None => None
  end.
Proof.
  intros a b p. induction a as [|u a IH]; intros draws.
  - simpl. destruct (seg_text b p draws) as [[ob r']|]; reflexivity.
  - rewrite <- app_comm_cons. rewrite !seg_text_cons.
    destruct (seg_tokens (split_on [sp] (strip u)) p draws) as [[o r1]|]; [|reflexivity].
    rewrite IH.
    destruct (seg_text a p r1) as [[oa r2]|]; [|reflexivity].
    destruct (seg_text b p r2) as [[ob r3]|]; reflexivity.
Qed.

Theorem seg_text_deterministic_prefix : forall (text : list str) (p : Q) (d1 d2 : list Q),
  firstn (ntokens text) d1 = firstn (ntokens text) d2 ->
  ntokens text <= length d1 -> ntokens text <= length d2 ->
  option_map fst (seg_text text p d1) = option_map fst (seg_text text p d2).
Proof.
  intros text p. induction text as [|u r IH]; intros d1 d2 Hf H1 H2.
  - reflexivity.
  - rewrite ntokens_cons in Hf, H1, H2. rewrite !seg_text_cons.
    remember (split_on [sp] (strip u)) as toks.
    rewrite (seg_tokens_spec toks p d1) by lia.
    rewrite (seg_tokens_spec toks p d2) by lia.
    apply firstn_add_split in Hf. destruct Hf as [Hk Hn].
    rewrite (combine_firstn_r _ _ toks d1), (combine_firstn_r _ _ toks d2), Hk.
    specialize (IH (skipn (length toks) d1) (skipn (length toks) d2) Hn).
    rewrite !skipn_length in IH.
    assert (IH' := IH ltac:(lia) ltac:(lia)).
    destruct (seg_text r p (skipn (length toks) d1)) as [[os1 r1]|];
    destruct (seg_text r p (skipn (length toks) d2)) as [[os2 r2]|];
    simpl in *; congruence.
Qed.

(* ---------- 3. deterministic extremes ---------- *)

Theorem seg_tokens_p0 : forall (toks : list str) (p : Q) (draws : list Q) (out : str) (rest : list Q),
  (p == 0)%Q ->
  Forall (fun d : Q => (0 <= d /\ d < 1)%Q) (firstn (length toks) draws) ->
  seg_tokens toks p draws = Some (out, rest) ->
  out = concat toks.
Proof.
  intros toks p draws out rest Hp. revert draws out rest.
  induction toks as [|t r IH]; intros draws out rest HF H.
  - simpl in H. injection H as H1 H2. subst. reflexivity.
  - destruct draws as [|d ds]; simpl in H; [discriminate|].
    destruct (seg_tokens r p ds) as [[s r1]|] eqn:E; [|discriminate].
    injection H as H1 H2. subst out rest.
    simpl in HF. inversion HF as [|x l [Hd0 Hd1] HF']. subst.
    rewrite (IH ds s r1 HF' E).
    destruct (qlt_b d p) eqn:Q.
    + apply qlt_b_true in Q. rewrite Hp in Q. exfalso. exact (Qlt_not_le _ _ Q Hd0).
    + reflexivity.
Qed.

Theorem seg_tokens_p1 : forall (toks : list str) (p : Q) (draws : list Q) (out : str) (rest : list Q),
  (p == 1)%Q ->
  Forall (fun d : Q => (0 <= d /\ d < 1)%Q) (firstn (length toks) draws) ->
  seg_tokens toks p draws = Some (out, rest) ->
  out = concat (map (fun t : str => t ++ [sp]) toks).
Proof.
  intros toks p draws out rest Hp. revert draws out rest.
  induction toks as [|t r IH]; intros draws out rest HF H.
  - simpl in H. injection H as H1 H2. subst. reflexivity.
  - destruct draws as [|d ds]; simpl in H; [discriminate|].
    destruct (seg_tokens r p ds) as [[s r1]|] eqn:E; [|discriminate].
    injection H as H1 H2. subst out rest.
    simpl in HF. inversion HF as [|x l [Hd0 Hd1] HF']. subst.
    rewrite (IH ds s r1 HF' E).
    destruct (qlt_b d p) eqn:Q.
    + simpl. rewrite <- app_assoc. reflexivity.
    + apply qlt_b_false in Q. rewrite Hp in Q. exfalso. exact (Qlt_not_le _ _ Hd1 Q).
Qed.

(* ---------- 4. conservation ---------- *)

Definition body (toks : list str) (flags : list bool) : str :=
  concat (map (fun tb : str * bool => fst tb ++ (if snd tb then [sp] else [])) (combine toks flags)).

Lemma body_cons : forall (t : str) (r : list str) (f : bool) (fs : list bool),
  body (t :: r) (f :: fs) = t ++ (if f then [sp] else []) ++ body r fs.
Proof.
  intros. unfold body. simpl. rewrite <- app_assoc. reflexivity.
Qed.

Theorem seg_tokens_spaced : forall (toks : list str) (p : Q) (draws : list Q) (out : str) (rest : list Q),
  seg_tokens toks p draws = Some (out, rest) ->
  exists flags : list bool,
    length flags = length toks /\
    out = concat (map (fun tb : str * bool => fst tb ++ (if snd tb then [sp] else [])) (combine toks flags)).
Proof.
  intros toks p. induction toks as [|t r IH]; intros draws out rest H.
  - simpl in H. injection H as H1 H2. subst. exists []. split; reflexivity.
  - destruct draws as [|d ds]; simpl in H; [discriminate|].
    destruct (seg_tokens r p ds) as [[s r1]|] eqn:E; [|discriminate].
    injection H as H1 H2. subst out rest.
    destruct (IH ds s r1 E) as [fs [Hlen Hs]].
    exists (qlt_b d p :: fs). split.
    + simpl. lia.
    + fold (body (t :: r) (qlt_b d p :: fs)). rewrite body_cons. unfold body. rewrite <- Hs. reflexivity.
Qed.

Lemma despace_app : forall (a b : str), despace (a ++ b) = despace a ++ despace b.
Proof. intros. unfold despace. apply filter_app. Qed.

Lemma despace_nosp : forall (t : str), Forall (fun c : char => c <> sp) t -> despace t = t.
Proof.
  intros t H. induction H as [|c t Hc Ht IH]; simpl; auto.
  destruct (N.eqb_spec c sp) as [->|Hn]; [congruence|]. simpl. f_equal. exact IH.
Qed.

Theorem seg_tokens_despace : forall (toks : list str) (p : Q) (draws : list Q) (out : str) (rest : list Q),
  Forall (fun t : str => Forall (fun c : char => c <> sp) t) toks ->
  seg_tokens toks p draws = Some (out, rest) ->
  despace out = concat toks.
Proof.
  intros toks p draws out rest HF. revert draws out rest.
  induction HF as [|t r Ht Hr IH]; intros draws out rest H.
  - simpl in H. injection H as H1 H2. subst. reflexivity.
  - destruct draws as [|d ds]; simpl in H; [discriminate|].
    destruct (seg_tokens r p ds) as [[s r1]|] eqn:E; [|discriminate].
    injection H as H1 H2. subst out rest.
    rewrite !despace_app, (IH ds s r1 E), (despace_nosp t Ht).
    destruct (qlt_b d p); reflexivity.
Qed.

(* link with is_seg *)

Definition rstrip_sp (s : str) : str :=
  match rev s with
  | c :: r => if (c =? sp)%N then rev r else s
  | [] => []
  end.

Fixpoint grp (toks : list str) (flags : list bool) : list (list str) :=
  match toks, flags with
  | t :: r, f :: fs =>
    if f then [t] :: grp r fs
    else match grp r fs with [] => [[t]] | g :: gs => (t :: g) :: gs end
  | _, _ => []
  end.

Lemma grp_concat : forall (toks : list str) (flags : list bool),
  length flags = length toks -> concat (grp toks flags) = toks.
Proof.
  induction toks as [|t r IH]; intros [|f fs] H; simpl in *; try discriminate; auto.
  injection H as H. specialize (IH fs H).
  destruct f.
  - simpl. f_equal. exact IH.
  - destruct (grp r fs) as [|g gs]; simpl in *.
    + subst r. reflexivity.
    + f_equal. exact IH.
Qed.

Lemma grp_nonempty : forall (toks : list str) (flags : list bool),
  Forall (fun g : list str => g <> []) (grp toks flags).
Proof.
  induction toks as [|t r IH]; intros [|f fs]; simpl; try constructor.
  - destruct f.
    + constructor; [discriminate | apply IH].
    + specialize (IH fs). destruct (grp r fs) as [|g gs].
      * constructor; [discriminate | constructor].
      * inversion IH; subst. constructor; [discriminate | assumption].
Qed.

Lemma join_cons2 : forall (sep x y : str) (l : list str),
  join sep (x :: y :: l) = x ++ sep ++ join sep (y :: l).
Proof. reflexivity. Qed.

Lemma join_app_head : forall (sep a b : str) (l : list str),
  join sep ((a ++ b) :: l) = a ++ join sep (b :: l).
Proof.
  intros sep a b [|y l].
  - reflexivity.
  - rewrite !join_cons2. rewrite <- app_assoc. reflexivity.
Qed.

Lemma body_join : forall (toks : list str) (flags : list bool),
  length flags = length toks ->
  body toks flags =
  join [sp] (map (@concat char) (grp toks flags)) ++ (if last flags false then [sp] else []).
Proof.
  induction toks as [|t r IH]; intros [|f fs] H; simpl in H; try discriminate.
  - reflexivity.
  - injection H as H. rewrite body_cons, (IH fs H).
    pose proof (grp_concat r fs H) as HC.
    destruct (grp r fs) as [|g gs] eqn:E.
    + simpl in HC. subst r. destruct fs; [|discriminate].
      simpl. destruct f; simpl; rewrite ?app_nil_r; reflexivity.
    + destruct fs as [|f2 fs2].
      * destruct r; [simpl in E; discriminate | discriminate].
      * change (last (f :: f2 :: fs2) false) with (last (f2 :: fs2) false).
        cbn [grp]. rewrite E.
        destruct f.
        -- change (map (@concat char) ([t] :: g :: gs))
             with (concat [t] :: concat g :: map (@concat char) gs).
           rewrite join_cons2. simpl concat. rewrite app_nil_r.
           rewrite <- !app_assoc. reflexivity.
        -- change (map (@concat char) ((t :: g) :: gs))
             with ((t ++ concat g) :: map (@concat char) gs).
           rewrite join_app_head. simpl. rewrite <- app_assoc. reflexivity.
Qed.

Definition ne_noend (x : str) : Prop := x <> [] /\ forall z : str, x <> z ++ [sp].

Lemma ne_noend_app : forall (a b : str), ne_noend b -> ne_noend (a ++ b).
Proof.
  intros a b [Hne Hno]. split.
  - intro H. apply app_eq_nil in H. destruct H as [_ H]. contradiction.
  - intros z H. destruct (exists_last Hne) as [b' [c Hb]]. subst b.
    rewrite app_assoc in H. apply app_inj_tail in H. destruct H as [_ Hc]. subst c.
    apply (Hno b'). reflexivity.
Qed.

Lemma ne_noend_tok : forall (t : str),
  t <> [] -> Forall (fun c : char => c <> sp) t -> ne_noend t.
Proof.
  intros t Hne HF. split; auto.
  intros z E. subst t. apply Forall_app in HF. destruct HF as [_ HF].
  inversion HF; subst. congruence.
Qed.

Lemma rstrip_noend : forall (x : str), ne_noend x -> rstrip_sp x = x.
Proof.
  intros x [Hne Hno]. unfold rstrip_sp.
  destruct (rev x) as [|c l] eqn:E.
  - apply (f_equal (@rev char)) in E. rewrite rev_involutive in E. simpl in E. congruence.
  - destruct (N.eqb_spec c sp) as [->|Hn]; auto.
    apply (f_equal (@rev char)) in E. rewrite rev_involutive in E. simpl in E.
    exfalso. exact (Hno _ E).
Qed.

Lemma rstrip_sp_snoc : forall (x : str), rstrip_sp (x ++ [sp]) = x.
Proof.
  intros x. unfold rstrip_sp. rewrite rev_app_distr. simpl. apply rev_involutive.
Qed.

Lemma body_noend : forall (toks : list str) (flags : list bool),
  Forall (fun t : str => t <> [] /\ Forall (fun c : char => c <> sp) t) toks ->
  length flags = length toks -> toks <> [] -> last flags false = false ->
  ne_noend (body toks flags).
Proof.
  induction toks as [|t r IH]; intros [|f fs] HF Hlen Hne HL; simpl in Hlen; try discriminate.
  - congruence.
  - injection Hlen as Hlen. inversion HF as [|x l [Ht1 Ht2] HF']. subst.
    rewrite body_cons.
    destruct r as [|t2 r2].
    + destruct fs; [|discriminate]. simpl in HL. subst f.
      unfold body. simpl. rewrite app_nil_r. apply ne_noend_tok; assumption.
    + destruct fs as [|f2 fs2]; [discriminate|].
      rewrite app_assoc. apply ne_noend_app.
      apply IH; auto. discriminate.
Qed.

Theorem seg_tokens_is_seg : forall (toks : list str) (p : Q) (draws : list Q) (out : str) (rest : list Q),
  Forall (fun t : str => t <> [] /\ Forall (fun c : char => c <> sp) t) toks ->
  seg_tokens toks p draws = Some (out, rest) ->
  is_seg toks (rstrip_sp out).
Proof.
  intros toks p draws out rest HF H.
  destruct (seg_tokens_spaced toks p draws out rest H) as [flags [Hlen Hout]].
  fold (body toks flags) in Hout. subst out.
  exists (grp toks flags). split; [apply grp_concat; exact Hlen|].
  split; [apply grp_nonempty|].
  pose proof (body_join toks flags Hlen) as HB.
  destruct toks as [|t r].
  - destruct flags; [|discriminate]. reflexivity.
  - destruct (last flags false) eqn:L.
    + rewrite HB. apply rstrip_sp_snoc.
    + rewrite app_nil_r in HB. rewrite <- HB. apply rstrip_noend.
      apply body_noend; auto. discriminate.
Qed.

(* ---------- 5. argument validation ---------- *)

Theorem segment_rejects : forall (text : list str) (isf : bool) (p : Q) (draws : list Q),
  isf = false \/ (p < 0)%Q \/ (1 < p)%Q -> segment text isf p draws = Raise ValueError.
Proof.
  intros text isf p draws H. unfold segment.
  destruct isf; simpl; [|reflexivity].
  destruct H as [H|[H|H]]; [discriminate| |].
  - apply qlt_b_true in H. rewrite H. reflexivity.
  - apply qlt_b_true in H. rewrite H. rewrite orb_true_r. reflexivity.
Qed.

Theorem segment_accepts : forall (text : list str) (p : Q) (draws : list Q),
  (0 <= p)%Q -> (p <= 1)%Q -> segment text true p draws = Ok (seg_text text p draws).
Proof.
  intros text p draws H0 H1. unfold segment. simpl.
  apply qlt_b_false in H0. apply qlt_b_false in H1. rewrite H0, H1. reflexivity.
Qed.

Theorem oracle_probability_spec : forall (otext : list str) (sep : separator) (lv : level)
    (ph ws : list (list str)),
  mapM (fun u : str => tokenize sep u lv true) otext = Ok ph ->
  mapM (fun u : str => tokenize sep u Word true) otext = Ok ws ->
  sumlen ph <> 0 ->
  oracle_probability otext sep lv =
  Ok (inject_Z (Z.of_nat (sumlen ws)) / inject_Z (Z.of_nat (sumlen ph)))%Q.
Proof.
  intros otext sep lv ph ws Hp Hw Hn. unfold oracle_probability.
  rewrite Hp. simpl. rewrite Hw. simpl.
  destruct (Nat.eqb_spec (sumlen ph) 0) as [E|E]; [contradiction|reflexivity].
Qed.
