(* C04 on padded renderings: every phone and every separator is followed by one U+0020.
   prepare (phone / syllable level) and gold, for a phone separator that is not a space
   ("h - e - ;esyll l - o - ;esyll ;eword ") and for the usual look where it is one space
   ("h e ;esyll l o ;esyll ;eword "). *)
From WS Require Import Base.Py Base.Str Separator.Model Separator.Render.
From WS Require Import Separator.StrLemmas Separator.StripLemmas Separator.ProofsTree
  Separator.ProofsTwo Separator.ProofsWsPhone.
From WS Require Import Prepare.Model Prepare.Proofs Prepare.ViewsLemmas Prepare.Views.

(* ================= utils.strip is ' '.join(s.split()) ================= *)

Lemma lstrip_app_nonspace (a : str) (c : char) : is_space c = false ->
  lstrip (a ++ [c]) = lstrip a ++ [c].
Proof.
  intros Hc. induction a as [|d a IH]; cbn [app lstrip]; [now rewrite Hc|].
  destruct (is_space d); [exact IH|reflexivity].
Qed.

Lemma rstrip_cons_nonspace (c : char) (r : str) : is_space c = false ->
  rstrip (c :: r) = c :: rstrip r.
Proof.
  intros Hc. unfold rstrip. cbn [rev]. rewrite lstrip_app_nonspace by exact Hc.
  now rewrite rev_unit.
Qed.

Lemma lstrip_idem (s : str) : lstrip (lstrip s) = lstrip s.
Proof.
  induction s as [|c s IH]; [reflexivity|]. cbn [lstrip].
  destruct (is_space c) eqn:E; [exact IH|]. cbn [lstrip]. now rewrite E.
Qed.

Lemma ends_ok_rstrip (s : str) : ends_ok (rstrip s).
Proof. unfold ends_ok, rstrip. rewrite rev_involutive. apply lstrip_idem. Qed.

Lemma ends_ok_tail (d : char) (s : str) : ends_ok (d :: s) -> s <> [] -> ends_ok s.
Proof.
  unfold ends_ok. cbn [rev]. intros H Hs.
  destruct (rev s) as [|c q] eqn:E.
  { apply (f_equal (@rev char)) in E. rewrite rev_involutive in E. now cbn in E. }
  cbn [app] in H. apply starts_ok_hd. now apply starts_ok_hd in H.
Qed.

Lemma ends_ok_one (d : char) : ends_ok [d] -> is_space d = false.
Proof. unfold ends_ok. cbn [rev app]. apply starts_ok_hd. Qed.

Lemma split_ws_go_acc_nonnil (s acc : str) : acc <> [] -> split_ws_go s acc <> [].
Proof.
  revert acc. induction s as [|c s IH]; intros acc Ha; cbn [split_ws_go].
  - destruct acc; [congruence|discriminate].
  - destruct (is_space c); [destruct acc; [congruence|discriminate]|].
    apply IH. discriminate.
Qed.

Lemma collapse_ws_space_cons (c d : char) (s : str) : is_space c = true ->
  collapse_ws (c :: d :: s) = if is_space d then collapse_ws (d :: s) else sp :: collapse_ws (d :: s).
Proof. intros Hc. cbn [collapse_ws]. now rewrite Hc. Qed.

Lemma collapse_ws_nonspace_cons (c : char) (s : str) : is_space c = false ->
  collapse_ws (c :: s) = c :: collapse_ws s.
Proof. intros Hc. cbn [collapse_ws]. now rewrite Hc. Qed.

Lemma split_ws_go_space (c : char) (s acc : str) : is_space c = true ->
  split_ws_go (c :: s) acc
  = match acc with [] => split_ws_go s [] | _ => rev acc :: split_ws_go s [] end.
Proof. intros H. cbn [split_ws_go]. now rewrite H. Qed.

Lemma split_ws_go_nonspace (c : char) (s acc : str) : is_space c = false ->
  split_ws_go (c :: s) acc = split_ws_go s (c :: acc).
Proof. intros H. cbn [split_ws_go]. now rewrite H. Qed.

Lemma collapse_split (s : str) :
  (forall acc : str, acc <> [] -> ends_ok s ->
     rev acc ++ collapse_ws s = join [sp] (split_ws_go s acc)) /\
  (s <> [] -> ends_ok s -> forall c : char, is_space c = true ->
     collapse_ws (c :: s) = sp :: join [sp] (split_ws_go s []) /\ split_ws_go s [] <> []).
Proof.
  induction s as [|d s [IHP IHQ]].
  - split; [|congruence]. intros acc Ha _. cbn [split_ws_go collapse_ws].
    destruct acc as [|a acc]; [congruence|]. cbn [join]. apply app_nil_r.
  - assert (Htail : ends_ok (d :: s) -> ends_ok s).
    { intros He. destruct s as [|e s']; [reflexivity|]. apply (ends_ok_tail d); [exact He|discriminate]. }
    split.
    + intros acc Ha He. destruct (is_space d) eqn:Ed.
      * destruct s as [|e s'].
        { apply ends_ok_one in He. congruence. }
        destruct (IHQ ltac:(discriminate) (Htail He) d Ed) as [E Hne].
        rewrite E, (split_ws_go_space d) by exact Ed.
        destruct acc as [|a acc]; [congruence|].
        destruct (split_ws_go (e :: s') []) as [|l L]; [congruence|].
        rewrite join_cons2. reflexivity.
      * rewrite (collapse_ws_nonspace_cons d), (split_ws_go_nonspace d) by exact Ed.
        rewrite <- (IHP (d :: acc) ltac:(discriminate) (Htail He)).
        cbn [rev]. now rewrite <- app_assoc.
    + intros _ He c Hc. rewrite collapse_ws_space_cons by exact Hc.
      destruct (is_space d) eqn:Ed.
      * destruct s as [|e s'].
        { apply ends_ok_one in He. congruence. }
        rewrite (split_ws_go_space d) by exact Ed.
        exact (IHQ ltac:(discriminate) (Htail He) d Ed).
      * rewrite (collapse_ws_nonspace_cons d), (split_ws_go_nonspace d) by exact Ed. split.
        -- f_equal. exact (IHP [d] ltac:(discriminate) (Htail He)).
        -- apply split_ws_go_acc_nonnil. discriminate.
Qed.

Lemma collapse_ws_split_ws (u : str) :
  u = [] \/ (exists (c : char) (r : str), u = c :: r /\ is_space c = false) ->
  ends_ok u -> collapse_ws u = join [sp] (split_ws u).
Proof.
  intros [->|(c & r & -> & Hc)] He; [reflexivity|].
  rewrite collapse_ws_nonspace_cons by exact Hc. unfold split_ws. cbn [split_ws_go]. rewrite Hc.
  destruct (collapse_split r) as [P _]. apply (P [c]); [discriminate|].
  destruct r as [|e r']; [reflexivity|]. apply (ends_ok_tail c); [exact He|discriminate].
Qed.

Lemma split_ws_go_lstrip (s : str) : split_ws_go (lstrip s) [] = split_ws_go s [].
Proof.
  induction s as [|c s IH]; [reflexivity|]. cbn [lstrip split_ws_go].
  destruct (is_space c) eqn:E; [exact IH|]. cbn [split_ws_go]. now rewrite E.
Qed.

Lemma split_ws_go_only_ws (w acc : str) : ws_only w ->
  split_ws_go w acc = match acc with [] => [] | _ => [rev acc] end.
Proof.
  intros H. revert acc. induction H as [|c w Hc _ IH]; intros acc; [reflexivity|].
  cbn [split_ws_go]. rewrite Hc. destruct acc as [|a acc]; rewrite IH; reflexivity.
Qed.

Lemma split_ws_go_trailing_ws (x w acc : str) : ws_only w ->
  split_ws_go (x ++ w) acc = split_ws_go x acc.
Proof.
  intros Hw. revert acc. induction x as [|c x IH]; intros acc.
  - cbn [app]. rewrite split_ws_go_only_ws by exact Hw. reflexivity.
  - cbn [app split_ws_go]. destruct (is_space c); [destruct acc|]; now rewrite IH.
Qed.

Lemma lstrip_decomp (s : str) : exists w : str, ws_only w /\ s = w ++ lstrip s.
Proof.
  induction s as [|c s (w & Hw & E)]; [exists []; split; [constructor|reflexivity]|].
  cbn [lstrip]. destruct (is_space c) eqn:Ec.
  - exists (c :: w). split; [now constructor|]. cbn [app]. now rewrite <- E.
  - exists []. split; [constructor|reflexivity].
Qed.

Lemma rstrip_decomp (s : str) : exists w : str, ws_only w /\ s = rstrip s ++ w.
Proof.
  destruct (lstrip_decomp (rev s)) as (w & Hw & E). exists (rev w). split.
  - now apply Forall_rev.
  - unfold rstrip. rewrite <- rev_app_distr, <- E. symmetry. apply rev_involutive.
Qed.

Lemma split_ws_strip (s : str) : split_ws (strip s) = split_ws s.
Proof.
  unfold split_ws, strip. destruct (rstrip_decomp (lstrip s)) as (w & Hw & E).
  rewrite <- (split_ws_go_lstrip s). rewrite E at 2.
  now rewrite split_ws_go_trailing_ws.
Qed.

Theorem norm_ws_split_ws (s : str) : norm_ws s = join [sp] (split_ws s).
Proof.
  unfold norm_ws. rewrite <- (split_ws_strip s). apply collapse_ws_split_ws.
  - unfold strip. destruct (lstrip_head s) as [E|(c & r & E & Hc)]; rewrite E.
    + now left.
    + right. exists c, (rstrip r). split; [now apply rstrip_cons_nonspace|exact Hc].
  - apply ends_ok_rstrip.
Qed.

(* ================= split() of a rendering whose separators are whitespace ================= *)

Lemma split_ws_go_skip_ws (w r : str) : ws_only w -> split_ws_go (w ++ r) [] = split_ws_go r [].
Proof.
  induction 1 as [|c w Hc _ IH]; [reflexivity|]. cbn [app split_ws_go]. now rewrite Hc.
Qed.

Lemma split_ws_go_tok (a w r : str) : tok_ok a -> ws_only w -> w <> [] ->
  split_ws_go (a ++ w ++ r) [] = a :: split_ws_go r [].
Proof.
  intros [Ha Hf] Hw Hn. rewrite split_ws_go_free by exact Hf. rewrite app_nil_r.
  destruct Hw as [|c w Hc Hw]; [congruence|]. cbn [app split_ws_go]. rewrite Hc.
  destruct (rev a) as [|e q] eqn:E.
  { apply (f_equal (@rev char)) in E. rewrite rev_involutive in E. now cbn in E. }
  rewrite <- E, rev_involutive. f_equal. now apply split_ws_go_skip_ws.
Qed.

Section SpacedRender.
  Variables P S W : str.
  Hypothesis HP : ws_only P.
  Hypothesis HPn : P <> [].
  Hypothesis HS : ws_only S.
  Hypothesis HW : ws_only W.

  Lemma split_terminated (toks : list str) (rest : str) : Forall tok_ok toks ->
    split_ws_go (terminated P toks ++ rest) [] = toks ++ split_ws_go rest [].
  Proof.
    induction 1 as [|a toks Ha _ IH]; [reflexivity|].
    rewrite terminated_cons, <- !app_assoc. rewrite split_ws_go_tok by assumption.
    cbn [app]. f_equal. exact IH.
  Qed.

  Lemma split_sylls (wd : list (list str)) (rest : str) : Forall (Forall tok_ok) wd ->
    split_ws_go (concat (map (render_syll (sep3 P S W)) wd) ++ rest) []
    = concat wd ++ split_ws_go rest [].
  Proof.
    induction 1 as [|syl wd Hsyl _ IH]; [reflexivity|].
    cbn [map concat]. rewrite render_syll3, <- !app_assoc.
    rewrite split_terminated by exact Hsyl. f_equal.
    rewrite split_ws_go_skip_ws by exact HS. exact IH.
  Qed.

  Lemma split_render (t : utree) (rest : str) : Forall (Forall (Forall tok_ok)) t ->
    split_ws_go (render (sep3 P S W) t ++ rest) [] = phones_of t ++ split_ws_go rest [].
  Proof.
    unfold render, phones_of. induction 1 as [|wd t Hwd _ IH]; [reflexivity|].
    cbn [map concat]. unfold render_word at 1. cbn [sep3 s_word Render.osep].
    rewrite <- !app_assoc. rewrite split_sylls by exact Hwd. f_equal.
    rewrite split_ws_go_skip_ws by exact HW. exact IH.
  Qed.

  Theorem norm_ws_spaced_render (t : utree) (rest : str) :
    Forall (Forall (Forall tok_ok)) t -> ws_only rest ->
    norm_ws (render (sep3 P S W) t ++ rest) = join [sp] (phones_of t).
  Proof.
    intros Ht Hr. rewrite norm_ws_split_ws. unfold split_ws. rewrite split_render by exact Ht.
    rewrite (split_ws_go_only_ws rest [] Hr). now rewrite app_nil_r.
  Qed.
End SpacedRender.

(* ================= tokens of a well-shaped tree ================= *)

Lemma shape_nested_tok (t : utree) : tree_shape t -> Forall (Forall (Forall tok_ok)) t.
Proof.
  intros H. eapply Forall_impl; [|exact H]. intros wd (_ & Hs).
  eapply Forall_impl; [|exact Hs]. now intros syl (_ & Hp).
Qed.

Lemma shape_phones_tok (t : utree) : tree_shape t -> Forall tok_ok (phones_of t).
Proof.
  intros H. unfold phones_of. apply Forall_concat, Forall_map.
  eapply Forall_impl; [|exact (shape_nested_tok t H)]. intros wd. apply Forall_concat.
Qed.

Lemma shape_sylls_tok (t : utree) : tree_shape t -> Forall tok_ok (sylls_of t).
Proof.
  intros H. unfold sylls_of. apply Forall_concat, Forall_map.
  eapply Forall_impl; [|exact H]. intros wd (_ & Hs). apply Forall_map.
  eapply Forall_impl; [|exact Hs]. intros syl (Hn & Hp). now apply concat_tok_ok.
Qed.

Lemma shape_nested_sp (t : utree) : tree_shape t -> Forall (Forall (Forall (free [sp]))) t.
Proof.
  intros H. eapply Forall_impl; [|exact (shape_nested_tok t H)]. intros wd Hwd.
  eapply Forall_impl; [|exact Hwd]. intros syl Hsyl.
  eapply Forall_impl; [|exact Hsyl]. intros ph [_ Hw]. now apply free_sp, ws_free_not_sp.
Qed.

Lemma ws_only_replace_go (x new s : str) : ws_only new -> ws_only s -> ws_only (replace_go x new s 0).
Proof. rewrite !ws_only_forallb. apply replace_go_space. Qed.

(* ================= one replacement on a block followed / surrounded by a space ================= *)

Lemma replace_go_sp_sep_sp (x new rest : str) : x <> [] -> free x [sp] ->
  replace_go x new (([sp] ++ x ++ [sp]) ++ rest) 0 = ([sp] ++ new ++ [sp]) ++ replace_go x new rest 0.
Proof.
  intros Hx Hf. rewrite <- !app_assoc. rewrite replace_go_free by exact Hf. f_equal.
  rewrite replace_go_at_sep by exact Hx. f_equal. now apply replace_go_free.
Qed.

Lemma replace_go_sp_free_sp (x new y rest : str) : free x y -> free x [sp] ->
  replace_go x new (([sp] ++ y ++ [sp]) ++ rest) 0 = ([sp] ++ y ++ [sp]) ++ replace_go x new rest 0.
Proof. intros Hy Hf. apply replace_go_free. apply free_app; [exact Hf|now apply free_app]. Qed.

Lemma replace_go_nil_blk (x new rest : str) : replace_go x new ([] ++ rest) 0 = [] ++ replace_go x new rest 0.
Proof. reflexivity. Qed.

(* deleting the spaces *)
Lemma delete_sp_one (rest : str) : replace_go [sp] [] ([sp] ++ rest) 0 = [] ++ replace_go [sp] [] rest 0.
Proof. now apply replace_go_at_sep. Qed.

Lemma delete_sp_after (y rest : str) : ~ In sp y ->
  replace_go [sp] [] ((y ++ [sp]) ++ rest) 0 = y ++ replace_go [sp] [] rest 0.
Proof.
  intros H. rewrite <- app_assoc. rewrite replace_go_free by now apply free_sp.
  f_equal.
Qed.

Lemma delete_sp_around (y rest : str) : ~ In sp y ->
  replace_go [sp] [] (([sp] ++ y ++ [sp]) ++ rest) 0 = y ++ replace_go [sp] [] rest 0.
Proof.
  intros H. rewrite <- !app_assoc. rewrite delete_sp_one, app_nil_l.
  rewrite app_assoc. now apply delete_sp_after.
Qed.

(* the pad of a phone seen as part of the phone separator *)
Lemma render_pad_alt (xp xs xw : str) (t : utree) :
  render_pad xp xs xw t = render (sep3 ([sp] ++ xp ++ [sp]) (xs ++ [sp]) (xw ++ [sp])) t.
Proof.
  unfold render_pad, render, pad_tree. rewrite map_map. f_equal. apply map_ext. intros wd.
  unfold render_word. f_equal. rewrite map_map. f_equal. apply map_ext. intros syl.
  rewrite !render_syll3. f_equal. unfold terminated. rewrite map_map. f_equal.
  apply map_ext. intros ph. unfold pad1. now rewrite <- !app_assoc.
Qed.

(* ================= splitting on the syllable separator when pads follow it ================= *)

Definition sp_only (a : str) : Prop := Forall (fun c : char => c = sp) a.

Lemma sp_only_ws_only (a : str) : sp_only a -> ws_only a.
Proof. apply Forall_impl. intros c ->. apply is_space_sp. Qed.

Lemma sp_only_sp : sp_only [sp].
Proof. repeat constructor. Qed.

Lemma free_sp_only (x a : str) : free x [sp] -> sp_only a -> free x a.
Proof.
  intros Hf. induction 1 as [|c a -> _ IH]; [apply free_nil|].
  change (sp :: a) with ([sp] ++ a). now apply free_app.
Qed.

Lemma despace_sp_only (a : str) : sp_only a -> despace a = [].
Proof.
  induction 1 as [|c a -> _ IH]; [reflexivity|]. unfold despace in *. cbn [filter].
  now rewrite N.eqb_refl.
Qed.

Lemma despace_idem (u : str) : despace (despace u) = despace u.
Proof.
  unfold despace. induction u as [|c u IH]; [reflexivity|]. cbn [filter].
  destruct (negb (c =? sp)%N) eqn:E; [|exact IH]. cbn [filter]. now rewrite E, IH.
Qed.

Lemma despace_terminated_sp (Q : str) (syl : list str) :
  sp_only Q -> Forall (fun ph : str => ~ In sp ph) syl -> despace (terminated Q syl) = concat syl.
Proof.
  intros HQ H. induction H as [|ph syl Hph _ IH]; [reflexivity|].
  rewrite terminated_cons, !despace_app, IH, (despace_no_sp ph Hph), (despace_sp_only Q HQ).
  reflexivity.
Qed.

Lemma split_go_free (x a r acc : str) : free x a ->
  split_go x (a ++ r) 0 acc = split_go x r 0 (rev a ++ acc).
Proof.
  revert acc. induction a as [|c a IH]; intros acc H; [reflexivity|].
  cbn [app]. rewrite split_go_0_cons, (free_head x a r c H).
  rewrite IH by (eapply free_cons_inv; eauto). cbn [rev]. now rewrite <- app_assoc.
Qed.

Lemma hd_not_sp_of_not_in (x : str) : ~ In sp x -> hd_error x <> Some sp.
Proof. destruct x as [|c x]; [discriminate|]. cbn [hd_error]. intros H E. injection E as ->. apply H. now left. Qed.

Section SplitSyll.
  Variables xs P S W : str.
  Variable f : str -> str.
  Hypothesis Hxs : xs <> [].
  Hypothesis Fs : free xs [sp].
  Hypothesis HS : sp_only S.
  Hypothesis HW : sp_only W.

  (* a syllable body that contains the syllable separator only at its end and that [f] cleans,
     whatever spaces precede it *)
  Definition good_syl (syl : list str) : Prop :=
    only_at_end xs (terminated P syl) = true /\
    forall pad : str, sp_only pad -> f (pad ++ terminated P syl) = concat syl.

  Lemma split_sylls_f (wd : list (list str)) (rest : str) : Forall good_syl wd ->
    forall acc : str, sp_only acc ->
    exists acc' : str, sp_only acc' /\
      map f (split_go xs (concat (map (render_syll (sep3 P (xs ++ S) W)) wd) ++ rest) 0 acc)
      = map (@concat char) wd ++ map f (split_go xs rest 0 acc').
  Proof.
    induction 1 as [|syl wd [Ho Hf] _ IH]; intros acc Hacc.
    - exists acc. split; [exact Hacc|reflexivity].
    - cbn [map concat]. rewrite render_syll3, <- !app_assoc.
      rewrite only_at_end_split_go by assumption.
      rewrite split_go_free by now apply free_sp_only.
      destruct (IH (rev S ++ [])) as (acc' & Hacc' & E).
      { rewrite app_nil_r. now apply Forall_rev. }
      exists acc'. split; [exact Hacc'|]. cbn [map]. rewrite E, Hf by now apply Forall_rev.
      reflexivity.
  Qed.

  Lemma split_render_f (t : utree) (rest : str) : Forall (Forall good_syl) t ->
    forall acc : str, sp_only acc ->
    exists acc' : str, sp_only acc' /\
      map f (split_go xs (render (sep3 P (xs ++ S) W) t ++ rest) 0 acc)
      = sylls_of t ++ map f (split_go xs rest 0 acc').
  Proof.
    unfold render, sylls_of. induction 1 as [|wd t Hwd _ IH]; intros acc Hacc.
    - exists acc. split; [exact Hacc|reflexivity].
    - cbn [map concat]. unfold render_word at 1. cbn [sep3 s_word Render.osep].
      rewrite <- !app_assoc.
      destruct (split_sylls_f wd (W ++ concat (map (render_word (sep3 P (xs ++ S) W)) t) ++ rest)
                  Hwd acc Hacc) as (acc1 & Hacc1 & E1).
      rewrite E1. rewrite split_go_free by now apply free_sp_only.
      destruct (IH (rev W ++ acc1)) as (acc' & Hacc' & E).
      { apply Forall_app. split; [now apply Forall_rev|exact Hacc1]. }
      exists acc'. split; [exact Hacc'|]. now rewrite E, <- app_assoc.
  Qed.

  Hypothesis Hfws : forall a : str, ws_only a -> ws_only (f a).

  Lemma pieces_ws_only (rest acc : str) : ws_only rest -> sp_only acc ->
    Forall ws_only (map f (split_go xs rest 0 acc)).
  Proof.
    intros Hr Ha. apply Forall_map. eapply Forall_impl.
    2:{ apply split_go_ws_only; [exact Hr|now apply sp_only_ws_only]. }
    intros a. apply Hfws.
  Qed.

  Theorem norm_split_render_f (t : utree) (rest : str) :
    Forall (Forall good_syl) t -> Forall tok_ok (sylls_of t) -> ws_only rest ->
    norm_ws (join [sp] (map f (split_on xs (render (sep3 P (xs ++ S) W) t ++ rest))))
    = join [sp] (sylls_of t).
  Proof.
    intros Hg Hok Hr. unfold split_on.
    destruct (split_render_f t rest Hg [] ltac:(constructor)) as (acc' & Hacc' & E). rewrite E.
    destruct (join_app_ws (sylls_of t) (map f (split_go xs rest 0 acc'))
                (pieces_ws_only rest acc' Hr Hacc')) as (w & Hw & E2).
    rewrite E2. now apply norm_ws_join_ws.
  Qed.
End SplitSyll.

(* the cleaning of a padded syllable *)
Lemma clean_pad_syll (xp pad : str) (syl : list str) : xp <> [] -> free xp [sp] ->
  sp_only pad -> Forall (free xp) syl -> Forall (fun ph : str => ~ In sp ph) syl ->
  clean_syll xp (pad ++ terminated ([sp] ++ xp ++ [sp]) syl) = concat syl.
Proof.
  intros Hxp Sp Hpad Hf Hn. unfold clean_syll. rewrite (replace_all_go xp) by exact Hxp.
  rewrite replace_go_free by now apply free_sp_only.
  rewrite <- (app_nil_r (terminated _ syl)).
  rewrite (gen_terminated xp [] ([sp] ++ xp ++ [sp]) ([sp] ++ [] ++ [sp])).
  2:{ intros rest. now apply replace_go_sp_sep_sp. }
  2:{ exact Hf. }
  cbn [replace_go]. rewrite app_nil_r, replace_sp_despace, despace_app.
  rewrite (despace_sp_only pad Hpad). cbn [app].
  apply despace_terminated_sp; [repeat constructor|exact Hn].
Qed.

Lemma clean_pad_ws_syll (pad : str) (syl : list str) :
  sp_only pad -> Forall (fun ph : str => ~ In sp ph) syl ->
  clean_syll [sp] (pad ++ terminated [sp] syl) = concat syl.
Proof.
  intros Hpad Hn. unfold clean_syll. rewrite !replace_sp_despace, despace_idem, despace_app.
  rewrite (despace_sp_only pad Hpad). cbn [app].
  apply despace_terminated_sp; [apply sp_only_sp|exact Hn].
Qed.

Lemma shape_nested_no_sp (t : utree) : tree_shape t ->
  Forall (Forall (Forall (fun ph : str => ~ In sp ph))) t.
Proof.
  intros H. eapply Forall_impl; [|exact (shape_nested_tok t H)]. intros wd Hwd.
  eapply Forall_impl; [|exact Hwd]. intros syl Hsyl.
  eapply Forall_impl; [|exact Hsyl]. intros ph [_ Hw]. now apply ws_free_not_sp.
Qed.

Lemma nested_and (A B : str -> Prop) (t : utree) :
  Forall (Forall (Forall A)) t -> Forall (Forall (Forall B)) t ->
  Forall (Forall (fun syl : list str => Forall A syl /\ Forall B syl)) t.
Proof.
  intros HA HB. rewrite Forall_forall in *. intros wd Hwd.
  specialize (HA wd Hwd). specialize (HB wd Hwd). rewrite Forall_forall in *. intros syl Hsyl.
  split; [now apply HA|now apply HB].
Qed.

Lemma nested_and3 (A B C : str -> Prop) (t : utree) :
  Forall (Forall (Forall A)) t -> Forall (Forall (Forall B)) t -> Forall (Forall (Forall C)) t ->
  Forall (Forall (fun syl : list str => Forall A syl /\ Forall B syl /\ Forall C syl)) t.
Proof.
  intros HA HB HC. rewrite Forall_forall in *. intros wd Hwd.
  specialize (HA wd Hwd). specialize (HB wd Hwd). specialize (HC wd Hwd).
  rewrite Forall_forall in *. intros syl Hsyl.
  split; [now apply HA|split; [now apply HB|now apply HC]].
Qed.

(* ================= a phone separator that is not a space ================= *)

Section PadViews.
  Variables xp xs xw : str.
  Hypothesis Hxp : xp <> [].
  Hypothesis Hxs : xs <> [].
  Hypothesis Hxw : xw <> [].
  Hypothesis Hhp : hd_error xp <> Some sp.
  Hypothesis Hhs : hd_error xs <> Some sp.
  Hypothesis Hhw : hd_error xw <> Some sp.
  Hypothesis Fsp : free xs xp.
  Hypothesis Fsw : free xs xw.
  Hypothesis Fpw : free xp xw.
  (* added for the prepare views (see the _refuted examples below) *)
  Hypothesis Fwp : free xw xp.
  Hypothesis Fws : free xw xs.
  Hypothesis Fps : free xp xs.
  Hypothesis Hnp : ~ In sp xp.
  Hypothesis Hns : ~ In sp xs.

  Variable t : utree.
  Hypothesis Hsh : tree_shape t.
  Hypothesis Hfree : Forall (phone_free xp xs xw) (phones_of t).

  Let Sp : free xp [sp] := free_sp_hd xp Hxp Hhp.
  Let Ss : free xs [sp] := free_sp_hd xs Hxs Hhs.
  Let Sw : free xw [sp] := free_sp_hd xw Hxw Hhw.
  Let Np := nested_p xp xs xw t Hfree.
  Let Ns := nested_s xp xs xw t Hfree.
  Let Nw := nested_w xp xs xw t Hfree.

  Theorem prepare_phone_pad_spec : forall ws : str, ws_only ws ->
    prepare_line (sep3 xp xs xw) UPhone (render_pad xp xs xw t ++ ws) = Ok (join [sp] (phones_of t)).
  Proof.
    intros ws Hws. unfold prepare_line.
    cbn [sep3 s_word s_syll s_phone Prepare.Model.osep]. f_equal.
    rewrite render_pad_alt.
    rewrite (replace_all_go xs) by exact Hxs.
    rewrite (gen_render xs [] ([sp] ++ xp ++ [sp]) ([sp] ++ xp ++ [sp]) (xs ++ [sp]) ([] ++ [sp])
               (xw ++ [sp]) (xw ++ [sp])).
    2:{ intros rest. now apply replace_go_sp_free_sp. }
    2:{ intros rest. now apply replace_go_sep_sp. }
    2:{ intros rest. now apply replace_go_free_sp. }
    2:{ exact Ns. }
    rewrite (replace_all_go xw) by exact Hxw.
    rewrite (gen_render xw [] ([sp] ++ xp ++ [sp]) ([sp] ++ xp ++ [sp]) ([] ++ [sp]) ([] ++ [sp])
               (xw ++ [sp]) ([] ++ [sp])).
    2:{ intros rest. now apply replace_go_sp_free_sp. }
    2:{ intros rest. now apply replace_go_free. }
    2:{ intros rest. now apply replace_go_sep_sp. }
    2:{ exact Nw. }
    rewrite (replace_all_go xp) by exact Hxp.
    rewrite (gen_render xp [sp] ([sp] ++ xp ++ [sp]) ([sp] ++ [sp] ++ [sp]) ([] ++ [sp]) ([] ++ [sp])
               ([] ++ [sp]) ([] ++ [sp])).
    2:{ intros rest. now apply replace_go_sp_sep_sp. }
    2:{ intros rest. now apply replace_go_free. }
    2:{ intros rest. now apply replace_go_free. }
    2:{ exact Np. }
    apply norm_ws_spaced_render.
    - repeat constructor.
    - discriminate.
    - repeat constructor.
    - repeat constructor.
    - now apply shape_nested_tok.
    - repeat apply ws_only_replace_go; try exact Hws; try apply ws_only_nil; apply ws_only_sp.
  Qed.

  (* since fix 7cc02d3 (cut on the syllable separator first): [free xp xs] and the absence of
     spaces inside xp and xs are no longer needed; [free xs xp] now is *)
  Theorem prepare_syll_pad_spec : forall ws : str, ws_only ws ->
    prepare_line (sep3 xp xs xw) USyll (render_pad xp xs xw t ++ ws) = Ok (join [sp] (sylls_of t)).
  Proof.
    intros ws Hws. unfold prepare_line.
    cbn [sep3 s_word s_syll s_phone Prepare.Model.osep]. cbv zeta. f_equal.
    rewrite render_pad_alt.
    rewrite (replace_all_go xw) by exact Hxw.
    rewrite (gen_render xw [] ([sp] ++ xp ++ [sp]) ([sp] ++ xp ++ [sp]) (xs ++ [sp]) (xs ++ [sp])
               (xw ++ [sp]) ([] ++ [sp])).
    2:{ intros rest. now apply replace_go_sp_free_sp. }
    2:{ intros rest. now apply replace_go_free_sp. }
    2:{ intros rest. now apply replace_go_sep_sp. }
    2:{ exact Nw. }
    apply (norm_split_render_f xs ([sp] ++ xp ++ [sp]) [sp] ([] ++ [sp]) (clean_syll xp)).
    - exact Hxs.
    - exact Ss.
    - apply sp_only_sp.
    - apply sp_only_sp.
    - apply clean_syll_ws_only.
    - pose proof (nested_and3 _ _ _ t Ns Np (shape_nested_no_sp t Hsh)) as N.
      eapply Forall_impl; [|exact N]. intros wd Hwd.
      eapply Forall_impl; [|exact Hwd]. intros syl (H1 & H2 & H3). split.
      + apply free_only_at_end. apply free_terminated; [|exact H1].
        apply free_app; [exact Ss|now apply free_app].
      + intros pad Hpad. now apply clean_pad_syll.
    - now apply shape_sylls_tok.
    - apply ws_only_replace_go; [apply ws_only_nil|exact Hws].
  Qed.

  (* the three padded views are equal once the spaces are removed *)
  Theorem views_pad_aligned : forall ws o1 o2 o3 : str, ws_only ws ->
    prepare_line (sep3 xp xs xw) UPhone (render_pad xp xs xw t ++ ws) = Ok o1 ->
    prepare_line (sep3 xp xs xw) USyll (render_pad xp xs xw t ++ ws) = Ok o2 ->
    gold_line (sep3 xp xs xw) (render_pad xp xs xw t ++ ws) = Ok o3 ->
    despace o1 = despace o2 /\ despace o2 = despace o3 /\ despace o1 = concat (phones_of t).
  Proof.
    generalize Fps Hnp Hns. intros _ _ _.   (* no longer used; kept so that the statement is unchanged *)
    intros ws o1 o2 o3 Hws H1 H2 H3.
    rewrite prepare_phone_pad_spec in H1 by exact Hws.
    rewrite prepare_syll_pad_spec in H2 by exact Hws.
    rewrite (gold_pad_spec xp xs xw Hxp Hxs Hxw Hhp Hhs Hhw Fsp Fsw Fpw t Hsh Hfree ws Hws) in H3.
    injection H1 as <-. injection H2 as <-. injection H3 as <-.
    destruct (views_aligned_tok t (shape_phones_tok t Hsh) (shape_sylls_tok t Hsh)
                (shape_words_tok t Hsh)) as (A1 & A2 & A3).
    auto.
  Qed.
End PadViews.

(* ================= the phone separator is one space ================= *)

(* phones followed by one space, separators followed by one space *)
Definition render_pad_ws (xs xw : str) (t : utree) : str :=
  render (sep3 [sp] (xs ++ [sp]) (xw ++ [sp])) t.

Section PadWs.
  Variables xs xw : str.
  Hypothesis Hxs : xs <> [].
  Hypothesis Hxw : xw <> [].
  Hypothesis Hhs : hd_error xs <> Some sp.
  Hypothesis Hhw : hd_error xw <> Some sp.
  Hypothesis Fsw : free xs xw.
  Hypothesis Fws : free xw xs.
  (* no space inside the separators: syllable level (xs) and gold (xw) delete every space first *)
  Hypothesis Hns : ~ In sp xs.
  Hypothesis Hnw : ~ In sp xw.

  Variable t : utree.
  Hypothesis Hsh : tree_shape t.
  Hypothesis Hfree : Forall (phone_free2 xs xw) (phones_of t).

  Let sep := sep3 [sp] xs xw.
  Let Ss : free xs [sp] := free_sp_hd xs Hxs Hhs.
  Let Sw : free xw [sp] := free_sp_hd xw Hxw Hhw.
  Let Ns := nested2_p xs xw t Hfree.
  Let Nw := nested2_w xs xw t Hfree.
  Let Nsp := shape_nested_sp t Hsh.

  Theorem prepare_phone_pad_ws_spec : forall ws : str, ws_only ws ->
    prepare_line sep UPhone (render_pad_ws xs xw t ++ ws) = Ok (join [sp] (phones_of t)).
  Proof.
    intros ws Hws. unfold prepare_line, sep, render_pad_ws.
    cbn [sep3 s_word s_syll s_phone Prepare.Model.osep]. f_equal.
    assert (Hsp : [sp] <> []) by discriminate.
    rewrite (replace_all_go xs) by exact Hxs.
    rewrite (gen_render xs [] [sp] [sp] (xs ++ [sp]) ([] ++ [sp]) (xw ++ [sp]) (xw ++ [sp])).
    2:{ intros rest. now apply replace_go_free. }
    2:{ intros rest. now apply replace_go_sep_sp. }
    2:{ intros rest. now apply replace_go_free_sp. }
    2:{ exact Ns. }
    rewrite (replace_all_go xw) by exact Hxw.
    rewrite (gen_render xw [] [sp] [sp] ([] ++ [sp]) ([] ++ [sp]) (xw ++ [sp]) ([] ++ [sp])).
    2:{ intros rest. now apply replace_go_free. }
    2:{ intros rest. now apply replace_go_free. }
    2:{ intros rest. now apply replace_go_sep_sp. }
    2:{ exact Nw. }
    rewrite (replace_all_go [sp]) by exact Hsp.
    rewrite (gen_render [sp] [sp] [sp] [sp] ([] ++ [sp]) [sp] ([] ++ [sp]) [sp]).
    2:{ intros rest. now apply replace_go_at_sep. }
    2:{ intros rest. now apply (replace_go_at_sep [sp] [sp]). }
    2:{ intros rest. now apply (replace_go_at_sep [sp] [sp]). }
    2:{ exact Nsp. }
    apply norm_ws_spaced_render; try apply ws_only_sp.
    - discriminate.
    - now apply shape_nested_tok.
    - repeat apply ws_only_replace_go; try exact Hws; try apply ws_only_nil; apply ws_only_sp.
  Qed.

  Lemma prepare_syll_pad_ws_core : free xs [sp] -> forall ws : str, ws_only ws ->
    prepare_line sep USyll (render_pad_ws xs xw t ++ ws) = Ok (join [sp] (sylls_of t)).
  Proof.
    intros Fs ws Hws. unfold prepare_line, sep, render_pad_ws.
    cbn [sep3 s_word s_syll s_phone Prepare.Model.osep]. cbv zeta. f_equal.
    rewrite (replace_all_go xw) by exact Hxw.
    rewrite (gen_render xw [] [sp] [sp] (xs ++ [sp]) (xs ++ [sp]) (xw ++ [sp]) ([] ++ [sp])).
    2:{ intros rest. now apply replace_go_free. }
    2:{ intros rest. now apply replace_go_free_sp. }
    2:{ intros rest. now apply replace_go_sep_sp. }
    2:{ exact Nw. }
    apply (norm_split_render_f xs [sp] [sp] ([] ++ [sp]) (clean_syll [sp])).
    - exact Hxs.
    - exact Fs.
    - apply sp_only_sp.
    - apply sp_only_sp.
    - apply clean_syll_ws_only.
    - pose proof (nested_and _ _ t Ns (shape_nested_no_sp t Hsh)) as N.
      eapply Forall_impl; [|exact N]. intros wd Hwd.
      eapply Forall_impl; [|exact Hwd]. intros syl [H1 H3]. split.
      + apply free_only_at_end. now apply free_terminated.
      + intros pad Hpad. now apply clean_pad_ws_syll.
    - now apply shape_sylls_tok.
    - apply ws_only_replace_go; [apply ws_only_nil|exact Hws].
  Qed.

  (* the statement of before fix 7cc02d3 (no space inside xs), still true *)
  Theorem prepare_syll_pad_ws_spec : forall ws : str, ws_only ws ->
    prepare_line sep USyll (render_pad_ws xs xw t ++ ws) = Ok (join [sp] (sylls_of t)).
  Proof.
    apply prepare_syll_pad_ws_core. apply free_sp_hd; [exact Hxs|now apply hd_not_sp_of_not_in].
  Qed.

  (* what the fix bought: xs may contain spaces, as long as it does not begin with one *)
  Theorem prepare_syll_pad_ws_spec_spaces : forall ws : str, ws_only ws ->
    prepare_line sep USyll (render_pad_ws xs xw t ++ ws) = Ok (join [sp] (sylls_of t)).
  Proof. apply prepare_syll_pad_ws_core. exact Ss. Qed.

  Theorem gold_pad_ws_spec : forall ws : str, ws_only ws ->
    gold_line sep (render_pad_ws xs xw t ++ ws) = Ok (join [sp] (words_of t)).
  Proof.
    intros ws Hws. unfold gold_line, sep, render_pad_ws.
    cbn [sep3 s_word s_syll s_phone Prepare.Model.osep]. cbv zeta. f_equal.
    assert (Hsp : [sp] <> []) by discriminate.
    rewrite (replace_all_go xs) by exact Hxs.
    rewrite (gen_render xs [] [sp] [sp] (xs ++ [sp]) ([] ++ [sp]) (xw ++ [sp]) (xw ++ [sp])).
    2:{ intros rest. now apply replace_go_free. }
    2:{ intros rest. now apply replace_go_sep_sp. }
    2:{ intros rest. now apply replace_go_free_sp. }
    2:{ exact Ns. }
    rewrite (replace_all_go [sp]) by exact Hsp.
    rewrite (gen_render [sp] [] [sp] [] ([] ++ [sp]) [] (xw ++ [sp]) xw).
    2:{ intros rest. apply delete_sp_one. }
    2:{ intros rest. apply delete_sp_one. }
    2:{ intros rest. now apply delete_sp_after. }
    2:{ exact Nsp. }
    rewrite render_word_only.
    rewrite <- !replace_all_go by assumption.
    apply gold_tail.
    - exact Hxw.
    - now apply shape_words_tok.
    - apply free_words_only_at_end. exact Nw.
    - repeat apply replace_all_ws_only; try exact Hws; try apply ws_only_nil; apply ws_only_sp.
  Qed.

  Theorem views_pad_ws_aligned : forall ws o1 o2 o3 : str, ws_only ws ->
    prepare_line sep UPhone (render_pad_ws xs xw t ++ ws) = Ok o1 ->
    prepare_line sep USyll (render_pad_ws xs xw t ++ ws) = Ok o2 ->
    gold_line sep (render_pad_ws xs xw t ++ ws) = Ok o3 ->
    despace o1 = despace o2 /\ despace o2 = despace o3 /\ despace o1 = concat (phones_of t).
  Proof.
    intros ws o1 o2 o3 Hws H1 H2 H3.
    rewrite prepare_phone_pad_ws_spec in H1 by exact Hws.
    rewrite prepare_syll_pad_ws_spec in H2 by exact Hws.
    rewrite gold_pad_ws_spec in H3 by exact Hws.
    injection H1 as <-. injection H2 as <-. injection H3 as <-.
    destruct (views_aligned_tok t (shape_phones_tok t Hsh) (shape_sylls_tok t Hsh)
                (shape_words_tok t Hsh)) as (A1 & A2 & A3).
    auto.
  Qed.
End PadWs.

(* ================= syllable level undefined (since fix 7cc02d3: no TypeError any more) ================= *)

(* prepare at syllable level with no syllable separator cuts the line on white space:
   with a white-space-free phone separator the whole utterance is one chunk, with a space as
   phone separator the chunks are the phones *)

Lemma norm_ws_ws_free (c : str) : ws_free c -> norm_ws c = c.
Proof.
  intros H. unfold norm_ws. rewrite strip_ws_free by exact H.
  rewrite <- (app_nil_r c) at 1. rewrite collapse_ws_free_app by exact H. apply app_nil_r.
Qed.

Section SyllUndefined.
  Variables xp xw : str.
  Hypothesis Hxp : xp <> [].
  Hypothesis Hxw : xw <> [].
  Hypothesis Fwp : free xw xp.
  Variable t : utree.
  Hypothesis Ht : tree2_ok xp xw t.
  Hypothesis Hfree : Forall (phone_free2 xp xw) (phones_of t).

  Lemma undefined_stage_w (ws : str) :
    replace_all xw [] (render (sep2 xp xw) t ++ ws) = terminated xp (phones_of t) ++ replace_all xw [] ws.
  Proof.
    rewrite render2_as3.
    rewrite (replace_all_render_rest xw [] Hxw xp [] xw
               (or_intror Fwp) (or_intror (free_nil xw)) (or_introl eq_refl) t _ (nested2_w xp xw t Hfree)).
    rewrite sub_same, sub_nil, sub_free by assumption. now rewrite render_phone_only.
  Qed.

  Lemma tree2_only_p : Forall (fun ph : str => only_at_end xp ph = true) (phones_of t).
  Proof.
    unfold phones_of. apply Forall_concat. eapply Forall_impl; [|exact Ht].
    intros wd (_ & Hp & _). eapply Forall_impl; [|exact Hp]. now intros ph (_ & _ & H).
  Qed.

  (* the phone separator contains no white space: one chunk, all the phones concatenated *)
  Theorem prepare_syll_undefined_spec : ws_free xp -> forall ws : str, ws_only ws ->
    prepare_line (sep2 xp xw) USyll (render (sep2 xp xw) t ++ ws) = Ok (concat (phones_of t)).
  Proof.
    intros Hwp ws Hws. unfold prepare_line.
    cbn [sep2 s_word s_syll s_phone Prepare.Model.osep]. cbv zeta. f_equal.
    rewrite undefined_stage_w.
    pose proof (tree2_phones_tok xp xw t Ht) as Hok.
    assert (HX : ws_free (terminated xp (phones_of t))).
    { unfold terminated. apply ws_free_concat. apply Forall_map.
      eapply Forall_impl; [|exact Hok]. intros ph [_ H]. apply ws_free_app. now split. }
    assert (Hc : ws_free (concat (phones_of t))).
    { apply ws_free_concat. eapply Forall_impl; [|exact Hok]. now intros ph [_ H]. }
    unfold split_ws. rewrite split_ws_go_free by exact HX. rewrite app_nil_r.
    rewrite split_ws_go_only_ws by (apply replace_all_ws_only; [apply ws_only_nil|exact Hws]).
    destruct (rev (terminated xp (phones_of t))) as [|c q] eqn:E.
    - apply (f_equal (@rev char)) in E. rewrite rev_involutive in E. cbn [rev] in E.
      destruct (phones_of t) as [|ph l]; [reflexivity|].
      rewrite terminated_cons in E. apply app_eq_nil in E as [_ E].
      apply app_eq_nil in E as [E _]. congruence.
    - rewrite <- E, rev_involutive. cbn [map join]. unfold terminated at 1.
      rewrite replace_all_joined by (try exact Hxp; exact tree2_only_p).
      rewrite replace_all_no_infix.
      + now apply norm_ws_ws_free.
      + apply free_no_infix; [discriminate|]. now apply free_sp, ws_free_not_sp.
  Qed.
End SyllUndefined.

(* the phone separator is a space: the chunks are the phones *)
Theorem prepare_syll_undefined_ws_spec (xw : str) (t : utree) (ws : str) :
  xw <> [] -> free xw [sp] -> tree2_ok [sp] xw t -> Forall (phone_free2 [sp] xw) (phones_of t) ->
  ws_only ws ->
  prepare_line (sep2 [sp] xw) USyll (render (sep2 [sp] xw) t ++ ws) = Ok (join [sp] (phones_of t)).
Proof.
  intros Hxw Fwp Ht Hfree Hws. unfold prepare_line.
  cbn [sep2 s_word s_syll s_phone Prepare.Model.osep]. cbv zeta. f_equal.
  rewrite (undefined_stage_w [sp] xw Hxw Fwp t Hfree).
  pose proof (tree2_phones_tok [sp] xw t Ht) as Hok.
  unfold split_ws. rewrite (split_terminated [sp] ws_only_sp ltac:(discriminate)) by exact Hok.
  rewrite split_ws_go_only_ws by (apply replace_all_ws_only; [apply ws_only_nil|exact Hws]).
  rewrite app_nil_r.
  rewrite (map_id_Forall (fun x : str => replace_all [sp] [] (replace_all [sp] [] x))).
  2:{ eapply Forall_impl; [|exact Hok]. intros ph Hph. cbv beta. rewrite (replace_sp_tok ph Hph). exact (replace_sp_tok ph Hph). }
  rewrite <- (app_nil_r (join [sp] (phones_of t))) at 1.
  apply norm_ws_join_ws; [exact Hok|apply ws_only_nil].
Qed.

(* ================= tests and refutations (vm_compute) ================= *)

Definition hd_not_sp_b (x : str) : bool :=
  match x with c :: _ => negb (c =? sp)%N | [] => true end.
Definition nonnil {A : Type} (l : list A) : bool := match l with [] => false | _ => true end.
Definition tree_shape_b (t : utree) : bool :=
  forallb (fun wd : list (list str) =>
    nonnil wd &&
    forallb (fun syl : list str =>
      nonnil syl &&
      forallb (fun ph : str => nonnil ph && forallb (fun c : char => negb (is_space c)) ph) syl) wd) t.

(* the hypotheses of Section GoldPad, as a boolean *)
Definition gold_pad_hyp_b (xp xs xw : str) (t : utree) : bool :=
  nonnil xp && nonnil xs && nonnil xw &&
  hd_not_sp_b xp && hd_not_sp_b xs && hd_not_sp_b xw &&
  free_b xs xp && free_b xs xw && free_b xp xw &&
  tree_shape_b t && forallb (phone_free_b xp xs xw) (phones_of t).

Definition is_ok (r : result str) (e : str) : bool :=
  match r with Ok o => str_eqb o e | Raise _ => false end.

Definition three_views_pad (xp xs xw : str) (t : utree) (ws : str) : bool * bool * bool :=
  (is_ok (prepare_line (sep3 xp xs xw) UPhone (render_pad xp xs xw t ++ ws)) (join [sp] (phones_of t)),
   is_ok (prepare_line (sep3 xp xs xw) USyll (render_pad xp xs xw t ++ ws)) (join [sp] (sylls_of t)),
   is_ok (gold_line (sep3 xp xs xw) (render_pad xp xs xw t ++ ws)) (join [sp] (words_of t))).

Definition three_views_pad_ws (xs xw : str) (t : utree) (ws : str) : bool * bool * bool :=
  (is_ok (prepare_line (sep3 [sp] xs xw) UPhone (render_pad_ws xs xw t ++ ws)) (join [sp] (phones_of t)),
   is_ok (prepare_line (sep3 [sp] xs xw) USyll (render_pad_ws xs xw t ++ ws)) (join [sp] (sylls_of t)),
   is_ok (gold_line (sep3 [sp] xs xw) (render_pad_ws xs xw t ++ ws)) (join [sp] (words_of t))).

Definition us_p : str := [95]%N.   (* "_" *)
Definition us_s : str := [61]%N.   (* "=" *)
Definition us_w : str := [35]%N.   (* "#" *)
Definition nl : str := [10]%N.

(* the statements hold on ("_", "=", "#"), ("-", ";esyll", ";eword") and, for a space as
   phone separator, on (";esyll", ";eword") and ("=", "#") *)
Example pad_tests :
  three_views_pad us_p us_s us_w ex_t nl = (true, true, true) /\
  three_views_pad pd_p ex_s ex_w ex_t nl = (true, true, true) /\
  three_views_pad_ws ex_s ex_w ex_t nl = (true, true, true) /\
  three_views_pad_ws us_s us_w ex_t nl = (true, true, true).
Proof. vm_compute. repeat split; reflexivity. Qed.

(* ---- the hypotheses of GoldPad are not enough for the two prepare views ---- *)

Definition rf_abc : str := [97; 98; 99]%N.   (* "abc" *)
Definition rf_b : str := [98]%N.             (* "b" *)
Definition rf_t : utree := [[[[104]; [101]]]]%N.     (* one word, one syllable, phones h e *)

(* [free xw xp] is needed: xp = "abc", xw = "b"; deleting "b" first breaks the phone separators *)
Example prepare_phone_pad_spec_refuted :
  gold_pad_hyp_b rf_abc us_s rf_b rf_t = true /\
  prepare_line (sep3 rf_abc us_s rf_b) UPhone (render_pad rf_abc us_s rf_b rf_t)
  = Ok [104; 32; 97; 99; 32; 101; 32; 97; 99]%N /\                (* "h ac e ac" *)
  join [sp] (phones_of rf_t) = [104; 32; 101]%N.
Proof. vm_compute. repeat split; reflexivity. Qed.

Example prepare_syll_pad_spec_refuted :
  gold_pad_hyp_b rf_abc us_s rf_b rf_t = true /\
  prepare_line (sep3 rf_abc us_s rf_b) USyll (render_pad rf_abc us_s rf_b rf_t)
  = Ok [104; 97; 99; 101; 97; 99]%N /\                            (* "haceac" *)
  join [sp] (sylls_of rf_t) = [104; 101]%N.
Proof. vm_compute. repeat split; reflexivity. Qed.

(* [free xw xs] is needed at syllable level: xs = "abc", xw = "b" *)
Example prepare_syll_pad_spec_refuted_ws :
  gold_pad_hyp_b us_p rf_abc rf_b rf_t = true /\ free_b rf_b us_p = true /\
  is_ok (prepare_line (sep3 us_p rf_abc rf_b) USyll (render_pad us_p rf_abc rf_b rf_t))
        (join [sp] (sylls_of rf_t)) = false.
Proof. vm_compute. repeat split; reflexivity. Qed.

(* since fix 7cc02d3 [free xp xs] is no longer needed at syllable level (xs = "abc", xp = "b"):
   this was a counterexample before the fix *)
Example prepare_syll_pad_no_free_ps :
  gold_pad_hyp_b rf_b rf_abc us_w rf_t = true /\ free_b rf_b rf_abc = false /\
  is_ok (prepare_line (sep3 rf_b rf_abc us_w) USyll (render_pad rf_b rf_abc us_w rf_t))
        (join [sp] (sylls_of rf_t)) = true.
Proof. vm_compute. repeat split; reflexivity. Qed.

(* ... nor the absence of spaces inside xp ("a b") and xs ("= ="): both were counterexamples *)
Definition rf_a_b : str := [97; 32; 98]%N.
Definition rf_eq_eq : str := [61; 32; 61]%N.
Definition rf_sh_sh : str := [35; 32; 35]%N.

Example prepare_syll_pad_inner_space_p :
  gold_pad_hyp_b rf_a_b us_s us_w rf_t = true /\
  is_ok (prepare_line (sep3 rf_a_b us_s us_w) USyll (render_pad rf_a_b us_s us_w rf_t))
        (join [sp] (sylls_of rf_t)) = true.
Proof. vm_compute. repeat split; reflexivity. Qed.

Example prepare_syll_pad_inner_space_s :
  gold_pad_hyp_b us_p rf_eq_eq us_w rf_t = true /\
  is_ok (prepare_line (sep3 us_p rf_eq_eq us_w) USyll (render_pad us_p rf_eq_eq us_w rf_t))
        (join [sp] (sylls_of rf_t)) = true.
Proof. vm_compute. repeat split; reflexivity. Qed.

(* but [free xs xp] is needed now, since the line is cut on xs before xp is deleted:
   xp = "a=b", xs = "="; the hypotheses of the statement of before the fix all hold *)
Definition rf_aeb : str := [97; 61; 98]%N.
Example prepare_syll_pad_spec_old_refuted :
  free_b us_w rf_aeb = true /\ free_b us_w us_s = true /\ free_b rf_aeb us_s = true /\
  hd_not_sp_b us_w = true /\ tree_shape_b rf_t = true /\
  forallb (phone_free_b rf_aeb us_s us_w) (phones_of rf_t) = true /\
  free_b us_s rf_aeb = false /\
  prepare_line (sep3 rf_aeb us_s us_w) USyll (render_pad rf_aeb us_s us_w rf_t)
  = Ok [104; 97; 32; 98; 101; 97; 32; 98]%N /\                     (* "ha bea b" *)
  join [sp] (sylls_of rf_t) = [104; 101]%N.
Proof. vm_compute. repeat split; reflexivity. Qed.

(* space as phone separator: a space inside xw breaks the gold *)
Definition pad_ws_hyp_b (xs xw : str) (t : utree) : bool :=
  nonnil xs && nonnil xw && hd_not_sp_b xs && hd_not_sp_b xw && free_b xs xw && free_b xw xs &&
  tree_shape_b t && forallb (fun ph : str => free_b xs ph && free_b xw ph) (phones_of t).

(* since fix 7cc02d3 a space inside xs ("= =") is harmless at syllable level (it was a
   counterexample before) *)
Example prepare_syll_pad_ws_inner_space :
  pad_ws_hyp_b rf_eq_eq us_w rf_t = true /\
  three_views_pad_ws rf_eq_eq us_w rf_t [] = (true, true, true).
Proof. vm_compute. repeat split; reflexivity. Qed.

Example gold_pad_ws_spec_refuted :
  pad_ws_hyp_b us_s rf_sh_sh rf_t = true /\
  three_views_pad_ws us_s rf_sh_sh rf_t [] = (true, true, false).
Proof. vm_compute. repeat split; reflexivity. Qed.

Print Assumptions norm_ws_split_ws.
Print Assumptions prepare_phone_pad_spec.
Print Assumptions prepare_syll_pad_spec.
Print Assumptions views_pad_aligned.
Print Assumptions prepare_phone_pad_ws_spec.
Print Assumptions prepare_syll_pad_ws_spec.
Print Assumptions prepare_syll_pad_ws_spec_spaces.
Print Assumptions gold_pad_ws_spec.
Print Assumptions views_pad_ws_aligned.
Print Assumptions prepare_syll_undefined_spec.
Print Assumptions prepare_syll_undefined_ws_spec.
