(* Model of wordseg/prepare.py: check_utterance, prepare, gold and the part of
   the wordseg-prep command that decides which lines go to which file. *)
From WS Require Import Base.Py Base.Str Separator.Model.

(* string.punctuation *)
Definition punctuation : list char :=
  [33;34;35;36;37;38;39;40;41;42;43;44;45;46;47;58;59;60;61;62;63;64;91;92;93;94;95;96;123;124;125;126]%N.
Definition is_punct (c : char) : bool := existsb (fun p => (c =? p)%N) punctuation.

Fixpoint zip_adj {A} (l : list A) : list (A * A) :=
  match l with
  | x :: ((y :: _) as r) => (x, y) :: zip_adj r
  | _ => []
  end.

(* utterance.split(separator.phone): split(None) splits on whitespace *)
Definition split_py (p : option str) (s : str) : list str :=
  match p with None => split_ws s | Some x => split_on x s end.

Definition begins_with (o : option str) (utt : str) : bool :=
  match o with Some x => nonempty x && prefix_b x utt | None => false end.

Definition check_utterance (utt : str) (sep : separator) (check_punct : bool) : result unit :=
  match utt with
  | [] => Raise ValueError
  | _ =>
    if negb (nonempty (strip_with (levels_for sep None) utt)) then Raise ValueError
    else if check_punct && existsb is_punct (remove_all sep utt) then Raise ValueError
    else if begins_with (s_phone sep) utt || begins_with (s_syll sep) utt || begins_with (s_word sep) utt
    then Raise ValueError
    else match s_word sep with
         | None => Raise TypeError                        (* utterance.endswith(None) *)
         | Some w =>
           if negb (suffix_b w utt) then Raise ValueError
           else match s_syll sep with
                | Some sy =>
                  if infix_b sy utt &&
                     negb (forallb (fun ab => if str_eqb (snd ab) w then str_eqb (fst ab) sy else true)
                                   (zip_adj (split_py (s_phone sep) utt)))
                  then Raise ValueError else Ok tt
                | None => Ok tt
                end
         end
  end.

Definition osep (o : option str) : str := match o with Some x => x | None => [] end.

Inductive unit_level := UPhone | USyll.

(* func(line) then utils.strip *)
Definition prepare_line (sep : separator) (u : unit_level) (line : str) : result str :=
  match s_word sep with
  | None => Raise TypeError
  | Some w =>
    match u with
    | UPhone =>
      let l1 := replace_all (osep (s_syll sep)) [] line in
      let l2 := replace_all w [] l1 in
      let l3 := replace_all (match s_phone sep with Some p => p | None => [sp] end) [sp] l2 in
      Ok (norm_ws l3)
    | USyll =>
      match s_syll sep with
      | None =>
        (* str.split(None): the chunks between white space (before fix 7cc02d3: TypeError from replace(None, ' ')) *)
        let l1 := replace_all w [] line in
        Ok (norm_ws (join [sp] (map (fun x => replace_all [sp] [] (replace_all (osep (s_phone sep)) [] x)) (split_ws l1))))
      | Some sy =>
        (* since fix 7cc02d3: cut on the syllable separator first, then delete the phone separators and the
           spaces inside each syllable, and join by single spaces (before: every space was deleted first) *)
        let l1 := replace_all w [] line in
        let syls := split_on sy l1 in
        Ok (norm_ws (join [sp] (map (fun x => replace_all [sp] [] (replace_all (osep (s_phone sep)) [] x)) syls)))
      end
    end
  end.

(* what the generator yields, and how it ends *)
Inductive pend := PDone | PError (e : exn) (line : nat).   (* ValueError('line N: ...') or a bare exception (line 0) *)

Fixpoint prepare_loop (text : list str) (sep : separator) (u : unit_level)
         (check_punct tolerant : bool) (n : nat) : list str * pend :=
  match text with
  | [] => ([], PDone)
  | raw :: r =>
    let line := strip raw in
    match line with
    | [] => prepare_loop r sep u check_punct tolerant (S n)
    | _ =>
      match check_utterance line sep check_punct with
      | Raise ValueError =>
        if tolerant then prepare_loop r sep u check_punct tolerant (S n)
        else ([], PError ValueError (S n))
      | Raise e => ([], PError e 0)
      | Ok _ =>
        match prepare_line sep u line with
        | Raise ValueError => if tolerant then prepare_loop r sep u check_punct tolerant (S n)
                              else ([], PError ValueError (S n))
        | Raise e => ([], PError e 0)
        | Ok o => let '(os, e) := prepare_loop r sep u check_punct tolerant (S n) in (o :: os, e)
        end
      end
    end
  end.

Definition prepare (text : list str) (sep : separator) (u : unit_level) (check_punct tolerant : bool)
  : list str * pend := prepare_loop text sep u check_punct tolerant 0.

(* ' '.join(word.replace(' ', '') for word in line.split(separator.word)); split(None) splits on whitespace *)
Definition gold_line (sep : separator) (line : str) : result str :=
  let l1 := replace_all (osep (s_syll sep)) [] line in
  let l2 := replace_all (osep (s_phone sep)) [] l1 in
  let words := match s_word sep with Some w => split_on w l2 | None => split_ws l2 end in
  Ok (norm_ws (join [sp] (map (replace_all [sp] []) words))).

Definition gold (text : list str) (sep : separator) : result (list str) :=
  do ls <- mapM (gold_line sep) text;
  Ok (filter nonempty ls).

(* wordseg-prep main(): which lines reach the prepared output and the gold file *)
Definition is_valid (line : str) (sep : separator) (check_punct : bool) : bool :=
  match check_utterance line sep check_punct with Ok _ => true | Raise _ => false end.

Definition prep_main (text : list str) (sep : separator) (u : unit_level) (check_punct tolerant : bool)
  : (list str * pend) * option (result (list str)) :=
  let p := prepare text sep u check_punct tolerant in
  match snd p with
  | PError _ _ => (p, None)                       (* the command stops before writing the gold *)
  | PDone =>
    let gtext := if tolerant then filter (fun l => is_valid (strip l) sep check_punct) text else text in
    (p, Some (gold gtext sep))
  end.

(* ---------- wire ---------- *)
Definition j_pend (e : pend) : J :=
  match e with PDone => JL [] | PError x n => JL [JI (exn_code x); j_nat n] end.

Definition d_unit (j : J) : option unit_level :=
  match j with JI 0 => Some UPhone | JI 1 => Some USyll | _ => None end%Z.

Definition run_check_utterance (j : J) : J :=
  match j with
  | JL [utt; sepj; cp] =>
    match d_str utt, d_sep sepj, d_bool cp with
    | Some utt, Some sep, Some cp => j_result (fun _ => JL []) (check_utterance utt sep cp)
    | _, _, _ => j_bad end
  | _ => j_bad end.

Definition run_prepare (j : J) : J :=
  match j with
  | JL [text; sepj; u; cp; tol] =>
    match d_list d_str text, d_sep sepj, d_unit u, d_bool cp, d_bool tol with
    | Some text, Some sep, Some u, Some cp, Some tol =>
      let r := prepare text sep u cp tol in
      JL [j_list j_str (fst r); j_pend (snd r)]
    | _, _, _, _, _ => j_bad end
  | _ => j_bad end.

Definition run_gold (j : J) : J :=
  match j with
  | JL [text; sepj] =>
    match d_list d_str text, d_sep sepj with
    | Some text, Some sep => j_result (j_list j_str) (gold text sep)
    | _, _ => j_bad end
  | _ => j_bad end.

Definition run_prep_main (j : J) : J :=
  match j with
  | JL [text; sepj; u; cp; tol] =>
    match d_list d_str text, d_sep sepj, d_unit u, d_bool cp, d_bool tol with
    | Some text, Some sep, Some u, Some cp, Some tol =>
      let r := prep_main text sep u cp tol in
      JL [j_list j_str (fst (fst r)); j_pend (snd (fst r));
          match snd r with None => JL [] | Some g => JL [j_result (j_list j_str) g] end]
    | _, _, _, _, _ => j_bad end
  | _ => j_bad end.
