(* C04, generic layer: successive str.replace on the compact rendering of an utterance
   tree, and utils.strip (norm_ws) on space-terminated tokens. *)
From WS Require Import Base.Py Base.Str Separator.Model Separator.Render.
From WS Require Import Separator.StrLemmas Separator.StripLemmas Separator.ProofsTree
  Separator.ProofsTwo Separator.ProofsWsPhone.
From WS Require Import Prepare.Model Prepare.Proofs.

(* ---------- "x cannot start inside b", whatever follows b ---------- *)

Definition free (x b : str) : Prop :=
  forall v u r : str, b = v ++ u -> u <> [] -> prefix_b x (u ++ r) = false.

Fixpoint ne_tails (b : str) : list str :=
  match b with
  | [] => []
  | _ :: b' => b :: ne_tails b'
  end.

(* decidable form: no non-empty suffix of b is prefix-comparable with x *)
Definition free_b (x b : str) : bool :=
  forallb (fun u : str => negb (prefix_b x u) && negb (prefix_b u x)) (ne_tails b).

Lemma ne_tails_In (b v u : str) : b = v ++ u -> u <> [] -> In u (ne_tails b).
Proof.
  revert b. induction v as [|c v IH]; intros b -> Hu.
  - cbn [app]. destruct u as [|c u]; [congruence|]. now left.
  - cbn [app ne_tails]. right. now apply IH.
Qed.

Lemma prefix_b_comparable (x u r : str) :
  prefix_b x (u ++ r) = true -> prefix_b x u = true \/ prefix_b u x = true.
Proof.
  revert u. induction x as [|c x IH]; intros u H; [now left|].
  destruct u as [|d u]; [now right|].
  cbn [app prefix_b] in *. apply andb_true_iff in H as [Hc H]. rewrite Hc.
  apply N.eqb_eq in Hc. subst d. rewrite N.eqb_refl. cbn [andb].
  now apply IH.
Qed.

Lemma free_b_sound (x b : str) : free_b x b = true -> free x b.
Proof.
  unfold free_b, free. rewrite forallb_forall. intros H v u r E Hu.
  specialize (H u (ne_tails_In b v u E Hu)). apply andb_true_iff in H as [H1 H2].
  destruct (prefix_b x (u ++ r)) eqn:P; [|reflexivity].
  apply prefix_b_comparable in P as [P|P]; rewrite P in *; discriminate.
Qed.

Lemma free_nil (x : str) : free x [].
Proof.
  intros v u r E Hu. symmetry in E. apply app_eq_nil in E as [_ E]. congruence.
Qed.

Lemma free_cons_inv (x b : str) (c : char) : free x (c :: b) -> free x b.
Proof. intros H v u r E Hu. apply (H (c :: v) u r); [now rewrite E|exact Hu]. Qed.

Lemma free_head (x b r : str) (c : char) : free x (c :: b) -> prefix_b x (c :: b ++ r) = false.
Proof. intros H. apply (H [] (c :: b) r); [reflexivity|discriminate]. Qed.

Lemma free_app (x a b : str) : free x a -> free x b -> free x (a ++ b).
Proof.
  intros Ha Hb v u r E Hu.
  apply app_eq_app in E as [l [[E1 E2]|[E1 E2]]].
  - subst u. destruct l as [|c l].
    + cbn [app]. apply (Hb [] b r); [reflexivity|]. cbn [app] in Hu. exact Hu.
    + rewrite <- app_assoc. apply (Ha v (c :: l) (b ++ r)); [exact E1|discriminate].
  - apply (Hb l u r); [exact E2|exact Hu].
Qed.

Lemma free_concat (x : str) (l : list str) : Forall (free x) l -> free x (concat l).
Proof.
  induction 1 as [|a l Ha _ IH]; cbn [concat]; [apply free_nil|now apply free_app].
Qed.

Lemma free_neq (x b : str) : free x b -> b <> [] -> b <> x.
Proof.
  intros H Hb ->. specialize (H [] x [] eq_refl Hb). rewrite app_nil_r, prefix_b_refl in H.
  discriminate.
Qed.

Lemma free_no_infix (x b : str) : x <> [] -> free x b -> infix_b x b = false.
Proof.
  intros Hx. induction b as [|c b IH]; intros H.
  - rewrite infix_b_nil. now rewrite prefix_b_nil_r.
  - rewrite infix_b_cons, IH by (eapply free_cons_inv; eauto). rewrite orb_false_r.
    pose proof (free_head x b [] c H) as P. now rewrite app_nil_r in P.
Qed.

Lemma free_sp (b : str) : ~ In sp b -> free [sp] b.
Proof.
  intros H v u r -> Hu. destruct u as [|c u]; [congruence|].
  cbn [app prefix_b]. destruct (N.eqb_spec sp c) as [E|E]; [|reflexivity].
  exfalso. apply H. apply in_or_app. right. left. now symmetry.
Qed.

Lemma ws_free_not_sp (b : str) : ws_free b -> ~ In sp b.
Proof.
  intros H Hin. unfold ws_free in H. rewrite Forall_forall in H.
  specialize (H sp Hin). rewrite is_space_sp in H. discriminate.
Qed.

(* ---------- one replacement over a string made of blocks ---------- *)

Lemma replace_go_free (x new a rest : str) : free x a ->
  replace_go x new (a ++ rest) 0 = a ++ replace_go x new rest 0.
Proof.
  induction a as [|c a IH]; intros H; [reflexivity|].
  cbn [app]. rewrite replace_go_0_cons.
  rewrite (free_head x a rest c H). f_equal. apply IH. eapply free_cons_inv; eauto.
Qed.

(* what a block becomes *)
Definition sub (x new y : str) : str := if str_eqb y x then new else y.
(* a block is either the replaced separator or cannot host the start of an occurrence *)
Definition blk_ok (x y : str) : Prop := y = x \/ free x y.

Lemma sub_same (x new : str) : sub x new x = new.
Proof. unfold sub. now rewrite str_eqb_refl. Qed.

Lemma sub_free (x new y : str) : x <> [] -> free x y -> sub x new y = y.
Proof.
  intros Hx H. unfold sub. destruct (str_eqb_spec y x) as [E|E]; [|reflexivity].
  destruct y as [|c y]; [now subst x|].
  exfalso. revert E. apply free_neq; [exact H|discriminate].
Qed.

Lemma sub_nil (x new : str) : x <> [] -> sub x new [] = [].
Proof. intros Hx. apply sub_free; [exact Hx|apply free_nil]. Qed.

Lemma replace_go_blk (x new y rest : str) : x <> [] -> blk_ok x y ->
  replace_go x new (y ++ rest) 0 = sub x new y ++ replace_go x new rest 0.
Proof.
  intros Hx [->|H].
  - rewrite sub_same. now apply replace_go_at_sep.
  - rewrite sub_free by assumption. now apply replace_go_free.
Qed.

Section ReplaceTree.
  Variables x new : str.
  Hypothesis Hx : x <> [].
  Variables p s w : str.
  Hypothesis Hp : blk_ok x p.
  Hypothesis Hs : blk_ok x s.
  Hypothesis Hw : blk_ok x w.

  Let R (u : str) : str := replace_go x new u 0.
  Let sep := sep3 p s w.
  Let sep' := sep3 (sub x new p) (sub x new s) (sub x new w).

  Lemma replace_terminated (toks : list str) (rest : str) :
    Forall (free x) toks ->
    R (terminated p toks ++ rest) = terminated (sub x new p) toks ++ R rest.
  Proof.
    induction 1 as [|t toks Ht _ IH]; [reflexivity|].
    rewrite !terminated_cons, <- !app_assoc. unfold R in *.
    rewrite replace_go_free by exact Ht. f_equal.
    rewrite replace_go_blk by assumption. f_equal. exact IH.
  Qed.

  Lemma render_syll3 (a b c : str) (syl : list str) :
    render_syll (sep3 a b c) syl = terminated a syl ++ b.
  Proof. reflexivity. Qed.

  Lemma replace_syll (syl : list str) (rest : str) :
    Forall (free x) syl ->
    R (render_syll sep syl ++ rest) = render_syll sep' syl ++ R rest.
  Proof.
    intros H. unfold sep, sep'. rewrite !render_syll3, <- !app_assoc.
    rewrite replace_terminated by exact H. f_equal. unfold R.
    now rewrite replace_go_blk by assumption.
  Qed.

  Lemma replace_sylls (wd : list (list str)) (rest : str) :
    Forall (Forall (free x)) wd ->
    R (concat (map (render_syll sep) wd) ++ rest)
    = concat (map (render_syll sep') wd) ++ R rest.
  Proof.
    induction 1 as [|syl wd Hsy _ IH]; [reflexivity|].
    cbn [map concat]. rewrite <- !app_assoc.
    rewrite replace_syll by exact Hsy. f_equal. exact IH.
  Qed.

  Lemma replace_word (wd : list (list str)) (rest : str) :
    Forall (Forall (free x)) wd ->
    R (render_word sep wd ++ rest) = render_word sep' wd ++ R rest.
  Proof.
    intros H. unfold render_word. cbn [sep sep' sep3 s_word Render.osep].
    rewrite <- !app_assoc. fold sep sep'. rewrite replace_sylls by exact H. f_equal.
    unfold R. now rewrite replace_go_blk by assumption.
  Qed.

  Lemma replace_render_rest (t : utree) (rest : str) :
    Forall (Forall (Forall (free x))) t ->
    R (render sep t ++ rest) = render sep' t ++ R rest.
  Proof.
    induction 1 as [|wd t Hwd _ IH]; [reflexivity|].
    unfold render in *. cbn [map concat]. rewrite <- !app_assoc.
    rewrite replace_word by exact Hwd. f_equal. exact IH.
  Qed.

  Theorem replace_all_render_rest (t : utree) (rest : str) :
    Forall (Forall (Forall (free x))) t ->
    replace_all x new (render (sep3 p s w) t ++ rest)
    = render (sep3 (sub x new p) (sub x new s) (sub x new w)) t ++ replace_all x new rest.
  Proof.
    intros H. rewrite !replace_all_go by exact Hx. now apply replace_render_rest.
  Qed.
End ReplaceTree.

Lemma Forall_concat_inv {A} (P : A -> Prop) (l : list (list A)) :
  Forall P (concat l) -> Forall (Forall P) l.
Proof.
  induction l as [|a l IH]; cbn [concat]; intros H; [constructor|].
  apply Forall_app in H as [H1 H2]. constructor; auto.
Qed.

Definition phones_of (t : utree) : list str := concat (map (@concat str) t).
Definition sylls_of (t : utree) : list str := concat (map (map (@concat char)) t).
Definition words_of (t : utree) : list str := map word_plain t.

Lemma phones_of_nested (P : str -> Prop) (t : utree) :
  Forall P (phones_of t) -> Forall (Forall (Forall P)) t.
Proof.
  unfold phones_of. rewrite <- concat_concat. intros H.
  apply Forall_concat_inv in H. now apply Forall_concat_inv in H.
Qed.

(* ---------- the renderings with a single non-empty separator ---------- *)

Lemma terminated_nil_sep (l : list str) : terminated [] l = concat l.
Proof.
  unfold terminated. f_equal. rewrite <- (map_id l) at 2. apply map_ext.
  intros a. apply app_nil_r.
Qed.

Lemma render_phone_only (p : str) (t : utree) :
  render (sep3 p [] []) t = terminated p (phones_of t).
Proof.
  unfold render, phones_of. induction t as [|wd t IH]; [reflexivity|].
  cbn [map concat]. rewrite terminated_app, IH. f_equal.
  unfold render_word. cbn [sep3 s_word Render.osep]. rewrite app_nil_r.
  induction wd as [|syl wd IHw]; [reflexivity|].
  cbn [map concat]. rewrite terminated_app, IHw. f_equal.
  rewrite render_syll3. apply app_nil_r.
Qed.

Lemma render_syll_only (s : str) (t : utree) :
  render (sep3 [] s []) t = terminated s (sylls_of t).
Proof.
  unfold render, sylls_of. induction t as [|wd t IH]; [reflexivity|].
  cbn [map concat]. rewrite terminated_app, IH. f_equal.
  unfold render_word. cbn [sep3 s_word Render.osep]. rewrite app_nil_r.
  induction wd as [|syl wd IHw]; [reflexivity|].
  cbn [map concat]. rewrite terminated_cons, IHw, render_syll3, terminated_nil_sep.
  now rewrite <- app_assoc.
Qed.

Lemma render_word_only (w : str) (t : utree) :
  render (sep3 [] [] w) t = terminated w (words_of t).
Proof.
  unfold render, words_of. induction t as [|wd t IH]; [reflexivity|].
  cbn [map concat]. rewrite terminated_cons, IH. rewrite app_assoc. f_equal.
  unfold render_word. cbn [sep3 s_word Render.osep]. f_equal.
  unfold word_plain, syll_plain. f_equal. apply map_ext. intros syl.
  rewrite render_syll3, terminated_nil_sep. apply app_nil_r.
Qed.

Lemma render2_as3 (xp xw : str) (t : utree) : render (sep2 xp xw) t = render (sep3 xp [] xw) t.
Proof.
  reflexivity.
Qed.

Lemma replace_all_nil_nil (s : str) : replace_all [] [] s = s.
Proof.
  cbn [replace_all app]. induction s as [|c s IH]; [reflexivity|].
  cbn [flat_map app]. now rewrite IH.
Qed.

(* ---------- whitespace-only strings ---------- *)

Lemma ws_only_forallb (s : str) : ws_only s <-> forallb is_space s = true.
Proof. unfold ws_only. now rewrite forallb_forall, Forall_forall. Qed.

Lemma replace_all_ws_only (x new s : str) : ws_only new -> ws_only s -> ws_only (replace_all x new s).
Proof. rewrite !ws_only_forallb. apply replace_all_space. Qed.

Lemma ws_only_nil : ws_only [].
Proof. constructor. Qed.

Lemma ws_only_sp : ws_only [sp].
Proof. repeat constructor. Qed.

Lemma ws_only_app (a b : str) : ws_only a -> ws_only b -> ws_only (a ++ b).
Proof. intros Ha Hb. apply Forall_app. now split. Qed.

(* ---------- norm_ws on space-terminated tokens ---------- *)

Definition tok_ok (t : str) : Prop := t <> [] /\ ws_free t.

Lemma terminated_sp_join (toks : list str) : toks <> [] ->
  terminated [sp] toks = join [sp] toks ++ [sp].
Proof.
  induction toks as [|a toks IH]; [congruence|]. intros _.
  rewrite terminated_cons. destruct toks as [|b toks].
  - cbn [join]. now rewrite terminated_nil, app_nil_r.
  - rewrite IH by discriminate. cbn [join]. now rewrite <- !app_assoc.
Qed.

Lemma join_cons2 (x a b : str) (l : list str) : join x (a :: b :: l) = a ++ x ++ join x (b :: l).
Proof. reflexivity. Qed.

Lemma join_nonnil (toks : list str) : toks <> [] -> Forall tok_ok toks -> join [sp] toks <> [].
Proof.
  intros Hn H. destruct H as [|a toks [Ha _] _]; [congruence|].
  destruct toks as [|b toks]; [exact Ha|]. rewrite join_cons2.
  destruct a; [congruence|discriminate].
Qed.

Lemma join_clean_ends (toks : list str) : toks <> [] -> Forall tok_ok toks ->
  clean_ends (join [sp] toks).
Proof.
  intros Hn H. split.
  - destruct H as [|a toks [Ha Hw] _]; [congruence|].
    destruct toks as [|b toks]; [now apply ws_free_starts_ok|].
    rewrite join_cons2. apply starts_ok_app; [exact Ha|now apply ws_free_starts_ok].
  - induction H as [|a toks [Ha Hw] Hr IH]; [congruence|].
    destruct toks as [|b toks]; [now apply ws_free_ends_ok|].
    rewrite join_cons2, app_assoc. apply ends_ok_app.
    + apply join_nonnil; [discriminate|exact Hr].
    + apply IH. discriminate.
Qed.

Lemma collapse_ws_free_app (a r : str) : ws_free a -> collapse_ws (a ++ r) = a ++ collapse_ws r.
Proof.
  induction 1 as [|c a Hc _ IH]; [reflexivity|].
  cbn [app collapse_ws]. now rewrite Hc, IH.
Qed.

Lemma collapse_ws_sp_cons (c : char) (r : str) : is_space c = false ->
  collapse_ws (sp :: c :: r) = sp :: collapse_ws (c :: r).
Proof. intros H. cbn [collapse_ws]. now rewrite is_space_sp, H. Qed.

Lemma join_head (toks : list str) : toks <> [] -> Forall tok_ok toks ->
  exists (c : char) (r : str), join [sp] toks = c :: r /\ is_space c = false.
Proof.
  intros Hn H. destruct H as [|a toks [Ha Hw] _]; [congruence|].
  destruct Hw as [|c a Hc _]; [congruence|].
  destruct toks as [|b toks].
  - now exists c, a.
  - rewrite join_cons2. cbn [app]. eexists c, _. split; [reflexivity|exact Hc].
Qed.

Lemma collapse_ws_join (toks : list str) : Forall tok_ok toks ->
  collapse_ws (join [sp] toks) = join [sp] toks.
Proof.
  induction 1 as [|a toks [Ha Hw] Hr IH]; [reflexivity|].
  destruct toks as [|b toks].
  - cbn [join]. rewrite <- (app_nil_r a) at 1. rewrite collapse_ws_free_app by exact Hw.
    cbn [collapse_ws]. apply app_nil_r.
  - rewrite join_cons2. rewrite collapse_ws_free_app by exact Hw. f_equal.
    destruct (join_head (b :: toks) ltac:(discriminate) Hr) as (c & r & E & Hc).
    rewrite E in *. cbn [app]. rewrite collapse_ws_sp_cons by exact Hc. now rewrite IH.
Qed.

Theorem norm_ws_terminated (toks : list str) (ws : str) :
  Forall tok_ok toks -> ws_only ws ->
  norm_ws (terminated [sp] toks ++ ws) = join [sp] toks.
Proof.
  intros H Hws. unfold norm_ws. destruct toks as [|a toks].
  - cbn [join]. rewrite terminated_nil. cbn [app].
    assert (E : strip ws = []) by (apply strip_nil_iff; now apply ws_only_forallb).
    now rewrite E.
  - rewrite terminated_sp_join by discriminate. rewrite <- app_assoc.
    rewrite strip_trailing_ws.
    + now apply collapse_ws_join.
    + apply join_nonnil; [discriminate|exact H].
    + apply join_clean_ends; [discriminate|exact H].
    + apply ws_only_app; [apply ws_only_sp|exact Hws].
Qed.

(* ---------- despace / split_ws on a space-joined token list ---------- *)

Lemma despace_app (a b : str) : despace (a ++ b) = despace a ++ despace b.
Proof. apply filter_app. Qed.

Lemma despace_no_sp (a : str) : ~ In sp a -> despace a = a.
Proof.
  intros H. unfold despace. apply filter_id_Forall. apply Forall_forall. intros c Hc.
  destruct (N.eqb_spec c sp) as [->|]; [contradiction|reflexivity].
Qed.

Lemma despace_join (toks : list str) : Forall (fun t : str => ~ In sp t) toks ->
  despace (join [sp] toks) = concat toks.
Proof.
  induction 1 as [|a toks Ha Hr IH]; [reflexivity|].
  destruct toks as [|b toks].
  - cbn [join concat]. rewrite app_nil_r. now apply despace_no_sp.
  - rewrite join_cons2, !despace_app, IH, despace_no_sp by exact Ha. reflexivity.
Qed.

Lemma split_ws_go_free (a r acc : str) : ws_free a ->
  split_ws_go (a ++ r) acc = split_ws_go r (rev a ++ acc).
Proof.
  intros H. revert acc. induction H as [|c a Hc _ IH]; intros acc; [reflexivity|].
  cbn [app split_ws_go rev]. rewrite Hc, IH. now rewrite <- app_assoc.
Qed.

Lemma split_ws_join (toks : list str) : Forall tok_ok toks -> split_ws (join [sp] toks) = toks.
Proof.
  unfold split_ws. induction 1 as [|a toks [Ha Hw] Hr IH]; [reflexivity|].
  assert (Hrev : exists (c : char) (q : str), rev a = c :: q).
  { destruct (rev a) as [|c q] eqn:E; [|now exists c, q].
    apply (f_equal (@rev char)) in E. rewrite rev_involutive in E. now cbn in E. }
  destruct Hrev as (c & q & Erev).
  assert (Ea : rev (c :: q) = a) by (rewrite <- Erev; apply rev_involutive).
  destruct toks as [|b toks].
  - cbn [join]. rewrite <- (app_nil_r a) at 1. rewrite split_ws_go_free by exact Hw.
    rewrite app_nil_r, Erev. cbn [split_ws_go]. now rewrite Ea.
  - rewrite join_cons2, split_ws_go_free by exact Hw. rewrite app_nil_r, Erev.
    cbn [app split_ws_go]. rewrite is_space_sp, Ea. f_equal. exact IH.
Qed.
