(* C04 on padded renderings, lifted to whole texts: a text is a list of lines, each one the
   padded rendering of a tree followed by a whitespace-only tail ("\n"), with blank lines
   interleaved; gold and prepare give one output line per non-blank line, in order. *)
From WS Require Import Base.Py Base.Str Separator.Model Separator.Render.
From WS Require Import Separator.StrLemmas Separator.StripLemmas Separator.ProofsTree
  Separator.ProofsTwo Separator.ProofsWsPhone.
From WS Require Import Prepare.Model Prepare.Proofs Prepare.ViewsLemmas Prepare.Views Prepare.ViewsPad.

(* ================= gold, phone separator not a space ================= *)

Inductive text_pad (xp xs xw : str) : list str -> list utree -> Prop :=
| TP_nil : text_pad xp xs xw [] []
| TP_blank (raw : str) (text : list str) (trees : list utree) :
    strip raw = [] -> text_pad xp xs xw text trees -> text_pad xp xs xw (raw :: text) trees
| TP_line (t : utree) (ws : str) (text : list str) (trees : list utree) :
    t <> [] -> tree_shape t -> Forall (phone_free xp xs xw) (phones_of t) -> ws_only ws ->
    text_pad xp xs xw text trees ->
    text_pad xp xs xw ((render_pad xp xs xw t ++ ws) :: text) (t :: trees).

Lemma shape_words_join_nonempty (t : utree) :
  t <> [] -> tree_shape t -> nonempty (join [sp] (words_of t)) = true.
Proof.
  intros Hn Hsh. apply nonempty_true. apply join_nonnil.
  - unfold words_of. destruct t; [congruence|discriminate].
  - now apply shape_words_tok.
Qed.

Theorem gold_text_pad_spec (xp xs xw : str) (text : list str) (trees : list utree) :
  xp <> [] -> xs <> [] -> xw <> [] ->
  hd_error xp <> Some sp -> hd_error xs <> Some sp -> hd_error xw <> Some sp ->
  free xs xp -> free xs xw -> free xp xw ->
  text_pad xp xs xw text trees ->
  gold text (sep3 xp xs xw) = Ok (map (fun t : utree => join [sp] (words_of t)) trees).
Proof.
  intros Hxp Hxs Hxw Hhp Hhs Hhw Fsp Fsw Fpw H.
  rewrite (gold_total text (sep3 xp xs xw)). f_equal.
  induction H as [|raw text trees Hb _ IH|t ws text trees Hn Hsh Hf Hws _ IH].
  - reflexivity.
  - cbn [map filter]. rewrite (gold_str_blank _ _ Hb). cbn [nonempty]. exact IH.
  - cbn [map filter].
    assert (E : gold_str (sep3 xp xs xw) (render_pad xp xs xw t ++ ws) = join [sp] (words_of t)).
    { pose proof (gold_pad_spec xp xs xw Hxp Hxs Hxw Hhp Hhs Hhw Fsp Fsw Fpw t Hsh Hf ws Hws) as G.
      rewrite gold_line_ok in G. now injection G. }
    rewrite E, (shape_words_join_nonempty t Hn Hsh). now rewrite IH.
Qed.

(* ================= the phone separator is one space ================= *)

Inductive text_pad_ws (xs xw : str) : list str -> list utree -> Prop :=
| TW_nil : text_pad_ws xs xw [] []
| TW_blank (raw : str) (text : list str) (trees : list utree) :
    strip raw = [] -> text_pad_ws xs xw text trees -> text_pad_ws xs xw (raw :: text) trees
| TW_line (t : utree) (ws : str) (text : list str) (trees : list utree) :
    t <> [] -> tree_shape t -> Forall (phone_free2 xs xw) (phones_of t) -> ws_only ws ->
    text_pad_ws xs xw text trees ->
    text_pad_ws xs xw ((render_pad_ws xs xw t ++ ws) :: text) (t :: trees).

Theorem gold_text_pad_ws_spec (xs xw : str) (text : list str) (trees : list utree) :
  xs <> [] -> xw <> [] -> hd_error xs <> Some sp -> free xs xw -> ~ In sp xw ->
  text_pad_ws xs xw text trees ->
  gold text (sep3 [sp] xs xw) = Ok (map (fun t : utree => join [sp] (words_of t)) trees).
Proof.
  intros Hxs Hxw Hhs Fsw Hnw H.
  rewrite (gold_total text (sep3 [sp] xs xw)). f_equal.
  induction H as [|raw text trees Hb _ IH|t ws text trees Hn Hsh Hf Hws _ IH].
  - reflexivity.
  - cbn [map filter]. rewrite (gold_str_blank _ _ Hb). cbn [nonempty]. exact IH.
  - cbn [map filter].
    assert (E : gold_str (sep3 [sp] xs xw) (render_pad_ws xs xw t ++ ws) = join [sp] (words_of t)).
    { pose proof (gold_pad_ws_spec xs xw Hxs Hxw Hhs Fsw Hnw t Hsh Hf ws Hws) as G.
      rewrite gold_line_ok in G. now injection G. }
    rewrite E, (shape_words_join_nonempty t Hn Hsh). now rewrite IH.
Qed.

(* ================= the line prepare sees: the rendering without its last space ================= *)

(* prepare strips each line before checking and transforming it, which removes the space
   that follows the last word separator *)
Definition pad_ws_line (xs xw : str) (t' : utree) (wd : list (list str)) : str :=
  render (sep3 [sp] (xs ++ [sp]) (xw ++ [sp])) t' ++ render (sep3 [sp] (xs ++ [sp]) xw) [wd].

Lemma render_app (sep : separator) (a b : utree) : render sep (a ++ b) = render sep a ++ render sep b.
Proof. unfold render. now rewrite map_app, concat_app. Qed.

Lemma phones_of_app (a b : utree) : phones_of (a ++ b) = phones_of a ++ phones_of b.
Proof. unfold phones_of. now rewrite map_app, concat_app. Qed.

Lemma render_one (p s w : str) (wd : list (list str)) :
  render (sep3 p s w) [wd] = concat (map (render_syll (sep3 p s w)) wd) ++ w.
Proof. unfold render. cbn [map concat]. apply app_nil_r. Qed.

Lemma pad_ws_line_sp (xs xw : str) (t' : utree) (wd : list (list str)) :
  render_pad_ws xs xw (t' ++ [wd]) = pad_ws_line xs xw t' wd ++ [sp].
Proof.
  unfold render_pad_ws, pad_ws_line. rewrite render_app, !render_one, <- !app_assoc. reflexivity.
Qed.

Lemma render_head (p s w : str) (t : utree) : t <> [] -> tree_shape t ->
  exists (c : char) (r : str), render (sep3 p s w) t = c :: r /\ is_space c = false.
Proof.
  intros Hn Hsh. destruct Hsh as [|wd t0 (Hwd & Hs) _]; [congruence|].
  destruct Hs as [|syl wd0 (Hsyl & Hp) _]; [congruence|].
  destruct Hp as [|ph syl0 (Hph & Hw) _]; [congruence|].
  destruct Hw as [|c ph0 Hc _]; [congruence|].
  unfold render, render_word. cbn [map concat]. rewrite render_syll3, terminated_cons.
  cbn [app]. eexists c, _. split; [reflexivity|exact Hc].
Qed.

Lemma strip_pad_ws_line (xs xw : str) (t' : utree) (wd : list (list str)) (ws : str) :
  xw <> [] -> ends_ok xw -> tree_shape (t' ++ [wd]) -> ws_only ws ->
  strip (render_pad_ws xs xw (t' ++ [wd]) ++ ws) = pad_ws_line xs xw t' wd
  /\ exists (c : char) (r : str), pad_ws_line xs xw t' wd = c :: r /\ is_space c = false.
Proof.
  intros Hxw Hew Hsh Hws.
  destruct (render_head [sp] (xs ++ [sp]) (xw ++ [sp]) (t' ++ [wd])) as (c & r & E & Hc).
  { destruct t'; discriminate. } { exact Hsh. }
  fold (render_pad_ws xs xw (t' ++ [wd])) in E. rewrite pad_ws_line_sp in *.
  assert (Hne : pad_ws_line xs xw t' wd <> []).
  { unfold pad_ws_line. rewrite render_one. intros H.
    apply app_eq_nil in H as [_ H]. apply app_eq_nil in H as [_ H]. congruence. }
  destruct (pad_ws_line xs xw t' wd) as [|c' r'] eqn:Ej; [congruence|].
  cbn [app] in E. injection E as -> _.
  split; [|now exists c, r'].
  rewrite <- app_assoc. apply strip_trailing_ws.
  - discriminate.
  - split; [now apply starts_ok_hd|].
    rewrite <- Ej. unfold pad_ws_line. rewrite render_one, !app_assoc.
    now apply ends_ok_app.
  - apply ws_only_app; [apply ws_only_sp|exact Hws].
Qed.

(* one replacement over the two parts of the line *)
Lemma gen_render2 (x new p p' s s' w w' w2 w2' : str) (t' t2 : utree) (rest : str) :
  (forall r : str, replace_go x new (p ++ r) 0 = p' ++ replace_go x new r 0) ->
  (forall r : str, replace_go x new (s ++ r) 0 = s' ++ replace_go x new r 0) ->
  (forall r : str, replace_go x new (w ++ r) 0 = w' ++ replace_go x new r 0) ->
  (forall r : str, replace_go x new (w2 ++ r) 0 = w2' ++ replace_go x new r 0) ->
  Forall (Forall (Forall (free x))) t' -> Forall (Forall (Forall (free x))) t2 ->
  replace_go x new ((render (sep3 p s w) t' ++ render (sep3 p s w2) t2) ++ rest) 0
  = (render (sep3 p' s' w') t' ++ render (sep3 p' s' w2') t2) ++ replace_go x new rest 0.
Proof.
  intros Hp Hs Hw Hw2 H1 H2. rewrite <- !app_assoc.
  rewrite (gen_render x new p p' s s' w w' Hp Hs Hw t' _ H1). f_equal.
  exact (gen_render x new p p' s s' w2 w2' Hp Hs Hw2 t2 rest H2).
Qed.

Lemma nested_app_inv (P : str -> Prop) (a b : utree) :
  Forall (Forall (Forall P)) (a ++ b) -> Forall (Forall (Forall P)) a /\ Forall (Forall (Forall P)) b.
Proof. apply Forall_app. Qed.

Section PadWsLine.
  Variables xs xw : str.
  Hypothesis Hxs : xs <> [].
  Hypothesis Hxw : xw <> [].
  Hypothesis Hhs : hd_error xs <> Some sp.
  Hypothesis Hhw : hd_error xw <> Some sp.
  Hypothesis Fsw : free xs xw.
  Hypothesis Fws : free xw xs.
  Hypothesis Hns : ~ In sp xs.
  Hypothesis Hnw : ~ In sp xw.

  Variable t' : utree.
  Variable wd : list (list str).
  Hypothesis Hsh : tree_shape (t' ++ [wd]).
  Hypothesis Hfree : Forall (phone_free2 xs xw) (phones_of (t' ++ [wd])).

  Let sep := sep3 [sp] xs xw.
  Let line := pad_ws_line xs xw t' wd.
  Let Ss : free xs [sp] := free_sp_hd xs Hxs Hhs.
  Let Sw : free xw [sp] := free_sp_hd xw Hxw Hhw.
  Let Ns := nested_app_inv _ _ _ (nested2_p xs xw _ Hfree).
  Let Nw := nested_app_inv _ _ _ (nested2_w xs xw _ Hfree).
  Let Nsp := nested_app_inv _ _ _ (shape_nested_sp _ Hsh).
  Let Ntok := nested_app_inv _ _ _ (shape_nested_tok _ Hsh).

  Lemma line_as_rest : line = line ++ [].
  Proof. symmetry. apply app_nil_r. Qed.

  Theorem prepare_phone_pad_ws_line :
    prepare_line sep UPhone line = Ok (join [sp] (phones_of (t' ++ [wd]))).
  Proof.
    unfold prepare_line, sep. cbn [sep3 s_word s_syll s_phone Prepare.Model.osep]. f_equal.
    assert (Hsp : [sp] <> []) by discriminate.
    rewrite line_as_rest. unfold line, pad_ws_line.
    rewrite (replace_all_go xs) by exact Hxs.
    rewrite (gen_render2 xs [] [sp] [sp] (xs ++ [sp]) ([] ++ [sp]) (xw ++ [sp]) (xw ++ [sp]) xw xw).
    2:{ intros r. now apply replace_go_free. }
    2:{ intros r. now apply replace_go_sep_sp. }
    2:{ intros r. now apply replace_go_free_sp. }
    2:{ intros r. now apply replace_go_free. }
    2:{ apply Ns. } 2:{ apply Ns. }
    rewrite (replace_all_go xw) by exact Hxw.
    rewrite (gen_render2 xw [] [sp] [sp] ([] ++ [sp]) ([] ++ [sp]) (xw ++ [sp]) ([] ++ [sp]) xw []).
    2:{ intros r. now apply replace_go_free. }
    2:{ intros r. now apply replace_go_free. }
    2:{ intros r. now apply replace_go_sep_sp. }
    2:{ intros r. now apply replace_go_at_sep. }
    2:{ apply Nw. } 2:{ apply Nw. }
    rewrite (replace_all_go [sp]) by exact Hsp.
    rewrite (gen_render2 [sp] [sp] [sp] [sp] ([] ++ [sp]) [sp] ([] ++ [sp]) [sp] [] []).
    2:{ intros r. now apply replace_go_at_sep. }
    2:{ intros r. now apply (replace_go_at_sep [sp] [sp]). }
    2:{ intros r. now apply (replace_go_at_sep [sp] [sp]). }
    2:{ intros r. reflexivity. }
    2:{ apply Nsp. } 2:{ apply Nsp. }
    cbn [replace_go]. rewrite norm_ws_split_ws. unfold split_ws. rewrite <- app_assoc.
    rewrite (split_render [sp] [sp] [sp]); try apply ws_only_sp; try discriminate; [|apply Ntok].
    rewrite (split_render [sp] [sp] []); try apply ws_only_sp; try apply ws_only_nil;
      try discriminate; [|apply Ntok].
    cbn [split_ws_go]. now rewrite app_nil_r, phones_of_app.
  Qed.

  Lemma sylls_of_app (a b : utree) : sylls_of (a ++ b) = sylls_of a ++ sylls_of b.
  Proof. unfold sylls_of. now rewrite map_app, concat_app. Qed.

  Lemma good_syl_pad_ws (b : utree) : free xs [sp] ->
    Forall (Forall (Forall (fun ph : str => ~ In sp ph))) b ->
    Forall (Forall (Forall (free xs))) b ->
    Forall (Forall (good_syl xs [sp] (clean_syll [sp]))) b.
  Proof.
    intros Fs Hn Hb.
    pose proof (nested_and _ _ b Hb Hn) as N.
    eapply Forall_impl; [|exact N]. intros w0 Hw0.
    eapply Forall_impl; [|exact Hw0]. intros syl [H1 H3]. split.
    - apply free_only_at_end. now apply free_terminated.
    - intros pad Hpad. now apply clean_pad_ws_syll.
  Qed.

  Theorem prepare_syll_pad_ws_line :
    prepare_line sep USyll line = Ok (join [sp] (sylls_of (t' ++ [wd]))).
  Proof.
    unfold prepare_line, sep. cbn [sep3 s_word s_syll s_phone Prepare.Model.osep]. cbv zeta. f_equal.
    assert (Fs : free xs [sp]) by (apply free_sp_hd; [exact Hxs|now apply hd_not_sp_of_not_in]).
    rewrite line_as_rest. unfold line, pad_ws_line.
    rewrite (replace_all_go xw) by exact Hxw.
    rewrite (gen_render2 xw [] [sp] [sp] (xs ++ [sp]) (xs ++ [sp]) (xw ++ [sp]) ([] ++ [sp]) xw []).
    2:{ intros r. now apply replace_go_free. }
    2:{ intros r. now apply replace_go_free_sp. }
    2:{ intros r. now apply replace_go_sep_sp. }
    2:{ intros r. now apply replace_go_at_sep. }
    2:{ apply Nw. } 2:{ apply Nw. }
    cbn [replace_go]. rewrite app_nil_r. unfold split_on.
    change (fun x : str => replace_all [sp] [] (replace_all [sp] [] x)) with (clean_syll [sp]).
    assert (G1 : Forall (Forall (good_syl xs [sp] (clean_syll [sp]))) t').
    { apply (good_syl_pad_ws t' Fs); [|apply Ns].
      apply (nested_app_inv _ _ _ (shape_nested_no_sp _ Hsh)). }
    assert (G2 : Forall (Forall (good_syl xs [sp] (clean_syll [sp]))) [wd]).
    { apply (good_syl_pad_ws [wd] Fs); [|apply Ns].
      apply (nested_app_inv _ _ _ (shape_nested_no_sp _ Hsh)). }
    destruct (split_render_f xs [sp] [sp] ([] ++ [sp]) (clean_syll [sp]) Hxs Fs sp_only_sp sp_only_sp
                t' (render (sep3 [sp] (xs ++ [sp]) []) [wd]) G1 [] ltac:(constructor))
      as (acc1 & Hacc1 & E1).
    rewrite E1.
    rewrite <- (app_nil_r (render (sep3 [sp] (xs ++ [sp]) []) [wd])).
    destruct (split_render_f xs [sp] [sp] [] (clean_syll [sp]) Hxs Fs sp_only_sp ltac:(constructor)
                [wd] [] G2 acc1 Hacc1) as (acc2 & Hacc2 & E2).
    rewrite E2, app_assoc, <- sylls_of_app.
    destruct (join_app_ws (sylls_of (t' ++ [wd])) (map (clean_syll [sp]) (split_go xs [] 0 acc2)))
      as (w & Hw & E3).
    { apply (pieces_ws_only xs (clean_syll [sp])); [apply clean_syll_ws_only|apply ws_only_nil|exact Hacc2]. }
    rewrite E3. apply norm_ws_join_ws; [now apply shape_sylls_tok|exact Hw].
  Qed.
End PadWsLine.

(* ================= check_utterance accepts the line ================= *)

Lemma render_head_phone (p s w : str) (t : utree) : t <> [] -> tree_shape t ->
  exists ph r : str, In ph (phones_of t) /\ ph <> [] /\ render (sep3 p s w) t = ph ++ r.
Proof.
  intros Hn Hsh. destruct Hsh as [|wd0 t0 (Hwd & Hs) _]; [congruence|].
  destruct Hs as [|syl wd1 (Hsyl & Hp) _]; [congruence|].
  destruct Hp as [|ph syl0 (Hph & Hw) _]; [congruence|].
  exists ph. eexists. split; [|split; [exact Hph|]].
  - unfold phones_of. cbn [map concat app]. now left.
  - unfold render, render_word. cbn [map concat]. rewrite render_syll3, terminated_cons.
    rewrite <- !app_assoc. reflexivity.
Qed.

Lemma prefix_b_app_false_l (x a b : str) : prefix_b x (a ++ b) = false -> prefix_b x a = false.
Proof.
  intros H. destruct (prefix_b x a) eqn:E; [|reflexivity].
  apply (prefix_b_app_true x a b) in E. congruence.
Qed.

Lemma strip_cons_nonspace (c : char) (q : str) : is_space c = false -> strip (c :: q) = c :: rstrip q.
Proof. intros Hc. unfold strip. cbn [lstrip]. rewrite Hc. now apply rstrip_cons_nonspace. Qed.

(* the blocks of a line: phones and separators, in order *)
Section Blocks.
  Variables xs xw : str.

  Definition word_blocks (wd : list (list str)) : list str :=
    flat_map (fun syl : list str => syl ++ [xs]) wd.
  Definition blocks (t : utree) : list str :=
    flat_map (fun wd : list (list str) => word_blocks wd ++ [xw]) t.

  Lemma render_word_blocks (w : str) (wd : list (list str)) :
    concat (map (render_syll (sep3 [sp] (xs ++ [sp]) w)) wd) = terminated [sp] (word_blocks wd).
  Proof.
    induction wd as [|syl wd IH]; [reflexivity|].
    cbn [map concat word_blocks flat_map]. fold (word_blocks wd).
    rewrite IH, render_syll3, !terminated_app, terminated_one. reflexivity.
  Qed.

  Lemma render_blocks (t : utree) :
    render (sep3 [sp] (xs ++ [sp]) (xw ++ [sp])) t = terminated [sp] (blocks t).
  Proof.
    induction t as [|wd t IH]; [reflexivity|].
    unfold render in *. cbn [map concat blocks flat_map]. fold (blocks t).
    rewrite IH. unfold render_word. cbn [sep3 s_word Render.osep].
    rewrite render_word_blocks, !terminated_app, terminated_one. reflexivity.
  Qed.

  Lemma blocks_app_one (t' : utree) (wd : list (list str)) :
    blocks (t' ++ [wd]) = (blocks t' ++ word_blocks wd) ++ [xw].
  Proof.
    unfold blocks. rewrite flat_map_app. cbn [flat_map]. now rewrite app_nil_r, app_assoc.
  Qed.

  Lemma pad_ws_line_blocks (t' : utree) (wd : list (list str)) :
    pad_ws_line xs xw t' wd = terminated [sp] (blocks t' ++ word_blocks wd) ++ xw.
  Proof.
    unfold pad_ws_line. rewrite render_blocks, render_one, render_word_blocks.
    now rewrite terminated_app, app_assoc.
  Qed.

  Lemma word_blocks_Forall (Q : str -> Prop) (wd : list (list str)) :
    Q xs -> Forall (Forall Q) wd -> Forall Q (word_blocks wd).
  Proof.
    intros Hs H. induction H as [|syl wd Hsyl _ IH]; [constructor|].
    cbn [word_blocks flat_map]. apply Forall_app. split; [|exact IH].
    apply Forall_app. split; [exact Hsyl|now constructor].
  Qed.

  Lemma blocks_Forall (Q : str -> Prop) (t : utree) :
    Q xs -> Q xw -> Forall (Forall (Forall Q)) t -> Forall Q (blocks t).
  Proof.
    intros Hs Hw H. induction H as [|wd t Hwd _ IH]; [constructor|].
    cbn [blocks flat_map]. apply Forall_app. split; [|exact IH].
    apply Forall_app. split; [now apply word_blocks_Forall|now constructor].
  Qed.

  (* "if the next token is the word separator, this one is the syllable separator" *)
  Definition chk (ab : str * str) : bool :=
    if str_eqb (snd ab) xw then str_eqb (fst ab) xs else true.

  Fixpoint adj_ok (prev : str) (l : list str) : bool :=
    match l with
    | [] => true
    | b :: r => (if str_eqb b xw then str_eqb prev xs else true) && adj_ok b r
    end.
  Fixpoint lastd (prev : str) (l : list str) : str :=
    match l with [] => prev | b :: r => lastd b r end.

  Lemma zip_adj_ok (a : str) (l : list str) : forallb chk (zip_adj (a :: l)) = adj_ok a l.
  Proof.
    revert a. induction l as [|b l IH]; intros a; [reflexivity|].
    change (zip_adj (a :: b :: l)) with ((a, b) :: zip_adj (b :: l)).
    cbn [forallb adj_ok]. now rewrite IH.
  Qed.

  Lemma adj_ok_app (prev : str) (l1 l2 : list str) :
    adj_ok prev (l1 ++ l2) = adj_ok prev l1 && adj_ok (lastd prev l1) l2.
  Proof.
    revert prev. induction l1 as [|b l1 IH]; intros prev; [reflexivity|].
    cbn [app adj_ok lastd]. now rewrite IH, andb_assoc.
  Qed.

  Lemma lastd_app (prev : str) (l1 l2 : list str) : lastd prev (l1 ++ l2) = lastd (lastd prev l1) l2.
  Proof. revert prev. induction l1 as [|b l1 IH]; intros prev; [reflexivity|]. cbn [app lastd]. apply IH. Qed.

  Hypothesis Hsw : str_eqb xs xw = false.

  Lemma adj_ok_phones (prev : str) (syl : list str) :
    Forall (fun ph : str => str_eqb ph xw = false) syl -> adj_ok prev syl = true.
  Proof.
    intros H. revert prev. induction H as [|ph syl Hph _ IH]; intros prev; [reflexivity|].
    cbn [adj_ok]. now rewrite Hph, IH.
  Qed.

  Lemma adj_ok_word_blocks (wd : list (list str)) :
    Forall (Forall (fun ph : str => str_eqb ph xw = false)) wd ->
    forall prev : str, adj_ok prev (word_blocks wd) = true /\ (wd <> [] -> lastd prev (word_blocks wd) = xs).
  Proof.
    induction 1 as [|syl wd Hsyl _ IH]; intros prev; [split; [reflexivity|congruence]|].
    cbn [word_blocks flat_map]. fold (word_blocks wd).
    assert (L : lastd prev (syl ++ [xs]) = xs) by now rewrite lastd_app.
    rewrite !adj_ok_app, !lastd_app. cbn [adj_ok lastd]. rewrite Hsw.
    rewrite adj_ok_phones by exact Hsyl. cbn [andb].
    destruct (IH xs) as [A B]. split; [exact A|]. intros _.
    destruct wd as [|syl2 wd]; [reflexivity|]. apply B. discriminate.
  Qed.

  Lemma adj_ok_blocks (t : utree) :
    Forall (fun wd : list (list str) => wd <> [] /\ Forall (Forall (fun ph : str => str_eqb ph xw = false)) wd) t ->
    forall prev : str, adj_ok prev (blocks t) = true.
  Proof.
    induction 1 as [|wd t (Hn & Hwd) _ IH]; intros prev; [reflexivity|].
    cbn [blocks flat_map]. fold (blocks t).
    destruct (adj_ok_word_blocks wd Hwd prev) as [A B].
    rewrite !adj_ok_app, A, lastd_app, (B Hn). cbn [adj_ok lastd andb].
    rewrite !str_eqb_refl. cbn [andb]. apply IH.
  Qed.

  Lemma zip_adj_blocks (t : utree) :
    Forall (fun wd : list (list str) => wd <> [] /\ Forall (Forall (fun ph : str => str_eqb ph xw = false)) wd) t ->
    forallb chk (zip_adj (blocks t)) = true.
  Proof.
    intros H. destruct (blocks t) as [|a l] eqn:E; [reflexivity|].
    rewrite zip_adj_ok. pose proof (adj_ok_blocks t H a) as A. rewrite E in A.
    cbn [adj_ok] in A. now apply andb_true_iff in A as [_ A].
  Qed.
End Blocks.

Section PadWsAccept.
  Variables xs xw : str.
  Hypothesis Hxs : xs <> [].
  Hypothesis Hxw : xw <> [].
  Hypothesis Hhs : hd_error xs <> Some sp.
  Hypothesis Hhw : hd_error xw <> Some sp.
  Hypothesis Fws : free xw xs.
  Hypothesis Hns : ~ In sp xs.
  Hypothesis Hnw : ~ In sp xw.

  Variable t' : utree.
  Variable wd : list (list str).
  Hypothesis Hsh : tree_shape (t' ++ [wd]).
  Hypothesis Hfree : Forall (phone_free2 xs xw) (phones_of (t' ++ [wd])).
  Variable cp : bool.
  (* no punctuation character in the phones when check_punctuation is on *)
  Hypothesis Hpunct : cp = true -> existsb is_punct (concat (phones_of (t' ++ [wd]))) = false.

  Let sep := sep3 [sp] xs xw.
  Let line := pad_ws_line xs xw t' wd.
  Let Ss : free xs [sp] := free_sp_hd xs Hxs Hhs.
  Let Sw : free xw [sp] := free_sp_hd xw Hxw Hhw.
  Let Ns := nested_app_inv _ _ _ (nested2_p xs xw _ Hfree).
  Let Nw := nested_app_inv _ _ _ (nested2_w xs xw _ Hfree).
  Let Nsp := nested_app_inv _ _ _ (shape_nested_sp _ Hsh).

  Lemma line_no_prefix (x : str) :
    Forall (free x) (phones_of (t' ++ [wd])) -> prefix_b x line = false.
  Proof.
    intros Hx.
    destruct (render_head_phone [sp] (xs ++ [sp]) (xw ++ [sp]) (t' ++ [wd])) as (ph & r & Hin & Hph & E).
    { destruct t'; discriminate. } { exact Hsh. }
    fold (render_pad_ws xs xw (t' ++ [wd])) in E. rewrite pad_ws_line_sp in E.
    apply (prefix_b_app_false_l x line [sp]). fold line in E. rewrite E.
    rewrite Forall_forall in Hx. specialize (Hx ph Hin).
    destruct ph as [|c ph0]; [congruence|]. cbn [app]. now apply free_head.
  Qed.

  Lemma line_no_prefix_all : Forall (fun x : str => prefix_b x line = false) [xw; xs; [sp]].
  Proof.
    repeat constructor; apply line_no_prefix.
    - eapply Forall_impl; [|exact Hfree]. now intros ph [_ H].
    - eapply Forall_impl; [|exact Hfree]. now intros ph [H _].
    - eapply Forall_impl; [|exact (shape_phones_tok _ Hsh)]. intros ph [_ H].
      now apply free_sp, ws_free_not_sp.
  Qed.

  Lemma line_head : exists (c : char) (r : str), line = c :: r /\ is_space c = false.
  Proof.
    destruct (render_head [sp] (xs ++ [sp]) (xw ++ [sp]) (t' ++ [wd])) as (c & r & E & Hc).
    { destruct t'; discriminate. } { exact Hsh. }
    fold (render_pad_ws xs xw (t' ++ [wd])) in E. rewrite pad_ws_line_sp in E. fold line in E.
    destruct line as [|c' r'] eqn:Ej.
    - exfalso. unfold line, pad_ws_line in Ej. rewrite render_one in Ej.
      apply app_eq_nil in Ej as [_ Ej]. apply app_eq_nil in Ej as [_ Ej]. congruence.
    - cbn [app] in E. injection E as -> _. now exists c, r'.
  Qed.

  Lemma line_remove_all : remove_all sep line = concat (phones_of (t' ++ [wd])).
  Proof.
    unfold sep, line. rewrite remove_all3.
    assert (Hsp : [sp] <> []) by discriminate.
    rewrite (line_as_rest xs xw t' wd). unfold pad_ws_line.
    rewrite (replace_all_go xw) by exact Hxw.
    rewrite (gen_render2 xw [] [sp] [sp] (xs ++ [sp]) (xs ++ [sp]) (xw ++ [sp]) ([] ++ [sp]) xw []).
    2:{ intros r. now apply replace_go_free. }
    2:{ intros r. now apply replace_go_free_sp. }
    2:{ intros r. now apply replace_go_sep_sp. }
    2:{ intros r. now apply replace_go_at_sep. }
    2:{ apply Nw. } 2:{ apply Nw. }
    rewrite (replace_all_go xs) by exact Hxs.
    rewrite (gen_render2 xs [] [sp] [sp] (xs ++ [sp]) ([] ++ [sp]) ([] ++ [sp]) ([] ++ [sp]) [] []).
    2:{ intros r. now apply replace_go_free. }
    2:{ intros r. now apply replace_go_sep_sp. }
    2:{ intros r. now apply (replace_go_free xs [] [sp]). }
    2:{ intros r. reflexivity. }
    2:{ apply Ns. } 2:{ apply Ns. }
    rewrite (replace_all_go [sp]) by exact Hsp.
    rewrite (gen_render2 [sp] [] [sp] [] ([] ++ [sp]) [] ([] ++ [sp]) [] [] []).
    2:{ intros r. apply delete_sp_one. }
    2:{ intros r. apply delete_sp_one. }
    2:{ intros r. apply delete_sp_one. }
    2:{ intros r. reflexivity. }
    2:{ apply Nsp. } 2:{ apply Nsp. }
    cbn [replace_go]. rewrite app_nil_r, <- render_app, render_word_only, terminated_nil_sep.
    rewrite collapse_spaces_ws_free.
    - apply concat_words_of.
    - apply ws_free_concat. eapply Forall_impl; [|exact (shape_words_tok _ Hsh)]. now intros a [_ H].
  Qed.

  Lemma line_split : split_on [sp] line = blocks xs xw (t' ++ [wd]).
  Proof.
    unfold line. rewrite pad_ws_line_blocks, blocks_app_one. unfold terminated.
    apply split_on_join; [discriminate| |].
    - apply (Forall_impl _ (free_only_at_end [sp])).
      assert (Q : Forall (fun b : str => ~ In sp b) (blocks xs xw (t' ++ [wd]))).
      { apply blocks_Forall; [exact Hns|exact Hnw|].
        eapply Forall_impl; [|exact (shape_nested_tok _ Hsh)]. intros w0 Hw0.
        eapply Forall_impl; [|exact Hw0]. intros syl Hsyl.
        eapply Forall_impl; [|exact Hsyl]. intros ph [_ H]. now apply ws_free_not_sp. }
      rewrite blocks_app_one in Q. apply Forall_app in Q as [Q _].
      eapply Forall_impl; [|exact Q]. intros b. apply free_sp.
    - apply free_no_infix; [discriminate|now apply free_sp].
  Qed.

  Lemma line_adjacent :
    forallb (fun ab : str * str => if str_eqb (snd ab) xw then str_eqb (fst ab) xs else true)
            (zip_adj (split_on [sp] line)) = true.
  Proof.
    rewrite line_split. apply (zip_adj_blocks xs xw).
    - destruct (str_eqb_spec xs xw) as [E|]; [|reflexivity].
      exfalso. revert E. now apply free_neq.
    - pose proof (nested2_w xs xw _ Hfree) as N.
      unfold tree_shape in Hsh. rewrite Forall_forall in *. intros w0 Hw0.
      destruct (Hsh w0 Hw0) as [Hn Hs]. split; [exact Hn|].
      specialize (N w0 Hw0). rewrite Forall_forall in *. intros syl Hsyl.
      destruct (Hs syl Hsyl) as [_ Hp]. specialize (N syl Hsyl).
      rewrite Forall_forall in *. intros ph Hph. destruct (Hp ph Hph) as [Hne _].
      destruct (str_eqb_spec ph xw) as [E|]; [|reflexivity].
      exfalso. revert E. apply free_neq; [now apply N|exact Hne].
  Qed.

  Theorem check_utterance_accepts_pad_ws : check_utterance line sep cp = Ok tt.
  Proof.
    rewrite (check_utterance_spec line sep cp xw eq_refl).
    assert (A : accepts line sep cp xw = true); [|now rewrite A].
    unfold accepts, sep. cbn [sep3 s_word s_syll s_phone levels_for defined flat_map app split_py].
    destruct line_head as (c & r & El & Hc).
    pose proof line_no_prefix_all as Hpre.
    (* nonempty *)
    assert (A1 : nonempty line = true) by now rewrite El.
    (* not only separators *)
    match goal with |- context [strip_with ?l line] =>
      assert (A2 : nonempty (strip_with l line) = true);
      [ unfold strip_with; rewrite (strip_prefix_none l line) by (now apply first_prefix_none);
        pose proof (cut_here_no_prefix l line Hpre) as Hcut; rewrite El in *;
        rewrite strip_suffix_cons, Hcut; now rewrite strip_cons_nonspace | ] end.
    (* punctuation *)
    assert (A3 : cp && existsb is_punct (remove_all (sep3 [sp] xs xw) line) = false).
    { destruct cp; [|reflexivity]. cbn [andb]. fold sep. rewrite line_remove_all. now apply Hpunct. }
    (* does not begin with a separator *)
    inversion Hpre as [|? ? Pw Hpre2]; subst. inversion Hpre2 as [|? ? Ps Hpre3]; subst.
    inversion Hpre3 as [|? ? Pp _]; subst.
    match goal with |- context [negb (?a || ?b || ?c)] =>
      assert (A4 : a || b || c = false);
      [ unfold begins_with; now rewrite Pw, Ps, Pp, !andb_false_r | ] end.
    (* ends with the word separator *)
    assert (A5 : suffix_b xw line = true).
    { unfold suffix_b, line, pad_ws_line. rewrite render_one, !app_assoc, rev_app_distr.
      apply prefix_b_app. }
    rewrite A1, A2, A3, A4, A5, line_adjacent. cbn [negb andb]. now rewrite andb_false_r.
  Qed.
End PadWsAccept.

(* ================= prepare on a padded text ================= *)

Definition no_punct (t : utree) : Prop := existsb is_punct (concat (phones_of t)) = false.

Section PrepareTextPadWs.
  Variables xs xw : str.
  Hypothesis Hxs : xs <> [].
  Hypothesis Hxw : xw <> [].
  Hypothesis Hhs : hd_error xs <> Some sp.
  Hypothesis Hhw : hd_error xw <> Some sp.
  Hypothesis Fsw : free xs xw.
  Hypothesis Fws : free xw xs.
  Hypothesis Hns : ~ In sp xs.
  Hypothesis Hnw : ~ In sp xw.
  (* the last character of the word separator is not white space: strip() keeps it *)
  Hypothesis Hew : ends_ok xw.

  Let sep := sep3 [sp] xs xw.

  Lemma prepare_units_pad_ws (u : unit_level) (t' : utree) (wd : list (list str)) :
    tree_shape (t' ++ [wd]) -> Forall (phone_free2 xs xw) (phones_of (t' ++ [wd])) ->
    prepare_line sep u (pad_ws_line xs xw t' wd) = Ok (join [sp] (units u (t' ++ [wd]))).
  Proof.
    intros Hsh Hf. destruct u; cbn [units].
    - now apply prepare_phone_pad_ws_line.
    - now apply prepare_syll_pad_ws_line.
  Qed.

  (* strict or tolerant: every line is accepted, so the two modes agree *)
  Theorem prepare_text_pad_ws_spec (cp : bool) (text : list str) (trees : list utree) :
    text_pad_ws xs xw text trees ->
    (cp = true -> Forall no_punct trees) ->
    forall (u : unit_level) (tol : bool),
    prepare text sep u cp tol = (map (fun t : utree => join [sp] (units u t)) trees, PDone).
  Proof.
    intros H Hp u tol. unfold prepare. generalize 0.
    induction H as [|raw text trees Hb _ IH|t ws text trees Hn Hsh Hf Hws _ IH]; intros n.
    - reflexivity.
    - rewrite prepare_loop_cons, (line_status_blank _ _ _ _ Hb). now apply IH.
    - rewrite prepare_loop_cons.
      destruct (exists_last Hn) as (t' & wd & ->).
      destruct (strip_pad_ws_line xs xw t' wd ws Hxw Hew Hsh Hws) as [Est (c & r & El & Hc)].
      rewrite (line_status_good sep u cp _ (pad_ws_line xs xw t' wd)
                 (join [sp] (units u (t' ++ [wd])))).
      + rewrite IH; [reflexivity|]. intros E. specialize (Hp E). now inversion Hp.
      + exact Est.
      + rewrite El. discriminate.
      + apply check_utterance_accepts_pad_ws; try assumption.
        intros E. specialize (Hp E). now inversion Hp.
      + now apply prepare_units_pad_ws.
  Qed.

  (* the three text-level views: same number of lines, equal line by line without the spaces *)
  Theorem views_pad_ws_text_aligned (cp tol : bool) (text : list str) (trees : list utree)
          (gl pl sl : list str) :
    text_pad_ws xs xw text trees ->
    (cp = true -> Forall no_punct trees) ->
    gold text sep = Ok gl ->
    prepare text sep UPhone cp tol = (pl, PDone) ->
    prepare text sep USyll cp tol = (sl, PDone) ->
    length gl = length trees /\ length pl = length trees /\ length sl = length trees /\
    map despace pl = map despace sl /\ map despace sl = map despace gl.
  Proof.
    intros H Hp Hg Hph Hsy. unfold sep in Hg.
    rewrite (gold_text_pad_ws_spec xs xw text trees Hxs Hxw Hhs Fsw Hnw H) in Hg.
    rewrite (prepare_text_pad_ws_spec cp text trees H Hp UPhone tol) in Hph.
    rewrite (prepare_text_pad_ws_spec cp text trees H Hp USyll tol) in Hsy.
    injection Hg as <-. injection Hph as <-. injection Hsy as <-.
    rewrite !map_length, !map_map. repeat split; try reflexivity.
    - clear Hp. induction H as [|raw text trees Hb _ IH|t ws text trees Hn Hsh Hf Hws _ IH];
        [reflexivity|exact IH|].
      cbn [map units]. rewrite IH. f_equal.
      now destruct (views_aligned_tok t (shape_phones_tok t Hsh) (shape_sylls_tok t Hsh)
                      (shape_words_tok t Hsh)) as (_ & A & _).
    - clear Hp. induction H as [|raw text trees Hb _ IH|t ws text trees Hn Hsh Hf Hws _ IH];
        [reflexivity|exact IH|].
      cbn [map units]. rewrite IH. f_equal.
      now destruct (views_aligned_tok t (shape_phones_tok t Hsh) (shape_sylls_tok t Hsh)
                      (shape_words_tok t Hsh)) as (_ & _ & A).
  Qed.
End PrepareTextPadWs.

(* ================= test (vm_compute): default separators, a blank line in the middle ================= *)

Definition tx_t2 : utree := [[[[97]; [98]]]]%N.
Definition tx_text : list str :=
  [render_pad_ws ex_s ex_w ex_t ++ nl; [32; 10]%N; render_pad_ws ex_s ex_w tx_t2 ++ nl].
Definition tx_textp : list str :=
  [render_pad pd_p ex_s ex_w ex_t ++ nl; [32; 10]%N; render_pad pd_p ex_s ex_w tx_t2 ++ nl].

Example text_pad_tests :
  gold tx_text (sep3 [sp] ex_s ex_w) = Ok (map (fun t : utree => join [sp] (words_of t)) [ex_t; tx_t2]) /\
  prepare tx_text (sep3 [sp] ex_s ex_w) UPhone true false
  = (map (fun t : utree => join [sp] (phones_of t)) [ex_t; tx_t2], PDone) /\
  prepare tx_text (sep3 [sp] ex_s ex_w) USyll true false
  = (map (fun t : utree => join [sp] (sylls_of t)) [ex_t; tx_t2], PDone) /\
  gold tx_textp (sep3 pd_p ex_s ex_w) = Ok (map (fun t : utree => join [sp] (words_of t)) [ex_t; tx_t2]).
Proof. vm_compute. repeat split; reflexivity. Qed.

Print Assumptions gold_text_pad_spec.
Print Assumptions gold_text_pad_ws_spec.
Print Assumptions check_utterance_accepts_pad_ws.
Print Assumptions prepare_text_pad_ws_spec.
Print Assumptions views_pad_ws_text_aligned.
