(* C04: what prepare (phone / syllable level) and gold return on the compact rendering
   of an utterance tree: the phones, the syllables, the words, separated by single spaces. *)
From WS Require Import Base.Py Base.Str Separator.Model Separator.Render.
From WS Require Import Separator.StrLemmas Separator.StripLemmas Separator.ProofsTree
  Separator.ProofsTwo Separator.ProofsWsPhone Separator.Checkers.
From WS Require Import Prepare.Model Prepare.Proofs Prepare.ViewsLemmas.

(* ---------- tree_ok alone is not enough ---------- *)

(* phone separator ";", syllable separator "ab", word separator "ca", two words made of the
   single phone "b": the rendering is "b;abcab;abca"; removing "ab" first eats the "a" of the
   first word separator together with the next phone. *)
Definition cx_p : str := [59]%N.
Definition cx_s : str := [97; 98]%N.
Definition cx_w : str := [99; 97]%N.
Definition cx_t : utree := [[[[98%N]]]; [[[98%N]]]].

Example cx_tree_ok : tree_ok_b cx_p cx_s cx_w cx_t = true.
Proof. vm_compute. reflexivity. Qed.

Example cx_prepare_phone :
  prepare_line (sep3 cx_p cx_s cx_w) UPhone (render (sep3 cx_p cx_s cx_w) cx_t)
  = Ok [98; 32; 99]%N                                    (* "b c", not "b b" *)
  /\ join [sp] (phones_of cx_t) = [98; 32; 98]%N.
Proof. vm_compute. split; reflexivity. Qed.

Example cx_gold :
  gold_line (sep3 cx_p cx_s cx_w) (render (sep3 cx_p cx_s cx_w) cx_t) = Ok [98; 99]%N   (* "bc" *)
  /\ join [sp] (words_of cx_t) = [98; 32; 98]%N.
Proof. vm_compute. split; reflexivity. Qed.

(* ---------- hypotheses ---------- *)

(* no separator can start inside the phone, whatever follows it *)
Definition phone_free (xp xs xw ph : str) : Prop := free xp ph /\ free xs ph /\ free xw ph.
Definition phone_free2 (xp xw ph : str) : Prop := free xp ph /\ free xw ph.

(* the space-separated tokens of an output *)
Definition tok_full (xp xs xw tok : str) : Prop :=
  tok <> [] /\ ws_free tok /\
  infix_b xp tok = false /\ infix_b xs tok = false /\ infix_b xw tok = false.

(* ---------- token lists of a tree ---------- *)

Lemma concat_tok_ok (l : list str) : l <> [] -> Forall tok_ok l -> tok_ok (concat l).
Proof.
  intros Hl H. split.
  - apply concat_nonnil_Forall; [exact Hl|]. eapply Forall_impl; [|exact H]. now intros a [Ha _].
  - apply ws_free_concat. eapply Forall_impl; [|exact H]. now intros a [_ Ha].
Qed.

Lemma phone_ok_tok (xp ph : str) : phone_ok xp ph -> tok_ok ph.
Proof. intros (H1 & H2 & _). now split. Qed.

Lemma syl_ok_tok (xp xs : str) (syl : list str) : syl_ok xp xs syl -> tok_ok (concat syl).
Proof.
  intros (Hn & Hp & _). apply concat_tok_ok; [exact Hn|].
  eapply Forall_impl; [|exact Hp]. apply phone_ok_tok.
Qed.

Lemma word_ok_tok (xp xs xw : str) (w : list (list str)) : word_ok xp xs xw w -> tok_ok (word_plain w).
Proof.
  intros (Hn & Hs & _). unfold word_plain, syll_plain. apply concat_tok_ok.
  - destruct w; [congruence|discriminate].
  - apply Forall_map. eapply Forall_impl; [|exact Hs]. apply syl_ok_tok.
Qed.

Lemma tree_ok_phones_tok (xp xs xw : str) (t : utree) :
  tree_ok xp xs xw t -> Forall tok_ok (phones_of t).
Proof.
  intros H. unfold phones_of. apply Forall_concat. apply Forall_map.
  eapply Forall_impl; [|exact H]. intros w (_ & Hs & _).
  apply Forall_concat. eapply Forall_impl; [|exact Hs]. intros syl (_ & Hp & _).
  eapply Forall_impl; [|exact Hp]. apply phone_ok_tok.
Qed.

Lemma tree_ok_sylls_tok (xp xs xw : str) (t : utree) :
  tree_ok xp xs xw t -> Forall tok_ok (sylls_of t).
Proof.
  intros H. unfold sylls_of. apply Forall_concat. apply Forall_map.
  eapply Forall_impl; [|exact H]. intros w (_ & Hs & _).
  apply Forall_map. eapply Forall_impl; [|exact Hs]. apply syl_ok_tok.
Qed.

Lemma tree_ok_words_tok (xp xs xw : str) (t : utree) :
  tree_ok xp xs xw t -> Forall tok_ok (words_of t).
Proof.
  intros H. unfold words_of. apply Forall_map.
  eapply Forall_impl; [|exact H]. apply word_ok_tok.
Qed.

(* a property closed under concatenation goes from the phones to the syllables and words *)
Lemma nested_sylls (P : str -> Prop) (t : utree) :
  (forall l : list str, Forall P l -> P (concat l)) ->
  Forall (Forall (Forall P)) t -> Forall P (sylls_of t).
Proof.
  intros HP H. unfold sylls_of. apply Forall_concat. apply Forall_map.
  eapply Forall_impl; [|exact H]. intros w Hw. apply Forall_map.
  eapply Forall_impl; [|exact Hw]. intros syl. apply HP.
Qed.

Lemma nested_words (P : str -> Prop) (t : utree) :
  (forall l : list str, Forall P l -> P (concat l)) ->
  Forall (Forall (Forall P)) t -> Forall P (words_of t).
Proof.
  intros HP H. unfold words_of. apply Forall_map.
  eapply Forall_impl; [|exact H]. intros w Hw. unfold word_plain, syll_plain.
  apply HP. apply Forall_map. eapply Forall_impl; [|exact Hw]. intros syl. apply HP.
Qed.

Lemma concat_sylls_of (t : utree) : concat (sylls_of t) = concat (phones_of t).
Proof.
  unfold sylls_of, phones_of. induction t as [|w t IH]; [reflexivity|].
  cbn [map concat]. rewrite !concat_app, IH. f_equal. symmetry. apply (@concat_concat char).
Qed.

Lemma concat_words_of (t : utree) : concat (words_of t) = concat (phones_of t).
Proof.
  unfold words_of, phones_of. rewrite plain_phones. f_equal. apply concat_concat.
Qed.

Lemma tok_ok_not_sp (toks : list str) :
  Forall tok_ok toks -> Forall (fun t : str => ~ In sp t) toks.
Proof. apply Forall_impl. intros a [_ Ha]. now apply ws_free_not_sp. Qed.

(* the three views coincide once the spaces are removed *)
Theorem views_aligned_tok (t : utree) :
  Forall tok_ok (phones_of t) -> Forall tok_ok (sylls_of t) -> Forall tok_ok (words_of t) ->
  despace (join [sp] (phones_of t)) = concat (phones_of t) /\
  despace (join [sp] (phones_of t)) = despace (join [sp] (sylls_of t)) /\
  despace (join [sp] (sylls_of t)) = despace (join [sp] (words_of t)).
Proof.
  intros Hp Hs Hw.
  rewrite !despace_join by now apply tok_ok_not_sp.
  now rewrite concat_sylls_of, concat_words_of.
Qed.

(* a separator that does not begin with a space does not occur in a space-joined output *)
Lemma free_sp_hd (x : str) : x <> [] -> hd_error x <> Some sp -> free x [sp].
Proof.
  intros Hx H v u r E Hu. destruct x as [|d x]; [congruence|].
  destruct v as [|c v].
  - cbn [app] in E. subst u. cbn [app prefix_b].
    destruct (N.eqb_spec d sp) as [->|]; [|reflexivity]. now cbn [hd_error] in H.
  - cbn [app] in E. injection E as _ E. symmetry in E.
    apply app_eq_nil in E as [_ E]. congruence.
Qed.

Lemma free_join (x : str) (toks : list str) :
  free x [sp] -> Forall (free x) toks -> free x (join [sp] toks).
Proof.
  intros Hsp. induction 1 as [|a toks Ha Hr IH]; [apply free_nil|].
  destruct toks as [|b toks]; [exact Ha|].
  rewrite join_cons2. apply free_app; [exact Ha|]. apply free_app; [exact Hsp|exact IH].
Qed.

Lemma free_only_at_end (x b : str) : free x b -> only_at_end x b = true.
Proof.
  induction b as [|c b IH]; intros H; [apply only_at_end_nil|].
  apply only_at_end_cons. split; [now apply free_head|].
  apply IH. eapply free_cons_inv; eauto.
Qed.

(* ---------- the end of gold_line: split on the word separator, delete the spaces inside
   the words, join with spaces, utils.strip ---------- *)

Lemma split_go_ws_only (x s : str) : ws_only s ->
  forall (k : nat) (acc : str), ws_only acc -> Forall ws_only (split_go x s k acc).
Proof.
  induction 1 as [|c s Hc Hs IH]; intros k acc Hacc.
  - cbn [split_go]. constructor; [|constructor]. now apply Forall_rev.
  - cbn [split_go]. destruct k as [|k]; [|now apply IH].
    destruct (prefix_b x (c :: s)).
    + constructor; [now apply Forall_rev|]. apply IH. apply ws_only_nil.
    + apply IH. now constructor.
Qed.

Lemma join_ws_only (l : list str) : Forall ws_only l -> ws_only (join [sp] l).
Proof.
  induction 1 as [|a l Ha Hl IH]; [apply ws_only_nil|].
  destruct l as [|b l]; [exact Ha|]. rewrite join_cons2.
  apply ws_only_app; [exact Ha|]. apply ws_only_app; [apply ws_only_sp|exact IH].
Qed.

Lemma join_app_ws (toks pieces : list str) : Forall ws_only pieces ->
  exists w : str, ws_only w /\ join [sp] (toks ++ pieces) = join [sp] toks ++ w.
Proof.
  intros Hp. induction toks as [|a toks IH].
  - exists (join [sp] pieces). split; [now apply join_ws_only|reflexivity].
  - destruct IH as (w & Hw & E). destruct toks as [|b toks].
    + cbn [app] in *. destruct pieces as [|q pieces].
      * exists []. split; [apply ws_only_nil|now rewrite app_nil_r].
      * rewrite join_cons2. exists ([sp] ++ join [sp] (q :: pieces)). split; [|reflexivity].
        apply ws_only_app; [apply ws_only_sp|now apply join_ws_only].
    + exists w. split; [exact Hw|].
      change ((a :: b :: toks) ++ pieces) with (a :: b :: (toks ++ pieces)).
      rewrite !join_cons2. change (b :: toks ++ pieces) with ((b :: toks) ++ pieces).
      rewrite E. now rewrite <- !app_assoc.
Qed.

Lemma norm_ws_join_ws (toks : list str) (w : str) : Forall tok_ok toks -> ws_only w ->
  norm_ws (join [sp] toks ++ w) = join [sp] toks.
Proof.
  intros H Hw. unfold norm_ws. destruct toks as [|a toks].
  - cbn [join app].
    assert (E : strip w = []) by (apply strip_nil_iff; now apply ws_only_forallb).
    now rewrite E.
  - rewrite strip_trailing_ws.
    + now apply collapse_ws_join.
    + apply join_nonnil; [discriminate|exact H].
    + apply join_clean_ends; [discriminate|exact H].
    + exact Hw.
Qed.

Lemma replace_sp_tok (a : str) : tok_ok a -> replace_all [sp] [] a = a.
Proof.
  intros [_ H]. apply replace_all_no_infix. apply free_no_infix; [discriminate|].
  now apply free_sp, ws_free_not_sp.
Qed.

Theorem gold_tail (xw : str) (toks : list str) (rest : str) : xw <> [] ->
  Forall tok_ok toks -> Forall (fun a : str => only_at_end xw a = true) toks -> ws_only rest ->
  norm_ws (join [sp] (map (replace_all [sp] []) (split_on xw (terminated xw toks ++ rest))))
  = join [sp] toks.
Proof.
  intros Hxw Hok Hoe Hws. unfold terminated.
  rewrite split_on_joined_rest by assumption. rewrite map_app.
  rewrite (map_id_Forall (replace_all [sp] []) toks).
  2:{ eapply Forall_impl; [|exact Hok]. apply replace_sp_tok. }
  destruct (join_app_ws toks (map (replace_all [sp] []) (split_on xw rest))) as (w & Hw & E).
  { apply Forall_map. eapply Forall_impl.
    2:{ unfold split_on. apply split_go_ws_only; [exact Hws|apply ws_only_nil]. }
    intros a Ha. apply replace_all_ws_only; [apply ws_only_nil|exact Ha]. }
  rewrite E. now apply norm_ws_join_ws.
Qed.

Lemma free_words_only_at_end (x : str) (t : utree) :
  Forall (Forall (Forall (free x))) t -> Forall (fun a : str => only_at_end x a = true) (words_of t).
Proof.
  intros H. apply (Forall_impl _ (free_only_at_end x)).
  apply nested_words; [apply free_concat|exact H].
Qed.

Lemma replace_go_terminated (x new : str) (toks : list str) (rest : str) : x <> [] ->
  Forall (fun a : str => only_at_end x a = true) toks ->
  replace_go x new (terminated x toks ++ rest) 0
  = terminated new toks ++ replace_go x new rest 0.
Proof.
  intros Hx H. induction H as [|a toks Ha _ IH]; [reflexivity|].
  rewrite !terminated_cons, <- !app_assoc. rewrite only_at_end_replace_go by assumption.
  now rewrite IH.
Qed.

(* ---------- the end of prepare_line at syllable level: split on the syllable separator, clean
   each piece, join with spaces, utils.strip ---------- *)

Theorem split_join_tail (x : str) (f : str -> str) (bodies toks : list str) (rest : str) :
  x <> [] -> Forall (fun a : str => only_at_end x a = true) bodies ->
  map f bodies = toks -> Forall tok_ok toks ->
  (forall a : str, ws_only a -> ws_only (f a)) -> ws_only rest ->
  norm_ws (join [sp] (map f (split_on x (terminated x bodies ++ rest)))) = join [sp] toks.
Proof.
  intros Hx Hoe Hf Hok Hws Hr. unfold terminated.
  rewrite split_on_joined_rest by assumption. rewrite map_app, Hf.
  destruct (join_app_ws toks (map f (split_on x rest))) as (w & Hw & E).
  { apply Forall_map. eapply Forall_impl.
    2:{ unfold split_on. apply split_go_ws_only; [exact Hr|apply ws_only_nil]. }
    intros a Ha. now apply Hws. }
  rewrite E. now apply norm_ws_join_ws.
Qed.

Definition clean_syll (xp : str) (x : str) : str := replace_all [sp] [] (replace_all xp [] x).

Lemma clean_syll_ws_only (xp a : str) : ws_only a -> ws_only (clean_syll xp a).
Proof.
  intros H. unfold clean_syll. apply replace_all_ws_only; [apply ws_only_nil|].
  apply replace_all_ws_only; [apply ws_only_nil|exact H].
Qed.

(* syllable level on the compact rendering: nothing but [tree_ok] is needed any more; in
   particular the separators may contain spaces (the syllable separator may be a space) *)
Theorem prepare_syll_spec_spaces (xp xs xw : str) (t : utree) (ws : str) :
  xp <> [] -> xs <> [] -> xw <> [] -> tree_ok xp xs xw t -> ws_only ws ->
  prepare_line (sep3 xp xs xw) USyll (render (sep3 xp xs xw) t ++ ws) = Ok (join [sp] (sylls_of t)).
Proof.
  intros Hxp Hxs Hxw Ht Hws. unfold prepare_line.
  cbn [sep3 s_word s_syll s_phone Prepare.Model.osep]. cbv zeta. f_equal.
  rewrite render3_eq, (replace_all_go xw) by exact Hxw.
  rewrite replace_go_terminated; [|exact Hxw|].
  2:{ apply Forall_map. eapply Forall_impl; [|exact Ht]. now intros w (_ & _ & H). }
  rewrite <- (replace_all_go xw) by exact Hxw.
  rewrite terminated_nil_sep.
  assert (E1 : concat (map (word_body xp xs) t) = terminated xs (map (terminated xp) (concat t))).
  { unfold word_body. rewrite <- (map_map (map (terminated xp)) (terminated xs)).
    now rewrite concat_terminated, <- concat_map. }
  rewrite E1. pose proof (tree_ok_sylls xp xs xw t Ht) as Hs.
  apply (split_join_tail xs (clean_syll xp)).
  - exact Hxs.
  - apply Forall_map. eapply Forall_impl; [|exact Hs]. now intros syl (_ & _ & H).
  - rewrite map_map. unfold sylls_of. rewrite <- concat_map. apply map_ext_Forall.
    eapply Forall_impl; [|exact Hs]. intros syl Hsyl. unfold clean_syll, terminated.
    rewrite replace_all_joined; [|exact Hxp|].
    2:{ destruct Hsyl as (_ & Hp & _). eapply Forall_impl; [|exact Hp]. now intros ph (_ & _ & H). }
    apply replace_sp_tok. exact (syl_ok_tok xp xs syl Hsyl).
  - exact (tree_ok_sylls_tok _ _ _ _ Ht).
  - apply clean_syll_ws_only.
  - apply replace_all_ws_only; [apply ws_only_nil|exact Hws].
Qed.

(* ================= three defined levels ================= *)

Section Views3.
  Variables xp xs xw : str.
  Hypothesis Hxp : xp <> [].
  Hypothesis Hxs : xs <> [].
  Hypothesis Hxw : xw <> [].
  (* no separator can start inside another one *)
  Hypothesis Fsp : free xs xp.
  Hypothesis Fsw : free xs xw.
  Hypothesis Fwp : free xw xp.
  Hypothesis Fws : free xw xs.
  Hypothesis Fps : free xp xs.
  Hypothesis Fpw : free xp xw.

  Let sep := sep3 xp xs xw.

  Variable t : utree.
  Hypothesis Ht : tree_ok xp xs xw t.
  Hypothesis Hfree : Forall (phone_free xp xs xw) (phones_of t).

  Lemma nested_p : Forall (Forall (Forall (free xp))) t.
  Proof.
    apply phones_of_nested. eapply Forall_impl; [|exact Hfree]. now intros ph (H & _ & _).
  Qed.
  Lemma nested_s : Forall (Forall (Forall (free xs))) t.
  Proof.
    apply phones_of_nested. eapply Forall_impl; [|exact Hfree]. now intros ph (_ & H & _).
  Qed.
  Lemma nested_w : Forall (Forall (Forall (free xw))) t.
  Proof.
    apply phones_of_nested. eapply Forall_impl; [|exact Hfree]. now intros ph (_ & _ & H).
  Qed.
  Lemma nested_sp : Forall (Forall (Forall (free [sp]))) t.
  Proof.
    apply phones_of_nested. eapply Forall_impl; [|exact (tree_ok_phones_tok _ _ _ _ Ht)].
    intros ph [_ H]. now apply free_sp, ws_free_not_sp.
  Qed.

  (* ---- phone level ---- *)

  Theorem prepare_phone_spec_ws : forall ws : str, ws_only ws ->
    prepare_line sep UPhone (render sep t ++ ws) = Ok (join [sp] (phones_of t)).
  Proof.
    intros ws Hws. unfold prepare_line, sep.
    cbn [sep3 s_word s_syll s_phone Prepare.Model.osep]. f_equal.
    rewrite (replace_all_render_rest xs [] Hxs xp xs xw
               (or_intror Fsp) (or_introl eq_refl) (or_intror Fsw) t ws nested_s).
    rewrite sub_same, !sub_free by assumption.
    rewrite (replace_all_render_rest xw [] Hxw xp [] xw
               (or_intror Fwp) (or_intror (free_nil xw)) (or_introl eq_refl) t _ nested_w).
    rewrite sub_same, sub_nil, sub_free by assumption.
    rewrite (replace_all_render_rest xp [sp] Hxp xp [] []
               (or_introl eq_refl) (or_intror (free_nil xp)) (or_intror (free_nil xp)) t _ nested_p).
    rewrite sub_same, sub_nil by assumption.
    rewrite render_phone_only. apply norm_ws_terminated.
    - exact (tree_ok_phones_tok _ _ _ _ Ht).
    - repeat apply replace_all_ws_only; try exact Hws; try apply ws_only_nil; apply ws_only_sp.
  Qed.

  Theorem prepare_phone_spec :
    prepare_line sep UPhone (render sep t) = Ok (join [sp] (phones_of t)).
  Proof.
    rewrite <- (app_nil_r (render sep t)). apply prepare_phone_spec_ws, ws_only_nil.
  Qed.

  (* ---- gold ---- *)

  Theorem gold_spec_ws : forall ws : str, ws_only ws ->
    gold_line sep (render sep t ++ ws) = Ok (join [sp] (words_of t)).
  Proof.
    intros ws Hws. unfold gold_line, sep.
    cbn [sep3 s_word s_syll s_phone Prepare.Model.osep]. cbv zeta. f_equal.
    rewrite (replace_all_render_rest xs [] Hxs xp xs xw
               (or_intror Fsp) (or_introl eq_refl) (or_intror Fsw) t ws nested_s).
    rewrite sub_same, !sub_free by assumption.
    rewrite (replace_all_render_rest xp [] Hxp xp [] xw
               (or_introl eq_refl) (or_intror (free_nil xp)) (or_intror Fpw) t _ nested_p).
    rewrite sub_same, sub_nil, sub_free by assumption.
    rewrite render_word_only. apply gold_tail.
    - exact Hxw.
    - exact (tree_ok_words_tok _ _ _ _ Ht).
    - apply free_words_only_at_end, nested_w.
    - repeat apply replace_all_ws_only; try exact Hws; try apply ws_only_nil; apply ws_only_sp.
  Qed.

  Theorem gold_spec : gold_line sep (render sep t) = Ok (join [sp] (words_of t)).
  Proof.
    rewrite <- (app_nil_r (render sep t)). apply gold_spec_ws, ws_only_nil.
  Qed.

  (* ---- syllable level: every U+0020 is deleted before the syllable separator becomes one ---- *)

  Hypothesis Hsp_s : ~ In sp xs.
  Hypothesis Hsp_p : xp = [sp] \/ ~ In sp xp.

  Theorem prepare_syll_spec_ws : forall ws : str, ws_only ws ->
    prepare_line sep USyll (render sep t ++ ws) = Ok (join [sp] (sylls_of t)).
  Proof.
    (* since the syllable level cuts on the syllable separator first, [tree_ok] alone is enough
       (prepare_syll_spec_spaces); the other hypotheses are kept so that the statement is unchanged *)
    generalize Fwp Fws Fps Hfree Hsp_s Hsp_p. intros _ _ _ _ _ _.
    intros ws Hws. now apply prepare_syll_spec_spaces.
  Qed.

  Theorem prepare_syll_spec :
    prepare_line sep USyll (render sep t) = Ok (join [sp] (sylls_of t)).
  Proof.
    rewrite <- (app_nil_r (render sep t)). apply prepare_syll_spec_ws, ws_only_nil.
  Qed.

  (* ---- the outputs: tokens free of every separator, single interior spaces ---- *)

  Lemma tok_full_intro (l : list str) :
    Forall tok_ok l -> Forall (free xp) l -> Forall (free xs) l -> Forall (free xw) l ->
    Forall (tok_full xp xs xw) l.
  Proof.
    rewrite !Forall_forall. intros H0 H1 H2 H3 a Ha.
    destruct (H0 a Ha) as [Hn Hw]. unfold tok_full.
    repeat split; try assumption; apply free_no_infix; auto.
  Qed.

  Lemma phones_free_x (x : str) : Forall (Forall (Forall (free x))) t -> Forall (free x) (phones_of t).
  Proof.
    intros H. unfold phones_of. apply Forall_concat, Forall_map.
    eapply Forall_impl; [|exact H]. intros w. apply Forall_concat.
  Qed.

  Theorem views_tokens :
    Forall (tok_full xp xs xw) (phones_of t) /\
    Forall (tok_full xp xs xw) (sylls_of t) /\
    Forall (tok_full xp xs xw) (words_of t).
  Proof.
    split; [|split]; apply tok_full_intro.
    - exact (tree_ok_phones_tok _ _ _ _ Ht).
    - apply phones_free_x, nested_p.
    - apply phones_free_x, nested_s.
    - apply phones_free_x, nested_w.
    - exact (tree_ok_sylls_tok _ _ _ _ Ht).
    - apply nested_sylls; [apply free_concat|apply nested_p].
    - apply nested_sylls; [apply free_concat|apply nested_s].
    - apply nested_sylls; [apply free_concat|apply nested_w].
    - exact (tree_ok_words_tok _ _ _ _ Ht).
    - apply nested_words; [apply free_concat|apply nested_p].
    - apply nested_words; [apply free_concat|apply nested_s].
    - apply nested_words; [apply free_concat|apply nested_w].
  Qed.

  (* every output is [join [sp] toks] with non-empty, whitespace-free, separator-free tokens,
     and splitting it on whitespace gives the tokens back *)
  Theorem views_sep_free :
    (split_ws (join [sp] (phones_of t)) = phones_of t /\ Forall (tok_full xp xs xw) (phones_of t)) /\
    (split_ws (join [sp] (sylls_of t)) = sylls_of t /\ Forall (tok_full xp xs xw) (sylls_of t)) /\
    (split_ws (join [sp] (words_of t)) = words_of t /\ Forall (tok_full xp xs xw) (words_of t)).
  Proof.
    destruct views_tokens as (H1 & H2 & H3).
    split; [|split]; (split; [apply split_ws_join|assumption]).
    - exact (tree_ok_phones_tok _ _ _ _ Ht).
    - exact (tree_ok_sylls_tok _ _ _ _ Ht).
    - exact (tree_ok_words_tok _ _ _ _ Ht).
  Qed.

  (* a separator that does not begin with U+0020 occurs nowhere in the three outputs *)
  Theorem views_no_separator (x : str) :
    x = xp \/ x = xs \/ x = xw -> hd_error x <> Some sp ->
    infix_b x (join [sp] (phones_of t)) = false /\
    infix_b x (join [sp] (sylls_of t)) = false /\
    infix_b x (join [sp] (words_of t)) = false.
  Proof.
    intros Hx Hhd.
    assert (Hne : x <> []) by (destruct Hx as [->|[->| ->]]; assumption).
    assert (Hn : Forall (Forall (Forall (free x))) t).
    { destruct Hx as [->|[->| ->]]; [apply nested_p|apply nested_s|apply nested_w]. }
    pose proof (free_sp_hd x Hne Hhd) as Hsp.
    split; [|split]; apply free_no_infix; try exact Hne; apply free_join; try exact Hsp.
    - now apply phones_free_x.
    - apply nested_sylls; [apply free_concat|exact Hn].
    - apply nested_words; [apply free_concat|exact Hn].
  Qed.
End Views3.

Theorem views_aligned (xp xs xw : str) (t : utree) : tree_ok xp xs xw t ->
  despace (join [sp] (phones_of t)) = despace (join [sp] (sylls_of t)) /\
  despace (join [sp] (sylls_of t)) = despace (join [sp] (words_of t)) /\
  despace (join [sp] (phones_of t)) = concat (phones_of t).
Proof.
  intros H.
  destruct (views_aligned_tok t (tree_ok_phones_tok _ _ _ _ H) (tree_ok_sylls_tok _ _ _ _ H)
              (tree_ok_words_tok _ _ _ _ H)) as (H1 & H2 & H3).
  auto.
Qed.

(* ================= the syllable level undefined ================= *)

(* since fix 7cc02d3 an undefined syllable level no longer raises: the line is cut on white space *)
Theorem prepare_syll_undefined_ok (sep : separator) (line w : str) :
  s_word sep = Some w -> s_syll sep = None ->
  prepare_line sep USyll line
  = Ok (norm_ws (join [sp] (map (fun x : str => replace_all [sp] [] (replace_all (Prepare.Model.osep (s_phone sep)) [] x))
                                (split_ws (replace_all w [] line))))).
Proof. intros Hw Hs. unfold prepare_line. now rewrite Hw, Hs. Qed.

Theorem prepare_line_never_raises (sep : separator) (u : unit_level) (line w : str) :
  s_word sep = Some w -> exists o : str, prepare_line sep u line = Ok o.
Proof.
  intros Hw. unfold prepare_line. rewrite Hw.
  destruct u; [eexists; reflexivity|]. destruct (s_syll sep); eexists; reflexivity.
Qed.

Lemma word_plain_concat (w : list (list str)) : word_plain w = concat (concat w).
Proof. unfold word_plain, syll_plain. symmetry. apply (@concat_concat char). Qed.

Section Views2.
  Variables xp xw : str.
  Hypothesis Hxp : xp <> [].
  Hypothesis Hxw : xw <> [].
  Hypothesis Fwp : free xw xp.
  Hypothesis Fpw : free xp xw.

  Let sep := sep2 xp xw.

  Variable t : utree.
  Hypothesis Ht : tree2_ok xp xw t.
  Hypothesis Hfree : Forall (phone_free2 xp xw) (phones_of t).

  Lemma nested2_p : Forall (Forall (Forall (free xp))) t.
  Proof.
    apply phones_of_nested. eapply Forall_impl; [|exact Hfree]. now intros ph (H & _).
  Qed.
  Lemma nested2_w : Forall (Forall (Forall (free xw))) t.
  Proof.
    apply phones_of_nested. eapply Forall_impl; [|exact Hfree]. now intros ph (_ & H).
  Qed.

  Lemma tree2_phones_tok : Forall tok_ok (phones_of t).
  Proof.
    unfold phones_of. apply Forall_concat. eapply Forall_impl; [|exact Ht].
    intros wd (_ & Hp & _). eapply Forall_impl; [|exact Hp]. apply phone_ok_tok.
  Qed.

  Lemma tree2_words_tok : Forall tok_ok (words_of t).
  Proof.
    unfold words_of. apply Forall_map.
    assert (H : Forall (fun w : list (list str) => wordp_ok xp xw (concat w)) t).
    { apply Forall_map. exact Ht. }
    eapply Forall_impl; [|exact H]. intros w (Hn & Hp & _).
    rewrite word_plain_concat. apply concat_tok_ok; [exact Hn|].
    eapply Forall_impl; [|exact Hp]. apply phone_ok_tok.
  Qed.

  Theorem prepare_phone_spec2_ws : forall ws : str, ws_only ws ->
    prepare_line sep UPhone (render sep t ++ ws) = Ok (join [sp] (phones_of t)).
  Proof.
    intros ws Hws. unfold prepare_line, sep.
    cbn [sep2 s_word s_syll s_phone Prepare.Model.osep]. f_equal.
    rewrite replace_all_nil_nil, render2_as3.
    rewrite (replace_all_render_rest xw [] Hxw xp [] xw
               (or_intror Fwp) (or_intror (free_nil xw)) (or_introl eq_refl) t _ nested2_w).
    rewrite sub_same, sub_nil, sub_free by assumption.
    rewrite (replace_all_render_rest xp [sp] Hxp xp [] []
               (or_introl eq_refl) (or_intror (free_nil xp)) (or_intror (free_nil xp)) t _ nested2_p).
    rewrite sub_same, sub_nil by assumption.
    rewrite render_phone_only. apply norm_ws_terminated.
    - exact tree2_phones_tok.
    - repeat apply replace_all_ws_only; try exact Hws; try apply ws_only_nil; apply ws_only_sp.
  Qed.

  Theorem prepare_phone_spec2 :
    prepare_line sep UPhone (render sep t) = Ok (join [sp] (phones_of t)).
  Proof.
    rewrite <- (app_nil_r (render sep t)). apply prepare_phone_spec2_ws, ws_only_nil.
  Qed.

  Theorem gold_spec2_ws : forall ws : str, ws_only ws ->
    gold_line sep (render sep t ++ ws) = Ok (join [sp] (words_of t)).
  Proof.
    intros ws Hws. unfold gold_line, sep.
    cbn [sep2 s_word s_syll s_phone Prepare.Model.osep]. cbv zeta. f_equal.
    rewrite replace_all_nil_nil, render2_as3.
    rewrite (replace_all_render_rest xp [] Hxp xp [] xw
               (or_introl eq_refl) (or_intror (free_nil xp)) (or_intror Fpw) t _ nested2_p).
    rewrite sub_same, sub_nil, sub_free by assumption.
    rewrite render_word_only. apply gold_tail.
    - exact Hxw.
    - exact tree2_words_tok.
    - apply free_words_only_at_end, nested2_w.
    - repeat apply replace_all_ws_only; try exact Hws; try apply ws_only_nil; apply ws_only_sp.
  Qed.

  Theorem gold_spec2 : gold_line sep (render sep t) = Ok (join [sp] (words_of t)).
  Proof.
    rewrite <- (app_nil_r (render sep t)). apply gold_spec2_ws, ws_only_nil.
  Qed.

  Theorem views_aligned2 :
    despace (join [sp] (phones_of t)) = despace (join [sp] (words_of t)) /\
    despace (join [sp] (phones_of t)) = concat (phones_of t).
  Proof.
    rewrite !despace_join.
    - now rewrite concat_words_of.
    - apply tok_ok_not_sp, tree2_words_tok.
    - apply tok_ok_not_sp, tree2_phones_tok.
  Qed.
End Views2.

(* ================= texts ================= *)

Definition line_ok (xp xs xw : str) (t : utree) : Prop :=
  t <> [] /\ tree_ok xp xs xw t /\ Forall (phone_free xp xs xw) (phones_of t).

(* the non-blank lines of the text are the renderings of the trees, possibly followed by
   whitespace (the end of line) *)
Inductive text_of (xp xs xw : str) : list str -> list utree -> Prop :=
| TO_nil : text_of xp xs xw [] []
| TO_blank (raw : str) (text : list str) (trees : list utree) :
    strip raw = [] -> text_of xp xs xw text trees -> text_of xp xs xw (raw :: text) trees
| TO_line (t : utree) (ws : str) (text : list str) (trees : list utree) :
    line_ok xp xs xw t -> ws_only ws -> text_of xp xs xw text trees ->
    text_of xp xs xw ((render (sep3 xp xs xw) t ++ ws) :: text) (t :: trees).

Lemma words_join_nonempty (xp xs xw : str) (t : utree) :
  t <> [] -> tree_ok xp xs xw t -> nonempty (join [sp] (words_of t)) = true.
Proof.
  intros Hn Ht. apply nonempty_true. apply join_nonnil.
  - unfold words_of. destruct t; [congruence|discriminate].
  - exact (tree_ok_words_tok _ _ _ _ Ht).
Qed.

Theorem gold_text_spec (xp xs xw : str) (text : list str) (trees : list utree) :
  xp <> [] -> xs <> [] -> xw <> [] ->
  free xs xp -> free xs xw -> free xp xw ->
  text_of xp xs xw text trees ->
  gold text (sep3 xp xs xw) = Ok (map (fun t : utree => join [sp] (words_of t)) trees).
Proof.
  intros Hxp Hxs Hxw Fsp Fsw Fpw H.
  rewrite (gold_total text (sep3 xp xs xw)). f_equal.
  induction H as [|raw text trees Hb _ IH|t ws text trees (Hn & Ht & Hf) Hws _ IH].
  - reflexivity.
  - cbn [map filter]. rewrite (gold_str_blank _ _ Hb). cbn [nonempty]. exact IH.
  - cbn [map filter].
    assert (E : gold_str (sep3 xp xs xw) (render (sep3 xp xs xw) t ++ ws)
                = join [sp] (words_of t)).
    { pose proof (gold_spec_ws xp xs xw Hxp Hxs Hxw Fsp Fsw Fpw t Ht Hf ws Hws) as G.
      rewrite gold_line_ok in G. now injection G. }
    rewrite E, (words_join_nonempty xp xs xw t Hn Ht). now rewrite IH.
Qed.

(* ---- prepare on a text whose lines check_utterance accepts ---- *)

Definition units (u : unit_level) (t : utree) : list str :=
  match u with UPhone => phones_of t | USyll => sylls_of t end.

Lemma render_clean (xp xs xw : str) (t : utree) :
  xw <> [] -> ends_ok xw -> t <> [] -> tree_ok xp xs xw t ->
  render (sep3 xp xs xw) t <> [] /\ clean_ends (render (sep3 xp xs xw) t).
Proof.
  intros Hxw Hew Hn Ht. rewrite render3_eq.
  assert (Hne : terminated xw (map (word_body xp xs) t) <> []).
  { apply terminated_nonnil; [|exact Hxw]. destruct t; [congruence|discriminate]. }
  split; [exact Hne|]. split.
  - destruct Ht as [|w t (Hw & Hs & _) _]; [congruence|].
    destruct Hs as [|syl w (Hsy & Hp & _) _]; [congruence|].
    destruct Hp as [|ph syl (Hph & Hws & _) _]; [congruence|].
    cbn [map]. rewrite terminated_cons. unfold word_body. cbn [map].
    rewrite terminated_cons, terminated_cons.
    assert (A1 : ph ++ xp ++ terminated xp syl <> []) by (destruct ph; [congruence|discriminate]).
    apply starts_ok_app.
    { destruct (ph ++ xp ++ terminated xp syl); [congruence|discriminate]. }
    apply starts_ok_app; [exact A1|].
    apply starts_ok_app; [exact Hph|now apply ws_free_starts_ok].
  - unfold terminated. apply ends_ok_concat.
    + destruct t; [congruence|discriminate].
    + apply Forall_map. apply Forall_map. apply Forall_forall. intros w _. split.
      * destruct (word_body xp xs w); cbn [app]; [exact Hxw|discriminate].
      * now apply ends_ok_app.
Qed.

Lemma line_status_good (sep : separator) (u : unit_level) (cp : bool) (raw line o : str) :
  strip raw = line -> line <> [] ->
  check_utterance line sep cp = Ok tt -> prepare_line sep u line = Ok o ->
  line_status sep u cp raw = Good o.
Proof.
  intros E Hn Hc Hp. unfold line_status. rewrite E.
  destruct line as [|c l]; [congruence|]. now rewrite Hc, Hp.
Qed.

Inductive text_acc (xp xs xw : str) (cp : bool) : list str -> list utree -> Prop :=
| TA_nil : text_acc xp xs xw cp [] []
| TA_blank (raw : str) (text : list str) (trees : list utree) :
    strip raw = [] -> text_acc xp xs xw cp text trees -> text_acc xp xs xw cp (raw :: text) trees
| TA_line (t : utree) (ws : str) (text : list str) (trees : list utree) :
    line_ok xp xs xw t -> ws_only ws ->
    check_utterance (render (sep3 xp xs xw) t) (sep3 xp xs xw) cp = Ok tt ->
    text_acc xp xs xw cp text trees ->
    text_acc xp xs xw cp ((render (sep3 xp xs xw) t ++ ws) :: text) (t :: trees).

Section PrepareText.
  Variables xp xs xw : str.
  Hypothesis Hxp : xp <> [].
  Hypothesis Hxs : xs <> [].
  Hypothesis Hxw : xw <> [].
  Hypothesis Fsp : free xs xp.
  Hypothesis Fsw : free xs xw.
  Hypothesis Fwp : free xw xp.
  Hypothesis Fws : free xw xs.
  Hypothesis Fps : free xp xs.
  Hypothesis Hsp_s : ~ In sp xs.
  Hypothesis Hsp_p : xp = [sp] \/ ~ In sp xp.
  Hypothesis Hew : ends_ok xw.

  Let sep := sep3 xp xs xw.

  Lemma prepare_units (u : unit_level) (t : utree) :
    tree_ok xp xs xw t -> Forall (phone_free xp xs xw) (phones_of t) ->
    prepare_line sep u (render sep t) = Ok (join [sp] (units u t)).
  Proof.
    intros Ht Hf. destruct u; cbn [units].
    - now apply prepare_phone_spec.
    - now apply prepare_syll_spec.
  Qed.

  Theorem prepare_text_spec (cp : bool) (text : list str) (trees : list utree) :
    text_acc xp xs xw cp text trees ->
    forall (u : unit_level) (tol : bool),
    prepare text sep u cp tol = (map (fun t : utree => join [sp] (units u t)) trees, PDone).
  Proof.
    intros H u tol. unfold prepare. generalize 0.
    induction H as [|raw text trees Hb _ IH|t ws text trees (Hn & Ht & Hf) Hws Hc _ IH]; intros n.
    - reflexivity.
    - rewrite prepare_loop_cons, (line_status_blank _ _ _ _ Hb). apply IH.
    - rewrite prepare_loop_cons.
      destruct (render_clean xp xs xw t Hxw Hew Hn Ht) as [Hne Hcl].
      rewrite (line_status_good sep u cp _ (render sep t) (join [sp] (units u t))).
      + rewrite IH. reflexivity.
      + now apply strip_trailing_ws.
      + exact Hne.
      + exact Hc.
      + now apply prepare_units.
  Qed.
End PrepareText.

(* ================= boolean hypotheses ================= *)

Definition no_sp_b (s : str) : bool := negb (existsb (fun c : char => (c =? sp)%N) s).
Definition phone_free_b (xp xs xw ph : str) : bool := free_b xp ph && free_b xs ph && free_b xw ph.
Definition seps_free_b (xp xs xw : str) : bool :=
  free_b xs xp && free_b xs xw && free_b xw xp && free_b xw xs && free_b xp xs && free_b xp xw.

Definition c04_hyp_b (xp xs xw : str) (t : utree) : bool :=
  nonempty xp && nonempty xs && nonempty xw && seps_free_b xp xs xw &&
  tree_ok_b xp xs xw t && forallb (phone_free_b xp xs xw) (phones_of t) &&
  no_sp_b xs && (str_eqb xp [sp] || no_sp_b xp).

Lemma no_sp_b_sound (s : str) : no_sp_b s = true -> ~ In sp s.
Proof.
  unfold no_sp_b. intros H Hin. apply negb_true_iff in H.
  assert (E : existsb (fun c : char => (c =? sp)%N) s = true).
  { apply existsb_exists. exists sp. split; [exact Hin|apply N.eqb_refl]. }
  congruence.
Qed.

Theorem c04_views_b (xp xs xw : str) (t : utree) : c04_hyp_b xp xs xw t = true ->
  let sep := sep3 xp xs xw in
  prepare_line sep UPhone (render sep t) = Ok (join [sp] (phones_of t)) /\
  prepare_line sep USyll (render sep t) = Ok (join [sp] (sylls_of t)) /\
  gold_line sep (render sep t) = Ok (join [sp] (words_of t)) /\
  despace (join [sp] (phones_of t)) = despace (join [sp] (sylls_of t)) /\
  despace (join [sp] (sylls_of t)) = despace (join [sp] (words_of t)) /\
  Forall (tok_full xp xs xw) (phones_of t) /\
  Forall (tok_full xp xs xw) (sylls_of t) /\
  Forall (tok_full xp xs xw) (words_of t).
Proof.
  unfold c04_hyp_b, seps_free_b. rewrite !andb_true_iff.
  intros [[[[[[[H1 H2] H3] [[[[[F1 F2] F3] F4] F5] F6]] Ht] Hf] Hs] Hp].
  apply nonempty_true in H1, H2, H3.
  apply free_b_sound in F1, F2, F3, F4, F5, F6.
  apply tree_ok_b_sound in Ht. apply no_sp_b_sound in Hs.
  assert (Hf' : Forall (phone_free xp xs xw) (phones_of t)).
  { eapply forallb_Forall; [|exact Hf]. intros ph. unfold phone_free_b.
    rewrite !andb_true_iff. intros [[A B] C]. repeat split; now apply free_b_sound. }
  assert (Hp' : xp = [sp] \/ ~ In sp xp).
  { apply orb_true_iff in Hp as [Hp|Hp]; [left; now apply str_eqb_eq|right; now apply no_sp_b_sound]. }
  cbv zeta.
  destruct (views_aligned xp xs xw t Ht) as (A1 & A2 & _).
  destruct (views_tokens xp xs xw H1 H2 H3 t Ht Hf') as (T1 & T2 & T3).
  repeat split; try assumption.
  - now apply prepare_phone_spec.
  - now apply prepare_syll_spec.
  - now apply gold_spec.
Qed.

(* ================= remarks on the hypotheses ================= *)

(* the [only_at_end] parts of [tree_ok] follow from the [free] hypotheses: only the shape of
   the tree (non-empty words and syllables, non-empty whitespace-free phones) is used *)
Definition tree_shape (t : utree) : Prop :=
  Forall (fun w : list (list str) =>
            w <> [] /\ Forall (fun syl : list str => syl <> [] /\ Forall tok_ok syl) w) t.

Lemma free_terminated (x p : str) (toks : list str) :
  free x p -> Forall (free x) toks -> free x (terminated p toks).
Proof.
  intros Hp H. unfold terminated. apply free_concat. apply Forall_map.
  eapply Forall_impl; [|exact H]. intros a Ha. now apply free_app.
Qed.

Theorem free_tree_ok (xp xs xw : str) (t : utree) :
  tree_shape t -> free xs xp -> free xw xp -> free xw xs ->
  Forall (phone_free xp xs xw) (phones_of t) -> tree_ok xp xs xw t.
Proof.
  intros Hsh Fsp Fwp Fws Hf.
  pose proof (nested_p xp xs xw t Hf) as Np.
  pose proof (nested_s xp xs xw t Hf) as Ns.
  pose proof (nested_w xp xs xw t Hf) as Nw.
  unfold tree_ok, tree_shape in *. rewrite Forall_forall in *.
  intros w Hw. destruct (Hsh w Hw) as [Hwn Hsy].
  specialize (Np w Hw). specialize (Ns w Hw). specialize (Nw w Hw).
  rewrite Forall_forall in Hsy, Np, Ns, Nw.
  split; [exact Hwn|]. split.
  - apply Forall_forall. intros syl Hsyl. destruct (Hsy syl Hsyl) as [Hsn Hph].
    specialize (Np syl Hsyl). specialize (Ns syl Hsyl).
    split; [exact Hsn|]. split.
    + rewrite Forall_forall in *. intros ph Hin. destruct (Hph ph Hin) as [H1 H2].
      split; [exact H1|]. split; [exact H2|]. apply free_only_at_end. now apply Np.
    + apply free_only_at_end. now apply free_terminated.
  - apply free_only_at_end. unfold word_body. apply free_terminated; [exact Fws|].
    apply Forall_map. apply Forall_forall. intros syl Hsyl.
    apply free_terminated; [exact Fwp|]. now apply Nw.
Qed.

(* wordseg's default separators on a two-word utterance satisfy the boolean hypothesis;
   the counterexample above does not, although check_utterance accepts its line *)
Definition ex_p : str := [32]%N.                                   (* " " *)
Definition ex_s : str := [59; 101; 115; 121; 108; 108]%N.          (* ";esyll" *)
Definition ex_w : str := [59; 101; 119; 111; 114; 100]%N.          (* ";eword" *)
Definition ex_t : utree :=
  [[[[104]; [101]]; [[108]; [111]]]; [[[119]; [111]; [114]]; [[108]; [100; 101]]]]%N.

Example ex_hyp : c04_hyp_b ex_p ex_s ex_w ex_t = true.
Proof. vm_compute. reflexivity. Qed.

Example cx_hyp : c04_hyp_b cx_p cx_s cx_w cx_t = false.
Proof. vm_compute. reflexivity. Qed.

Example cx_accepted :
  check_utterance (render (sep3 cx_p cx_s cx_w) cx_t) (sep3 cx_p cx_s cx_w) false = Ok tt.
Proof. vm_compute. reflexivity. Qed.

(* ================= the same specifications under weaker hypotheses ================= *)

(* [tree_ok] already says where each separator occurs inside the tokens of its own level;
   what each view needs on top of it is listed theorem by theorem. *)

Section ViewsMin.
  Variables xp xs xw : str.
  Hypothesis Hxp : xp <> [].
  Hypothesis Hxs : xs <> [].
  Hypothesis Hxw : xw <> [].
  Let sep := sep3 xp xs xw.

  Lemma word_ok_sylls_s (w : list (list str)) : word_ok xp xs xw w ->
    Forall (fun b : str => only_at_end xs b = true) (map (terminated xp) w).
  Proof.
    intros (_ & Hs & _). apply Forall_map. eapply Forall_impl; [|exact Hs]. now intros syl (_ & _ & H).
  Qed.

  Lemma word_ok_phones_p (w : list (list str)) : word_ok xp xs xw w ->
    Forall (fun ph : str => only_at_end xp ph = true) (concat w).
  Proof.
    intros (_ & Hs & _). apply Forall_concat. eapply Forall_impl; [|exact Hs].
    intros syl (_ & Hp & _). eapply Forall_impl; [|exact Hp]. now intros ph (_ & _ & H).
  Qed.

  (* removing the syllable separator from the whole line *)
  Lemma min_remove_syll (t : utree) (rest : str) : free xs xw -> tree_ok xp xs xw t ->
    replace_go xs [] (terminated xw (map (word_body xp xs) t) ++ rest) 0
    = terminated xw (map (fun w : list (list str) => terminated xp (concat w)) t)
      ++ replace_go xs [] rest 0.
  Proof.
    intros Fsw H. induction H as [|w t Hw _ IH]; [reflexivity|].
    cbn [map]. rewrite !terminated_cons, <- !app_assoc. unfold word_body at 1.
    rewrite replace_go_terminated by (try exact Hxs; now apply word_ok_sylls_s).
    rewrite terminated_nil_sep, concat_terminated. f_equal.
    rewrite replace_go_free by exact Fsw. f_equal. exact IH.
  Qed.

  (* removing the phone separator once the syllable separators are gone *)
  Lemma min_remove_phone_w (t : utree) (rest : str) : free xp xw -> tree_ok xp xs xw t ->
    replace_go xp [] (terminated xw (map (fun w : list (list str) => terminated xp (concat w)) t) ++ rest) 0
    = terminated xw (map (fun w : list (list str) => concat (concat w)) t)
      ++ replace_go xp [] rest 0.
  Proof.
    intros Fpw H. induction H as [|w t Hw _ IH]; [reflexivity|].
    cbn [map]. rewrite !terminated_cons, <- !app_assoc.
    rewrite replace_go_terminated by (try exact Hxp; now apply word_ok_phones_p).
    rewrite terminated_nil_sep. f_equal.
    rewrite replace_go_free by exact Fpw. f_equal. exact IH.
  Qed.

  (* removing the phone separator from the syllable bodies, the syllable separators kept *)
  Lemma min_remove_phone_s (syls : list (list str)) (rest : str) : free xp xs ->
    Forall (syl_ok xp xs) syls ->
    replace_go xp [] (terminated xs (map (terminated xp) syls) ++ rest) 0
    = terminated xs (map (@concat char) syls) ++ replace_go xp [] rest 0.
  Proof.
    intros Fps H. induction H as [|syl syls Hsy _ IH]; [reflexivity|].
    cbn [map]. rewrite !terminated_cons, <- !app_assoc.
    rewrite replace_go_terminated.
    2: exact Hxp.
    2:{ destruct Hsy as (_ & Hp & _). eapply Forall_impl; [|exact Hp]. now intros ph (_ & _ & H). }
    rewrite terminated_nil_sep. f_equal.
    rewrite replace_go_free by exact Fps. f_equal. exact IH.
  Qed.

  Variable t : utree.
  Hypothesis Ht : tree_ok xp xs xw t.

  Lemma phones_only_p : Forall (fun ph : str => only_at_end xp ph = true) (phones_of t).
  Proof.
    unfold phones_of. apply Forall_concat, Forall_map.
    eapply Forall_impl; [|exact Ht]. apply word_ok_phones_p.
  Qed.

  Lemma terminated_phones :
    terminated [] (map (fun w : list (list str) => terminated xp (concat w)) t)
    = terminated xp (phones_of t).
  Proof.
    rewrite terminated_nil_sep. unfold phones_of.
    rewrite <- concat_terminated, map_map. reflexivity.
  Qed.

  Lemma words_of_concat : map (fun w : list (list str) => concat (concat w)) t = words_of t.
  Proof. unfold words_of. apply map_ext. intros w. symmetry. apply word_plain_concat. Qed.

  Lemma sylls_of_concat : map (@concat char) (concat t) = sylls_of t.
  Proof. unfold sylls_of. apply concat_map. Qed.

  (* phone level: the syllable separator cannot start inside the word separator, and the word
     separator cannot start inside a phone or the phone separator *)
  Theorem prepare_phone_spec_min : forall ws : str,
    free xs xw -> free xw xp -> Forall (free xw) (phones_of t) -> ws_only ws ->
    prepare_line sep UPhone (render sep t ++ ws) = Ok (join [sp] (phones_of t)).
  Proof.
    intros ws Fsw Fwp Hfw Hws. unfold prepare_line, sep.
    cbn [sep3 s_word s_syll s_phone Prepare.Model.osep]. f_equal.
    rewrite render3_eq, !replace_all_go by assumption.
    rewrite min_remove_syll by assumption.
    rewrite replace_go_terminated; [|exact Hxw|].
    2:{ apply Forall_map. apply Forall_forall. intros w Hw. apply free_only_at_end.
        apply free_terminated; [exact Fwp|].
        pose proof (phones_of_nested (free xw) t Hfw) as N. rewrite Forall_forall in N.
        apply Forall_concat. now apply N. }
    rewrite terminated_phones.
    rewrite replace_go_terminated by (try exact Hxp; exact phones_only_p).
    rewrite <- !replace_all_go by assumption.
    apply norm_ws_terminated.
    - exact (tree_ok_phones_tok _ _ _ _ Ht).
    - repeat apply replace_all_ws_only; try exact Hws; try apply ws_only_nil; apply ws_only_sp.
  Qed.

  (* gold: the syllable and phone separators cannot start inside the word separator, and the
     word separator cannot start inside a phone *)
  Theorem gold_spec_min : forall ws : str,
    free xs xw -> free xp xw -> Forall (free xw) (phones_of t) -> ws_only ws ->
    gold_line sep (render sep t ++ ws) = Ok (join [sp] (words_of t)).
  Proof.
    intros ws Fsw Fpw Hfw Hws. unfold gold_line, sep.
    cbn [sep3 s_word s_syll s_phone Prepare.Model.osep]. cbv zeta. f_equal.
    rewrite render3_eq, !replace_all_go by assumption.
    rewrite min_remove_syll by assumption.
    rewrite min_remove_phone_w by assumption.
    rewrite words_of_concat.
    rewrite <- !replace_all_go by assumption.
    apply gold_tail.
    - exact Hxw.
    - exact (tree_ok_words_tok _ _ _ _ Ht).
    - apply free_words_only_at_end. now apply phones_of_nested.
    - repeat apply replace_all_ws_only; try exact Hws; try apply ws_only_nil; apply ws_only_sp.
  Qed.

  (* syllable level: no U+0020 in the syllable separator; the phone separator is one space, or
     has no space and cannot start inside the syllable separator; the syllable separator
     cannot start inside a phone *)
  Theorem prepare_syll_spec_min : forall ws : str,
    ~ In sp xs -> xp = [sp] \/ (~ In sp xp /\ free xp xs) ->
    Forall (free xs) (phones_of t) -> ws_only ws ->
    prepare_line sep USyll (render sep t ++ ws) = Ok (join [sp] (sylls_of t)).
  Proof.
    (* the three side conditions are no longer used: see prepare_syll_spec_spaces *)
    intros ws _ _ _ Hws. now apply prepare_syll_spec_spaces.
  Qed.
End ViewsMin.

(* the gold of a text under the weaker hypotheses *)
Inductive text_of_min (xp xs xw : str) : list str -> list utree -> Prop :=
| TM_nil : text_of_min xp xs xw [] []
| TM_blank (raw : str) (text : list str) (trees : list utree) :
    strip raw = [] -> text_of_min xp xs xw text trees -> text_of_min xp xs xw (raw :: text) trees
| TM_line (t : utree) (ws : str) (text : list str) (trees : list utree) :
    t <> [] -> tree_ok xp xs xw t -> Forall (free xw) (phones_of t) -> ws_only ws ->
    text_of_min xp xs xw text trees ->
    text_of_min xp xs xw ((render (sep3 xp xs xw) t ++ ws) :: text) (t :: trees).

Theorem gold_text_spec_min (xp xs xw : str) (text : list str) (trees : list utree) :
  xp <> [] -> xs <> [] -> xw <> [] -> free xs xw -> free xp xw ->
  text_of_min xp xs xw text trees ->
  gold text (sep3 xp xs xw) = Ok (map (fun t : utree => join [sp] (words_of t)) trees).
Proof.
  intros Hxp Hxs Hxw Fsw Fpw H.
  rewrite (gold_total text (sep3 xp xs xw)). f_equal.
  induction H as [|raw text trees Hb _ IH|t ws text trees Hn Ht Hf Hws _ IH].
  - reflexivity.
  - cbn [map filter]. rewrite (gold_str_blank _ _ Hb). cbn [nonempty]. exact IH.
  - cbn [map filter].
    assert (E : gold_str (sep3 xp xs xw) (render (sep3 xp xs xw) t ++ ws)
                = join [sp] (words_of t)).
    { pose proof (gold_spec_min xp xs xw Hxp Hxs Hxw t Ht ws Fsw Fpw Hf Hws) as G.
      rewrite gold_line_ok in G. now injection G. }
    rewrite E, (words_join_nonempty xp xs xw t Hn Ht). now rewrite IH.
Qed.

(* ================= gold on a padded rendering ================= *)

(* Every phone and every separator is followed by one U+0020, e.g. with "-", ";esyll", ";eword":
   "h - e - ;esyll l - o - ;esyll ;eword ".  The separators given to gold are the unpadded ones. *)

Definition pad1 (ph : str) : str := ph ++ [sp].
Definition pad_tree (t : utree) : utree := map (map (map pad1)) t.
Definition render_pad (xp xs xw : str) (t : utree) : str :=
  render (sep3 (xp ++ [sp]) (xs ++ [sp]) (xw ++ [sp])) (pad_tree t).

(* one replacement over a rendering, the effect on each separator given abstractly *)
Section ReplaceTreeGen.
  Variables x new : str.
  Variables p p' s s' w w' : str.
  Let R (u : str) : str := replace_go x new u 0.
  Hypothesis Hp : forall rest : str, R (p ++ rest) = p' ++ R rest.
  Hypothesis Hs : forall rest : str, R (s ++ rest) = s' ++ R rest.
  Hypothesis Hw : forall rest : str, R (w ++ rest) = w' ++ R rest.

  Lemma gen_terminated (toks : list str) (rest : str) : Forall (free x) toks ->
    R (terminated p toks ++ rest) = terminated p' toks ++ R rest.
  Proof.
    induction 1 as [|a toks Ha _ IH]; [reflexivity|].
    rewrite !terminated_cons, <- !app_assoc. unfold R at 1.
    rewrite replace_go_free by exact Ha. f_equal. fold (R (p ++ terminated p toks ++ rest)).
    rewrite Hp. f_equal. exact IH.
  Qed.

  Lemma gen_sylls (wd : list (list str)) (rest : str) : Forall (Forall (free x)) wd ->
    R (concat (map (render_syll (sep3 p s w)) wd) ++ rest)
    = concat (map (render_syll (sep3 p' s' w')) wd) ++ R rest.
  Proof.
    induction 1 as [|syl wd Hsy _ IH]; [reflexivity|].
    cbn [map concat]. rewrite !render_syll3, <- !app_assoc.
    rewrite gen_terminated by exact Hsy. f_equal. rewrite Hs. f_equal. exact IH.
  Qed.

  Lemma gen_render (t : utree) (rest : str) : Forall (Forall (Forall (free x))) t ->
    R (render (sep3 p s w) t ++ rest) = render (sep3 p' s' w') t ++ R rest.
  Proof.
    induction 1 as [|wd t Hwd _ IH]; [reflexivity|].
    unfold render in *. cbn [map concat]. unfold render_word at 1 3.
    cbn [sep3 s_word Render.osep]. rewrite <- !app_assoc.
    rewrite gen_sylls by exact Hwd. f_equal. rewrite Hw. f_equal. exact IH.
  Qed.
End ReplaceTreeGen.

Lemma replace_go_sep_sp (x new rest : str) : x <> [] -> free x [sp] ->
  replace_go x new ((x ++ [sp]) ++ rest) 0 = (new ++ [sp]) ++ replace_go x new rest 0.
Proof.
  intros Hx Hf. rewrite <- !app_assoc. rewrite replace_go_at_sep by exact Hx. f_equal.
  now apply replace_go_free.
Qed.

Lemma replace_go_free_sp (x new y rest : str) : free x y -> free x [sp] ->
  replace_go x new ((y ++ [sp]) ++ rest) 0 = (y ++ [sp]) ++ replace_go x new rest 0.
Proof. intros Hy Hf. apply replace_go_free. now apply free_app. Qed.

Lemma pad_tree_free (x : str) (t : utree) : free x [sp] ->
  Forall (Forall (Forall (free x))) t -> Forall (Forall (Forall (free x))) (pad_tree t).
Proof.
  intros Hf H. unfold pad_tree. apply Forall_map. eapply Forall_impl; [|exact H].
  intros wd Hwd. apply Forall_map. eapply Forall_impl; [|exact Hwd].
  intros syl Hsyl. apply Forall_map. eapply Forall_impl; [|exact Hsyl].
  intros ph Hph. now apply free_app.
Qed.

(* str.replace(' ', '') deletes the spaces *)
Lemma replace_sp_despace (u : str) : replace_all [sp] [] u = despace u.
Proof.
  cbn [replace_all]. induction u as [|c u IH]; [reflexivity|].
  rewrite replace_go_0_cons. cbn [prefix_b length Nat.sub app despace filter].
  rewrite N.eqb_sym. destruct (c =? sp)%N; cbn [andb negb]; [exact IH|]. f_equal. exact IH.
Qed.

(* a word once the syllable and phone separators are gone: phones and spaces *)
Definition pad_body (wd : list (list str)) : str :=
  concat (map (render_syll (sep3 [sp] [sp] [])) (map (map pad1) wd)).

Lemma pad_shape (xw : str) (t : utree) :
  render (sep3 [sp] [sp] (xw ++ [sp])) (pad_tree t)
  = concat (map (fun wd : list (list str) => pad_body wd ++ xw ++ [sp]) t).
Proof.
  unfold render, pad_tree. rewrite map_map. f_equal.
Qed.

Lemma despace_sp_syll (syl : list str) : Forall (fun ph : str => ~ In sp ph) syl ->
  despace (render_syll (sep3 [sp] [sp] []) (map pad1 syl)) = concat syl.
Proof.
  intros H. rewrite render_syll3, despace_app. cbn [despace filter N.eqb negb].
  change (filter _ [sp]) with (@nil char). rewrite app_nil_r.
  induction H as [|ph syl Hph _ IH]; [reflexivity|].
  cbn [map]. rewrite terminated_cons, !despace_app, IH. unfold pad1.
  rewrite despace_app, (despace_no_sp ph Hph).
  change (despace [sp]) with (@nil char). now rewrite !app_nil_r.
Qed.

Lemma despace_pad_body (wd : list (list str)) :
  Forall (Forall (fun ph : str => ~ In sp ph)) wd -> despace (pad_body wd) = word_plain wd.
Proof.
  unfold pad_body, word_plain, syll_plain.
  induction 1 as [|syl wd Hsyl _ IH]; [reflexivity|].
  cbn [map concat]. now rewrite despace_app, despace_sp_syll, IH.
Qed.

Lemma free_pad_body (x : str) (wd : list (list str)) : free x [sp] ->
  Forall (Forall (free x)) wd -> free x (pad_body wd).
Proof.
  intros Hf H. unfold pad_body. apply free_concat. apply Forall_map. apply Forall_map.
  eapply Forall_impl; [|exact H]. intros syl Hsyl. rewrite render_syll3.
  apply free_app; [|exact Hf]. apply free_terminated; [exact Hf|].
  apply Forall_map. eapply Forall_impl; [|exact Hsyl]. intros ph Hph. now apply free_app.
Qed.

(* splitting on the word separator when each one is followed by a space: the space goes
   to the front of the next piece *)
Lemma split_go_padded (xw : str) (Ws : list str) (rest : str) : xw <> [] -> free xw [sp] ->
  Forall (fun W : str => only_at_end xw W = true) Ws ->
  forall acc : str,
  split_go xw (concat (map (fun W : str => W ++ xw ++ [sp]) Ws) ++ rest) 0 acc
  = match Ws with
    | [] => split_go xw rest 0 acc
    | W :: Ws' => (rev acc ++ W) :: map (fun V : str => [sp] ++ V) Ws' ++ split_go xw rest 0 [sp]
    end.
Proof.
  intros Hxw Hf H. induction H as [|W Ws HW _ IH]; intros acc; [reflexivity|].
  cbn [map concat]. rewrite <- !app_assoc.
  rewrite only_at_end_split_go by assumption. f_equal.
  cbn [app]. rewrite split_go_0_cons.
  pose proof (free_head xw [] (concat (map (fun W0 : str => W0 ++ xw ++ [sp]) Ws) ++ rest) sp Hf) as P.
  cbn [app] in P. rewrite P. rewrite IH.
  destruct Ws as [|V Ws]; reflexivity.
Qed.

Section GoldPad.
  Variables xp xs xw : str.
  Hypothesis Hxp : xp <> [].
  Hypothesis Hxs : xs <> [].
  Hypothesis Hxw : xw <> [].
  (* no separator begins with a space *)
  Hypothesis Hhp : hd_error xp <> Some sp.
  Hypothesis Hhs : hd_error xs <> Some sp.
  Hypothesis Hhw : hd_error xw <> Some sp.
  Hypothesis Fsp : free xs xp.
  Hypothesis Fsw : free xs xw.
  Hypothesis Fpw : free xp xw.

  Variable t : utree.
  Hypothesis Hsh : tree_shape t.
  Hypothesis Hfree : Forall (phone_free xp xs xw) (phones_of t).

  Lemma shape_words_tok : Forall tok_ok (words_of t).
  Proof.
    unfold words_of. apply Forall_map. eapply Forall_impl; [|exact Hsh].
    intros wd (Hn & Hs). unfold word_plain, syll_plain. apply concat_tok_ok.
    - destruct wd; [congruence|discriminate].
    - apply Forall_map. eapply Forall_impl; [|exact Hs]. intros syl (Hsn & Hp).
      now apply concat_tok_ok.
  Qed.

  Lemma shape_no_sp : Forall (Forall (Forall (fun ph : str => ~ In sp ph))) t.
  Proof.
    eapply Forall_impl; [|exact Hsh]. intros wd (_ & Hs).
    eapply Forall_impl; [|exact Hs]. intros syl (_ & Hp).
    eapply Forall_impl; [|exact Hp]. intros ph (_ & Hw). now apply ws_free_not_sp.
  Qed.

  Theorem gold_pad_spec : forall ws : str, ws_only ws ->
    gold_line (sep3 xp xs xw) (render_pad xp xs xw t ++ ws) = Ok (join [sp] (words_of t)).
  Proof.
    intros ws Hws. unfold gold_line, render_pad.
    cbn [sep3 s_word s_syll s_phone Prepare.Model.osep]. cbv zeta. f_equal.
    pose proof (free_sp_hd xp Hxp Hhp) as Sp.
    pose proof (free_sp_hd xs Hxs Hhs) as Ss.
    pose proof (free_sp_hd xw Hxw Hhw) as Sw.
    pose proof (nested_p xp xs xw t Hfree) as Np.
    pose proof (nested_s xp xs xw t Hfree) as Ns.
    pose proof (nested_w xp xs xw t Hfree) as Nw.
    (* the syllable separator *)
    rewrite (replace_all_go xs) by exact Hxs.
    rewrite (gen_render xs [] (xp ++ [sp]) (xp ++ [sp]) (xs ++ [sp]) ([] ++ [sp])
               (xw ++ [sp]) (xw ++ [sp])).
    2:{ intros rest. now apply replace_go_free_sp. }
    2:{ intros rest. now apply replace_go_sep_sp. }
    2:{ intros rest. now apply replace_go_free_sp. }
    2:{ now apply pad_tree_free. }
    (* the phone separator *)
    rewrite (replace_all_go xp) by exact Hxp.
    rewrite (gen_render xp [] (xp ++ [sp]) ([] ++ [sp]) ([] ++ [sp]) ([] ++ [sp])
               (xw ++ [sp]) (xw ++ [sp])).
    2:{ intros rest. now apply replace_go_sep_sp. }
    2:{ intros rest. now apply replace_go_free. }
    2:{ intros rest. now apply replace_go_free_sp. }
    2:{ now apply pad_tree_free. }
    cbn [app]. rewrite pad_shape.
    (* the split *)
    rewrite <- (map_map pad_body (fun W : str => W ++ xw ++ [sp])).
    unfold split_on. rewrite split_go_padded; [|exact Hxw|exact Sw|].
    2:{ apply Forall_map. eapply Forall_impl; [|exact Nw]. intros wd Hwd.
        apply free_only_at_end. now apply free_pad_body. }
    set (rest := replace_go xp [] (replace_go xs [] ws 0) 0).
    assert (Hrest : ws_only rest).
    { unfold rest. apply ws_only_forallb. apply replace_go_space; [reflexivity|].
      apply replace_go_space; [reflexivity|]. now apply ws_only_forallb. }
    assert (Hpieces : forall acc : str, ws_only acc ->
              Forall ws_only (map (replace_all [sp] []) (split_go xw rest 0 acc))).
    { intros acc Hacc. apply Forall_map. eapply Forall_impl.
      2:{ apply split_go_ws_only; [exact Hrest|exact Hacc]. }
      intros a Ha. apply replace_all_ws_only; [apply ws_only_nil|exact Ha]. }
    assert (E : exists pieces : list str, Forall ws_only pieces /\
              map (replace_all [sp] [])
                (match map pad_body t with
                 | [] => split_go xw rest 0 []
                 | W :: Ws' => (rev [] ++ W) :: map (fun V : str => [sp] ++ V) Ws' ++ split_go xw rest 0 [sp]
                 end) = words_of t ++ pieces).
    { pose proof shape_no_sp as Hns. unfold words_of.
      destruct Hns as [|wd t' Hwd Ht'].
      - cbn [map app]. eexists. split; [apply Hpieces, ws_only_nil|reflexivity].
      - cbn [map rev app]. eexists. split; [apply (Hpieces [sp]), ws_only_sp|].
        rewrite map_app. cbn [map]. f_equal.
        + rewrite replace_sp_despace. now apply despace_pad_body.
        + f_equal. rewrite !map_map. apply map_ext_Forall.
          eapply Forall_impl; [|exact Ht']. intros wd' Hwd'. cbn beta.
          rewrite replace_sp_despace.
          change (sp :: pad_body wd') with ([sp] ++ pad_body wd').
          rewrite despace_app. change (despace [sp]) with (@nil char). cbn [app].
          now apply despace_pad_body. }
    destruct E as (pieces & Hp & E). rewrite E.
    destruct (join_app_ws (words_of t) pieces Hp) as (w & Hw & E2).
    rewrite E2. apply norm_ws_join_ws; [exact shape_words_tok|exact Hw].
  Qed.
End GoldPad.

Definition pd_p : str := [45]%N.                                   (* "-" *)
Example pad_example :
  render_pad pd_p ex_s ex_w [[[[104]; [101]]; [[108]; [111]]]]%N
  = [104;32;45;32;101;32;45;32;59;101;115;121;108;108;32;
     108;32;45;32;111;32;45;32;59;101;115;121;108;108;32;59;101;119;111;114;100;32]%N
  /\ gold_line (sep3 pd_p ex_s ex_w) (render_pad pd_p ex_s ex_w ex_t)
     = Ok (join [sp] (words_of ex_t)).
Proof. vm_compute. split; reflexivity. Qed.

(* ================= what the repair of the syllable level (fix 7cc02d3) bought ================= *)

Definition sx_us : str := [95]%N.                                  (* "_" *)
Definition sx_t : utree := [[[[97]; [98]]; [[99]]]; [[[100]]]]%N.   (* (ab)(c) (d) *)

(* the syllable separator is a space: "a_b_ c_ ;ewordd_ ;eword" *)
Example prepare_syll_space_sep :
  render (sep3 sx_us [sp] ex_w) sx_t
  = [97;95;98;95;32; 99;95;32; 59;101;119;111;114;100; 100;95;32; 59;101;119;111;114;100]%N /\
  prepare_line (sep3 sx_us [sp] ex_w) USyll (render (sep3 sx_us [sp] ex_w) sx_t)
  = Ok [97; 98; 32; 99; 32; 100]%N.                                (* "ab c d" *)
Proof. vm_compute. split; reflexivity. Qed.

(* the syllable separator contains a space: "= s" *)
Example prepare_syll_inner_space_sep :
  render (sep3 sx_us [61; 32; 115]%N ex_w) sx_t
  = [97;95;98;95;61;32;115; 99;95;61;32;115; 59;101;119;111;114;100; 100;95;61;32;115; 59;101;119;111;114;100]%N /\
  prepare_line (sep3 sx_us [61; 32; 115]%N ex_w) USyll (render (sep3 sx_us [61; 32; 115]%N ex_w) sx_t)
  = Ok [97; 98; 32; 99; 32; 100]%N.
Proof. vm_compute. split; reflexivity. Qed.

(* the phone separator contains a space: "_ _" *)
Example prepare_syll_phone_inner_space :
  render (sep3 [95; 32; 95]%N [61]%N ex_w) sx_t
  = [97;95;32;95;98;95;32;95;61; 99;95;32;95;61; 59;101;119;111;114;100; 100;95;32;95;61; 59;101;119;111;114;100]%N /\
  prepare_line (sep3 [95; 32; 95]%N [61]%N ex_w) USyll (render (sep3 [95; 32; 95]%N [61]%N ex_w) sx_t)
  = Ok [97; 98; 32; 99; 32; 100]%N.
Proof. vm_compute. split; reflexivity. Qed.

(* the three trees above satisfy [tree_ok], the only hypothesis of prepare_syll_spec_spaces *)
Example prepare_syll_space_examples_ok :
  tree_ok_b sx_us [sp] ex_w sx_t = true /\ tree_ok_b sx_us [61; 32; 115]%N ex_w sx_t = true /\
  tree_ok_b [95; 32; 95]%N [61]%N ex_w sx_t = true.
Proof. vm_compute. repeat split; reflexivity. Qed.

(* an undefined syllable level: the chunks between white space, cleaned; with "_" as phone
   separator the whole utterance is one chunk, with " " the chunks are the phones *)
Example prepare_syll_undefined_example_us :
  prepare_line (sep2 sx_us ex_w) USyll (render (sep2 sx_us ex_w) ex_t)
  = Ok (concat (phones_of ex_t)).                                   (* "helloworlde" *)
Proof. vm_compute. reflexivity. Qed.

Example prepare_syll_undefined_example_sp :
  prepare_line (sep2 [sp] ex_w) USyll (render (sep2 [sp] ex_w) ex_t)
  = Ok (join [sp] (phones_of ex_t)).                                (* "h e l o w o r l de" *)
Proof. vm_compute. reflexivity. Qed.
