(* Theorems about the model of wordseg/prepare.py (Prepare/Model.v):
   A. check_utterance is exactly the documented list of defects;
   B. the prepare generator (filtering, first error, blank lines, line numbers);
   C. the wordseg-prep command selects the same lines for its two outputs. *)
From WS Require Import Base.Py Base.Str Separator.Model Prepare.Model.
From Coq Require Import Lia.

(* ================================================================== *)
(* A. check_utterance                                                  *)
(* ================================================================== *)

Definition accepts (utt : str) (sep : separator) (cp : bool) (w : str) : bool :=
  nonempty utt && nonempty (strip_with (levels_for sep None) utt)
  && negb (cp && existsb is_punct (remove_all sep utt))
  && negb (begins_with (s_phone sep) utt || begins_with (s_syll sep) utt || begins_with (s_word sep) utt)
  && suffix_b w utt
  && match s_syll sep with
     | Some sy => negb (infix_b sy utt && negb (forallb (fun ab => if str_eqb (snd ab) w then str_eqb (fst ab) sy else true) (zip_adj (split_py (s_phone sep) utt))))
     | None => true end.

Theorem check_utterance_spec : forall (utt : str) (sep : separator) (cp : bool) (w : str),
  s_word sep = Some w ->
  check_utterance utt sep cp = if accepts utt sep cp w then Ok tt else Raise ValueError.
Proof.
  intros utt sep cp w Hw. unfold check_utterance, accepts. rewrite Hw.
  destruct utt as [|c t]; [reflexivity|].
  destruct (nonempty (strip_with (levels_for sep None) (c :: t))); [|reflexivity].
  destruct (cp && existsb is_punct (remove_all sep (c :: t))); [reflexivity|].
  destruct (begins_with (s_phone sep) (c :: t) || begins_with (s_syll sep) (c :: t)
            || begins_with (Some w) (c :: t)); [reflexivity|].
  destruct (suffix_b w (c :: t)); [|reflexivity].
  destruct (s_syll sep) as [sy|]; [|reflexivity].
  destruct (infix_b sy (c :: t) &&
            negb (forallb (fun ab : str * str => if str_eqb (snd ab) w then str_eqb (fst ab) sy else true)
                          (zip_adj (split_py (s_phone sep) (c :: t))))); reflexivity.
Qed.

Theorem check_utterance_only_value_error : forall (utt : str) (sep : separator) (cp : bool) (w : str) (e : exn),
  s_word sep = Some w -> check_utterance utt sep cp = Raise e -> e = ValueError.
Proof.
  intros utt sep cp w e Hw H. rewrite (check_utterance_spec utt sep cp w Hw) in H.
  destruct (accepts utt sep cp w); congruence.
Qed.

Theorem check_utterance_no_word_sep : forall (utt : str) (sep : separator) (cp : bool),
  s_word sep = None ->
  check_utterance utt sep cp = Raise ValueError \/ check_utterance utt sep cp = Raise TypeError.
Proof.
  intros utt sep cp Hw. unfold check_utterance. rewrite Hw.
  destruct utt as [|c t]; [left; reflexivity|].
  destruct (negb (nonempty (strip_with (levels_for sep None) (c :: t)))); [left; reflexivity|].
  destruct (cp && existsb is_punct (remove_all sep (c :: t))); [left; reflexivity|].
  destruct (begins_with (s_phone sep) (c :: t) || begins_with (s_syll sep) (c :: t)
            || begins_with None (c :: t)); [left; reflexivity|].
  right; reflexivity.
Qed.

(* never accepted without a word separator *)
Corollary check_utterance_no_word_sep_never_ok : forall (utt : str) (sep : separator) (cp : bool),
  s_word sep = None -> check_utterance utt sep cp <> Ok tt.
Proof.
  intros utt sep cp Hw. destruct (check_utterance_no_word_sep utt sep cp Hw) as [H|H]; rewrite H; discriminate.
Qed.

Lemma rejected_of_not_accepted : forall (utt : str) (sep : separator) (cp : bool) (w : str),
  s_word sep = Some w -> accepts utt sep cp w = false -> check_utterance utt sep cp = Raise ValueError.
Proof.
  intros utt sep cp w Hw H. rewrite (check_utterance_spec utt sep cp w Hw), H. reflexivity.
Qed.

Theorem accepted_iff : forall (utt : str) (sep : separator) (cp : bool) (w : str),
  s_word sep = Some w -> (check_utterance utt sep cp = Ok tt <-> accepts utt sep cp w = true).
Proof.
  intros utt sep cp w Hw. rewrite (check_utterance_spec utt sep cp w Hw).
  destruct (accepts utt sep cp w); split; congruence.
Qed.

Theorem rejects_empty : forall (utt : str) (sep : separator) (cp : bool) (w : str),
  s_word sep = Some w -> utt = [] -> check_utterance utt sep cp = Raise ValueError.
Proof. intros utt sep cp w _ ->. reflexivity. Qed.

Theorem rejects_only_separators : forall (utt : str) (sep : separator) (cp : bool) (w : str),
  s_word sep = Some w -> strip_with (levels_for sep None) utt = [] ->
  check_utterance utt sep cp = Raise ValueError.
Proof.
  intros utt sep cp w Hw H. apply (rejected_of_not_accepted utt sep cp w Hw).
  unfold accepts. rewrite H. cbn [nonempty]. rewrite andb_false_r. reflexivity.
Qed.

Theorem rejects_punctuation : forall (utt : str) (sep : separator) (cp : bool) (w : str),
  s_word sep = Some w -> cp = true -> existsb is_punct (remove_all sep utt) = true ->
  check_utterance utt sep cp = Raise ValueError.
Proof.
  intros utt sep cp w Hw -> H. apply (rejected_of_not_accepted utt sep true w Hw).
  unfold accepts. rewrite H. cbn [andb negb]. rewrite andb_false_r. reflexivity.
Qed.

Theorem rejects_leading_separator : forall (utt : str) (sep : separator) (cp : bool) (w : str),
  s_word sep = Some w ->
  begins_with (s_phone sep) utt || begins_with (s_syll sep) utt || begins_with (s_word sep) utt = true ->
  check_utterance utt sep cp = Raise ValueError.
Proof.
  intros utt sep cp w Hw H. apply (rejected_of_not_accepted utt sep cp w Hw).
  unfold accepts. rewrite H. cbn [negb]. rewrite andb_false_r. reflexivity.
Qed.

(* the same defect, stated on the separator strings themselves *)
Corollary rejects_leading_separator_str : forall (utt : str) (sep : separator) (cp : bool) (w x : str),
  s_word sep = Some w ->
  In (Some x) [s_phone sep; s_syll sep; s_word sep] -> x <> [] -> prefix_b x utt = true ->
  check_utterance utt sep cp = Raise ValueError.
Proof.
  intros utt sep cp w x Hw Hin Hx Hp. apply (rejects_leading_separator utt sep cp w Hw).
  assert (Hb : begins_with (Some x) utt = true).
  { unfold begins_with. rewrite Hp. destruct x; [congruence|reflexivity]. }
  destruct Hin as [E|[E|[E|[]]]]; rewrite E, Hb; rewrite ?orb_true_r; reflexivity.
Qed.

Theorem rejects_missing_final_word_separator : forall (utt : str) (sep : separator) (cp : bool) (w : str),
  s_word sep = Some w -> suffix_b w utt = false -> check_utterance utt sep cp = Raise ValueError.
Proof.
  intros utt sep cp w Hw H. apply (rejected_of_not_accepted utt sep cp w Hw).
  unfold accepts. rewrite H. rewrite andb_false_r. reflexivity.
Qed.

Theorem rejects_missing_syllable_separator : forall (utt : str) (sep : separator) (cp : bool) (w sy : str),
  s_word sep = Some w -> s_syll sep = Some sy -> infix_b sy utt = true ->
  forallb (fun ab => if str_eqb (snd ab) w then str_eqb (fst ab) sy else true)
          (zip_adj (split_py (s_phone sep) utt)) = false ->
  check_utterance utt sep cp = Raise ValueError.
Proof.
  intros utt sep cp w sy Hw Hsy Hi Hf. apply (rejected_of_not_accepted utt sep cp w Hw).
  unfold accepts. rewrite Hsy, Hi, Hf. cbn [andb negb]. apply andb_false_r.
Qed.

(* with check_punct = false the punctuation clause is vacuous: is_punct no longer occurs *)
Theorem punctuation_allowed : forall (utt : str) (sep : separator) (w : str),
  accepts utt sep false w =
  nonempty utt && nonempty (strip_with (levels_for sep None) utt)
  && negb (begins_with (s_phone sep) utt || begins_with (s_syll sep) utt || begins_with (s_word sep) utt)
  && suffix_b w utt
  && match s_syll sep with
     | Some sy => negb (infix_b sy utt && negb (forallb (fun ab => if str_eqb (snd ab) w then str_eqb (fst ab) sy else true) (zip_adj (split_py (s_phone sep) utt))))
     | None => true end.
Proof.
  intros utt sep w. unfold accepts. cbn [andb negb]. rewrite andb_true_r. reflexivity.
Qed.

(* the punctuation check only ever removes utterances *)
Theorem accepts_punct_monotone : forall (utt : str) (sep : separator) (w : str),
  accepts utt sep true w = accepts utt sep false w && negb (existsb is_punct (remove_all sep utt)).
Proof.
  intros utt sep w. unfold accepts. cbn [andb negb].
  destruct (existsb is_punct (remove_all sep utt)); cbn [negb];
    rewrite ?andb_true_r, ?andb_false_r; reflexivity.
Qed.

Corollary check_punct_irrelevant_without_punctuation : forall (utt : str) (sep : separator) (w : str),
  s_word sep = Some w -> existsb is_punct (remove_all sep utt) = false ->
  check_utterance utt sep true = check_utterance utt sep false.
Proof.
  intros utt sep w Hw H. rewrite !(check_utterance_spec utt sep _ w Hw), accepts_punct_monotone, H.
  cbn [negb]. rewrite andb_true_r. reflexivity.
Qed.

(* ================================================================== *)
(* B. The generator                                                    *)
(* ================================================================== *)

Inductive status := Blank | Good (out : str) | Bad | Crash (e : exn).

Definition line_status (sep : separator) (u : unit_level) (cp : bool) (raw : str) : status :=
  match strip raw with
  | [] => Blank
  | line => match check_utterance line sep cp with
            | Raise ValueError => Bad
            | Raise e => Crash e
            | Ok _ => match prepare_line sep u line with Ok o => Good o | Raise ValueError => Bad | Raise e => Crash e end
            end
  end.

Definition goods (l : list status) : list str :=
  flat_map (fun s => match s with Good o => [o] | _ => [] end) l.

(* a line the strict generator passes over without stopping *)
Definition ok_line (sep : separator) (u : unit_level) (cp : bool) (r : str) : Prop :=
  match line_status sep u cp r with Blank | Good _ => True | _ => False end.

Lemma goods_cons : forall (s : status) (l : list status),
  goods (s :: l) = match s with Good o => [o] | _ => [] end ++ goods l.
Proof. reflexivity. Qed.

Lemma line_status_blank : forall (sep : separator) (u : unit_level) (cp : bool) (raw : str),
  strip raw = [] -> line_status sep u cp raw = Blank.
Proof. intros sep u cp raw H. unfold line_status. rewrite H. reflexivity. Qed.

Lemma line_status_blank_iff : forall (sep : separator) (u : unit_level) (cp : bool) (raw : str),
  line_status sep u cp raw = Blank <-> strip raw = [].
Proof.
  intros sep u cp raw. split; [|apply line_status_blank].
  unfold line_status. destruct (strip raw) as [|c l]; [reflexivity|].
  destruct (check_utterance (c :: l) sep cp) as [[]|e].
  - destruct (prepare_line sep u (c :: l)) as [o|e]; [discriminate|destruct e; discriminate].
  - destruct e; discriminate.
Qed.

Lemma line_status_nonblank : forall (sep : separator) (u : unit_level) (cp : bool) (raw : str),
  line_status sep u cp raw <> Blank -> nonempty (strip raw) = true.
Proof.
  intros sep u cp raw H. destruct (strip raw) eqn:E; [|reflexivity].
  exfalso. apply H. apply line_status_blank. exact E.
Qed.

(* a crash is never a ValueError *)
Lemma line_status_crash_not_value_error : forall (sep : separator) (u : unit_level) (cp : bool) (raw : str),
  line_status sep u cp raw <> Crash ValueError.
Proof.
  intros sep u cp raw. unfold line_status. destruct (strip raw) as [|c l]; [discriminate|].
  destruct (check_utterance (c :: l) sep cp) as [[]|e].
  - destruct (prepare_line sep u (c :: l)) as [o|e]; [discriminate|destruct e; discriminate].
  - destruct e; discriminate.
Qed.

(* one step of the generator, by the status of the line *)
Lemma prepare_loop_cons : forall (raw : str) (r : list str) (sep : separator) (u : unit_level) (cp tol : bool) (n : nat),
  prepare_loop (raw :: r) sep u cp tol n =
  match line_status sep u cp raw with
  | Blank => prepare_loop r sep u cp tol (S n)
  | Good o => let '(os, e) := prepare_loop r sep u cp tol (S n) in (o :: os, e)
  | Bad => if tol then prepare_loop r sep u cp tol (S n) else ([], PError ValueError (S n))
  | Crash e => ([], PError e 0)
  end.
Proof.
  intros raw r sep u cp tol n. cbn [prepare_loop]. unfold line_status.
  destruct (strip raw) as [|c l]; [reflexivity|].
  destruct (check_utterance (c :: l) sep cp) as [[]|e].
  - destruct (prepare_line sep u (c :: l)) as [o|e]; [reflexivity|destruct e; reflexivity].
  - destruct e; reflexivity.
Qed.

(* ---- tolerant mode: a filter ---- *)

Lemma prepare_loop_tolerant_filter : forall (text : list str) (sep : separator) (u : unit_level) (cp : bool) (n : nat),
  (forall (raw : str) (e : exn), In raw text -> line_status sep u cp raw <> Crash e) ->
  prepare_loop text sep u cp true n = (goods (map (line_status sep u cp) text), PDone).
Proof.
  induction text as [|raw r IH]; intros sep u cp n H; [reflexivity|].
  rewrite prepare_loop_cons. cbn [map]. rewrite goods_cons.
  assert (IH' := IH sep u cp (S n) (fun raw0 e Hin => H raw0 e (or_intror Hin))).
  destruct (line_status sep u cp raw) eqn:LS.
  - exact IH'.
  - rewrite IH'. reflexivity.
  - exact IH'.
  - exfalso. apply (H raw e); [left; reflexivity|exact LS].
Qed.

Theorem prepare_tolerant_filter : forall (text : list str) (sep : separator) (u : unit_level) (cp : bool),
  (forall (raw : str) (e : exn), In raw text -> line_status sep u cp raw <> Crash e) ->
  prepare text sep u cp true = (goods (map (line_status sep u cp) text), PDone).
Proof. intros text sep u cp H. apply prepare_loop_tolerant_filter. exact H. Qed.

(* ---- strict mode ---- *)

Lemma prepare_loop_strict_first_error : forall (pre : list str) (raw : str) (post : list str)
    (sep : separator) (u : unit_level) (cp : bool) (n : nat),
  Forall (ok_line sep u cp) pre ->
  line_status sep u cp raw = Bad ->
  prepare_loop (pre ++ raw :: post) sep u cp false n =
  (goods (map (line_status sep u cp) pre), PError ValueError (n + S (length pre))).
Proof.
  induction pre as [|x pre IH]; intros raw post sep u cp n Hpre Hbad.
  - cbn [app map length]. rewrite prepare_loop_cons, Hbad.
    replace (n + 1) with (S n) by lia. reflexivity.
  - inversion Hpre as [|x' pre' Hx Hpre']; subst.
    cbn [app map length]. rewrite prepare_loop_cons, goods_cons.
    unfold ok_line in Hx.
    destruct (line_status sep u cp x); try contradiction.
    + rewrite (IH raw post sep u cp (S n) Hpre' Hbad). cbn [app].
      replace (S n + S (length pre)) with (n + S (S (length pre))) by lia. reflexivity.
    + rewrite (IH raw post sep u cp (S n) Hpre' Hbad). cbn [app].
      replace (S n + S (length pre)) with (n + S (S (length pre))) by lia. reflexivity.
Qed.

Theorem prepare_strict_first_error : forall (pre : list str) (raw : str) (post : list str)
    (sep : separator) (u : unit_level) (cp : bool),
  Forall (fun r => match line_status sep u cp r with Blank | Good _ => True | _ => False end) pre ->
  line_status sep u cp raw = Bad ->
  prepare (pre ++ raw :: post) sep u cp false =
  (goods (map (line_status sep u cp) pre), PError ValueError (S (length pre))).
Proof.
  intros pre raw post sep u cp Hpre Hbad.
  exact (prepare_loop_strict_first_error pre raw post sep u cp 0 Hpre Hbad).
Qed.

Lemma prepare_loop_strict_wellformed : forall (text : list str) (sep : separator) (u : unit_level) (cp : bool) (n : nat),
  Forall (ok_line sep u cp) text ->
  prepare_loop text sep u cp false n = (goods (map (line_status sep u cp) text), PDone).
Proof.
  induction text as [|x r IH]; intros sep u cp n H; [reflexivity|].
  inversion H as [|x' r' Hx Hr]; subst.
  rewrite prepare_loop_cons. cbn [map]. rewrite goods_cons. unfold ok_line in Hx.
  destruct (line_status sep u cp x); try contradiction.
  - exact (IH sep u cp (S n) Hr).
  - rewrite (IH sep u cp (S n) Hr). reflexivity.
Qed.

Theorem prepare_strict_wellformed : forall (text : list str) (sep : separator) (u : unit_level) (cp : bool),
  Forall (fun r => match line_status sep u cp r with Blank | Good _ => True | _ => False end) text ->
  prepare text sep u cp false = (goods (map (line_status sep u cp) text), PDone).
Proof. intros text sep u cp H. exact (prepare_loop_strict_wellformed text sep u cp 0 H). Qed.

(* a crash (an exception other than ValueError) stops the generator in both modes, without line number *)
Lemma prepare_loop_crash : forall (pre : list str) (raw : str) (post : list str)
    (sep : separator) (u : unit_level) (cp tol : bool) (n : nat) (e : exn),
  Forall (fun r => match line_status sep u cp r with Blank | Good _ => True | Bad => tol = true | Crash _ => False end) pre ->
  line_status sep u cp raw = Crash e ->
  prepare_loop (pre ++ raw :: post) sep u cp tol n = (goods (map (line_status sep u cp) pre), PError e 0).
Proof.
  induction pre as [|x pre IH]; intros raw post sep u cp tol n e Hpre Hc.
  - cbn [app map]. rewrite prepare_loop_cons, Hc. reflexivity.
  - inversion Hpre as [|x' pre' Hx Hpre']; subst.
    cbn [app map]. rewrite prepare_loop_cons, goods_cons.
    destruct (line_status sep u cp x); try contradiction.
    + exact (IH raw post sep u cp tol (S n) e Hpre' Hc).
    + rewrite (IH raw post sep u cp tol (S n) e Hpre' Hc). reflexivity.
    + subst tol. exact (IH raw post sep u cp true (S n) e Hpre' Hc).
Qed.

(* converses: what a normal end tells about the lines *)
Lemma prepare_loop_done_no_crash : forall (text : list str) (sep : separator) (u : unit_level) (cp tol : bool)
    (n : nat) (outs : list str),
  prepare_loop text sep u cp tol n = (outs, PDone) ->
  forall (raw : str) (e : exn), In raw text -> line_status sep u cp raw <> Crash e.
Proof.
  induction text as [|x r IH]; intros sep u cp tol n outs H raw e Hin; [destruct Hin|].
  rewrite prepare_loop_cons in H.
  destruct Hin as [->|Hin].
  - intro LS. rewrite LS in H. discriminate.
  - destruct (line_status sep u cp x).
    + exact (IH sep u cp tol (S n) outs H raw e Hin).
    + destruct (prepare_loop r sep u cp tol (S n)) as [os e'] eqn:E.
      inversion H; subst. exact (IH sep u cp tol (S n) os E raw e Hin).
    + destruct tol; [|discriminate]. exact (IH sep u cp true (S n) outs H raw e Hin).
    + discriminate.
Qed.

Lemma prepare_loop_strict_done_ok : forall (text : list str) (sep : separator) (u : unit_level) (cp : bool)
    (n : nat) (outs : list str),
  prepare_loop text sep u cp false n = (outs, PDone) -> Forall (ok_line sep u cp) text.
Proof.
  induction text as [|x r IH]; intros sep u cp n outs H; [constructor|].
  rewrite prepare_loop_cons in H. unfold ok_line at 1.
  destruct (line_status sep u cp x) eqn:LS.
  - constructor; [unfold ok_line; rewrite LS; exact I|]. exact (IH sep u cp (S n) outs H).
  - destruct (prepare_loop r sep u cp false (S n)) as [os e'] eqn:E.
    inversion H; subst. constructor; [unfold ok_line; rewrite LS; exact I|].
    exact (IH sep u cp (S n) os E).
  - discriminate.
  - discriminate.
Qed.

(* ---- blank lines and line numbers ---- *)

Theorem prepare_blank_skipped : forall (raw : str) (r : list str) (sep : separator) (u : unit_level)
    (cp tol : bool) (n : nat),
  strip raw = [] ->
  prepare_loop (raw :: r) sep u cp tol n = prepare_loop r sep u cp tol (S n).
Proof.
  intros raw r sep u cp tol n H.
  rewrite prepare_loop_cons, (line_status_blank sep u cp raw H). reflexivity.
Qed.

(* line numbers of an end status moved by one *)
Definition bump (e : pend) : pend :=
  match e with PError x (S m) => PError x (S (S m)) | _ => e end.
(* ... only those after line k *)
Definition bump_after (k : nat) (e : pend) : pend :=
  match e with PError x (S m) => if k <=? m then PError x (S (S m)) else e | _ => e end.

Lemma prepare_loop_succ : forall (text : list str) (sep : separator) (u : unit_level) (cp tol : bool) (n : nat),
  prepare_loop text sep u cp tol (S n) =
  let '(os, e) := prepare_loop text sep u cp tol n in (os, bump e).
Proof.
  induction text as [|x r IH]; intros sep u cp tol n; [reflexivity|].
  rewrite !prepare_loop_cons.
  destruct (line_status sep u cp x).
  - apply IH.
  - rewrite (IH sep u cp tol (S n)).
    destruct (prepare_loop r sep u cp tol (S n)) as [os e']. reflexivity.
  - destruct tol; [apply IH|reflexivity].
  - reflexivity.
Qed.

(* reported line numbers are at least the starting counter + 1 *)
Lemma prepare_loop_error_bound : forall (text : list str) (sep : separator) (u : unit_level) (cp tol : bool)
    (n : nat) (os : list str) (x : exn) (m : nat),
  prepare_loop text sep u cp tol n = (os, PError x (S m)) -> n <= m /\ m < n + length text.
Proof.
  induction text as [|y r IH]; intros sep u cp tol n os x m H; [discriminate|].
  rewrite prepare_loop_cons in H. cbn [length].
  destruct (line_status sep u cp y).
  - apply IH in H. lia.
  - destruct (prepare_loop r sep u cp tol (S n)) as [os' e'] eqn:E.
    inversion H; subst. apply IH in E. lia.
  - destruct tol; [apply IH in H; lia|]. inversion H; subst. lia.
  - discriminate.
Qed.

(* a blank line anywhere: same output; the end status is the same except that line
   numbers after the insertion point move by one *)
Theorem prepare_blank_skipped_anywhere : forall (pre : list str) (raw : str) (post : list str)
    (sep : separator) (u : unit_level) (cp tol : bool) (n : nat),
  strip raw = [] ->
  prepare_loop (pre ++ raw :: post) sep u cp tol n =
  let '(os, e) := prepare_loop (pre ++ post) sep u cp tol n in (os, bump_after (n + length pre) e).
Proof.
  induction pre as [|x pre IH]; intros raw post sep u cp tol n Hb.
  - cbn [app length]. rewrite (prepare_blank_skipped raw post sep u cp tol n Hb), prepare_loop_succ.
    destruct (prepare_loop post sep u cp tol n) as [os e] eqn:E. f_equal.
    destruct e as [|ex [|m]]; try reflexivity.
    apply prepare_loop_error_bound in E. cbn [bump bump_after].
    replace (n + 0 <=? m) with true by (symmetry; apply Nat.leb_le; lia). reflexivity.
  - cbn [app length]. rewrite !prepare_loop_cons.
    replace (n + S (length pre)) with (S n + length pre) by lia.
    destruct (line_status sep u cp x).
    + exact (IH raw post sep u cp tol (S n) Hb).
    + rewrite (IH raw post sep u cp tol (S n) Hb).
      destruct (prepare_loop (pre ++ post) sep u cp tol (S n)) as [os e]. reflexivity.
    + destruct tol; [exact (IH raw post sep u cp true (S n) Hb)|].
      cbn [bump_after]. replace (S n + length pre <=? n) with false by (symmetry; apply Nat.leb_gt; lia).
      reflexivity.
    + reflexivity.
Qed.

Corollary prepare_blank_skipped_output : forall (pre : list str) (raw : str) (post : list str)
    (sep : separator) (u : unit_level) (cp tol : bool) (n : nat),
  strip raw = [] ->
  fst (prepare_loop (pre ++ raw :: post) sep u cp tol n) = fst (prepare_loop (pre ++ post) sep u cp tol n).
Proof.
  intros pre raw post sep u cp tol n Hb.
  rewrite (prepare_blank_skipped_anywhere pre raw post sep u cp tol n Hb).
  destruct (prepare_loop (pre ++ post) sep u cp tol n). reflexivity.
Qed.

(* ---- at most one output per non-blank line ---- *)

Lemma prepare_loop_output_count : forall (text : list str) (sep : separator) (u : unit_level) (cp tol : bool)
    (n : nat) (outs : list str) (e : pend),
  prepare_loop text sep u cp tol n = (outs, e) ->
  length outs <= length (filter (fun r => nonempty (strip r)) text).
Proof.
  induction text as [|x r IH]; intros sep u cp tol n outs e H.
  - inversion H; subst. apply Nat.le_refl.
  - rewrite prepare_loop_cons in H. cbn [filter].
    destruct (line_status sep u cp x) eqn:LS.
    + apply IH in H. destruct (nonempty (strip x)); cbn [length]; lia.
    + rewrite (line_status_nonblank sep u cp x) by (rewrite LS; discriminate).
      destruct (prepare_loop r sep u cp tol (S n)) as [os e'] eqn:E.
      inversion H; subst. apply IH in E. cbn [length]. lia.
    + rewrite (line_status_nonblank sep u cp x) by (rewrite LS; discriminate).
      destruct tol; [apply IH in H; cbn [length]; lia|].
      inversion H; subst. cbn [length]. lia.
    + inversion H; subst. cbn [length]. lia.
Qed.

Theorem prepare_output_count : forall (text : list str) (sep : separator) (u : unit_level) (cp tol : bool)
    (outs : list str) (e : pend),
  prepare text sep u cp tol = (outs, e) ->
  length outs <= length (filter (fun r => nonempty (strip r)) text).
Proof. intros text sep u cp tol outs e H. exact (prepare_loop_output_count text sep u cp tol 0 outs e H). Qed.

(* ================================================================== *)
(* C. The command                                                      *)
(* ================================================================== *)

Theorem is_valid_blank : forall (sep : separator) (cp : bool), is_valid [] sep cp = false.
Proof. reflexivity. Qed.

Theorem prepare_line_no_value_error : forall (sep : separator) (u : unit_level) (line : str) (e : exn),
  prepare_line sep u line = Raise e -> e = TypeError.
Proof.
  intros sep u line e. unfold prepare_line.
  destruct (s_word sep) as [w|]; [|congruence].
  destruct u; [discriminate|].
  destruct (s_syll sep) as [sy|]; [discriminate|congruence].
Qed.

(* prepare_line succeeds whenever the separator has what the unit needs *)
Lemma prepare_line_ok : forall (sep : separator) (u : unit_level) (line : str) (w : str),
  s_word sep = Some w -> (u = USyll -> s_syll sep <> None) ->
  exists o : str, prepare_line sep u line = Ok o.
Proof.
  intros sep u line w Hw Hs. unfold prepare_line. rewrite Hw.
  destruct u; [eexists; reflexivity|].
  destruct (s_syll sep) as [sy|]; [eexists; reflexivity|]. exfalso. apply Hs; reflexivity.
Qed.

(* the prepared form of the lines selected for the gold *)
Definition prep1 (sep : separator) (u : unit_level) (l : str) : list str :=
  match prepare_line sep u (strip l) with Ok o => [o] | Raise _ => [] end.
Definition prepared_of (sep : separator) (u : unit_level) (l : str) : str :=
  match prepare_line sep u (strip l) with Ok o => o | Raise _ => [] end.

Lemma goods_one : forall (sep : separator) (u : unit_level) (cp : bool) (raw : str),
  match line_status sep u cp raw with Good o => [o] | _ => [] end =
  if is_valid (strip raw) sep cp then prep1 sep u raw else [].
Proof.
  intros sep u cp raw. unfold line_status, is_valid, prep1.
  destruct (strip raw) as [|c l]; [reflexivity|].
  destruct (check_utterance (c :: l) sep cp) as [[]|e].
  - destruct (prepare_line sep u (c :: l)) as [o|e]; [reflexivity|destruct e; reflexivity].
  - destruct e; reflexivity.
Qed.

(* unconditionally: the lines yielded in tolerant mode are the lines selected by is_valid *)
Lemma goods_selection : forall (text : list str) (sep : separator) (u : unit_level) (cp : bool),
  goods (map (line_status sep u cp) text) =
  flat_map (prep1 sep u) (filter (fun l => is_valid (strip l) sep cp) text).
Proof.
  induction text as [|raw r IH]; intros sep u cp; [reflexivity|].
  cbn [map filter]. rewrite goods_cons, goods_one, IH.
  destruct (is_valid (strip raw) sep cp); reflexivity.
Qed.

Lemma valid_no_crash_ok : forall (sep : separator) (u : unit_level) (cp : bool) (raw : str),
  is_valid (strip raw) sep cp = true ->
  (forall e : exn, line_status sep u cp raw <> Crash e) ->
  exists o : str, prepare_line sep u (strip raw) = Ok o.
Proof.
  intros sep u cp raw. unfold line_status, is_valid.
  destruct (strip raw) as [|c l]; [discriminate|].
  destruct (check_utterance (c :: l) sep cp) as [[]|e]; [|discriminate].
  intros _ H. destruct (prepare_line sep u (c :: l)) as [o|e] eqn:E; [eexists; reflexivity|].
  apply prepare_line_no_value_error in E. subst e. exfalso. apply (H TypeError). reflexivity.
Qed.

Lemma flat_map_prep1_map : forall (sep : separator) (u : unit_level) (acc : list str),
  (forall l : str, In l acc -> exists o : str, prepare_line sep u (strip l) = Ok o) ->
  flat_map (prep1 sep u) acc = map (prepared_of sep u) acc.
Proof.
  induction acc as [|l acc IH]; intro H; [reflexivity|].
  cbn [flat_map map]. rewrite IH by (intros l' Hin; apply H; right; exact Hin).
  destruct (H l (or_introl eq_refl)) as [o Ho]. unfold prep1, prepared_of. rewrite Ho. reflexivity.
Qed.

(* tolerant mode, forward: if no line crashes, the command's two outputs are computed from
   the same sub-list of the text, one prepared line per selected line, in order *)
Theorem prep_main_tolerant_total : forall (text : list str) (sep : separator) (u : unit_level) (cp : bool),
  (forall (raw : str) (e : exn), In raw text -> line_status sep u cp raw <> Crash e) ->
  let accepted := filter (fun l => is_valid (strip l) sep cp) text in
  prep_main text sep u cp true = ((map (prepared_of sep u) accepted, PDone), Some (gold accepted sep)).
Proof.
  intros text sep u cp H accepted. unfold prep_main.
  rewrite (prepare_tolerant_filter text sep u cp H). cbn [snd].
  rewrite goods_selection. fold accepted.
  rewrite flat_map_prep1_map; [reflexivity|].
  intros l Hin. unfold accepted in Hin. apply filter_In in Hin as [Hin Hv].
  apply (valid_no_crash_ok sep u cp l Hv). intro e. exact (H l e Hin).
Qed.

(* tolerant mode, from the observed result: whenever the command ends normally and writes a
   gold, prepared text and gold come from THE SAME sub-list [accepted] of [text] *)
Theorem prep_main_tolerant_same_lines : forall (text : list str) (sep : separator) (u : unit_level) (cp : bool)
    (outs : list str) (g : result (list str)),
  prep_main text sep u cp true = ((outs, PDone), Some g) ->
  let accepted := filter (fun l => is_valid (strip l) sep cp) text in
  g = gold accepted sep /\
  outs = flat_map (fun l => match prepare_line sep u (strip l) with Ok o => [o] | _ => [] end) accepted /\
  outs = map (prepared_of sep u) accepted /\
  length outs = length accepted.
Proof.
  intros text sep u cp outs g H accepted.
  assert (Hnc : forall (raw : str) (e : exn), In raw text -> line_status sep u cp raw <> Crash e).
  { unfold prep_main, prepare in H.
    destruct (prepare_loop text sep u cp true 0) as [os e] eqn:E. cbn [snd] in H.
    destruct e; [|discriminate]. exact (prepare_loop_done_no_crash text sep u cp true 0 os E). }
  pose proof (prep_main_tolerant_total text sep u cp Hnc) as T. cbv zeta in T. fold accepted in T.
  rewrite T in H. inversion H; subst.
  split; [reflexivity|]. split; [|split; [reflexivity|apply map_length]].
  symmetry. apply (flat_map_prep1_map sep u accepted).
  intros l Hin. unfold accepted in Hin. apply filter_In in Hin as [Hin Hv].
  apply (valid_no_crash_ok sep u cp l Hv). intro e. exact (Hnc l e Hin).
Qed.

(* in tolerant mode the only way not to get a gold is a crash, reported without line number *)
Theorem prep_main_tolerant_no_gold : forall (text : list str) (sep : separator) (u : unit_level) (cp : bool)
    (p : list str * pend),
  prep_main text sep u cp true = (p, None) ->
  exists (e : exn) (raw : str), snd p = PError e 0 /\ In raw text /\ line_status sep u cp raw = Crash e.
Proof.
  intros text sep u cp p H. unfold prep_main, prepare in H.
  assert (G : forall (t : list str) (n : nat) (os : list str) (x : exn) (m : nat),
             prepare_loop t sep u cp true n = (os, PError x m) ->
             m = 0 /\ exists raw : str, In raw t /\ line_status sep u cp raw = Crash x).
  { induction t as [|y r IH]; intros n os x m E; [discriminate|].
    rewrite prepare_loop_cons in E. destruct (line_status sep u cp y) eqn:LS.
    - destruct (IH _ _ _ _ E) as [-> [raw [Hin Hc]]]. split; [reflexivity|]. exists raw. split; [right; exact Hin|exact Hc].
    - destruct (prepare_loop r sep u cp true (S n)) as [os' e'] eqn:E'. inversion E; subst.
      destruct (IH _ _ _ _ E') as [-> [raw [Hin Hc]]]. split; [reflexivity|]. exists raw. split; [right; exact Hin|exact Hc].
    - destruct (IH _ _ _ _ E) as [-> [raw [Hin Hc]]]. split; [reflexivity|]. exists raw. split; [right; exact Hin|exact Hc].
    - inversion E; subst. split; [reflexivity|]. exists y. split; [left; reflexivity|exact LS]. }
  destruct (prepare_loop text sep u cp true 0) as [os e] eqn:E. cbn [snd] in H.
  destruct e as [|x m]; [discriminate|]. inversion H; subst. cbn [snd].
  destruct (G text 0 os x m E) as [-> [raw [Hin Hc]]]. exists x, raw. auto.
Qed.

(* ---- strict mode ---- *)

(* the gold text of a line: gold_line never raises, whatever the separator *)
Definition gold_str (sep : separator) (line : str) : str :=
  norm_ws (join [sp] (map (replace_all [sp] [])
    (match s_word sep with
     | Some w => split_on w (replace_all (osep (s_phone sep)) [] (replace_all (osep (s_syll sep)) [] line))
     | None => split_ws (replace_all (osep (s_phone sep)) [] (replace_all (osep (s_syll sep)) [] line))
     end))).

Lemma gold_line_ok : forall (sep : separator) (line : str),
  gold_line sep line = Ok (gold_str sep line).
Proof. reflexivity. Qed.

Lemma gold_str_some : forall (sep : separator) (w : str) (line : str),
  s_word sep = Some w ->
  gold_str sep line =
  norm_ws (join [sp] (map (replace_all [sp] [])
    (split_on w (replace_all (osep (s_phone sep)) [] (replace_all (osep (s_syll sep)) [] line))))).
Proof. intros sep w line Hw. unfold gold_str. rewrite Hw. reflexivity. Qed.

Lemma gold_str_none : forall (sep : separator) (line : str),
  s_word sep = None ->
  gold_str sep line =
  norm_ws (join [sp] (map (replace_all [sp] [])
    (split_ws (replace_all (osep (s_phone sep)) [] (replace_all (osep (s_syll sep)) [] line))))).
Proof. intros sep line Hw. unfold gold_str. rewrite Hw. reflexivity. Qed.

Lemma mapM_total : forall (A B : Type) (f : A -> result B) (g : A -> B) (l : list A),
  (forall x : A, f x = Ok (g x)) -> mapM f l = Ok (map g l).
Proof.
  intros A B f g l H. induction l as [|x l IH]; [reflexivity|].
  cbn [mapM map]. rewrite H, IH. reflexivity.
Qed.

(* for EVERY separator *)
Theorem gold_total : forall (text : list str) (sep : separator),
  gold text sep = Ok (filter nonempty (map (gold_str sep) text)).
Proof.
  intros text sep. unfold gold.
  rewrite (mapM_total _ _ (gold_line sep) (gold_str sep) text (gold_line_ok sep)).
  reflexivity.
Qed.

Theorem gold_never_raises : forall (text : list str) (sep : separator) (e : exn),
  gold text sep <> Raise e.
Proof. intros text sep e. rewrite gold_total. discriminate. Qed.

(* whitespace-only strings *)
Lemma lstrip_all_space : forall s : str, forallb is_space s = true -> lstrip s = [].
Proof.
  induction s as [|c s IH]; cbn [forallb lstrip]; intro H; [reflexivity|].
  apply andb_prop in H as [Hc Hs]. rewrite Hc. exact (IH Hs).
Qed.

Lemma lstrip_head : forall s : str,
  lstrip s = [] \/ exists (c : char) (t : str), lstrip s = c :: t /\ is_space c = false.
Proof.
  induction s as [|c s IH]; cbn [lstrip]; [left; reflexivity|].
  destruct (is_space c) eqn:E; [exact IH|]. right. exists c, s. auto.
Qed.

Lemma lstrip_nil_all_space : forall s : str, lstrip s = [] -> forallb is_space s = true.
Proof.
  induction s as [|c s IH]; cbn [lstrip forallb]; intro H; [reflexivity|].
  destruct (is_space c) eqn:E; [exact (IH H)|discriminate].
Qed.

Lemma forallb_rev : forall (A : Type) (f : A -> bool) (l : list A), forallb f (rev l) = forallb f l.
Proof.
  intros A f l. induction l as [|x l IH]; [reflexivity|].
  cbn [rev forallb]. rewrite forallb_app, IH. cbn [forallb]. rewrite andb_true_r. apply andb_comm.
Qed.

Lemma strip_nil_iff : forall s : str, strip s = [] <-> forallb is_space s = true.
Proof.
  intro s. unfold strip, rstrip. split.
  - intro H.
    assert (H1 : lstrip (rev (lstrip s)) = []).
    { destruct (lstrip (rev (lstrip s))) as [|x y]; [reflexivity|].
      cbn [rev] in H. apply app_eq_nil in H as [_ H]. discriminate. }
    apply lstrip_nil_all_space in H1. rewrite forallb_rev in H1.
    destruct (lstrip_head s) as [E|(c & t & E & Hc)].
    + apply lstrip_nil_all_space. exact E.
    + rewrite E in H1. cbn [forallb] in H1. rewrite Hc in H1. discriminate.
  - intro H. rewrite (lstrip_all_space s H). reflexivity.
Qed.

Lemma replace_go_space : forall (old new s : str) (k : nat),
  forallb is_space new = true -> forallb is_space s = true ->
  forallb is_space (replace_go old new s k) = true.
Proof.
  intros old new s k Hn. revert k. induction s as [|c s IH]; intros k Hs; [reflexivity|].
  cbn [forallb] in Hs. apply andb_prop in Hs as [Hc Hs]. cbn [replace_go].
  destruct k as [|k]; [|exact (IH k Hs)].
  destruct (prefix_b old (c :: s)).
  - rewrite forallb_app, Hn. exact (IH _ Hs).
  - cbn [forallb]. rewrite Hc. exact (IH 0 Hs).
Qed.

Lemma replace_all_space : forall (old new s : str),
  forallb is_space new = true -> forallb is_space s = true ->
  forallb is_space (replace_all old new s) = true.
Proof.
  intros old new s Hn Hs. unfold replace_all. destruct old as [|o old].
  - rewrite forallb_app, Hn. cbn [andb].
    induction s as [|c s IH]; [reflexivity|].
    cbn [forallb] in Hs. apply andb_prop in Hs as [Hc Hs].
    cbn [flat_map app forallb]. rewrite Hc, forallb_app, Hn. exact (IH Hs).
  - apply replace_go_space; assumption.
Qed.

Lemma split_go_space : forall (x s : str) (k : nat) (acc : str),
  forallb is_space s = true -> forallb is_space acc = true ->
  forallb (forallb is_space) (split_go x s k acc) = true.
Proof.
  intros x s. induction s as [|c s IH]; intros k acc Hs Hacc.
  - cbn [split_go forallb]. rewrite forallb_rev, Hacc. reflexivity.
  - cbn [forallb] in Hs. apply andb_prop in Hs as [Hc Hs]. cbn [split_go].
    destruct k as [|k]; [|exact (IH k acc Hs Hacc)].
    destruct (prefix_b x (c :: s)).
    + cbn [forallb]. rewrite forallb_rev, Hacc. cbn [andb]. apply IH; [exact Hs|reflexivity].
    + apply IH; [exact Hs|]. cbn [forallb]. rewrite Hc. exact Hacc.
Qed.

Lemma split_ws_space : forall s : str, forallb is_space s = true -> split_ws s = [].
Proof.
  unfold split_ws. induction s as [|c s IH]; intro Hs; [reflexivity|].
  cbn [forallb] in Hs. apply andb_prop in Hs as [Hc Hs]. cbn [split_ws_go]. rewrite Hc. exact (IH Hs).
Qed.

Lemma join_space : forall (x : str) (l : list str),
  forallb is_space x = true -> forallb (forallb is_space) l = true ->
  forallb is_space (join x l) = true.
Proof.
  intros x l Hx. induction l as [|y r IH]; intro Hl; [reflexivity|].
  cbn [forallb] in Hl. apply andb_prop in Hl as [Hy Hr].
  destruct r as [|z r]; [exact Hy|].
  change (join x (y :: z :: r)) with (y ++ x ++ join x (z :: r)).
  rewrite !forallb_app, Hy, Hx, (IH Hr). reflexivity.
Qed.

Lemma map_replace_space : forall (old new : str) (l : list str),
  forallb is_space new = true -> forallb (forallb is_space) l = true ->
  forallb (forallb is_space) (map (replace_all old new) l) = true.
Proof.
  intros old new l Hn. induction l as [|y r IH]; intro Hl; [reflexivity|].
  cbn [forallb] in Hl. apply andb_prop in Hl as [Hy Hr].
  cbn [map forallb]. rewrite (replace_all_space old new y Hn Hy), (IH Hr). reflexivity.
Qed.

(* a blank line (any whitespace, not only spaces) has an empty gold line, which [gold] then
   filters out: the pieces of a whitespace-only string are whitespace-only, and norm_ws strips them *)
Lemma gold_str_blank : forall (sep : separator) (raw : str),
  strip raw = [] -> gold_str sep raw = [].
Proof.
  intros sep raw H. apply strip_nil_iff in H. unfold gold_str, norm_ws.
  assert (H2 : forallb is_space (replace_all (osep (s_phone sep)) []
                 (replace_all (osep (s_syll sep)) [] raw)) = true).
  { repeat (apply replace_all_space; [reflexivity|]). exact H. }
  destruct (s_word sep) as [w|].
  - assert (E : strip (join [sp] (map (replace_all [sp] [])
                  (split_on w (replace_all (osep (s_phone sep)) []
                     (replace_all (osep (s_syll sep)) [] raw))))) = []).
    { apply strip_nil_iff. apply join_space; [reflexivity|].
      apply map_replace_space; [reflexivity|].
      unfold split_on. apply split_go_space; [exact H2|reflexivity]. }
    rewrite E. reflexivity.
  - rewrite (split_ws_space _ H2). reflexivity.
Qed.

Theorem gold_line_blank : forall (sep : separator) (raw : str),
  strip raw = [] -> gold_line sep raw = Ok [].
Proof.
  intros sep raw H. rewrite gold_line_ok, (gold_str_blank sep raw H). reflexivity.
Qed.

Theorem gold_ignores_blank_lines : forall (text : list str) (sep : separator),
  gold text sep = gold (filter (fun l => nonempty (strip l)) text) sep.
Proof.
  intros text sep. rewrite !gold_total. f_equal.
  induction text as [|x r IH]; [reflexivity|].
  cbn [map filter]. destruct (strip x) eqn:E; cbn [nonempty].
  - rewrite (gold_str_blank sep x E). cbn [nonempty]. exact IH.
  - cbn [map filter]. rewrite IH. reflexivity.
Qed.

Lemma goods_one_strict : forall (sep : separator) (u : unit_level) (cp : bool) (raw : str),
  ok_line sep u cp raw ->
  match line_status sep u cp raw with Good o => [o] | _ => [] end =
  (if nonempty (strip raw) then [prepared_of sep u raw] else []) /\
  (nonempty (strip raw) = true -> is_valid (strip raw) sep cp = true).
Proof.
  intros sep u cp raw. unfold ok_line, line_status, prepared_of, is_valid.
  destruct (strip raw) as [|c l]; [intros _; split; [reflexivity|discriminate]|].
  destruct (check_utterance (c :: l) sep cp) as [[]|e].
  - destruct (prepare_line sep u (c :: l)) as [o|e]; [intros _; split; reflexivity|].
    destruct e; contradiction.
  - destruct e; contradiction.
Qed.

(* strict mode with no rejected line: prepared text = one line per non-blank line, in order;
   gold = gold over all lines = gold over the same non-blank lines *)
Theorem prep_main_strict_same_lines : forall (text : list str) (sep : separator) (u : unit_level) (cp : bool)
    (outs : list str) (g : result (list str)),
  prep_main text sep u cp false = ((outs, PDone), Some g) ->
  let kept := filter (fun l => nonempty (strip l)) text in
  g = gold text sep /\
  outs = map (prepared_of sep u) kept /\
  Forall (fun l => is_valid (strip l) sep cp = true) kept /\
  gold text sep = gold kept sep.
Proof.
  intros text sep u cp outs g H kept. unfold prep_main, prepare in H.
  destruct (prepare_loop text sep u cp false 0) as [os e] eqn:E. cbn [snd] in H.
  destruct e; [|discriminate]. inversion H; subst. clear H.
  pose proof (prepare_loop_strict_done_ok text sep u cp 0 outs E) as Hok.
  rewrite (prepare_loop_strict_wellformed text sep u cp 0 Hok) in E. inversion E as [E']. clear E.
  split; [reflexivity|].
  assert (G : goods (map (line_status sep u cp) text) = map (prepared_of sep u) kept /\
              Forall (fun l => is_valid (strip l) sep cp = true) kept).
  { unfold kept. clear E'. induction Hok as [|x r Hx Hr IH]; [split; [reflexivity|constructor]|].
    cbn [map filter]. rewrite goods_cons.
    destruct (goods_one_strict sep u cp x Hx) as [G1 G2]. rewrite G1.
    destruct IH as [IH1 IH2]. rewrite IH1.
    destruct (nonempty (strip x)); [|split; [reflexivity|exact IH2]].
    split; [reflexivity|]. constructor; [exact (G2 eq_refl)|exact IH2]. }
  destruct G as [G1 G2]. split; [exact G1|]. split; [exact G2|].
  exact (gold_ignores_blank_lines text sep).
Qed.

(* the special case asked for: no blank lines, everything goes to both outputs *)
Corollary prep_main_strict_same_lines_noblank : forall (text : list str) (sep : separator) (u : unit_level)
    (cp : bool) (outs : list str) (g : result (list str)),
  Forall (fun l => nonempty (strip l) = true) text ->
  prep_main text sep u cp false = ((outs, PDone), Some g) ->
  g = gold text sep /\ outs = map (prepared_of sep u) text /\
  Forall (fun l => is_valid (strip l) sep cp = true) text.
Proof.
  intros text sep u cp outs g Hnb H.
  destruct (prep_main_strict_same_lines text sep u cp outs g H) as (Hg & Ho & Hv & _).
  assert (K : filter (fun l => nonempty (strip l)) text = text).
  { clear H Hg Ho Hv. induction Hnb as [|x r Hx Hr IH]; [reflexivity|].
    cbn [filter]. rewrite Hx, IH. reflexivity. }
  rewrite K in Ho, Hv. auto.
Qed.

(* strict mode: a rejected line stops the command before any gold is written *)
Theorem prep_main_strict_rejected : forall (pre : list str) (raw : str) (post : list str)
    (sep : separator) (u : unit_level) (cp : bool),
  Forall (ok_line sep u cp) pre -> line_status sep u cp raw = Bad ->
  prep_main (pre ++ raw :: post) sep u cp false =
  ((goods (map (line_status sep u cp) pre), PError ValueError (S (length pre))), None).
Proof.
  intros pre raw post sep u cp Hpre Hbad. unfold prep_main.
  rewrite (prepare_strict_first_error pre raw post sep u cp Hpre Hbad). reflexivity.
Qed.

(* without a word separator and with only blank lines, strict mode ends normally with no
   output, and the gold is empty as well (gold no longer raises) *)
Example strict_blank_no_word_sep :
  prep_main [[sp]] {| s_phone := None; s_syll := None; s_word := None |} UPhone false false
  = (([], PDone), Some (Ok [])).
Proof. vm_compute. reflexivity. Qed.
