(* Extraction of the executable models. ExtrOcamlBasic only: bool, option,
   unit, list, prod, sumbool, sumor map to OCaml's own; nat, positive, N, Z, Q
   stay Coq datatypes. No Extract Constant of our own. *)
From Coq Require Import ExtrOcamlBasic ZArith.
From WS Require Import Base.Py Dispatch.
Extraction Language OCaml.
Extraction "model.ml" dispatch Z.add Z.mul Z.quotrem Z.opp Z.eqb Z.ltb.
