(* Perfect scores, continued (extends Evaluate/ProofsPerfect.v):
   - the type evaluation is perfect exactly when the two lexicons are the
     same SET of words (and this does not make the segmentations identical);
   - token / boundary perfect <-> same words, type perfect follows;
   - summary(): only "correct" entries exactly for identical segmentations.
   Nothing here changes the model: every statement is about the definitions
   of Evaluate/Model.v. *)
From WS Require Import Base.Py Base.ListX Base.Str Base.Counter
  Evaluate.Model Evaluate.ProofsScores Evaluate.ProofsSummary Evaluate.ProofsHits
  Evaluate.ProofsPerfect.
From Coq Require Import QArith Lia Sorted Permutation.
Local Open Scope nat_scope.

(* ====================================================================== *)
(* 1. type evaluation                                                      *)
(* ====================================================================== *)

Definition perfect (c : counts) : Prop :=
  c_correct c = c_test c /\ c_correct c = c_gold c.

(* on any two duplicate-free lexicons; the placeholders None that
   lexicon_check inserts are not counted (type_counts_spec) *)
Theorem type_counts_perfect_iff : forall tl gl : list str, NoDup tl -> NoDup gl ->
  let c := type_counts tl gl in
  (c_correct c = c_test c /\ c_correct c = c_gold c) <-> (forall w, In w tl <-> In w gl).
Proof.
  intros tl gl Ht Hg. cbn zeta.
  destruct (type_counts_spec tl gl Ht Hg) as (-> & -> & ->).
  exact (inter_size_perfect_iff str_eqb str_eqb_spec tl gl Ht Hg).
Qed.
Print Assumptions type_counts_perfect_iff.

Theorem type_perfect_iff : forall text gold : list str,
  let t := read_data text in
  let g := read_data gold in
  let c := type_counts (rd_lex t) (rd_lex g) in
  (c_correct c = c_test c /\ c_correct c = c_gold c)
  <-> (forall w, In w (rd_lex t) <-> In w (rd_lex g)).
Proof.
  intros text gold. cbn zeta.
  apply type_counts_perfect_iff; apply rd_lex_NoDup.
Qed.
Print Assumptions type_perfect_iff.

(* the words of the lexicon are the words of the lines that are not blank *)
Lemma rd_lex_In (text : list str) (w : str) :
  In w (rd_lex (read_data text)) <-> exists u, In u text /\ In w (tokens u).
Proof.
  unfold read_data. cbn [rd_lex]. rewrite (set_of_In str_eqb str_eqb_spec), in_flat_map.
  split.
  - intros (u & Hu & Hw). apply filter_In in Hu as [Hu _]. exists u. split; assumption.
  - intros (u & Hu & Hw). exists u. split; [|exact Hw]. apply filter_In. split; [exact Hu|].
    destruct (nonblank u) eqn:E; [reflexivity|]. rewrite (tokens_blank u E) in Hw. destruct Hw.
Qed.

(* the same, in terms of the words of the two texts *)
Corollary type_perfect_iff_words : forall text gold : list str,
  let c := type_counts (rd_lex (read_data text)) (rd_lex (read_data gold)) in
  (c_correct c = c_test c /\ c_correct c = c_gold c)
  <-> (forall w, (exists u, In u text /\ In w (tokens u)) <-> (exists u, In u gold /\ In w (tokens u))).
Proof.
  intros text gold. cbn zeta. rewrite (type_perfect_iff text gold). cbn zeta.
  split; intros H w; specialize (H w); rewrite !rd_lex_In in *; exact H.
Qed.
Print Assumptions type_perfect_iff_words.

(* ====================================================================== *)
(* 2. all evaluations together                                             *)
(* ====================================================================== *)

Lemma rd_lex_same_words (text gold : list str) :
  map tokens (filter nonblank text) = map tokens (filter nonblank gold) ->
  rd_lex (read_data text) = rd_lex (read_data gold).
Proof.
  intros H. unfold read_data. cbn [rd_lex]. rewrite !flat_map_concat_map, H. reflexivity.
Qed.

Theorem evaluate_all_perfect_iff : forall text gold s,
  evaluate text gold None = Ok s ->
  let same := map tokens (filter nonblank text) = map tokens (filter nonblank gold) in
  ((c_correct (s_token s) = c_test (s_token s) /\ c_correct (s_token s) = c_gold (s_token s))
   <-> (c_correct (s_ball s) = c_test (s_ball s) /\ c_correct (s_ball s) = c_gold (s_ball s))) /\
  ((c_correct (s_ball s) = c_test (s_ball s) /\ c_correct (s_ball s) = c_gold (s_ball s))
   <-> same) /\
  ((c_correct (s_token s) = c_test (s_token s) /\ c_correct (s_token s) = c_gold (s_token s))
   <-> same) /\
  (same ->
   c_correct (s_type s) = c_test (s_type s) /\ c_correct (s_type s) = c_gold (s_type s)).
Proof.
  intros text gold s H. cbn zeta.
  pose proof (evaluate_token_perfect_iff text gold s H) as T.
  pose proof (evaluate_boundary_perfect_iff text gold s H) as B.
  split; [rewrite T, B; tauto|]. split; [exact B|]. split; [exact T|].
  intros S. apply evaluate_None_inv in H as [_ ->]. unfold base_scores. cbn [s_type].
  apply (type_perfect_iff text gold). rewrite (rd_lex_same_words text gold S). intros w. tauto.
Qed.
Print Assumptions evaluate_all_perfect_iff.

(* the converse of the last part is false: "a b" / "ab" against "ab" / "a b"
   is accepted, the lexicons are both {a, b, ab}, the type counts are
   perfect, the segmentations differ and the token counts are not perfect *)
Example type_perfect_not_identical :
  let text := [S_ [97;32;98]%Z; S_ [97;98]%Z] in
  let gold := [S_ [97;98]%Z; S_ [97;32;98]%Z] in
  exists s, evaluate text gold None = Ok s /\
    s_type s = {| c_test := 3; c_gold := 3; c_correct := 3 |} /\
    (c_correct (s_type s) = c_test (s_type s) /\ c_correct (s_type s) = c_gold (s_type s)) /\
    s_token s = {| c_test := 3; c_gold := 3; c_correct := 0 |} /\
    ~ (c_correct (s_token s) = c_test (s_token s) /\ c_correct (s_token s) = c_gold (s_token s)) /\
    map tokens (filter nonblank text) <> map tokens (filter nonblank gold).
Proof.
  cbn zeta. eexists. split; [vm_compute; reflexivity|]. cbn [s_type s_token].
  split; [reflexivity|]. split; [split; reflexivity|]. split; [reflexivity|].
  split.
  - cbn [c_test c_gold c_correct]. intros [E _]. discriminate.
  - vm_compute. discriminate.
Qed.
Print Assumptions type_perfect_not_identical.

(* ====================================================================== *)
(* 3. summary(): only "correct" entries iff identical segmentations        *)
(* ====================================================================== *)

(* the spans of one tiling of a line contained in those of another tiling of
   a line of the same length: the same word lengths *)
Lemma spans_from_incl_eq : forall (ws1 ws2 : list str) idx,
  incl (spans_from idx ws1) (spans_from idx ws2) -> wf ws1 -> wf ws2 ->
  len_concat ws1 = len_concat ws2 ->
  map (@length _) ws1 = map (@length _) ws2.
Proof.
  induction ws1 as [|w1 r1 IH]; intros ws2 idx S W1 W2 L.
  - rewrite len_concat_nil in L. symmetry in L.
    rewrite (wf_len_concat_0 ws2 W2 L). reflexivity.
  - destruct ws2 as [|w2 r2].
    + exfalso. apply (S (idx, idx + length w1)). cbn [spans_from]. left. reflexivity.
    + apply wf_cons_inv in W1 as [L1 W1]. apply wf_cons_inv in W2 as [L2 W2].
      cbn [spans_from] in S.
      assert (E : length w1 = length w2).
      { destruct (S _ (or_introl eq_refl)) as [E|Hin].
        - injection E as E. lia.
        - apply spans_from_lower in Hin. cbn [fst] in Hin. lia. }
      cbn [map]. f_equal; [exact E|].
      rewrite !len_concat_cons in L.
      apply (IH r2 (idx + length w1)); [|exact W1|exact W2|lia].
      intros x Hx. destruct (S x (or_intror Hx)) as [<-|Hin].
      * apply spans_from_lower in Hx. cbn [fst] in Hx. lia.
      * rewrite E. exact Hin.
Qed.

(* what the summary holds outside "correct" *)
Definition others (s : summ) : Z :=
  (total (sm_under s) + total (sm_over s) + total (sm_mis s))%Z.

Lemma others_summ_total s : others s = (summ_total s - total (sm_correct s))%Z.
Proof. unfold others, summ_total. lia. Qed.

Lemma summarize_utterance_others : forall s t g s',
  summarize_utterance s t g = Ok s' ->
  despace g = despace t -> only_spaces t -> only_spaces g ->
  (others s <= others s')%Z /\ (others s' = others s -> tokens t = tokens g).
Proof.
  intros s t g s' H Hd Ht Hg.
  pose proof (summarize_utterance_total _ _ _ _ H) as T.
  pose proof (summarize_utterance_correct_hits _ _ _ _ H) as C.
  pose proof (spans_NoDup (tokens t) (wf_tokens t)) as Nt.
  pose proof (spans_NoDup (tokens g) (wf_tokens g)) as Ng.
  pose proof (inter_size_le_r span_eqb span_eqb_spec (spans (tokens t)) (spans (tokens g)) Nt) as B.
  assert (Lg : length (spans (tokens g)) = length (tokens g))
    by (unfold spans; apply spans_from_length).
  rewrite !others_summ_total. split; [lia|].
  intros E.
  assert (I : inter_size span_eqb (spans (tokens g)) (spans (tokens t)) = length (spans (tokens g))).
  { rewrite (inter_size_comm span_eqb span_eqb_spec _ _ Ng Nt). lia. }
  apply (inter_size_full_iff span_eqb span_eqb_spec) in I.
  symmetry. apply (tokens_determined g t Hd).
  apply (spans_from_incl_eq (tokens g) (tokens t) 0 I (wf_tokens g) (wf_tokens t)).
  unfold len_concat. rewrite (concat_tokens t Ht), (concat_tokens g Hg), Hd. reflexivity.
Qed.

Lemma summarize_all_others : forall (text gold : list str) s s',
  Forall2 (fun t g => despace g = despace t /\ only_spaces t /\ only_spaces g) text gold ->
  summarize_all s text gold = Ok s' ->
  (others s <= others s')%Z /\ (others s' = others s -> map tokens text = map tokens gold).
Proof.
  intros text gold s s' F. revert s s'.
  induction F as [|t g tr gr (Hd & Ht & Hg) _ IH]; intros s s' H; cbn [summarize_all] in H.
  - injection H as <-. split; [lia|reflexivity].
  - destruct (summarize_utterance s t g) as [s1|e] eqn:E1; [|discriminate].
    cbn [bind] in H.
    destruct (summarize_utterance_others _ _ _ _ E1 Hd Ht Hg) as [M1 Q1].
    destruct (IH _ _ H) as [M2 Q2].
    split; [lia|]. intros E. cbn [map]. f_equal; [apply Q1; lia|apply Q2; lia].
Qed.

(* the other direction: identical words only ever touch "correct" *)
Lemma list_eqb_refl (a : list str) : list_eqb a a = true.
Proof.
  unfold list_eqb. rewrite Nat.eqb_refl. cbn [andb].
  induction a as [|x a IH]; [reflexivity|].
  cbn [combine forallb fst snd]. rewrite str_eqb_refl. exact IH.
Qed.

Lemma fold_bump_correct_others (ws : list str) : forall s,
  let s' := fold_left (fun s w => bump s Correct w) ws s in
  sm_under s' = sm_under s /\ sm_over s' = sm_over s /\ sm_mis s' = sm_mis s.
Proof.
  induction ws as [|w ws IH]; intros s; cbn zeta; cbn [fold_left].
  - repeat split.
  - destruct (IH (bump s Correct w)) as (A & B & C). cbn zeta in A, B, C.
    rewrite A, B, C. cbn [bump sm_under sm_over sm_mis]. repeat split.
Qed.

Lemma summarize_utterance_same_words : forall s t g s',
  summarize_utterance s t g = Ok s' -> tokens t = tokens g ->
  sm_under s' = sm_under s /\ sm_over s' = sm_over s /\ sm_mis s' = sm_mis s.
Proof.
  intros s t g s' H E. unfold summarize_utterance in H.
  destruct (negb _); [discriminate|].
  rewrite E, list_eqb_refl in H. injection H as <-.
  apply fold_bump_correct_others.
Qed.

Lemma summarize_all_same_words : forall (text gold : list str) s s',
  summarize_all s text gold = Ok s' -> map tokens text = map tokens gold ->
  sm_under s' = sm_under s /\ sm_over s' = sm_over s /\ sm_mis s' = sm_mis s.
Proof.
  induction text as [|t tr IH]; intros [|g gr] s s' H E; cbn [summarize_all] in H;
    try (injection H as <-; repeat split; reflexivity).
  destruct (summarize_utterance s t g) as [s1|e] eqn:E1; [|discriminate].
  cbn [bind] in H. cbn [map] in E. injection E as Eh Et.
  destruct (summarize_utterance_same_words _ _ _ _ E1 Eh) as (A1 & B1 & C1).
  destruct (IH _ _ _ H Et) as (A2 & B2 & C2).
  rewrite A2, B2, C2, A1, B1, C1. repeat split.
Qed.

Lemma sort_items_nil_iff l : sort_items l = [] <-> l = [].
Proof.
  split.
  - intros E. pose proof (sort_items_perm l) as P. rewrite E in P.
    apply Permutation_sym, Permutation_nil in P. exact P.
  - intros ->. reflexivity.
Qed.

Lemma total_nil : total [] = 0%Z.
Proof. reflexivity. Qed.

(* under the hypothesis of summary_accepts alone *)
Theorem summary_only_correct_iff : forall (text gold : list str) r,
  Forall2 (fun t g => despace g = despace t /\ only_spaces t /\ only_spaces g) text gold ->
  summary text gold = Ok r ->
  ((exists correct, r = [[]; []; []; correct]) <-> map tokens text = map tokens gold).
Proof.
  intros text gold r F H. unfold summary in H.
  destruct (negb _); [discriminate|].
  destruct (summarize_all _ text gold) as [s|e] eqn:Es; [|discriminate].
  cbn [bind] in H. injection H as <-. split.
  - intros (correct & E). injection E as Eo Eu Em _.
    apply (proj1 (sort_items_nil_iff _)) in Eo.
    apply (proj1 (sort_items_nil_iff _)) in Eu.
    apply (proj1 (sort_items_nil_iff _)) in Em.
    destruct (summarize_all_others _ _ _ _ F Es) as [_ Q]. apply Q.
    unfold others. rewrite Eo, Eu, Em. reflexivity.
  - intros E. destruct (summarize_all_same_words _ _ _ _ Es E) as (A & B & C).
    cbn [sm_under sm_over sm_mis] in A, B, C. rewrite A, B, C.
    eexists. reflexivity.
Qed.
Print Assumptions summary_only_correct_iff.

(* blank lines have no word: with and without them *)
Lemma same_words_nonblank_iff (text gold : list str) :
  Forall2 (fun t g => despace g = despace t) text gold ->
  (map tokens text = map tokens gold
   <-> map tokens (filter nonblank text) = map tokens (filter nonblank gold)).
Proof.
  intros F. induction F as [|t g tr gr Hd _ IH]; [tauto|].
  cbn [map filter]. rewrite <- (nonblank_despace t g Hd).
  destruct (nonblank t) eqn:Et.
  - cbn [map]. split; intros E; injection E as E1 E2; (f_equal; [exact E1|apply IH; exact E2]).
  - assert (Eg : nonblank g = false) by (rewrite <- (nonblank_despace t g Hd); exact Et).
    rewrite (tokens_blank t Et), (tokens_blank g Eg). split.
    + intros E. injection E as E. apply IH. exact E.
    + intros E. f_equal. apply IH. exact E.
Qed.

(* C12 meets C05: for a pair both evaluate() and summary() accept *)
Theorem summary_all_correct_iff : forall (text gold : list str) r s,
  Forall2 (fun t g => despace g = despace t /\ only_spaces t /\ only_spaces g) text gold ->
  summary text gold = Ok r -> evaluate text gold None = Ok s ->
  ((exists correct, r = [[]; []; []; correct]) <-> map tokens text = map tokens gold) /\
  ((exists correct, r = [[]; []; []; correct])
   <-> (c_correct (s_token s) = c_test (s_token s) /\ c_correct (s_token s) = c_gold (s_token s))).
Proof.
  intros text gold r s F Hs He.
  pose proof (summary_only_correct_iff text gold r F Hs) as A.
  split; [exact A|]. rewrite A, (evaluate_token_perfect_iff text gold s He).
  apply same_words_nonblank_iff.
  clear -F. induction F as [|t g tr gr (Hd & _) _ IH]; constructor; assumption.
Qed.
Print Assumptions summary_all_correct_iff.

(* the "correct" entries then count every word of the gold text *)
Corollary summary_all_correct_total : forall (text gold : list str) r correct,
  summary text gold = Ok r -> r = [[]; []; []; correct] ->
  fold_right (fun (kv : str * Z) acc => (snd kv + acc)%Z) 0%Z correct
  = Z.of_nat (length (flat_map tokens gold)).
Proof.
  intros text gold r correct H E. unfold summary in H.
  destruct (Nat.eqb (length gold) (length text)) eqn:El; cbn [negb] in H; [|discriminate].
  apply Nat.eqb_eq in El.
  destruct (summarize_all _ text gold) as [s|e] eqn:Es; [|discriminate].
  cbn [bind] in H. injection H as <-. injection E as Eo Eu Em Ec.
  apply (proj1 (sort_items_nil_iff _)) in Eo.
  apply (proj1 (sort_items_nil_iff _)) in Eu.
  apply (proj1 (sort_items_nil_iff _)) in Em.
  pose proof (summary_total text gold _ _ (eq_sym El) Es) as T.
  unfold summ_total in T. cbn [sm_correct sm_under sm_over sm_mis] in T.
  rewrite Eo, Eu, Em, !total_nil in T.
  rewrite <- Ec. change (fold_right _ 0%Z (sort_items (sm_correct s))) with (total (sort_items (sm_correct s))).
  rewrite <- (total_perm _ _ (sort_items_perm (sm_correct s))). lia.
Qed.
Print Assumptions summary_all_correct_total.

(* ====================================================================== *)
(* 4. non-vacuity of 3                                                     *)
(* ====================================================================== *)

Ltac pairs_ok :=
  repeat (constructor; [split; [vm_compute; reflexivity|split; vm_compute; reflexivity]|]);
  constructor.

(* "a  b c" / "" / "de" / "a" against "a b  c" / " " / "de" / "a": different
   strings, the hypotheses hold, both functions accept, the same words line
   by line, only "correct" entries (a twice), token counts perfect *)
Example summary_all_correct_example :
  let text := [S_ [97;32;32;98;32;99]%Z; []; S_ [100;101]%Z; S_ [97]%Z] in
  let gold := [S_ [97;32;98;32;32;99]%Z; S_ [32]%Z; S_ [100;101]%Z; S_ [97]%Z] in
  text <> gold /\
  Forall2 (fun t g => despace g = despace t /\ only_spaces t /\ only_spaces g) text gold /\
  summary text gold
  = Ok [[]; []; []; [(S_ [97]%Z, 2%Z); (S_ [98]%Z, 1%Z); (S_ [99]%Z, 1%Z); (S_ [100;101]%Z, 1%Z)]] /\
  map tokens text = map tokens gold /\
  exists s, evaluate text gold None = Ok s /\
    s_token s = {| c_test := 5; c_gold := 5; c_correct := 5 |}.
Proof.
  cbn zeta. split; [vm_compute; discriminate|]. split; [pairs_ok|].
  split; [vm_compute; reflexivity|]. split; [vm_compute; reflexivity|].
  eexists. split; [vm_compute; reflexivity|]. reflexivity.
Qed.
Print Assumptions summary_all_correct_example.

(* "a b" / "ab" against "ab" / "a b": the hypotheses hold, both functions
   accept, the words differ, "over" and "under" are not empty (while the type
   counts are perfect, see type_perfect_not_identical) *)
Example summary_not_all_correct_example :
  let text := [S_ [97;32;98]%Z; S_ [97;98]%Z] in
  let gold := [S_ [97;98]%Z; S_ [97;32;98]%Z] in
  Forall2 (fun t g => despace g = despace t /\ only_spaces t /\ only_spaces g) text gold /\
  summary text gold
  = Ok [[(S_ [97;98]%Z, 1%Z)]; [(S_ [97]%Z, 1%Z); (S_ [98]%Z, 1%Z)]; []; []] /\
  map tokens text <> map tokens gold /\
  exists s, evaluate text gold None = Ok s /\
    s_token s = {| c_test := 3; c_gold := 3; c_correct := 0 |}.
Proof.
  cbn zeta. split; [pairs_ok|].
  split; [vm_compute; reflexivity|]. split; [vm_compute; discriminate|].
  eexists. split; [vm_compute; reflexivity|]. reflexivity.
Qed.
Print Assumptions summary_not_all_correct_example.

(* the theorem applied to the first example *)
Example summary_all_correct_iff_applied :
  let text := [S_ [97;32;32;98;32;99]%Z; []; S_ [100;101]%Z; S_ [97]%Z] in
  let gold := [S_ [97;32;98;32;32;99]%Z; S_ [32]%Z; S_ [100;101]%Z; S_ [97]%Z] in
  forall r s, summary text gold = Ok r -> evaluate text gold None = Ok s ->
  (exists correct, r = [[]; []; []; correct]) /\
  c_correct (s_token s) = c_test (s_token s) /\ c_correct (s_token s) = c_gold (s_token s).
Proof.
  cbn zeta. intros r s Hs He.
  destruct summary_all_correct_example as (_ & F & _ & W & _). cbn zeta in F, W.
  destruct (summary_all_correct_iff _ _ r s F Hs He) as [A B].
  assert (C : exists correct, r = [[]; []; []; correct]) by (apply A; exact W).
  split; [exact C|]. apply B. exact C.
Qed.
Print Assumptions summary_all_correct_iff_applied.
