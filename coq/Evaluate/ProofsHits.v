(* The error summary and the token evaluation agree on what a "hit" is:
   utterance by utterance, the number of gold tokens that summary() files
   under "correct" is the number of word spans common to text and gold,
   i.e. the `correct` count of TokenEvaluation (Evaluate/Model.v). *)
From WS Require Import Base.Py Base.ListX Base.Str Base.Counter Base.CounterProofs
  Evaluate.Model Evaluate.ProofsScores Evaluate.ProofsSummary.
From Coq Require Import Lia.
Local Open Scope nat_scope.

Definition is_correct (ch : list str * list str) : bool :=
  match classify (fst ch) (snd ch) with Correct => true | _ => false end.

(* ------------------------------------------------------------------ *)
(* 0. spans and offsets                                                *)
(* ------------------------------------------------------------------ *)

Lemma len_concat_nil : len_concat [] = 0.
Proof. reflexivity. Qed.

Lemma len_concat_cons w ws : len_concat (w :: ws) = length w + len_concat ws.
Proof. unfold len_concat. cbn [concat]. apply app_length. Qed.

Lemma wf_cons_inv w ws : wf (w :: ws) -> 0 < length w /\ wf ws.
Proof.
  intros H. inversion H as [|x l Hx Hl]; subst. split; [|exact Hl].
  destruct w; [congruence|cbn [length]; lia].
Qed.

Lemma wf_len_concat_0 ws : wf ws -> len_concat ws = 0 -> ws = [].
Proof.
  destruct ws as [|w ws]; [reflexivity|]. intros Hw H.
  apply wf_cons_inv in Hw as [Hw _]. rewrite len_concat_cons in H. lia.
Qed.

Lemma wf_app_intro a b : wf a -> wf b -> wf (a ++ b).
Proof. unfold wf. intros Ha Hb. apply Forall_app. split; assumption. Qed.

Lemma wf_firstn n ws : wf ws -> wf (firstn n ws).
Proof.
  intros H. rewrite <- (firstn_skipn n ws) in H. apply wf_app in H. apply H.
Qed.

Lemma spans_from_app idx a b :
  spans_from idx (a ++ b) = spans_from idx a ++ spans_from (idx + len_concat a) b.
Proof.
  revert idx; induction a as [|w a IH]; intros idx.
  - cbn [app spans_from]. rewrite len_concat_nil, Nat.add_0_r. reflexivity.
  - cbn [app spans_from]. rewrite IH, len_concat_cons, Nat.add_assoc. reflexivity.
Qed.

Lemma spans_from_length idx ws : length (spans_from idx ws) = length ws.
Proof.
  revert idx; induction ws as [|w ws IH]; intros idx; cbn [spans_from length]; [reflexivity|].
  now rewrite IH.
Qed.

Lemma spans_from_lower : forall ws idx p, In p (spans_from idx ws) -> idx <= fst p.
Proof.
  induction ws as [|w ws IH]; intros idx p H; cbn [spans_from In] in H; [contradiction|].
  destruct H as [<-|H]; [cbn [fst]; lia|]. apply IH in H. lia.
Qed.

Lemma spans_from_upper : forall ws idx p, wf ws -> In p (spans_from idx ws) ->
  fst p < idx + len_concat ws.
Proof.
  induction ws as [|w ws IH]; intros idx p Hw H; cbn [spans_from In] in H; [contradiction|].
  apply wf_cons_inv in Hw as [Hw Hws]. rewrite len_concat_cons.
  destruct H as [<-|H]; [cbn [fst]; lia|]. apply (IH _ _ Hws) in H. lia.
Qed.

(* a span of the segmentation is a word together with what precedes it *)
Lemma In_spans_from : forall ws idx p, In p (spans_from idx ws) ->
  exists pre w post, ws = pre ++ w :: post /\
    p = (idx + len_concat pre, idx + len_concat pre + length w).
Proof.
  induction ws as [|w ws IH]; intros idx p H; cbn [spans_from In] in H; [contradiction|].
  destruct H as [<-|H].
  - exists [], w, ws. split; [reflexivity|]. rewrite len_concat_nil, Nat.add_0_r. reflexivity.
  - destruct (IH _ _ H) as (pre & w' & post & -> & ->).
    exists (w :: pre), w', post. split; [reflexivity|].
    rewrite len_concat_cons. f_equal; lia.
Qed.

Lemma spans_from_NoDup : forall ws idx, wf ws -> NoDup (spans_from idx ws).
Proof.
  induction ws as [|w ws IH]; intros idx Hw; cbn [spans_from]; [constructor|].
  apply wf_cons_inv in Hw as [Hw Hws]. constructor; [|apply IH; exact Hws].
  intros H. apply spans_from_lower in H. cbn [fst] in H. lia.
Qed.

(* ------------------------------------------------------------------ *)
(* 1. intersections                                                    *)
(* ------------------------------------------------------------------ *)

Section Inter.
Context {A : Type} (eqb : A -> A -> bool).

Lemma inter_size_app_l (a1 a2 b : list A) :
  inter_size eqb (a1 ++ a2) b = inter_size eqb a1 b + inter_size eqb a2 b.
Proof. unfold inter_size. now rewrite filter_app, app_length. Qed.

Lemma inter_size_ext_r (a b b' : list A) :
  (forall x, In x a -> mem eqb x b = mem eqb x b') -> inter_size eqb a b = inter_size eqb a b'.
Proof. intros H. unfold inter_size. f_equal. apply filter_ext_in. exact H. Qed.

Lemma inter_size_none (a b : list A) :
  (forall x, In x a -> mem eqb x b = false) -> inter_size eqb a b = 0.
Proof.
  intros H. unfold inter_size. induction a as [|x a IH]; [reflexivity|].
  cbn [filter]. rewrite (H x (or_introl eq_refl)). apply IH.
  intros y Hy. apply H. right; exact Hy.
Qed.
End Inter.

Lemma span_mem_In x l : mem span_eqb x l = true <-> In x l.
Proof. apply (mem_In span_eqb span_eqb_spec). Qed.

Lemma span_mem_false x l : ~ In x l -> mem span_eqb x l = false.
Proof. intros H. apply (mem_false_In span_eqb span_eqb_spec). exact H. Qed.

(* two segmentations cut at the same place: hits are counted side by side *)
Lemma inter_size_spans_split idx ct rt cg rg :
  wf ct -> wf cg -> len_concat ct = len_concat cg ->
  inter_size span_eqb (spans_from idx (ct ++ rt)) (spans_from idx (cg ++ rg))
  = inter_size span_eqb (spans_from idx ct) (spans_from idx cg)
    + inter_size span_eqb (spans_from (idx + len_concat ct) rt) (spans_from (idx + len_concat ct) rg).
Proof.
  intros Hct Hcg HL. rewrite !spans_from_app, <- HL, inter_size_app_l. f_equal.
  - apply inter_size_ext_r. intros x Hx. rewrite ProofsScores.mem_app.
    rewrite (span_mem_false x (spans_from (idx + len_concat ct) rg)); [apply orb_false_r|].
    intros Hx'. apply spans_from_lower in Hx'. apply (spans_from_upper _ _ _ Hct) in Hx. lia.
  - apply inter_size_ext_r. intros x Hx. rewrite ProofsScores.mem_app.
    rewrite (span_mem_false x (spans_from idx cg)); [reflexivity|].
    intros Hx'. apply spans_from_lower in Hx. apply (spans_from_upper _ _ _ Hcg) in Hx'. lia.
Qed.

(* ------------------------------------------------------------------ *)
(* 2. chunks are minimal: no common boundary strictly inside            *)
(* ------------------------------------------------------------------ *)

Definition minimal (ct cg : list str) : Prop :=
  forall p p' q q', ct = p ++ p' -> cg = q ++ q' -> len_concat p = len_concat q ->
    (p = [] /\ q = []) \/ (p' = [] /\ q' = []).

Definition good (ch : list str * list str) : Prop :=
  wf (fst ch) /\ wf (snd ch) /\ concat (fst ch) = concat (snd ch) /\ minimal (fst ch) (snd ch).

Lemma good_intro ct cg :
  wf ct -> wf cg -> concat ct = concat cg -> minimal ct cg -> good (ct, cg).
Proof. intros A B C D. unfold good. cbn [fst snd]. tauto. Qed.

Lemma minimal_single w v : w <> [] -> v <> [] -> minimal [w] [v].
Proof.
  intros Hw Hv p p' q q' Ep Eq HL.
  assert (Lw : 0 < length w) by (destruct w; [congruence|cbn [length]; lia]).
  assert (Lv : 0 < length v) by (destruct v; [congruence|cbn [length]; lia]).
  destruct p as [|x p]; destruct q as [|y q].
  - left; split; reflexivity.
  - exfalso. cbn [app] in Eq. injection Eq as <- Eq. rewrite len_concat_nil, len_concat_cons in HL. lia.
  - exfalso. cbn [app] in Ep. injection Ep as <- Ep. rewrite len_concat_nil, len_concat_cons in HL. lia.
  - right. cbn [app] in Ep, Eq. injection Ep as _ Ep. injection Eq as _ Eq.
    symmetry in Ep, Eq. apply app_eq_nil in Ep, Eq. split; [apply Ep|apply Eq].
Qed.

Lemma firstn_length_app {X} (p p' : list X) : firstn (length p) (p ++ p') = p.
Proof. induction p as [|x p IH]; [reflexivity|]. cbn [length app firstn]. now rewrite IH. Qed.

Lemma compute_chunk_concat (text gold : list str) x :
  compute_chunk text gold = Ok x -> concat text = concat gold.
Proof.
  unfold compute_chunk. destruct text as [|t0 tr]; [discriminate|].
  destruct gold as [|g0 gr]; [discriminate|].
  destruct (str_eqb_spec (concat (g0 :: gr)) (concat (t0 :: tr))) as [E|E]; cbn [negb];
    [intros _; symmetry; exact E|discriminate].
Qed.

Lemma compute_chunk_good : forall (text gold : list str) ct cg,
  wf text -> wf gold -> compute_chunk text gold = Ok (ct, cg) ->
  good (ct, cg) /\ ct <> [] /\ cg <> [].
Proof.
  intros text gold ct cg Hwt Hwg H. pose proof (compute_chunk_concat _ _ _ H) as Hc.
  unfold compute_chunk in H.
  destruct text as [|t0 tr]; [discriminate|]. destruct gold as [|g0 gr]; [discriminate|].
  rewrite Hc, str_eqb_refl in H. cbn [negb] in H.
  destruct (str_eqb_spec g0 t0) as [->|Hne].
  - injection H as <- <-. unfold good. cbn [fst snd].
    assert (Ht0 : t0 <> []) by (inversion Hwt; assumption).
    repeat split; try discriminate.
    + constructor; [exact Ht0|constructor].
    + constructor; [exact Ht0|constructor].
    + apply minimal_single; exact Ht0.
  - destruct (chunk_loop_ok (length (t0 :: tr) + length (g0 :: gr)) (t0 :: tr) (g0 :: gr) 0 0
                Hwt Hwg Hc) as (ti' & gi' & Hr & H1 & H2 & H3 & H4);
      [cbn [length]; lia | cbn [length]; lia | lia |].
    change (firstn 1 (t0 :: tr)) with [t0] in Hr. change (firstn 1 (g0 :: gr)) with [g0] in Hr.
    rewrite !len_concat_single in Hr.
    assert (Nt : firstn (S ti') (t0 :: tr) <> []) by (apply firstn_S_nonnil; discriminate).
    assert (Ng : firstn (S gi') (g0 :: gr) <> []) by (apply firstn_S_nonnil; discriminate).
    remember (t0 :: tr) as T eqn:ET in *. remember (g0 :: gr) as G eqn:EG in *. clear ET EG.
    rewrite Hr in H.
    change (Ok (firstn (S ti') T, firstn (S gi') G) = Ok (ct, cg)) in H. injection H as <- <-.
    assert (HcT : concat (firstn (S ti') T) = concat (firstn (S gi') G)).
    { pose proof (firstn_skipn (S ti') T) as Et. pose proof (firstn_skipn (S gi') G) as Eg.
      rewrite <- Et, <- Eg, !concat_app in Hc.
      apply app_eq_len_l in Hc; [apply Hc|]. exact H3. }
    split; [|split; assumption].
    apply (good_intro (firstn (S ti') T) (firstn (S gi') G));
      [apply wf_firstn; exact Hwt|apply wf_firstn; exact Hwg|exact HcT|].
    intros p p' q q' Ep Eq HL.
    assert (LT : length (firstn (S ti') T) = S ti') by (rewrite firstn_length; lia).
    assert (LG : length (firstn (S gi') G) = S gi') by (rewrite firstn_length; lia).
    assert (Wp : wf p).
    { pose proof (wf_firstn (S ti') T Hwt) as W. rewrite Ep in W. apply wf_app in W. apply W. }
    assert (Wq : wf q).
    { pose proof (wf_firstn (S gi') G Hwg) as W. rewrite Eq in W. apply wf_app in W. apply W. }
    destruct (Nat.eq_dec (length p) 0) as [Zp|Np].
    { left. destruct p; [|discriminate]. split; [reflexivity|].
      apply wf_len_concat_0; [exact Wq|]. rewrite <- HL. reflexivity. }
    destruct (Nat.eq_dec (length q) 0) as [Zq|Nq].
    { left. destruct q; [|discriminate]. split; [|reflexivity].
      apply wf_len_concat_0; [exact Wp|]. rewrite HL. reflexivity. }
    right.
    assert (Lp : length p + length p' = S ti') by (rewrite <- LT, Ep, app_length; reflexivity).
    assert (Lq : length q + length q' = S gi') by (rewrite <- LG, Eq, app_length; reflexivity).
    assert (Fp : firstn (S (length p - 1)) T = p).
    { replace (S (length p - 1)) with (Nat.min (length p) (S ti')) by lia.
      rewrite <- firstn_firstn, Ep. apply firstn_length_app. }
    assert (Fq : firstn (S (length q - 1)) G = q).
    { replace (S (length q - 1)) with (Nat.min (length q) (S gi')) by lia.
      rewrite <- firstn_firstn, Eq. apply firstn_length_app. }
    destruct (Nat.eq_dec (length p - 1) ti') as [Ea|Na];
      [destruct (Nat.eq_dec (length q - 1) gi') as [Eb|Nb]|].
    + split; apply length_zero_iff_nil; lia.
    + exfalso. apply (H4 (length p - 1) (length q - 1)); [lia|lia| |].
      * intros E. injection E as E1 E2. lia.
      * rewrite Fp, Fq. exact HL.
    + exfalso. apply (H4 (length p - 1) (length q - 1)); [lia|lia| |].
      * intros E. injection E as E1 E2. lia.
      * rewrite Fp, Fq. exact HL.
Qed.

Lemma boundary_chunks_good : forall fuel (text gold : list str) chunks,
  wf text -> wf gold ->
  boundary_chunks fuel text gold = Ok chunks -> Forall good chunks.
Proof.
  induction fuel as [|f IH]; intros text gold chunks Hwt Hwg H.
  - destruct text, gold; cbn in H; try discriminate. injection H as <-. constructor.
  - destruct text as [|t0 tr]; destruct gold as [|g0 gr]; cbn [boundary_chunks] in H;
      try discriminate.
    + injection H as <-. constructor.
    + destruct (compute_chunk (t0 :: tr) (g0 :: gr)) as [[ct cg]|e] eqn:Ec; [|discriminate].
      cbn [bind fst snd] in H.
      destruct (compute_chunk_prefix _ _ _ _ Ec) as [[rt Et] [rg Eg]].
      destruct (compute_chunk_good _ _ _ _ Hwt Hwg Ec) as [Hgood _].
      rewrite Et, Eg, !skipn_length_app in H.
      destruct (boundary_chunks f rt rg) as [rest|e] eqn:Er; [|discriminate].
      cbn [bind] in H. injection H as <-.
      rewrite Et in Hwt. rewrite Eg in Hwg. apply wf_app in Hwt, Hwg.
      constructor; [exact Hgood|]. apply (IH rt rg); tauto.
Qed.

(* ------------------------------------------------------------------ *)
(* 3. H1 and H2                                                        *)
(* ------------------------------------------------------------------ *)

(* H1: a chunk is filed under Correct exactly when it is one text word
   equal to one gold word *)
Theorem good_chunk_correct_iff : forall ch, good ch ->
  (classify (fst ch) (snd ch) = Correct <-> exists w, ch = ([w], [w])).
Proof.
  intros [ct cg] (Wt & Wg & Hc & _). cbn [fst snd] in *. rewrite classify_correct_iff. split.
  - intros [Lg Lt].
    destruct ct as [|t [|? ?]]; try discriminate. destruct cg as [|g [|? ?]]; try discriminate.
    cbn [concat] in Hc. rewrite !app_nil_r in Hc. subst g. now exists t.
  - intros [w E]. injection E as -> ->. split; reflexivity.
Qed.

(* a span shared inside a minimal chunk: the chunk is one word against one word *)
Lemma shared_span_single idx ct cg x :
  minimal ct cg -> In x (spans_from idx ct) -> In x (spans_from idx cg) ->
  exists w v, ct = [w] /\ cg = [v].
Proof.
  intros Hmin Hx Hx'.
  apply In_spans_from in Hx as (p & w & r & Ep & Exp).
  apply In_spans_from in Hx' as (q & v & s & Eq & Exq).
  rewrite Exp in Exq. injection Exq as E1 E2.
  assert (HL : len_concat p = len_concat q) by lia.
  assert (HL2 : len_concat (p ++ [w]) = len_concat (q ++ [v]))
    by (rewrite !len_concat_app, !len_concat_single; lia).
  destruct (Hmin p (w :: r) q (v :: s) Ep Eq HL) as [[Hp Hq]|[Hn _]]; [|discriminate].
  destruct (Hmin (p ++ [w]) r (q ++ [v]) s) as [[Hn _]|[Hr Hs]].
  - rewrite <- app_assoc. exact Ep.
  - rewrite <- app_assoc. exact Eq.
  - exact HL2.
  - apply app_eq_nil in Hn as [_ Hn]. discriminate.
  - subst p q r s. exists w, v. split; assumption.
Qed.

(* H2 inside one chunk: the shared spans are those of a Correct chunk *)
Lemma chunk_inter_size idx ch : good ch ->
  inter_size span_eqb (spans_from idx (fst ch)) (spans_from idx (snd ch))
  = if is_correct ch then 1 else 0.
Proof.
  intros Hg. pose proof (good_chunk_correct_iff ch Hg) as H1.
  destruct ch as [ct cg]. destruct Hg as (Wt & Wg & Hc & Hmin). cbn [fst snd] in *.
  unfold is_correct. cbn [fst snd].
  destruct (classify ct cg) eqn:Ecl.
  1:{ destruct (proj1 H1 eq_refl) as [w E]. injection E as -> ->.
      cbn [spans_from]. unfold inter_size. cbn [filter mem].
      destruct (span_eqb_spec (idx, idx + length w) (idx, idx + length w)) as [_|N];
        [reflexivity|congruence]. }
  all: apply inter_size_none; intros x Hx; apply span_mem_false; intros Hx';
    destruct (shared_span_single idx ct cg x Hmin Hx Hx') as (w & v & -> & ->);
    assert (F : classify [w] [v] = Correct) by (apply classify_correct_iff; split; reflexivity);
    congruence.
Qed.

Lemma wf_concat_fst chunks : Forall good chunks -> wf (concat (map fst chunks)).
Proof.
  induction 1 as [|ch chunks Hg _ IH]; cbn [map concat]; [constructor|].
  apply wf_app_intro; [apply Hg|exact IH].
Qed.

Lemma chunks_count_from : forall chunks idx, Forall good chunks ->
  length (filter is_correct chunks)
  = inter_size span_eqb (spans_from idx (concat (map fst chunks)))
                        (spans_from idx (concat (map snd chunks))).
Proof.
  induction chunks as [|ch chunks IH]; intros idx Hall.
  - reflexivity.
  - inversion Hall as [|? ? Hg Hrest]; subst. cbn [map concat filter].
    pose proof Hg as (Wt & Wg & Hc & _).
    rewrite (inter_size_spans_split idx _ _ _ _ Wt Wg (len_concat_eq _ _ Hc)).
    rewrite (chunk_inter_size idx ch Hg), <- (IH _ Hrest).
    destruct (is_correct ch); cbn [length]; lia.
Qed.

(* H2: the gold words filed under Correct are exactly the gold words whose
   character span is also the span of a text word.  The hypothesis
   [concat tw = concat gw] of the consistent case is not needed: a successful
   [boundary_chunks] has checked it. *)
Theorem chunks_correct_count_gen : forall fuel tw gw chunks,
  wf tw -> wf gw ->
  boundary_chunks fuel tw gw = Ok chunks ->
  length (filter (fun ch => match classify (fst ch) (snd ch) with Correct => true | _ => false end)
                 chunks)
  = inter_size span_eqb (spans tw) (spans gw).
Proof.
  intros fuel tw gw chunks Wt Wg H.
  destruct (boundary_chunks_partition _ _ _ _ H) as [Pt Pg].
  pose proof (boundary_chunks_good _ _ _ _ Wt Wg H) as Hall.
  unfold spans. rewrite <- Pt, <- Pg. exact (chunks_count_from chunks 0 Hall).
Qed.

Theorem chunks_correct_count : forall fuel tw gw chunks,
  wf tw -> wf gw -> concat tw = concat gw ->
  boundary_chunks fuel tw gw = Ok chunks ->
  length (filter (fun ch => match classify (fst ch) (snd ch) with Correct => true | _ => false end)
                 chunks)
  = inter_size span_eqb (spans tw) (spans gw).
Proof. intros fuel tw gw chunks Wt Wg _. apply chunks_correct_count_gen; assumption. Qed.

(* the Correct chunks, one by one: each is a single word, the same on both
   sides, sitting at the same characters in both segmentations *)
Theorem chunks_correct_are_shared_words : forall fuel tw gw chunks,
  wf tw -> wf gw ->
  boundary_chunks fuel tw gw = Ok chunks ->
  Forall (fun ch => classify (fst ch) (snd ch) = Correct <-> exists w, ch = ([w], [w])) chunks.
Proof.
  intros fuel tw gw chunks Wt Wg H.
  pose proof (boundary_chunks_good _ _ _ _ Wt Wg H) as Hall.
  eapply Forall_impl; [|exact Hall]. intros ch Hg. apply good_chunk_correct_iff. exact Hg.
Qed.

(* ------------------------------------------------------------------ *)
(* 4. the "correct" counter of the summary                             *)
(* ------------------------------------------------------------------ *)

Definition ctot (s : summ) : Z := total (sm_correct s).

Lemma ctot_bump s c w :
  ctot (bump s c w) = (ctot s + match c with Correct => 1 | _ => 0 end)%Z.
Proof.
  unfold ctot. destruct c; cbn [bump sm_correct]; [apply total_cadd1|lia|lia|lia].
Qed.

Lemma ctot_fold_bump c (ws : list str) s :
  ctot (fold_left (fun s w => bump s c w) ws s)
  = (ctot s + match c with Correct => Z.of_nat (length ws) | _ => 0 end)%Z.
Proof.
  revert s; induction ws as [|w ws IH]; intros s; cbn [fold_left length].
  - destruct c; lia.
  - rewrite IH, ctot_bump. destruct c; lia.
Qed.

Lemma ctot_fold_chunks (chunks : list (list str * list str)) s :
  ctot (fold_left (fun s ch =>
                 fold_left (fun s w => bump s (classify (fst ch) (snd ch)) w) (snd ch) s)
                chunks s)
  = (ctot s + Z.of_nat (length (filter is_correct chunks)))%Z.
Proof.
  revert s; induction chunks as [|ch chunks IH]; intros s; cbn [fold_left filter].
  - cbn [length]. lia.
  - rewrite IH, ctot_fold_bump. unfold is_correct at 2.
    destruct (classify (fst ch) (snd ch)) eqn:Ecl; cbn [length]; try lia.
    apply classify_correct_iff in Ecl as [Lg _]. rewrite Lg. lia.
Qed.

Lemma list_eqb_eq : forall a b, list_eqb a b = true -> a = b.
Proof.
  unfold list_eqb. induction a as [|x a IH]; intros [|y b] H; cbn [length combine forallb] in H;
    try reflexivity; try discriminate.
  apply andb_true_iff in H as [Hl H]. cbn [fst snd] in H. apply andb_true_iff in H as [Hx H].
  apply str_eqb_eq in Hx. subst y. f_equal. apply IH.
  apply andb_true_iff. split; [|exact H]. cbn [Nat.eqb] in Hl. exact Hl.
Qed.

(* No hypothesis on the two lines is needed: whenever the utterance is
   accepted, "correct" grows by the number of token hits. *)
Theorem summarize_utterance_correct_hits : forall s text gold s',
  summarize_utterance s text gold = Ok s' ->
  (total (sm_correct s') - total (sm_correct s))%Z
  = Z.of_nat (inter_size span_eqb (spans (tokens text)) (spans (tokens gold))).
Proof.
  intros s text gold s' H. unfold summarize_utterance in H.
  destruct (negb _); [discriminate|].
  destruct (list_eqb (tokens gold) (tokens text)) eqn:El.
  - assert (E : fold_left (fun s w => bump s Correct w) (tokens gold) s = s')
      by (injection H as H; exact H).
    subst s'. apply list_eqb_eq in El. rewrite El.
    pose proof (ctot_fold_bump Correct (tokens text) s) as F. unfold ctot in F. rewrite F.
    rewrite (inter_size_self span_eqb span_eqb_spec). unfold spans. rewrite spans_from_length. lia.
  - destruct (boundary_chunks _ (tokens text) (tokens gold)) as [chunks|e] eqn:Eb; [|discriminate].
    cbn [bind] in H.
    assert (E : fold_left (fun s ch =>
                 fold_left (fun s w => bump s (classify (fst ch) (snd ch)) w) (snd ch) s)
                chunks s = s') by (injection H as H; exact H).
    subst s'.
    pose proof (ctot_fold_chunks chunks s) as F. unfold ctot in F. rewrite F.
    pose proof (chunks_correct_count_gen _ _ _ _ (wf_tokens text) (wf_tokens gold) Eb) as C.
    fold is_correct in C. rewrite C. lia.
Qed.

(* the form with the hypotheses of summarize_utterance_accepts *)
Corollary summarize_utterance_correct_hits_consistent : forall s text gold,
  despace gold = despace text -> only_spaces text -> only_spaces gold ->
  exists s', summarize_utterance s text gold = Ok s' /\
    (total (sm_correct s') - total (sm_correct s))%Z
    = Z.of_nat (inter_size span_eqb (spans (tokens text)) (spans (tokens gold))).
Proof.
  intros s text gold Hd Ht Hg.
  destruct (summarize_utterance_accepts s text gold Hd Ht Hg) as [s' E].
  exists s'. split; [exact E|]. exact (summarize_utterance_correct_hits _ _ _ _ E).
Qed.

(* ------------------------------------------------------------------ *)
(* 5. whole texts                                                      *)
(* ------------------------------------------------------------------ *)

Lemma update_lists_correct_shift {A} (eqb : A -> A -> bool) : forall (t g : list (list A)) c,
  c_correct (update_lists eqb t g c) = c_correct c + c_correct (update_lists eqb t g zero).
Proof.
  induction t as [|x t IH]; intros [|y g] c; cbn [update_lists]; try (cbn; lia).
  rewrite IH. rewrite (IH g {| c_test := _; c_gold := _; c_correct := _ |}).
  cbn [c_correct zero]. lia.
Qed.

(* line by line, on the token lists themselves *)
Theorem summarize_all_correct_hits : forall (text gold : list str) s s',
  summarize_all s text gold = Ok s' ->
  total (sm_correct s')
  = (total (sm_correct s)
     + Z.of_nat (c_correct (token_counts (map spans (map tokens text)) (map spans (map tokens gold)))))%Z.
Proof.
  unfold token_counts.
  induction text as [|t tr IH]; intros [|g gr] s s' H; cbn [summarize_all] in H;
    try (injection H as <-; cbn; lia).
  destruct (summarize_utterance s t g) as [s1|e] eqn:E1; [|discriminate].
  cbn [bind] in H. apply summarize_utterance_correct_hits in E1. apply IH in H.
  cbn [map update_lists]. rewrite update_lists_correct_shift. cbn [c_correct zero].
  rewrite H. lia.
Qed.

(* ---- the sets that evaluate() really compares: rd_pos (read_data _) ---- *)

Lemma dedup_NoDup_id {A} (eqb : A -> A -> bool) (eqb_spec : forall a b, reflect (a = b) (eqb a b)) :
  forall l, NoDup l -> dedup eqb l = l.
Proof.
  induction l as [|x l IH]; intros H; [reflexivity|]. inversion H as [|? ? Hx Hl]; subst.
  cbn [dedup]. rewrite (proj2 (mem_false_In eqb eqb_spec x l) Hx), (IH Hl). reflexivity.
Qed.

Lemma set_of_spans ws : wf ws -> set_of span_eqb (spans ws) = spans ws.
Proof.
  intros H. unfold set_of. rewrite (dedup_NoDup_id span_eqb span_eqb_spec).
  - apply rev_involutive.
  - apply NoDup_rev. apply spans_from_NoDup. exact H.
Qed.

(* blank lines *)
Definition all_space (u : str) : bool := forallb is_space u.

Lemma lstrip_nil_iff u : lstrip u = [] <-> all_space u = true.
Proof.
  induction u as [|c u IH]; cbn [lstrip all_space forallb]; [tauto|].
  destruct (is_space c); cbn [andb]; [exact IH|]. split; discriminate.
Qed.

Lemma lstrip_all_space_suffix u : all_space (lstrip u) = true -> all_space u = true.
Proof.
  induction u as [|c u IH]; cbn [lstrip]; [tauto|].
  destruct (is_space c) eqn:Ec.
  - intros H. cbn [all_space forallb]. rewrite Ec. exact (IH H).
  - cbn [all_space forallb]. rewrite Ec. discriminate.
Qed.

Lemma all_space_rev u : all_space (rev u) = all_space u.
Proof.
  unfold all_space. induction u as [|c u IH]; [reflexivity|].
  cbn [rev forallb]. rewrite forallb_app, IH. cbn [forallb]. rewrite andb_true_r. apply andb_comm.
Qed.

Lemma strip_nil_iff u : strip u = [] <-> all_space u = true.
Proof.
  unfold strip, rstrip. split.
  - intros H. apply (f_equal (@rev char)) in H. rewrite rev_involutive in H. cbn [rev] in H.
    apply lstrip_nil_iff in H. rewrite all_space_rev in H. apply lstrip_all_space_suffix. exact H.
  - intros H. apply lstrip_nil_iff in H. rewrite H. reflexivity.
Qed.

Lemma nonblank_all_space u : nonblank u = negb (all_space u).
Proof.
  unfold nonblank. destruct (all_space u) eqn:E.
  - apply strip_nil_iff in E. rewrite E. reflexivity.
  - destruct (strip u) eqn:Es; [|reflexivity].
    apply strip_nil_iff in Es. congruence.
Qed.

Lemma is_space_sp : is_space sp = true.
Proof. reflexivity. Qed.

Lemma all_space_despace u : all_space (despace u) = all_space u.
Proof.
  unfold all_space, despace. induction u as [|c u IH]; [reflexivity|].
  cbn [filter forallb]. destruct (N.eqb_spec c sp) as [->|N]; cbn [negb].
  - rewrite is_space_sp. exact IH.
  - cbn [forallb]. now rewrite IH.
Qed.

(* consistent lines are blank together *)
Lemma nonblank_despace t g : despace g = despace t -> nonblank t = nonblank g.
Proof.
  intros H. rewrite !nonblank_all_space, <- (all_space_despace t), <- (all_space_despace g), H.
  reflexivity.
Qed.

Lemma split_go_all_space : forall (s acc : str), all_space s = true -> all_space acc = true ->
  Forall (fun p => all_space p = true) (split_go [sp] s 0 acc).
Proof.
  induction s as [|c s IH]; intros acc Hs Ha.
  - cbn [split_go]. constructor; [|constructor]. now rewrite all_space_rev.
  - cbn [all_space forallb] in Hs. apply andb_true_iff in Hs as [Hc Hs].
    rewrite split_go_sp_cons. destruct (sp =? c)%N.
    + constructor; [now rewrite all_space_rev|]. apply IH; [exact Hs|reflexivity].
    + apply IH; [exact Hs|]. cbn [all_space forallb]. now rewrite Hc.
Qed.

Lemma tokens_blank u : nonblank u = false -> tokens u = [].
Proof.
  intros H. rewrite nonblank_all_space in H. apply negb_false_iff in H.
  unfold tokens, split_on.
  pose proof (split_go_all_space u [] H eq_refl) as F.
  induction F as [|p l Hp _ IH]; [reflexivity|].
  cbn [filter]. destruct (nonempty p); [|exact IH].
  cbn [map filter]. rewrite (proj2 (strip_nil_iff p) Hp). cbn [nonempty]. exact IH.
Qed.

Definition pos (l : list str) : list (list (nat * nat)) := rd_pos (read_data l).

Lemma pos_cons u l :
  pos (u :: l) = if nonblank u then spans (tokens u) :: pos l else pos l.
Proof.
  unfold pos, read_data. cbn [rd_pos filter]. destruct (nonblank u); [|reflexivity].
  cbn [map]. rewrite (set_of_spans _ (wf_tokens u)). reflexivity.
Qed.

Lemma summarize_utterance_despace s t g s' :
  summarize_utterance s t g = Ok s' -> despace g = despace t.
Proof.
  unfold summarize_utterance.
  destruct (str_eqb_spec (despace g) (despace t)) as [E|E]; cbn [negb]; [intros _; exact E|discriminate].
Qed.

(* The token evaluation of evaluate() is
     s_token = token_counts (rd_pos (read_data text)) (rd_pos (read_data gold)),
   i.e. blank lines dropped and each remaining line turned into the *set* of
   its word spans.  summary() keeps blank lines (they contribute nothing) and
   works on the word lists.  The two agree on the number of hits. *)
Theorem summarize_all_correct_is_token_hits : forall (text gold : list str) s s',
  summarize_all s text gold = Ok s' ->
  total (sm_correct s')
  = (total (sm_correct s)
     + Z.of_nat (c_correct (token_counts (rd_pos (read_data text)) (rd_pos (read_data gold)))))%Z.
Proof.
  intros text gold. unfold token_counts. fold (pos text) (pos gold). revert gold.
  induction text as [|t tr IH]; intros [|g gr] s s' H; cbn [summarize_all] in H.
  - injection H as <-. cbn. lia.
  - injection H as <-. cbn. lia.
  - injection H as <-. change (pos []) with (@nil (list (nat * nat))).
    destruct (pos (t :: tr)); cbn; lia.
  - destruct (summarize_utterance s t g) as [s1|e] eqn:E1; [|discriminate].
    cbn [bind] in H. pose proof (summarize_utterance_despace _ _ _ _ E1) as Hd.
    apply summarize_utterance_correct_hits in E1. apply IH in H.
    rewrite !pos_cons, <- (nonblank_despace t g Hd).
    destruct (nonblank t) eqn:Enb.
    + cbn [update_lists]. rewrite update_lists_correct_shift. cbn [c_correct zero].
      rewrite H. lia.
    + rewrite (nonblank_despace t g Hd) in Enb.
      assert (Enb' : nonblank t = false) by (rewrite (nonblank_despace t g Hd); exact Enb).
      rewrite (tokens_blank t Enb'), (tokens_blank g Enb) in E1. cbn in E1.
      rewrite H. lia.
Qed.

Definition empty_summ : summ := {| sm_correct := []; sm_under := []; sm_over := []; sm_mis := [] |}.

(* summary(text, gold) versus evaluate(text, gold): same pair of texts, the
   total of the "correct" category is the `correct` count of the token scores *)
Theorem summary_correct_total_is_token_hits : forall (text gold : list str) s',
  summarize_all {| sm_correct := []; sm_under := []; sm_over := []; sm_mis := [] |} text gold = Ok s' ->
  total (sm_correct s')
  = Z.of_nat (c_correct (token_counts (rd_pos (read_data text)) (rd_pos (read_data gold)))).
Proof.
  intros text gold s' H. apply summarize_all_correct_is_token_hits in H.
  cbn [sm_correct total fold_right] in H. rewrite H. lia.
Qed.

(* the same on the word lists, without read_data *)
Theorem summary_correct_total_is_token_hits_words : forall (text gold : list str) s',
  summarize_all {| sm_correct := []; sm_under := []; sm_over := []; sm_mis := [] |} text gold = Ok s' ->
  total (sm_correct s')
  = Z.of_nat (c_correct (token_counts (map spans (map tokens text)) (map spans (map tokens gold)))).
Proof.
  intros text gold s' H. apply summarize_all_correct_hits in H.
  cbn [sm_correct total fold_right] in H. rewrite H. lia.
Qed.

Lemma total_perm (a b : counter str) : Permutation.Permutation a b -> total a = total b.
Proof.
  unfold total.
  induction 1 as [|x l l' _ IH|x y l|l l' l'' _ IH1 _ IH2]; cbn [fold_right]; lia.
Qed.

(* through the public entry points: whenever both succeed *)
Theorem summary_evaluate_correct_agree : forall (text gold : list str) r sc,
  summary text gold = Ok r -> evaluate text gold None = Ok sc ->
  exists over under mis correct,
    r = [over; under; mis; correct] /\
    fold_right (fun (kv : str * Z) acc => (snd kv + acc)%Z) 0%Z correct
    = Z.of_nat (c_correct (s_token sc)).
Proof.
  intros text gold r sc Hs He. unfold summary in Hs.
  destruct (negb _); [discriminate|].
  destruct (summarize_all _ text gold) as [s|e] eqn:Es; [|discriminate].
  cbn [bind] in Hs. injection Hs as <-.
  exists (sort_items (sm_over s)), (sort_items (sm_under s)), (sort_items (sm_mis s)),
         (sort_items (sm_correct s)).
  split; [reflexivity|].
  apply summary_correct_total_is_token_hits in Es.
  rewrite evaluate_None in He. destruct (words_check text gold); [|discriminate].
  assert (E : base_scores text gold = sc) by (injection He as He; exact He). subst sc.
  unfold base_scores. cbn [s_token]. rewrite <- Es.
  symmetry. apply (total_perm _ _ (sort_items_perm (sm_correct s))).
Qed.

(* ------------------------------------------------------------------ *)
(* examples                                                            *)
(* ------------------------------------------------------------------ *)

(* text "a bc d", gold "ab c d": only "d" is a shared span *)
Example hits_example :
  let text := [S_ [97;32;98;99;32;100]%Z] in
  let gold := [S_ [97;98;32;99;32;100]%Z] in
  (do s <- summarize_all empty_summ text gold; Ok (total (sm_correct s)))
  = Ok (Z.of_nat (c_correct (token_counts (rd_pos (read_data text)) (rd_pos (read_data gold)))))
  /\ c_correct (token_counts (rd_pos (read_data text)) (rd_pos (read_data gold))) = 1.
Proof. vm_compute. split; reflexivity. Qed.

Print Assumptions chunks_correct_count.
Print Assumptions chunks_correct_count_gen.
Print Assumptions chunks_correct_are_shared_words.
Print Assumptions summarize_utterance_correct_hits.
Print Assumptions summarize_all_correct_hits.
Print Assumptions summarize_all_correct_is_token_hits.
Print Assumptions summary_correct_total_is_token_hits.
Print Assumptions summary_correct_total_is_token_hits_words.
Print Assumptions summary_evaluate_correct_agree.
