(* Class labels (compute_class_labels / labels_loop) and the adjusted Rand
   index: what the labels are, completeness of the loop, and "the index is 1.0
   only for identical segmentations". *)
From Coq Require Import List Arith NArith ZArith QArith Bool Lia.
From WS Require Import Base.Py Base.ListX Base.Str Evaluate.Model Evaluate.ProofsScores.
Import ListNotations.
Open Scope nat_scope.

Fixpoint blocks (c : nat) (ns : list nat) : list nat :=
  match ns with [] => [] | n :: r => repeat c n ++ blocks (S c) r end.
Fixpoint chunks {A} (ns : list nat) (l : list A) : list (list A) :=
  match ns with [] => [] | n :: r => firstn n l :: chunks r (skipn n l) end.
Definition same_partition (a b : list nat) : Prop :=
  forall i j, i < length a -> j < length a -> (nth i a 0 = nth j a 0 <-> nth i b 0 = nth j b 0).
Definition pairs0 := {| p_tp := 0; p_fp := 0; p_fn := 0; p_tn := 0 |}.

(* ====================================================================== *)
(* generic list helpers                                                    *)
(* ====================================================================== *)

Lemma Forall_skipn_ws {A} (P : A -> Prop) (n : nat) (l : list A) :
  Forall P l -> Forall P (skipn n l).
Proof.
  revert l; induction n as [|n IH]; intros l H; [exact H|].
  destruct l as [|x l]; [constructor|].
  cbn [skipn]. apply IH. inversion H; assumption.
Qed.

Lemma concat_nonempty_nil {A} (L : list (list A)) :
  Forall (fun x => x <> []) L -> concat L = [] -> L = [].
Proof.
  intros HF HC. destruct L as [|x L]; [reflexivity|].
  exfalso. inversion HF as [|? ? Hx _]; subst.
  cbn [concat] in HC. apply app_eq_nil in HC as [Hx' _]. contradiction.
Qed.

Lemma nth_repeat_app (c n : nat) (r : list nat) : forall i,
  i < n -> nth i (repeat c n ++ r) 0 = c.
Proof.
  induction n as [|n IH]; intros [|i] Hi; try lia; cbn [repeat app nth]; [reflexivity|].
  apply IH. lia.
Qed.

Lemma nth_repeat_app2 (c n : nat) (r : list nat) (i : nat) :
  nth (n + i) (repeat c n ++ r) 0 = nth i r 0.
Proof. induction n as [|n IH]; cbn [repeat app nth Nat.add]; [reflexivity|exact IH]. Qed.

Lemma list_sum_cons (n : nat) (ns : list nat) : list_sum (n :: ns) = n + list_sum ns.
Proof. reflexivity. Qed.

(* ====================================================================== *)
(* blocks / chunks                                                         *)
(* ====================================================================== *)

Lemma blocks_length : forall ns c, length (blocks c ns) = list_sum ns.
Proof.
  induction ns as [|n ns IH]; intros c; [reflexivity|].
  cbn [blocks]. rewrite list_sum_cons, app_length, repeat_length, IH. reflexivity.
Qed.

Lemma blocks_ge : forall ns c x, In x (blocks c ns) -> c <= x.
Proof.
  induction ns as [|n ns IH]; intros c x H; cbn [blocks] in H; [contradiction|].
  apply in_app_or in H as [H|H].
  - apply repeat_spec in H. lia.
  - apply IH in H. lia.
Qed.

Lemma concat_chunks {A} : forall ns (U : list (list A)),
  concat (map (@concat _) (chunks ns U)) = concat (firstn (list_sum ns) U).
Proof.
  induction ns as [|n ns IH]; intros U; [reflexivity|].
  cbn [chunks map concat]. rewrite list_sum_cons, IH, firstn_add, concat_app. reflexivity.
Qed.

(* ====================================================================== *)
(* word_len                                                                *)
(* ====================================================================== *)

Lemma word_len_ok : forall fuel word w units idx n,
  word_len fuel word w units idx = Ok n ->
  exists k, n = idx + k /\ k <= length units /\ w ++ concat (firstn k units) = word /\
            (w <> word -> 0 < k).
Proof.
  induction fuel as [|f IH]; intros word w units idx n H; cbn [word_len] in H.
  - destruct (str_eqb w word) eqn:E; [|discriminate].
    apply str_eqb_eq in E. injection H as <-. exists 0.
    cbn [firstn concat]. rewrite app_nil_r.
    repeat split; [lia|lia|exact E|intros Hn; contradiction].
  - destruct (str_eqb w word) eqn:E.
    + apply str_eqb_eq in E. injection H as <-. exists 0.
      cbn [firstn concat]. rewrite app_nil_r.
      repeat split; [lia|lia|exact E|intros Hn; contradiction].
    + destruct units as [|u r]; [discriminate|].
      apply IH in H as (k & Hn & Hk & Hc & _).
      exists (S k). cbn [firstn concat length].
      repeat split; [lia|lia| |lia].
      rewrite app_assoc. exact Hc.
Qed.

Lemma word_len_complete : forall k fuel w units idx,
  Forall (fun u : str => u <> []) units -> k <= length units -> k <= fuel ->
  word_len fuel (w ++ concat (firstn k units)) w units idx = Ok (idx + k).
Proof.
  induction k as [|k IH]; intros fuel w units idx HU Hk Hf.
  - cbn [firstn concat]. rewrite app_nil_r.
    destruct fuel; cbn [word_len]; rewrite str_eqb_refl; f_equal; lia.
  - destruct units as [|u r]; [cbn [length] in Hk; lia|].
    destruct fuel as [|f]; [lia|].
    inversion HU as [|? ? Hu Hr]; subst.
    cbn [firstn concat word_len].
    destruct (str_eqb w (w ++ u ++ concat (firstn k r))) eqn:E.
    + exfalso. apply str_eqb_eq in E. apply (f_equal (@length _)) in E.
      rewrite !app_length in E. destruct u as [|x u]; [contradiction|].
      cbn [length] in E. lia.
    + rewrite app_assoc. rewrite IH; [f_equal; lia|exact Hr|cbn [length] in Hk; lia|lia].
Qed.

(* ====================================================================== *)
(* T1 / T2                                                                 *)
(* ====================================================================== *)

(* T1: the labels are one class per word, constant inside a word, increasing by one at each word;
   the word lengths ns cut the unit list into pieces whose concatenations are the words *)
Theorem labels_loop_spec : forall W U c l,
  Forall (fun w : str => w <> []) W -> Forall (fun u : str => u <> []) U ->
  labels_loop W U c = Ok l ->
  exists ns, length ns = length W /\ Forall (fun n => 0 < n) ns /\ l = blocks c ns /\
             list_sum ns <= length U /\ map (@concat _) (chunks ns U) = W.
Proof.
  induction W as [|word W IH]; intros U c l HW HU H.
  - cbn [labels_loop] in H. injection H as <-. exists [].
    repeat split; [constructor|cbn; lia].
  - cbn [labels_loop] in H.
    destruct (word_len (S (length U)) word [] U 0) as [n|e] eqn:E;
      [|destruct e; discriminate].
    destruct (labels_loop W (skipn n U) (S c)) as [rest|e] eqn:E2; cbn [bind] in H;
      [|discriminate].
    injection H as <-.
    inversion HW as [|? ? Hword HW']; subst.
    apply word_len_ok in E as (k & -> & Hk & Hc & Hpos).
    cbn [Nat.add app] in *.
    assert (Hk0 : 0 < k) by (apply Hpos; intros Hn; apply Hword; symmetry; exact Hn).
    destruct (IH (skipn k U) (S c) rest HW' (Forall_skipn_ws _ k U HU) E2)
      as (ns & Hl & Hp & -> & Hs & Hm).
    exists (k :: ns). rewrite skipn_length in Hs.
    rewrite list_sum_cons. cbn [length blocks chunks map].
    repeat split.
    + lia.
    + constructor; assumption.
    + lia.
    + rewrite Hc, Hm. reflexivity.
Qed.

(* T2: completeness: whenever the words are obtainable by cutting the units, the loop returns those labels *)
Theorem labels_loop_complete : forall ns U c,
  Forall (fun n => 0 < n) ns -> Forall (fun u : str => u <> []) U -> list_sum ns <= length U ->
  labels_loop (map (@concat _) (chunks ns U)) U c = Ok (blocks c ns).
Proof.
  induction ns as [|n ns IH]; intros U c Hp HU Hs; [reflexivity|].
  inversion Hp as [|? ? Hn Hp']; subst.
  rewrite list_sum_cons in Hs.
  cbn [chunks map labels_loop blocks].
  pose proof (word_len_complete n (S (length U)) [] U 0 HU) as Hw.
  cbn [app Nat.add] in Hw. rewrite Hw by lia.
  rewrite IH; [reflexivity|exact Hp'|apply Forall_skipn_ws; exact HU|].
  rewrite skipn_length. lia.
Qed.

(* ====================================================================== *)
(* T3: pair counts vs. partitions                                          *)
(* ====================================================================== *)

Fixpoint agree1 (x y : nat) (a b : list nat) : Prop :=
  match a, b with
  | x' :: a', y' :: b' => (x = x' <-> y = y') /\ agree1 x y a' b'
  | _, _ => True
  end.

Fixpoint agree (a b : list nat) : Prop :=
  match a, b with
  | x :: a', y :: b' => agree1 x y a' b' /\ agree a' b'
  | _, _ => True
  end.

Lemma cp1_zero : forall a b x y acc,
  (p_fn (count_pairs_one x y a b acc) = 0 /\ p_fp (count_pairs_one x y a b acc) = 0)
  <-> (p_fn acc = 0 /\ p_fp acc = 0 /\ agree1 x y a b).
Proof.
  induction a as [|x' a IH]; intros b x y acc.
  - cbn [count_pairs_one agree1]. tauto.
  - destruct b as [|y' b]; [cbn [count_pairs_one agree1]; tauto|].
    cbn [count_pairs_one agree1]. rewrite IH.
    destruct (Nat.eqb_spec x x') as [Hx|Hx], (Nat.eqb_spec y y') as [Hy|Hy];
      cbn [p_fn p_fp]; split; intros H; repeat split; try tauto; try lia;
      try (exfalso; tauto); try (exfalso; lia).
Qed.

Lemma cp_zero : forall a b acc,
  (p_fn (count_pairs a b acc) = 0 /\ p_fp (count_pairs a b acc) = 0)
  <-> (p_fn acc = 0 /\ p_fp acc = 0 /\ agree a b).
Proof.
  induction a as [|x a IH]; intros b acc.
  - cbn [count_pairs agree]. tauto.
  - destruct b as [|y b]; [cbn [count_pairs agree]; tauto|].
    cbn [count_pairs agree]. rewrite IH. pose proof (cp1_zero a b x y acc) as H1. tauto.
Qed.

Lemma agree1_nth : forall a b x y, length a = length b ->
  (agree1 x y a b <-> forall j, j < length a -> (x = nth j a 0 <-> y = nth j b 0)).
Proof.
  induction a as [|x' a IH]; intros [|y' b] x y Hlen; cbn [length] in Hlen; try discriminate.
  - cbn [agree1 length]. split; [intros _ j Hj; lia|trivial].
  - cbn [agree1]. rewrite (IH b x y) by lia. split.
    + intros [H0 H] [|j] Hj; cbn [nth]; [exact H0|]. apply H. cbn [length] in Hj. lia.
    + intros H. split.
      * apply (H 0). cbn [length]. lia.
      * intros j Hj. apply (H (S j)). cbn [length]. lia.
Qed.

Lemma agree_same_partition : forall a b, length a = length b ->
  (agree a b <-> same_partition a b).
Proof.
  induction a as [|x a IH]; intros [|y b] Hlen; cbn [length] in Hlen; try discriminate.
  - cbn [agree]. split; [intros _ i j Hi; cbn [length] in Hi; lia|trivial].
  - cbn [agree]. rewrite (IH b) by lia. rewrite (agree1_nth a b x y) by lia.
    unfold same_partition. cbn [length]. split.
    + intros [H1 H2] [|i] [|j] Hi Hj; cbn [nth].
      * tauto.
      * apply H1. lia.
      * specialize (H1 i ltac:(lia)). split; intros E; symmetry; apply H1; symmetry; exact E.
      * apply H2; lia.
    + intros H. split.
      * intros j Hj. apply (H 0 (S j)); lia.
      * intros i j Hi Hj. apply (H (S i) (S j)); lia.
Qed.

(* T3: no pair classified differently  <->  the two labelings induce the same partition of the positions *)
Theorem no_disagreement_iff_same_partition : forall a b, length a = length b ->
  (p_fn (count_pairs a b pairs0) = 0 /\ p_fp (count_pairs a b pairs0) = 0) <-> same_partition a b.
Proof.
  intros a b Hlen. rewrite cp_zero. unfold pairs0. cbn [p_fn p_fp].
  rewrite <- (agree_same_partition a b Hlen). tauto.
Qed.

(* ====================================================================== *)
(* T4: block labelings                                                     *)
(* ====================================================================== *)

Lemma same_partition_sym a b : length a = length b -> same_partition a b -> same_partition b a.
Proof.
  intros Hlen H i j Hi Hj. symmetry. apply H; lia.
Qed.

Lemma blocks_head_nlt : forall c d n m ns ms,
  0 < n -> Forall (fun n => 0 < n) ns ->
  list_sum (n :: ns) = list_sum (m :: ms) ->
  same_partition (blocks c (n :: ns)) (blocks d (m :: ms)) -> ~ n < m.
Proof.
  intros c d n m ns ms Hn Hp Hsum H Hlt.
  rewrite !list_sum_cons in Hsum.
  specialize (H 0 n). rewrite blocks_length, list_sum_cons in H. cbn [blocks] in H.
  destruct H as [_ H]; [lia|lia|].
  rewrite !(nth_repeat_app d m) in H by lia.
  specialize (H eq_refl).
  rewrite (nth_repeat_app c n) in H by lia.
  pose proof (nth_repeat_app2 c n (blocks (S c) ns) 0) as E.
  rewrite Nat.add_0_r in E. rewrite E in H.
  assert (Hin : In (nth 0 (blocks (S c) ns) 0) (blocks (S c) ns)).
  { apply nth_In. rewrite blocks_length. lia. }
  apply blocks_ge in Hin. lia.
Qed.

Lemma blocks_sp_eq : forall ns ms c d,
  Forall (fun n => 0 < n) ns -> Forall (fun n => 0 < n) ms -> list_sum ns = list_sum ms ->
  same_partition (blocks c ns) (blocks d ms) -> ns = ms.
Proof.
  induction ns as [|n ns IH]; intros [|m ms] c d Hp Hq Hsum H.
  - reflexivity.
  - exfalso. inversion Hq; subst. rewrite list_sum_cons in Hsum. cbn in Hsum. lia.
  - exfalso. inversion Hp; subst. rewrite list_sum_cons in Hsum. cbn in Hsum. lia.
  - inversion Hp as [|? ? Hn Hp']; subst. inversion Hq as [|? ? Hm Hq']; subst.
    assert (H1 : ~ n < m) by exact (blocks_head_nlt c d n m ns ms Hn Hp' Hsum H).
    assert (H2 : ~ m < n).
    { apply (blocks_head_nlt d c m n ms ns Hm Hq'); [symmetry; exact Hsum|].
      apply same_partition_sym; [|exact H]. rewrite !blocks_length. exact Hsum. }
    assert (n = m) by lia. subst m. f_equal.
    rewrite !list_sum_cons in Hsum.
    apply (IH ms (S c) (S d) Hp' Hq'); [lia|].
    intros i j Hi Hj. rewrite blocks_length in Hi, Hj.
    specialize (H (n + i) (n + j)). rewrite blocks_length, list_sum_cons in H.
    cbn [blocks] in H. rewrite !nth_repeat_app2 in H.
    apply H; lia.
Qed.

(* T4: two block labelings of the same length with the same partition have the same block lengths *)
Theorem blocks_same_partition_eq : forall ns ms,
  Forall (fun n => 0 < n) ns -> Forall (fun n => 0 < n) ms -> list_sum ns = list_sum ms ->
  same_partition (blocks 0 ns) (blocks 0 ms) -> ns = ms.
Proof. intros ns ms. apply blocks_sp_eq. Qed.

(* ====================================================================== *)
(* T5                                                                      *)
(* ====================================================================== *)

(* T5: the index is 1.0 only for identical segmentations (loop level) *)
Theorem ari_one_only_identical_loop : forall W W' U la lb,
  Forall (fun w : str => w <> []) W -> Forall (fun w : str => w <> []) W' -> Forall (fun u : str => u <> []) U ->
  labels_loop W U 0 = Ok la -> labels_loop W' U 0 = Ok lb -> length la = length lb ->
  (ari la lb == 1)%Q -> W = W'.
Proof.
  intros W W' U la lb HW HW' HU Ha Hb Hlen Hari.
  destruct (labels_loop_spec W U 0 la HW HU Ha) as (ns & _ & Hn & Hla & _ & HWn).
  destruct (labels_loop_spec W' U 0 lb HW' HU Hb) as (ms & _ & Hm & Hlb & _ & HWm).
  rewrite <- HWn, <- HWm. subst la lb.
  rewrite !blocks_length in Hlen.
  assert (E : ns = ms); [|rewrite E; reflexivity].
  apply blocks_same_partition_eq; try assumption.
  apply no_disagreement_iff_same_partition; [rewrite !blocks_length; exact Hlen|].
  apply ari_one_iff_no_disagreement in Hari. exact Hari.
Qed.

(* ====================================================================== *)
(* split_ws / despace                                                      *)
(* ====================================================================== *)

Definition nows (s : str) : str := filter (fun c => negb (is_space c)) s.

Lemma split_ws_go_nonempty : forall s acc,
  Forall (fun t : str => t <> []) (split_ws_go s acc).
Proof.
  assert (Hrev : forall (c : char) acc, rev (c :: acc) <> []).
  { intros c acc H. cbn [rev] in H. apply app_eq_nil in H as [_ H]. discriminate. }
  induction s as [|c s IH]; intros acc; cbn [split_ws_go].
  - destruct acc as [|a acc]; constructor; [apply Hrev|constructor].
  - destruct (is_space c).
    + destruct acc as [|a acc]; [apply IH|]. constructor; [apply Hrev|apply IH].
    + apply IH.
Qed.

Lemma split_ws_nonempty s : Forall (fun t : str => t <> []) (split_ws s).
Proof. apply split_ws_go_nonempty. Qed.

Lemma split_ws_go_concat : forall s acc,
  concat (split_ws_go s acc) = rev acc ++ nows s.
Proof.
  induction s as [|c s IH]; intros acc; cbn [split_ws_go nows filter].
  - destruct acc as [|a acc]; [reflexivity|]. cbn [concat]. reflexivity.
  - destruct (is_space c); cbn [negb].
    + destruct acc as [|a acc].
      * rewrite IH. reflexivity.
      * cbn [concat]. rewrite IH. reflexivity.
    + rewrite IH. cbn [rev]. rewrite <- app_assoc. reflexivity.
Qed.

(* concat (s.split()) is s with every whitespace character removed *)
Lemma split_ws_concat s : concat (split_ws s) = nows s.
Proof. unfold split_ws. rewrite split_ws_go_concat. reflexivity. Qed.

Lemma nows_despace s : nows (despace s) = nows s.
Proof.
  unfold nows, despace. induction s as [|c s IH]; [reflexivity|].
  cbn [filter]. destruct (N.eqb_spec c sp) as [->|Hc]; cbn [negb].
  - change (is_space sp) with true. cbn [negb]. exact IH.
  - cbn [filter]. rewrite IH. reflexivity.
Qed.

Lemma flat_split_nonempty l : Forall (fun t : str => t <> []) (flat_map split_ws l).
Proof.
  apply Forall_forall. intros t Ht. apply in_flat_map in Ht as (s & _ & Ht).
  pose proof (split_ws_nonempty s) as H. rewrite Forall_forall in H. apply H. exact Ht.
Qed.

Lemma consistent_concat : forall ws us, length ws = length us ->
  forallb (fun p => str_eqb (despace (fst p)) (despace (snd p))) (combine ws us) = true ->
  concat (flat_map split_ws ws) = concat (flat_map split_ws us).
Proof.
  induction ws as [|w ws IH]; intros [|u us] Hlen H; cbn [length] in Hlen; try discriminate.
  - reflexivity.
  - cbn [combine forallb fst snd] in H. apply andb_true_iff in H as [H1 H2].
    apply str_eqb_eq in H1.
    cbn [flat_map]. rewrite !concat_app, !split_ws_concat, (IH us) by (lia || exact H2).
    rewrite <- (nows_despace w), <- (nows_despace u), H1. reflexivity.
Qed.

(* after the consistency test the loop consumes every unit: no padding *)
Lemma labels_loop_consumes_all : forall W U l,
  Forall (fun w : str => w <> []) W -> Forall (fun u : str => u <> []) U ->
  concat W = concat U -> labels_loop W U 0 = Ok l -> length l = length U.
Proof.
  intros W U l HW HU Hc H.
  destruct (labels_loop_spec W U 0 l HW HU H) as (ns & _ & _ & -> & Hs & HWn).
  rewrite blocks_length.
  assert (Hc' : concat (firstn (list_sum ns) U) = concat U).
  { rewrite <- Hc, <- HWn. symmetry. apply concat_chunks. }
  clear Hc. rename Hc' into Hc.
  rewrite <- (firstn_skipn (list_sum ns) U) in Hc at 2.
  rewrite concat_app in Hc.
  rewrite <- (app_nil_r (concat (firstn (list_sum ns) U))) in Hc at 1.
  apply app_inv_head in Hc. symmetry in Hc.
  apply concat_nonempty_nil in Hc; [|apply Forall_skipn_ws; exact HU].
  apply (f_equal (@length _)) in Hc. rewrite skipn_length in Hc. cbn [length] in Hc. lia.
Qed.

Lemma class_labels_inv : forall ws us l,
  compute_class_labels ws us = Ok l ->
  labels_loop (flat_map split_ws ws) (flat_map split_ws us) 0 = Ok l /\
  length l = length (flat_map split_ws us).
Proof.
  intros ws us l H. unfold compute_class_labels in H.
  destruct (Nat.eqb_spec (length ws) (length us)) as [Hlen|Hlen]; cbn [negb] in H;
    [|discriminate].
  destruct (forallb _ (combine ws us)) eqn:Hf; cbn [negb] in H; [|discriminate].
  destruct (labels_loop (flat_map split_ws ws) (flat_map split_ws us) 0) as [l0|e] eqn:E;
    cbn [bind] in H; [|discriminate].
  injection H as <-.
  assert (Hl : length l0 = length (flat_map split_ws us)).
  { eapply labels_loop_consumes_all; [apply flat_split_nonempty|apply flat_split_nonempty| |exact E].
    apply consistent_concat; assumption. }
  rewrite Hl, Nat.sub_diag. cbn [repeat]. rewrite app_nil_r. split; [reflexivity|exact Hl].
Qed.

(* T6: the same at the level of compute_class_labels (what evaluate calls) *)
Theorem class_labels_ari_one_identical : forall ws ws' us la lb,
  compute_class_labels ws us = Ok la -> compute_class_labels ws' us = Ok lb ->
  (ari la lb == 1)%Q -> flat_map split_ws ws = flat_map split_ws ws'.
Proof.
  intros ws ws' us la lb Ha Hb Hari.
  apply class_labels_inv in Ha as [Ha Hla]. apply class_labels_inv in Hb as [Hb Hlb].
  eapply ari_one_only_identical_loop; try apply flat_split_nonempty;
    [exact Ha|exact Hb|congruence|exact Hari].
Qed.

(* T7: on accepted input there is exactly one label per unit *)
Theorem class_labels_length : forall ws us l,
  compute_class_labels ws us = Ok l -> length l = length (flat_map split_ws us).
Proof. intros ws us l H. apply class_labels_inv in H as [_ H]. exact H. Qed.

Print Assumptions labels_loop_spec.
Print Assumptions labels_loop_complete.
Print Assumptions no_disagreement_iff_same_partition.
Print Assumptions blocks_same_partition_eq.
Print Assumptions ari_one_only_identical_loop.
Print Assumptions class_labels_ari_one_identical.
Print Assumptions class_labels_length.
