(* Model of wordseg/evaluate.py: read_data, the four evaluators, evaluate(),
   compute_class_labels, adjusted Rand index (sklearn's pair-confusion
   formula), SegmentationSummary / summary(). Scores are exact rationals. *)
From WS Require Import Base.Py Base.Str Base.Counter.
From Coq Require Import QArith.
Local Open Scope nat_scope.

Definition nonempty (s : str) : bool := match s with [] => false | _ => true end.

(* Separator(None, None, ' ').tokenize(utt, 'word') *)
Definition tokens (utt : str) : list str :=
  filter nonempty (map strip (filter nonempty (split_on [sp] utt))).

(* (start, stop) of each word by cumulative length *)
Fixpoint spans_from (idx : nat) (ws : list str) : list (nat * nat) :=
  match ws with
  | [] => []
  | w :: r => (idx, idx + length w) :: spans_from (idx + length w) r
  end.
Definition spans (ws : list str) : list (nat * nat) := spans_from 0 ws.

Definition span_eqb (a b : nat * nat) : bool :=
  Nat.eqb (fst a) (fst b) && Nat.eqb (snd a) (snd b).

Fixpoint mem {A} (eqb : A -> A -> bool) (x : A) (l : list A) : bool :=
  match l with [] => false | y :: r => eqb x y || mem eqb x r end.

Fixpoint dedup {A} (eqb : A -> A -> bool) (l : list A) : list A :=
  match l with
  | [] => []
  | x :: r => if mem eqb x r then dedup eqb r else x :: dedup eqb r
  end.
(* a Python set built from a list: as a duplicate-free list (order irrelevant
   for everything computed from it here) *)
Definition set_of {A} (eqb : A -> A -> bool) (l : list A) : list A := rev (dedup eqb (rev l)).

Definition inter_size {A} (eqb : A -> A -> bool) (a b : list A) : nat :=
  length (filter (fun x => mem eqb x b) a).

Record rd := { rd_words : list str; rd_pos : list (list (nat * nat)); rd_lex : list str }.

Definition nonblank (utt : str) : bool := nonempty (strip utt).

Definition read_data (text : list str) : rd :=
  let utts := filter nonblank text in
  {| rd_words := map despace utts;
     rd_pos := map (fun u => set_of span_eqb (spans (tokens u))) utts;
     rd_lex := set_of str_eqb (flat_map tokens utts) |}.

Record counts := { c_test : nat; c_gold : nat; c_correct : nat }.

Definition ratio (a b : nat) : option Q :=
  match b with O => None | _ => Some (inject_Z (Z.of_nat a) / inject_Z (Z.of_nat b))%Q end.
Definition precision (c : counts) := ratio (c_correct c) (c_test c).
Definition recall (c : counts) := ratio (c_correct c) (c_gold c).
Definition fscore (c : counts) := ratio (2 * c_correct c) (c_test c + c_gold c).

(* TokenEvaluation.update_lists on lists of sets *)
Fixpoint update_lists {A} (eqb : A -> A -> bool) (test gold : list (list A)) (c : counts) : counts :=
  match test, gold with
  | t :: tr, g :: gr =>
    update_lists eqb tr gr
      {| c_test := c_test c + length t; c_gold := c_gold c + length g;
         c_correct := c_correct c + inter_size eqb t g |}
  | _, _ => c
  end.
Definition zero := {| c_test := 0; c_gold := 0; c_correct := 0 |}.

Definition token_counts (tp gp : list (list (nat * nat))) : counts :=
  update_lists span_eqb tp gp zero.

Definition bnd_all (line : list (nat * nat)) : list nat :=
  set_of Nat.eqb (flat_map (fun p => [fst p; snd p]) line).
Definition bnd_noedge (line : list (nat * nat)) : list nat :=
  set_of Nat.eqb (map fst (filter (fun p => 0 <? fst p) line)).

Definition boundary_counts (tp gp : list (list (nat * nat))) : counts :=
  update_lists Nat.eqb (map bnd_all tp) (map bnd_all gp) zero.
Definition boundary_noedge_counts (tp gp : list (list (nat * nat))) : counts :=
  update_lists Nat.eqb (map bnd_noedge tp) (map bnd_noedge gp) zero.

(* TypeEvaluation.lexicon_check + update_lists; None is the placeholder *)
Definition ostr_eqb (a b : option str) : bool :=
  match a, b with
  | Some x, Some y => str_eqb x y
  | None, None => true
  | _, _ => false
  end.
Definition is_some {A} (o : option A) : bool := match o with Some _ => true | None => false end.

Definition lexicon_check (textlex goldlex : list str) : list (option str) * list (option str) :=
  let tl1 := map (@Some str) textlex in
  let gl1 := map (fun w => if mem str_eqb w goldlex then Some w else None) textlex in
  fold_left (fun tg w =>
               if mem ostr_eqb (Some w) (snd tg) then tg
               else (fst tg ++ [None], snd tg ++ [Some w]))
            goldlex (tl1, gl1).

Definition type_counts (textlex goldlex : list str) : counts :=
  let tg := lexicon_check textlex goldlex in
  {| c_test := length (filter is_some (fst tg));
     c_gold := length (filter is_some (snd tg));
     c_correct := length (filter (fun p => is_some (fst p) && ostr_eqb (fst p) (snd p))
                                 (combine (fst tg) (snd tg))) |}.

(* ---------- class labels and the adjusted Rand index ---------- *)

Fixpoint word_len (fuel : nat) (word w : str) (units : list str) (index : nat) : result nat :=
  if str_eqb w word then Ok index
  else match fuel with
       | O => Raise OutOfFuel
       | S f => match units with
                | [] => Raise IndexError
                | u :: r => word_len f word (w ++ u) r (S index)
                end
       end.

Fixpoint labels_loop (words units : list str) (class_id : nat) : result (list nat) :=
  match words with
  | [] => Ok []
  | word :: wr =>
    match word_len (S (length units)) word [] units 0 with
    | Ok n => do rest <- labels_loop wr (skipn n units) (S class_id);
              Ok (repeat class_id n ++ rest)
    | Raise IndexError => Raise ValueError
    | Raise e => Raise e
    end
  end.

Definition compute_class_labels (words units : list str) : result (list nat) :=
  if negb (Nat.eqb (length words) (length units)) then Raise ValueError
  else if negb (forallb (fun p => str_eqb (despace (fst p)) (despace (snd p))) (combine words units))
  then Raise ValueError
  else
    let W := flat_map split_ws words in
    let U := flat_map split_ws units in
    do l <- labels_loop W U 0;
    Ok (l ++ repeat 0 (length U - length l)).

(* ordered pairs (i <> j) classified by "same class in a" / "same class in b" *)
Record pairs := { p_tp : nat; p_fp : nat; p_fn : nat; p_tn : nat }.

Fixpoint count_pairs_one (x y : nat) (a b : list nat) (acc : pairs) : pairs :=
  match a, b with
  | x' :: a', y' :: b' =>
    let sa := Nat.eqb x x' in let sb := Nat.eqb y y' in
    count_pairs_one x y a' b'
      (if sa then (if sb then {| p_tp := p_tp acc + 2; p_fp := p_fp acc; p_fn := p_fn acc; p_tn := p_tn acc |}
                   else {| p_tp := p_tp acc; p_fp := p_fp acc; p_fn := p_fn acc + 2; p_tn := p_tn acc |})
       else (if sb then {| p_tp := p_tp acc; p_fp := p_fp acc + 2; p_fn := p_fn acc; p_tn := p_tn acc |}
             else {| p_tp := p_tp acc; p_fp := p_fp acc; p_fn := p_fn acc; p_tn := p_tn acc + 2 |}))
  | _, _ => acc
  end.

(* a = labels_true, b = labels_pred *)
Fixpoint count_pairs (a b : list nat) (acc : pairs) : pairs :=
  match a, b with
  | x :: a', y :: b' => count_pairs a' b' (count_pairs_one x y a' b' acc)
  | _, _ => acc
  end.

Definition zN (n : nat) : Z := Z.of_nat n.

Definition ari (ltrue lpred : list nat) : Q :=
  let p := count_pairs ltrue lpred {| p_tp := 0; p_fp := 0; p_fn := 0; p_tn := 0 |} in
  if Nat.eqb (p_fn p) 0 && Nat.eqb (p_fp p) 0 then 1%Q
  else
    let tp := zN (p_tp p) in let fp := zN (p_fp p) in let fn := zN (p_fn p) in let tn := zN (p_tn p) in
    (inject_Z (2 * (tp * tn - fn * fp)) / inject_Z ((tp + fn) * (fn + tn) + (tp + fp) * (fp + tn)))%Q.

(* ---------- evaluate ---------- *)

Record scores := {
  s_token : counts; s_type : counts; s_ball : counts; s_bnoedge : counts;
  s_ari : option Q }.

Definition evaluate (text gold : list str) (units : option (list str)) : result scores :=
  let t := read_data text in
  let g := read_data gold in
  if negb (Nat.eqb (length (rd_words g)) (length (rd_words t))) then Raise ValueError
  else if negb (forallb (fun p => str_eqb (fst p) (snd p)) (combine (rd_words g) (rd_words t)))
  then Raise ValueError
  else
    let base := {| s_token := token_counts (rd_pos t) (rd_pos g);
                   s_type := type_counts (rd_lex t) (rd_lex g);
                   s_ball := boundary_counts (rd_pos t) (rd_pos g);
                   s_bnoedge := boundary_noedge_counts (rd_pos t) (rd_pos g);
                   s_ari := None |} in
    match units with
    | None => Ok base
    | Some us0 =>                              (* `if units is not None:` (fix f716c25; was `if units:`) *)
      let text := filter nonblank text in
      let gold := filter nonblank gold in
      let us := filter nonblank us0 in
      do lt <- compute_class_labels text us;
      do lg <- compute_class_labels gold us;
      Ok {| s_token := s_token base; s_type := s_type base; s_ball := s_ball base;
            s_bnoedge := s_bnoedge base;
            s_ari := match lg with [] => None | _ => Some (ari lg lt) end |}   (* no unit at all: no index *)
    end.

(* ---------- error summary ---------- *)

Inductive cat := Correct | Under | Over | Mis.

Definition classify (text gold : list str) : cat :=
  let lg := length gold in let lt := length text in
  if Nat.eqb lg lt then (if Nat.eqb lg 1 then Correct else Mis)
  else if lg <? lt then (if Nat.eqb lg 1 then Over else Mis)
  else (if Nat.eqb lt 1 then Under else Mis).

(* the while loop of _compute_chunk; lengths of the concatenations suffice *)
Fixpoint chunk_loop (fuel : nat) (text gold : list str) (ti gi : nat) (tl gl : nat)
  : result (nat * nat) :=
  if Nat.eqb gl tl then Ok (ti, gi)
  else match fuel with
       | O => Raise OutOfFuel
       | S f =>
         if gl <? tl
         then match nth_error gold (S gi) with
              | None => Raise IndexError
              | Some w => chunk_loop f text gold ti (S gi) tl (gl + length w)
              end
         else match nth_error text (S ti) with
              | None => Raise IndexError
              | Some w => chunk_loop f text gold (S ti) gi (tl + length w) gl
              end
       end.

Definition compute_chunk (text gold : list str) : result (list str * list str) :=
  match text, gold with
  | t0 :: _, g0 :: _ =>
    if negb (str_eqb (concat gold) (concat text)) then Raise ValueError
    else if str_eqb g0 t0 then Ok ([t0], [g0])
    else do ij <- chunk_loop (length text + length gold) text gold 0 0 (length t0) (length g0);
         Ok (firstn (S (fst ij)) text, firstn (S (snd ij)) gold)
  | _, _ => Raise ValueError
  end.

Fixpoint boundary_chunks (fuel : nat) (text gold : list str) : result (list (list str * list str)) :=
  match text, gold with
  | [], [] => Ok []
  | [], _ :: _ => Raise AssertionError
  | _ :: _, [] => Raise AssertionError
  | _, _ =>
    match fuel with
    | O => Raise OutOfFuel
    | S f =>
      do ch <- compute_chunk text gold;
      do rest <- boundary_chunks f (skipn (length (fst ch)) text) (skipn (length (snd ch)) gold);
      Ok (ch :: rest)
    end
  end.

Record summ := { sm_correct : counter str; sm_under : counter str;
                 sm_over : counter str; sm_mis : counter str }.

Definition bump (s : summ) (c : cat) (w : str) : summ :=
  match c with
  | Correct => {| sm_correct := cadd str_eqb (sm_correct s) w 1; sm_under := sm_under s; sm_over := sm_over s; sm_mis := sm_mis s |}
  | Under => {| sm_correct := sm_correct s; sm_under := cadd str_eqb (sm_under s) w 1; sm_over := sm_over s; sm_mis := sm_mis s |}
  | Over => {| sm_correct := sm_correct s; sm_under := sm_under s; sm_over := cadd str_eqb (sm_over s) w 1; sm_mis := sm_mis s |}
  | Mis => {| sm_correct := sm_correct s; sm_under := sm_under s; sm_over := sm_over s; sm_mis := cadd str_eqb (sm_mis s) w 1 |}
  end.

Definition list_eqb (a b : list str) : bool :=
  Nat.eqb (length a) (length b) && forallb (fun p => str_eqb (fst p) (snd p)) (combine a b).

Definition summarize_utterance (s : summ) (text gold : str) : result summ :=
  if negb (str_eqb (despace gold) (despace text)) then Raise ValueError
  else
    let gw := tokens gold in let tw := tokens text in
    if list_eqb gw tw then Ok (fold_left (fun s w => bump s Correct w) gw s)
    else
      do chunks <- boundary_chunks (S (length tw + length gw)) tw gw;
      Ok (fold_left (fun s ch => fold_left (fun s w => bump s (classify (fst ch) (snd ch)) w) (snd ch) s)
                    chunks s).

Fixpoint summarize_all (s : summ) (text gold : list str) : result summ :=
  match text, gold with
  | t :: tr, g :: gr => do s' <- summarize_utterance s t g; summarize_all s' tr gr
  | _, _ => Ok s
  end.

(* sorted(items, key=(-count, word)) *)
Fixpoint str_ltb (a b : str) : bool :=
  match a, b with
  | [], [] => false
  | [], _ :: _ => true
  | _ :: _, [] => false
  | x :: a', y :: b' => if (x <? y)%N then true else if (y <? x)%N then false else str_ltb a' b'
  end.

Definition item_leb (a b : str * Z) : bool :=
  if (snd b <? snd a)%Z then true
  else if (snd a <? snd b)%Z then false
  else negb (str_ltb (fst b) (fst a)).

Fixpoint insert_sorted (x : str * Z) (l : list (str * Z)) : list (str * Z) :=
  match l with
  | [] => [x]
  | y :: r => if item_leb x y then x :: l else y :: insert_sorted x r
  end.
Definition sort_items (l : list (str * Z)) : list (str * Z) := fold_right insert_sorted [] l.

Definition summary (text gold : list str) : result (list (list (str * Z))) :=
  if negb (Nat.eqb (length gold) (length text)) then Raise ValueError
  else
    do s <- summarize_all {| sm_correct := []; sm_under := []; sm_over := []; sm_mis := [] |} text gold;
    (* order of the export: over, under, mis, correct *)
    Ok [sort_items (sm_over s); sort_items (sm_under s); sort_items (sm_mis s); sort_items (sm_correct s)].

(* ---------- wire ---------- *)

Definition j_Q (q : Q) : J := JL [JI (Qnum (Qred q)); JI (Zpos (Qden (Qred q)))].
Definition j_counts (c : counts) : J :=
  JL [j_nat (c_test c); j_nat (c_gold c); j_nat (c_correct c);
      j_option j_Q (precision c); j_option j_Q (recall c); j_option j_Q (fscore c)].
Definition j_scores (s : scores) : J :=
  JL [j_counts (s_token s); j_counts (s_type s); j_counts (s_ball s); j_counts (s_bnoedge s);
      j_option j_Q (s_ari s)].

Definition run_evaluate (j : J) : J :=
  match j with
  | JL [t; g; u] =>
    match d_list d_str t, d_list d_str g, d_option (d_list d_str) u with
    | Some t, Some g, Some u => j_result j_scores (evaluate t g u)
    | _, _, _ => j_bad end
  | _ => j_bad end.

Definition run_class_labels (j : J) : J :=
  match j with
  | JL [w; u] =>
    match d_list d_str w, d_list d_str u with
    | Some w, Some u => j_result (j_list j_nat) (compute_class_labels w u)
    | _, _ => j_bad end
  | _ => j_bad end.

Definition run_summary (j : J) : J :=
  match j with
  | JL [t; g] =>
    match d_list d_str t, d_list d_str g with
    | Some t, Some g =>
      j_result (j_list (j_list (j_pair j_str JI))) (summary t g)
    | _, _ => j_bad end
  | _ => j_bad end.
