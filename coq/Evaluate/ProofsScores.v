From WS Require Import Base.Py Base.Str Base.Counter Evaluate.Model.
From Coq Require Import QArith Lia Permutation.
Local Open Scope nat_scope.

(* ====================================================================== *)
(* A. Consistency / rejection (C06)                                        *)
(* ====================================================================== *)

Definition consistent (text gold : list str) : Prop :=
  let t := filter nonblank text in let g := filter nonblank gold in
  length t = length g /\ Forall2 (fun a b => despace a = despace b) t g.

Lemma filter_idem {A} (f : A -> bool) (l : list A) : filter f (filter f l) = filter f l.
Proof.
  induction l as [|x l IH]; [reflexivity|].
  cbn [filter]. destruct (f x) eqn:E; [|exact IH].
  cbn [filter]. rewrite E, IH. reflexivity.
Qed.

Lemma read_data_filter l : read_data (filter nonblank l) = read_data l.
Proof. unfold read_data. rewrite filter_idem. reflexivity. Qed.

Lemma forallb_words_Forall2 (t g : list str) :
  length t = length g ->
  (forallb (fun p => str_eqb (fst p) (snd p)) (combine (map despace g) (map despace t)) = true
   <-> Forall2 (fun a b => despace a = despace b) t g).
Proof.
  revert g; induction t as [|a t IH]; intros [|b g] Hlen; cbn [length] in Hlen; try discriminate.
  - cbn. split; [constructor|reflexivity].
  - cbn [map combine forallb fst snd]. rewrite Bool.andb_true_iff, str_eqb_eq.
    rewrite (IH g) by lia. split.
    + intros [H1 H2]. constructor; [symmetry; exact H1|exact H2].
    + intros H. inversion H; subst. split; [symmetry; assumption|assumption].
Qed.

Definition words_check (text gold : list str) : bool :=
  Nat.eqb (length (rd_words (read_data gold))) (length (rd_words (read_data text)))
  && forallb (fun p => str_eqb (fst p) (snd p))
             (combine (rd_words (read_data gold)) (rd_words (read_data text))).

Lemma words_check_consistent text gold : words_check text gold = true <-> consistent text gold.
Proof.
  unfold words_check, consistent. cbn [read_data rd_words].
  rewrite !map_length, Bool.andb_true_iff, Nat.eqb_eq. split.
  - intros [H1 H2]. split; [symmetry; exact H1|].
    apply forallb_words_Forall2; [symmetry; exact H1|exact H2].
  - intros [H1 H2]. split; [symmetry; exact H1|].
    apply forallb_words_Forall2; assumption.
Qed.

Definition base_scores (text gold : list str) : scores :=
  let t := read_data text in
  let g := read_data gold in
  {| s_token := token_counts (rd_pos t) (rd_pos g);
     s_type := type_counts (rd_lex t) (rd_lex g);
     s_ball := boundary_counts (rd_pos t) (rd_pos g);
     s_bnoedge := boundary_noedge_counts (rd_pos t) (rd_pos g);
     s_ari := None |}.

Lemma evaluate_None text gold :
  evaluate text gold None =
  if words_check text gold then Ok (base_scores text gold) else Raise ValueError.
Proof.
  unfold evaluate, words_check, base_scores.
  destruct (Nat.eqb _ _); cbn [negb andb]; [|reflexivity].
  destruct (forallb _ _); reflexivity.
Qed.

Theorem evaluate_rejects_iff : forall text gold,
  (consistent text gold -> exists s, evaluate text gold None = Ok s) /\
  (~ consistent text gold -> evaluate text gold None = Raise ValueError).
Proof.
  intros text gold. rewrite evaluate_None.
  pose proof (words_check_consistent text gold) as H.
  destruct (words_check text gold).
  - split; [intros _; eexists; reflexivity|].
    intros Hn. exfalso. apply Hn, H. reflexivity.
  - split; [|reflexivity].
    intros Hc. apply H in Hc. discriminate.
Qed.

(* Since fix f716c25 (`if units is not None:`) the units text is treated like
   the two other texts: blank lines are dropped from all three, whatever they
   are.  (Before the fix the statement was false for a non-empty units text
   made of blank lines only.) *)
Theorem evaluate_blank_lines_ignored : forall text gold u,
  evaluate text gold u
  = evaluate (filter nonblank text) (filter nonblank gold) (option_map (filter nonblank) u).
Proof.
  intros text gold u.
  unfold evaluate. rewrite !read_data_filter, !filter_idem.
  destruct (negb (Nat.eqb _ _)); [reflexivity|].
  destruct (negb (forallb _ _)); [reflexivity|].
  destruct u as [us|]; [|reflexivity].
  cbn [option_map]. rewrite filter_idem. reflexivity.
Qed.

(* the former counterexample inputs now satisfy the equation *)
Example evaluate_blank_lines_ignored_former_counterexample_1 :
  evaluate [] [] (Some [[]])
  = evaluate (filter nonblank []) (filter nonblank []) (option_map (filter nonblank) (Some [[]])).
Proof. vm_compute. reflexivity. Qed.

Example evaluate_blank_lines_ignored_former_counterexample_2 :
  evaluate [[97%N]] [[97%N]] (Some [[32%N]])
  = evaluate (filter nonblank [[97%N]]) (filter nonblank [[97%N]])
             (option_map (filter nonblank) (Some [[32%N]])).
Proof. vm_compute. reflexivity. Qed.

Corollary evaluate_blank_lines_ignored_partial : forall text gold u,
  (u = None \/ exists us, u = Some us /\ (filter nonblank us <> [] \/ us = [])) ->
  evaluate text gold u
  = evaluate (filter nonblank text) (filter nonblank gold) (option_map (filter nonblank) u).
Proof. intros text gold u _. apply evaluate_blank_lines_ignored. Qed.

(* the two special cases *)
Corollary evaluate_blank_lines_ignored_None : forall text gold,
  evaluate text gold None = evaluate (filter nonblank text) (filter nonblank gold) None.
Proof. intros. exact (evaluate_blank_lines_ignored text gold None). Qed.

Corollary evaluate_blank_lines_ignored_Some_nil : forall text gold,
  evaluate text gold (Some []) = evaluate (filter nonblank text) (filter nonblank gold) (Some []).
Proof. intros. exact (evaluate_blank_lines_ignored text gold (Some [])). Qed.

(* A units text whose number of non-blank lines differs from the text's is
   refused -- also the empty one (the repaired defect: `if units:` used to skip
   an empty units text silently). *)
Theorem evaluate_units_count_mismatch : forall text gold us,
  length (filter nonblank us) <> length (filter nonblank text) ->
  evaluate text gold (Some us) = Raise ValueError.
Proof.
  intros text gold us Hne. unfold evaluate.
  destruct (negb (Nat.eqb _ _)); [reflexivity|].
  destruct (negb (forallb _ _)); [reflexivity|].
  unfold compute_class_labels at 1.
  destruct (Nat.eqb_spec (length (filter nonblank text)) (length (filter nonblank us))) as [E|_];
    [exfalso; apply Hne; symmetry; exact E|].
  reflexivity.
Qed.

(* "a b" / "ab" / no unit line *)
Example evaluate_empty_units_refused :
  evaluate [[97%N; 32%N; 98%N]] [[97%N; 98%N]] (Some []) = Raise ValueError.
Proof. vm_compute. reflexivity. Qed.

Lemma word_len_raises : forall fuel word w units index e,
  word_len fuel word w units index = Raise e -> e = IndexError \/ e = OutOfFuel.
Proof.
  induction fuel as [|f IH]; intros word w units index e H; cbn [word_len] in H.
  - destruct (str_eqb w word); [discriminate|]. right; congruence.
  - destruct (str_eqb w word); [discriminate|].
    destruct units as [|u r]; [left; congruence|].
    eapply IH; exact H.
Qed.

Theorem word_len_no_fuel_out : forall word units w index fuel,
  length units < fuel -> word_len fuel word w units index <> Raise OutOfFuel.
Proof.
  intros word units w index fuel; revert units w index.
  induction fuel as [|f IH]; intros units w index Hlt; [lia|].
  cbn [word_len]. destruct (str_eqb w word); [discriminate|].
  destruct units as [|u r]; [discriminate|].
  apply IH. cbn [length] in Hlt. lia.
Qed.

Lemma labels_loop_only_value_error : forall words units cid e,
  labels_loop words units cid = Raise e -> e = ValueError.
Proof.
  induction words as [|word wr IH]; intros units cid e H; cbn [labels_loop] in H; [discriminate|].
  destruct (word_len (S (length units)) word [] units 0) as [n|e'] eqn:E.
  - destruct (labels_loop wr (skipn n units) (S cid)) as [rest|e''] eqn:E2; cbn [bind] in H;
      [discriminate|].
    injection H as <-. eapply IH; exact E2.
  - pose proof (word_len_raises _ _ _ _ _ _ E) as [->| ->].
    + congruence.
    + exfalso. revert E. apply word_len_no_fuel_out. lia.
Qed.

Theorem class_labels_only_value_error : forall words units e,
  compute_class_labels words units = Raise e -> e = ValueError.
Proof.
  intros words units e H. unfold compute_class_labels in H.
  destruct (negb (Nat.eqb _ _)); [congruence|].
  destruct (negb (forallb _ _)); [congruence|].
  destruct (labels_loop _ _ 0) as [l|e'] eqn:E; cbn [bind] in H; [discriminate|].
  injection H as <-. eapply labels_loop_only_value_error; exact E.
Qed.

Theorem evaluate_only_value_error : forall text gold u e,
  evaluate text gold u = Raise e -> e = ValueError.
Proof.
  intros text gold u e H. unfold evaluate in H.
  destruct (negb (Nat.eqb _ _)); [congruence|].
  destruct (negb (forallb _ _)); [congruence|].
  destruct u as [us|]; [|discriminate].
  destruct (compute_class_labels (filter nonblank text) _) as [lt|e1] eqn:E1; cbn [bind] in H.
  - destruct (compute_class_labels (filter nonblank gold) _) as [lg|e2] eqn:E2; cbn [bind] in H;
      [discriminate|].
    injection H as <-. eapply class_labels_only_value_error; exact E2.
  - injection H as <-. eapply class_labels_only_value_error; exact E1.
Qed.

(* ====================================================================== *)
(* B. Scores (C05)                                                         *)
(* ====================================================================== *)

Theorem ratio_none_iff : forall a b, ratio a b = None <-> b = 0.
Proof.
  intros a [|b]; cbn [ratio]; split; intros H; try reflexivity; discriminate.
Qed.

Theorem ratio_unit_interval : forall a b q,
  a <= b -> ratio a b = Some q -> (0 <= q /\ q <= 1)%Q.
Proof.
  intros a b q Hab H. destruct b as [|b]; [discriminate|].
  cbn [ratio] in H. injection H as <-.
  assert (Hpos : (0 < inject_Z (Z.of_nat (S b)))%Q).
  { change 0%Q with (inject_Z 0). rewrite <- Zlt_Qlt. lia. }
  split.
  - apply Qle_shift_div_l; [exact Hpos|].
    rewrite Qmult_0_l. change 0%Q with (inject_Z 0). rewrite <- Zle_Qle. lia.
  - apply Qle_shift_div_r; [exact Hpos|].
    rewrite Qmult_1_l. rewrite <- Zle_Qle. lia.
Qed.

Theorem scores_unit_interval : forall c,
  c_correct c <= c_test c -> c_correct c <= c_gold c ->
  (forall q, precision c = Some q -> (0 <= q /\ q <= 1)%Q) /\
  (forall q, recall c = Some q -> (0 <= q /\ q <= 1)%Q) /\
  (forall q, fscore c = Some q -> (0 <= q /\ q <= 1)%Q).
Proof.
  intros c Ht Hg. unfold precision, recall, fscore.
  split; [|split]; intros q Hq; (eapply ratio_unit_interval; [|exact Hq]); lia.
Qed.

(* ---------- finite sets as duplicate-free lists ---------- *)

Lemma span_eqb_spec a b : reflect (a = b) (span_eqb a b).
Proof.
  destruct a as [a1 a2], b as [b1 b2]. unfold span_eqb. cbn [fst snd].
  destruct (Nat.eqb_spec a1 b1) as [->|H1]; cbn [andb].
  - destruct (Nat.eqb_spec a2 b2) as [->|H2]; constructor; congruence.
  - constructor; congruence.
Qed.

Lemma nat_eqb_spec a b : reflect (a = b) (Nat.eqb a b).
Proof. apply Nat.eqb_spec. Qed.

Lemma filter_all {A} (f : A -> bool) (l : list A) :
  (forall x, In x l -> f x = true) -> filter f l = l.
Proof.
  induction l as [|x l IH]; intros H; [reflexivity|].
  cbn [filter]. rewrite (H x (or_introl eq_refl)). f_equal.
  apply IH. intros y Hy. apply H. right; exact Hy.
Qed.

Lemma filter_length_le {A} (f : A -> bool) (l : list A) : length (filter f l) <= length l.
Proof.
  induction l as [|x l IH]; [cbn; lia|].
  cbn [filter]. destruct (f x); cbn [length]; lia.
Qed.

Lemma filter_length_split {A} (f : A -> bool) (l : list A) :
  length (filter f l) + length (filter (fun x => negb (f x)) l) = length l.
Proof.
  induction l as [|x l IH]; [reflexivity|].
  cbn [filter]. destruct (f x); cbn [negb length]; lia.
Qed.

Section Sets.
Context {A : Type} (eqb : A -> A -> bool).
Hypothesis eqb_spec : forall a b, reflect (a = b) (eqb a b).

Lemma mem_In x l : mem eqb x l = true <-> In x l.
Proof.
  induction l as [|y l IH]; cbn [mem In]; [split; [discriminate|tauto]|].
  rewrite Bool.orb_true_iff, IH.
  destruct (eqb_spec x y) as [->|Hn]; split; intros H; auto.
  - destruct H as [H|H]; [discriminate|right; exact H].
  - destruct H as [H|H]; [congruence|right; exact H].
Qed.

Lemma mem_false_In x l : mem eqb x l = false <-> ~ In x l.
Proof.
  rewrite <- mem_In. destruct (mem eqb x l); split; intros H; congruence.
Qed.

Lemma dedup_In x l : In x (dedup eqb l) <-> In x l.
Proof.
  induction l as [|y l IH]; cbn [dedup In]; [tauto|].
  destruct (mem eqb y l) eqn:E.
  - rewrite IH. split; [tauto|]. intros [->|H]; [apply mem_In; exact E|exact H].
  - cbn [In]. rewrite IH. tauto.
Qed.

Lemma dedup_NoDup l : NoDup (dedup eqb l).
Proof.
  induction l as [|y l IH]; cbn [dedup]; [constructor|].
  destruct (mem eqb y l) eqn:E; [exact IH|].
  constructor; [|exact IH].
  rewrite dedup_In. apply mem_false_In. exact E.
Qed.

Lemma set_of_NoDup l : NoDup (set_of eqb l).
Proof. unfold set_of. apply NoDup_rev, dedup_NoDup. Qed.

Lemma set_of_In x l : In x (set_of eqb l) <-> In x l.
Proof. unfold set_of. rewrite <- In_rev, dedup_In, <- In_rev. tauto. Qed.

Lemma inter_size_le_l a b : inter_size eqb a b <= length a.
Proof. unfold inter_size. apply filter_length_le. Qed.

Lemma inter_filter_incl a b :
  incl (filter (fun x => mem eqb x b) a) (filter (fun x => mem eqb x a) b).
Proof.
  intros x Hx. apply filter_In in Hx as [Ha Hb].
  apply filter_In. split; [apply mem_In; exact Hb|apply mem_In; exact Ha].
Qed.

Lemma inter_size_le_r a b : NoDup a -> inter_size eqb a b <= length b.
Proof.
  intros Ha. unfold inter_size. apply NoDup_incl_length.
  - apply NoDup_filter; exact Ha.
  - intros x Hx. apply filter_In in Hx as [_ Hb]. apply mem_In; exact Hb.
Qed.

Lemma inter_size_comm a b : NoDup a -> NoDup b -> inter_size eqb a b = inter_size eqb b a.
Proof.
  intros Ha Hb. unfold inter_size. apply Nat.le_antisymm; apply NoDup_incl_length;
    try (apply NoDup_filter; assumption); apply inter_filter_incl.
Qed.

Lemma inter_size_self a : inter_size eqb a a = length a.
Proof.
  unfold inter_size. rewrite filter_all; [reflexivity|].
  intros x Hx. apply mem_In; exact Hx.
Qed.

(* ---------- update_lists ---------- *)

Definition swap (c : counts) : counts :=
  {| c_test := c_gold c; c_gold := c_test c; c_correct := c_correct c |}.

Theorem update_lists_bounds : forall (test gold : list (list A)) c0,
  Forall (@NoDup A) test -> Forall (@NoDup A) gold ->
  c_correct c0 <= c_test c0 -> c_correct c0 <= c_gold c0 ->
  let c := update_lists eqb test gold c0 in
  c_correct c <= c_test c /\ c_correct c <= c_gold c.
Proof.
  induction test as [|t tr IH]; intros gold c0 Ht Hg H1 H2; cbn zeta.
  - cbn [update_lists]. split; assumption.
  - destruct gold as [|g gr]; cbn [update_lists]; [split; assumption|].
    inversion Ht as [|? ? Ht1 Ht2]; subst. inversion Hg as [|? ? Hg1 Hg2]; subst.
    apply IH; try assumption; cbn [c_test c_gold c_correct].
    + pose proof (inter_size_le_l t g). lia.
    + pose proof (inter_size_le_r t g Ht1). lia.
Qed.

Theorem update_lists_swap : forall (test gold : list (list A)) c0,
  Forall (@NoDup A) test -> Forall (@NoDup A) gold ->
  update_lists eqb gold test (swap c0) = swap (update_lists eqb test gold c0).
Proof.
  induction test as [|t tr IH]; intros gold c0 Ht Hg.
  - destruct gold; reflexivity.
  - destruct gold as [|g gr]; [reflexivity|].
    inversion Ht as [|? ? Ht1 Ht2]; subst. inversion Hg as [|? ? Hg1 Hg2]; subst.
    cbn [update_lists]. rewrite <- (IH gr _ Ht2 Hg2).
    unfold swap at 2. cbn [c_test c_gold c_correct].
    rewrite (inter_size_comm g t Hg1 Ht1). reflexivity.
Qed.

Theorem update_lists_self : forall (t : list (list A)) c0,
  c_test c0 = c_gold c0 -> c_correct c0 = c_test c0 ->
  let c := update_lists eqb t t c0 in
  c_test c = c_gold c /\ c_correct c = c_test c.
Proof.
  induction t as [|x t IH]; intros c0 H1 H2; cbn zeta.
  - cbn [update_lists]. split; assumption.
  - cbn [update_lists]. apply IH; cbn [c_test c_gold c_correct].
    + lia.
    + rewrite inter_size_self. lia.
Qed.

End Sets.

Lemma swap_zero : swap zero = zero.
Proof. reflexivity. Qed.

(* ---------- token / boundary evaluations on read_data ---------- *)

Lemma rd_pos_NoDup text : Forall (@NoDup (nat * nat)) (rd_pos (read_data text)).
Proof.
  unfold read_data. cbn [rd_pos]. apply Forall_forall. intros s Hs.
  apply in_map_iff in Hs as [u [<- _]]. apply set_of_NoDup, span_eqb_spec.
Qed.

Lemma bnd_all_NoDup tp : Forall (@NoDup nat) (map bnd_all tp).
Proof.
  apply Forall_forall. intros s Hs. apply in_map_iff in Hs as [u [<- _]].
  apply set_of_NoDup, nat_eqb_spec.
Qed.

Lemma bnd_noedge_NoDup tp : Forall (@NoDup nat) (map bnd_noedge tp).
Proof.
  apply Forall_forall. intros s Hs. apply in_map_iff in Hs as [u [<- _]].
  apply set_of_NoDup, nat_eqb_spec.
Qed.

Theorem token_counts_bounds : forall text gold,
  let c := token_counts (rd_pos (read_data text)) (rd_pos (read_data gold)) in
  c_correct c <= c_test c /\ c_correct c <= c_gold c.
Proof.
  intros text gold. unfold token_counts.
  apply (update_lists_bounds span_eqb span_eqb_spec); try apply rd_pos_NoDup; cbn; lia.
Qed.

Theorem token_counts_swap : forall text gold,
  token_counts (rd_pos (read_data gold)) (rd_pos (read_data text))
  = swap (token_counts (rd_pos (read_data text)) (rd_pos (read_data gold))).
Proof.
  intros text gold. unfold token_counts. rewrite <- swap_zero at 1.
  apply (update_lists_swap span_eqb span_eqb_spec); apply rd_pos_NoDup.
Qed.

Theorem token_counts_self : forall text,
  let c := token_counts (rd_pos (read_data text)) (rd_pos (read_data text)) in
  c_test c = c_gold c /\ c_correct c = c_test c.
Proof.
  intros text. unfold token_counts.
  apply (update_lists_self span_eqb span_eqb_spec); reflexivity.
Qed.

(* boundary evaluations: the position lists may be arbitrary (bnd_all and
   bnd_noedge rebuild sets), so the general forms come first *)
Theorem boundary_counts_bounds_gen : forall tp gp,
  let c := boundary_counts tp gp in
  c_correct c <= c_test c /\ c_correct c <= c_gold c.
Proof.
  intros tp gp. unfold boundary_counts.
  apply (update_lists_bounds Nat.eqb nat_eqb_spec); try apply bnd_all_NoDup; cbn; lia.
Qed.

Theorem boundary_counts_swap_gen : forall tp gp,
  boundary_counts gp tp = swap (boundary_counts tp gp).
Proof.
  intros tp gp. unfold boundary_counts. rewrite <- swap_zero at 1.
  apply (update_lists_swap Nat.eqb nat_eqb_spec); apply bnd_all_NoDup.
Qed.

Theorem boundary_counts_self_gen : forall tp,
  let c := boundary_counts tp tp in
  c_test c = c_gold c /\ c_correct c = c_test c.
Proof.
  intros tp. unfold boundary_counts.
  apply (update_lists_self Nat.eqb nat_eqb_spec); reflexivity.
Qed.

Theorem boundary_noedge_counts_bounds_gen : forall tp gp,
  let c := boundary_noedge_counts tp gp in
  c_correct c <= c_test c /\ c_correct c <= c_gold c.
Proof.
  intros tp gp. unfold boundary_noedge_counts.
  apply (update_lists_bounds Nat.eqb nat_eqb_spec); try apply bnd_noedge_NoDup; cbn; lia.
Qed.

Theorem boundary_noedge_counts_swap_gen : forall tp gp,
  boundary_noedge_counts gp tp = swap (boundary_noedge_counts tp gp).
Proof.
  intros tp gp. unfold boundary_noedge_counts. rewrite <- swap_zero at 1.
  apply (update_lists_swap Nat.eqb nat_eqb_spec); apply bnd_noedge_NoDup.
Qed.

Theorem boundary_noedge_counts_self_gen : forall tp,
  let c := boundary_noedge_counts tp tp in
  c_test c = c_gold c /\ c_correct c = c_test c.
Proof.
  intros tp. unfold boundary_noedge_counts.
  apply (update_lists_self Nat.eqb nat_eqb_spec); reflexivity.
Qed.

Theorem boundary_counts_bounds : forall text gold,
  let c := boundary_counts (rd_pos (read_data text)) (rd_pos (read_data gold)) in
  c_correct c <= c_test c /\ c_correct c <= c_gold c.
Proof. intros. apply boundary_counts_bounds_gen. Qed.

Theorem boundary_counts_swap : forall text gold,
  boundary_counts (rd_pos (read_data gold)) (rd_pos (read_data text))
  = swap (boundary_counts (rd_pos (read_data text)) (rd_pos (read_data gold))).
Proof. intros. apply boundary_counts_swap_gen. Qed.

Theorem boundary_counts_self : forall text,
  let c := boundary_counts (rd_pos (read_data text)) (rd_pos (read_data text)) in
  c_test c = c_gold c /\ c_correct c = c_test c.
Proof. intros. apply boundary_counts_self_gen. Qed.

Theorem boundary_noedge_counts_bounds : forall text gold,
  let c := boundary_noedge_counts (rd_pos (read_data text)) (rd_pos (read_data gold)) in
  c_correct c <= c_test c /\ c_correct c <= c_gold c.
Proof. intros. apply boundary_noedge_counts_bounds_gen. Qed.

Theorem boundary_noedge_counts_swap : forall text gold,
  boundary_noedge_counts (rd_pos (read_data gold)) (rd_pos (read_data text))
  = swap (boundary_noedge_counts (rd_pos (read_data text)) (rd_pos (read_data gold))).
Proof. intros. apply boundary_noedge_counts_swap_gen. Qed.

Theorem boundary_noedge_counts_self : forall text,
  let c := boundary_noedge_counts (rd_pos (read_data text)) (rd_pos (read_data text)) in
  c_test c = c_gold c /\ c_correct c = c_test c.
Proof. intros. apply boundary_noedge_counts_self_gen. Qed.

(* ---------- type evaluation ---------- *)

Lemma ostr_eqb_spec a b : reflect (a = b) (ostr_eqb a b).
Proof.
  destruct a as [x|], b as [y|]; cbn [ostr_eqb]; try (constructor; congruence).
  destruct (str_eqb_spec x y); constructor; congruence.
Qed.

Definition lex_step (tg : list (option str) * list (option str)) (w : str) :=
  if mem ostr_eqb (Some w) (snd tg) then tg
  else (fst tg ++ [None], snd tg ++ [Some w]).

Definition lex_gold1 (goldlex : list str) (w : str) : option str :=
  if mem str_eqb w goldlex then Some w else None.

Definition correct_f (p : option str * option str) : bool :=
  is_some (fst p) && ostr_eqb (fst p) (snd p).

Lemma lexicon_check_unfold tl gl :
  lexicon_check tl gl = fold_left lex_step gl (map (@Some str) tl, map (lex_gold1 gl) tl).
Proof. reflexivity. Qed.

Lemma combine_app {X Y} (a a' : list X) (b b' : list Y) :
  length a = length b -> combine (a ++ a') (b ++ b') = combine a b ++ combine a' b'.
Proof.
  revert b; induction a as [|x a IH]; intros [|y b] H; cbn [length] in H; try discriminate.
  - reflexivity.
  - cbn [app combine]. f_equal. apply IH. lia.
Qed.

Lemma mem_app {X} (eqb : X -> X -> bool) x l1 l2 :
  mem eqb x (l1 ++ l2) = mem eqb x l1 || mem eqb x l2.
Proof.
  induction l1 as [|y l1 IH]; [reflexivity|].
  cbn [app mem]. rewrite IH, Bool.orb_assoc. reflexivity.
Qed.

Lemma filter_map_length {X Y} (p : Y -> bool) (g : X -> Y) (l : list X) :
  length (filter p (map g l)) = length (filter (fun x => p (g x)) l).
Proof.
  induction l as [|x l IH]; [reflexivity|].
  cbn [map filter]. destruct (p (g x)); cbn [length]; rewrite IH; reflexivity.
Qed.

Lemma lex_fold : forall l a b, NoDup l -> length a = length b ->
  let tg := fold_left lex_step l (a, b) in
  length (filter is_some (fst tg)) = length (filter is_some a) /\
  length (filter is_some (snd tg))
  = length (filter is_some b)
    + length (filter (fun w => negb (mem ostr_eqb (Some w) b)) l) /\
  length (filter correct_f (combine (fst tg) (snd tg)))
  = length (filter correct_f (combine a b)).
Proof.
  induction l as [|w l IH]; intros a b Hnd Hlen; cbn zeta.
  - cbn [fold_left fst snd filter length]. lia.
  - inversion Hnd as [|? ? Hw Hl]; subst.
    cbn [fold_left filter].
    assert (Hs : lex_step (a, b) w
                 = if mem ostr_eqb (Some w) b then (a, b) else (a ++ [None], b ++ [Some w]))
      by reflexivity.
    rewrite Hs. clear Hs.
    destruct (mem ostr_eqb (Some w) b) eqn:E; cbn [negb].
    + apply (IH a b Hl Hlen).
    + specialize (IH (a ++ [None]) (b ++ [Some w]) Hl).
      cbn zeta in IH. destruct IH as [I1 [I2 I3]].
      { rewrite !app_length. cbn [length]. lia. }
      rewrite I1, I2, I3.
      rewrite !filter_app, (combine_app a [None] b [Some w] Hlen), filter_app, !app_length.
      cbn [filter is_some combine correct_f fst snd andb length].
      assert (Hext : filter (fun w0 => negb (mem ostr_eqb (Some w0) (b ++ [Some w]))) l
                     = filter (fun w0 => negb (mem ostr_eqb (Some w0) b)) l).
      { apply filter_ext_in. intros w0 Hw0. rewrite mem_app. cbn [mem ostr_eqb].
        destruct (str_eqb_spec w0 w) as [->|Hne]; [contradiction|].
        rewrite !Bool.orb_false_r. reflexivity. }
      rewrite Hext. lia.
Qed.

Theorem type_counts_spec : forall tl gl, NoDup tl -> NoDup gl ->
  c_test (type_counts tl gl) = length tl /\ c_gold (type_counts tl gl) = length gl /\
  c_correct (type_counts tl gl) = inter_size str_eqb tl gl.
Proof.
  intros tl gl Htl Hgl. unfold type_counts. cbn [c_test c_gold c_correct].
  rewrite lexicon_check_unfold.
  pose proof (lex_fold gl (map (@Some str) tl) (map (lex_gold1 gl) tl) Hgl) as H.
  cbn zeta in H. destruct H as [H1 [H2 H3]]; [rewrite !map_length; reflexivity|].
  change (fun p : option str * option str => is_some (fst p) && ostr_eqb (fst p) (snd p))
    with correct_f.
  rewrite H1, H2, H3. clear H1 H2 H3.
  assert (Hg1 : length (filter is_some (map (lex_gold1 gl) tl)) = inter_size str_eqb tl gl).
  { rewrite filter_map_length. unfold inter_size. f_equal. apply filter_ext.
    intros w. unfold lex_gold1. destruct (mem str_eqb w gl); reflexivity. }
  split; [|split].
  - rewrite filter_map_length. cbn [is_some]. rewrite filter_all; auto.
  - rewrite Hg1.
    assert (Hext : filter (fun w => negb (mem ostr_eqb (Some w) (map (lex_gold1 gl) tl))) gl
                   = filter (fun w => negb (mem str_eqb w tl)) gl).
    { apply filter_ext_in. intros w Hw. f_equal.
      apply Bool.eq_true_iff_eq.
      rewrite (mem_In ostr_eqb ostr_eqb_spec), (mem_In str_eqb str_eqb_spec), in_map_iff.
      split.
      - intros [w' [Hw' Hin]]. unfold lex_gold1 in Hw'.
        destruct (mem str_eqb w' gl); [|discriminate]. congruence.
      - intros Hin. exists w. split; [|exact Hin]. unfold lex_gold1.
        apply (mem_In str_eqb str_eqb_spec) in Hw. rewrite Hw. reflexivity. }
    rewrite Hext.
    rewrite (inter_size_comm str_eqb str_eqb_spec tl gl Htl Hgl).
    unfold inter_size.
    apply (filter_length_split (fun w => mem str_eqb w tl) gl).
  - assert (Hc : combine (map (@Some str) tl) (map (lex_gold1 gl) tl)
                 = map (fun w => (Some w, lex_gold1 gl w)) tl).
    { clear. induction tl as [|w tl IH]; [reflexivity|]. cbn [map combine]. rewrite IH. reflexivity. }
    rewrite Hc, filter_map_length. unfold inter_size. f_equal. apply filter_ext.
    intros w. unfold correct_f, lex_gold1. cbn [fst snd is_some andb].
    destruct (mem str_eqb w gl); cbn [ostr_eqb]; [apply str_eqb_refl|reflexivity].
Qed.

Lemma counts_eq (a b : counts) :
  c_test a = c_test b -> c_gold a = c_gold b -> c_correct a = c_correct b -> a = b.
Proof.
  destruct a as [a1 a2 a3], b as [b1 b2 b3]; cbn [c_test c_gold c_correct].
  intros -> -> ->; reflexivity.
Qed.

Theorem type_counts_bounds : forall tl gl, NoDup tl -> NoDup gl ->
  let c := type_counts tl gl in
  c_correct c <= c_test c /\ c_correct c <= c_gold c.
Proof.
  intros tl gl Htl Hgl. cbn zeta.
  destruct (type_counts_spec tl gl Htl Hgl) as [-> [-> ->]]. split.
  - apply inter_size_le_l.
  - apply (inter_size_le_r str_eqb str_eqb_spec); exact Htl.
Qed.

Theorem type_counts_swap : forall tl gl, NoDup tl -> NoDup gl ->
  type_counts gl tl = swap (type_counts tl gl).
Proof.
  intros tl gl Htl Hgl.
  destruct (type_counts_spec tl gl Htl Hgl) as [H1 [H2 H3]].
  destruct (type_counts_spec gl tl Hgl Htl) as [K1 [K2 K3]].
  apply counts_eq; unfold swap; cbn [c_test c_gold c_correct].
  - congruence.
  - congruence.
  - rewrite K3, H3. apply (inter_size_comm str_eqb str_eqb_spec); assumption.
Qed.

Theorem type_counts_self : forall tl, NoDup tl ->
  let c := type_counts tl tl in
  c_test c = c_gold c /\ c_correct c = c_test c.
Proof.
  intros tl Htl. cbn zeta.
  destruct (type_counts_spec tl tl Htl Htl) as [-> [-> ->]].
  split; [reflexivity|]. apply (inter_size_self str_eqb str_eqb_spec).
Qed.

Lemma rd_lex_NoDup text : NoDup (rd_lex (read_data text)).
Proof. unfold read_data. cbn [rd_lex]. apply set_of_NoDup, str_eqb_spec. Qed.

(* the same three facts for the lexicons evaluate() actually passes *)
Corollary type_counts_bounds_rd : forall text gold,
  let c := type_counts (rd_lex (read_data text)) (rd_lex (read_data gold)) in
  c_correct c <= c_test c /\ c_correct c <= c_gold c.
Proof. intros. apply type_counts_bounds; apply rd_lex_NoDup. Qed.

Corollary type_counts_swap_rd : forall text gold,
  type_counts (rd_lex (read_data gold)) (rd_lex (read_data text))
  = swap (type_counts (rd_lex (read_data text)) (rd_lex (read_data gold))).
Proof. intros. apply type_counts_swap; apply rd_lex_NoDup. Qed.

Corollary type_counts_self_rd : forall text,
  let c := type_counts (rd_lex (read_data text)) (rd_lex (read_data text)) in
  c_test c = c_gold c /\ c_correct c = c_test c.
Proof. intros. apply type_counts_self; apply rd_lex_NoDup. Qed.

(* ---------- adjusted Rand index ---------- *)

Definition swap_pairs p := {| p_tp := p_tp p; p_fp := p_fn p; p_fn := p_fp p; p_tn := p_tn p |}.

Definition pairs0 := {| p_tp := 0; p_fp := 0; p_fn := 0; p_tn := 0 |}.

Lemma count_pairs_one_swap : forall a b x y acc,
  count_pairs_one y x b a (swap_pairs acc) = swap_pairs (count_pairs_one x y a b acc).
Proof.
  induction a as [|x' a IH]; intros b x y acc.
  - destruct b; reflexivity.
  - destruct b as [|y' b]; [reflexivity|].
    cbn [count_pairs_one]. rewrite <- IH.
    destruct (Nat.eqb x x'), (Nat.eqb y y'); reflexivity.
Qed.

Theorem count_pairs_swap : forall a b acc,
  count_pairs b a (swap_pairs acc) = swap_pairs (count_pairs a b acc).
Proof.
  induction a as [|x a IH]; intros b acc.
  - destruct b; reflexivity.
  - destruct b as [|y b]; [reflexivity|].
    cbn [count_pairs]. rewrite count_pairs_one_swap. apply IH.
Qed.

Theorem ari_symmetric : forall a b, ari a b = ari b a.
Proof.
  intros a b.
  assert (E : count_pairs b a pairs0 = swap_pairs (count_pairs a b pairs0))
    by exact (count_pairs_swap a b pairs0).
  unfold ari. fold pairs0. rewrite E.
  set (p := count_pairs a b pairs0).
  cbn [swap_pairs p_tp p_fp p_fn p_tn].
  rewrite (Bool.andb_comm (Nat.eqb (p_fp p) 0)).
  destruct (Nat.eqb (p_fn p) 0 && Nat.eqb (p_fp p) 0); [reflexivity|].
  f_equal; f_equal; ring.
Qed.

Corollary ari_symmetric_Qeq : forall a b, (ari a b == ari b a)%Q.
Proof. intros a b. rewrite (ari_symmetric a b). reflexivity. Qed.

Lemma count_pairs_one_self : forall a x acc,
  p_fn (count_pairs_one x x a a acc) = p_fn acc /\
  p_fp (count_pairs_one x x a a acc) = p_fp acc.
Proof.
  induction a as [|x' a IH]; intros x acc; [split; reflexivity|].
  cbn [count_pairs_one].
  destruct (Nat.eqb x x');
    match goal with |- context [count_pairs_one x x a a ?r] => destruct (IH x r) as [-> ->] end;
    split; reflexivity.
Qed.

Lemma count_pairs_self : forall a acc,
  p_fn (count_pairs a a acc) = p_fn acc /\ p_fp (count_pairs a a acc) = p_fp acc.
Proof.
  induction a as [|x a IH]; intros acc; [split; reflexivity|].
  cbn [count_pairs].
  destruct (IH (count_pairs_one x x a a acc)) as [-> ->].
  apply count_pairs_one_self.
Qed.

Theorem ari_self : forall a, ari a a = 1%Q.
Proof.
  intros a. unfold ari.
  destruct (count_pairs_self a {| p_tp := 0; p_fp := 0; p_fn := 0; p_tn := 0 |}) as [-> ->].
  reflexivity.
Qed.

Lemma Qdiv_inject_one n d : (inject_Z n / inject_Z d == 1)%Q -> d <> 0%Z /\ n = d.
Proof.
  unfold Qeq, Qdiv, Qmult, Qinv, inject_Z. destruct d; cbn; lia.
Qed.

Theorem ari_one_iff_no_disagreement : forall a b,
  let p := count_pairs a b {| p_tp := 0; p_fp := 0; p_fn := 0; p_tn := 0 |} in
  (ari a b == 1)%Q <-> (p_fn p = 0 /\ p_fp p = 0).
Proof.
  intros a b. cbn zeta. unfold ari.
  set (p := count_pairs a b {| p_tp := 0; p_fp := 0; p_fn := 0; p_tn := 0 |}).
  destruct (Nat.eqb_spec (p_fn p) 0) as [Hfn|Hfn]; cbn [andb].
  - destruct (Nat.eqb_spec (p_fp p) 0) as [Hfp|Hfp].
    + split; [intros _; split; assumption|intros _; reflexivity].
    + split; [|intros [_ H]; contradiction].
      intros H. exfalso. apply Qdiv_inject_one in H as [Hd Hn].
      unfold zN in *. nia.
  - split; [|intros [H _]; contradiction].
    intros H. exfalso. apply Qdiv_inject_one in H as [Hd Hn].
    unfold zN in *. nia.
Qed.
