(* Proofs about the "error summary" part of Evaluate/Model.v:
   classify, chunk_loop, compute_chunk, boundary_chunks, bump,
   summarize_utterance, summarize_all, sort_items. *)
From WS Require Import Base.Py Base.ListX Base.Str Base.Counter Base.CounterProofs Evaluate.Model.
From Coq Require Import Lia Permutation Sorting.Sorted.
Local Open Scope nat_scope.

Definition wf (ws : list str) : Prop := Forall (fun w : str => w <> []) ws.
Definition len_concat (ws : list str) : nat := length (concat ws).

(* ------------------------------------------------------------------ *)
(* generic list facts                                                  *)
(* ------------------------------------------------------------------ *)

Lemma app_eq_len_l {A} (a c b d : list A) :
  a ++ b = c ++ d -> length a = length c -> a = c /\ b = d.
Proof.
  revert c; induction a as [|x a IH]; intros [|y c] He Hl; cbn in *; try discriminate.
  - split; [reflexivity|exact He].
  - injection He as -> He. destruct (IH c He) as [-> ->]; [lia|]. split; reflexivity.
Qed.

Lemma firstn_S_snoc {A} (l : list A) n w :
  nth_error l n = Some w -> firstn (S n) l = firstn n l ++ [w].
Proof.
  revert n; induction l as [|x l IH]; intros [|n] H; cbn in *; try discriminate.
  - now injection H as ->.
  - f_equal. apply IH. exact H.
Qed.

Lemma len_concat_app a b : len_concat (a ++ b) = len_concat a + len_concat b.
Proof. unfold len_concat. now rewrite concat_app, app_length. Qed.

Lemma len_concat_firstn_le n l : len_concat (firstn n l) <= len_concat l.
Proof.
  rewrite <- (firstn_skipn n l) at 2. rewrite len_concat_app. lia.
Qed.

Lemma len_concat_firstn_mono a b (l : list str) :
  a <= b -> len_concat (firstn a l) <= len_concat (firstn b l).
Proof.
  intros H. replace b with (a + (b - a)) by lia. rewrite firstn_add, len_concat_app. lia.
Qed.

Lemma len_concat_eq a b : concat a = concat b -> len_concat a = len_concat b.
Proof. unfold len_concat. now intros ->. Qed.

Lemma len_concat_single w : len_concat [w] = length w.
Proof. unfold len_concat. cbn [concat]. now rewrite app_nil_r. Qed.

Lemma nth_error_lt_some {A} (l : list A) n : n < length l -> exists w, nth_error l n = Some w.
Proof.
  intros H. destruct (nth_error l n) as [w|] eqn:E; [now exists w|].
  apply nth_error_None in E. lia.
Qed.

(* ------------------------------------------------------------------ *)
(* 1. the two-pointer loop                                             *)
(* ------------------------------------------------------------------ *)

(* Neither wf hypothesis is actually needed for the loop itself; they are
   kept in the exported statement and a stronger core lemma is proved first. *)
Lemma chunk_loop_ok_core : forall fuel (text gold : list str) ti gi,
  concat text = concat gold ->
  ti < length text -> gi < length gold ->
  (length text - ti) + (length gold - gi) <= fuel ->
  exists ti' gi',
    chunk_loop fuel text gold ti gi (len_concat (firstn (S ti) text)) (len_concat (firstn (S gi) gold))
      = Ok (ti', gi')
    /\ ti <= ti' < length text /\ gi <= gi' < length gold
    /\ len_concat (firstn (S ti') text) = len_concat (firstn (S gi') gold)
    /\ (forall a b, ti <= a <= ti' -> gi <= b <= gi' -> (a, b) <> (ti', gi') ->
        len_concat (firstn (S a) text) <> len_concat (firstn (S b) gold)).
Proof.
  induction fuel as [|f IH]; intros text gold ti gi Hc Hti Hgi Hf.
  - lia.
  - cbn [chunk_loop].
    destruct (Nat.eqb_spec (len_concat (firstn (S gi) gold)) (len_concat (firstn (S ti) text)))
      as [He|Hne].
    + exists ti, gi. repeat split; try lia.
      intros a b Ha Hb Hab. exfalso. apply Hab. f_equal; lia.
    + destruct (Nat.ltb_spec (len_concat (firstn (S gi) gold)) (len_concat (firstn (S ti) text)))
        as [Hlt|Hge].
      * (* extend gold *)
        assert (Hs : S gi < length gold).
        { destruct (Nat.lt_ge_cases (S gi) (length gold)) as [H|H]; [exact H|exfalso].
          rewrite (firstn_all2 gold) in Hlt by lia.
          pose proof (len_concat_firstn_le (S ti) text) as Hle.
          pose proof (len_concat_eq _ _ Hc). lia. }
        destruct (nth_error_lt_some gold (S gi) Hs) as [w Hw]. rewrite Hw.
        replace (len_concat (firstn (S gi) gold) + length w)
          with (len_concat (firstn (S (S gi)) gold)).
        2:{ rewrite (firstn_S_snoc gold (S gi) w Hw), len_concat_app, len_concat_single.
            reflexivity. }
        destruct (IH text gold ti (S gi) Hc Hti Hs) as (ti' & gi' & Hr & H1 & H2 & H3 & H4); [lia|].
        exists ti', gi'. repeat split; try lia; [exact Hr|].
        intros a b Ha Hb Hab. destruct (Nat.eq_dec b gi) as [->|Hbg].
        -- pose proof (len_concat_firstn_mono (S ti) (S a) text). lia.
        -- apply H4; [lia|lia|exact Hab].
      * (* extend text *)
        assert (Hs : S ti < length text).
        { destruct (Nat.lt_ge_cases (S ti) (length text)) as [H|H]; [exact H|exfalso].
          rewrite (firstn_all2 text) in Hge, Hne by lia.
          pose proof (len_concat_firstn_le (S gi) gold) as Hle.
          pose proof (len_concat_eq _ _ Hc). lia. }
        destruct (nth_error_lt_some text (S ti) Hs) as [w Hw]. rewrite Hw.
        replace (len_concat (firstn (S ti) text) + length w)
          with (len_concat (firstn (S (S ti)) text)).
        2:{ rewrite (firstn_S_snoc text (S ti) w Hw), len_concat_app, len_concat_single.
            reflexivity. }
        destruct (IH text gold (S ti) gi Hc Hs Hgi) as (ti' & gi' & Hr & H1 & H2 & H3 & H4); [lia|].
        exists ti', gi'. repeat split; try lia; [exact Hr|].
        intros a b Ha Hb Hab. destruct (Nat.eq_dec a ti) as [->|Hat].
        -- pose proof (len_concat_firstn_mono (S gi) (S b) gold). lia.
        -- apply H4; [lia|lia|exact Hab].
Qed.

Lemma chunk_loop_ok : forall fuel (text gold : list str) ti gi,
  wf text -> wf gold -> concat text = concat gold ->
  ti < length text -> gi < length gold ->
  (length text - ti) + (length gold - gi) <= fuel ->
  exists ti' gi',
    chunk_loop fuel text gold ti gi (len_concat (firstn (S ti) text)) (len_concat (firstn (S gi) gold))
      = Ok (ti', gi')
    /\ ti <= ti' < length text /\ gi <= gi' < length gold
    /\ len_concat (firstn (S ti') text) = len_concat (firstn (S gi') gold)
    /\ (forall a b, ti <= a <= ti' -> gi <= b <= gi' -> (a, b) <> (ti', gi') ->
        len_concat (firstn (S a) text) <> len_concat (firstn (S b) gold)).
Proof. intros fuel text gold ti gi _ _. apply chunk_loop_ok_core. Qed.

Lemma firstn_S_nonnil {A} n (l : list A) : l <> [] -> firstn (S n) l <> [].
Proof. destruct l; [congruence|]. cbn [firstn]. discriminate. Qed.

Theorem compute_chunk_ok : forall (text gold : list str),
  text <> [] -> gold <> [] -> wf text -> wf gold -> concat text = concat gold ->
  exists ct cg, compute_chunk text gold = Ok (ct, cg) /\ ct <> [] /\ cg <> [] /\
     (exists rt, text = ct ++ rt) /\ (exists rg, gold = cg ++ rg) /\ concat ct = concat cg.
Proof.
  intros text gold Ht Hg Hwt Hwg Hc.
  destruct text as [|t0 tr]; [congruence|]. destruct gold as [|g0 gr]; [congruence|].
  unfold compute_chunk. rewrite Hc, str_eqb_refl. cbn [negb].
  destruct (str_eqb_spec g0 t0) as [->|Hne].
  - exists [t0], [t0]. repeat split; try discriminate.
    + now exists tr.
    + now exists gr.
  - destruct (chunk_loop_ok (length (t0 :: tr) + length (g0 :: gr)) (t0 :: tr) (g0 :: gr) 0 0
                Hwt Hwg Hc) as (ti' & gi' & Hr & H1 & H2 & H3 & _);
      [cbn [length]; lia | cbn [length]; lia | lia |].
    change (firstn 1 (t0 :: tr)) with [t0] in Hr. change (firstn 1 (g0 :: gr)) with [g0] in Hr.
    rewrite !len_concat_single in Hr. rewrite Hr. cbn [bind fst snd].
    exists (firstn (S ti') (t0 :: tr)), (firstn (S gi') (g0 :: gr)).
    split; [reflexivity|].
    split; [apply firstn_S_nonnil; discriminate|].
    split; [apply firstn_S_nonnil; discriminate|].
    split; [exists (skipn (S ti') (t0 :: tr)); symmetry; apply firstn_skipn|].
    split; [exists (skipn (S gi') (g0 :: gr)); symmetry; apply firstn_skipn|].
    pose proof (firstn_skipn (S ti') (t0 :: tr)) as Et.
    pose proof (firstn_skipn (S gi') (g0 :: gr)) as Eg.
    rewrite <- Et, <- Eg, !concat_app in Hc.
    apply app_eq_len_l in Hc; [apply Hc|]. exact H3.
Qed.

(* ------------------------------------------------------------------ *)
(* 2. chunking partitions both word lists                              *)
(* ------------------------------------------------------------------ *)

Lemma wf_app a b : wf (a ++ b) -> wf a /\ wf b.
Proof. unfold wf. apply Forall_app. Qed.

Lemma skipn_length_app {A} (a b : list A) : skipn (length a) (a ++ b) = b.
Proof. induction a as [|x a IH]; [reflexivity|]. cbn [length app skipn]. exact IH. Qed.

Lemma length_pos_of_nonnil {A} (l : list A) : l <> [] -> 0 < length l.
Proof. destruct l; [congruence|]. cbn [length]. lia. Qed.

Theorem boundary_chunks_ok : forall fuel (text gold : list str),
  wf text -> wf gold -> concat text = concat gold -> length text + length gold < fuel ->
  exists chunks, boundary_chunks fuel text gold = Ok chunks /\
    concat (map fst chunks) = text /\ concat (map snd chunks) = gold /\
    Forall (fun ch => fst ch <> [] /\ snd ch <> [] /\ concat (fst ch) = concat (snd ch)) chunks.
Proof.
  induction fuel as [|f IH]; intros text gold Hwt Hwg Hc Hf; [lia|].
  destruct text as [|t0 tr]; destruct gold as [|g0 gr].
  - exists []. cbn. repeat split. constructor.
  - exfalso. inversion Hwg as [|x l Hx Hl]; subst. cbn [concat] in Hc.
    destruct g0; [congruence|discriminate].
  - exfalso. inversion Hwt as [|x l Hx Hl]; subst. cbn [concat] in Hc.
    destruct t0; [congruence|discriminate].
  - cbn [boundary_chunks].
    destruct (compute_chunk_ok (t0 :: tr) (g0 :: gr)) as
        (ct & cg & Hr & Hct & Hcg & [rt Et] & [rg Eg] & Hcc);
      try discriminate; try assumption.
    rewrite Hr. cbn [bind fst snd]. rewrite Et, Eg, !skipn_length_app.
    rewrite Et in Hwt. rewrite Eg in Hwg. apply wf_app in Hwt, Hwg.
    assert (Hc' : concat rt = concat rg).
    { rewrite Et, Eg, !concat_app, Hcc in Hc. now apply app_inv_head in Hc. }
    destruct (IH rt rg) as (rest & Hrest & Pt & Pg & Pall); try tauto.
    { apply length_pos_of_nonnil in Hct, Hcg.
      rewrite Et, Eg, !app_length in Hf. lia. }
    rewrite Hrest. cbn [bind]. exists ((ct, cg) :: rest).
    split; [reflexivity|]. cbn [map fst snd concat]. rewrite Pt, Pg.
    repeat split. constructor; [|exact Pall]. cbn [fst snd]. tauto.
Qed.

(* Any Ok result is a partition, with no hypothesis on the inputs. *)
Lemma compute_chunk_prefix : forall (text gold : list str) ct cg,
  compute_chunk text gold = Ok (ct, cg) ->
  (exists rt, text = ct ++ rt) /\ (exists rg, gold = cg ++ rg).
Proof.
  intros text gold ct cg H. unfold compute_chunk in H.
  destruct text as [|t0 tr]; [discriminate|]. destruct gold as [|g0 gr]; [discriminate|].
  destruct (negb _); [discriminate|].
  destruct (str_eqb g0 t0).
  - injection H as <- <-. split; [now exists tr|now exists gr].
  - destruct (chunk_loop _ _ _ _ _ _ _) as [[i j]|e]; [|discriminate].
    cbn [bind fst snd] in H. injection H as <- <-. split.
    + exists (skipn (S i) (t0 :: tr)). symmetry. exact (firstn_skipn (S i) (t0 :: tr)).
    + exists (skipn (S j) (g0 :: gr)). symmetry. exact (firstn_skipn (S j) (g0 :: gr)).
Qed.

Lemma boundary_chunks_partition : forall fuel (text gold : list str) chunks,
  boundary_chunks fuel text gold = Ok chunks ->
  concat (map fst chunks) = text /\ concat (map snd chunks) = gold.
Proof.
  induction fuel as [|f IH]; intros text gold chunks H.
  - destruct text, gold; cbn in H; try discriminate. injection H as <-. split; reflexivity.
  - destruct text as [|t0 tr]; destruct gold as [|g0 gr]; cbn [boundary_chunks] in H;
      try discriminate.
    + injection H as <-. split; reflexivity.
    + destruct (compute_chunk (t0 :: tr) (g0 :: gr)) as [[ct cg]|e] eqn:Ec; [|discriminate].
      cbn [bind fst snd] in H.
      destruct (compute_chunk_prefix _ _ _ _ Ec) as [[rt Et] [rg Eg]].
      rewrite Et, Eg, !skipn_length_app in H.
      destruct (boundary_chunks f rt rg) as [rest|e] eqn:Er; [|discriminate].
      cbn [bind] in H. injection H as <-.
      destruct (IH _ _ _ Er) as [Pt Pg]. cbn [map fst snd concat].
      rewrite Pt, Pg, Et, Eg. split; reflexivity.
Qed.

(* ------------------------------------------------------------------ *)
(* 3. classification                                                   *)
(* ------------------------------------------------------------------ *)

Ltac classify_cases t g :=
  unfold classify;
  destruct (Nat.eqb_spec (length g) (length t));
  destruct (Nat.eqb_spec (length g) 1);
  destruct (Nat.eqb_spec (length t) 1);
  destruct (Nat.ltb_spec (length g) (length t)).

Theorem classify_correct_iff : forall (t g : list str),
  classify t g = Correct <-> length g = 1 /\ length t = 1.
Proof. intros t g. classify_cases t g; split; intros HH; try discriminate; try lia; reflexivity. Qed.

Theorem classify_over_iff : forall (t g : list str),
  classify t g = Over <-> length g = 1 /\ 1 < length t.
Proof. intros t g. classify_cases t g; split; intros HH; try discriminate; try lia; reflexivity. Qed.

(* no non-emptiness hypothesis is needed for Under *)
Theorem classify_under_iff : forall (t g : list str),
  classify t g = Under <-> length t = 1 /\ 1 < length g.
Proof. intros t g. classify_cases t g; split; intros HH; try discriminate; try lia; reflexivity. Qed.

Theorem classify_mis_iff : forall (t g : list str), g <> [] -> t <> [] ->
  (classify t g = Mis <-> 1 < length g /\ 1 < length t).
Proof.
  intros t g Hg Ht. apply length_pos_of_nonnil in Hg, Ht.
  classify_cases t g; split; intros HH; try discriminate; try lia; reflexivity.
Qed.

(* ------------------------------------------------------------------ *)
(* 4. totals                                                           *)
(* ------------------------------------------------------------------ *)

Definition total (c : counter str) : Z :=
  fold_right (fun (kv : str * Z) acc => (snd kv + acc)%Z) 0%Z c.

Definition summ_total (s : summ) : Z :=
  (total (sm_correct s) + total (sm_under s) + total (sm_over s) + total (sm_mis s))%Z.

Lemma total_cadd c w d : total (cadd str_eqb c w d) = (total c + d)%Z.
Proof.
  induction c as [|[k v] r IH]; cbn [cadd total fold_right snd].
  - lia.
  - destruct (str_eqb w k); cbn [total fold_right snd]; fold (total r).
    + lia.
    + fold (total (cadd str_eqb r w d)). rewrite IH. lia.
Qed.

Lemma total_cadd1 c w : total (cadd str_eqb c w 1) = (total c + 1)%Z.
Proof. apply total_cadd. Qed.

Lemma summ_total_bump s c w : summ_total (bump s c w) = (summ_total s + 1)%Z.
Proof.
  unfold summ_total. destruct c; cbn [bump sm_correct sm_under sm_over sm_mis];
    rewrite total_cadd1; lia.
Qed.

Lemma summ_total_fold_bump c (ws : list str) s :
  summ_total (fold_left (fun s w => bump s c w) ws s)
  = (summ_total s + Z.of_nat (length ws))%Z.
Proof.
  revert s; induction ws as [|w ws IH]; intros s; cbn [fold_left length].
  - lia.
  - rewrite IH, summ_total_bump. lia.
Qed.

Lemma summ_total_fold_chunks (chunks : list (list str * list str)) s :
  summ_total (fold_left (fun s ch =>
                 fold_left (fun s w => bump s (classify (fst ch) (snd ch)) w) (snd ch) s)
                chunks s)
  = (summ_total s + Z.of_nat (length (concat (map snd chunks))))%Z.
Proof.
  revert s; induction chunks as [|ch chunks IH]; intros s; cbn [fold_left map concat length].
  - lia.
  - rewrite IH, summ_total_fold_bump, app_length. lia.
Qed.

Theorem summarize_utterance_total : forall s text gold s',
  summarize_utterance s text gold = Ok s' ->
  summ_total s' = (summ_total s + Z.of_nat (length (tokens gold)))%Z.
Proof.
  intros s text gold s' H. unfold summarize_utterance in H.
  destruct (negb _); [discriminate|].
  destruct (list_eqb (tokens gold) (tokens text)).
  - injection H as <-. exact (summ_total_fold_bump Correct (tokens gold) s).
  - destruct (boundary_chunks _ (tokens text) (tokens gold)) as [chunks|e] eqn:Eb; [|discriminate].
    cbn [bind] in H. injection H as <-.
    rewrite summ_total_fold_chunks.
    destruct (boundary_chunks_partition _ _ _ _ Eb) as [_ Pg]. now rewrite Pg.
Qed.

Theorem summarize_all_total : forall (text gold : list str) s0 s',
  length text = length gold ->
  summarize_all s0 text gold = Ok s' ->
  summ_total s' = (summ_total s0 + Z.of_nat (length (flat_map tokens gold)))%Z.
Proof.
  induction text as [|t tr IH]; intros [|g gr] s0 s' Hl H; cbn [length] in Hl; try discriminate.
  - cbn in H. injection H as <-. cbn. lia.
  - cbn [summarize_all] in H.
    destruct (summarize_utterance s0 t g) as [s1|e] eqn:E1; [|discriminate].
    cbn [bind] in H. apply summarize_utterance_total in E1.
    apply IH in H; [|lia]. cbn [flat_map]. rewrite app_length, H, E1. lia.
Qed.

Theorem summary_total : forall (text gold : list str) s0 s',
  length text = length gold ->
  summarize_all s0 text gold = Ok s' ->
  summ_total s' = (summ_total s0 + Z.of_nat (length (flat_map tokens gold)))%Z.
Proof. exact summarize_all_total. Qed.

(* ------------------------------------------------------------------ *)
(* 6. export order                                                     *)
(* ------------------------------------------------------------------ *)

Lemma str_ltb_asym : forall a b : str, str_ltb a b = true -> str_ltb b a = false.
Proof.
  induction a as [|x a IH]; intros [|y b] H; cbn [str_ltb] in *; try discriminate; try reflexivity.
  destruct (N.ltb_spec x y) as [Hxy|Hxy].
  - destruct (N.ltb_spec y x) as [Hyx|Hyx]; [lia|].
    destruct (N.ltb_spec x y); [reflexivity|lia].
  - destruct (N.ltb_spec y x) as [Hyx|Hyx]; [discriminate|].
    destruct (N.ltb_spec x y); [lia|]. apply IH. exact H.
Qed.

Lemma str_ltb_irrefl : forall a : str, str_ltb a a = false.
Proof.
  intros a. destruct (str_ltb a a) eqn:E; [|reflexivity].
  pose proof (str_ltb_asym a a E). congruence.
Qed.

(* trichotomy: neither below the other means equal *)
Lemma str_ltb_total : forall a b : str, str_ltb a b = false -> str_ltb b a = false -> a = b.
Proof.
  induction a as [|x a IH]; intros [|y b] H1 H2; cbn [str_ltb] in *; try discriminate;
    try reflexivity.
  destruct (N.ltb_spec x y) as [Hxy|Hxy]; [discriminate|].
  destruct (N.ltb_spec y x) as [Hyx|Hyx]; [discriminate|].
  destruct (N.ltb_spec x y); [lia|].
  assert (x = y) by lia. subst y. f_equal. apply IH; assumption.
Qed.

Lemma item_leb_total : forall a b, item_leb a b = false -> item_leb b a = true.
Proof.
  intros [ka va] [kb vb]. unfold item_leb. cbn [fst snd].
  destruct (Z.ltb_spec vb va) as [H1|H1]; [discriminate|].
  destruct (Z.ltb_spec va vb) as [H2|H2]; [reflexivity|].
  intros H. apply negb_false_iff in H. apply str_ltb_asym in H. now rewrite H.
Qed.

Lemma item_leb_refl : forall a, item_leb a a = true.
Proof.
  intros [k v]. unfold item_leb. cbn [fst snd]. rewrite Z.ltb_irrefl, str_ltb_irrefl. reflexivity.
Qed.

Lemma insert_sorted_perm x l : Permutation (x :: l) (insert_sorted x l).
Proof.
  induction l as [|y r IH]; cbn [insert_sorted].
  - apply Permutation_refl.
  - destruct (item_leb x y).
    + apply Permutation_refl.
    + eapply perm_trans; [apply perm_swap|]. apply perm_skip. exact IH.
Qed.

Theorem sort_items_perm : forall l, Permutation l (sort_items l).
Proof.
  induction l as [|x l IH]; cbn [sort_items fold_right].
  - constructor.
  - eapply perm_trans; [apply perm_skip; exact IH|]. apply insert_sorted_perm.
Qed.

Definition item_le (a b : str * Z) : Prop := item_leb a b = true.

Lemma insert_sorted_hdrel a x l :
  HdRel item_le a l -> item_le a x -> HdRel item_le a (insert_sorted x l).
Proof.
  intros Hl Hx. destruct l as [|y r]; cbn [insert_sorted].
  - constructor. exact Hx.
  - destruct (item_leb x y); constructor; [exact Hx|]. now inversion Hl.
Qed.

Lemma insert_sorted_sorted x l : Sorted item_le l -> Sorted item_le (insert_sorted x l).
Proof.
  induction l as [|y r IH]; intros Hs; cbn [insert_sorted].
  - repeat constructor.
  - destruct (item_leb x y) eqn:E.
    + constructor; [exact Hs|]. constructor. exact E.
    + inversion Hs as [|y' r' Hr Hhd]; subst. constructor; [apply IH; exact Hr|].
      apply insert_sorted_hdrel; [exact Hhd|]. apply item_leb_total. exact E.
Qed.

Theorem sort_items_sorted : forall l, Sorted (fun a b => item_leb a b = true) (sort_items l).
Proof.
  induction l as [|x l IH]; cbn [sort_items fold_right].
  - constructor.
  - apply (insert_sorted_sorted x _ IH).
Qed.

(* ------------------------------------------------------------------ *)
(* 5. no spurious exception                                            *)
(* ------------------------------------------------------------------ *)

Definition only_spaces (u : str) : Prop :=
  forallb (fun c => negb (is_space c) || (c =? sp)%N) u = true.

(* "contains no whitespace at all" *)
Definition nows (p : str) : Prop := Forall (fun c => is_space c = false) p.

Lemma lstrip_nows p : nows p -> lstrip p = p.
Proof.
  intros H. destruct p as [|c p]; [reflexivity|].
  inversion H as [|c' p' Hc Hp]; subst. cbn [lstrip]. now rewrite Hc.
Qed.

Lemma strip_nows p : nows p -> strip p = p.
Proof.
  intros H. unfold strip, rstrip. rewrite (lstrip_nows p H).
  rewrite (lstrip_nows (rev p)); [apply rev_involutive|].
  unfold nows. apply Forall_rev. exact H.
Qed.

Lemma split_go_sp_cons (c : char) (s acc : str) :
  split_go [sp] (c :: s) 0 acc =
  if (sp =? c)%N then rev acc :: split_go [sp] s 0 [] else split_go [sp] s 0 (c :: acc).
Proof.
  cbn [split_go prefix_b length Nat.sub]. rewrite andb_true_r. reflexivity.
Qed.

Lemma despace_cons_sp (s : str) : despace (sp :: s) = despace s.
Proof. reflexivity. Qed.

Lemma despace_cons_other (c : char) (s : str) : (c =? sp)%N = false -> despace (c :: s) = c :: despace s.
Proof. intros H. unfold despace. cbn [filter]. now rewrite H. Qed.

Lemma split_go_sp_spec : forall (s acc : str), only_spaces s -> nows acc ->
  Forall nows (split_go [sp] s 0 acc) /\
  concat (split_go [sp] s 0 acc) = rev acc ++ despace s.
Proof.
  induction s as [|c s IH]; intros acc Hs Ha.
  - cbn [split_go concat]. split.
    + constructor; [|constructor]. unfold nows. apply Forall_rev. exact Ha.
    + reflexivity.
  - unfold only_spaces in Hs. cbn [forallb] in Hs. apply andb_true_iff in Hs.
    destruct Hs as [Hc Hs]. rewrite split_go_sp_cons.
    destruct (N.eqb_spec sp c) as [<-|Hne].
    + destruct (IH [] Hs (Forall_nil _)) as [Hn He]. split.
      * constructor; [|exact Hn]. unfold nows. apply Forall_rev. exact Ha.
      * cbn [concat]. rewrite He, despace_cons_sp. reflexivity.
    + assert (Hcs : (c =? sp)%N = false) by (apply N.eqb_neq; congruence).
      rewrite Hcs, orb_false_r in Hc. apply negb_true_iff in Hc.
      destruct (IH (c :: acc) Hs) as [Hn He].
      { constructor; assumption. }
      split; [exact Hn|]. rewrite He, (despace_cons_other c s Hcs).
      cbn [rev]. rewrite <- app_assoc. reflexivity.
Qed.

Lemma concat_filter_nonempty (l : list str) : concat (filter nonempty l) = concat l.
Proof.
  induction l as [|w l IH]; [reflexivity|]. cbn [filter].
  destruct w as [|c w]; cbn [nonempty concat app]; [exact IH|]. now rewrite IH.
Qed.

Lemma filter_idem {A} (f : A -> bool) l : filter f (filter f l) = filter f l.
Proof.
  induction l as [|x l IH]; [reflexivity|]. cbn [filter].
  destruct (f x) eqn:E; [cbn [filter]; rewrite E, IH; reflexivity|exact IH].
Qed.

Lemma wf_tokens u : wf (tokens u).
Proof.
  unfold wf, tokens. apply Forall_forall. intros x Hx. apply filter_In in Hx.
  destruct Hx as [_ Hx]. destruct x; [discriminate|discriminate].
Qed.

Lemma tokens_only_spaces u : only_spaces u ->
  tokens u = filter nonempty (split_on [sp] u).
Proof.
  intros H. unfold tokens, split_on.
  destruct (split_go_sp_spec u [] H (Forall_nil _)) as [Hn _].
  rewrite (map_ext_in strip (fun x => x)).
  - rewrite map_id. apply filter_idem.
  - intros a Ha. apply filter_In in Ha. destruct Ha as [Ha _].
    apply strip_nows. exact (proj1 (Forall_forall _ _) Hn a Ha).
Qed.

Lemma concat_tokens u : only_spaces u -> concat (tokens u) = despace u.
Proof.
  intros H. rewrite (tokens_only_spaces u H), concat_filter_nonempty. unfold split_on.
  destruct (split_go_sp_spec u [] H (Forall_nil _)) as [_ He]. exact He.
Qed.

Theorem summarize_utterance_accepts : forall s text gold,
  despace gold = despace text -> only_spaces text -> only_spaces gold ->
  exists s', summarize_utterance s text gold = Ok s'.
Proof.
  intros s text gold Hd Ht Hg. unfold summarize_utterance.
  rewrite Hd, str_eqb_refl. cbn [negb].
  destruct (list_eqb (tokens gold) (tokens text)); [eexists; reflexivity|].
  destruct (boundary_chunks_ok (S (length (tokens text) + length (tokens gold)))
              (tokens text) (tokens gold)) as (chunks & Hb & _).
  - apply wf_tokens.
  - apply wf_tokens.
  - rewrite (concat_tokens text Ht), (concat_tokens gold Hg). symmetry. exact Hd.
  - lia.
  - rewrite Hb. cbn [bind]. eexists; reflexivity.
Qed.

(* lifted to the whole corpus and to [summary] *)
Lemma summarize_all_accepts : forall (text gold : list str) s,
  Forall2 (fun t g => despace g = despace t /\ only_spaces t /\ only_spaces g) text gold ->
  exists s', summarize_all s text gold = Ok s'.
Proof.
  intros text gold s H. revert s.
  induction H as [|t g tr gr (Hd & Ht & Hg) _ IH]; intros s.
  - exists s. reflexivity.
  - cbn [summarize_all]. destruct (summarize_utterance_accepts s t g Hd Ht Hg) as [s1 E1].
    rewrite E1. cbn [bind]. apply IH.
Qed.

Theorem summary_accepts : forall (text gold : list str),
  Forall2 (fun t g => despace g = despace t /\ only_spaces t /\ only_spaces g) text gold ->
  exists r, summary text gold = Ok r.
Proof.
  intros text gold H. unfold summary.
  assert (Hl : length gold = length text) by (induction H; cbn [length]; congruence).
  rewrite Hl, Nat.eqb_refl. cbn [negb].
  destruct (summarize_all_accepts text gold
              {| sm_correct := []; sm_under := []; sm_over := []; sm_mis := [] |} H) as [s' E].
  rewrite E. cbn [bind]. eexists; reflexivity.
Qed.

(* ------------------------------------------------------------------ *)
(* sanity checks: the non-emptiness hypotheses of classify_mis_iff are  *)
(* both needed (classify returns Mis on degenerate inputs)              *)
(* ------------------------------------------------------------------ *)

Example classify_nil_nil : classify [] [] = Mis.
Proof. vm_compute. reflexivity. Qed.
Example classify_gold_nil : classify [[97%N]] [] = Mis.
Proof. vm_compute. reflexivity. Qed.
Example classify_text_nil : classify [] [[97%N]; [98%N]] = Mis.
Proof. vm_compute. reflexivity. Qed.
