(* Perfect token / boundary scores are obtained EXACTLY for identical
   segmentations.  (ProofsScores.v has the easy direction: a text scored
   against itself is perfect.)  Nothing here changes the model: every
   statement is about the definitions of Evaluate/Model.v. *)
From WS Require Import Base.Py Base.ListX Base.Str Base.Counter
  Evaluate.Model Evaluate.ProofsScores Evaluate.ProofsSummary Evaluate.ProofsHits.
From Coq Require Import QArith Lia Sorted.
Local Open Scope nat_scope.

(* ====================================================================== *)
(* 1. update_lists: perfect counts iff the same sets, line by line         *)
(* ====================================================================== *)

Definition same_set {A} (a b : list A) : Prop := forall x, In x a <-> In x b.

Lemma filter_length_all {A} (f : A -> bool) (l : list A) :
  length (filter f l) = length l -> forall x, In x l -> f x = true.
Proof.
  induction l as [|y l IH]; intros H x Hx; [contradiction|].
  cbn [filter] in H. destruct (f y) eqn:Ey.
  - cbn [length] in H. destruct Hx as [<-|Hx]; [exact Ey|]. apply IH; [lia|exact Hx].
  - pose proof (filter_length_le f l) as L. cbn [length] in H. lia.
Qed.

Section PerfectSets.
Context {A : Type} (eqb : A -> A -> bool).
Hypothesis eqb_spec : forall a b, reflect (a = b) (eqb a b).

Lemma inter_size_full_iff (a b : list A) :
  inter_size eqb a b = length a <-> incl a b.
Proof.
  unfold inter_size. split.
  - intros H x Hx. apply (mem_In eqb eqb_spec).
    exact (filter_length_all (fun y => mem eqb y b) a H x Hx).
  - intros H. rewrite filter_all; [reflexivity|].
    intros x Hx. apply (mem_In eqb eqb_spec). apply H. exact Hx.
Qed.

Lemma inter_size_perfect_iff (a b : list A) : NoDup a -> NoDup b ->
  (inter_size eqb a b = length a /\ inter_size eqb a b = length b) <-> same_set a b.
Proof.
  intros Ha Hb. split.
  - intros [H1 H2]. rewrite (inter_size_comm eqb eqb_spec a b Ha Hb) in H2.
    apply inter_size_full_iff in H1. apply inter_size_full_iff in H2.
    intros x. split; [apply H1|apply H2].
  - intros H. split.
    + apply inter_size_full_iff. intros x Hx. apply H. exact Hx.
    + rewrite (inter_size_comm eqb eqb_spec a b Ha Hb).
      apply inter_size_full_iff. intros x Hx. apply H. exact Hx.
Qed.

Theorem update_lists_perfect_iff : forall (test gold : list (list A)) c0,
  length test = length gold ->
  Forall (@NoDup A) test -> Forall (@NoDup A) gold ->
  c_correct c0 <= c_test c0 -> c_correct c0 <= c_gold c0 ->
  let c := update_lists eqb test gold c0 in
  (c_correct c = c_test c /\ c_correct c = c_gold c)
  <-> ((c_correct c0 = c_test c0 /\ c_correct c0 = c_gold c0) /\ Forall2 same_set test gold).
Proof.
  induction test as [|t tr IH]; intros gold c0 Hlen Ht Hg B1 B2; cbn zeta.
  - destruct gold as [|g gr]; [|discriminate]. cbn [update_lists].
    split; [intros H; split; [exact H|constructor]|intros [H _]; exact H].
  - destruct gold as [|g gr]; [discriminate|]. cbn [length] in Hlen.
    inversion Ht as [|? ? Ht1 Ht2]; subst. inversion Hg as [|? ? Hg1 Hg2]; subst.
    cbn [update_lists].
    pose proof (inter_size_le_l eqb t g) as L1.
    pose proof (inter_size_le_r eqb eqb_spec t g Ht1) as L2.
    pose proof (inter_size_perfect_iff t g Ht1 Hg1) as P.
    rewrite (IH gr _ (eq_add_S _ _ Hlen) Ht2 Hg2); cbn [c_test c_gold c_correct]; try lia.
    split.
    + intros [[E1 E2] F]. split; [lia|]. constructor; [|exact F]. apply P. lia.
    + intros [[E1 E2] F]. inversion F as [|? ? ? ? S F']; subst.
      apply P in S. split; [lia|exact F'].
Qed.

End PerfectSets.

(* 1. token evaluation on arbitrary lists of span sets *)
Theorem token_perfect_iff : forall tp gp : list (list (nat * nat)),
  length tp = length gp ->
  Forall (fun l => NoDup l) tp -> Forall (fun l => NoDup l) gp ->
  let c := token_counts tp gp in
  (c_correct c = c_test c /\ c_correct c = c_gold c)
  <-> Forall2 (fun a b => forall x, In x a <-> In x b) tp gp.
Proof.
  intros tp gp Hlen Ht Hg. cbn zeta. unfold token_counts.
  pose proof (update_lists_perfect_iff span_eqb span_eqb_spec tp gp zero Hlen Ht Hg) as H.
  cbn zeta in H. rewrite H by (cbn; lia). unfold same_set. cbn [zero c_test c_gold c_correct].
  split; [intros [_ F]; exact F|intros F; split; [split; reflexivity|exact F]].
Qed.
Print Assumptions token_perfect_iff.

(* the spans the model builds are distinct (words are not empty) *)
Lemma spans_NoDup : forall ws, Forall (fun w : str => w <> []) ws -> NoDup (spans ws).
Proof. intros ws H. unfold spans. apply spans_from_NoDup. exact H. Qed.

(* ====================================================================== *)
(* 2. the same set of spans is the same list of word lengths               *)
(* ====================================================================== *)

Lemma spans_from_same_set_eq : forall (ws1 ws2 : list str) idx,
  same_set (spans_from idx ws1) (spans_from idx ws2) -> wf ws1 -> wf ws2 ->
  map (@length _) ws1 = map (@length _) ws2.
Proof.
  induction ws1 as [|w1 r1 IH]; intros ws2 idx S W1 W2.
  - destruct ws2 as [|w2 r2]; [reflexivity|]. exfalso.
    cbn [spans_from] in S. apply (proj2 (S _) (or_introl eq_refl)).
  - destruct ws2 as [|w2 r2].
    + exfalso. cbn [spans_from] in S. apply (proj1 (S _) (or_introl eq_refl)).
    + apply wf_cons_inv in W1 as [L1 W1]. apply wf_cons_inv in W2 as [L2 W2].
      cbn [spans_from] in S.
      assert (E : length w1 = length w2).
      { destruct (proj1 (S _) (or_introl eq_refl)) as [E|Hin].
        - injection E as E. lia.
        - apply spans_from_lower in Hin. cbn [fst] in Hin. lia. }
      cbn [map]. f_equal; [exact E|]. apply (IH r2 (idx + length w1)); [|exact W1|exact W2].
      rewrite <- E in S. intros x. split; intros Hx.
      * destruct (proj1 (S x) (or_intror Hx)) as [<-|Hin]; [|exact Hin].
        apply spans_from_lower in Hx. cbn [fst] in Hx. lia.
      * destruct (proj2 (S x) (or_intror Hx)) as [<-|Hin]; [|exact Hin].
        apply spans_from_lower in Hx. cbn [fst] in Hx. lia.
Qed.

Theorem spans_same_set_eq : forall ws1 ws2 : list str,
  (forall x, In x (spans ws1) <-> In x (spans ws2)) ->
  Forall (fun w => w <> []) ws1 -> Forall (fun w => w <> []) ws2 ->
  map (@length _) ws1 = map (@length _) ws2.
Proof. intros ws1 ws2 S W1 W2. exact (spans_from_same_set_eq ws1 ws2 0 S W1 W2). Qed.
Print Assumptions spans_same_set_eq.

(* ====================================================================== *)
(* 3. the words of a line are determined by its letters and word lengths   *)
(* ====================================================================== *)

(* cut D into words of the given lengths, skipping whitespace before each *)
Fixpoint retok (D : str) (ns : list nat) : list str :=
  match ns with
  | [] => []
  | n :: r => firstn n (lstrip D) :: retok (skipn n (lstrip D)) r
  end.

Lemma lstrip_app_space (a X : str) : all_space a = true -> lstrip (a ++ X) = lstrip X.
Proof.
  induction a as [|c a IH]; intros H; [reflexivity|].
  cbn [all_space forallb] in H. apply andb_true_iff in H as [Hc Ha].
  cbn [app lstrip]. rewrite Hc. apply IH. exact Ha.
Qed.

Lemma lstrip_decomp (p : str) :
  exists a, p = a ++ lstrip p /\ all_space a = true /\
            (lstrip p = [] \/ exists c w, lstrip p = c :: w /\ is_space c = false).
Proof.
  induction p as [|c p IH].
  - exists []. split; [reflexivity|]. split; [reflexivity|left; reflexivity].
  - cbn [lstrip]. destruct (is_space c) eqn:Ec.
    + destruct IH as (a & E & Ha & Hh). exists (c :: a). split; [cbn [app]; f_equal; exact E|].
      split; [cbn [all_space forallb]; rewrite Ec; exact Ha|exact Hh].
    + exists []. split; [reflexivity|]. split; [reflexivity|].
      right. exists c, p. split; [reflexivity|exact Ec].
Qed.

Lemma rstrip_decomp (q : str) :
  exists b, q = rstrip q ++ b /\ all_space b = true /\
            (rstrip q = [] \/ exists w c, rstrip q = w ++ [c] /\ is_space c = false).
Proof.
  unfold rstrip. destruct (lstrip_decomp (rev q)) as (a & E & Ha & Hh).
  exists (rev a). split; [|split].
  - rewrite <- rev_app_distr, <- E, rev_involutive. reflexivity.
  - rewrite all_space_rev. exact Ha.
  - destruct Hh as [->|(c & w & -> & Hc)]; [left; reflexivity|].
    right. exists (rev w), c. split; [reflexivity|exact Hc].
Qed.

(* strip p is the middle of p, between two runs of whitespace, and when it is
   not empty it starts and ends with a character that is not whitespace *)
Lemma strip_decomp (p : str) :
  exists a b, p = a ++ strip p ++ b /\ all_space a = true /\ all_space b = true /\
    (strip p = [] \/
     (exists c w, strip p = c :: w /\ is_space c = false) /\
     (exists w c, strip p = w ++ [c] /\ is_space c = false)).
Proof.
  unfold strip. destruct (lstrip_decomp p) as (a & E & Ha & Hh).
  destruct (rstrip_decomp (lstrip p)) as (b & E2 & Hb & Ht).
  exists a, b. split; [rewrite <- E2; exact E|]. split; [exact Ha|]. split; [exact Hb|].
  destruct Ht as [Ht|Ht]; [left; exact Ht|]. right. split; [|exact Ht].
  destruct Hh as [Hn|(c & w & Ec & Hc)].
  - exfalso. destruct Ht as (w & c & Et & _). rewrite Hn in Et. cbn in Et.
    destruct w; discriminate.
  - destruct (rstrip (lstrip p)) as [|c' w'] eqn:Er.
    + destruct Ht as (w0 & c0 & Et & _). destruct w0; discriminate.
    + exists c', w'. split; [reflexivity|].
      rewrite Ec in E2. cbn [app] in E2. injection E2 as <- _. exact Hc.
Qed.

Lemma lstrip_head_nonspace c (w : str) : is_space c = false -> lstrip (c :: w) = c :: w.
Proof. intros H. cbn [lstrip]. rewrite H. reflexivity. Qed.

Lemma retok_app_space (a X : str) ns : all_space a = true -> retok (a ++ X) ns = retok X ns.
Proof.
  intros H. destruct ns as [|n r]; [reflexivity|].
  cbn [retok]. rewrite (lstrip_app_space a X H). reflexivity.
Qed.

Lemma skipn_length_app {X} (p p' : list X) : skipn (length p) (p ++ p') = p'.
Proof. induction p as [|x p IH]; [reflexivity|]. cbn [length app skipn]. exact IH. Qed.

Lemma strip_nil : strip [] = [].
Proof. reflexivity. Qed.

Lemma filter_strip_filter (l : list str) :
  filter nonempty (map strip (filter nonempty l)) = filter nonempty (map strip l).
Proof.
  induction l as [|p l IH]; [reflexivity|].
  cbn [filter map]. destruct p as [|c p]; cbn [nonempty].
  - rewrite strip_nil. cbn [nonempty]. exact IH.
  - cbn [map filter]. rewrite IH. reflexivity.
Qed.

Lemma retok_pieces : forall pieces : list str,
  retok (concat pieces) (map (@length _) (filter nonempty (map strip pieces)))
  = filter nonempty (map strip pieces).
Proof.
  induction pieces as [|p rest IH]; [reflexivity|].
  cbn [concat map filter].
  destruct (strip_decomp p) as (a & b & E & Ha & Hb & Hs).
  remember (strip p) as m eqn:Em. clear Em. subst p.
  rewrite <- !app_assoc.
  destruct Hs as [->|[(c & w & -> & Hc) _]].
  - cbn [nonempty app]. rewrite !retok_app_space by assumption. exact IH.
  - cbn [nonempty map retok]. rewrite (lstrip_app_space a _ Ha).
    cbn [app]. rewrite (lstrip_head_nonspace c _ Hc).
    change (c :: w ++ b ++ concat rest) with ((c :: w) ++ b ++ concat rest).
    rewrite firstn_length_app, skipn_length_app.
    rewrite (retok_app_space b _ _ Hb). rewrite IH. reflexivity.
Qed.

Lemma split_go_sp_concat : forall (s acc : str),
  concat (split_go [sp] s 0 acc) = rev acc ++ despace s.
Proof.
  induction s as [|c s IH]; intros acc.
  - cbn [split_go concat]. reflexivity.
  - rewrite split_go_sp_cons. destruct (N.eqb_spec sp c) as [<-|Hne].
    + cbn [concat]. rewrite IH, despace_cons_sp. reflexivity.
    + assert (Hcs : (c =? sp)%N = false) by (apply N.eqb_neq; congruence).
      rewrite IH, (despace_cons_other c s Hcs). cbn [rev]. rewrite <- app_assoc. reflexivity.
Qed.

Lemma tokens_retok (u : str) :
  tokens u = retok (despace u) (map (@length _) (tokens u)).
Proof.
  unfold tokens. rewrite filter_strip_filter.
  pose proof (split_go_sp_concat u []) as C. cbn [rev app] in C.
  unfold split_on. rewrite <- C. symmetry. apply retok_pieces.
Qed.

(* consistent lines with the same word lengths have the same words *)
Lemma tokens_determined (t g : str) :
  despace t = despace g ->
  map (@length _) (tokens t) = map (@length _) (tokens g) -> tokens t = tokens g.
Proof.
  intros Hd Hl. rewrite (tokens_retok t), (tokens_retok g), Hd, Hl. reflexivity.
Qed.

Lemma line_spans_same_iff (t g : str) : despace t = despace g ->
  (same_set (spans (tokens t)) (spans (tokens g)) <-> tokens t = tokens g).
Proof.
  intros Hd. split.
  - intros S. apply (tokens_determined t g Hd).
    apply spans_same_set_eq; [exact S|apply wf_tokens|apply wf_tokens].
  - intros ->. intros x. tauto.
Qed.

Lemma rd_pos_spans (text : list str) :
  rd_pos (read_data text) = map (fun u => spans (tokens u)) (filter nonblank text).
Proof.
  unfold read_data. cbn [rd_pos]. apply map_ext. intros u.
  apply set_of_spans, wf_tokens.
Qed.

Lemma evaluate_None_inv text gold s :
  evaluate text gold None = Ok s -> consistent text gold /\ s = base_scores text gold.
Proof.
  rewrite evaluate_None. destruct (words_check text gold) eqn:W; [|discriminate].
  intros H. injection H as <-. split; [|reflexivity].
  apply words_check_consistent. exact W.
Qed.

Lemma Forall2_lines_iff (P : str -> str -> Prop) (f : str -> list str) :
  forall T G : list str,
  Forall2 (fun a b => despace a = despace b) T G ->
  (forall t g, despace t = despace g -> (P t g <-> f t = f g)) ->
  (Forall2 P T G <-> map f T = map f G).
Proof.
  intros T G F HP. induction F as [|t g T G Hd F IH].
  - split; [reflexivity|constructor].
  - cbn [map]. split.
    + intros H. inversion H as [|? ? ? ? H1 H2]; subst.
      f_equal; [apply (HP t g Hd); exact H1|apply IH; exact H2].
    + intros H. injection H as H1 H2.
      constructor; [apply (HP t g Hd); exact H1|apply IH; exact H2].
Qed.

Lemma Forall2_map {X Y} (P : Y -> Y -> Prop) (f : X -> Y) (l1 l2 : list X) :
  Forall2 P (map f l1) (map f l2) <-> Forall2 (fun a b => P (f a) (f b)) l1 l2.
Proof.
  revert l2; induction l1 as [|a l1 IH]; intros [|b l2]; cbn [map].
  - split; constructor.
  - split; intros H; inversion H.
  - split; intros H; inversion H.
  - split; intros H; inversion H as [|? ? ? ? H1 H2]; subst;
      (constructor; [exact H1|apply IH; exact H2]).
Qed.

Theorem evaluate_token_perfect_iff : forall text gold s,
  evaluate text gold None = Ok s ->
  (c_correct (s_token s) = c_test (s_token s) /\ c_correct (s_token s) = c_gold (s_token s))
  <-> map tokens (filter nonblank text) = map tokens (filter nonblank gold).
Proof.
  intros text gold s H. apply evaluate_None_inv in H as [[Hlen Hd] ->].
  unfold base_scores. cbn [s_token].
  pose proof (token_perfect_iff (rd_pos (read_data text)) (rd_pos (read_data gold))) as T.
  cbn zeta in T. rewrite T; clear T.
  - rewrite !rd_pos_spans.
    rewrite (Forall2_map (fun a b => forall x, In x a <-> In x b) (fun u => spans (tokens u))).
    apply (Forall2_lines_iff (fun t g => same_set (spans (tokens t)) (spans (tokens g))) tokens _ _ Hd).
    exact line_spans_same_iff.
  - rewrite !rd_pos_spans, !map_length. exact Hlen.
  - apply rd_pos_NoDup.
  - apply rd_pos_NoDup.
Qed.
Print Assumptions evaluate_token_perfect_iff.

(* ====================================================================== *)
(* 4. the F-score (and precision, recall) is 1 exactly for perfect counts  *)
(* ====================================================================== *)

Lemma Qdiv_inject_self d : d <> 0%Z -> (inject_Z d / inject_Z d == 1)%Q.
Proof.
  unfold Qeq, Qdiv, Qmult, Qinv, inject_Z. destruct d; cbn; lia.
Qed.

Lemma ratio_one_iff : forall a b, 0 < b ->
  ((exists q, ratio a b = Some q /\ (q == 1)%Q) <-> a = b).
Proof.
  intros a b Hb. destruct b as [|b]; [lia|]. cbn [ratio]. split.
  - intros (q & E & Hq). injection E as <-.
    apply Qdiv_inject_one in Hq as [_ Hq]. lia.
  - intros ->. eexists. split; [reflexivity|]. apply Qdiv_inject_self. lia.
Qed.

Theorem fscore_one_iff : forall c,
  c_correct c <= c_test c -> c_correct c <= c_gold c -> 0 < c_test c + c_gold c ->
  ((exists q, fscore c = Some q /\ (q == 1)%Q)
   <-> (c_correct c = c_test c /\ c_correct c = c_gold c)).
Proof.
  intros c H1 H2 H3. unfold fscore. rewrite (ratio_one_iff _ _ H3). lia.
Qed.
Print Assumptions fscore_one_iff.

Theorem precision_recall_one_iff : forall c,
  0 < c_test c -> 0 < c_gold c ->
  ((exists p, precision c = Some p /\ (p == 1)%Q) /\ (exists r, recall c = Some r /\ (r == 1)%Q))
  <-> (c_correct c = c_test c /\ c_correct c = c_gold c).
Proof.
  intros c H1 H2. unfold precision, recall.
  rewrite (ratio_one_iff _ _ H1), (ratio_one_iff _ _ H2). tauto.
Qed.
Print Assumptions precision_recall_one_iff.

(* ====================================================================== *)
(* 5. boundary evaluations                                                 *)
(* ====================================================================== *)

(* the end positions of the words *)
Fixpoint cums (idx : nat) (ws : list str) : list nat :=
  match ws with
  | [] => []
  | w :: r => (idx + length w) :: cums (idx + length w) r
  end.

Lemma cums_sorted : forall ws idx, wf ws ->
  StronglySorted lt (cums idx ws) /\ Forall (fun x => idx < x) (cums idx ws).
Proof.
  induction ws as [|w r IH]; intros idx W; cbn [cums]; [split; constructor|].
  apply wf_cons_inv in W as [L W]. destruct (IH (idx + length w) W) as [S F].
  split.
  - constructor; [exact S|exact F].
  - constructor; [lia|]. eapply Forall_impl; [|exact F]. cbn beta. intros x Hx. lia.
Qed.

Lemma cums_inj : forall ws1 ws2 idx, cums idx ws1 = cums idx ws2 ->
  map (@length _) ws1 = map (@length _) ws2.
Proof.
  induction ws1 as [|w1 r1 IH]; intros [|w2 r2] idx H; cbn [cums] in H; try discriminate.
  - reflexivity.
  - injection H as H1 H2. assert (E : length w1 = length w2) by lia.
    cbn [map]. f_equal; [exact E|]. rewrite <- E in H2. exact (IH r2 _ H2).
Qed.

Lemma sorted_same_set_eq : forall l1 l2 : list nat,
  StronglySorted lt l1 -> StronglySorted lt l2 -> same_set l1 l2 -> l1 = l2.
Proof.
  induction l1 as [|a l1 IH]; intros l2 S1 S2 H.
  - destruct l2 as [|b l2]; [reflexivity|]. exfalso. apply (proj2 (H b)). left; reflexivity.
  - destruct l2 as [|b l2]; [exfalso; apply (proj1 (H a)); left; reflexivity|].
    inversion S1 as [|? ? S1' F1]; subst. inversion S2 as [|? ? S2' F2]; subst.
    rewrite Forall_forall in F1, F2.
    assert (E : a = b).
    { destruct (proj1 (H a) (or_introl eq_refl)) as [E|Hin]; [symmetry; exact E|].
      destruct (proj2 (H b) (or_introl eq_refl)) as [E|Hin']; [exact E|].
      apply F2 in Hin. apply F1 in Hin'. lia. }
    subst b. f_equal. apply IH; [exact S1'|exact S2'|].
    intros x. split; intros Hx.
    + destruct (proj1 (H x) (or_intror Hx)) as [<-|Hin]; [|exact Hin].
      apply F1 in Hx. lia.
    + destruct (proj2 (H x) (or_intror Hx)) as [<-|Hin]; [|exact Hin].
      apply F2 in Hx. lia.
Qed.

(* all boundaries of a line: the start of the line and the end of each word *)
Definition all_bounds (idx : nat) (ws : list str) : list nat :=
  match ws with [] => [] | _ => idx :: cums idx ws end.

Lemma flat_bounds_In : forall ws idx x,
  In x (flat_map (fun p : nat * nat => [fst p; snd p]) (spans_from idx ws))
  <-> In x (all_bounds idx ws).
Proof.
  induction ws as [|w r IH]; intros idx x; [reflexivity|].
  cbn [spans_from flat_map fst snd app all_bounds cums In].
  rewrite (IH (idx + length w) x). destruct r as [|w' r']; cbn [all_bounds cums In]; tauto.
Qed.

Lemma bnd_all_In ws x : In x (bnd_all (spans ws)) <-> In x (all_bounds 0 ws).
Proof.
  unfold bnd_all, spans. rewrite (set_of_In Nat.eqb nat_eqb_spec). apply flat_bounds_In.
Qed.

Lemma all_bounds_sorted ws idx : wf ws -> StronglySorted lt (all_bounds idx ws).
Proof.
  intros W. destruct (cums_sorted ws idx W) as [S F].
  destruct ws as [|w r]; [constructor|]. unfold all_bounds. constructor; [exact S|exact F].
Qed.

Lemma bnd_all_same_set_eq (ws1 ws2 : list str) : wf ws1 -> wf ws2 ->
  same_set (bnd_all (spans ws1)) (bnd_all (spans ws2)) ->
  map (@length _) ws1 = map (@length _) ws2.
Proof.
  intros W1 W2 S.
  assert (E : all_bounds 0 ws1 = all_bounds 0 ws2).
  { apply sorted_same_set_eq; try (apply all_bounds_sorted; assumption).
    intros x. rewrite <- !bnd_all_In. apply S. }
  destruct ws1 as [|w1 r1], ws2 as [|w2 r2]; try discriminate; [reflexivity|].
  assert (E' : cums 0 (w1 :: r1) = cums 0 (w2 :: r2)) by (unfold all_bounds in E; congruence).
  exact (cums_inj _ _ _ E').
Qed.

Lemma line_bnd_all_same_iff (t g : str) : despace t = despace g ->
  (same_set (bnd_all (spans (tokens t))) (bnd_all (spans (tokens g))) <-> tokens t = tokens g).
Proof.
  intros Hd. split.
  - intros S. apply (tokens_determined t g Hd).
    apply bnd_all_same_set_eq; [apply wf_tokens|apply wf_tokens|exact S].
  - intros ->. intros x. tauto.
Qed.

Theorem evaluate_boundary_perfect_iff : forall text gold s,
  evaluate text gold None = Ok s ->
  (c_correct (s_ball s) = c_test (s_ball s) /\ c_correct (s_ball s) = c_gold (s_ball s))
  <-> map tokens (filter nonblank text) = map tokens (filter nonblank gold).
Proof.
  intros text gold s H. apply evaluate_None_inv in H as [[Hlen Hd] ->].
  unfold base_scores. cbn [s_ball]. unfold boundary_counts.
  pose proof (update_lists_perfect_iff Nat.eqb nat_eqb_spec
                (map bnd_all (rd_pos (read_data text))) (map bnd_all (rd_pos (read_data gold))) zero) as T.
  cbn zeta in T. rewrite T; clear T.
  - rewrite !rd_pos_spans, !map_map.
    rewrite (Forall2_map same_set (fun u => bnd_all (spans (tokens u)))).
    cbn [zero c_test c_gold c_correct].
    rewrite <- (Forall2_lines_iff
                  (fun t g => same_set (bnd_all (spans (tokens t))) (bnd_all (spans (tokens g))))
                  tokens _ _ Hd line_bnd_all_same_iff).
    tauto.
  - rewrite !map_length, !rd_pos_spans, !map_length. exact Hlen.
  - apply bnd_all_NoDup.
  - apply bnd_all_NoDup.
  - cbn; lia.
  - cbn; lia.
Qed.
Print Assumptions evaluate_boundary_perfect_iff.

(* ---------- the evaluation without the edges of the lines ---------- *)

(* cut D into words, the lengths of all but the last being given: the last
   word is what remains, without the whitespace around it *)
Fixpoint retok2 (D : str) (ns : list nat) : list str :=
  match ns with
  | [] => filter nonempty [strip D]
  | n :: r => firstn n (lstrip D) :: retok2 (skipn n (lstrip D)) r
  end.

Lemma strip_app_space (a X : str) : all_space a = true -> strip (a ++ X) = strip X.
Proof. intros H. unfold strip. rewrite (lstrip_app_space a X H). reflexivity. Qed.

Lemma retok2_app_space (a X : str) ns : all_space a = true -> retok2 (a ++ X) ns = retok2 X ns.
Proof.
  intros H. destruct ns as [|n r]; cbn [retok2].
  - rewrite (strip_app_space a X H). reflexivity.
  - rewrite (lstrip_app_space a X H). reflexivity.
Qed.

Lemma all_space_app (a b : str) : all_space (a ++ b) = all_space a && all_space b.
Proof. unfold all_space. apply forallb_app. Qed.

Lemma strip_middle (a b m : str) :
  all_space a = true -> all_space b = true ->
  (exists c w, m = c :: w /\ is_space c = false) ->
  (exists w c, m = w ++ [c] /\ is_space c = false) ->
  strip (a ++ m ++ b) = m.
Proof.
  intros Ha Hb (c & w & Em & Hc) (w' & c' & Em' & Hc').
  rewrite (strip_app_space a _ Ha). unfold strip.
  assert (L : lstrip (m ++ b) = m ++ b).
  { rewrite Em. cbn [app]. apply lstrip_head_nonspace. exact Hc. }
  rewrite L. unfold rstrip. rewrite rev_app_distr.
  rewrite (lstrip_app_space (rev b) _) by (rewrite all_space_rev; exact Hb).
  rewrite Em' at 1. rewrite rev_app_distr. cbn [rev app].
  rewrite (lstrip_head_nonspace c' _ Hc').
  change (c' :: rev w') with (rev [c'] ++ rev w'). rewrite <- rev_app_distr, rev_involutive.
  symmetry. exact Em'.
Qed.

Lemma retok2_pieces : forall pieces : list str,
  retok2 (concat pieces) (map (@length _) (removelast (filter nonempty (map strip pieces))))
  = filter nonempty (map strip pieces).
Proof.
  induction pieces as [|p rest IH]; [reflexivity|].
  cbn [concat map filter].
  destruct (strip_decomp p) as (a & b & E & Ha & Hb & Hs).
  remember (strip p) as m eqn:Em. clear Em. subst p.
  rewrite <- !app_assoc.
  destruct Hs as [->|[Hhd Htl]].
  - cbn [nonempty app]. rewrite !retok2_app_space by assumption. exact IH.
  - assert (Hne : nonempty m = true).
    { destruct Hhd as (c & w & -> & _). reflexivity. }
    rewrite Hne.
    destruct (filter nonempty (map strip rest)) as [|t1 T2] eqn:ET.
    + cbn [removelast map retok2] in IH |- *.
      assert (Hc : all_space (concat rest) = true).
      { apply strip_nil_iff. destruct (strip (concat rest)) as [|x y]; [reflexivity|].
        cbn [filter nonempty] in IH. discriminate. }
      rewrite (strip_middle a (b ++ concat rest) m Ha); try assumption.
      * cbn [filter]. rewrite Hne. reflexivity.
      * rewrite all_space_app, Hb, Hc. reflexivity.
    + change (removelast (m :: t1 :: T2)) with (m :: removelast (t1 :: T2)).
      cbn [map retok2]. rewrite (lstrip_app_space a _ Ha).
      assert (L : lstrip (m ++ b ++ concat rest) = m ++ b ++ concat rest).
      { destruct Hhd as (c & w & -> & Hc). cbn [app]. apply lstrip_head_nonspace. exact Hc. }
      rewrite L, firstn_length_app, skipn_length_app.
      rewrite (retok2_app_space b _ _ Hb). rewrite IH. reflexivity.
Qed.

Lemma tokens_retok2 (u : str) :
  tokens u = retok2 (despace u) (map (@length _) (removelast (tokens u))).
Proof.
  unfold tokens. rewrite filter_strip_filter.
  pose proof (split_go_sp_concat u []) as C. cbn [rev app] in C.
  unfold split_on. rewrite <- C. symmetry. apply retok2_pieces.
Qed.

(* consistent lines whose words but the last have the same lengths have the
   same words *)
Lemma tokens_determined_but_last (t g : str) :
  despace t = despace g ->
  map (@length _) (removelast (tokens t)) = map (@length _) (removelast (tokens g)) ->
  tokens t = tokens g.
Proof.
  intros Hd Hl. rewrite (tokens_retok2 t), (tokens_retok2 g), Hd, Hl. reflexivity.
Qed.

Lemma In_removelast {X} (l : list X) x : In x (removelast l) -> In x l.
Proof.
  induction l as [|y l IH]; [intros []|].
  cbn [removelast]. destruct l as [|z l]; [intros []|].
  intros [<-|H]; [left; reflexivity|right; exact (IH H)].
Qed.

Lemma wf_removelast ws : wf ws -> wf (removelast ws).
Proof.
  unfold wf. rewrite !Forall_forall. intros H x Hx. apply H, In_removelast, Hx.
Qed.

Lemma starts_cums : forall (r : list str) (w : str) idx,
  map fst (spans_from idx (w :: r)) = idx :: cums idx (removelast (w :: r)).
Proof.
  induction r as [|w' r' IH]; intros w idx; [reflexivity|].
  change (removelast (w :: w' :: r')) with (w :: removelast (w' :: r')).
  cbn [spans_from map fst cums] in IH |- *. rewrite (IH w' (idx + length w)). reflexivity.
Qed.

(* the boundaries inside a line: the ends of all words but the last *)
Lemma bnd_noedge_In ws x : wf ws ->
  (In x (bnd_noedge (spans ws)) <-> In x (cums 0 (removelast ws))).
Proof.
  intros W. unfold bnd_noedge. rewrite (set_of_In Nat.eqb nat_eqb_spec).
  assert (M : In x (map fst (filter (fun p : nat * nat => 0 <? fst p) (spans ws)))
              <-> (In x (map fst (spans ws)) /\ 0 < x)).
  { rewrite !in_map_iff. split.
    - intros (p & <- & Hp). apply filter_In in Hp as [Hp Hz]. apply Nat.ltb_lt in Hz.
      split; [exists p; split; [reflexivity|exact Hp]|exact Hz].
    - intros [(p & <- & Hp) Hz]. exists p. split; [reflexivity|].
      apply filter_In. split; [exact Hp|apply Nat.ltb_lt; exact Hz]. }
  rewrite M. destruct ws as [|w r].
  - cbn. tauto.
  - unfold spans. rewrite starts_cums.
    destruct (cums_sorted (removelast (w :: r)) 0 (wf_removelast _ W)) as [_ F].
    rewrite Forall_forall in F. cbn [In]. split.
    + intros [[<-|H] Hz]; [lia|exact H].
    + intros H. split; [right; exact H|apply F; exact H].
Qed.

Lemma bnd_noedge_same_set_eq (ws1 ws2 : list str) : wf ws1 -> wf ws2 ->
  same_set (bnd_noedge (spans ws1)) (bnd_noedge (spans ws2)) ->
  map (@length _) (removelast ws1) = map (@length _) (removelast ws2).
Proof.
  intros W1 W2 S. apply (cums_inj _ _ 0).
  apply sorted_same_set_eq.
  - apply cums_sorted, wf_removelast, W1.
  - apply cums_sorted, wf_removelast, W2.
  - intros x. rewrite <- (bnd_noedge_In ws1 x W1), <- (bnd_noedge_In ws2 x W2). apply S.
Qed.

Lemma line_bnd_noedge_same_iff (t g : str) : despace t = despace g ->
  (same_set (bnd_noedge (spans (tokens t))) (bnd_noedge (spans (tokens g))) <-> tokens t = tokens g).
Proof.
  intros Hd. split.
  - intros S. apply (tokens_determined_but_last t g Hd).
    apply bnd_noedge_same_set_eq; [apply wf_tokens|apply wf_tokens|exact S].
  - intros ->. intros x. tauto.
Qed.

(* The counts of the no-edge evaluation are equal (correct = test = gold)
   exactly for identical segmentations, too: on consistent lines the
   boundaries inside the line determine the words.  What is lost without an
   internal boundary is not this equivalence but the scores themselves: the
   three counts are then 0 and precision, recall and F-score are undefined
   (None), see [bnoedge_single_words_undefined] below. *)
Theorem evaluate_bnoedge_perfect_iff : forall text gold s,
  evaluate text gold None = Ok s ->
  (c_correct (s_bnoedge s) = c_test (s_bnoedge s) /\ c_correct (s_bnoedge s) = c_gold (s_bnoedge s))
  <-> map tokens (filter nonblank text) = map tokens (filter nonblank gold).
Proof.
  intros text gold s H. apply evaluate_None_inv in H as [[Hlen Hd] ->].
  unfold base_scores. cbn [s_bnoedge]. unfold boundary_noedge_counts.
  pose proof (update_lists_perfect_iff Nat.eqb nat_eqb_spec
                (map bnd_noedge (rd_pos (read_data text)))
                (map bnd_noedge (rd_pos (read_data gold))) zero) as T.
  cbn zeta in T. rewrite T; clear T.
  - rewrite !rd_pos_spans, !map_map.
    rewrite (Forall2_map same_set (fun u => bnd_noedge (spans (tokens u)))).
    cbn [zero c_test c_gold c_correct].
    rewrite <- (Forall2_lines_iff
                  (fun t g => same_set (bnd_noedge (spans (tokens t))) (bnd_noedge (spans (tokens g))))
                  tokens _ _ Hd line_bnd_noedge_same_iff).
    tauto.
  - rewrite !map_length, !rd_pos_spans, !map_length. exact Hlen.
  - apply bnd_noedge_NoDup.
  - apply bnd_noedge_NoDup.
  - cbn; lia.
  - cbn; lia.
Qed.
Print Assumptions evaluate_bnoedge_perfect_iff.

(* the scores of an accepted pair: F-score 1 iff identical segmentations *)
Corollary evaluate_token_fscore_one_iff : forall text gold s,
  evaluate text gold None = Ok s -> 0 < c_test (s_token s) + c_gold (s_token s) ->
  ((exists q, fscore (s_token s) = Some q /\ (q == 1)%Q)
   <-> map tokens (filter nonblank text) = map tokens (filter nonblank gold)).
Proof.
  intros text gold s H Hpos.
  rewrite <- (evaluate_token_perfect_iff text gold s H).
  destruct (evaluate_None_inv text gold s H) as [_ ->].
  apply fscore_one_iff; [| |exact Hpos]; apply token_counts_bounds.
Qed.
Print Assumptions evaluate_token_fscore_one_iff.

Corollary evaluate_boundary_fscore_one_iff : forall text gold s,
  evaluate text gold None = Ok s -> 0 < c_test (s_ball s) + c_gold (s_ball s) ->
  ((exists q, fscore (s_ball s) = Some q /\ (q == 1)%Q)
   <-> map tokens (filter nonblank text) = map tokens (filter nonblank gold)).
Proof.
  intros text gold s H Hpos.
  rewrite <- (evaluate_boundary_perfect_iff text gold s H).
  destruct (evaluate_None_inv text gold s H) as [_ ->].
  apply fscore_one_iff; [| |exact Hpos]; apply boundary_counts_bounds.
Qed.
Print Assumptions evaluate_boundary_fscore_one_iff.

Corollary evaluate_bnoedge_fscore_one_iff : forall text gold s,
  evaluate text gold None = Ok s -> 0 < c_test (s_bnoedge s) + c_gold (s_bnoedge s) ->
  ((exists q, fscore (s_bnoedge s) = Some q /\ (q == 1)%Q)
   <-> map tokens (filter nonblank text) = map tokens (filter nonblank gold)).
Proof.
  intros text gold s H Hpos.
  rewrite <- (evaluate_bnoedge_perfect_iff text gold s H).
  destruct (evaluate_None_inv text gold s H) as [_ ->].
  apply fscore_one_iff; [| |exact Hpos]; apply boundary_noedge_counts_bounds.
Qed.
Print Assumptions evaluate_bnoedge_fscore_one_iff.

(* ====================================================================== *)
(* 6. non-vacuity                                                          *)
(* ====================================================================== *)

(* "a b" against "ab": accepted, different segmentations, counts not perfect *)
Example token_not_perfect_example :
  exists s, evaluate [S_ [97;32;98]%Z] [S_ [97;98]%Z] None = Ok s /\
    s_token s = {| c_test := 2; c_gold := 1; c_correct := 0 |} /\
    s_ball s = {| c_test := 3; c_gold := 2; c_correct := 2 |} /\
    s_bnoedge s = {| c_test := 1; c_gold := 0; c_correct := 0 |} /\
    ~ (c_correct (s_token s) = c_test (s_token s) /\ c_correct (s_token s) = c_gold (s_token s)) /\
    map tokens (filter nonblank [S_ [97;32;98]%Z]) <> map tokens (filter nonblank [S_ [97;98]%Z]).
Proof.
  eexists. split; [vm_compute; reflexivity|]. cbn [s_token s_ball s_bnoedge].
  repeat split; try reflexivity.
  - cbn [c_test c_gold c_correct]. intros [H _]. discriminate.
  - vm_compute. discriminate.
Qed.

(* "a  b c" / "" / "de" against "a b  c" / "de" / " ": the same words, up to
   doubled spaces and blank lines; all three evaluations are perfect *)
Example token_perfect_example :
  let text := [S_ [97;32;32;98;32;99]%Z; []; S_ [100;101]%Z] in
  let gold := [S_ [97;32;98;32;32;99]%Z; S_ [100;101]%Z; S_ [32]%Z] in
  text <> gold /\
  map tokens (filter nonblank text) = map tokens (filter nonblank gold) /\
  exists s, evaluate text gold None = Ok s /\
    s_token s = {| c_test := 4; c_gold := 4; c_correct := 4 |} /\
    s_ball s = {| c_test := 6; c_gold := 6; c_correct := 6 |} /\
    s_bnoedge s = {| c_test := 2; c_gold := 2; c_correct := 2 |}.
Proof.
  cbn zeta. split; [vm_compute; discriminate|]. split; [vm_compute; reflexivity|].
  eexists. split; [vm_compute; reflexivity|]. cbn [s_token s_ball s_bnoedge].
  repeat split; reflexivity.
Qed.

(* one word per line on both sides: identical, the no-edge counts are equal
   (all 0) but the no-edge scores do not exist *)
Example bnoedge_single_words_undefined :
  exists s, evaluate [S_ [97;98]%Z] [S_ [97;98]%Z] None = Ok s /\
    s_bnoedge s = zero /\
    precision (s_bnoedge s) = None /\ recall (s_bnoedge s) = None /\ fscore (s_bnoedge s) = None.
Proof.
  eexists. split; [vm_compute; reflexivity|]. cbn [s_bnoedge]. repeat split; reflexivity.
Qed.

(* stripping matters: "a<TAB> b" and "a <TAB>b" are different strings with the
   same words; "a<TAB>b" is one word *)
Example token_perfect_tab_example :
  exists s, evaluate [S_ [97;9;32;98]%Z] [S_ [97;32;9;98]%Z] None = Ok s /\
    s_token s = {| c_test := 2; c_gold := 2; c_correct := 2 |} /\
  exists s', evaluate [S_ [97;9;32;98]%Z] [S_ [97;9;98]%Z] None = Ok s' /\
    s_token s' = {| c_test := 2; c_gold := 1; c_correct := 0 |}.
Proof.
  eexists. split; [vm_compute; reflexivity|]. split; [reflexivity|].
  eexists. split; [vm_compute; reflexivity|]. reflexivity.
Qed.
