(* One entry point for the correspondence check: numeric opcode + wire value. *)
From WS Require Import Base.Py.
From WS Require Folding.Model TP.Model Evaluate.Model Puddle.Model Separator.Model Dibs.Model Baseline.Model Prepare.Model Stats.Model Syll.Model AG.Model Dpseg.Model.

Definition dispatch (op : Z) (j : J) : J :=
  match op with
  | 701 => Folding.Model.run_boundaries j
  | 702 => Folding.Model.run_fold j
  | 703 => Folding.Model.run_unfold j
  | 704 => Folding.Model.run_fold_unfold j
  | 901 => TP.Model.run_segment j
  | 501 => Evaluate.Model.run_evaluate j
  | 502 => Evaluate.Model.run_class_labels j
  | 1201 => Evaluate.Model.run_summary j
  | 1101 => Puddle.Model.run_segment j
  | 1102 => Puddle.Model.run_history j
  | 801 => Separator.Model.run_separator j
  | 1001 => Dibs.Model.run_dibs j
  | 101 => Baseline.Model.run_baseline j
  | 102 => Baseline.Model.run_baseline_oracle j
  | 401 => Prepare.Model.run_check_utterance j
  | 402 => Prepare.Model.run_prepare j
  | 403 => Prepare.Model.run_gold j
  | 404 => Prepare.Model.run_prep_main j
  | 1301 => Stats.Model.run_stats j
  | 1401 => Syll.Model.run_syllabify j
  | 1402 => Syll.Model.run_syllabify_word j
  | 1501 => AG.Model.run_yield_parses j
  | 1502 => AG.Model.run_segment_outputs j
  | 1503 => AG.Model.run_nparses j
  | 1504 => AG.Model.run_setup_seed j
  | 1505 => AG.Model.run_emitted j
  | 1506 => AG.Model.run_grammar_phones j
  | 301 => Dpseg.Model.run_next_chars j
  | 302 => Dpseg.Model.run_bugfix j
  | 303 => Dpseg.Model.run_folds j
  | 304 => Dpseg.Model.run_segment_outputs j
  | _ => j_bad
  end%Z.
