(* Generic string lemmas for the Separator proofs (C08, layer 1):
   prefix / infix, first occurrence, split_on / replace_all on joined strings,
   strip and collapse_spaces on whitespace-free strings. *)
From WS Require Import Base.Py Base.Str Separator.Model Separator.Render.

(* ---------- lists ---------- *)

Lemma map_id_Forall {A} (f : A -> A) (l : list A) :
  Forall (fun a => f a = a) l -> map f l = l.
Proof.
  induction 1 as [|a l Ha _ IH]; cbn [map]; [reflexivity|]. now rewrite Ha, IH.
Qed.

Lemma filter_id_Forall {A} (f : A -> bool) (l : list A) :
  Forall (fun a => f a = true) l -> filter f l = l.
Proof.
  induction 1 as [|a l Ha _ IH]; cbn [filter]; [reflexivity|]. now rewrite Ha, IH.
Qed.

Lemma nonempty_true (s : str) : nonempty s = true <-> s <> [].
Proof. destruct s; cbn; split; congruence. Qed.

Lemma filter_nonempty_id (l : list str) :
  Forall (fun t : str => t <> []) l -> filter nonempty l = l.
Proof.
  intros H. apply filter_id_Forall. eapply Forall_impl; [|exact H].
  intros a Ha. now apply nonempty_true.
Qed.

Lemma Forall_concat {A} (P : A -> Prop) (l : list (list A)) :
  Forall (Forall P) l -> Forall P (concat l).
Proof.
  induction 1 as [|a l Ha _ IH]; cbn [concat]; [constructor|].
  apply Forall_app. now split.
Qed.

Lemma concat_nonnil_hd {A} (a : list A) (l : list (list A)) :
  a <> [] -> concat (a :: l) <> [].
Proof. destruct a; cbn; congruence. Qed.

(* ---------- prefix_b ---------- *)

Lemma prefix_b_app (x r : str) : prefix_b x (x ++ r) = true.
Proof.
  induction x as [|c x IH]; cbn [prefix_b app]; [reflexivity|].
  now rewrite N.eqb_refl, IH.
Qed.

Lemma prefix_b_refl (x : str) : prefix_b x x = true.
Proof. rewrite <- (app_nil_r x) at 2. apply prefix_b_app. Qed.

Lemma prefix_b_true (x s : str) : prefix_b x s = true -> exists r : str, s = x ++ r.
Proof.
  revert s; induction x as [|c x IH]; intros s H.
  - now exists s.
  - destruct s as [|d s]; cbn [prefix_b] in H; [discriminate|].
    apply andb_true_iff in H as [Hc Hx]. apply N.eqb_eq in Hc. subst d.
    destruct (IH s Hx) as [r ->]. now exists r.
Qed.

Lemma prefix_b_length (x s : str) : prefix_b x s = true -> length x <= length s.
Proof.
  intros H. destruct (prefix_b_true _ _ H) as [r ->]. rewrite app_length. lia.
Qed.

Lemma prefix_b_app_true (x a r : str) : prefix_b x a = true -> prefix_b x (a ++ r) = true.
Proof.
  intros H. destruct (prefix_b_true _ _ H) as [q ->]. rewrite <- app_assoc.
  apply prefix_b_app.
Qed.

(* the key locality fact: a match that would end inside [a] is decided by [a] *)
Lemma prefix_b_app_false (x a r : str) :
  prefix_b x a = false -> length x <= length a -> prefix_b x (a ++ r) = false.
Proof.
  revert a; induction x as [|c x IH]; intros a H L.
  - discriminate.
  - destruct a as [|d a]; cbn [length] in L; [lia|].
    cbn [prefix_b app] in *. destruct (c =? d)%N; cbn [andb] in *; [|reflexivity].
    apply IH; [exact H|lia].
Qed.

Lemma prefix_b_nil_r (x : str) : x <> [] -> prefix_b x [] = false.
Proof. destruct x; [congruence|reflexivity]. Qed.

Lemma prefix_b_hd (x s : str) (c : char) :
  prefix_b x (c :: s) = true -> x <> [] -> exists x' : str, x = c :: x'.
Proof.
  destruct x as [|d x]; [congruence|]. cbn [prefix_b]. intros H _.
  apply andb_true_iff in H as [H _]. apply N.eqb_eq in H. subst. now exists x.
Qed.

(* ---------- infix_b ---------- *)

Lemma infix_b_cons (x s : str) (c : char) :
  infix_b x (c :: s) = prefix_b x (c :: s) || infix_b x s.
Proof. reflexivity. Qed.

Lemma infix_b_nil (x : str) : infix_b x [] = prefix_b x [] || false.
Proof. reflexivity. Qed.

Lemma infix_b_false_prefix (x s : str) : infix_b x s = false -> prefix_b x s = false.
Proof.
  destruct s; [rewrite infix_b_nil|rewrite infix_b_cons]; intros H;
    now apply orb_false_iff in H.
Qed.

Lemma infix_b_false_app_r (x a b : str) : infix_b x (a ++ b) = false -> infix_b x b = false.
Proof.
  induction a as [|c a IH]; cbn [app]; [auto|].
  rewrite infix_b_cons. intros H. apply orb_false_iff in H as [_ H]. auto.
Qed.

Lemma infix_b_false_app_l (x a b : str) : infix_b x (a ++ b) = false -> infix_b x a = false.
Proof.
  induction a as [|c a IH]; cbn [app].
  - intros H. apply infix_b_false_prefix in H. rewrite infix_b_nil.
    destruct x; [discriminate H|reflexivity].
  - rewrite !infix_b_cons. intros H. apply orb_false_iff in H as [H1 H2].
    apply orb_false_iff. split; [|auto].
    destruct (prefix_b x (c :: a)) eqn:E; [|reflexivity].
    apply (prefix_b_app_true _ _ b) in E. cbn [app] in E. congruence.
Qed.

Lemma infix_b_false_nonnil (x s : str) : infix_b x s = false -> x <> [].
Proof. intros H ->. apply infix_b_false_prefix in H. discriminate. Qed.

(* every suffix of an x-free string is not headed by x *)
Lemma infix_b_false_suffix (x v u : str) : infix_b x (v ++ u) = false -> prefix_b x u = false.
Proof. intros H. apply infix_b_false_prefix. eapply infix_b_false_app_r; eauto. Qed.

(* ---------- first_occ / only_at_end ---------- *)

Lemma only_at_end_nil (x : str) : only_at_end x [] = true.
Proof.
  unfold only_at_end. cbn [app length].
  destruct x as [|c x]; [reflexivity|].
  cbn [first_occ]. now rewrite prefix_b_refl.
Qed.

Lemma only_at_end_cons (x t : str) (c : char) :
  only_at_end x (c :: t) = true <->
  prefix_b x (c :: t ++ x) = false /\ only_at_end x t = true.
Proof.
  unfold only_at_end. cbn [app length first_occ].
  destruct (prefix_b x (c :: t ++ x)).
  - cbn [Nat.eqb]. split; [discriminate|intros [? _]; discriminate].
  - destruct (first_occ x (t ++ x)) as [n|].
    + cbn [Nat.eqb]. split; [auto|now intros [_ ?]].
    + split; [discriminate|now intros [_ ?]].
Qed.

(* positional reading: no occurrence starts inside the token, whatever follows *)
Lemma only_at_end_suffix (x v u rest : str) :
  only_at_end x (v ++ u) = true -> u <> [] -> prefix_b x (u ++ x ++ rest) = false.
Proof.
  induction v as [|c v IH]; cbn [app]; intros H Hu.
  - destruct u as [|c u]; [congruence|].
    apply only_at_end_cons in H as [H _]. cbn [app].
    replace (c :: u ++ x ++ rest) with ((c :: u ++ x) ++ rest)
      by (cbn [app]; now rewrite <- app_assoc).
    apply prefix_b_app_false; [exact H|]. cbn [length]. rewrite app_length. lia.
  - apply only_at_end_cons in H as [_ H]. auto.
Qed.

Lemma only_at_end_suffix_closed (x v u : str) :
  only_at_end x (v ++ u) = true -> only_at_end x u = true.
Proof.
  induction v as [|c v IH]; cbn [app]; [auto|].
  intros H. apply only_at_end_cons in H as [_ H]. auto.
Qed.

Lemma only_at_end_no_infix (x t : str) :
  x <> [] -> only_at_end x t = true -> infix_b x t = false.
Proof.
  intros Hx. induction t as [|c t IH]; intros H.
  - rewrite infix_b_nil. now rewrite prefix_b_nil_r.
  - apply only_at_end_cons in H as [H1 H2]. rewrite infix_b_cons, IH by exact H2.
    rewrite orb_false_r. destruct (prefix_b x (c :: t)) eqn:E; [|reflexivity].
    apply (prefix_b_app_true _ _ x) in E. cbn [app] in E. congruence.
Qed.

Lemma only_at_end_no_prefix (x t : str) :
  x <> [] -> only_at_end x t = true -> prefix_b x t = false.
Proof. intros. now apply infix_b_false_prefix, only_at_end_no_infix. Qed.

(* ---------- split_on ---------- *)

Lemma split_go_0_cons (x s acc : str) (c : char) :
  split_go x (c :: s) 0 acc =
  if prefix_b x (c :: s) then rev acc :: split_go x s (length x - 1) []
  else split_go x s 0 (c :: acc).
Proof. reflexivity. Qed.

Lemma split_go_skip (x a rest acc : str) :
  split_go x (a ++ rest) (length a) acc = split_go x rest 0 acc.
Proof.
  induction a as [|c a IH]; cbn [app length split_go]; [|exact IH].
  destruct rest; reflexivity.
Qed.

Lemma split_go_at_sep (x rest acc : str) : x <> [] ->
  split_go x (x ++ rest) 0 acc = rev acc :: split_go x rest 0 [].
Proof.
  intros Hx. destruct x as [|c x]; [congruence|].
  change ((c :: x) ++ rest) with (c :: x ++ rest). rewrite split_go_0_cons.
  change (c :: x ++ rest) with ((c :: x) ++ rest). rewrite prefix_b_app.
  replace (length (c :: x) - 1) with (length x) by (cbn [length]; lia).
  now rewrite split_go_skip.
Qed.

Lemma only_at_end_split_go (x t rest acc : str) : x <> [] ->
  only_at_end x t = true ->
  split_go x (t ++ x ++ rest) 0 acc = (rev acc ++ t) :: split_go x rest 0 [].
Proof.
  intros Hx. revert acc. induction t as [|c t IH]; intros acc H.
  - cbn [app]. rewrite app_nil_r. now apply split_go_at_sep.
  - pose proof (only_at_end_suffix x [] (c :: t) rest H ltac:(discriminate)) as Hp.
    apply only_at_end_cons in H as [_ H].
    cbn [app] in *. rewrite split_go_0_cons, Hp, IH by exact H.
    cbn [rev]. now rewrite <- app_assoc.
Qed.

Lemma no_infix_split_go (x t acc : str) :
  infix_b x t = false -> split_go x t 0 acc = [rev acc ++ t].
Proof.
  revert acc. induction t as [|c t IH]; intros acc H.
  - cbn [split_go]. now rewrite app_nil_r.
  - rewrite infix_b_cons in H. apply orb_false_iff in H as [H1 H2].
    rewrite split_go_0_cons, H1, IH by exact H2. cbn [rev]. now rewrite <- app_assoc.
Qed.

Lemma split_on_no_infix (x t : str) : infix_b x t = false -> split_on x t = [t].
Proof. intros H. unfold split_on. now rewrite no_infix_split_go. Qed.

Definition terminated (x : str) (toks : list str) : str :=
  concat (map (fun t : str => t ++ x) toks).

Lemma terminated_cons (x t : str) (toks : list str) :
  terminated x (t :: toks) = t ++ x ++ terminated x toks.
Proof. unfold terminated. cbn [map concat]. now rewrite <- app_assoc. Qed.

Theorem split_on_joined_rest : forall (x : str) (toks : list str) (rest : str), x <> [] ->
  Forall (fun t : str => only_at_end x t = true) toks ->
  split_on x (concat (map (fun t : str => t ++ x) toks) ++ rest) = toks ++ split_on x rest.
Proof.
  intros x toks rest Hx H. induction H as [|t toks Ht _ IH]; [reflexivity|].
  change (concat (map (fun t : str => t ++ x) (t :: toks))) with (terminated x (t :: toks)).
  rewrite terminated_cons, <- !app_assoc. unfold split_on at 1.
  rewrite only_at_end_split_go by assumption. cbn [rev app]. f_equal. exact IH.
Qed.

Theorem split_on_joined : forall (x : str) (toks : list str), x <> [] ->
  Forall (fun t : str => only_at_end x t = true) toks ->
  split_on x (concat (map (fun t : str => t ++ x) toks)) = toks ++ [[]].
Proof.
  intros x toks Hx H.
  rewrite <- (app_nil_r (concat _)). now rewrite split_on_joined_rest.
Qed.

(* the separator between the tokens only (Python's x.join(toks)) *)
Theorem split_on_join : forall (x : str) (toks : list str) (last : str), x <> [] ->
  Forall (fun t : str => only_at_end x t = true) toks -> infix_b x last = false ->
  split_on x (concat (map (fun t : str => t ++ x) toks) ++ last) = toks ++ [last].
Proof.
  intros x toks last Hx H Hl. rewrite split_on_joined_rest by assumption.
  now rewrite split_on_no_infix.
Qed.

(* ---------- replace_all ---------- *)

Lemma replace_go_0_cons (x new s : str) (c : char) :
  replace_go x new (c :: s) 0 =
  if prefix_b x (c :: s) then new ++ replace_go x new s (length x - 1)
  else c :: replace_go x new s 0.
Proof. reflexivity. Qed.

Lemma replace_go_skip (x new a rest : str) :
  replace_go x new (a ++ rest) (length a) = replace_go x new rest 0.
Proof.
  induction a as [|c a IH]; cbn [app length replace_go]; [|exact IH].
  destruct rest; reflexivity.
Qed.

Lemma replace_go_at_sep (x new rest : str) : x <> [] ->
  replace_go x new (x ++ rest) 0 = new ++ replace_go x new rest 0.
Proof.
  intros Hx. destruct x as [|c x]; [congruence|].
  change ((c :: x) ++ rest) with (c :: x ++ rest). rewrite replace_go_0_cons.
  change (c :: x ++ rest) with ((c :: x) ++ rest). rewrite prefix_b_app.
  replace (length (c :: x) - 1) with (length x) by (cbn [length]; lia).
  now rewrite replace_go_skip.
Qed.

Lemma only_at_end_replace_go (x new t rest : str) : x <> [] ->
  only_at_end x t = true ->
  replace_go x new (t ++ x ++ rest) 0 = t ++ new ++ replace_go x new rest 0.
Proof.
  intros Hx. induction t as [|c t IH]; intros H.
  - cbn [app]. now apply replace_go_at_sep.
  - pose proof (only_at_end_suffix x [] (c :: t) rest H ltac:(discriminate)) as Hp.
    apply only_at_end_cons in H as [_ H].
    cbn [app] in *. now rewrite replace_go_0_cons, Hp, IH by exact H.
Qed.

Lemma no_infix_replace_go (x new t : str) :
  infix_b x t = false -> replace_go x new t 0 = t.
Proof.
  induction t as [|c t IH]; intros H; [reflexivity|].
  rewrite infix_b_cons in H. apply orb_false_iff in H as [H1 H2].
  now rewrite replace_go_0_cons, H1, IH by exact H2.
Qed.

Lemma replace_all_go (x new s : str) : x <> [] -> replace_all x new s = replace_go x new s 0.
Proof. destruct x; [congruence|reflexivity]. Qed.

Lemma replace_all_no_infix (x new t : str) : infix_b x t = false -> replace_all x new t = t.
Proof.
  intros H. rewrite replace_all_go by (eapply infix_b_false_nonnil; eauto).
  now apply no_infix_replace_go.
Qed.

Theorem replace_all_joined_rest : forall (x : str) (toks : list str) (rest : str), x <> [] ->
  Forall (fun t : str => only_at_end x t = true) toks ->
  replace_all x [] (concat (map (fun t : str => t ++ x) toks) ++ rest)
  = concat toks ++ replace_all x [] rest.
Proof.
  intros x toks rest Hx H. rewrite !replace_all_go by exact Hx.
  induction H as [|t toks Ht _ IH]; [reflexivity|].
  change (concat (map (fun t : str => t ++ x) (t :: toks))) with (terminated x (t :: toks)).
  rewrite terminated_cons, <- !app_assoc.
  rewrite only_at_end_replace_go by assumption. cbn [app concat].
  rewrite <- app_assoc. f_equal. exact IH.
Qed.

Theorem replace_all_joined : forall (x : str) (toks : list str), x <> [] ->
  Forall (fun t : str => only_at_end x t = true) toks ->
  replace_all x [] (concat (map (fun t : str => t ++ x) toks)) = concat toks.
Proof.
  intros x toks Hx H. rewrite <- (app_nil_r (concat (map _ _))).
  rewrite replace_all_joined_rest by assumption.
  rewrite replace_all_go by exact Hx. cbn [replace_go]. apply app_nil_r.
Qed.

(* ---------- whitespace ---------- *)

Definition ws_free (s : str) : Prop := Forall (fun c : char => is_space c = false) s.

Lemma ws_free_app (a b : str) : ws_free (a ++ b) <-> ws_free a /\ ws_free b.
Proof. apply Forall_app. Qed.

Lemma ws_free_concat (l : list str) : Forall ws_free l -> ws_free (concat l).
Proof. apply Forall_concat. Qed.

(* neither the first nor the last character is whitespace *)
Definition clean_ends (s : str) : Prop := lstrip s = s /\ lstrip (rev s) = rev s.

Lemma strip_clean_ends (s : str) : clean_ends s -> strip s = s.
Proof.
  intros [H1 H2]. unfold strip, rstrip. rewrite H1, H2. apply rev_involutive.
Qed.

Lemma lstrip_ws_free (s : str) : ws_free s -> lstrip s = s.
Proof.
  intros H. destruct H as [|c s Hc _]; [reflexivity|]. cbn [lstrip]. now rewrite Hc.
Qed.

Lemma ws_free_rev (s : str) : ws_free s -> ws_free (rev s).
Proof. apply Forall_rev. Qed.

Lemma ws_free_clean_ends (s : str) : ws_free s -> clean_ends s.
Proof.
  intros H. split; apply lstrip_ws_free; [exact H|now apply ws_free_rev].
Qed.

Lemma strip_ws_free (s : str) : ws_free s -> strip s = s.
Proof. intros H. now apply strip_clean_ends, ws_free_clean_ends. Qed.

Lemma lstrip_hd (c : char) (s : str) : is_space c = false -> lstrip (c :: s) = c :: s.
Proof. intros H. cbn [lstrip]. now rewrite H. Qed.

(* a string that starts with a non-space token and ends with a non-space token *)
Lemma clean_ends_app (a m b : str) :
  a <> [] -> b <> [] -> lstrip a = a -> lstrip (rev b) = rev b -> clean_ends (a ++ m ++ b).
Proof.
  intros Ha Hb H1 H2. split.
  - destruct a as [|c a]; [congruence|]. cbn [lstrip app] in *.
    destruct (is_space c) eqn:E; [|reflexivity].
    exfalso. assert (L : length (lstrip a) <= length a).
    { clear. induction a as [|d a IH]; cbn [lstrip]; [lia|].
      destruct (is_space d); cbn [length]; lia. }
    rewrite H1 in L. cbn [length] in L. lia.
  - rewrite !rev_app_distr.
    destruct (rev b) as [|c b'] eqn:Eb.
    { apply (f_equal (@rev char)) in Eb. rewrite rev_involutive in Eb. cbn in Eb. congruence. }
    rewrite <- !app_assoc. cbn [lstrip app] in *.
    destruct (is_space c) eqn:E; [|reflexivity].
    exfalso. assert (L : length (lstrip b') <= length b').
    { clear. induction b' as [|d a IH]; cbn [lstrip]; [lia|].
      destruct (is_space d); cbn [length]; lia. }
    rewrite H2 in L. cbn [length] in L. lia.
Qed.

Lemma is_space_sp : is_space sp = true.
Proof. reflexivity. Qed.

Lemma collapse_spaces_no_sp (s : str) :
  Forall (fun c : char => (c =? sp)%N = false) s -> collapse_spaces s = s.
Proof.
  induction 1 as [|c s Hc _ IH]; [reflexivity|].
  cbn [collapse_spaces]. now rewrite Hc, IH.
Qed.

Lemma ws_free_no_sp (s : str) : ws_free s -> Forall (fun c : char => (c =? sp)%N = false) s.
Proof.
  apply Forall_impl. intros c H. destruct (N.eqb_spec c sp) as [->|]; [|reflexivity].
  rewrite is_space_sp in H. discriminate.
Qed.

Lemma collapse_spaces_ws_free (s : str) : ws_free s -> collapse_spaces s = s.
Proof. intros H. now apply collapse_spaces_no_sp, ws_free_no_sp. Qed.

(* ---------- first / last character ---------- *)

Definition starts_ok (s : str) : Prop := lstrip s = s.
Definition ends_ok (s : str) : Prop := lstrip (rev s) = rev s.

Lemma clean_ends_iff (s : str) : clean_ends s <-> starts_ok s /\ ends_ok s.
Proof. reflexivity. Qed.

Lemma lstrip_length (s : str) : length (lstrip s) <= length s.
Proof.
  induction s as [|c s IH]; cbn [lstrip]; [lia|].
  destruct (is_space c); cbn [length]; lia.
Qed.

Lemma starts_ok_hd (c : char) (s : str) : starts_ok (c :: s) <-> is_space c = false.
Proof.
  unfold starts_ok. cbn [lstrip]. destruct (is_space c); split; try congruence; auto.
  intros H. pose proof (lstrip_length s) as L. rewrite H in L. cbn [length] in L. lia.
Qed.

Lemma starts_ok_app (a r : str) : a <> [] -> starts_ok a -> starts_ok (a ++ r).
Proof.
  destruct a as [|c a]; [congruence|]. intros _ H. cbn [app].
  apply starts_ok_hd. now apply starts_ok_hd in H.
Qed.

Lemma ends_ok_app (r b : str) : b <> [] -> ends_ok b -> ends_ok (r ++ b).
Proof.
  intros Hb H. unfold ends_ok in *. rewrite rev_app_distr.
  apply starts_ok_app; [|exact H].
  intros E. apply (f_equal (@rev char)) in E. rewrite rev_involutive in E. now cbn in E.
Qed.

Lemma ws_free_starts_ok (s : str) : ws_free s -> starts_ok s.
Proof. apply lstrip_ws_free. Qed.

Lemma ws_free_ends_ok (s : str) : ws_free s -> ends_ok s.
Proof. intros H. apply lstrip_ws_free. now apply ws_free_rev. Qed.

Lemma starts_ok_concat (l : list str) :
  l <> [] -> Forall (fun s : str => s <> [] /\ starts_ok s) l -> starts_ok (concat l).
Proof.
  intros Hl H. destruct H as [|a l [Ha Hs] _]; [congruence|].
  cbn [concat]. now apply starts_ok_app.
Qed.

Lemma concat_nonnil_Forall (l : list str) :
  l <> [] -> Forall (fun s : str => s <> []) l -> concat l <> [].
Proof.
  intros Hl H. destruct H as [|a l Ha _]; [congruence|]. now apply concat_nonnil_hd.
Qed.

Lemma ends_ok_concat (l : list str) :
  l <> [] -> Forall (fun s : str => s <> [] /\ ends_ok s) l -> ends_ok (concat l).
Proof.
  intros Hl H. induction H as [|a l [Ha Hs] Hr IH]; [congruence|].
  cbn [concat]. destruct l as [|b l].
  - cbn [concat]. now rewrite app_nil_r.
  - apply ends_ok_app; [|apply IH; discriminate].
    apply concat_nonnil_Forall; [discriminate|].
    eapply Forall_impl; [|exact Hr]. now intros s [Hs' _].
Qed.

(* ---------- concat / terminated algebra ---------- *)

Lemma concat_concat {A} (ll : list (list (list A))) :
  concat (concat ll) = concat (map (@concat A) ll).
Proof.
  induction ll as [|l ll IH]; [reflexivity|].
  cbn [concat map]. now rewrite concat_app, IH.
Qed.

Lemma terminated_nil (x : str) : terminated x [] = [].
Proof. reflexivity. Qed.

Lemma terminated_app (x : str) (l m : list str) :
  terminated x (l ++ m) = terminated x l ++ terminated x m.
Proof. unfold terminated. now rewrite map_app, concat_app. Qed.

Lemma terminated_one (x t : str) : terminated x [t] = t ++ x.
Proof. unfold terminated. cbn [map concat]. apply app_nil_r. Qed.

Lemma concat_terminated (x : str) (ll : list (list str)) :
  concat (map (terminated x) ll) = terminated x (concat ll).
Proof.
  induction ll as [|l ll IH]; [reflexivity|].
  cbn [map concat]. now rewrite terminated_app, IH.
Qed.

Lemma terminated_nonnil (x : str) (l : list str) : l <> [] -> x <> [] -> terminated x l <> [].
Proof.
  destruct l as [|t l]; [congruence|]. intros _ Hx. rewrite terminated_cons.
  destruct t; cbn [app]; [|discriminate]. destruct x; [congruence|discriminate].
Qed.


(* ---------- infix_b inside concatenations ---------- *)

Lemma infix_b_false_In_concat (x a : str) (l : list str) :
  infix_b x (concat l) = false -> In a l -> infix_b x a = false.
Proof.
  intros H Hin. apply in_split in Hin as (l1 & l2 & ->).
  rewrite concat_app in H. cbn [concat] in H.
  apply infix_b_false_app_r in H. now apply infix_b_false_app_l in H.
Qed.

Lemma infix_b_false_In_terminated (x y a : str) (l : list str) :
  infix_b x (terminated y l) = false -> In a l -> infix_b x a = false.
Proof.
  intros H Hin. unfold terminated in H.
  apply (infix_b_false_In_concat x (a ++ y)) in H.
  - now apply infix_b_false_app_l in H.
  - apply in_map_iff. now exists a.
Qed.

(* ---------- flat_map ---------- *)

Lemma flat_map_ext_Forall {A B} (f g : A -> list B) (l : list A) :
  Forall (fun a => f a = g a) l -> flat_map f l = flat_map g l.
Proof.
  induction 1 as [|a l Ha _ IH]; cbn [flat_map]; [reflexivity|]. now rewrite Ha, IH.
Qed.

Lemma flat_map_map {A B C} (f : B -> list C) (g : A -> B) (l : list A) :
  flat_map f (map g l) = flat_map (fun a => f (g a)) l.
Proof. induction l as [|a l IH]; cbn [map flat_map]; [reflexivity|]. now rewrite IH. Qed.

Lemma flat_map_id_concat {A} (l : list (list A)) : flat_map (fun a => a) l = concat l.
Proof. induction l as [|a l IH]; cbn [flat_map concat]; [reflexivity|]. now rewrite IH. Qed.

Lemma map_ext_Forall {A B} (f g : A -> B) (l : list A) :
  Forall (fun a => f a = g a) l -> map f l = map g l.
Proof.
  induction 1 as [|a l Ha _ IH]; cbn [map]; [reflexivity|]. now rewrite Ha, IH.
Qed.
