(* C08, layer 3: three defined levels where the phone separator consists of whitespace
   only (wordseg's default phone separator is one space).  The per-token strip() then
   removes the last phone separator of every syllable, and the phone-level split sees
   the phones joined by the separator without a trailing one. *)
From WS Require Import Base.Py Base.Str Separator.Model Separator.Render.
From WS Require Import Separator.StrLemmas Separator.StripLemmas Separator.ProofsTree
  Separator.ProofsTreeStrip Separator.ProofsNested.

Definition ws_only (x : str) : Prop := Forall (fun c : char => is_space c = true) x.

Lemma lstrip_ws_only_app (r b : str) : ws_only r -> lstrip (r ++ b) = lstrip b.
Proof.
  induction 1 as [|c r Hc _ IH]; [reflexivity|]. cbn [app lstrip]. now rewrite Hc.
Qed.

Lemma strip_trailing_ws (j r : str) : j <> [] -> clean_ends j -> ws_only r -> strip (j ++ r) = j.
Proof.
  intros Hn [H1 H2] Hr. unfold strip, rstrip.
  rewrite (starts_ok_app j r Hn H1), rev_app_distr.
  rewrite lstrip_ws_only_app by now apply Forall_rev.
  rewrite H2. apply rev_involutive.
Qed.

(* one level of tokenization when only the separator-freeness of the tokens is known *)
Lemma tok1_terminated_strip (sep : separator) (l : level) (x : str) (toks : list str) :
  get_level sep l = Some x -> x <> [] ->
  Forall (fun t : str => t <> [] /\ only_at_end x t = true) toks ->
  tok1 sep (terminated x toks) l = map strip toks.
Proof.
  intros Hl Hx H. unfold tok1. rewrite Hl. unfold terminated.
  rewrite split_on_joined; [|exact Hx|].
  2:{ eapply Forall_impl; [|exact H]. now intros t (_ & Ht). }
  rewrite filter_app. cbn [filter nonempty]. rewrite app_nil_r.
  rewrite filter_nonempty_id.
  2:{ eapply Forall_impl; [|exact H]. now intros t (Ht & _). }
  apply map_ext_Forall. eapply Forall_impl; [|exact H].
  intros t (Hn & Ho). apply only_at_end_no_infix in Ho; [|exact Hx].
  unfold strip_with.
  rewrite strip_prefix_no_infix, strip_suffix_no_infix; try reflexivity;
    (constructor; [exact Ho|constructor]).
Qed.

Lemma tok1_joined (sep : separator) (l : level) (x : str) (init : list str) (last : str) :
  get_level sep l = Some x -> x <> [] ->
  Forall (fun t : str => t <> [] /\ clean_ends t /\ only_at_end x t = true) (init ++ [last]) ->
  tok1 sep (terminated x init ++ last) l = init ++ [last].
Proof.
  intros Hl Hx H. unfold tok1. rewrite Hl. unfold terminated.
  pose proof H as H'. apply Forall_app in H' as [Hi Hla]. inversion Hla as [|? ? (Hln & Hlc & Hlo) _]; subst.
  rewrite split_on_join; [|exact Hx| |now apply only_at_end_no_infix].
  2:{ eapply Forall_impl; [|exact Hi]. now intros t (_ & _ & Ht). }
  rewrite filter_nonempty_id.
  2:{ eapply Forall_impl; [|exact H]. now intros t (Ht & _). }
  apply map_id_Forall. eapply Forall_impl; [|exact H].
  intros t (Hn & Hc & Ho). apply strip_with_id; [|exact Hc].
  constructor; [now apply only_at_end_no_infix|constructor].
Qed.

Section ThreeWs.
  Variables xp xs xw : str.
  Hypothesis Hxp : xp <> [].
  Hypothesis Hxs : xs <> [].
  Hypothesis Hxw : xw <> [].
  Hypothesis Hes : ends_ok xs.
  Hypothesis Hwp : ws_only xp.

  Let sep := sep3 xp xs xw.
  Let seps := [xw; xs; xp].
  Let regions := [xp; xp ++ xs].

  (* a syllable without its last phone separator *)
  Lemma syl_strip (init : list str) (ph : str) : Forall (phone_ok xp) (init ++ [ph]) ->
    strip (terminated xp (init ++ [ph])) = terminated xp init ++ ph /\
    clean_ends (terminated xp init ++ ph) /\ terminated xp init ++ ph <> [].
  Proof.
    intros H. pose proof H as H'. apply Forall_app in H' as [Hi Hl].
    inversion Hl as [|? ? (Hn & Hws & _) _]; subst.
    assert (Hne : terminated xp init ++ ph <> []).
    { intros E. apply app_eq_nil in E as [_ E]. congruence. }
    assert (Hc : clean_ends (terminated xp init ++ ph)).
    { split.
      - destruct Hi as [|q init (Hq & Hqw & _) _]; cbn [app].
        + rewrite terminated_nil. now apply ws_free_starts_ok.
        + rewrite terminated_cons, <- !app_assoc.
          apply starts_ok_app; [exact Hq|now apply ws_free_starts_ok].
      - apply ends_ok_app; [exact Hn|now apply ws_free_ends_ok]. }
    split; [|split; assumption].
    rewrite terminated_app, terminated_one, app_assoc. now apply strip_trailing_ws.
  Qed.

  Lemma tok1_syllW (w : list (list str)) : word_ok xp xs xw w ->
    tok1 sep (word_body xp xs w) Syll = map (fun syl : list str => strip (terminated xp syl)) w.
  Proof.
    intros (_ & Hs & _). unfold word_body.
    rewrite (tok1_terminated_strip sep Syll xs); [now rewrite map_map|reflexivity|exact Hxs|].
    apply Forall_map. eapply Forall_impl; [|exact Hs]. intros syl (Hn & _ & Ho).
    split; [now apply terminated_nonnil|exact Ho].
  Qed.

  Lemma tok1_phoneW (syl : list str) : syl_ok xp xs syl ->
    tok1 sep (strip (terminated xp syl)) Phone = syl.
  Proof.
    intros (Hn & Hp & _). destruct (exists_last Hn) as (init & ph & ->).
    destruct (syl_strip init ph Hp) as (E & _). rewrite E.
    apply tok1_joined; [reflexivity|exact Hxp|].
    eapply Forall_impl; [|exact Hp]. intros q (H1 & H2 & H3).
    split; [exact H1|split; [now apply ws_free_clean_ends|exact H3]].
  Qed.

  Lemma flat_syllW (t : utree) : tree_ok xp xs xw t ->
    flat_map (fun w : str => tok1 sep w Syll) (map (word_body xp xs) t)
    = map (fun syl : list str => strip (terminated xp syl)) (concat t).
  Proof.
    intros H. rewrite flat_map_map.
    rewrite (flat_map_ext_Forall _ (fun w => map (fun syl : list str => strip (terminated xp syl)) w)).
    2:{ eapply Forall_impl; [|exact H]. intros w. apply tok1_syllW. }
    now rewrite flat_map_concat_map, <- concat_map.
  Qed.

  Lemma flat_phoneW (t : utree) : tree_ok xp xs xw t ->
    flat_map (fun s : str => tok1 sep s Phone)
             (map (fun syl : list str => strip (terminated xp syl)) (concat t))
    = concat (concat t).
  Proof.
    intros H. rewrite flat_map_map.
    rewrite (flat_map_ext_Forall _ (fun syl => syl)).
    2:{ eapply Forall_impl; [|exact (tree_ok_sylls xp xs xw t H)]. intros syl. apply tok1_phoneW. }
    apply flat_map_id_concat.
  Qed.

  Theorem tokenize_phone3_ws : forall (t : utree) (keep : bool), tree_ok xp xs xw t ->
    tokenize sep (render sep t) Phone keep = Ok (concat (map (@concat str) t)).
  Proof.
    intros t keep H. unfold sep. rewrite tokenize3_phone. cbv zeta. fold sep.
    rewrite (tok1_word3 xp xs xw), flat_syllW, flat_phoneW by assumption.
    pose proof (tree_ok_phones xp xs xw Hxp Hxs Hxw t H) as Hph.
    rewrite (map_id_Forall (strip_with [xw; xs; xp])).
    2:{ eapply Forall_impl; [|exact Hph]. apply phone_full_strip. }
    rewrite <- concat_concat. f_equal.
    assert (Hne : filter nonempty (concat (concat t)) = concat (concat t)).
    { apply filter_nonempty_id. eapply Forall_impl; [|exact Hph]. now intros ph (Hn & _). }
    destruct keep; [exact Hne|].
    rewrite (map_id_Forall (remove_all sep)); [exact Hne|].
    eapply Forall_impl; [|exact Hph]. apply phone_full_remove.
  Qed.

  Theorem tokenize_nested3_ws : forall t : utree, tree_ok xp xs xw t ->
    tokenize_nested sep (render sep t) = Ok (tree_of t).
  Proof.
    intros t H. unfold sep. rewrite tokenize_nested3_unfold. cbv zeta. fold sep.
    rewrite (tok1_word3 xp xs xw) by assumption. unfold tree_of. do 3 f_equal.
    rewrite map_map. apply map_id_Forall.
    eapply Forall_impl; [|exact H]. intros w Hw.
    rewrite tok1_syllW by assumption. rewrite map_map. apply map_id_Forall.
    destruct Hw as (_ & Hs & _). eapply Forall_impl; [|exact Hs].
    intros syl Hsy. now apply tok1_phoneW.
  Qed.

  Theorem tokenize_nested_flatten3_ws : forall (t : utree) (keep : bool), tree_ok xp xs xw t ->
    exists tr : tree,
      tokenize_nested sep (render sep t) = Ok tr /\
      tokenize sep (render sep t) Phone keep = Ok (leaves tr).
  Proof.
    intros t keep H. exists (tree_of t). split; [now apply tokenize_nested3_ws|].
    rewrite leaves_tree_of. now apply tokenize_phone3_ws.
  Qed.

  (* ---- syllable level ---- *)

  Hypothesis NB : forall x R : str, In x seps -> In R regions -> no_border x R.

  Let seps_ne : Forall (fun x : str => x <> []) seps.
  Proof. repeat constructor; assumption. Qed.

  Lemma syl_strip_remove_ws (syl : list str) : syl_facts xp xs xw syl ->
    remove_all sep (strip_with seps (strip (terminated xp syl))) = concat syl.
  Proof.
    intros ((Hn & Hp & Hy) & Hh & Hw).
    pose proof (good_phones xp xs xw syl Hp Hh) as Hg. fold seps in Hg.
    assert (Hpo : Forall (fun ph : str => only_at_end xp ph = true) syl).
    { eapply Forall_impl; [|exact Hp]. now intros ph (_ & _ & Ho). }
    assert (Hws : Forall ws_free syl).
    { eapply Forall_impl; [|exact Hp]. now intros ph (_ & Hw' & _). }
    apply only_at_end_no_infix in Hy; [|exact Hxs].
    destruct (exists_last Hn) as (init & ph & ->).
    destruct (syl_strip init ph Hp) as (E & Hc & Hne). rewrite E.
    apply Forall_app in Hg as [Hgi Hgp]. inversion Hgp as [|? ? Hgph _]; subst.
    apply Forall_app in Hpo as [Hpoi Hpop]. inversion Hpop as [|? ? Hoph _]; subst.
    apply Forall_app in Hws as [Hwsi Hwsp]. inversion Hwsp as [|? ? Hwph _]; subst.
    assert (Hstrip : strip_with seps (terminated xp init ++ ph) = terminated xp init ++ ph).
    { unfold strip_with, seps. fold seps.
      rewrite strip_prefix_phone_headed; [|exact seps_ne|].
      2:{ destruct init as [|q init].
          - rewrite terminated_nil. cbn [app]. exists ph, []. split; [now rewrite app_nil_r|exact Hgph].
          - apply phone_headed_terminated; [discriminate|exact Hgi]. }
      rewrite (walk_joined seps seps_ne regions NB); try assumption; [|cbn; now auto].
      now apply strip_clean_ends. }
    rewrite Hstrip. unfold sep. rewrite remove_all3.
    assert (E2 : terminated xp (init ++ [ph]) = (terminated xp init ++ ph) ++ xp).
    { now rewrite terminated_app, terminated_one, app_assoc. }
    rewrite E2 in Hw, Hy.
    apply infix_b_false_app_l in Hw. apply infix_b_false_app_l in Hy.
    rewrite (replace_all_no_infix xw) by exact Hw.
    rewrite (replace_all_no_infix xs) by exact Hy.
    unfold terminated. rewrite replace_all_joined_rest by assumption.
    rewrite (replace_all_no_infix xp) by now apply only_at_end_no_infix.
    rewrite concat_app. cbn [concat]. rewrite app_nil_r.
    apply collapse_spaces_ws_free, ws_free_app. split; [|exact Hwph].
    now apply ws_free_concat.
  Qed.

  Theorem tokenize_syll3_ws : forall t : utree, tree_ok xp xs xw t -> tree_hf xp xs xw t ->
    tokenize sep (render sep t) Syll false = Ok (concat (map (map syll_plain) t)).
  Proof.
    intros t H Hh. unfold sep. rewrite tokenize3_syll. cbv zeta. fold sep.
    rewrite (tok1_word3 xp xs xw), flat_syllW by assumption. f_equal.
    rewrite !map_map, <- concat_map.
    assert (Hf : Forall (syl_facts xp xs xw) (concat t)).
    { apply Forall_concat. apply Forall_forall. intros w Hin. apply word_syl_facts; [exact Hxw| |].
      - exact (proj1 (Forall_forall _ _) H w Hin).
      - exact (proj1 (Forall_forall _ _) Hh w Hin). }
    rewrite (map_ext_Forall _ syll_plain).
    2:{ eapply Forall_impl; [|exact Hf]. intros syl. apply syl_strip_remove_ws. }
    apply filter_nonempty_id. apply Forall_map.
    eapply Forall_impl; [|exact Hf]. intros syl (Hy & _). now apply (syl_plain_nonnil xp xs).
  Qed.

End ThreeWs.
