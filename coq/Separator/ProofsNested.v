(* C08, layer 3: the nested tokenization flattens to the phone-level tokens. *)
From WS Require Import Base.Py Base.Str Separator.Model Separator.Render.
From WS Require Import Separator.StrLemmas Separator.StripLemmas Separator.ProofsTree.

Fixpoint leaves (tr : tree) : list str :=
  match tr with
  | Leaf s => [s]
  | Node l => flat_map leaves l
  end.

Definition tree_of (t : utree) : tree :=
  Node (map (fun w : list (list str) =>
               Node (map (fun s : list str => Node (map Leaf s)) w)) t).

Lemma leaves_syl (s : list str) : leaves (Node (map Leaf s)) = s.
Proof.
  cbn [leaves]. induction s as [|ph s IH]; [reflexivity|].
  cbn [map flat_map leaves app]. now rewrite IH.
Qed.

Lemma leaves_word (w : list (list str)) :
  leaves (Node (map (fun s : list str => Node (map Leaf s)) w)) = concat w.
Proof.
  cbn [leaves]. induction w as [|s w IH]; [reflexivity|].
  cbn [map flat_map concat]. now rewrite IH, leaves_syl.
Qed.

Lemma leaves_tree_of (t : utree) : leaves (tree_of t) = concat (map (@concat str) t).
Proof.
  unfold tree_of. cbn [leaves]. induction t as [|w t IH]; [reflexivity|].
  cbn [map flat_map concat]. now rewrite IH, leaves_word.
Qed.

Lemma tokenize_nested3_unfold (xp xs xw utt : str) :
  let sep := sep3 xp xs xw in
  tokenize_nested sep utt =
  Ok (Node (map (fun w : list (list str) =>
                   Node (map (fun s : list str => Node (map Leaf s)) w))
                (map (fun w : str => map (fun s : str => tok1 sep s Phone) (tok1 sep w Syll))
                     (tok1 sep utt Word)))).
Proof. reflexivity. Qed.

Section Nested3.
  Variables xp xs xw : str.
  Hypothesis Hxp : xp <> [].
  Hypothesis Hxs : xs <> [].
  Hypothesis Hxw : xw <> [].
  Hypothesis Hes : ends_ok xs.
  Hypothesis Hep : ends_ok xp.
  Let sep := sep3 xp xs xw.

  Theorem tokenize_nested3 : forall t : utree, tree_ok xp xs xw t ->
    tokenize_nested sep (render sep t) = Ok (tree_of t).
  Proof.
    intros t H. unfold sep. rewrite tokenize_nested3_unfold. cbv zeta.
    rewrite tok1_word3 by assumption. unfold tree_of. do 3 f_equal.
    rewrite map_map. apply map_id_Forall.
    eapply Forall_impl; [|exact H]. intros w Hw.
    rewrite tok1_syll3 by assumption. rewrite map_map. apply map_id_Forall.
    destruct Hw as (_ & Hs & _). eapply Forall_impl; [|exact Hs].
    intros syl Hsy. now apply tok1_phone3.
  Qed.

  (* the flattening of the nested tokenization is the phone-level tokenization *)
  Theorem tokenize_nested_flatten3 : forall (t : utree) (keep : bool), tree_ok xp xs xw t ->
    exists tr : tree,
      tokenize_nested sep (render sep t) = Ok tr /\
      tokenize sep (render sep t) Phone keep = Ok (leaves tr).
  Proof.
    intros t keep H. exists (tree_of t). split; [now apply tokenize_nested3|].
    rewrite leaves_tree_of. now apply tokenize_phone3.
  Qed.
End Nested3.
