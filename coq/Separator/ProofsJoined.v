(* C08, layer 3: the JOINED rendering of a token tree (tokens joined BY their separators,
   no trailing separator at any level: Python's sep.join at the three levels) and
   keep_boundaries = true at word and syllable level.

   J1  tokenize_phone_joined        phones of the joined rendering (keep = false / true)
   J2  tokenize_syll_joined         syllables of the joined rendering
   J3  tokenize_word_joined         words of the joined rendering
   J4  remove_joined                removal of all separators from the joined rendering
   K1  tokenize_word_keep_corrected word tokens of the COMPACT rendering with their boundaries
       tokenize_word_keep_refuted   (the inner syllables keep their last phone separator:
                                     the syllables are joined by xp ++ xs, not by xs)
   K2  tokenize_syll_keep (_ws)     syllable tokens of the compact rendering with boundaries
   K3  tokenize_word_keep_joined    the same two on the joined rendering
   K4  tokenize_syll_keep_joined
   joined_hyp_b, joined_round_trip_b, joined_keep_b, compact_keep_b: boolean hypotheses.

   A joined token always starts and ends with a phone character, so no hypothesis on the
   last character of a separator (ends_ok) is needed for the joined rendering, and a
   whitespace phone separator (wordseg's default " ") needs no separate treatment. *)
From WS Require Import Base.Py Base.Str Separator.Model Separator.Render.
From WS Require Import Separator.StrLemmas Separator.StripLemmas Separator.ProofsTree
  Separator.ProofsTreeStrip Separator.ProofsNested Separator.ProofsWsPhone Separator.Checkers.
From WS Require Import Prepare.ViewsLemmas.

Definition render_join_syll (xp : str) (syl : list str) : str := join xp syl.
Definition render_join_word (xp xs : str) (wd : list (list str)) : str :=
  join xs (map (render_join_syll xp) wd).
Definition render_join (xp xs xw : str) (t : utree) : str :=
  join xw (map (render_join_word xp xs) t).

(* ---------- join ---------- *)

Lemma join_snoc (x : str) (init : list str) (last : str) :
  join x (init ++ [last]) = terminated x init ++ last.
Proof.
  induction init as [|a init IH]; [reflexivity|].
  rewrite terminated_cons, <- !app_assoc, <- IH. cbn [app].
  destruct init; reflexivity.
Qed.

Lemma terminated_join (x : str) (l : list str) : l <> [] -> terminated x l = join x l ++ x.
Proof.
  intros Hl. destruct (exists_last Hl) as (init & last & ->).
  now rewrite join_snoc, terminated_app, terminated_one, app_assoc.
Qed.

Lemma join_one (x a : str) : join x [a] = a.
Proof. reflexivity. Qed.

Lemma join_nonnil_hd (x a : str) (l : list str) : a <> [] -> join x (a :: l) <> [].
Proof.
  intros Ha. destruct l as [|b l]; [exact Ha|]. rewrite join_cons2.
  destruct a; [congruence|discriminate].
Qed.

Lemma infix_b_false_In_join (x y a : str) (l : list str) :
  infix_b x (join y l) = false -> In a l -> infix_b x a = false.
Proof.
  induction l as [|b l IH]; intros H Hin; [destruct Hin|].
  destruct l as [|c l].
  - destruct Hin as [->|[]]. exact H.
  - rewrite join_cons2 in H. destruct Hin as [->|Hin].
    + now apply infix_b_false_app_l in H.
    + apply IH; [|exact Hin]. apply infix_b_false_app_r in H. now apply infix_b_false_app_r in H.
Qed.

Lemma infix_b_false_join_sep (x y a b : str) (l : list str) :
  infix_b x (join y (a :: b :: l)) = false -> infix_b x y = false.
Proof.
  rewrite join_cons2. intros H. apply infix_b_false_app_r in H. now apply infix_b_false_app_l in H.
Qed.

(* a joined string begins with its first token and ends with its last one *)
Lemma join_clean (x : str) (l : list str) : l <> [] ->
  Forall (fun s : str => s <> [] /\ clean_ends s) l -> join x l <> [] /\ clean_ends (join x l).
Proof.
  intros Hl H. destruct (exists_last Hl) as (init & last & ->).
  apply Forall_app in H as [Hi Hla]. inversion Hla as [|? ? (Hn & _ & He) _]; subst.
  rewrite join_snoc. split; [intros E; apply app_eq_nil in E as [_ E]; congruence|]. split.
  - destruct Hi as [|a init (Ha & Hs & _) _].
    + rewrite terminated_nil. cbn [app]. inversion Hla as [|? ? (_ & Hs & _) _]. exact Hs.
    + rewrite terminated_cons, <- !app_assoc. now apply starts_ok_app.
  - now apply ends_ok_app.
Qed.

(* ---------- one level of tokenization / removal on a joined string ---------- *)

Lemma tok1_join (sep : separator) (l : level) (x : str) (toks : list str) :
  get_level sep l = Some x -> x <> [] ->
  Forall (fun t : str => t <> [] /\ clean_ends t /\ only_at_end x t = true) toks ->
  tok1 sep (join x toks) l = toks.
Proof.
  intros Hl Hx H. destruct toks as [|a toks].
  - unfold tok1. rewrite Hl. reflexivity.
  - assert (Hn : a :: toks <> []) by discriminate.
    destruct (exists_last Hn) as (init & last & E). rewrite E in *.
    rewrite join_snoc. now apply tok1_joined.
Qed.

Lemma replace_all_join (x : str) (toks : list str) : x <> [] ->
  Forall (fun t : str => only_at_end x t = true) toks ->
  replace_all x [] (join x toks) = concat toks.
Proof.
  intros Hx H. destruct toks as [|a toks]; [now rewrite replace_all_go|].
  assert (Hn : a :: toks <> []) by discriminate.
  destruct (exists_last Hn) as (init & last & E). rewrite E in *.
  apply Forall_app in H as [Hi Hla]. inversion Hla as [|? ? Ho _]; subst.
  rewrite join_snoc. unfold terminated. rewrite replace_all_joined_rest by assumption.
  rewrite replace_all_no_infix by now apply only_at_end_no_infix.
  rewrite concat_app. cbn [concat]. now rewrite app_nil_r.
Qed.

(* ---------- strip_suffix walks through joined phones ---------- *)

Section WalkJoin.
  Variable seps : list str.
  Hypothesis seps_ne : Forall (fun x : str => x <> []) seps.
  Variable regions : list str.
  Hypothesis NB : forall x R : str, In x seps -> In R regions -> no_border x R.

  Lemma phone_headed_join (x rest : str) (syl : list str) :
    syl <> [] -> Forall (good_phone seps) syl -> phone_headed seps (join x syl ++ rest).
  Proof.
    intros Hn H. destruct H as [|ph syl Hp _]; [congruence|].
    destruct syl as [|q syl].
    - exists ph, rest. split; [reflexivity|exact Hp].
    - exists ph, (x ++ join x (q :: syl) ++ rest). split; [|exact Hp].
      now rewrite join_cons2, <- !app_assoc.
  Qed.

  (* phones joined by [x], then anything: nothing is cut inside *)
  Lemma walk_join_rest (x rest : str) (syl : list str) :
    In x regions -> syl <> [] -> Forall (good_phone seps) syl ->
    strip_suffix seps (join x syl ++ rest) = join x syl ++ strip_suffix seps rest.
  Proof.
    intros HR Hn H. induction H as [|ph syl Hp Hr IH]; [congruence|].
    destruct syl as [|q syl].
    - cbn [join]. apply (walk_phone seps seps_ne). apply Hp.
    - rewrite join_cons2, <- !app_assoc, (walk_phone seps seps_ne) by apply Hp. f_equal.
      rewrite (walk_region seps regions NB [] x).
      + f_equal. apply IH. discriminate.
      + apply phone_headed_join; [discriminate|exact Hr].
      + exists x. split; [exact HR|reflexivity].
  Qed.

  Definition good_syl (syl : list str) : Prop := syl <> [] /\ Forall (good_phone seps) syl.

  Lemma phone_headed_join_word (x y rest : str) (w : list (list str)) :
    w <> [] -> Forall good_syl w -> phone_headed seps (join y (map (join x) w) ++ rest).
  Proof.
    intros Hn H. destruct H as [|syl w [Hs Hp] _]; [congruence|].
    destruct w as [|syl2 w].
    - cbn [map join]. now apply phone_headed_join.
    - cbn [map]. rewrite join_cons2, <- !app_assoc. now apply phone_headed_join.
  Qed.

  (* syllables joined by [y], their phones by [x], then anything *)
  Lemma walk_join_word (x y rest : str) (w : list (list str)) :
    In x regions -> In y regions -> w <> [] -> Forall good_syl w ->
    strip_suffix seps (join y (map (join x) w) ++ rest)
    = join y (map (join x) w) ++ strip_suffix seps rest.
  Proof.
    intros Rx Ry Hn H. induction H as [|syl w [Hs Hp] Hr IH]; [congruence|].
    destruct w as [|syl2 w].
    - cbn [map join]. now apply walk_join_rest.
    - cbn [map] in *. rewrite join_cons2, <- !app_assoc.
      rewrite walk_join_rest by assumption. f_equal.
      rewrite (walk_region seps regions NB [] y).
      + f_equal. apply IH. discriminate.
      + apply (phone_headed_join_word x y rest (syl2 :: w)); [discriminate|exact Hr].
      + exists y. split; [exact Ry|reflexivity].
  Qed.
End WalkJoin.

(* ---------- free (ViewsLemmas): x cannot start inside b, whatever follows ---------- *)

Lemma head_free_free (seps : list str) (x ph : str) :
  head_free seps ph -> In x seps -> x <> [] -> free x ph.
Proof.
  intros H Hin Hx v u r -> Hu. destruct u as [|c u]; [congruence|].
  unfold head_free in H. apply Forall_app in H as [_ H]. inversion H as [|? ? Hc _]; subst.
  pose proof (proj1 (Forall_forall _ _) Hc x Hin) as Hh.
  destruct x as [|d x]; [congruence|]. cbn [app prefix_b].
  destruct (N.eqb_spec d c) as [->|]; [|reflexivity]. cbn in Hh. congruence.
Qed.

Lemma nb_free (x R : str) : no_border x R -> infix_b x R = false -> free x R.
Proof.
  intros HN HI v u r E Hu. destruct (prefix_b x (u ++ r)) eqn:P; [|reflexivity]. exfalso.
  rewrite E in HI. apply infix_b_false_suffix in HI.
  apply prefix_b_comparable in P as [P|P]; [congruence|].
  destruct (prefix_b_true _ _ P) as [x2 Ex].
  destruct (HN u x2 v Ex E) as [Eu | Ex2]; [congruence|]. subst x2.
  rewrite app_nil_r in Ex. subst x. rewrite prefix_b_refl in HI. discriminate.
Qed.

Lemma free_join_gen (x y : str) (l : list str) : free x y -> Forall (free x) l -> free x (join y l).
Proof.
  intros Hy H. induction H as [|a l Ha Hr IH]; [apply free_nil|].
  destruct l as [|b l]; [exact Ha|]. rewrite join_cons2.
  apply free_app; [exact Ha|]. now apply free_app.
Qed.

(* str.replace(x, '') over tokens joined by x and followed by anything *)
Lemma replace_go_join (x rest : str) (toks : list str) : x <> [] -> Forall (free x) toks ->
  replace_go x [] (join x toks ++ rest) 0 = concat toks ++ replace_go x [] rest 0.
Proof.
  intros Hx H. induction H as [|a l Ha Hr IH]; [reflexivity|].
  destruct l as [|b l].
  - cbn [join concat]. rewrite app_nil_r. now apply replace_go_free.
  - rewrite join_cons2, <- !app_assoc. rewrite replace_go_free by exact Ha.
    rewrite replace_go_at_sep by exact Hx. cbn [app]. rewrite IH.
    change (concat (a :: b :: l)) with (a ++ concat (b :: l)). now rewrite <- app_assoc.
Qed.

Lemma replace_all_joins (x : str) (ll : list (list str)) : x <> [] -> Forall (Forall (free x)) ll ->
  replace_all x [] (concat (map (join x) ll)) = concat (concat ll).
Proof.
  intros Hx H. rewrite replace_all_go by exact Hx.
  induction H as [|l ll Hl _ IH]; [reflexivity|].
  cbn [map concat]. rewrite replace_go_join by assumption. rewrite IH. now rewrite concat_app.
Qed.

(* phones joined by their separator: the token starts and ends with a phone character *)
Lemma phones_join_tok (xp : str) (syl : list str) : syl <> [] -> Forall (phone_ok xp) syl ->
  join xp syl <> [] /\ clean_ends (join xp syl).
Proof.
  intros Hn Hp. apply join_clean; [exact Hn|].
  eapply Forall_impl; [|exact Hp]. intros ph (H1 & H2 & _).
  split; [exact H1|now apply ws_free_clean_ends].
Qed.

(* ================= three defined levels, joined rendering ================= *)

(* Hypotheses of this section (all decidable, see jtree_ok_b / tree_hf_b / nbj_b below):
   - Hxp Hxs Hxw : the three separators are non-empty (three defined levels);
   - jtree_ok t  : the tree_ok of ProofsTree.v read on the joined rendering: no empty word,
                   no empty syllable, every phone is non-empty, whitespace-free and does not
                   host the phone separator (phone_ok); in a syllable [join xp syl] the syllable
                   separator occurs nowhere, not even straddling its end (only_at_end); in a
                   word [join xs (map (join xp) w)] likewise for the word separator.
                   This is all J1 needs.
   - tree_hf t   : (J2 J3 J4 K3 K4, as in ProofsTreeStrip.v) no character of a phone is the
                   first character of a separator;
   - NB          : (J2 J3 J4 K3 K4) no separator has a proper non-empty prefix that ends a
                   separator group; the groups of the joined rendering are [xp] and [xs]
                   (weaker than the compact theorems' [xp] and [xp ++ xs], see nb3_nbj).
                   It cannot be dropped: word_joined_needs_no_border,
                   remove_joined_needs_no_border. *)
Section Joined.
  Variables xp xs xw : str.
  Hypothesis Hxp : xp <> [].
  Hypothesis Hxs : xs <> [].
  Hypothesis Hxw : xw <> [].

  Let sep := sep3 xp xs xw.
  Let js := render_join_syll xp.
  Let jw := render_join_word xp xs.

  Definition jsyl_ok (syl : list str) : Prop :=
    syl <> [] /\ Forall (phone_ok xp) syl /\ only_at_end xs (render_join_syll xp syl) = true.
  Definition jword_ok (w : list (list str)) : Prop :=
    w <> [] /\ Forall jsyl_ok w /\ only_at_end xw (render_join_word xp xs w) = true.
  Definition jtree_ok (t : utree) : Prop := Forall jword_ok t.

  Lemma jsyl_tok (syl : list str) : jsyl_ok syl -> js syl <> [] /\ clean_ends (js syl).
  Proof.
    intros (Hn & Hp & _). now apply phones_join_tok.
  Qed.

  Lemma jword_tok (w : list (list str)) : jword_ok w -> jw w <> [] /\ clean_ends (jw w).
  Proof.
    intros (Hn & Hs & _). apply join_clean; [destruct w; [congruence|discriminate]|].
    apply Forall_map. eapply Forall_impl; [|exact Hs]. apply jsyl_tok.
  Qed.

  Lemma jword_ok_phones (w : list (list str)) : jword_ok w -> Forall (phone_full xp xs xw) (concat w).
  Proof.
    intros (_ & Hs & Hw). apply only_at_end_no_infix in Hw; [|exact Hxw].
    apply Forall_concat. apply Forall_forall. intros syl Hin.
    pose proof (proj1 (Forall_forall _ _) Hs syl Hin) as (_ & Hp & Hsy).
    apply only_at_end_no_infix in Hsy; [|exact Hxs].
    assert (Hwy : infix_b xw (js syl) = false).
    { eapply infix_b_false_In_join; [exact Hw|]. now apply in_map. }
    apply Forall_forall. intros ph Hph.
    pose proof (proj1 (Forall_forall _ _) Hp ph Hph) as (Hn & Hws & Ho).
    repeat split; try assumption.
    - now apply only_at_end_no_infix.
    - eapply infix_b_false_In_join; eauto.
    - eapply infix_b_false_In_join; eauto.
  Qed.

  Lemma jtree_ok_phones (t : utree) : jtree_ok t -> Forall (phone_full xp xs xw) (concat (concat t)).
  Proof.
    intros H. rewrite concat_concat. apply Forall_concat. apply Forall_map.
    eapply Forall_impl; [|exact H]. intros w. apply jword_ok_phones.
  Qed.

  Lemma jtree_ok_sylls (t : utree) : jtree_ok t -> Forall jsyl_ok (concat t).
  Proof.
    intros H. apply Forall_concat. eapply Forall_impl; [|exact H]. now intros w (_ & Hs & _).
  Qed.

  (* ---- the three splits ---- *)

  Lemma tok1_word_j (t : utree) : jtree_ok t ->
    tok1 sep (render_join xp xs xw t) Word = map jw t.
  Proof.
    intros H. apply tok1_join; [reflexivity|exact Hxw|].
    apply Forall_map. eapply Forall_impl; [|exact H]. intros w Hw.
    destruct (jword_tok w Hw) as [H1 H2]. split; [exact H1|split; [exact H2|apply Hw]].
  Qed.

  Lemma tok1_syll_j (w : list (list str)) : jword_ok w -> tok1 sep (jw w) Syll = map js w.
  Proof.
    intros (_ & Hs & _). apply tok1_join; [reflexivity|exact Hxs|].
    apply Forall_map. eapply Forall_impl; [|exact Hs]. intros syl Hsy.
    destruct (jsyl_tok syl Hsy) as [H1 H2]. split; [exact H1|split; [exact H2|apply Hsy]].
  Qed.

  Lemma tok1_phone_j (syl : list str) : jsyl_ok syl -> tok1 sep (js syl) Phone = syl.
  Proof.
    intros (_ & Hp & _). apply tok1_join; [reflexivity|exact Hxp|].
    eapply Forall_impl; [|exact Hp]. intros ph (H1 & H2 & H3).
    split; [exact H1|split; [now apply ws_free_clean_ends|exact H3]].
  Qed.

  Lemma flat_syll_j (t : utree) : jtree_ok t ->
    flat_map (fun w : str => tok1 sep w Syll) (map jw t) = map js (concat t).
  Proof.
    intros H. rewrite flat_map_map.
    rewrite (flat_map_ext_Forall _ (fun w => map js w)).
    2:{ eapply Forall_impl; [|exact H]. intros w. apply tok1_syll_j. }
    now rewrite flat_map_concat_map, <- concat_map.
  Qed.

  Lemma flat_phone_j (t : utree) : jtree_ok t ->
    flat_map (fun s : str => tok1 sep s Phone) (map js (concat t)) = concat (concat t).
  Proof.
    intros H. rewrite flat_map_map.
    rewrite (flat_map_ext_Forall _ (fun syl => syl)).
    2:{ eapply Forall_impl; [|exact (jtree_ok_sylls t H)]. intros syl. apply tok1_phone_j. }
    apply flat_map_id_concat.
  Qed.

  (* J1 *)
  Theorem tokenize_phone_joined_any : forall (t : utree) (keep : bool), jtree_ok t ->
    tokenize sep (render_join xp xs xw t) Phone keep = Ok (phones_of t).
  Proof.
    intros t keep H. unfold sep. rewrite tokenize3_phone. cbv zeta. fold sep.
    rewrite tok1_word_j, flat_syll_j, flat_phone_j by exact H.
    pose proof (jtree_ok_phones t H) as Hph.
    rewrite (map_id_Forall (strip_with [xw; xs; xp])).
    2:{ eapply Forall_impl; [|exact Hph]. apply phone_full_strip. }
    unfold phones_of. rewrite <- concat_concat. f_equal.
    assert (Hne : filter nonempty (concat (concat t)) = concat (concat t)).
    { apply filter_nonempty_id. eapply Forall_impl; [|exact Hph]. now intros ph (Hn & _). }
    destruct keep; [exact Hne|].
    rewrite (map_id_Forall (remove_all sep)); [exact Hne|].
    eapply Forall_impl; [|exact Hph]. apply phone_full_remove.
  Qed.

  Theorem tokenize_phone_joined : forall (t : utree) (keep : bool), jtree_ok t -> t <> [] ->
    tokenize sep (render_join xp xs xw t) Phone keep = Ok (phones_of t).
  Proof. intros t keep H _. now apply tokenize_phone_joined_any. Qed.

  (* ---- syllable and word level: the final strip over all separators must be the identity ---- *)

  Let seps := [xw; xs; xp].
  Let regions := [xp; xs].
  Hypothesis NB : forall x R : str, In x seps -> In R regions -> no_border x R.

  Let seps_ne : Forall (fun x : str => x <> []) seps.
  Proof. repeat constructor; assumption. Qed.
  Let in_xp : In xp seps. Proof. cbn. auto. Qed.
  Let in_xs : In xs seps. Proof. cbn. auto. Qed.
  Let r_xp : In xp regions. Proof. cbn. auto. Qed.
  Let r_xs : In xs regions. Proof. cbn. auto. Qed.

  Lemma jsyl_good (syl : list str) : jsyl_ok syl -> Forall (head_free seps) syl -> good_syl seps syl.
  Proof.
    intros (Hn & Hp & _) Hh. split; [exact Hn|]. now apply (good_phones xp xs xw).
  Qed.

  Lemma jword_good (w : list (list str)) :
    jword_ok w -> Forall (Forall (head_free seps)) w -> Forall (good_syl seps) w.
  Proof.
    intros (_ & Hs & _) Hh. apply Forall_forall. intros syl Hin. apply jsyl_good.
    - exact (proj1 (Forall_forall _ _) Hs syl Hin).
    - exact (proj1 (Forall_forall _ _) Hh syl Hin).
  Qed.

  Lemma js_strip (syl : list str) : jsyl_ok syl -> Forall (head_free seps) syl ->
    strip_with seps (js syl) = js syl.
  Proof.
    intros Hok Hh. destruct (jsyl_good syl Hok Hh) as [Hn Hg].
    unfold strip_with, seps. fold seps. unfold js, render_join_syll.
    rewrite strip_prefix_phone_headed; [|exact seps_ne|].
    2:{ rewrite <- (app_nil_r (join xp syl)). now apply phone_headed_join. }
    rewrite <- (app_nil_r (join xp syl)) at 1.
    rewrite (walk_join_rest seps seps_ne regions NB) by assumption.
    rewrite strip_suffix_nil, app_nil_r. apply strip_clean_ends. now apply jsyl_tok.
  Qed.

  Lemma jw_strip (w : list (list str)) : jword_ok w -> Forall (Forall (head_free seps)) w ->
    strip_with seps (jw w) = jw w.
  Proof.
    intros Hok Hh. pose proof (jword_good w Hok Hh) as Hg.
    assert (Hn : w <> []) by apply Hok.
    unfold strip_with, seps. fold seps. unfold jw, render_join_word, render_join_syll.
    rewrite strip_prefix_phone_headed; [|exact seps_ne|].
    2:{ rewrite <- (app_nil_r (join xs _)). now apply phone_headed_join_word. }
    rewrite <- (app_nil_r (join xs _)) at 1.
    rewrite (walk_join_word seps seps_ne regions NB) by assumption.
    rewrite strip_suffix_nil, app_nil_r. apply strip_clean_ends. now apply jword_tok.
  Qed.

  (* ---- removal of the separators inside a token ---- *)

  Lemma jsyl_ws_free (syl : list str) : jsyl_ok syl -> ws_free (concat syl).
  Proof.
    intros (_ & Hp & _). apply ws_free_concat. eapply Forall_impl; [|exact Hp]. now intros ph (_ & H & _).
  Qed.

  Lemma js_remove (syl : list str) : jsyl_ok syl -> infix_b xw (js syl) = false ->
    remove_all sep (js syl) = concat syl.
  Proof.
    intros Hok Hw. pose proof (jsyl_ws_free syl Hok) as Hws. destruct Hok as (_ & Hp & Hy).
    unfold sep. rewrite remove_all3.
    rewrite (replace_all_no_infix xw) by exact Hw.
    rewrite (replace_all_no_infix xs) by now apply only_at_end_no_infix.
    unfold js, render_join_syll. rewrite replace_all_join; [|exact Hxp|].
    2:{ eapply Forall_impl; [|exact Hp]. now intros ph (_ & _ & Ho). }
    now apply collapse_spaces_ws_free.
  Qed.

  Lemma jword_xw_free (w : list (list str)) : jword_ok w ->
    Forall (fun syl : list str => infix_b xw (js syl) = false) w.
  Proof.
    intros (_ & _ & Hw). apply only_at_end_no_infix in Hw; [|exact Hxw].
    apply Forall_forall. intros syl Hin. eapply infix_b_false_In_join; [exact Hw|]. now apply in_map.
  Qed.

  Lemma hf_free_xp (w : list (list str)) :
    Forall (Forall (head_free seps)) w -> Forall (Forall (free xp)) w.
  Proof.
    apply Forall_impl. intros syl. apply Forall_impl. intros ph H.
    now apply (head_free_free seps).
  Qed.

  Lemma jw_remove (w : list (list str)) : jword_ok w -> Forall (Forall (head_free seps)) w ->
    remove_all sep (jw w) = word_plain w.
  Proof.
    intros Hok Hh. destruct Hok as (Hn & Hs & Hw).
    unfold sep. rewrite remove_all3.
    rewrite (replace_all_no_infix xw) by now apply only_at_end_no_infix.
    unfold jw, render_join_word. rewrite replace_all_join; [|exact Hxs|].
    2:{ apply Forall_map. eapply Forall_impl; [|exact Hs]. now intros syl (_ & _ & Hy). }
    unfold render_join_syll. rewrite replace_all_joins; [|exact Hxp|now apply hf_free_xp].
    change (word_plain w) with (concat (map (@concat char) w)). rewrite <- concat_concat.
    apply collapse_spaces_ws_free. rewrite concat_concat. apply ws_free_concat. apply Forall_map.
    eapply Forall_impl; [|exact Hs]. apply jsyl_ws_free.
  Qed.

  Lemma jsyl_plain_nonnil (syl : list str) : jsyl_ok syl -> concat syl <> [].
  Proof.
    intros (Hn & Hp & _). destruct Hp as [|ph syl (Hph & _) _]; [congruence|].
    now apply concat_nonnil_hd.
  Qed.

  Lemma jword_plain_nonnil (w : list (list str)) : jword_ok w -> word_plain w <> [].
  Proof.
    intros (Hn & Hs & _). destruct Hs as [|syl w Hsy _]; [congruence|].
    unfold word_plain. cbn [map]. apply concat_nonnil_hd. now apply jsyl_plain_nonnil.
  Qed.

  Lemma hf_sylls (t : utree) : tree_hf xp xs xw t -> Forall (Forall (head_free seps)) (concat t).
  Proof. apply Forall_concat. Qed.

  (* J2 *)
  Theorem tokenize_syll_joined : forall t : utree, jtree_ok t -> tree_hf xp xs xw t ->
    tokenize sep (render_join xp xs xw t) Syll false = Ok (sylls_of t).
  Proof.
    intros t H Hh. unfold sep. rewrite tokenize3_syll. cbv zeta. fold sep.
    rewrite tok1_word_j, flat_syll_j by exact H. f_equal.
    rewrite !map_map. unfold sylls_of. rewrite <- concat_map.
    assert (Hw : Forall (fun syl : list str => infix_b xw (js syl) = false) (concat t)).
    { apply Forall_concat. eapply Forall_impl; [|exact H]. apply jword_xw_free. }
    pose proof (jtree_ok_sylls t H) as Hs. pose proof (hf_sylls t Hh) as Hhs.
    rewrite (map_ext_Forall _ (@concat char)).
    2:{ apply Forall_forall. intros syl Hin.
        rewrite js_strip.
        - apply js_remove.
          + exact (proj1 (Forall_forall _ _) Hs syl Hin).
          + exact (proj1 (Forall_forall _ _) Hw syl Hin).
        - exact (proj1 (Forall_forall _ _) Hs syl Hin).
        - exact (proj1 (Forall_forall _ _) Hhs syl Hin). }
    apply filter_nonempty_id. apply Forall_map.
    eapply Forall_impl; [|exact Hs]. apply jsyl_plain_nonnil.
  Qed.

  (* J3 *)
  Theorem tokenize_word_joined : forall t : utree, jtree_ok t -> tree_hf xp xs xw t ->
    tokenize sep (render_join xp xs xw t) Word false = Ok (words_of t).
  Proof.
    intros t H Hh. unfold sep. rewrite tokenize3_word. cbv zeta. fold sep.
    rewrite tok1_word_j by exact H. f_equal. rewrite !map_map. unfold words_of.
    rewrite (map_ext_Forall _ word_plain).
    2:{ apply Forall_forall. intros w Hin.
        pose proof (proj1 (Forall_forall _ _) H w Hin) as Hw.
        pose proof (proj1 (Forall_forall _ _) Hh w Hin) as Hhw.
        rewrite jw_strip by assumption. now apply jw_remove. }
    apply filter_nonempty_id. apply Forall_map.
    eapply Forall_impl; [|exact H]. apply jword_plain_nonnil.
  Qed.

  (* ---- J4: the three successive str.replace; after the word separators are gone the last
     syllable of a word is glued to the first syllable of the next word ---- *)

  Lemma js_free_xs (syl : list str) : jsyl_ok syl -> Forall (head_free seps) syl -> free xs (js syl).
  Proof.
    intros (Hn & Hp & Hy) Hh.
    assert (Hf : Forall (free xs) syl).
    { eapply Forall_impl; [|exact Hh]. intros ph H. now apply (head_free_free seps). }
    destruct syl as [|ph [|q syl]]; [congruence| |].
    - now inversion Hf.
    - apply free_join_gen; [|exact Hf]. apply nb_free; [now apply NB|].
      apply only_at_end_no_infix in Hy; [|exact Hxs]. now apply infix_b_false_join_sep in Hy.
  Qed.

  Theorem remove_joined : forall t : utree, jtree_ok t -> tree_hf xp xs xw t ->
    remove sep (render_join xp xs xw t) None = Ok (concat (phones_of t)).
  Proof.
    intros t H Hh. unfold remove. f_equal.
    change (remove_sel sep ?u (fun _ => true)) with (remove_all sep u).
    unfold sep. rewrite remove_all3. unfold render_join.
    rewrite replace_all_join; [|exact Hxw|].
    2:{ apply Forall_map. eapply Forall_impl; [|exact H]. now intros w (_ & _ & Hw). }
    unfold render_join_word. rewrite <- (map_map (map (render_join_syll xp)) (join xs)).
    rewrite replace_all_joins; [|exact Hxs|].
    2:{ apply Forall_map. apply Forall_forall. intros w Hin. apply Forall_map.
        pose proof (proj1 (Forall_forall _ _) H w Hin) as (_ & Hs & _).
        pose proof (proj1 (Forall_forall _ _) Hh w Hin) as Hhw.
        apply Forall_forall. intros syl Hsin. apply js_free_xs.
        - exact (proj1 (Forall_forall _ _) Hs syl Hsin).
        - exact (proj1 (Forall_forall _ _) Hhw syl Hsin). }
    rewrite <- concat_map. unfold render_join_syll.
    rewrite replace_all_joins; [|exact Hxp|apply hf_free_xp, hf_sylls, Hh].
    unfold phones_of. rewrite <- concat_concat.
    apply collapse_spaces_ws_free, ws_free_concat.
    eapply Forall_impl; [|exact (jtree_ok_phones t H)]. now intros ph (_ & Hws & _).
  Qed.

  (* ---- K3, K4: keep_boundaries = true on the joined rendering ---- *)

  Theorem tokenize_word_keep_joined : forall t : utree, jtree_ok t -> tree_hf xp xs xw t ->
    tokenize sep (render_join xp xs xw t) Word true = Ok (map (render_join_word xp xs) t).
  Proof.
    intros t H Hh. unfold sep. rewrite tokenize3_word. cbv zeta. fold sep.
    rewrite tok1_word_j by exact H. f_equal. rewrite map_map. fold jw.
    rewrite (map_ext_Forall _ jw).
    2:{ apply Forall_forall. intros w Hin. apply jw_strip.
        - exact (proj1 (Forall_forall _ _) H w Hin).
        - exact (proj1 (Forall_forall _ _) Hh w Hin). }
    apply filter_nonempty_id. apply Forall_map.
    eapply Forall_impl; [|exact H]. intros w Hw. now apply jword_tok.
  Qed.

  Theorem tokenize_syll_keep_joined : forall t : utree, jtree_ok t -> tree_hf xp xs xw t ->
    tokenize sep (render_join xp xs xw t) Syll true = Ok (map (render_join_syll xp) (concat t)).
  Proof.
    intros t H Hh. unfold sep. rewrite tokenize3_syll. cbv zeta. fold sep.
    rewrite tok1_word_j, flat_syll_j by exact H. f_equal. rewrite map_map. fold js.
    pose proof (jtree_ok_sylls t H) as Hs. pose proof (hf_sylls t Hh) as Hhs.
    rewrite (map_ext_Forall _ js).
    2:{ apply Forall_forall. intros syl Hin. apply js_strip.
        - exact (proj1 (Forall_forall _ _) Hs syl Hin).
        - exact (proj1 (Forall_forall _ _) Hhs syl Hin). }
    apply filter_nonempty_id. apply Forall_map.
    eapply Forall_impl; [|exact Hs]. intros syl Hsy. now apply jsyl_tok.
  Qed.
End Joined.

(* ================= keep_boundaries = true on the compact rendering ================= *)

(* the body of a word in the compact rendering: its syllables joined by [xp ++ xs],
   followed by one more [xp ++ xs] *)
Lemma word_body_join (xp xs : str) (w : list (list str)) :
  w <> [] -> Forall (fun syl : list str => syl <> []) w ->
  word_body xp xs w = render_join_word xp (xp ++ xs) w ++ xp ++ xs.
Proof.
  intros Hn H. unfold render_join_word, render_join_syll.
  rewrite <- terminated_join by (destruct w; [congruence|discriminate]).
  unfold word_body, terminated at 1 3. rewrite !map_map. f_equal.
  apply map_ext_Forall. eapply Forall_impl; [|exact H]. intros syl Hs.
  rewrite terminated_join by exact Hs. now rewrite <- app_assoc.
Qed.

(* Hypotheses of this section: exactly those of tokenize_word3 / tokenize_syll3 (_ws):
   - Hxp Hxs Hxw : non-empty separators;   - Hes : the syllable separator does not end with
     a whitespace character;               - NB  : no_border for the groups [xp], [xp ++ xs];
   - tree_ok t, tree_hf t (ProofsTree.v, ProofsTreeStrip.v);
   - K2 only: ends_ok xp (tokenize_syll_keep) or ws_only xp (tokenize_syll_keep_ws).
   c08_hyp_b (Checkers.v) implies all of them: compact_keep_b. *)
Section Keep.
  Variables xp xs xw : str.
  Hypothesis Hxp : xp <> [].
  Hypothesis Hxs : xs <> [].
  Hypothesis Hxw : xw <> [].
  Hypothesis Hes : ends_ok xs.

  Let sep := sep3 xp xs xw.
  Let seps := [xw; xs; xp].
  Let regions := [xp; xp ++ xs].
  Hypothesis NB : forall x R : str, In x seps -> In R regions -> no_border x R.

  Let seps_ne : Forall (fun x : str => x <> []) seps.
  Proof. repeat constructor; assumption. Qed.
  Let in_xp : In xp seps. Proof. cbn. auto. Qed.
  Let in_xs : In xs seps. Proof. cbn. auto. Qed.
  Let r_xp : In xp regions. Proof. cbn. auto. Qed.
  Let r_xps : In (xp ++ xs) regions. Proof. cbn. auto. Qed.

  Lemma syl_good (syl : list str) : syl_ok xp xs syl -> Forall (head_free seps) syl -> good_syl seps syl.
  Proof. intros (Hn & Hp & _) Hh. split; [exact Hn|]. now apply (good_phones xp xs xw). Qed.

  Lemma word_good (w : list (list str)) :
    word_ok xp xs xw w -> Forall (Forall (head_free seps)) w -> Forall (good_syl seps) w.
  Proof.
    intros (_ & Hs & _) Hh. apply Forall_forall. intros syl Hin. apply syl_good.
    - exact (proj1 (Forall_forall _ _) Hs syl Hin).
    - exact (proj1 (Forall_forall _ _) Hh syl Hin).
  Qed.

  Lemma word_keep_tok (w : list (list str)) : word_ok xp xs xw w ->
    render_join_word xp (xp ++ xs) w <> [] /\ clean_ends (render_join_word xp (xp ++ xs) w).
  Proof.
    intros (Hn & Hs & _). apply join_clean; [destruct w; [congruence|discriminate]|].
    apply Forall_map. eapply Forall_impl; [|exact Hs]. intros syl (Hsn & Hp & _).
    now apply phones_join_tok.
  Qed.

  (* the outer [xp ++ xs] of a word body is stripped, the inner ones stay *)
  Lemma word_body_strip (w : list (list str)) :
    word_ok xp xs xw w -> Forall (Forall (head_free seps)) w ->
    strip_with seps (word_body xp xs w) = render_join_word xp (xp ++ xs) w.
  Proof.
    intros Hok Hh. pose proof (word_good w Hok Hh) as Hg.
    pose proof (word_keep_tok w Hok) as [_ Hc].
    assert (Hn : w <> []) by apply Hok.
    rewrite word_body_join; [|exact Hn|].
    2:{ eapply Forall_impl; [|exact Hg]. now intros syl [H _]. }
    unfold strip_with, seps. fold seps. unfold render_join_word, render_join_syll in *.
    rewrite strip_prefix_phone_headed; [|exact seps_ne|now apply phone_headed_join_word].
    rewrite (walk_join_word seps seps_ne regions NB) by assumption.
    rewrite (walk_final seps seps_ne), app_nil_r; [now apply strip_clean_ends|exact in_xp|].
    rewrite <- (app_nil_r xs). apply sw_sep; [exact in_xs|exact Hxs|constructor].
  Qed.

  (* K1, corrected right-hand side *)
  Theorem tokenize_word_keep_corrected : forall t : utree, tree_ok xp xs xw t -> tree_hf xp xs xw t ->
    tokenize sep (render sep t) Word true = Ok (map (render_join_word xp (xp ++ xs)) t).
  Proof.
    intros t H Hh. unfold sep. rewrite tokenize3_word. cbv zeta.
    rewrite tok1_word3 by assumption. f_equal. rewrite map_map.
    rewrite (map_ext_Forall _ (render_join_word xp (xp ++ xs))).
    2:{ apply Forall_forall. intros w Hin. apply word_body_strip.
        - exact (proj1 (Forall_forall _ _) H w Hin).
        - exact (proj1 (Forall_forall _ _) Hh w Hin). }
    apply filter_nonempty_id. apply Forall_map.
    eapply Forall_impl; [|exact H]. intros w Hw. now apply word_keep_tok.
  Qed.

  (* ---- syllable level ---- *)

  Lemma syl_join_strip (syl : list str) : syl_ok xp xs syl -> Forall (head_free seps) syl ->
    strip_with seps (join xp syl) = join xp syl.
  Proof.
    intros Hok Hh. destruct (syl_good syl Hok Hh) as [Hn Hg].
    destruct Hok as (_ & Hp & _).
    unfold strip_with, seps. fold seps.
    rewrite strip_prefix_phone_headed; [|exact seps_ne|].
    2:{ rewrite <- (app_nil_r (join xp syl)). now apply phone_headed_join. }
    rewrite <- (app_nil_r (join xp syl)) at 1.
    rewrite (walk_join_rest seps seps_ne regions NB) by assumption.
    rewrite strip_suffix_nil, app_nil_r. apply strip_clean_ends. now apply phones_join_tok.
  Qed.

  Lemma syl_body_strip (syl : list str) : syl_ok xp xs syl -> Forall (head_free seps) syl ->
    strip_with seps (terminated xp syl) = join xp syl.
  Proof.
    intros Hok Hh. destruct (syl_good syl Hok Hh) as [Hn Hg].
    destruct Hok as (_ & Hp & _). rewrite terminated_join by exact Hn.
    unfold strip_with, seps. fold seps.
    rewrite strip_prefix_phone_headed; [|exact seps_ne|now apply phone_headed_join].
    rewrite (walk_join_rest seps seps_ne regions NB) by assumption.
    rewrite <- (app_nil_r xp) at 2.
    rewrite (walk_final seps seps_ne), app_nil_r; [|exact in_xp|constructor].
    apply strip_clean_ends. now apply phones_join_tok.
  Qed.

  Lemma tree_hf_sylls (t : utree) : tree_hf xp xs xw t -> Forall (Forall (head_free seps)) (concat t).
  Proof. apply Forall_concat. Qed.

  Lemma syl_join_nonnil (t : utree) : tree_ok xp xs xw t ->
    Forall (fun s : str => s <> []) (map (render_join_syll xp) (concat t)).
  Proof.
    intros H. apply Forall_map. eapply Forall_impl; [|exact (tree_ok_sylls xp xs xw t H)].
    intros syl (Hn & Hp & _). now apply phones_join_tok.
  Qed.

  (* K2, the phone separator ends with a non-space character *)
  Theorem tokenize_syll_keep : ends_ok xp ->
    forall t : utree, tree_ok xp xs xw t -> tree_hf xp xs xw t ->
    tokenize sep (render sep t) Syll true = Ok (map (render_join_syll xp) (concat t)).
  Proof.
    intros Hep t H Hh. unfold sep. rewrite tokenize3_syll. cbv zeta.
    rewrite tok1_word3, flat_syll3 by assumption. f_equal. rewrite map_map.
    pose proof (tree_ok_sylls xp xs xw t H) as Hs. pose proof (tree_hf_sylls t Hh) as Hhs.
    rewrite (map_ext_Forall _ (render_join_syll xp)).
    2:{ apply Forall_forall. intros syl Hin. apply syl_body_strip.
        - exact (proj1 (Forall_forall _ _) Hs syl Hin).
        - exact (proj1 (Forall_forall _ _) Hhs syl Hin). }
    apply filter_nonempty_id. now apply syl_join_nonnil.
  Qed.

  (* K2, the phone separator is whitespace (wordseg's default) *)
  Theorem tokenize_syll_keep_ws : ws_only xp ->
    forall t : utree, tree_ok xp xs xw t -> tree_hf xp xs xw t ->
    tokenize sep (render sep t) Syll true = Ok (map (render_join_syll xp) (concat t)).
  Proof.
    intros Hwp t H Hh. unfold sep. rewrite tokenize3_syll. cbv zeta.
    rewrite tok1_word3, flat_syllW by assumption. f_equal. rewrite map_map.
    pose proof (tree_ok_sylls xp xs xw t H) as Hs. pose proof (tree_hf_sylls t Hh) as Hhs.
    rewrite (map_ext_Forall _ (render_join_syll xp)).
    2:{ apply Forall_forall. intros syl Hin.
        pose proof (proj1 (Forall_forall _ _) Hs syl Hin) as Hok.
        pose proof (proj1 (Forall_forall _ _) Hhs syl Hin) as Hhf.
        assert (E : strip (terminated xp syl) = join xp syl).
        { destruct Hok as (Hn & Hp & _). destruct (exists_last Hn) as (init & ph & ->).
          rewrite join_snoc. now apply (syl_strip xp Hwp init ph). }
        rewrite E. now apply syl_join_strip. }
    apply filter_nonempty_id. now apply syl_join_nonnil.
  Qed.
End Keep.

(* ================= boolean hypotheses and packaged statements ================= *)

Definition jsyl_ok_b (xp xs : str) (syl : list str) : bool :=
  match syl with [] => false | _ => true end &&
  forallb (phone_ok_b xp) syl && only_at_end xs (render_join_syll xp syl).
Definition jword_ok_b (xp xs xw : str) (w : list (list str)) : bool :=
  match w with [] => false | _ => true end &&
  forallb (jsyl_ok_b xp xs) w && only_at_end xw (render_join_word xp xs w).
Definition jtree_ok_b (xp xs xw : str) (t : utree) : bool := forallb (jword_ok_b xp xs xw) t.
(* no_border for the separator groups of the joined rendering: [xp] and [xs] *)
Definition nbj_b (xp xs xw : str) : bool :=
  forallb (fun x : str => forallb (no_border_b x) [xp; xs]) [xw; xs; xp].

Lemma jsyl_ok_b_sound (xp xs : str) (syl : list str) : jsyl_ok_b xp xs syl = true -> jsyl_ok xp xs syl.
Proof.
  unfold jsyl_ok_b, jsyl_ok. rewrite !andb_true_iff. intros [[H1 H2] H3].
  split; [destruct syl; [discriminate|discriminate]|].
  split; [|exact H3]. eapply forallb_Forall; [|exact H2]. apply phone_ok_b_sound.
Qed.

Lemma jword_ok_b_sound (xp xs xw : str) (w : list (list str)) :
  jword_ok_b xp xs xw w = true -> jword_ok xp xs xw w.
Proof.
  unfold jword_ok_b, jword_ok. rewrite !andb_true_iff. intros [[H1 H2] H3].
  split; [destruct w; [discriminate|discriminate]|].
  split; [|exact H3]. eapply forallb_Forall; [|exact H2]. apply jsyl_ok_b_sound.
Qed.

Lemma jtree_ok_b_sound (xp xs xw : str) (t : utree) :
  jtree_ok_b xp xs xw t = true -> jtree_ok xp xs xw t.
Proof. apply forallb_Forall, jword_ok_b_sound. Qed.

Lemma nbj_b_sound (xp xs xw : str) : nbj_b xp xs xw = true ->
  forall x R : str, In x [xw; xs; xp] -> In R [xp; xs] -> no_border x R.
Proof.
  unfold nbj_b. rewrite forallb_forall. intros H x R Hx HR.
  specialize (H x Hx). rewrite forallb_forall in H. now apply no_border_b_sound, H.
Qed.

(* the no_border hypothesis of the compact theorems (groups [xp] and [xp ++ xs]) implies
   the one used here (groups [xp] and [xs]) *)
Lemma no_border_suffix (x a R : str) : no_border x (a ++ R) -> no_border x R.
Proof.
  intros H u x2 v E1 E2. apply (H u x2 (a ++ v)); [exact E1|]. now rewrite E2, app_assoc.
Qed.

Lemma nb3_nbj (xp xs xw : str) :
  (forall x R : str, In x [xw; xs; xp] -> In R [xp; xp ++ xs] -> no_border x R) ->
  forall x R : str, In x [xw; xs; xp] -> In R [xp; xs] -> no_border x R.
Proof.
  intros H x R Hx [<-|[<-|[]]].
  - apply H; [exact Hx|now left].
  - apply (no_border_suffix x xp). apply H; [exact Hx|right; now left].
Qed.

Definition joined_hyp_b (xp xs xw : str) (t : utree) : bool :=
  nonempty xp && nonempty xs && nonempty xw &&
  jtree_ok_b xp xs xw t && tree_hf_b xp xs xw t && nbj_b xp xs xw.

Lemma joined_hyp_b_sound (xp xs xw : str) (t : utree) : joined_hyp_b xp xs xw t = true ->
  xp <> [] /\ xs <> [] /\ xw <> [] /\ jtree_ok xp xs xw t /\ tree_hf xp xs xw t /\
  (forall x R : str, In x [xw; xs; xp] -> In R [xp; xs] -> no_border x R).
Proof.
  unfold joined_hyp_b. rewrite !andb_true_iff. intros [[[[[Hp Hs] Hw] Ht] Hh] Hnb].
  apply nonempty_true in Hp, Hs, Hw. repeat split; try assumption.
  - now apply jtree_ok_b_sound.
  - now apply tree_hf_b_sound.
  - now apply nbj_b_sound.
Qed.

(* J1 - J4 *)
Theorem joined_round_trip_b : forall (xp xs xw : str) (t : utree),
  joined_hyp_b xp xs xw t = true ->
  let sep := sep3 xp xs xw in
  let u := render_join xp xs xw t in
  tokenize sep u Phone false = Ok (phones_of t) /\
  tokenize sep u Phone true = Ok (phones_of t) /\
  tokenize sep u Syll false = Ok (sylls_of t) /\
  tokenize sep u Word false = Ok (words_of t) /\
  remove sep u None = Ok (concat (phones_of t)).
Proof.
  intros xp xs xw t H sep u.
  destruct (joined_hyp_b_sound _ _ _ _ H) as (Hp & Hs & Hw & Ht & Hh & NB).
  split; [now apply tokenize_phone_joined_any|].
  split; [now apply tokenize_phone_joined_any|].
  split; [now apply tokenize_syll_joined|].
  split; [now apply tokenize_word_joined|now apply remove_joined].
Qed.

(* K3, K4 *)
Theorem joined_keep_b : forall (xp xs xw : str) (t : utree),
  joined_hyp_b xp xs xw t = true ->
  let sep := sep3 xp xs xw in
  let u := render_join xp xs xw t in
  tokenize sep u Word true = Ok (map (render_join_word xp xs) t) /\
  tokenize sep u Syll true = Ok (map (render_join_syll xp) (concat t)).
Proof.
  intros xp xs xw t H sep u.
  destruct (joined_hyp_b_sound _ _ _ _ H) as (Hp & Hs & Hw & Ht & Hh & NB).
  split; [now apply tokenize_word_keep_joined|now apply tokenize_syll_keep_joined].
Qed.

(* K1 (corrected), K2 under the boolean hypothesis of the compact round trip (Checkers.v) *)
Theorem compact_keep_b : forall (xp xs xw : str) (t : utree),
  c08_hyp_b xp xs xw t = true ->
  let sep := sep3 xp xs xw in
  tokenize sep (render sep t) Word true = Ok (map (render_join_word xp (xp ++ xs)) t) /\
  tokenize sep (render sep t) Syll true = Ok (map (render_join_syll xp) (concat t)).
Proof.
  intros xp xs xw t H sep. unfold c08_hyp_b in H. rewrite !andb_true_iff in H.
  destruct H as [[[[[[[Hp Hs] Hw] Hes] Hep] Ht] Hh] Hnb].
  apply nonempty_true in Hp, Hs, Hw. apply ends_ok_b_sound in Hes.
  apply tree_ok_b_sound in Ht. apply tree_hf_b_sound in Hh.
  pose proof (nb3_b_sound _ _ _ Hnb) as NB.
  split; [now apply tokenize_word_keep_corrected|].
  apply orb_true_iff in Hep as [Hep|Hep].
  - apply ends_ok_b_sound in Hep. now apply tokenize_syll_keep.
  - apply ws_only_b_sound in Hep. now apply tokenize_syll_keep_ws.
Qed.

(* K1 as first stated (right-hand side [map (render_join_word xp xs) t]) is false as soon as a
   word has two syllables: the inner syllables keep their last phone separator.
   One word, syllables "a" and "b", separators "_" "=" "#": the compact rendering is
   "a_=b_=#", the word token with its boundaries is "a_=b", not "a=b". *)
Theorem tokenize_word_keep_refuted :
  let xp : str := [95]%N in let xs : str := [61]%N in let xw : str := [35]%N in
  let t : utree := [ [ [([97]%N : str)]; [([98]%N : str)] ] ] in
  let sep := sep3 xp xs xw in
  c08_hyp_b xp xs xw t = true /\ joined_hyp_b xp xs xw t = true /\
  tokenize sep (render sep t) Word true = Ok [([97; 95; 61; 98]%N : str)] /\
  map (render_join_word xp xs) t = [([97; 61; 98]%N : str)] /\
  tokenize sep (render sep t) Word true <> Ok (map (render_join_word xp xs) t).
Proof. vm_compute. repeat split. discriminate. Qed.

(* the hypotheses are satisfiable: wordseg's default separators (" ", ";esyll", ";eword"),
   two words hh.e-l.ow and s.y.d whose phones share letters with the separators *)
Example joined_default_config :
  let xp := [sp] in
  let xs := ([59; 101; 115; 121; 108; 108]%N : str) in      (* ;esyll *)
  let xw := ([59; 101; 119; 111; 114; 100]%N : str) in      (* ;eword *)
  let t : utree := [ [ [([104; 104]%N : str); ([101]%N : str)]; [([108]%N : str); ([111; 119]%N : str)] ];
                     [ [([115]%N : str); ([121]%N : str); ([100]%N : str)] ] ] in
  joined_hyp_b xp xs xw t = true /\ c08_hyp_b xp xs xw t = true.
Proof. vm_compute. split; reflexivity. Qed.

(* the same tree with the one-character separators "_" "=" "#" *)
Example joined_compact_config :
  let xp : str := [95]%N in let xs : str := [61]%N in let xw : str := [35]%N in
  let t : utree := [ [ [([104; 104]%N : str); ([101]%N : str)]; [([108]%N : str); ([111; 119]%N : str)] ];
                     [ [([115]%N : str); ([121]%N : str); ([100]%N : str)] ] ] in
  joined_hyp_b xp xs xw t = true /\ c08_hyp_b xp xs xw t = true /\
  render_join xp xs xw t
  = [104; 104; 95; 101; 61; 108; 95; 111; 119; 35; 115; 95; 121; 95; 100]%N.   (* hh_e=l_ow#s_y_d *)
Proof. vm_compute. repeat split. Qed.

(* the no_border hypothesis cannot be dropped (everything else holds in both examples) *)

(* phone separator "=b", syllable separator "=": in the word a=b the final strip over all
   separators sees the suffix "=b" as a phone separator and cuts it *)
Example word_joined_needs_no_border :
  let xp : str := [61; 98]%N in let xs : str := [61]%N in let xw : str := [35]%N in
  let t : utree := [ [ [([97]%N : str)]; [([98]%N : str)] ] ] in
  let sep := sep3 xp xs xw in
  jtree_ok_b xp xs xw t && tree_hf_b xp xs xw t = true /\ nbj_b xp xs xw = false /\
  render_join xp xs xw t = [97; 61; 98]%N /\
  tokenize sep (render_join xp xs xw t) Word false = Ok [([97]%N : str)] /\
  words_of t = [([97; 98]%N : str)].
Proof. vm_compute. repeat split. Qed.

(* phone separator "_", syllable separator "_ab", words c.a and b: once "#" is removed from
   c_a#b the glued text c_ab contains a syllable separator *)
Example remove_joined_needs_no_border :
  let xp : str := [95]%N in let xs : str := [95; 97; 98]%N in let xw : str := [35]%N in
  let t : utree := [ [ [([99]%N : str); ([97]%N : str)] ]; [ [([98]%N : str)] ] ] in
  let sep := sep3 xp xs xw in
  jtree_ok_b xp xs xw t && tree_hf_b xp xs xw t = true /\ nbj_b xp xs xw = false /\
  render_join xp xs xw t = [99; 95; 97; 35; 98]%N /\
  remove sep (render_join xp xs xw t) None = Ok ([99]%N : str) /\
  concat (phones_of t) = [99; 97; 98]%N.
Proof. vm_compute. repeat split. Qed.

Print Assumptions tokenize_phone_joined.
Print Assumptions tokenize_syll_joined.
Print Assumptions tokenize_word_joined.
Print Assumptions remove_joined.
Print Assumptions tokenize_word_keep_corrected.
Print Assumptions tokenize_word_keep_refuted.
Print Assumptions tokenize_syll_keep.
Print Assumptions tokenize_syll_keep_ws.
Print Assumptions tokenize_word_keep_joined.
Print Assumptions tokenize_syll_keep_joined.
Print Assumptions joined_round_trip_b.
Print Assumptions joined_keep_b.
Print Assumptions compact_keep_b.
