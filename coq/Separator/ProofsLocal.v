(* C08: "Level-specific removal and stripping leave the other levels untouched", on the
   compact rendering of a word > syllable > phone tree with three defined levels.

   render_with p s w t            the rendering with arbitrary (possibly empty) separator strings:
                                  every phone followed by p, every syllable by s, every word by w
                                  (render_with_eq: it is [render (sep3 p s w) t])
   L1  remove_phone_render        remove (Some Phone) = collapse_spaces (render_with [] xs xw t)
   L2  remove_syll_render         remove (Some Syll)  = collapse_spaces (render_with xp [] xw t)
   L3  remove_word_render         remove (Some Word)  = collapse_spaces (render_with xp xs [] t)
       replace_{phone,syll,word}_render   the same facts for the single str.replace
       remove_*_render_nds        collapse_spaces is the identity when what remains has no two
                                  adjacent U+0020 and no block starts with one (nds)
       remove_*_render_nosp       ... in particular when there is no U+0020 at all ("_" "=" "#")
       remove_syll_render_ws, remove_word_render_ws
                                  ... and when xp = " " (the spaces are then the phone separators)
       remove_syll_collapse_needed   an example where collapse_spaces does change what remains
   L4  remove_syll_then_tokenize  what remains after removing the syllable separators tokenizes,
                                  with the syllable level undefined, to the same words and phones
       remove_syll_then_tokenize3 the same from the three-level hypotheses of Checkers.v
       tokenize_word2_ws, tokenize_phone2_ws   (new) two-level tokenization, whitespace phone separator
       tree_ok_tree2, tree2_ok_needed          the two-level hypothesis and why tree_ok is not enough
   L5  strip_word_render          sep_strip (Some Word) removes exactly the final word separator
       strip_word_render_clean    ... and nothing else when xs does not end with white space
       strip_word_needs_unbordered   why the word separator must not overlap itself
   local_hyp_b, local_b           one boolean hypothesis for all of the above; it holds for
                                  (" ", ";esyll", ";eword") and ("_", "=", "#") on a two-word tree *)
From WS Require Import Base.Py Base.Str Separator.Model Separator.Render.
From WS Require Import Separator.StrLemmas Separator.StripLemmas Separator.ProofsTree
  Separator.ProofsTreeStrip Separator.ProofsNested Separator.ProofsTwo Separator.ProofsWsPhone
  Separator.Checkers.
From WS Require Import Prepare.ViewsLemmas.

(* ================= 0. the rendering with arbitrary separator strings ================= *)

Definition render_with (p s w : str) (t : utree) : str :=
  concat (map (fun wd : list (list str) =>
                 concat (map (fun syl : list str =>
                                concat (map (fun ph : str => ph ++ p) syl) ++ s) wd) ++ w) t).

Lemma render_with_eq (p s w : str) (t : utree) : render_with p s w t = render (sep3 p s w) t.
Proof. reflexivity. Qed.

Lemma render_with_body (p s w : str) (t : utree) :
  render_with p s w t = terminated w (map (word_body p s) t).
Proof. rewrite render_with_eq. apply render3_eq. Qed.

(* the syllable separator empty: the rendering under the two-level separator of ProofsTwo.v *)
Lemma render_with_no_syll (p w : str) (t : utree) : render_with p [] w t = render (sep2 p w) t.
Proof. reflexivity. Qed.

(* the phone separator empty: the syllables, each followed by s *)
Lemma render_with_no_phone (s w : str) (t : utree) :
  render_with [] s w t
  = terminated w (map (fun wd : list (list str) => terminated s (map (@concat char) wd)) t).
Proof.
  rewrite render_with_body. f_equal. apply map_ext. intros wd. unfold word_body. f_equal.
  apply map_ext. intros syl. apply terminated_nil_sep.
Qed.

(* the word separator empty: the word bodies, concatenated *)
Lemma render_with_no_word (p s : str) (t : utree) :
  render_with p s [] t = concat (map (word_body p s) t).
Proof. rewrite render_with_body. apply terminated_nil_sep. Qed.

(* ================= 1. strings that collapse_spaces leaves alone ================= *)

(* [nds_go prev s]: no two adjacent U+0020 in s, and s does not start with one when [prev] *)
Fixpoint nds_go (prev : bool) (s : str) : bool :=
  match s with
  | [] => true
  | c :: s' => if (c =? sp)%N then negb prev && nds_go true s' else nds_go false s'
  end.
(* no two adjacent U+0020 *)
Definition no_sp2 (s : str) : bool := nds_go false s.
(* no two adjacent U+0020 and no leading one: such blocks can be concatenated freely *)
Definition nds (s : str) : bool := nds_go true s.

Lemma nds_go_weaken (p : bool) (s : str) : nds_go true s = true -> nds_go p s = true.
Proof.
  destruct s as [|c s]; [reflexivity|]. cbn [nds_go negb andb].
  destruct (c =? sp)%N; [discriminate|auto].
Qed.

Lemma nds_go_app (p : bool) (a r : str) :
  nds_go p a = true -> nds_go true r = true -> nds_go p (a ++ r) = true.
Proof.
  revert p. induction a as [|c a IH]; intros p Ha Hr.
  - now apply nds_go_weaken.
  - cbn [app nds_go] in *. destruct (c =? sp)%N.
    + apply andb_true_iff in Ha as [H1 H2]. rewrite H1. cbn [andb]. now apply IH.
    + now apply IH.
Qed.

Lemma nds_go_collapse (p : bool) (s : str) : nds_go p s = true -> collapse_spaces s = s.
Proof.
  revert p. induction s as [|c s IH]; intros p H; [reflexivity|].
  cbn [nds_go] in H. cbn [collapse_spaces]. destruct (c =? sp)%N eqn:E.
  - apply andb_true_iff in H as [_ H]. destruct s as [|d s]; [reflexivity|].
    pose proof H as H'. cbn [nds_go negb andb] in H'. destruct (d =? sp)%N; [discriminate|].
    f_equal. now apply (IH true).
  - f_equal. now apply (IH false).
Qed.

Lemma nds_collapse (s : str) : nds s = true -> collapse_spaces s = s.
Proof. apply nds_go_collapse. Qed.

Lemma nds_app (a r : str) : nds a = true -> nds r = true -> nds (a ++ r) = true.
Proof. apply nds_go_app. Qed.

Lemma nds_concat (l : list str) : Forall (fun a : str => nds a = true) l -> nds (concat l) = true.
Proof.
  induction 1 as [|a l Ha _ IH]; [reflexivity|]. cbn [concat]. now apply nds_app.
Qed.

Lemma nds_render_with (p s w : str) (t : utree) :
  Forall (fun ph : str => nds (ph ++ p) = true) (phones_of t) -> nds s = true -> nds w = true ->
  nds (render_with p s w t) = true.
Proof.
  intros Hph Hs Hw. apply phones_of_nested in Hph. unfold render_with.
  apply nds_concat, Forall_map. eapply Forall_impl; [|exact Hph]. intros wd Hwd.
  apply nds_app; [|exact Hw]. apply nds_concat, Forall_map.
  eapply Forall_impl; [|exact Hwd]. intros syl Hsyl.
  apply nds_app; [|exact Hs]. apply nds_concat, Forall_map. exact Hsyl.
Qed.

Definition no_sp (s : str) : Prop := Forall (fun c : char => (c =? sp)%N = false) s.

Lemma nds_go_no_sp (q : bool) (a : str) : no_sp a -> nds_go q a = true.
Proof.
  intros H. revert q. induction H as [|c a Hc _ IH]; intros q; [reflexivity|].
  cbn [nds_go]. rewrite Hc. apply IH.
Qed.

Lemma nds_go_no_sp_app (q : bool) (a r : str) : no_sp a -> a <> [] ->
  nds_go q (a ++ r) = nds_go false r.
Proof.
  intros H. revert q. induction H as [|c a Hc Ha IH]; intros q Hn; [congruence|].
  cbn [app nds_go]. rewrite Hc. destruct a as [|d a]; [reflexivity|].
  apply IH. discriminate.
Qed.

(* a non-empty token without U+0020 followed by a separator without two adjacent U+0020 *)
Lemma tok_nds (ph p : str) : tok_ok ph -> no_sp2 p = true -> nds (ph ++ p) = true.
Proof.
  intros [Hn Hw] Hp. unfold nds. rewrite nds_go_no_sp_app; [exact Hp| |exact Hn].
  now apply ws_free_no_sp.
Qed.

Lemma no_sp_nds (s : str) : no_sp s -> nds s = true.
Proof. apply nds_go_no_sp. Qed.

Lemma no_sp_app (a b : str) : no_sp a -> no_sp b -> no_sp (a ++ b).
Proof. intros Ha Hb. apply Forall_app. now split. Qed.

(* ================= 2. removing one level ================= *)

Lemma remove_phone_eq (xp xs xw u : str) :
  remove (sep3 xp xs xw) u (Some Phone) = Ok (collapse_spaces (replace_all xp [] u)).
Proof. reflexivity. Qed.

Lemma remove_syll_eq (xp xs xw u : str) :
  remove (sep3 xp xs xw) u (Some Syll) = Ok (collapse_spaces (replace_all xs [] u)).
Proof. reflexivity. Qed.

Lemma remove_word_eq (xp xs xw u : str) :
  remove (sep3 xp xs xw) u (Some Word) = Ok (collapse_spaces (replace_all xw [] u)).
Proof. reflexivity. Qed.

(* The hypotheses, one per level (each is one third of [tree_ok] of ProofsTree.v):
   in [tok ++ x], x being the separator that follows the token in the rendering, the separator
   occurs first at the end of the token (so: nowhere inside, and not straddling the end). *)
Definition phones_sep (xp : str) (t : utree) : Prop :=
  Forall (Forall (Forall (fun ph : str => only_at_end xp ph = true))) t.
Definition sylls_sep (xp xs : str) (t : utree) : Prop :=
  Forall (Forall (fun syl : list str => only_at_end xs (terminated xp syl) = true)) t.
Definition words_sep (xp xs xw : str) (t : utree) : Prop :=
  Forall (fun w : list (list str) => only_at_end xw (word_body xp xs w) = true) t.

Lemma tree_ok_phones_sep (xp xs xw : str) (t : utree) : tree_ok xp xs xw t -> phones_sep xp t.
Proof.
  intros H. eapply Forall_impl; [|exact H]. intros w (_ & Hs & _).
  eapply Forall_impl; [|exact Hs]. intros syl (_ & Hp & _).
  eapply Forall_impl; [|exact Hp]. now intros ph (_ & _ & Ho).
Qed.

Lemma tree_ok_sylls_sep (xp xs xw : str) (t : utree) : tree_ok xp xs xw t -> sylls_sep xp xs t.
Proof.
  intros H. eapply Forall_impl; [|exact H]. intros w (_ & Hs & _).
  eapply Forall_impl; [|exact Hs]. now intros syl (_ & _ & Ho).
Qed.

Lemma tree_ok_words_sep (xp xs xw : str) (t : utree) : tree_ok xp xs xw t -> words_sep xp xs xw t.
Proof. intros H. eapply Forall_impl; [|exact H]. now intros w (_ & _ & Ho). Qed.

(* str.replace(x, new) over tokens each followed by x *)
Lemma loc_replace_go_terminated (x new : str) (toks : list str) (rest : str) : x <> [] ->
  Forall (fun a : str => only_at_end x a = true) toks ->
  replace_go x new (terminated x toks ++ rest) 0
  = terminated new toks ++ replace_go x new rest 0.
Proof.
  intros Hx H. induction H as [|a toks Ha _ IH]; [reflexivity|].
  rewrite !terminated_cons, <- !app_assoc. rewrite only_at_end_replace_go by assumption.
  now rewrite IH.
Qed.

Section Remove.
  Variables xp xs xw : str.
  Let sep := sep3 xp xs xw.

  (* ---- L1: the phone level ---- *)

  Lemma remove_phone_word (w : list (list str)) (rest : str) : xp <> [] -> free xp xs ->
    Forall (Forall (fun ph : str => only_at_end xp ph = true)) w ->
    replace_go xp [] (word_body xp xs w ++ rest) 0
    = word_body [] xs w ++ replace_go xp [] rest 0.
  Proof.
    intros Hxp Fps H. induction H as [|syl w Hsyl _ IH]; [reflexivity|].
    unfold word_body in *. cbn [map]. rewrite !terminated_cons, <- !app_assoc.
    rewrite loc_replace_go_terminated by assumption. f_equal.
    rewrite replace_go_free by exact Fps. f_equal. exact IH.
  Qed.

  Lemma remove_phone_tree (t : utree) (rest : str) : xp <> [] -> free xp xs -> free xp xw ->
    phones_sep xp t ->
    replace_go xp [] (terminated xw (map (word_body xp xs) t) ++ rest) 0
    = terminated xw (map (word_body [] xs) t) ++ replace_go xp [] rest 0.
  Proof.
    intros Hxp Fps Fpw H. induction H as [|w t Hw _ IH]; [reflexivity|].
    cbn [map]. rewrite !terminated_cons, <- !app_assoc.
    rewrite remove_phone_word by assumption. f_equal.
    rewrite replace_go_free by exact Fpw. f_equal. exact IH.
  Qed.

  (* Hypotheses of L1:
     - xp <> []        the phone level is defined;
     - phones_sep xp t in [ph ++ xp] the phone separator occurs first at the end of the phone;
     - free xp xs, free xp xw   the phone separator cannot start inside the syllable separator
                       nor inside the word separator, whatever follows them (Prepare/ViewsLemmas.v). *)
  Lemma replace_phone_render (t : utree) : xp <> [] -> free xp xs -> free xp xw ->
    phones_sep xp t ->
    replace_all xp [] (render sep t) = render_with [] xs xw t.
  Proof.
    intros Hxp Fps Fpw H. unfold sep. rewrite render3_eq, render_with_body.
    rewrite replace_all_go by exact Hxp.
    pose proof (remove_phone_tree t [] Hxp Fps Fpw H) as E. rewrite !app_nil_r in E. exact E.
  Qed.

  Theorem remove_phone_render : forall t : utree,
    xp <> [] -> free xp xs -> free xp xw -> phones_sep xp t ->
    remove sep (render sep t) (Some Phone) = Ok (collapse_spaces (render_with [] xs xw t)).
  Proof.
    intros t Hxp Fps Fpw H. unfold sep. rewrite remove_phone_eq. fold sep.
    now rewrite replace_phone_render.
  Qed.

  (* ---- L2: the syllable level ---- *)

  Lemma remove_syll_tree (t : utree) (rest : str) : xs <> [] -> free xs xw -> sylls_sep xp xs t ->
    replace_go xs [] (terminated xw (map (word_body xp xs) t) ++ rest) 0
    = terminated xw (map (word_body xp []) t) ++ replace_go xs [] rest 0.
  Proof.
    intros Hxs Fsw H. induction H as [|w t Hw _ IH]; [reflexivity|].
    cbn [map]. rewrite !terminated_cons, <- !app_assoc. unfold word_body at 1 3.
    rewrite loc_replace_go_terminated; [|exact Hxs|now apply Forall_map].
    f_equal. rewrite replace_go_free by exact Fsw. f_equal. exact IH.
  Qed.

  (* Hypotheses of L2:
     - xs <> []           the syllable level is defined;
     - sylls_sep xp xs t  in [ph1 xp .. phn xp ++ xs] the syllable separator occurs first at the end;
     - free xs xw         the syllable separator cannot start inside the word separator. *)
  Lemma replace_syll_render (t : utree) : xs <> [] -> free xs xw -> sylls_sep xp xs t ->
    replace_all xs [] (render sep t) = render_with xp [] xw t.
  Proof.
    intros Hxs Fsw H. unfold sep. rewrite render3_eq, render_with_body.
    rewrite replace_all_go by exact Hxs.
    pose proof (remove_syll_tree t [] Hxs Fsw H) as E. rewrite !app_nil_r in E. exact E.
  Qed.

  Theorem remove_syll_render : forall t : utree,
    xs <> [] -> free xs xw -> sylls_sep xp xs t ->
    remove sep (render sep t) (Some Syll) = Ok (collapse_spaces (render_with xp [] xw t)).
  Proof.
    intros t Hxs Fsw H. unfold sep. rewrite remove_syll_eq. fold sep.
    now rewrite replace_syll_render.
  Qed.

  (* ---- L3: the word level ---- *)

  (* Hypotheses of L3:
     - xw <> []              the word level is defined;
     - words_sep xp xs xw t  in [word body ++ xw] the word separator occurs first at the end. *)
  Lemma replace_word_render (t : utree) : xw <> [] -> words_sep xp xs xw t ->
    replace_all xw [] (render sep t) = render_with xp xs [] t.
  Proof.
    intros Hxw H. unfold sep. rewrite render3_eq, render_with_no_word. unfold terminated.
    apply replace_all_joined; [exact Hxw|]. now apply Forall_map.
  Qed.

  Theorem remove_word_render : forall t : utree,
    xw <> [] -> words_sep xp xs xw t ->
    remove sep (render sep t) (Some Word) = Ok (collapse_spaces (render_with xp xs [] t)).
  Proof.
    intros t Hxw H. unfold sep. rewrite remove_word_eq. fold sep.
    now rewrite replace_word_render.
  Qed.

  (* ---- without collapse_spaces ---- *)

  (* what remains is made of blocks (phone ++ its separator, the syllable separator, the word
     separator) none of which starts with U+0020 or contains two adjacent ones *)
  Theorem remove_phone_render_nds : forall t : utree,
    xp <> [] -> free xp xs -> free xp xw -> phones_sep xp t ->
    Forall (fun ph : str => nds ph = true) (phones_of t) -> nds xs = true -> nds xw = true ->
    remove sep (render sep t) (Some Phone) = Ok (render_with [] xs xw t).
  Proof.
    intros t Hxp Fps Fpw H Hph Hs Hw. rewrite remove_phone_render by assumption. f_equal.
    apply nds_collapse, nds_render_with; try assumption.
    eapply Forall_impl; [|exact Hph]. intros ph Hn. now rewrite app_nil_r.
  Qed.

  Theorem remove_syll_render_nds : forall t : utree,
    xs <> [] -> free xs xw -> sylls_sep xp xs t ->
    Forall (fun ph : str => nds (ph ++ xp) = true) (phones_of t) -> nds xw = true ->
    remove sep (render sep t) (Some Syll) = Ok (render_with xp [] xw t).
  Proof.
    intros t Hxs Fsw H Hph Hw. rewrite remove_syll_render by assumption. f_equal.
    now apply nds_collapse, nds_render_with.
  Qed.

  Theorem remove_word_render_nds : forall t : utree,
    xw <> [] -> words_sep xp xs xw t ->
    Forall (fun ph : str => nds (ph ++ xp) = true) (phones_of t) -> nds xs = true ->
    remove sep (render sep t) (Some Word) = Ok (render_with xp xs [] t).
  Proof.
    intros t Hxw H Hph Hs. rewrite remove_word_render by assumption. f_equal.
    now apply nds_collapse, nds_render_with.
  Qed.

  (* no U+0020 at all in the phones and in the separators that remain ("_", "=", "#") *)
  Theorem remove_phone_render_nosp : forall t : utree,
    xp <> [] -> free xp xs -> free xp xw -> phones_sep xp t ->
    Forall no_sp (phones_of t) -> no_sp xs -> no_sp xw ->
    remove sep (render sep t) (Some Phone) = Ok (render_with [] xs xw t).
  Proof.
    intros t Hxp Fps Fpw H Hph Hs Hw. apply remove_phone_render_nds; try assumption;
      try now apply no_sp_nds.
    eapply Forall_impl; [|exact Hph]. intros ph. apply no_sp_nds.
  Qed.

  Theorem remove_syll_render_nosp : forall t : utree,
    xs <> [] -> free xs xw -> sylls_sep xp xs t ->
    Forall no_sp (phones_of t) -> no_sp xp -> no_sp xw ->
    remove sep (render sep t) (Some Syll) = Ok (render_with xp [] xw t).
  Proof.
    intros t Hxs Fsw H Hph Hp Hw. apply remove_syll_render_nds; try assumption;
      try now apply no_sp_nds.
    eapply Forall_impl; [|exact Hph]. intros ph Hn. now apply no_sp_nds, no_sp_app.
  Qed.

  Theorem remove_word_render_nosp : forall t : utree,
    xw <> [] -> words_sep xp xs xw t ->
    Forall no_sp (phones_of t) -> no_sp xp -> no_sp xs ->
    remove sep (render sep t) (Some Word) = Ok (render_with xp xs [] t).
  Proof.
    intros t Hxw H Hph Hp Hs. apply remove_word_render_nds; try assumption;
      try now apply no_sp_nds.
    eapply Forall_impl; [|exact Hph]. intros ph Hn. now apply no_sp_nds, no_sp_app.
  Qed.

  (* the phones are non-empty and whitespace-free and the phone separator has no two adjacent
     U+0020 (it may be, or start with, or end with one): every U+0020 of a phone separator then
     follows a phone character *)
  Theorem remove_syll_render_tok : forall t : utree,
    xs <> [] -> free xs xw -> sylls_sep xp xs t ->
    Forall tok_ok (phones_of t) -> no_sp2 xp = true -> nds xw = true ->
    remove sep (render sep t) (Some Syll) = Ok (render_with xp [] xw t).
  Proof.
    intros t Hxs Fsw H Hph Hp Hw. apply remove_syll_render_nds; try assumption.
    eapply Forall_impl; [|exact Hph]. intros ph Hn. now apply tok_nds.
  Qed.

  Theorem remove_word_render_tok : forall t : utree,
    xw <> [] -> words_sep xp xs xw t ->
    Forall tok_ok (phones_of t) -> no_sp2 xp = true -> nds xs = true ->
    remove sep (render sep t) (Some Word) = Ok (render_with xp xs [] t).
  Proof.
    intros t Hxw H Hph Hp Hs. apply remove_word_render_nds; try assumption.
    eapply Forall_impl; [|exact Hph]. intros ph Hn. now apply tok_nds.
  Qed.
End Remove.

(* wordseg's default phone separator, one U+0020: the spaces of the rendering are the phone
   separators, they all follow a phone, and removing the syllable (or word) separators leaves
   them as they are: "a b ;esyll c ;esyll ;eword" -> "a b c ;eword" *)
Theorem remove_syll_render_ws : forall (xs xw : str) (t : utree),
  xs <> [] -> free xs xw -> sylls_sep [sp] xs t ->
  Forall tok_ok (phones_of t) -> nds xw = true ->
  remove (sep3 [sp] xs xw) (render (sep3 [sp] xs xw) t) (Some Syll) = Ok (render_with [sp] [] xw t).
Proof. intros xs xw t Hxs Fsw H Hph Hw. now apply remove_syll_render_tok. Qed.

Theorem remove_word_render_ws : forall (xs xw : str) (t : utree),
  xw <> [] -> words_sep [sp] xs xw t ->
  Forall tok_ok (phones_of t) -> nds xs = true ->
  remove (sep3 [sp] xs xw) (render (sep3 [sp] xs xw) t) (Some Word) = Ok (render_with [sp] xs [] t).
Proof. intros xs xw t Hxw H Hph Hs. now apply remove_word_render_tok. Qed.

(* collapse_spaces cannot be dropped from L2 in general: " ", "=", " #" on the single phone "a":
   "a = #" -> "a  #" -> "a #" *)
Example remove_syll_collapse_needed :
  let xp := [sp] in let xs := ([61]%N : str) in let xw := ([32; 35]%N : str) in
  let t : utree := [[[([97]%N : str)]]] in
  remove (sep3 xp xs xw) (render (sep3 xp xs xw) t) (Some Syll) = Ok [97; 32; 35]%N /\
  render_with xp [] xw t = [97; 32; 32; 35]%N.
Proof. vm_compute. split; reflexivity. Qed.

(* ================= 3. two defined levels, whitespace phone separator ================= *)

(* ProofsTwo.v treats the separator triple with the syllable level undefined under [ends_ok xp]
   (the phone separator does not end with white space); wordseg's default phone separator is one
   space, so the same two theorems are proved here for a phone separator made of white space only
   (as ProofsWsPhone.v does for three levels): the per-token strip() removes the last phone
   separator of every word. *)
Section TwoWs.
  Variables xp xw : str.
  Hypothesis Hxp : xp <> [].
  Hypothesis Hxw : xw <> [].
  Hypothesis Hwp : ws_only xp.
  Let sep := sep2 xp xw.

  Lemma tok1_word2_ws (ws : list (list str)) : Forall (wordp_ok xp xw) ws ->
    tok1 sep (terminated xw (map (terminated xp) ws)) Word
    = map (fun wd : list str => strip (terminated xp wd)) ws.
  Proof.
    intros H. rewrite (tok1_terminated_strip sep Word xw); [now rewrite map_map|reflexivity|exact Hxw|].
    apply Forall_map. eapply Forall_impl; [|exact H]. intros wd (Hn & _ & Ho).
    split; [now apply terminated_nonnil|exact Ho].
  Qed.

  Lemma tok1_phone2_ws (wd : list str) : wordp_ok xp xw wd ->
    tok1 sep (strip (terminated xp wd)) Phone = wd.
  Proof.
    intros (Hn & Hp & _). destruct (exists_last Hn) as (init & ph & ->).
    destruct (syl_strip xp Hwp init ph Hp) as (E & _). rewrite E.
    apply tok1_joined; [reflexivity|exact Hxp|].
    eapply Forall_impl; [|exact Hp]. intros q (H1 & H2 & H3).
    split; [exact H1|split; [now apply ws_free_clean_ends|exact H3]].
  Qed.

  Theorem tokenize_phone2_ws : forall (t : utree) (keep : bool), tree2_ok xp xw t ->
    tokenize sep (render sep t) Phone keep = Ok (concat (map (@concat str) t)).
  Proof.
    intros t keep H. unfold sep. rewrite tokenize2_phone, render2_eq. cbv zeta. fold sep.
    unfold tree2_ok in H. set (ws := map (@concat str) t) in *.
    rewrite tok1_word2_ws by exact H. rewrite flat_map_map.
    rewrite (flat_map_ext_Forall _ (fun wd : list str => wd)).
    2:{ eapply Forall_impl; [|exact H]. intros wd. apply tok1_phone2_ws. }
    rewrite flat_map_id_concat.
    assert (Hph : Forall (phone_full2 xp xw) (concat ws)).
    { apply Forall_concat. eapply Forall_impl; [|exact H]. intros wd. now apply wordp_phones. }
    rewrite (map_id_Forall (strip_with [xw; xp])).
    2:{ eapply Forall_impl; [|exact Hph]. intros ph Hf. apply strip_with_id.
        - now apply phone_full2_seps.
        - apply ws_free_clean_ends, Hf. }
    f_equal.
    assert (Hne : filter nonempty (concat ws) = concat ws).
    { apply filter_nonempty_id. eapply Forall_impl; [|exact Hph]. now intros ph (Hn & _). }
    destruct keep; [exact Hne|].
    rewrite (map_id_Forall (remove_all sep)); [exact Hne|].
    eapply Forall_impl; [|exact Hph]. intros ph Hf. apply remove_all_id.
    - now apply phone_full2_seps.
    - apply ws_free_no_sp, Hf.
  Qed.

  Let seps := [xw; xp].
  Let regions := [xp].
  Hypothesis NB : forall x R : str, In x seps -> In R regions -> no_border x R.

  Let seps_ne : Forall (fun x : str => x <> []) seps.
  Proof. repeat constructor; assumption. Qed.

  Lemma wordp_strip_remove_ws (wd : list str) : wordp_ok xp xw wd -> Forall (head_free seps) wd ->
    remove_all sep (strip_with seps (strip (terminated xp wd))) = concat wd.
  Proof.
    intros (Hn & Hp & Hw) Hh.
    pose proof (good_phones2 xp xw wd Hp Hh) as Hg. fold seps in Hg.
    assert (Hpo : Forall (fun ph : str => only_at_end xp ph = true) wd).
    { eapply Forall_impl; [|exact Hp]. now intros ph (_ & _ & Ho). }
    assert (Hws : Forall ws_free wd).
    { eapply Forall_impl; [|exact Hp]. now intros ph (_ & Hw' & _). }
    apply only_at_end_no_infix in Hw; [|exact Hxw].
    destruct (exists_last Hn) as (init & ph & ->).
    destruct (syl_strip xp Hwp init ph Hp) as (E & Hc & Hne). rewrite E.
    apply Forall_app in Hg as [Hgi Hgp]. inversion Hgp as [|? ? Hgph _]; subst.
    apply Forall_app in Hpo as [Hpoi Hpop]. inversion Hpop as [|? ? Hoph _]; subst.
    apply Forall_app in Hws as [Hwsi Hwsp]. inversion Hwsp as [|? ? Hwph _]; subst.
    assert (Hstrip : strip_with seps (terminated xp init ++ ph) = terminated xp init ++ ph).
    { unfold strip_with, seps. fold seps.
      rewrite strip_prefix_phone_headed; [|exact seps_ne|].
      2:{ destruct init as [|q init].
          - rewrite terminated_nil. cbn [app]. exists ph, []. split; [now rewrite app_nil_r|exact Hgph].
          - apply phone_headed_terminated; [discriminate|exact Hgi]. }
      rewrite (walk_joined seps seps_ne regions NB); try assumption; [|cbn; now auto].
      now apply strip_clean_ends. }
    rewrite Hstrip. unfold sep. rewrite remove_all2.
    assert (E2 : terminated xp (init ++ [ph]) = (terminated xp init ++ ph) ++ xp).
    { now rewrite terminated_app, terminated_one, app_assoc. }
    rewrite E2 in Hw. apply infix_b_false_app_l in Hw.
    rewrite (replace_all_no_infix xw) by exact Hw.
    unfold terminated. rewrite replace_all_joined_rest by assumption.
    rewrite (replace_all_no_infix xp) by now apply only_at_end_no_infix.
    rewrite concat_app. cbn [concat]. rewrite app_nil_r.
    apply collapse_spaces_ws_free, ws_free_app. split; [|exact Hwph].
    now apply ws_free_concat.
  Qed.

  Theorem tokenize_word2_ws : forall t : utree, tree2_ok xp xw t -> tree2_hf xp xw t ->
    tokenize sep (render sep t) Word false = Ok (map word_plain t).
  Proof.
    intros t H Hh. unfold sep. rewrite tokenize2_word, render2_eq. cbv zeta. fold sep.
    unfold tree2_ok in H. unfold tree2_hf in Hh.
    rewrite tok1_word2_ws by exact H. f_equal. rewrite !map_map.
    assert (E : map word_plain t = map (fun w : list (list str) => concat (concat w)) t).
    { apply map_ext. intros w. unfold word_plain, syll_plain. symmetry. apply concat_concat. }
    rewrite E.
    rewrite (map_ext_Forall _ (fun w : list (list str) => concat (concat w))).
    2:{ apply Forall_forall. intros w Hin. apply wordp_strip_remove_ws.
        - apply (proj1 (Forall_forall _ _) H). now apply in_map.
        - apply (proj1 (Forall_forall _ _) Hh). now apply in_map. }
    apply filter_nonempty_id. apply Forall_map. rewrite Forall_map in H.
    eapply Forall_impl; [|exact H]. intros w (Hn & Hp & _).
    destruct Hp as [|ph wd (Hph & _) _]; [congruence|]. now apply concat_nonnil_hd.
  Qed.
End TwoWs.

(* ================= 4. L4: what remains tokenizes to the same tokens ================= *)

(* the two-level reading of a three-level tree *)
Lemma free_only_at_end_loc (x b : str) : free x b -> only_at_end x b = true.
Proof.
  intros H. induction b as [|c b IH]; [apply only_at_end_nil|].
  apply only_at_end_cons. split.
  - apply (H [] (c :: b) x eq_refl). discriminate.
  - apply IH. eapply free_cons_inv; eauto.
Qed.

Lemma free_terminated_loc (x p : str) (toks : list str) :
  free x p -> Forall (free x) toks -> free x (terminated p toks).
Proof.
  intros Hp H. unfold terminated. apply free_concat. apply Forall_map.
  eapply Forall_impl; [|exact H]. intros a Ha. now apply free_app.
Qed.

Lemma tree_ok_phone_ok (xp xs xw : str) (t : utree) : tree_ok xp xs xw t ->
  Forall (Forall (Forall (phone_ok xp))) t.
Proof.
  intros H. eapply Forall_impl; [|exact H]. intros w (_ & Hs & _).
  eapply Forall_impl; [|exact Hs]. now intros syl (_ & Hp & _).
Qed.

(* [tree2_ok xp xw t] (ProofsTwo.v) says of every word, read as the list of its phones, what
   [tree_ok] says with the syllable level removed; the word-separator part does NOT follow from
   [tree_ok xp xs xw t] (tree2_ok_needed below): it does when the word separator cannot start
   inside a phone or inside the phone separator *)
Lemma tree_ok_tree2 (xp xs xw : str) (t : utree) : tree_ok xp xs xw t ->
  free xw xp -> Forall (free xw) (phones_of t) -> tree2_ok xp xw t.
Proof.
  intros H Fwp Hf. apply phones_of_nested in Hf. pose proof (tree_ok_phone_ok _ _ _ _ H) as Hp.
  unfold tree2_ok. apply Forall_map. unfold tree_ok in H. rewrite Forall_forall in *.
  intros w Hin. destruct (H w Hin) as (Hn & Hs & _). specialize (Hf w Hin). specialize (Hp w Hin).
  split; [|split].
  - destruct Hs as [|syl w' (Hsn & _) _]; [congruence|]. cbn [concat].
    destruct syl; [congruence|discriminate].
  - now apply Forall_concat.
  - apply free_only_at_end_loc, free_terminated_loc; [exact Fwp|]. now apply Forall_concat.
Qed.

(* "_", "=", "_c", one word of the two syllables "a" and "c": tree_ok holds, but without the
   syllable separators the rendering "a_c__c" shows the word separator inside the word *)
Example tree2_ok_needed :
  let xp := ([95]%N : str) in let xs := ([61]%N : str) in let xw := ([95; 99]%N : str) in
  let t : utree := [[[([97]%N : str)]; [([99]%N : str)]]] in
  tree_ok_b xp xs xw t = true /\
  remove (sep3 xp xs xw) (render (sep3 xp xs xw) t) (Some Syll) = Ok [97; 95; 99; 95; 95; 99]%N /\
  tokenize (sep2 xp xw) [97; 95; 99; 95; 95; 99]%N Word false = Ok [[97]]%N /\
  words_of t = [[97; 99]]%N.
Proof. vm_compute. repeat split; reflexivity. Qed.

Lemma tree_hf_tree2 (xp xs xw : str) (t : utree) : tree_hf xp xs xw t -> tree2_hf xp xw t.
Proof.
  intros H. unfold tree2_hf. apply Forall_map. eapply Forall_impl; [|exact H]. intros w Hw.
  apply Forall_concat. eapply Forall_impl; [|exact Hw]. intros syl Hsyl.
  eapply Forall_impl; [|exact Hsyl]. intros ph Hph. unfold head_free in *.
  eapply Forall_impl; [|exact Hph]. intros c Hc.
  inversion Hc as [|? ? H1 Hc']; subst. inversion Hc' as [|? ? H2 Hc'']; subst.
  constructor; assumption.
Qed.

Lemma tree2_ok_phones_tok (xp xw : str) (t : utree) : tree2_ok xp xw t -> Forall tok_ok (phones_of t).
Proof.
  intros H. unfold phones_of. apply Forall_concat. eapply Forall_impl; [|exact H].
  intros wd (_ & Hp & _). eapply Forall_impl; [|exact Hp]. now intros ph (H1 & H2 & _).
Qed.

Section Local4.
  Variables xp xs xw : str.
  Let sep := sep3 xp xs xw.
  Let sep' := {| s_phone := Some xp; s_syll := None; s_word := Some xw |}.

  (* Hypotheses of L4:
     - xp, xs, xw <> []      three defined levels;
     - sylls_sep, free xs xw those of L2;
     - tree2_ok xp xw t      the tree is well formed for the separators that remain (see tree_ok_tree2):
                             phones non-empty, whitespace-free, not hosting the phone separator; the
                             word separator occurs in [ph1 xp .. phn xp ++ xw] first at the end;
     - tree2_hf xp xw t      no character of a phone is the first character of xw or xp (word level);
     - NB                    neither xw nor xp has a proper non-empty prefix that ends xp (word level);
     - ends_ok xp \/ ws_only xp   the phone separator does not end with white space (ProofsTwo.v), or
                             is made of white space only (Section TwoWs above);
     - no_sp2 xp, nds xw     no two adjacent U+0020 in xp, none in xw and xw does not start with
                             one: collapse_spaces then leaves what remains alone. *)
  Theorem remove_syll_then_tokenize_eq : forall t : utree,
    xp <> [] -> xs <> [] -> xw <> [] ->
    sylls_sep xp xs t -> free xs xw ->
    tree2_ok xp xw t -> tree2_hf xp xw t ->
    (forall x R : str, In x [xw; xp] -> In R [xp] -> no_border x R) ->
    ends_ok xp \/ ws_only xp ->
    no_sp2 xp = true -> nds xw = true ->
    remove sep (render sep t) (Some Syll) = Ok (render sep' t) /\
    tokenize sep' (render sep' t) Word false = Ok (words_of t) /\
    tokenize sep' (render sep' t) Phone false = Ok (phones_of t).
  Proof.
    intros t Hxp Hxs Hxw Hsy Fsw H2 Hh NB Hep Hp2 Hnw.
    change sep' with (sep2 xp xw). split; [|split].
    - unfold sep. rewrite remove_syll_render_tok; try assumption.
      + now rewrite render_with_no_syll.
      + now apply (tree2_ok_phones_tok xp xw).
    - unfold words_of. destruct Hep as [Hep|Hep].
      + now apply tokenize_word2.
      + now apply tokenize_word2_ws.
    - unfold phones_of. destruct Hep as [Hep|Hep].
      + now apply tokenize_phone2.
      + now apply tokenize_phone2_ws.
  Qed.

  Theorem remove_syll_then_tokenize : forall t : utree,
    xp <> [] -> xs <> [] -> xw <> [] ->
    sylls_sep xp xs t -> free xs xw ->
    tree2_ok xp xw t -> tree2_hf xp xw t ->
    (forall x R : str, In x [xw; xp] -> In R [xp] -> no_border x R) ->
    ends_ok xp \/ ws_only xp ->
    no_sp2 xp = true -> nds xw = true ->
    exists u : str,
      remove sep (render sep t) (Some Syll) = Ok u /\
      tokenize sep' u Word false = Ok (words_of t) /\
      tokenize sep' u Phone false = Ok (phones_of t).
  Proof.
    intros t Hxp Hxs Hxw Hsy Fsw H2 Hh NB Hep Hp2 Hnw. exists (render sep' t).
    now apply remove_syll_then_tokenize_eq.
  Qed.

  (* the same under the hypotheses of the three-level round trip (Checkers.v: tree_ok, tree_hf, the
     no_border condition of ProofsTreeStrip.v) plus what [tree_ok_tree2] asks *)
  Corollary remove_syll_then_tokenize3 : forall t : utree,
    xp <> [] -> xs <> [] -> xw <> [] ->
    tree_ok xp xs xw t -> tree_hf xp xs xw t ->
    (forall x R : str, In x [xw; xs; xp] -> In R [xp; xp ++ xs] -> no_border x R) ->
    free xs xw -> free xw xp -> Forall (free xw) (phones_of t) ->
    ends_ok xp \/ ws_only xp ->
    no_sp2 xp = true -> nds xw = true ->
    exists u : str,
      remove sep (render sep t) (Some Syll) = Ok u /\
      tokenize sep' u Word false = Ok (words_of t) /\
      tokenize sep' u Phone false = Ok (phones_of t).
  Proof.
    intros t Hxp Hxs Hxw Ht Hh NB Fsw Fwp Hf Hep Hp2 Hnw.
    apply remove_syll_then_tokenize; try assumption.
    - now apply (tree_ok_sylls_sep xp xs xw).
    - now apply (tree_ok_tree2 xp xs xw).
    - now apply (tree_hf_tree2 xp xs xw).
    - intros x R Hx [<-|[]]. apply NB; [|now left].
      destruct Hx as [<-|[<-|[]]]; cbn; auto.
  Qed.
End Local4.

(* ================= 5. L5: level-specific strip only peels the ends ================= *)

Lemma sep_strip_word_eq (xp xs xw u : str) :
  sep_strip (sep3 xp xs xw) u (Some Word) = Ok (strip (strip_suffix [xw] (strip_prefix [xw] u))).
Proof. reflexivity. Qed.

(* the cut of strip_suffix is at the last separator when no earlier position qualifies *)
Lemma strip_suffix_cut_last (seps : list str) (B x : str) : In x seps -> x <> [] ->
  (forall v u : str, B = v ++ u -> u <> [] -> cut_here seps (u ++ x) = false) ->
  strip_suffix seps (B ++ x) = B.
Proof.
  intros Hin Hx. induction B as [|c B IH]; intros H.
  - cbn [app]. destruct x as [|d x]; [congruence|]. rewrite strip_suffix_cons.
    rewrite <- (app_nil_r (d :: x)).
    rewrite cut_here_complete; [reflexivity|exact Hin|discriminate|constructor].
  - cbn [app]. rewrite strip_suffix_cons.
    change (c :: B ++ x) with ((c :: B) ++ x).
    rewrite (H [] (c :: B) eq_refl) by discriminate.
    f_equal. apply IH. intros v u E Hu. apply (H (c :: v) u); [now rewrite E|exact Hu].
Qed.

Lemma sepws_head (seps : list str) (c : char) (s : str) : sepws seps (c :: s) ->
  is_space c = true \/ exists x r : str, In x seps /\ x <> [] /\ c :: s = x ++ r.
Proof.
  inversion 1 as [|d s' Hd Hs E|x s' Hin Hne Hs E]; subst.
  - now left.
  - right. exists x, s'. repeat split; auto.
Qed.

(* what L5 needs of a word body: it is not empty, does not start with white space, and the
   word separator occurs in [body ++ xw] first at the end *)
Definition body_ok (xw b : str) : Prop := b <> [] /\ starts_ok b /\ only_at_end xw b = true.

(* in [b1 xw b2 xw .. bn xw] the only position from which the rest is a word separator followed
   by word separators and white space only is the last word separator *)
Lemma cut_only_last (xw : str) (bodies : list str) : xw <> [] -> free xw (tl xw) ->
  Forall (body_ok xw) bodies ->
  forall v u : str, terminated xw bodies = v ++ u -> u <> [] -> cut_here [xw] u = true -> u = xw.
Proof.
  intros Hxw Fww H. induction H as [|b bodies (Hb & Hst & Ho) Hrest IH]; intros v u E Hu Hcut.
  - rewrite terminated_nil in E. symmetry in E. apply app_eq_nil in E as [_ E]. congruence.
  - rewrite terminated_cons in E.
    destruct (cut_here_true _ _ Hcut) as (x & r & Hin & _ & Eu & Hr).
    destruct Hin as [<-|[]].
    assert (Hpre : prefix_b xw u = true) by (rewrite Eu; apply prefix_b_app).
    (* the position of a word separator of the rendering *)
    assert (Hii : u = xw ++ terminated xw bodies -> u = xw).
    { intros E'. rewrite E' in Eu. apply app_inv_head in Eu. rewrite <- Eu in Hr.
      destruct Hrest as [|b' bodies' (Hb' & Hst' & Ho') _].
      - rewrite E', terminated_nil. apply app_nil_r.
      - exfalso. rewrite terminated_cons in Hr. destruct b' as [|c b']; [congruence|].
        cbn [app] in Hr. apply sepws_head in Hr as [Hc|(x & r' & Hin & Hne & Ex)].
        + apply starts_ok_hd in Hst'. congruence.
        + destruct Hin as [<-|[]].
          pose proof (only_at_end_suffix xw [] (c :: b') (terminated xw bodies') Ho'
                        ltac:(discriminate)) as Hp.
          cbn [app] in Hp. rewrite Ex, prefix_b_app in Hp. discriminate. }
    apply app_eq_app in E as [l [[E1 E2]|[E1 E2]]].
    + (* u starts inside the first body, or right after it *)
      destruct l as [|c l]; [exact (Hii E2)|]. exfalso.
      rewrite E1 in Ho.
      pose proof (only_at_end_suffix xw v (c :: l) (terminated xw bodies) Ho ltac:(discriminate)) as Hp.
      rewrite <- E2 in Hp. congruence.
    + apply app_eq_app in E2 as [l2 [[E3 E4]|[E3 E4]]].
      * (* u starts inside the first word separator *)
        destruct l as [|c l]; [cbn [app] in E3; subst l2; exact (Hii E4)|].
        destruct l2 as [|c2 l2].
        -- cbn [app] in E4. apply (IH [] u); [now rewrite E4|exact Hu|exact Hcut].
        -- exfalso.
           assert (Et : tl xw = l ++ c2 :: l2) by (rewrite E3; reflexivity).
           pose proof (Fww l (c2 :: l2) (terminated xw bodies) Et ltac:(discriminate)) as Hp.
           rewrite <- E4 in Hp. congruence.
      * (* u starts further right *)
        apply (IH l2 u); [exact E4|exact Hu|exact Hcut].
Qed.

(* the rendering without its final word separator *)
Definition render_open (xp xs xw : str) (t : utree) : str :=
  render (sep3 xp xs xw) (removelast t) ++ word_body xp xs (last t []).

Lemma render_open_eq (xp xs xw : str) (t : utree) : t <> [] ->
  render (sep3 xp xs xw) t = render_open xp xs xw t ++ xw.
Proof.
  intros Ht. destruct (exists_last Ht) as (ti & wl & ->). unfold render_open.
  rewrite removelast_last, last_last, !render3_eq, map_app, terminated_app. cbn [map].
  now rewrite terminated_one, app_assoc.
Qed.

Section Strip.
  Variables xp xs xw : str.
  Let sep := sep3 xp xs xw.

  (* Hypotheses of L5:
     - t <> [], xw <> []   there is a final word separator;
     - body_ok             every word body [syl1 xs .. syln xs] is non-empty, starts with a
                           character that is not white space (a phone character), and the word
                           separator occurs in [body ++ xw] first at the end (third part of tree_ok);
     - free xw (tl xw)     the word separator does not overlap itself: no occurrence of xw can start
                           at an inner position of xw (strip_word_needs_unbordered below). *)
  Theorem strip_word_render : forall t : utree, t <> [] -> xw <> [] -> free xw (tl xw) ->
    Forall (fun w : list (list str) => body_ok xw (word_body xp xs w)) t ->
    sep_strip sep (render sep t) (Some Word) = Ok (strip (render_open xp xs xw t)).
  Proof.
    intros t Ht Hxw Fww H. unfold sep. rewrite sep_strip_word_eq. do 2 f_equal.
    assert (Hb : Forall (body_ok xw) (map (word_body xp xs) t)) by now apply Forall_map.
    (* nothing to peel on the left *)
    rewrite strip_prefix_none.
    2:{ apply first_prefix_none. constructor; [|constructor].
        rewrite render3_eq. destruct t as [|w t']; [congruence|]. cbn [map] in Hb |- *.
        inversion Hb as [|? ? (Hbn & _ & Ho) _]; subst.
        rewrite terminated_cons. now apply (only_at_end_suffix xw []). }
    (* on the right, the cut is at the last word separator *)
    rewrite render_open_eq by exact Ht.
    apply strip_suffix_cut_last; [now left|exact Hxw|].
    intros v u E Hu. destruct (cut_here [xw] (u ++ xw)) eqn:Hcut; [exfalso|reflexivity].
    assert (E' : terminated xw (map (word_body xp xs) t) = v ++ u ++ xw).
    { rewrite <- render3_eq, render_open_eq, E by exact Ht. now rewrite <- app_assoc. }
    pose proof (cut_only_last xw _ Hxw Fww Hb v (u ++ xw) E') as Hc.
    assert (Hne : u ++ xw <> []) by (destruct u; [congruence|discriminate]).
    specialize (Hc Hne Hcut). apply (f_equal (@length char)) in Hc.
    rewrite app_length in Hc. destruct u; [congruence|cbn [length] in Hc; lia].
  Qed.

  Lemma tree_ok_body_ok (t : utree) : xp <> [] -> tree_ok xp xs xw t ->
    Forall (fun w : list (list str) => body_ok xw (word_body xp xs w)) t.
  Proof.
    intros Hxp H. eapply Forall_impl; [|exact H]. intros w (Hn & Hs & Ho).
    destruct Hs as [|syl w' Hsy _]; [congruence|].
    destruct (syl_body_starts xp xs Hxp syl Hsy) as (Hne & Hst).
    unfold word_body in *. cbn [map] in *. rewrite terminated_cons in *.
    split; [|split; [|exact Ho]].
    - destruct (terminated xp syl); [congruence|discriminate].
    - now apply starts_ok_app.
  Qed.

  (* when the syllable separator does not end with white space, the final strip() has nothing to do:
     exactly the final word separator is removed *)
  Theorem strip_word_render_clean : forall t : utree, t <> [] ->
    xp <> [] -> xs <> [] -> xw <> [] -> free xw (tl xw) -> ends_ok xs -> tree_ok xp xs xw t ->
    sep_strip sep (render sep t) (Some Word) = Ok (render_open xp xs xw t).
  Proof.
    intros t Ht Hxp Hxs Hxw Fww Hes H.
    rewrite strip_word_render; try assumption; [|now apply tree_ok_body_ok]. f_equal.
    apply strip_clean_ends.
    destruct (exists_last Ht) as (ti & wl & ->). unfold render_open.
    rewrite removelast_last, last_last. apply Forall_app in H as [Hi Hl].
    inversion Hl as [|? ? Hwl _]; subst.
    destruct (word_body_ok xp xs xw Hxp Hxs Hes wl Hwl) as (Hne & Hst & Hen).
    split; [|now apply ends_ok_app].
    destruct Hi as [|w1 ti' Hw1 _]; [exact Hst|].
    destruct (word_body_ok xp xs xw Hxp Hxs Hes w1 Hw1) as (Hne1 & Hst1 & _).
    rewrite render3_eq. cbn [map]. rewrite terminated_cons, <- !app_assoc.
    now apply starts_ok_app.
  Qed.
End Strip.

(* " ", tab, "aba" and the words "x", "ba": the rendering is "x \tababa \taba"; from the last "a"
   of the first word separator the rest reads "aba" + white space + "aba", so the strip cuts there
   and eats the second word *)
Example strip_word_needs_unbordered :
  let xp := [sp] in let xs := ([9]%N : str) in let xw := ([97; 98; 97]%N : str) in
  let t : utree := [[[([120]%N : str)]]; [[([98; 97]%N : str)]]] in
  tree_ok_b xp xs xw t = true /\ free_b xw (tl xw) = false /\
  sep_strip (sep3 xp xs xw) (render (sep3 xp xs xw) t) (Some Word) = Ok [120; 32; 9; 97; 98]%N /\
  render_open xp xs xw t = [120; 32; 9; 97; 98; 97; 98; 97; 32; 9]%N.
Proof. vm_compute. repeat split; reflexivity. Qed.

(* ================= 6. one boolean hypothesis ================= *)

Definition wordp_ok_b (xp xw : str) (wd : list str) : bool :=
  match wd with [] => false | _ => true end &&
  forallb (phone_ok_b xp) wd && only_at_end xw (terminated xp wd).
Definition tree2_ok_b (xp xw : str) (t : utree) : bool :=
  forallb (wordp_ok_b xp xw) (map (@concat str) t).
Definition tree2_hf_b (xp xw : str) (t : utree) : bool :=
  forallb (forallb (head_free_b [xw; xp])) (map (@concat str) t).
Definition nb2_b (xp xw : str) : bool := forallb (fun x : str => no_border_b x xp) [xw; xp].

Lemma wordp_ok_b_sound (xp xw : str) (wd : list str) : wordp_ok_b xp xw wd = true -> wordp_ok xp xw wd.
Proof.
  unfold wordp_ok_b, wordp_ok. rewrite !andb_true_iff. intros [[H1 H2] H3].
  split; [destruct wd; [discriminate|discriminate]|].
  split; [|exact H3]. eapply forallb_Forall; [|exact H2]. apply phone_ok_b_sound.
Qed.

Lemma tree2_ok_b_sound (xp xw : str) (t : utree) : tree2_ok_b xp xw t = true -> tree2_ok xp xw t.
Proof. apply forallb_Forall, wordp_ok_b_sound. Qed.

Lemma tree2_hf_b_sound (xp xw : str) (t : utree) : tree2_hf_b xp xw t = true -> tree2_hf xp xw t.
Proof.
  apply forallb_Forall. intros wd. apply forallb_Forall. intros ph. apply head_free_b_sound.
Qed.

Lemma nb2_b_sound (xp xw : str) : nb2_b xp xw = true ->
  forall x R : str, In x [xw; xp] -> In R [xp] -> no_border x R.
Proof.
  unfold nb2_b. rewrite forallb_forall. intros H x R Hx [<-|[]].
  now apply no_border_b_sound, H.
Qed.

(* [local_hyp_b xp xs xw t]:
     three non-empty separators, [tree_ok] (ProofsTree.v)                     L1 L2 L3 L5
     free xp xs, free xp xw                                                   L1
     free xs xw                                                               L2 L4
     tree2_ok, tree2_hf, no_border, ends_ok xp or ws_only xp, no_sp2 xp, nds xw   L4
     free xw (tl xw)                                                          L5 *)
Definition local_hyp_b (xp xs xw : str) (t : utree) : bool :=
  nonempty xp && nonempty xs && nonempty xw && tree_ok_b xp xs xw t &&
  free_b xp xs && free_b xp xw && free_b xs xw &&
  tree2_ok_b xp xw t && tree2_hf_b xp xw t && nb2_b xp xw &&
  (ends_ok_b xp || ws_only_b xp) && no_sp2 xp && nds xw &&
  free_b xw (tl xw).

Theorem local_b : forall (xp xs xw : str) (t : utree), local_hyp_b xp xs xw t = true ->
  let sep := sep3 xp xs xw in
  let sep' := {| s_phone := Some xp; s_syll := None; s_word := Some xw |} in
  (* L1 L2 L3 *)
  remove sep (render sep t) (Some Phone) = Ok (collapse_spaces (render_with [] xs xw t)) /\
  remove sep (render sep t) (Some Syll) = Ok (render_with xp [] xw t) /\
  remove sep (render sep t) (Some Word) = Ok (collapse_spaces (render_with xp xs [] t)) /\
  (* L4 *)
  tokenize sep' (render_with xp [] xw t) Word false = Ok (words_of t) /\
  tokenize sep' (render_with xp [] xw t) Phone false = Ok (phones_of t) /\
  (* L5 *)
  (t <> [] -> sep_strip sep (render sep t) (Some Word) = Ok (strip (render_open xp xs xw t))).
Proof.
  intros xp xs xw t H. unfold local_hyp_b in H. rewrite !andb_true_iff in H.
  destruct H as [[[[[[[[[[[[[Hp Hs] Hw] Ht] Fps] Fpw] Fsw] H2] Hh] Hnb] Hep] Hp2] Hnw] Fww].
  apply nonempty_true in Hp, Hs, Hw. apply tree_ok_b_sound in Ht.
  apply free_b_sound in Fps, Fpw, Fsw, Fww.
  apply tree2_ok_b_sound in H2. apply tree2_hf_b_sound in Hh.
  pose proof (nb2_b_sound _ _ Hnb) as NB.
  assert (Hep' : ends_ok xp \/ ws_only xp).
  { apply orb_true_iff in Hep as [Hep|Hep];
      [left; now apply ends_ok_b_sound|right; now apply ws_only_b_sound]. }
  pose proof (tree_ok_sylls_sep _ _ _ _ Ht) as Hsy.
  destruct (remove_syll_then_tokenize_eq xp xs xw t Hp Hs Hw Hsy Fsw H2 Hh NB Hep' Hp2 Hnw)
    as (R2 & T1 & T2).
  cbv zeta. rewrite render_with_no_syll.
  split; [apply remove_phone_render; try assumption; now apply (tree_ok_phones_sep xp xs xw)|].
  split; [exact R2|].
  split; [apply remove_word_render; try assumption; now apply tree_ok_words_sep|].
  split; [exact T1|]. split; [exact T2|].
  intros Hne. apply strip_word_render; try assumption. now apply tree_ok_body_ok.
Qed.

(* wordseg's default separators and ("_", "=", "#"), on a two-word utterance *)
Definition lx_t : utree :=
  [[[[104]; [101]]; [[108]; [111]]]; [[[119]; [111]; [114]]; [[108]; [100; 101]]]]%N.

Example local_default_config :
  local_hyp_b [sp] [59; 101; 115; 121; 108; 108]%N [59; 101; 119; 111; 114; 100]%N lx_t = true.
Proof. vm_compute. reflexivity. Qed.

Example local_compact_config : local_hyp_b [95]%N [61]%N [35]%N lx_t = true.
Proof. vm_compute. reflexivity. Qed.

(* "h e ;esyll l o ;esyll ;eword w o r ;esyll l de ;esyll ;eword" without its syllable separators *)
Example local_default_remove_syll :
  remove (sep3 [sp] [59; 101; 115; 121; 108; 108]%N [59; 101; 119; 111; 114; 100]%N)
         (render (sep3 [sp] [59; 101; 115; 121; 108; 108]%N [59; 101; 119; 111; 114; 100]%N) lx_t)
         (Some Syll)
  = Ok [104; 32; 101; 32; 108; 32; 111; 32; 59; 101; 119; 111; 114; 100;
        119; 32; 111; 32; 114; 32; 108; 32; 100; 101; 32; 59; 101; 119; 111; 114; 100]%N.
Proof. vm_compute. reflexivity. Qed.

Print Assumptions remove_phone_render.
Print Assumptions remove_syll_render.
Print Assumptions remove_word_render.
Print Assumptions remove_syll_render_ws.
Print Assumptions remove_syll_then_tokenize.
Print Assumptions strip_word_render.
Print Assumptions strip_word_render_clean.
Print Assumptions local_b.
