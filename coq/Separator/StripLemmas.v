(* Lemmas about the model's separator stripping (strip_prefix / strip_suffix /
   strip_with) and remove_sel. *)
From WS Require Import Base.Py Base.Str Separator.Model Separator.Render Separator.StrLemmas.

(* ---------- strip_prefix ---------- *)

Lemma first_prefix_none (seps : list str) (s : str) :
  Forall (fun x : str => prefix_b x s = false) seps -> first_prefix seps s = None.
Proof.
  induction 1 as [|x seps Hx _ IH]; cbn [first_prefix]; [reflexivity|].
  now rewrite Hx, andb_false_r.
Qed.

Lemma strip_prefix_go_S (f : nat) (seps : list str) (s : str) :
  strip_prefix_go (S f) seps s false =
  match first_prefix seps s with
  | Some x => strip_prefix_seps f seps (skipn (length x) s)
  | None => s
  end.
Proof. reflexivity. Qed.

Lemma strip_prefix_none (seps : list str) (s : str) :
  first_prefix seps s = None -> strip_prefix seps s = s.
Proof.
  intros H. unfold strip_prefix.
  replace (2 * length s + 2) with (S (2 * length s + 1)) by lia.
  now rewrite strip_prefix_go_S, H.
Qed.

(* ---------- strip_suffix ---------- *)

(* "the rest of the string from here is a separator followed by separators and whitespace" *)
Definition cut_here (seps : list str) (s : str) : bool :=
  existsb (fun x : str => nonempty x && prefix_b x s && nth (length x) (tails_tbl seps s) false) seps.

Lemma strip_suffix_nil (seps : list str) : strip_suffix seps [] = [].
Proof. reflexivity. Qed.

Lemma strip_suffix_cons (seps : list str) (c : char) (s : str) :
  strip_suffix seps (c :: s) =
  if cut_here seps (c :: s) then [] else c :: strip_suffix seps s.
Proof. reflexivity. Qed.

Lemma cut_here_no_prefix (seps : list str) (s : str) :
  Forall (fun x : str => prefix_b x s = false) seps -> cut_here seps s = false.
Proof.
  intros H. unfold cut_here. generalize (tails_tbl seps s) as tbl. intros tbl.
  induction H as [|x l Hx _ IH]; cbn [existsb]; [reflexivity|].
  now rewrite Hx, andb_false_r, IH.
Qed.

Lemma Forall_no_infix_tl (seps : list str) (c : char) (s : str) :
  Forall (fun x : str => infix_b x (c :: s) = false) seps ->
  Forall (fun x : str => prefix_b x (c :: s) = false) seps /\
  Forall (fun x : str => infix_b x s = false) seps.
Proof.
  intros H. split; eapply Forall_impl; try exact H; cbv beta; intros x Hx;
    rewrite infix_b_cons in Hx; now apply orb_false_iff in Hx.
Qed.

Lemma strip_suffix_no_infix (seps : list str) (s : str) :
  Forall (fun x : str => infix_b x s = false) seps -> strip_suffix seps s = s.
Proof.
  induction s as [|c s IH]; intros H; [reflexivity|].
  apply Forall_no_infix_tl in H as [H1 H2].
  now rewrite strip_suffix_cons, cut_here_no_prefix, IH.
Qed.

Lemma strip_prefix_no_infix (seps : list str) (s : str) :
  Forall (fun x : str => infix_b x s = false) seps -> strip_prefix seps s = s.
Proof.
  intros H. apply strip_prefix_none, first_prefix_none.
  eapply Forall_impl; [|exact H]. intros x. apply infix_b_false_prefix.
Qed.

(* a string that contains no separator and has no outer whitespace is left alone *)
Lemma strip_with_id (seps : list str) (s : str) :
  Forall (fun x : str => infix_b x s = false) seps -> clean_ends s -> strip_with seps s = s.
Proof.
  intros H Hc. unfold strip_with. destruct seps as [|x seps].
  - now apply strip_clean_ends.
  - rewrite strip_prefix_no_infix, strip_suffix_no_infix by exact H.
    now apply strip_clean_ends.
Qed.

(* ---------- remove ---------- *)

Lemma remove_all_unfold (sep : separator) (utt : str) :
  remove_all sep utt =
  collapse_spaces
    (let u1 := match s_word sep with Some x => replace_all x [] utt | None => utt end in
     let u2 := match s_syll sep with Some x => replace_all x [] u1 | None => u1 end in
     match s_phone sep with Some x => replace_all x [] u2 | None => u2 end).
Proof. reflexivity. Qed.

Lemma remove_all_id (sep : separator) (s : str) :
  Forall (fun x : str => infix_b x s = false) (defined [s_word sep; s_syll sep; s_phone sep]) ->
  Forall (fun c : char => (c =? sp)%N = false) s ->
  remove_all sep s = s.
Proof.
  intros H Hs. rewrite remove_all_unfold. cbv zeta.
  destruct sep as [[p|] [y|] [w|]]; cbn [s_word s_syll s_phone defined flat_map app] in *;
    repeat match goal with
           | H : Forall _ (_ :: _) |- _ =>
             let a := fresh "Ha" in inversion H as [|? ? a ?]; subst; clear H
           end;
    repeat match goal with
           | H : infix_b ?x ?t = false |- context [replace_all ?x [] ?t] =>
             rewrite (replace_all_no_infix x [] t H)
           end;
    now apply collapse_spaces_no_sp.
Qed.

(* ---------- the table of strip_suffix, declaratively ---------- *)

(* a sequence of separators and whitespace characters *)
Inductive sepws (seps : list str) : str -> Prop :=
| sw_nil : sepws seps []
| sw_ws (c : char) (s : str) : is_space c = true -> sepws seps s -> sepws seps (c :: s)
| sw_sep (x s : str) : In x seps -> x <> [] -> sepws seps s -> sepws seps (x ++ s).

Lemma hd_nth0 (t : list bool) : hd false t = nth 0 t false.
Proof. destruct t; reflexivity. Qed.

Lemma tails_tbl_cons (seps : list str) (c : char) (s : str) :
  tails_tbl seps (c :: s) =
  ((is_space c && hd false (tails_tbl seps s)) ||
   existsb (fun x : str => nonempty x && prefix_b x (c :: s) &&
                           nth (length x - 1) (tails_tbl seps s) false) seps)
    :: tails_tbl seps s.
Proof. reflexivity. Qed.

Lemma skipn_app_exact {A} (a b : list A) : skipn (length a) (a ++ b) = b.
Proof. induction a as [|x a IH]; [reflexivity|exact IH]. Qed.

Lemma tails_tbl_sound (seps : list str) (s : str) (k : nat) :
  nth k (tails_tbl seps s) false = true -> sepws seps (skipn k s).
Proof.
  revert k. induction s as [|c s IH]; intros k H.
  - destruct k as [|[|k]]; cbn in H; try discriminate. constructor.
  - rewrite tails_tbl_cons in H. destruct k as [|k]; [|now apply IH].
    cbn [nth skipn] in H |- *. apply orb_true_iff in H as [H|H].
    + apply andb_true_iff in H as [Hc Ht]. rewrite hd_nth0 in Ht.
      apply sw_ws; [exact Hc|]. now apply (IH 0).
    + apply existsb_exists in H as (x & Hin & H).
      apply andb_true_iff in H as [H Hn]. apply andb_true_iff in H as [Hne Hp].
      apply nonempty_true in Hne. destruct (prefix_b_true _ _ Hp) as [r E]. rewrite E.
      apply sw_sep; [exact Hin|exact Hne|].
      destruct x as [|d x]; [congruence|]. cbn [app] in E. injection E as -> ->.
      apply IH in Hn. replace (length (d :: x) - 1) with (length x) in Hn by (cbn [length]; lia).
      now rewrite skipn_app_exact in Hn.
Qed.

Lemma tails_tbl_skipn (seps : list str) (s : str) (k : nat) : k <= length s ->
  nth k (tails_tbl seps s) false = hd false (tails_tbl seps (skipn k s)).
Proof.
  revert k. induction s as [|c s IH]; intros k L.
  - cbn [length] in L. assert (k = 0) by lia. subst. reflexivity.
  - destruct k as [|k]; [now rewrite hd_nth0|].
    rewrite tails_tbl_cons. cbn [nth skipn]. apply IH. cbn [length] in L. lia.
Qed.

Lemma tails_tbl_complete (seps : list str) (s : str) :
  sepws seps s -> hd false (tails_tbl seps s) = true.
Proof.
  induction 1 as [|c s Hc _ IH|x s Hin Hne _ IH]; [reflexivity| |].
  - rewrite tails_tbl_cons. cbn [hd]. now rewrite Hc, IH.
  - destruct x as [|c x]; [congruence|]. cbn [app]. rewrite tails_tbl_cons. cbn [hd].
    apply orb_true_iff. right. apply existsb_exists. exists (c :: x). split; [exact Hin|].
    change (c :: x ++ s) with ((c :: x) ++ s). rewrite prefix_b_app. cbn [nonempty andb].
    replace (length (c :: x) - 1) with (length x) by (cbn [length]; lia).
    rewrite tails_tbl_skipn by (rewrite app_length; lia).
    now rewrite skipn_app_exact.
Qed.

Lemma cut_here_true (seps : list str) (s : str) :
  cut_here seps s = true ->
  exists x r : str, In x seps /\ x <> [] /\ s = x ++ r /\ sepws seps r.
Proof.
  unfold cut_here. intros H. apply existsb_exists in H as (x & Hin & H).
  apply andb_true_iff in H as [H Hn]. apply andb_true_iff in H as [Hne Hp].
  apply nonempty_true in Hne. destruct (prefix_b_true _ _ Hp) as [r E].
  exists x, r. repeat split; try assumption.
  apply tails_tbl_sound in Hn. subst s. now rewrite skipn_app_exact in Hn.
Qed.

Lemma cut_here_complete (seps : list str) (x r : str) :
  In x seps -> x <> [] -> sepws seps r -> cut_here seps (x ++ r) = true.
Proof.
  intros Hin Hne Hr. unfold cut_here. apply existsb_exists. exists x. split; [exact Hin|].
  rewrite prefix_b_app. apply nonempty_true in Hne. rewrite Hne. cbn [andb].
  rewrite tails_tbl_skipn by (rewrite app_length; lia).
  rewrite skipn_app_exact. now apply tails_tbl_complete.
Qed.

Lemma cut_here_sepws (seps : list str) (s : str) : cut_here seps s = true -> sepws seps s.
Proof.
  intros H. destruct (cut_here_true _ _ H) as (x & r & Hin & Hne & -> & Hr).
  now apply sw_sep.
Qed.

(* ---------- walking strip_suffix through phones and separator regions ---------- *)

Definition no_border (x R : str) : Prop :=
  forall u x2 v : str, x = u ++ x2 -> R = v ++ u -> u = [] \/ x2 = [].

Section Walk.
  Variable seps : list str.
  Hypothesis seps_ne : Forall (fun x : str => x <> []) seps.
  Variable regions : list str.
  Hypothesis NB : forall x R : str, In x seps -> In R regions -> no_border x R.

  (* no character of the phone is the first character of a separator *)
  Definition head_free (ph : str) : Prop :=
    Forall (fun c : char => Forall (fun x : str => hd_error x <> Some c) seps) ph.

  Definition good_phone (ph : str) : Prop := ph <> [] /\ ws_free ph /\ head_free ph.

  Definition phone_headed (s : str) : Prop :=
    exists ph rest : str, s = ph ++ rest /\ good_phone ph.

  Definition region_suffix (u : str) : Prop :=
    exists R v : str, In R regions /\ R = v ++ u.

  Lemma head_free_no_prefix (c : char) (s : str) :
    Forall (fun x : str => hd_error x <> Some c) seps ->
    Forall (fun x : str => prefix_b x (c :: s) = false) seps.
  Proof.
    intros H. apply Forall_forall. intros x Hin.
    pose proof (proj1 (Forall_forall _ _) H x Hin) as Hh.
    pose proof (proj1 (Forall_forall _ _) seps_ne x Hin) as Hn.
    destruct x as [|d x]; [congruence|]. cbn [prefix_b].
    destruct (N.eqb_spec d c) as [->|]; [|reflexivity]. cbn in Hh. congruence.
  Qed.

  (* L1: no cut inside a phone *)
  Lemma walk_phone (ph rest : str) : head_free ph ->
    strip_suffix seps (ph ++ rest) = ph ++ strip_suffix seps rest.
  Proof.
    intros H. unfold head_free in H. induction H as [|c ph Hc _ IH]; [reflexivity|].
    cbn [app]. rewrite strip_suffix_cons, cut_here_no_prefix, IH; [reflexivity|].
    now apply head_free_no_prefix.
  Qed.

  Lemma walk_phone_prefix (ph rest : str) : head_free ph ->
    strip_prefix seps (ph ++ rest) = ph ++ rest \/ ph = [].
  Proof.
    intros H. unfold head_free in H. destruct H as [|c ph Hc _]; [now right|]. left.
    apply strip_prefix_none, first_prefix_none. cbn [app]. now apply head_free_no_prefix.
  Qed.

  (* a separator / whitespace sequence cannot run from inside a region over a phone *)
  Lemma no_sepws_over_phone (s : str) : sepws seps s ->
    forall u ph rest : str, s = u ++ ph ++ rest -> region_suffix u -> good_phone ph -> False.
  Proof.
    induction 1 as [|c s Hc _ IH|x s Hin Hne _ IH]; intros u ph rest E Hu (Hn & Hws & Hh).
    - destruct u; [|discriminate]. destruct ph; [congruence|discriminate].
    - destruct u as [|d u].
      + destruct ph as [|d ph]; [congruence|]. cbn [app] in E. injection E as -> ->.
        inversion Hws; subst. congruence.
      + cbn [app] in E. injection E as -> ->.
        apply (IH u ph rest eq_refl); [|repeat split; assumption].
        destruct Hu as (R & v & HR & ->). exists (v ++ [d] ++ u), (v ++ [d]).
        rewrite <- app_assoc. split; [exact HR|reflexivity].
    - apply app_eq_app in E as [l [[E1 E2]|[E1 E2]]].
      + (* x = u ++ l : the separator runs into the phone, or ends exactly at it *)
        destruct l as [|d l].
        * rewrite app_nil_r in E1. subst x. cbn [app] in E2. subst s.
          apply (IH [] ph rest eq_refl); [|repeat split; assumption].
          destruct Hu as (R & v & HR & ->). exists (v ++ u), (v ++ u).
          rewrite app_nil_r. split; [exact HR|reflexivity].
        * destruct u as [|e u].
          -- cbn [app] in E1. subst x.
             destruct ph as [|e ph]; [congruence|]. cbn [app] in E2. injection E2 as -> _.
             inversion Hh as [|? ? Hd _]; subst.
             pose proof (proj1 (Forall_forall _ _) Hd _ Hin) as Hx. cbn in Hx. congruence.
          -- destruct Hu as (R & v & HR & ->).
             destruct (NB x (v ++ e :: u) Hin HR (e :: u) (d :: l) v E1 eq_refl); discriminate.
      + (* u = x ++ l : the separator lies inside the region *)
        subst u s. apply (IH l ph rest eq_refl); [|repeat split; assumption].
        destruct Hu as (R & v & HR & ->). exists (v ++ x ++ l), (v ++ x).
        rewrite <- app_assoc. split; [exact HR|reflexivity].
  Qed.

  (* L2: no cut inside a region that is followed by a phone *)
  Lemma walk_region (v r rest : str) : phone_headed rest ->
    (exists R : str, In R regions /\ R = v ++ r) ->
    strip_suffix seps (r ++ rest) = r ++ strip_suffix seps rest.
  Proof.
    intros (ph & rest' & -> & Hg). revert v.
    induction r as [|c r IH]; intros v (R & HR & E); [reflexivity|].
    cbn [app]. rewrite strip_suffix_cons.
    destruct (cut_here seps (c :: r ++ ph ++ rest')) eqn:Hcut.
    - exfalso. apply cut_here_sepws in Hcut.
      apply (no_sepws_over_phone _ Hcut (c :: r) ph rest' eq_refl); [|exact Hg].
      exists R, v. split; assumption.
    - rewrite (IH (v ++ [c])); [reflexivity|].
      exists R. split; [exact HR|]. now rewrite <- app_assoc.
  Qed.

  (* L3: the cut happens at a final separator group *)
  Lemma walk_final (x r : str) : In x seps -> sepws seps r -> strip_suffix seps (x ++ r) = [].
  Proof.
    intros Hin Hr. pose proof (proj1 (Forall_forall _ _) seps_ne x Hin) as Hn.
    pose proof (cut_here_complete seps x r Hin Hn Hr) as Hc.
    destruct x as [|c x]; [congruence|]. cbn [app] in *. now rewrite strip_suffix_cons, Hc.
  Qed.

  (* tokens [ph1 x ph2 x ... phn x] followed by [tail]: the strip removes [x ++ tail] after
     the last phone and nothing else *)
  Lemma walk_terminated_last (x tail : str) (init : list str) (ph : str) :
    In x seps -> In x regions -> sepws seps tail ->
    Forall good_phone init -> good_phone ph ->
    strip_suffix seps (terminated x (init ++ [ph]) ++ tail) = terminated x init ++ ph.
  Proof.
    intros Hx HR Ht Hi Hp. induction init as [|p init IH].
    - cbn [app]. rewrite terminated_one, <- app_assoc, walk_phone by apply Hp.
      rewrite walk_final by assumption. now rewrite app_nil_r.
    - inversion Hi as [|? ? Hg Hi']; subst.
      cbn [app]. rewrite !terminated_cons, <- !app_assoc, walk_phone by apply Hg.
      f_equal. rewrite (walk_region [] x).
      + now rewrite IH.
      + destruct init as [|q init]; cbn [app].
        * exists ph, (x ++ terminated x [] ++ tail). split; [|exact Hp].
          now rewrite terminated_cons, <- !app_assoc.
        * exists q, (x ++ terminated x (init ++ [ph]) ++ tail).
          split; [now rewrite terminated_cons, <- !app_assoc|].
          now inversion Hi'.
      + exists x. split; [exact HR|reflexivity].
  Qed.
  Lemma phone_headed_terminated (x tail : str) (syl : list str) :
    syl <> [] -> Forall good_phone syl -> phone_headed (terminated x syl ++ tail).
  Proof.
    intros Hn H. destruct H as [|ph syl Hp _]; [congruence|].
    exists ph, (x ++ terminated x syl ++ tail). split; [|exact Hp].
    now rewrite terminated_cons, <- !app_assoc.
  Qed.

  (* a complete syllable [ph1 x ... phn x y] followed by another phone: nothing is cut *)
  Lemma walk_syl_mid (x y rest : str) (syl : list str) :
    In x regions -> In (x ++ y) regions ->
    syl <> [] -> Forall good_phone syl -> phone_headed rest ->
    strip_suffix seps (terminated x syl ++ y ++ rest)
    = terminated x syl ++ y ++ strip_suffix seps rest.
  Proof.
    intros Rx Rxy Hn H Hr. induction syl as [|ph syl IH]; [congruence|].
    inversion H as [|? ? Hp H']; subst.
    rewrite terminated_cons, <- !app_assoc, walk_phone by apply Hp. f_equal.
    destruct syl as [|q syl].
    - rewrite terminated_nil. cbn [app].
      rewrite (app_assoc x y rest), (walk_region [] (x ++ y)); [now rewrite <- app_assoc|exact Hr|].
      exists (x ++ y). split; [exact Rxy|reflexivity].
    - rewrite (walk_region [] x).
      + f_equal. apply IH; [discriminate|exact H'].
      + apply phone_headed_terminated; [discriminate|exact H'].
      + exists x. split; [exact Rx|reflexivity].
  Qed.

  Lemma phone_headed_body (x y : str) (w : list (list str)) :
    w <> [] -> Forall (fun syl : list str => syl <> [] /\ Forall good_phone syl) w ->
    phone_headed (terminated y (map (terminated x) w)).
  Proof.
    intros Hn H. destruct H as [|syl w [Hs Hp] _]; [congruence|].
    cbn [map]. rewrite terminated_cons. now apply phone_headed_terminated.
  Qed.

  (* a whole word [S1 y S2 y ... Sn y], Sk = [ph x ph x ...]: exactly the final [x y] is cut *)
  Lemma walk_body (x y : str) (winit : list (list str)) (sinit : list str) (ph : str) :
    In x seps -> In y seps -> In x regions -> In (x ++ y) regions ->
    Forall (fun syl : list str => syl <> [] /\ Forall good_phone syl) winit ->
    Forall good_phone sinit -> good_phone ph ->
    strip_suffix seps (terminated y (map (terminated x) (winit ++ [sinit ++ [ph]])))
    = terminated y (map (terminated x) winit) ++ terminated x sinit ++ ph.
  Proof.
    intros Sx Sy Rx Rxy Hw Hs Hp. induction winit as [|syl winit IH].
    - cbn [app map]. rewrite terminated_one, terminated_nil. cbn [app].
      apply walk_terminated_last; try assumption.
      rewrite <- (app_nil_r y). apply sw_sep; [exact Sy| |constructor].
      exact (proj1 (Forall_forall _ _) seps_ne y Sy).
    - inversion Hw as [|? ? [Hn Hg] Hw']; subst.
      cbn [app map]. rewrite !terminated_cons, <- !app_assoc.
      rewrite walk_syl_mid; try assumption.
      + now rewrite IH.
      + apply phone_headed_body.
        * destruct winit; discriminate.
        * apply Forall_app. split; [exact Hw'|]. constructor; [|constructor]. split.
          -- destruct sinit; discriminate.
          -- apply Forall_app. split; [exact Hs|]. now constructor.
  Qed.
  (* tokens joined by [x] without a trailing separator: nothing is cut *)
  Lemma walk_joined (x : str) (init : list str) (ph : str) :
    In x regions -> Forall good_phone init -> good_phone ph ->
    strip_suffix seps (terminated x init ++ ph) = terminated x init ++ ph.
  Proof.
    intros HR Hi Hp. induction init as [|p init IH].
    - cbn [app]. rewrite terminated_nil. cbn [app].
      rewrite <- (app_nil_r ph) at 1. rewrite walk_phone by apply Hp.
      now rewrite strip_suffix_nil, app_nil_r.
    - inversion Hi as [|? ? Hg Hi']; subst.
      rewrite !terminated_cons, <- !app_assoc, walk_phone by apply Hg.
      f_equal. rewrite (walk_region [] x).
      + now rewrite IH.
      + destruct init as [|q init].
        * rewrite terminated_nil. cbn [app]. exists ph, []. split; [now rewrite app_nil_r|exact Hp].
        * apply phone_headed_terminated; [discriminate|exact Hi'].
      + exists x. split; [exact HR|reflexivity].
  Qed.
End Walk.
