(* C08, layer 3: why the word- and syllable-level round trips need more than the
   only_at_end hypotheses.  All instances below are decided by computation. *)
From WS Require Import Base.Py Base.Str Separator.Model Separator.Render.
From WS Require Import Separator.StrLemmas Separator.StripLemmas Separator.ProofsTree.
Open Scope N_scope.

Definition all_only_at_end (xp xs xw : str) (t : utree) : bool :=
  forallb (fun w : list (list str) =>
    only_at_end xw (word_body xp xs w) &&
    forallb (fun syl : list str =>
      only_at_end xs (terminated xp syl) && forallb (only_at_end xp) syl) w) t.

(* 1. a phone separator that ends in whitespace without being whitespace:
      the per-token strip() eats half of the last separator. *)
Example ce_trailing_space :
  let xp := [59; 32] in let xs := [59; 115] in let xw := [59; 119] in
  let t : utree := [[[[97]; [98]]]] in
  all_only_at_end xp xs xw t = true /\
  tokenize (sep3 xp xs xw) (render (sep3 xp xs xw) t) Phone false = Ok [[97]; [98; 59]].
Proof. vm_compute. split; reflexivity. Qed.

(* 2. every only_at_end hypothesis holds, separators have no whitespace, but a phone
      starts with the first character of a separator: the final strip_with finds a
      separator sequence "bcb"."a"."bcb" that runs over the phone "cb". *)
Example ce_head_char :
  let xp := [97] in let xs := [98; 99; 98] in let xw := [97; 97] in
  let t : utree := [[[[98]]; [[99; 98]]]] in
  all_only_at_end xp xs xw t = true /\
  tokenize (sep3 xp xs xw) (render (sep3 xp xs xw) t) Word false = Ok [[98; 98; 99]] /\
  map word_plain t = [[98; 99; 98]].
Proof. vm_compute. repeat split; reflexivity. Qed.

(* 3. no phone contains the first character of a separator, but the phone separator
      "ab" has the proper prefix "a" which is a suffix of the group "ab"."aa". *)
Example ce_border :
  let xp := [97; 98] in let xs := [97; 97] in let xw := [99] in
  let t : utree := [[[[98]]; [[98]]]] in
  all_only_at_end xp xs xw t = true /\
  tokenize (sep3 xp xs xw) (render (sep3 xp xs xw) t) Word false = Ok [[98; 97]] /\
  map word_plain t = [[98; 98]].
Proof. vm_compute. repeat split; reflexivity. Qed.
