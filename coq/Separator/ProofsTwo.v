(* C08, layer 3: the syllable level undefined (phone and word separators only). *)
From WS Require Import Base.Py Base.Str Separator.Model Separator.Render.
From WS Require Import Separator.StrLemmas Separator.StripLemmas Separator.ProofsTree
  Separator.ProofsTreeStrip Separator.ProofsNested.

Definition sep2 (xp xw : str) : separator :=
  {| s_phone := Some xp; s_syll := None; s_word := Some xw |}.

Lemma render2_eq (xp xw : str) (t : utree) :
  render (sep2 xp xw) t = terminated xw (map (terminated xp) (map (@concat str) t)).
Proof.
  unfold render, render_word, render_syll. cbn [sep2 s_phone s_syll s_word osep].
  unfold terminated at 1. rewrite !map_map. f_equal. apply map_ext. intros w. f_equal.
  rewrite <- concat_terminated. f_equal. apply map_ext. intros syl.
  unfold terminated. now rewrite app_nil_r.
Qed.

Lemma remove_all2 (xp xw u : str) :
  remove_all (sep2 xp xw) u = collapse_spaces (replace_all xp [] (replace_all xw [] u)).
Proof. reflexivity. Qed.

Lemma tokenize2_phone (xp xw utt : str) (keep : bool) :
  let sep := sep2 xp xw in
  tokenize sep utt Phone keep =
  Ok (filter nonempty
        (let t3 := map (strip_with [xw; xp])
                       (flat_map (fun s : str => tok1 sep s Phone) (tok1 sep utt Word)) in
         if keep then t3 else map (remove_all sep) t3)).
Proof. reflexivity. Qed.

Lemma tokenize2_word (xp xw utt : str) (keep : bool) :
  let sep := sep2 xp xw in
  tokenize sep utt Word keep =
  Ok (filter nonempty
        (let t3 := map (strip_with [xw; xp]) (tok1 sep utt Word) in
         if keep then t3 else map (remove_all sep) t3)).
Proof. reflexivity. Qed.

Lemma tokenize_nested2_unfold (xp xw utt : str) :
  let sep := sep2 xp xw in
  tokenize_nested sep utt =
  (do t <- mapM (fun w : list (list str) =>
                   match w with s :: _ => Ok (Node (map Leaf s)) | [] => Raise IndexError end)
                (map (fun w : str => map (fun s : str => tok1 sep s Phone) (tok1 sep w Syll))
                     (tok1 sep utt Word));
   Ok (Node t)).
Proof. reflexivity. Qed.

Lemma mapM_ok {A B} (f : A -> result B) (g : A -> B) (l : list A) :
  Forall (fun a => f a = Ok (g a)) l -> mapM f l = Ok (map g l).
Proof.
  induction 1 as [|a l Ha _ IH]; [reflexivity|]. cbn [mapM map]. now rewrite Ha, IH.
Qed.

Section Two.
  Variables xp xw : str.
  Hypothesis Hxp : xp <> [].
  Hypothesis Hxw : xw <> [].
  Let sep := sep2 xp xw.

  (* a word given as the list of its phones *)
  Definition wordp_ok (wd : list str) : Prop :=
    wd <> [] /\ Forall (phone_ok xp) wd /\ only_at_end xw (terminated xp wd) = true.

  Definition tree2_ok (t : utree) : Prop := Forall wordp_ok (map (@concat str) t).

  Definition phone_full2 (ph : str) : Prop :=
    ph <> [] /\ ws_free ph /\ infix_b xp ph = false /\ infix_b xw ph = false.

  Lemma wordp_phones (wd : list str) : wordp_ok wd -> Forall phone_full2 wd.
  Proof.
    intros (_ & Hp & Hw). apply only_at_end_no_infix in Hw; [|exact Hxw].
    apply Forall_forall. intros ph Hin.
    pose proof (proj1 (Forall_forall _ _) Hp ph Hin) as (Hn & Hws & Ho).
    repeat split; try assumption.
    - now apply only_at_end_no_infix.
    - eapply infix_b_false_In_terminated; eauto.
  Qed.

  Lemma phone_full2_seps (ph : str) : phone_full2 ph ->
    Forall (fun x : str => infix_b x ph = false) [xw; xp].
  Proof. intros (_ & _ & H1 & H2). repeat constructor; assumption. Qed.

  Lemma plain2 (t : utree) : concat (map word_plain t) = concat (concat (map (@concat str) t)).
  Proof. rewrite plain_phones. f_equal. apply concat_concat. Qed.

  (* ---- remove ---- *)

  Theorem remove_render2 : forall t : utree, tree2_ok t ->
    remove sep (render sep t) None = Ok (concat (map word_plain t)).
  Proof.
    intros t H. unfold remove. f_equal.
    change (remove_sel sep ?u (fun _ => true)) with (remove_all sep u).
    unfold sep. rewrite remove_all2, render2_eq. unfold tree2_ok in H.
    set (ws := map (@concat str) t) in *. unfold terminated at 1.
    rewrite replace_all_joined; [|exact Hxw|].
    2:{ apply Forall_map. eapply Forall_impl; [|exact H]. now intros wd (_ & _ & Hw). }
    rewrite concat_terminated. unfold terminated.
    rewrite replace_all_joined; [|exact Hxp|].
    2:{ apply Forall_concat. eapply Forall_impl; [|exact H]. intros wd (_ & Hp & _).
        eapply Forall_impl; [|exact Hp]. now intros ph (_ & _ & Ho). }
    rewrite plain2. fold ws. apply collapse_spaces_ws_free, ws_free_concat.
    apply Forall_concat. eapply Forall_impl; [|exact H]. intros wd (_ & Hp & _).
    eapply Forall_impl; [|exact Hp]. now intros ph (_ & Hws & _).
  Qed.

  (* ---- phone level and nested ---- *)

  Hypothesis Hep : ends_ok xp.

  Lemma wordp_body_ok (wd : list str) : wordp_ok wd ->
    terminated xp wd <> [] /\ clean_ends (terminated xp wd).
  Proof.
    intros (Hn & Hp & _). split; [now apply terminated_nonnil|]. split.
    - destruct Hp as [|ph wd (Hph & Hws & _) _]; [congruence|].
      rewrite terminated_cons. apply starts_ok_app; [exact Hph|now apply ws_free_starts_ok].
    - unfold terminated. apply ends_ok_concat.
      + destruct wd; [congruence|discriminate].
      + apply Forall_map. eapply Forall_impl; [|exact Hp]. intros ph _. split.
        * destruct ph; cbn [app]; [exact Hxp|discriminate].
        * now apply ends_ok_app.
  Qed.

  Lemma tok1_word2 (ws : list (list str)) : Forall wordp_ok ws ->
    tok1 sep (terminated xw (map (terminated xp) ws)) Word = map (terminated xp) ws.
  Proof.
    intros H. apply tok1_terminated; [reflexivity|exact Hxw|].
    apply Forall_map. eapply Forall_impl; [|exact H]. intros wd Hw.
    destruct (wordp_body_ok wd Hw) as [H1 H2]. split; [exact H1|split; [exact H2|apply Hw]].
  Qed.

  Lemma tok1_phone2 (wd : list str) : wordp_ok wd -> tok1 sep (terminated xp wd) Phone = wd.
  Proof.
    intros (_ & Hp & _). apply tok1_terminated; [reflexivity|exact Hxp|].
    eapply Forall_impl; [|exact Hp]. intros ph (H1 & H2 & H3).
    split; [exact H1|split; [now apply ws_free_clean_ends|exact H3]].
  Qed.

  Theorem tokenize_phone2 : forall (t : utree) (keep : bool), tree2_ok t ->
    tokenize sep (render sep t) Phone keep = Ok (concat (map (@concat str) t)).
  Proof.
    intros t keep H. unfold sep. rewrite tokenize2_phone, render2_eq. cbv zeta. fold sep.
    unfold tree2_ok in H. set (ws := map (@concat str) t) in *.
    rewrite tok1_word2 by exact H. rewrite flat_map_map.
    rewrite (flat_map_ext_Forall _ (fun wd : list str => wd)).
    2:{ eapply Forall_impl; [|exact H]. intros wd. apply tok1_phone2. }
    rewrite flat_map_id_concat.
    assert (Hph : Forall phone_full2 (concat ws)).
    { apply Forall_concat. eapply Forall_impl; [|exact H]. intros wd. apply wordp_phones. }
    rewrite (map_id_Forall (strip_with [xw; xp])).
    2:{ eapply Forall_impl; [|exact Hph]. intros ph Hf. apply strip_with_id.
        - now apply phone_full2_seps.
        - apply ws_free_clean_ends, Hf. }
    f_equal.
    assert (Hne : filter nonempty (concat ws) = concat ws).
    { apply filter_nonempty_id. eapply Forall_impl; [|exact Hph]. now intros ph (Hn & _). }
    destruct keep; [exact Hne|].
    rewrite (map_id_Forall (remove_all sep)); [exact Hne|].
    eapply Forall_impl; [|exact Hph]. intros ph Hf. apply remove_all_id.
    - now apply phone_full2_seps.
    - apply ws_free_no_sp, Hf.
  Qed.

  Definition tree_of2 (t : utree) : tree :=
    Node (map (fun w : list (list str) => Node (map Leaf (concat w))) t).

  Lemma leaves_tree_of2 (t : utree) : leaves (tree_of2 t) = concat (map (@concat str) t).
  Proof.
    unfold tree_of2. cbn [leaves]. induction t as [|w t IH]; [reflexivity|].
    cbn [map flat_map concat]. now rewrite IH, leaves_syl.
  Qed.

  Theorem tokenize_nested2 : forall t : utree, tree2_ok t ->
    tokenize_nested sep (render sep t) = Ok (tree_of2 t).
  Proof.
    intros t H. unfold sep. rewrite tokenize_nested2_unfold, render2_eq. cbv zeta. fold sep.
    unfold tree2_ok in H. rewrite tok1_word2 by exact H. rewrite !map_map.
    rewrite (map_ext_Forall _ (fun w : list (list str) => [concat w])).
    2:{ rewrite Forall_map in H. eapply Forall_impl; [|exact H]. intros w Hw.
        unfold tok1 at 2. cbn [get_level sep sep2 s_syll map]. now rewrite tok1_phone2. }
    rewrite (mapM_ok _ (fun w : list (list str) => Node (map Leaf (hd [] w)))).
    - cbn [bind]. unfold tree_of2. now rewrite map_map.
    - apply Forall_map. apply Forall_forall. intros w _. reflexivity.
  Qed.

  Theorem tokenize_nested_flatten2 : forall (t : utree) (keep : bool), tree2_ok t ->
    exists tr : tree,
      tokenize_nested sep (render sep t) = Ok tr /\
      tokenize sep (render sep t) Phone keep = Ok (leaves tr).
  Proof.
    intros t keep H. exists (tree_of2 t). split; [now apply tokenize_nested2|].
    rewrite leaves_tree_of2. now apply tokenize_phone2.
  Qed.

  Theorem tokenize_syll2_rejected : forall (utt : str) (keep : bool),
    tokenize sep utt Syll keep = Raise ValueError.
  Proof. reflexivity. Qed.

  (* ---- word level: the final strip over both separators does real work ---- *)

  Let seps := [xw; xp].
  Let regions := [xp].
  Hypothesis NB : forall x R : str, In x seps -> In R regions -> no_border x R.

  Definition tree2_hf (t : utree) : Prop := Forall (Forall (head_free [xw; xp])) (map (@concat str) t).

  Let seps_ne : Forall (fun x : str => x <> []) seps.
  Proof. repeat constructor; assumption. Qed.

  Lemma good_phones2 (wd : list str) :
    Forall (phone_ok xp) wd -> Forall (head_free seps) wd -> Forall (good_phone seps) wd.
  Proof.
    intros H. induction H as [|ph wd (Hn & Hws & _) _ IH]; intros Hh; [constructor|].
    inversion Hh; subst. constructor; [|now apply IH]. repeat split; assumption.
  Qed.

  Lemma wordp_strip_remove (wd : list str) : wordp_ok wd -> Forall (head_free seps) wd ->
    remove_all sep (strip_with seps (terminated xp wd)) = concat wd.
  Proof.
    intros (Hn & Hp & Hw) Hh.
    pose proof (good_phones2 wd Hp Hh) as Hg.
    assert (Hpo : Forall (fun ph : str => only_at_end xp ph = true) wd).
    { eapply Forall_impl; [|exact Hp]. now intros ph (_ & _ & Ho). }
    assert (Hws : Forall ws_free wd).
    { eapply Forall_impl; [|exact Hp]. now intros ph (_ & Hw' & _). }
    apply only_at_end_no_infix in Hw; [|exact Hxw].
    destruct (exists_last Hn) as (init & ph & ->).
    apply Forall_app in Hg as [Hgi Hgp]. inversion Hgp as [|? ? Hgph _]; subst.
    apply Forall_app in Hpo as [Hpoi Hpop]. inversion Hpop as [|? ? Hoph _]; subst.
    apply Forall_app in Hws as [Hwsi Hwsp]. inversion Hwsp as [|? ? Hwph _]; subst.
    assert (Hstrip : strip_with seps (terminated xp (init ++ [ph])) = terminated xp init ++ ph).
    { unfold strip_with, seps. fold seps.
      rewrite strip_prefix_phone_headed; [|exact seps_ne|].
      2:{ rewrite <- (app_nil_r (terminated _ _)).
          apply phone_headed_terminated; [destruct init; discriminate|].
          apply Forall_app. split; [exact Hgi|now constructor]. }
      rewrite <- (app_nil_r (terminated xp (init ++ [ph]))).
      rewrite (walk_terminated_last seps seps_ne regions NB);
        try assumption; try (cbn; now auto); [|constructor].
      apply strip_clean_ends. split.
      - apply (starts_ok_app_inv _ (xp ++ [])).
        + intros E. apply app_eq_nil in E as [_ E]. now destruct Hgph.
        + rewrite <- app_assoc. replace (ph ++ xp ++ []) with (terminated xp [ph] ++ [])
            by (now rewrite terminated_one, <- app_assoc).
          rewrite app_assoc, <- terminated_app.
          apply (phone_headed_starts_ok seps).
          apply phone_headed_terminated; [destruct init; discriminate|].
          apply Forall_app. split; [exact Hgi|now constructor].
      - apply ends_ok_app; [now destruct Hgph|now apply ws_free_ends_ok]. }
    rewrite Hstrip. unfold sep. rewrite remove_all2.
    assert (E : terminated xp (init ++ [ph]) = (terminated xp init ++ ph) ++ xp).
    { now rewrite terminated_app, terminated_one, app_assoc. }
    rewrite E in Hw. apply infix_b_false_app_l in Hw.
    rewrite (replace_all_no_infix xw) by exact Hw.
    unfold terminated. rewrite replace_all_joined_rest by assumption.
    rewrite (replace_all_no_infix xp) by now apply only_at_end_no_infix.
    rewrite concat_app. cbn [concat]. rewrite app_nil_r.
    apply collapse_spaces_ws_free, ws_free_app. split; [|exact Hwph].
    now apply ws_free_concat.
  Qed.

  Theorem tokenize_word2 : forall t : utree, tree2_ok t -> tree2_hf t ->
    tokenize sep (render sep t) Word false = Ok (map word_plain t).
  Proof.
    intros t H Hh. unfold sep. rewrite tokenize2_word, render2_eq. cbv zeta. fold sep.
    unfold tree2_ok in H. unfold tree2_hf in Hh.
    rewrite tok1_word2 by exact H. f_equal. rewrite !map_map.
    assert (E : map word_plain t = map (fun w : list (list str) => concat (concat w)) t).
    { apply map_ext. intros w. unfold word_plain, syll_plain. symmetry. apply concat_concat. }
    rewrite E.
    rewrite (map_ext_Forall _ (fun w : list (list str) => concat (concat w))).
    2:{ apply Forall_forall. intros w Hin. apply wordp_strip_remove.
        - apply (proj1 (Forall_forall _ _) H). now apply in_map.
        - apply (proj1 (Forall_forall _ _) Hh). now apply in_map. }
    apply filter_nonempty_id. apply Forall_map. rewrite Forall_map in H.
    eapply Forall_impl; [|exact H]. intros w (Hn & Hp & _).
    destruct Hp as [|ph wd (Hph & _) _]; [congruence|]. now apply concat_nonnil_hd.
  Qed.

End Two.
