(* C08, layer 2: the word-only configuration used by the evaluation module. *)
From WS Require Import Base.Py Base.Str Separator.Model Separator.Render.
From WS Require Export Separator.StrLemmas Separator.StripLemmas Separator.ProofsCtor.

Definition word_only (x : str) : separator :=
  {| s_phone := None; s_syll := None; s_word := Some x |}.

(* a token that can be recovered: non-empty, no whitespace, and the separator
   does not occur in [t ++ x] before the very end *)
Definition good_tok (x t : str) : Prop :=
  t <> [] /\ ws_free t /\ only_at_end x t = true.

Lemma good_tok_no_infix (x t : str) : x <> [] -> good_tok x t -> infix_b x t = false.
Proof. intros Hx (_ & _ & H). now apply only_at_end_no_infix. Qed.

Lemma good_tok_strip_with (x t : str) : x <> [] -> good_tok x t -> strip_with [x] t = t.
Proof.
  intros Hx H. apply strip_with_id.
  - constructor; [now apply good_tok_no_infix|constructor].
  - apply ws_free_clean_ends, H.
Qed.

Lemma good_tok_remove_all (x t : str) : x <> [] -> good_tok x t -> remove_all (word_only x) t = t.
Proof.
  intros Hx H. apply remove_all_id.
  - cbn. constructor; [now apply good_tok_no_infix|constructor].
  - apply ws_free_no_sp, H.
Qed.

Lemma tok1_word_only (x : str) (toks : list str) : x <> [] ->
  Forall (good_tok x) toks ->
  tok1 (word_only x) (concat (map (fun t : str => t ++ x) toks)) Word = toks.
Proof.
  intros Hx H. unfold tok1. cbn [get_level word_only s_word].
  rewrite split_on_joined; [|exact Hx|].
  2:{ eapply Forall_impl; [|exact H]. now intros t (_ & _ & Ht). }
  rewrite filter_app. cbn [filter nonempty]. rewrite app_nil_r.
  rewrite filter_nonempty_id.
  2:{ eapply Forall_impl; [|exact H]. now intros t (Ht & _). }
  apply map_id_Forall. eapply Forall_impl; [|exact H].
  intros t Ht. now apply good_tok_strip_with.
Qed.

Theorem tokenize_word_only : forall (x : str) (toks : list str) (keep : bool),
  x <> [] -> Forall (good_tok x) toks ->
  tokenize (word_only x) (concat (map (fun t : str => t ++ x) toks)) Word keep = Ok toks.
Proof.
  intros x toks keep Hx H. unfold tokenize, check_level.
  cbn [get_level word_only s_word s_syll s_phone bind].
  rewrite tok1_word_only by assumption.
  change (levels_for {| s_phone := None; s_syll := None; s_word := Some x |} None) with [x].
  rewrite (map_id_Forall (strip_with [x])).
  2:{ eapply Forall_impl; [|exact H]. intros t Ht. now apply good_tok_strip_with. }
  f_equal.
  assert (Hne : filter nonempty toks = toks).
  { apply filter_nonempty_id. eapply Forall_impl; [|exact H]. now intros t (Ht & _). }
  destruct keep; [exact Hne|].
  fold (word_only x). rewrite (map_id_Forall (remove_all (word_only x))); [exact Hne|].
  eapply Forall_impl; [|exact H]. intros t Ht. now apply good_tok_remove_all.
Qed.

Theorem remove_word_only : forall (x : str) (toks : list str),
  x <> [] -> Forall (good_tok x) toks ->
  remove (word_only x) (concat (map (fun t : str => t ++ x) toks)) None = Ok (concat toks).
Proof.
  intros x toks Hx H. unfold remove. f_equal.
  change (remove_sel (word_only x) ?u (fun _ => true)) with (remove_all (word_only x) u).
  rewrite remove_all_unfold. cbn [word_only s_word s_syll s_phone]. cbv zeta.
  rewrite replace_all_joined; [|exact Hx|].
  2:{ eapply Forall_impl; [|exact H]. now intros t (_ & _ & Ht). }
  apply collapse_spaces_ws_free, ws_free_concat.
  eapply Forall_impl; [|exact H]. now intros t (_ & Ht & _).
Qed.

(* remove at the word level is the same thing *)
Theorem remove_word_only_level : forall (x : str) (toks : list str),
  x <> [] -> Forall (good_tok x) toks ->
  remove (word_only x) (concat (map (fun t : str => t ++ x) toks)) (Some Word) = Ok (concat toks).
Proof.
  intros x toks Hx H. pose proof (remove_word_only x toks Hx H) as R.
  unfold remove, check_level in *. cbn [get_level word_only s_word bind] in *.
  exact R.
Qed.

(* split at word level on the joined string: the tokens plus the trailing '' *)
Theorem split_word_only : forall (x : str) (toks : list str) (keep : bool),
  x <> [] -> Forall (good_tok x) toks ->
  split (word_only x) (concat (map (fun t : str => t ++ x) toks)) Word keep = Ok (toks ++ [[]]).
Proof.
  intros x toks keep Hx H. unfold split. cbn [get_level word_only s_word]. f_equal.
  rewrite split_on_joined; [|exact Hx|].
  2:{ eapply Forall_impl; [|exact H]. now intros t (_ & _ & Ht). }
  assert (L : forall t : str, ws_free t -> lstrip_sp t = t).
  { intros t Ht. apply ws_free_no_sp in Ht. destruct Ht as [|c t Hc _]; [reflexivity|].
    cbn [lstrip_sp]. now rewrite Hc. }
  fold (word_only x).
  assert (R0 : remove_all (word_only x) [] = []).
  { apply remove_all_id; [|constructor].
    cbn [word_only s_word s_syll s_phone defined flat_map app]. constructor; [|constructor].
    rewrite infix_b_nil. now rewrite prefix_b_nil_r. }
  destruct keep; rewrite !map_app, map_map; cbn [map]; f_equal.
  - apply map_id_Forall. eapply Forall_impl; [|exact H]. intros t (Ht1 & Ht2 & Ht3).
    rewrite collapse_spaces_ws_free by exact Ht2. now apply L.
  - apply map_id_Forall. eapply Forall_impl; [|exact H]. intros t Ht.
    rewrite good_tok_remove_all by assumption. apply L, Ht.
  - now rewrite R0.
Qed.

(* ---- the separator between the tokens only: x.join(toks ++ [last]) ---- *)

Lemma Forall_good_app (x : str) (toks : list str) (last : str) :
  Forall (good_tok x) toks -> good_tok x last -> Forall (good_tok x) (toks ++ [last]).
Proof. intros H Hl. apply Forall_app. split; [exact H|now constructor]. Qed.

Lemma tok1_word_only_join (x : str) (toks : list str) (last : str) : x <> [] ->
  Forall (good_tok x) toks -> good_tok x last ->
  tok1 (word_only x) (concat (map (fun t : str => t ++ x) toks) ++ last) Word = toks ++ [last].
Proof.
  intros Hx H Hl. pose proof (Forall_good_app x toks last H Hl) as Ha.
  unfold tok1. cbn [get_level word_only s_word].
  rewrite split_on_join; [|exact Hx| |now apply good_tok_no_infix].
  2:{ eapply Forall_impl; [|exact H]. now intros t (_ & _ & Ht). }
  rewrite filter_nonempty_id.
  2:{ eapply Forall_impl; [|exact Ha]. now intros t (Ht & _). }
  apply map_id_Forall. eapply Forall_impl; [|exact Ha].
  intros t Ht. now apply good_tok_strip_with.
Qed.

Theorem tokenize_word_only_join : forall (x : str) (toks : list str) (last : str) (keep : bool),
  x <> [] -> Forall (good_tok x) toks -> good_tok x last ->
  tokenize (word_only x) (concat (map (fun t : str => t ++ x) toks) ++ last) Word keep
  = Ok (toks ++ [last]).
Proof.
  intros x toks last keep Hx H0 Hl. pose proof (Forall_good_app x toks last H0 Hl) as H.
  unfold tokenize, check_level.
  cbn [get_level word_only s_word s_syll s_phone bind].
  rewrite tok1_word_only_join by assumption.
  change (levels_for {| s_phone := None; s_syll := None; s_word := Some x |} None) with [x].
  rewrite (map_id_Forall (strip_with [x])).
  2:{ eapply Forall_impl; [|exact H]. intros t Ht. now apply good_tok_strip_with. }
  f_equal.
  assert (Hne : filter nonempty (toks ++ [last]) = toks ++ [last]).
  { apply filter_nonempty_id. eapply Forall_impl; [|exact H]. now intros t (Ht & _). }
  destruct keep; [exact Hne|].
  fold (word_only x). rewrite (map_id_Forall (remove_all (word_only x))); [exact Hne|].
  eapply Forall_impl; [|exact H]. intros t Ht. now apply good_tok_remove_all.
Qed.

Theorem remove_word_only_join : forall (x : str) (toks : list str) (last : str),
  x <> [] -> Forall (good_tok x) toks -> good_tok x last ->
  remove (word_only x) (concat (map (fun t : str => t ++ x) toks) ++ last) None
  = Ok (concat (toks ++ [last])).
Proof.
  intros x toks last Hx H Hl. unfold remove. f_equal.
  change (remove_sel (word_only x) ?u (fun _ => true)) with (remove_all (word_only x) u).
  rewrite remove_all_unfold. cbn [word_only s_word s_syll s_phone]. cbv zeta.
  rewrite replace_all_joined_rest; [|exact Hx|].
  2:{ eapply Forall_impl; [|exact H]. now intros t (_ & _ & Ht). }
  rewrite replace_all_no_infix by now apply good_tok_no_infix.
  rewrite concat_app. cbn [concat]. rewrite app_nil_r.
  apply collapse_spaces_ws_free, ws_free_app. split; [|apply Hl].
  apply ws_free_concat. eapply Forall_impl; [|exact H]. now intros t (_ & Ht & _).
Qed.
