(* C08, layer 0: constructor checks and undefined levels. *)
From WS Require Import Base.Py Base.Str Separator.Model.

Lemma existsb_str_eqb_In (x : str) (l : list str) :
  existsb (str_eqb x) l = true <-> In x l.
Proof.
  rewrite existsb_exists. split.
  - intros [y [Hy E]]. apply str_eqb_eq in E. now subst.
  - intros H. exists x. split; [exact H|apply str_eqb_refl].
Qed.

Theorem has_dup_spec : forall l : list str, has_dup l = false <-> NoDup l.
Proof.
  induction l as [|x r IH]; cbn [has_dup].
  - split; [constructor|reflexivity].
  - rewrite orb_false_iff, IH. split.
    + intros [H1 H2]. constructor; [|exact H2].
      intros Hin. apply existsb_str_eqb_In in Hin. congruence.
    + intros H. inversion H as [|? ? Hn Hd]; subst. split; [|exact Hd].
      destruct (existsb (str_eqb x) r) eqn:E; [|reflexivity].
      apply existsb_str_eqb_In in E. contradiction.
Qed.

Theorem ctor_rejects_iff : forall p s w : option str,
  let ds := defined [truthy p; truthy s; truthy w] in
  (has_dup ds = true \/ existsb has_forbidden ds = true) <->
  mk_separator p s w = Raise ValueError.
Proof.
  intros p s w ds. unfold mk_separator. fold ds.
  destruct (has_dup ds); [split; [reflexivity|now left]|].
  destruct (existsb has_forbidden ds); [split; [reflexivity|now right]|].
  split; [intros [H|H]; discriminate|discriminate].
Qed.

Theorem ctor_accepts : forall (p s w : option str) (sep : separator),
  mk_separator p s w = Ok sep ->
  s_phone sep = truthy p /\ s_syll sep = truthy s /\ s_word sep = truthy w.
Proof.
  intros p s w sep. unfold mk_separator.
  destruct (has_dup _); [discriminate|].
  destruct (existsb _ _); [discriminate|].
  intros H. injection H as <-. cbn. auto.
Qed.

(* an accepted separator has pairwise distinct, forbidden-character-free,
   non-empty defined entries *)
Theorem ctor_accepts_wf : forall (p s w : option str) (sep : separator),
  mk_separator p s w = Ok sep ->
  NoDup (defined [s_phone sep; s_syll sep; s_word sep]) /\
  Forall (fun x : str => has_forbidden x = false /\ x <> [])
         (defined [s_phone sep; s_syll sep; s_word sep]).
Proof.
  intros p s w sep H. pose proof (ctor_accepts _ _ _ _ H) as (Hp & Hs & Hw).
  unfold mk_separator in H.
  destruct (has_dup _) eqn:Hd; [discriminate|].
  destruct (existsb _ _) eqn:Hf; [discriminate|].
  rewrite Hp, Hs, Hw. split; [now apply has_dup_spec|].
  apply Forall_forall. intros x Hx. split.
  - destruct (has_forbidden x) eqn:E; [|reflexivity].
    assert (existsb has_forbidden (defined [truthy p; truthy s; truthy w]) = true)
      by (apply existsb_exists; eauto).
    congruence.
  - intros ->. clear - Hx.
    destruct p as [[|]|], s as [[|]|], w as [[|]|]; cbn in Hx;
      repeat (destruct Hx as [Hx|Hx]; [discriminate|]); exact Hx.
Qed.

Theorem undefined_level_rejected : forall (sep : separator) (utt : str) (l : level) (keep : bool),
  get_level sep l = None ->
  tokenize sep utt l keep = Raise ValueError /\
  remove sep utt (Some l) = Raise ValueError /\
  sep_strip sep utt (Some l) = Raise ValueError /\
  split sep utt l keep = Raise ValueError.
Proof.
  intros sep utt l keep H.
  unfold tokenize, remove, sep_strip, split, check_level. rewrite H. cbn [bind].
  repeat split.
Qed.
